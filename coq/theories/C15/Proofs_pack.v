(* C15 — the two packers side by side.  Everything here holds for EVERY record packer
   [pack_rr] / name packer [pack_name] that satisfies the stated hypotheses about the
   library primitives (in-place, deterministic in the prefix already written). *)
From Sdns Require Import Common.Base Gen.C15 C15.Model C15.Proofs_bits C15.Proofs_select C15.Proofs_buf.
Open Scope nat_scope.

Section PackProofs.
  Variables Name Body CMap : Type.
  Variable name_zero : Name.
  Variable cm_empty : CMap.
  Variable cm_len : CMap -> N.
  Variable pack_name : Name -> buf -> nat -> option CMap -> bool -> option (nat * buf * option CMap).
  Variable pack_rr : rrhdr Name -> Body -> buf -> nat -> option CMap -> bool -> option (nat * nat * buf * option CMap).
  Variable q_len : Name -> nat.
  Variable rr_len : Name -> Body -> nat.

  Notation slotT := (slot Name Body).
  Notation msgT := (msg Name Body).
  Notation pstateT := (pstate Name Body CMap).
  Notation pworkT := (pwork Name Body CMap).
  Notation PRec := (pooled_records Name Body CMap pack_rr).
  Notation PQs := (pooled_questions Name CMap pack_name).
  Notation PQ := (pooled_question Name CMap pack_name).
  Notation LQs := (lib_questions Name CMap pack_name).
  Notation LQ := (lib_question Name CMap pack_name).
  Notation LRec := (lib_records Name Body CMap pack_rr).
  Notation PInto := (pack_into_gen Name Body CMap pack_name pack_rr).
  Notation TPG := (try_pack_gen Name Body CMap name_zero cm_empty cm_len pack_name pack_rr q_len rr_len).
  Notation TP := (try_pack Name Body CMap name_zero cm_empty cm_len pack_name pack_rr q_len rr_len).
  Notation LP := (lib_pack Name Body CMap cm_empty pack_name pack_rr q_len rr_len).
  Notation LFrom := (lib_pack_from Name Body CMap pack_name pack_rr q_len rr_len).
  Notation Inv := (pool_inv Name Body CMap name_zero cm_empty).
  Notation Rel := (release Name Body CMap name_zero cm_empty cm_len).
  Notation view_shim := (rrview_header Name Body).

  (* ---- what is assumed of the library primitives ---- *)
  Definition in_place_name : Prop := forall n b off cm c o b' cm',
    pack_name n b off cm c = Some (o, b', cm') -> length b' = length b.
  Definition in_place_rr : Prop := forall h bd b off cm c he o b' cm',
    pack_rr h bd b off cm c = Some (he, o, b', cm') -> length b' = length b.
  (* a successful pack is determined by the octets before [off]: it writes every octet
     it advances over and reads nothing behind its starting point *)
  Definition prefix_determined_name : Prop := forall n b1 b2 off cm c o1 b1' cm1 o2 b2' cm2,
    agree off b1 b2 -> pack_name n b1 off cm c = Some (o1, b1', cm1) -> pack_name n b2 off cm c = Some (o2, b2', cm2) ->
    o1 = o2 /\ cm1 = cm2 /\ agree o1 b1' b2'.
  Definition prefix_determined_rr : Prop := forall h bd b1 b2 off cm c he1 o1 b1' cm1 he2 o2 b2' cm2,
    agree off b1 b2 -> pack_rr h bd b1 off cm c = Some (he1, o1, b1', cm1) -> pack_rr h bd b2 off cm c = Some (he2, o2, b2', cm2) ->
    o1 = o2 /\ cm1 = cm2 /\ agree o1 b1' b2'.
  (* on buffers of one length, success does not depend on what lies behind [off] *)
  Definition same_success_name : Prop := forall n b1 b2 off cm c,
    agree off b1 b2 -> length b1 = length b2 -> (pack_name n b1 off cm c = None <-> pack_name n b2 off cm c = None).
  Definition same_success_rr : Prop := forall h bd b1 b2 off cm c,
    agree off b1 b2 -> length b1 = length b2 -> (pack_rr h bd b1 off cm c = None <-> pack_rr h bd b2 off cm c = None).
  (* the library's sizing contract: Len() bounds what a pack writes, and a buffer with
     room for Len() never fails for lack of room *)
  Definition sized_name : Prop := forall n b off cm c o b' cm',
    pack_name n b off cm c = Some (o, b', cm') ->
    o + 4 <= off + q_len n /\
    forall b2, agree off b b2 -> off + q_len n < length b2 -> pack_name n b2 off cm c <> None.
  Definition sized_rr : Prop := forall h bd b off cm c he o b' cm',
    pack_rr h bd b off cm c = Some (he, o, b', cm') ->
    o <= off + rr_len (rh_name Name h) bd /\
    forall b2, agree off b b2 -> off + rr_len (rh_name Name h) bd < length b2 -> pack_rr h bd b2 off cm c <> None.

  (* ---------------------------------------------------------------- *)
  (** ** The message is a read-only input of the pooled path *)

  Lemma pooled_records_msg : forall opt rcode c ss w m,
    snd (PRec view_shim opt rcode c ss w m) = m.
  Proof.
    induction ss as [|s rest IH]; intros w m; [reflexivity|].
    cbn [pooled_records].
    destruct (length (pw_out Name Body CMap w) <=? pw_off Name Body CMap w); [reflexivity|].
    destruct (pack_rr _ _ _ _ _ _) as [[[[hend off1] out1] cm1]|]; [|reflexivity].
    cbn [rrview_header].
    destruct ((off1 <=? _) || _); [reflexivity|]. apply IH.
  Qed.

  Lemma pack_into_msg : forall st m opt cm c, snd (PInto view_shim st m opt cm c) = m.
  Proof.
    intros. unfold pack_into_gen.
    destruct (PQs _ _ _ _ _) as [[[off1 out1] cm1]|]; [|reflexivity].
    apply pooled_records_msg.
  Qed.

  Lemma message_untouched_l : forall st m, tp_msg Name Body CMap (TP st m) = m.
  Proof.
    intros st m. unfold try_pack, try_pack_gen.
    destruct (preflight _ _ _ _ _); try reflexivity.
    pose proof (pack_into_msg st m opt
      (if m_compress Name Body m && msg_compressible Name Body m
       then Some match ps_cmap Name Body CMap st with None => cm_empty | Some x => x end else None)
      (m_compress Name Body m && msg_compressible Name Body m)) as H.
    destruct (PInto _ _ _ _ _ _) as [[ok w] m1]. cbn [snd] in H. subst m1.
    destruct ok; reflexivity.
  Qed.

  (* ---------------------------------------------------------------- *)
  (** ** Declining produces no output; handling produces exactly one *)

  Lemma consumed_shape : forall v st m,
    let r := TPG v st m in
    (tp_handled Name Body CMap r = false /\ tp_consumed Name Body CMap r = []) \/
    (tp_handled Name Body CMap r = true /\ exists b off, tp_consumed Name Body CMap r = [slice3 b off off]).
  Proof.
    intros v st m. unfold try_pack_gen.
    destruct (preflight _ _ _ _ _); try (left; split; reflexivity).
    destruct (PInto _ _ _ _ _ _) as [[ok w] m1].
    destruct ok; [right|left]; cbn; eauto.
  Qed.

  (* every decision taken before the pooled state is borrowed leaves that state as it was *)
  Lemma preflight_decline_keeps_state : forall v st m,
    (forall o, preflight (h_rcode (m_hdr Name Body m)) (shapes Name Body (m_answer Name Body m))
                 (shapes Name Body (m_ns Name Body m)) (shapes Name Body (m_extra Name Body m))
                 (N.of_nat (msg_len Name Body q_len rr_len m)) <> Proceed o) ->
    TPG v st m = mk_tp Name Body CMap false [] st m.
  Proof.
    intros v st m H. unfold try_pack_gen.
    destruct (preflight _ _ _ _ _); try reflexivity. exfalso. eapply H. reflexivity.
  Qed.

  (* ---------------------------------------------------------------- *)
  (** ** Capacity of the slice handed to the consumer *)

  Lemma capacity_pinned_l : forall v st m s, In s (tp_consumed Name Body CMap (TPG v st m)) ->
    sl_cap s = sl_len s /\ sl_reachable s = sl_bytes s.
  Proof.
    intros v st m s Hin. destruct (consumed_shape v st m) as [[_ H]|[_ (b & off & H)]];
      rewrite H in Hin; cbn in Hin; [contradiction|].
    destruct Hin as [<-|[]]. split; reflexivity.
  Qed.

  (* ---------------------------------------------------------------- *)
  (** ** release re-establishes the pool invariant, whatever the pack did *)

  Lemma release_inv : forall st, length (ps_buf Name Body CMap st) = N.to_nat pack_buffer_size -> Inv (Rel st).
  Proof.
    intros st Hl. unfold pool_inv, release. cbn.
    split; [assumption|]. split; [|auto].
    destruct (ps_cmap Name Body CMap st) as [c|]; [|left; reflexivity].
    destruct (max_pooled_compression_entries <? cm_len c)%N; [left|right]; reflexivity.
  Qed.

  Lemma pooled_questions_len : in_place_name -> forall qs out off cm c off1 out1 cm1,
    PQs qs out off cm c = Some (off1, out1, cm1) -> length out1 = length out.
  Proof.
    intros Hn. induction qs as [|q r IH]; intros out off cm c off1 out1 cm1 H; cbn in H.
    - inversion H; reflexivity.
    - unfold pooled_question in H.
      destruct (pack_name (q_name Name q) out off cm c) as [[[o b'] cm']|] eqn:E; [|discriminate].
      change (N.to_nat question_fixed_len) with 4 in H.
      destruct (Nat.ltb_spec (length out) (o + 4)); [discriminate|].
      apply IH in H. rewrite H. pose proof (Hn _ _ _ _ _ _ _ _ E) as Hl.
      rewrite put16_pair_length by (rewrite Hl; exact H0). exact Hl.
  Qed.

  Lemma pooled_records_len : in_place_rr -> forall v opt rcode c ss w m,
    length (pw_out Name Body CMap (snd (fst (PRec v opt rcode c ss w m)))) = length (pw_out Name Body CMap w).
  Proof.
    intros Hr v opt rcode c. induction ss as [|s rest IH]; intros w m; [reflexivity|].
    cbn [pooled_records].
    destruct (length (pw_out Name Body CMap w) <=? pw_off Name Body CMap w); [reflexivity|].
    destruct (pack_rr _ _ _ _ _ _) as [[[[hend off1] out1] cm1]|] eqn:E; [|reflexivity].
    pose proof (Hr _ _ _ _ _ _ _ _ _ _ E) as Hl.
    destruct (v s); cbn zeta beta iota;
      (destruct ((off1 <=? _) || _); [cbn; assumption|]; rewrite IH; cbn; assumption).
  Qed.

  Lemma pack_into_len : in_place_name -> in_place_rr -> forall v st m opt cm c,
    12 <= length (ps_buf Name Body CMap st) ->
    length (pw_out Name Body CMap (snd (fst (PInto v st m opt cm c)))) = length (ps_buf Name Body CMap st).
  Proof.
    intros Hn Hr v st m opt cm c H12. unfold pack_into_gen.
    match goal with |- context [put16 (put16 (put16 (put16 (put16 (put16 ?b 0 ?a0) 2 ?a1) 4 ?a2) 6 ?a3) 8 ?a4) 10 ?a5] =>
      change (put16 (put16 (put16 (put16 (put16 (put16 b 0 a0) 2 a1) 4 a2) 6 a3) 8 a4) 10 a5) with (hdr6 b a0 a1 a2 a3 a4 a5);
      set (out0 := hdr6 b a0 a1 a2 a3 a4 a5) end.
    assert (Hl0 : length out0 = length (ps_buf Name Body CMap st)) by (subst out0; apply hdr6_length; assumption).
    destruct (PQs _ _ _ _ _) as [[[off1 out1] cm1]|] eqn:E; [|cbn; assumption].
    rewrite pooled_records_len by assumption. cbn.
    apply (pooled_questions_len Hn) in E. lia.
  Qed.

  Lemma try_pack_keeps_inv : in_place_name -> in_place_rr -> forall v st m,
    Inv st -> Inv (tp_state Name Body CMap (TPG v st m)).
  Proof.
    intros Hn Hr v st m HI. unfold try_pack_gen.
    destruct (preflight _ _ _ _ _); try exact HI.
    destruct HI as (Hl & _).
    match goal with |- context [PInto v st m opt ?cm ?c] =>
      pose proof (pack_into_len Hn Hr v st m opt cm c) as Hlen; destruct (PInto v st m opt cm c) as [[ok w] m1] end.
    cbn [fst snd] in Hlen.
    assert (Inv (Rel (state_after Name Body CMap st w (m_compress Name Body m && msg_compressible Name Body m)))).
    { apply release_inv. cbn. rewrite Hlen; [assumption|]. rewrite Hl. vm_compute. lia. }
    destruct ok; assumption.
  Qed.

  (* ---------------------------------------------------------------- *)
  (** ** Lock-step simulation of the two packers *)

  Lemma sim_question : in_place_name -> prefix_determined_name ->
    forall q pout lout off cm c poff' pout' pcm' loff' lout' lcm',
    agree off pout lout ->
    PQ q pout off cm c = Some (poff', pout', pcm') ->
    LQ q lout off cm c = Some (loff', lout', lcm') ->
    poff' = loff' /\ pcm' = lcm' /\ agree poff' pout' lout' /\ length lout' = length lout.
  Proof.
    intros Hn Hd q pout lout off cm c poff' pout' pcm' loff' lout' lcm' Ha HP HL.
    unfold pooled_question in HP. unfold lib_question in HL.
    destruct (pack_name (q_name Name q) pout off cm c) as [[[o1 b1] cm1]|] eqn:E1; [|discriminate].
    destruct (pack_name (q_name Name q) lout off cm c) as [[[o2 b2] cm2]|] eqn:E2; [|discriminate].
    destruct (Hd _ _ _ _ _ _ _ _ _ _ _ _ Ha E1 E2) as (-> & -> & Hag).
    pose proof (Hn _ _ _ _ _ _ _ _ E1) as Hl1. pose proof (Hn _ _ _ _ _ _ _ _ E2) as Hl2.
    change (N.to_nat question_fixed_len) with 4 in HP.
    destruct (Nat.ltb_spec (length pout) (o2 + 4)); [discriminate|]. inversion HP; subst; clear HP.
    unfold lib_pack_u16 in HL.
    destruct (Nat.ltb_spec (length b2) (o2 + 2)); [discriminate|].
    rewrite put16_length in HL by lia.
    destruct (Nat.ltb_spec (length b2) (o2 + 2 + 2)); [discriminate|]. inversion HL; subst; clear HL.
    split; [lia|]. split; [reflexivity|]. split.
    - replace (o2 + 4) with (o2 + 2 + 2) by lia.
      apply agree_put16; rewrite ?put16_length; try lia. apply agree_put16; try lia. assumption.
    - rewrite !put16_length; rewrite ?put16_length; lia.
  Qed.

  Lemma sim_questions : in_place_name -> prefix_determined_name ->
    forall qs pout lout off cm c poff' pout' pcm' loff' lout' lcm',
    agree off pout lout ->
    PQs qs pout off cm c = Some (poff', pout', pcm') ->
    LQs qs lout off cm c = Some (loff', lout', lcm') ->
    poff' = loff' /\ pcm' = lcm' /\ agree poff' pout' lout' /\ length lout' = length lout.
  Proof.
    intros Hn Hd. induction qs as [|q r IH]; intros pout lout off cm c poff' pout' pcm' loff' lout' lcm' Ha HP HL.
    - cbn in HP, HL. inversion HP; inversion HL; subst. auto.
    - cbn [pooled_questions lib_questions] in HP, HL.
      destruct (PQ q pout off cm c) as [[[o1 b1] cm1]|] eqn:E1; [|discriminate].
      destruct (LQ q lout off cm c) as [[[o2 b2] cm2]|] eqn:E2; [|discriminate].
      destruct (sim_question Hn Hd _ _ _ _ _ _ _ _ _ _ _ _ Ha E1 E2) as (-> & -> & Hag & Hl).
      destruct (IH _ _ _ _ _ _ _ _ _ _ _ Hag HP HL) as (? & ? & ? & Hl'). repeat split; auto. lia.
  Qed.

  (* the header each packer gives a record *)
  Definition eff_hdr (opt : option N) (rcode : Z) (s : slotT) : rrhdr Name :=
    if is_selected opt (s_sh Name Body s)
    then set_ttl Name (s_hdr Name Body s) (ext_ttl (rh_ttl Name (s_hdr Name Body s)) rcode)
    else s_hdr Name Body s.

  Definition lib_rewrite (opt : option N) (rcode : Z) : list slotT -> list slotT :=
    upd_where Name Body (fun s => is_selected opt (s_sh Name Body s))
              (fun s => slot_set_ttl Name Body (lib_ext_ttl (sh_ttl (s_sh Name Body s)) rcode) s).

  Lemma sim_records : prefix_determined_rr ->
    forall v opt rcode c ss w m w' m' lout lout' loff' lcm',
    PRec v opt rcode c ss w m = (true, w', m') ->
    agree (pw_off Name Body CMap w) (pw_out Name Body CMap w) lout ->
    LRec c (lib_rewrite opt rcode ss) lout (pw_off Name Body CMap w) (pw_cm Name Body CMap w) = FOk CMap lout' loff' lcm' ->
    loff' = pw_off Name Body CMap w' /\ lcm' = pw_cm Name Body CMap w' /\
    agree loff' (pw_out Name Body CMap w') lout'.
  Proof.
    intros Hd v opt rcode c. induction ss as [|s rest IH]; intros w m w' m' lout lout' loff' lcm' HP Ha HL.
    - cbn in HP, HL. inversion HP; inversion HL; subst. auto.
    - cbn [pooled_records] in HP. unfold lib_rewrite, upd_where in HL. cbn [map lib_records] in HL.
      fold (upd_where Name Body (fun s => is_selected opt (s_sh Name Body s))
              (fun s => slot_set_ttl Name Body (lib_ext_ttl (sh_ttl (s_sh Name Body s)) rcode) s) rest) in HL.
      fold (lib_rewrite opt rcode rest) in HL.
      destruct (length (pw_out Name Body CMap w) <=? pw_off Name Body CMap w); [discriminate|].
      (* both look at the same header and the same rdata *)
      assert (Hh : s_hdr Name Body (if is_selected opt (s_sh Name Body s)
                                    then slot_set_ttl Name Body (lib_ext_ttl (sh_ttl (s_sh Name Body s)) rcode) s else s)
                   = (if is_selected opt (s_sh Name Body s)
                      then set_ttl Name (s_hdr Name Body s) (ext_ttl (rh_ttl Name (s_hdr Name Body s)) rcode)
                      else s_hdr Name Body s)).
      { destruct (is_selected opt (s_sh Name Body s)); [|reflexivity].
        unfold s_hdr, slot_set_ttl, set_ttl. cbn. rewrite ext_rcode_eq_lib_all_l. reflexivity. }
      assert (Hb : s_body Name Body (if is_selected opt (s_sh Name Body s)
                                     then slot_set_ttl Name Body (lib_ext_ttl (sh_ttl (s_sh Name Body s)) rcode) s else s)
                   = s_body Name Body s).
      { destruct (is_selected opt (s_sh Name Body s)); reflexivity. }
      destruct (sh_is_nil (s_sh Name Body (if is_selected opt (s_sh Name Body s) then _ else s))); [discriminate|].
      destruct (sh_typed_nil (s_sh Name Body (if is_selected opt (s_sh Name Body s) then _ else s))); [discriminate|].
      rewrite Hh, Hb in HL.
      destruct (pack_rr _ (s_body Name Body s) (pw_out Name Body CMap w) _ _ _) as [[[[he1 o1] b1] cm1]|] eqn:E1; [|discriminate].
      destruct (pack_rr _ (s_body Name Body s) lout _ _ _) as [[[[he2 o2] b2] cm2]|] eqn:E2; [|discriminate].
      destruct (Hd _ _ _ _ _ _ _ _ _ _ _ _ _ _ _ Ha E1 E2) as (-> & -> & Hag).
      destruct (v s); cbn zeta beta iota in HP;
        (destruct ((o2 <=? _) || _); [discriminate|];
         eapply IH; [exact HP| exact Hag | exact HL]).
  Qed.

  Lemma pooled_records_app : forall v opt rcode c l1 l2 w m,
    PRec v opt rcode c (l1 ++ l2) w m =
    let '(ok, w1, m1) := PRec v opt rcode c l1 w m in
    if ok then PRec v opt rcode c l2 w1 m1 else (false, w1, m1).
  Proof.
    intros v opt rcode c. induction l1 as [|s rest IH]; intros l2 w m.
    - cbn. destruct (PRec v opt rcode c l2 w m) as [[ok w1] m1]. reflexivity.
    - cbn [app pooled_records].
      destruct (length (pw_out Name Body CMap w) <=? pw_off Name Body CMap w); [reflexivity|].
      destruct (pack_rr _ _ _ _ _ _) as [[[[he1 o1] b1] cm1]|]; [|reflexivity].
      destruct (v s); cbn zeta beta iota; (destruct ((o1 <=? _) || _); [reflexivity|apply IH]).
  Qed.

  Lemma pooled_records_false_ok : forall v opt rcode c ss w m w' m',
    PRec v opt rcode c ss w m = (false, w', m') -> True.
  Proof. trivial. Qed.

  Lemma upd_where_length : forall p f (l : list slotT), length (upd_where Name Body p f l) = length l.
  Proof. intros. unfold upd_where. apply map_length. Qed.

  Lemma lib_set_ext_none : forall rcode (m : msgT), lib_set_ext Name Body None rcode m = m.
  Proof.
    intros rcode m. unfold lib_set_ext, msg_upd, upd_where. cbn [is_selected].
    rewrite !map_id. destruct m; reflexivity.
  Qed.

  (* the pooled pack of [m] against the library's pack of [m] with the OPT rewritten *)
  Lemma sim_body : in_place_name -> in_place_rr -> prefix_determined_name -> prefix_determined_rr ->
    forall v st m opt cm c w m1 bytes' m',
    12 <= length (ps_buf Name Body CMap st) ->
    PInto v st m opt cm c = (true, w, m1) ->
    LFrom (lib_set_ext Name Body opt (h_rcode (m_hdr Name Body m)) m) c cm = (LOk bytes', m') ->
    bytes' = firstn (pw_off Name Body CMap w) (pw_out Name Body CMap w).
  Proof.
    intros Hn Hr Hdn Hdr v st m opt cm c w m1 bytes' m' H12 HP HL.
    unfold pack_into_gen in HP. unfold lib_pack_from in HL.
    set (mL := lib_set_ext Name Body opt (h_rcode (m_hdr Name Body m)) m) in *.
    destruct (has_typed_nil Name Body mL); [discriminate|].
    set (lbuf := repeat 0%N (msg_len Name Body q_len rr_len mL + 1)) in *.
    assert (HlL : 13 <= length lbuf).
    { subst lbuf. rewrite repeat_length. unfold msg_len. lia. }
    (* header *)
    assert (Hhdr : m_hdr Name Body mL = m_hdr Name Body m) by reflexivity.
    assert (Hq : m_question Name Body mL = m_question Name Body m) by reflexivity.
    assert (Han : m_answer Name Body mL = lib_rewrite opt (h_rcode (m_hdr Name Body m)) (m_answer Name Body m)) by reflexivity.
    assert (Hns : m_ns Name Body mL = lib_rewrite opt (h_rcode (m_hdr Name Body m)) (m_ns Name Body m)) by reflexivity.
    assert (Hex : m_extra Name Body mL = lib_rewrite opt (h_rcode (m_hdr Name Body m)) (m_extra Name Body m)) by reflexivity.
    rewrite Hhdr, Hq, Han, Hns, Hex in HL.
    unfold count16 in HL. unfold lib_rewrite in HL at 1 2 3. rewrite !upd_where_length in HL.
    fold (@count16 slotT (m_answer Name Body m)) (@count16 slotT (m_ns Name Body m)) (@count16 slotT (m_extra Name Body m))
         (@count16 (question Name) (m_question Name Body m)) in HL.
    rewrite <- msg_bits_eq_lib_l in HL.
    set (pb := ps_buf Name Body CMap st) in *.
    rewrite lib_header_ok in HL by lia.
    match type of HP with context [put16 (put16 (put16 (put16 (put16 (put16 ?b 0 ?a0) 2 ?a1) 4 ?a2) 6 ?a3) 8 ?a4) 10 ?a5] =>
      change (put16 (put16 (put16 (put16 (put16 (put16 b 0 a0) 2 a1) 4 a2) 6 a3) 8 a4) 10 a5) with (hdr6 b a0 a1 a2 a3 a4 a5) in HP;
      set (p6 := hdr6 b a0 a1 a2 a3 a4 a5) in HP;
      set (l6 := hdr6 lbuf a0 a1 a2 a3 a4 a5) in HL;
      assert (Hag6 : agree 12 p6 l6) by (subst p6 l6; apply hdr6_agree; lia) end.
    change (N.to_nat header_len) with 12 in HP.
    (* questions *)
    destruct (PQs (m_question Name Body m) p6 12 cm c) as [[[poff pout] pcm]|] eqn:EPQ; [|discriminate].
    destruct (LQs (m_question Name Body m) l6 12 cm c) as [[[loff lout] lcm]|] eqn:ELQ; [|discriminate].
    destruct (sim_questions Hn Hdn _ _ _ _ _ _ _ _ _ _ _ _ Hag6 EPQ ELQ) as (-> & -> & Hagq & _).
    (* records, section by section *)
    unfold m_records in HP. rewrite pooled_records_app in HP.
    set (rc := h_rcode (m_hdr Name Body m)) in *.
    destruct (PRec v opt rc c (m_answer Name Body m) _ m) as [[ok1 w1] mm1] eqn:EP1.
    destruct ok1; [|discriminate].
    rewrite pooled_records_app in HP.
    destruct (PRec v opt rc c (m_ns Name Body m) w1 mm1) as [[ok2 w2] mm2] eqn:EP2.
    destruct ok2; [|discriminate].
    destruct (LRec c (lib_rewrite opt rc (m_answer Name Body m)) lout loff lcm) as [lo1 lf1 lc1| |] eqn:EL1; try discriminate.
    destruct (sim_records Hdr _ _ _ _ _ _ _ _ _ _ _ _ _ EP1 Hagq EL1) as (-> & -> & Hag1).
    destruct (LRec c (lib_rewrite opt rc (m_ns Name Body m)) lo1 _ _) as [lo2 lf2 lc2| |] eqn:EL2; try discriminate.
    destruct (sim_records Hdr _ _ _ _ _ _ _ _ _ _ _ _ _ EP2 Hag1 EL2) as (-> & -> & Hag2).
    destruct (LRec c (lib_rewrite opt rc (m_extra Name Body m)) lo2 _ _) as [lo3 lf3 lc3| |] eqn:EL3; try discriminate.
    destruct (sim_records Hdr _ _ _ _ _ _ _ _ _ _ _ _ _ HP Hag2 EL3) as (-> & -> & Hag3).
    inversion HL; subst. symmetry. exact Hag3.
  Qed.

  (* ---------------------------------------------------------------- *)
  (** ** Byte parity *)

  Lemma nth_error_shapes : forall (l : list slotT) i x,
    nth_error (shapes Name Body l) i = Some x -> exists o, nth_error l i = Some o /\ s_sh Name Body o = x.
  Proof.
    intros l i x H. unfold shapes in H. rewrite nth_error_map in H.
    destruct (nth_error l i) as [o|]; [|discriminate]. inversion H. eauto.
  Qed.

  Theorem trypack_eq_libpack_l :
    in_place_name -> in_place_rr -> prefix_determined_name -> prefix_determined_rr ->
    forall st m bytes, Inv st ->
    tp_bytes Name Body CMap (TP st m) = Some bytes ->
    forall bytes' m', LP m = (LOk bytes', m') -> bytes = bytes'.
  Proof.
    intros Hn Hr Hdn Hdr st m bytes HI HT bytes' m' HL.
    unfold try_pack, try_pack_gen in HT.
    destruct (preflight _ _ _ _ _) as [| | | | |opt] eqn:Epf; try discriminate.
    apply preflight_proceed in Epf. destruct Epf as (Hrc & Hadm & Hsz & Hsel).
    destruct HI as (Hlen & Hcm & _).
    set (c := m_compress Name Body m && msg_compressible Name Body m) in *.
    assert (Hcmv : (if c then Some match ps_cmap Name Body CMap st with None => cm_empty | Some x => x end else None)
                   = (if c then Some cm_empty else None)).
    { destruct c; [|reflexivity]. destruct Hcm as [->| ->]; reflexivity. }
    rewrite Hcmv in HT.
    destruct (PInto view_shim st m opt _ c) as [[ok w] m1] eqn:EP.
    destruct ok; [|discriminate]. cbn in HT. inversion HT; subst bytes; clear HT.
    unfold sl_bytes. cbn.
    (* the library's side *)
    unfold lib_pack in HL.
    change rcode_min with 0%Z in Hrc. change rcode_max with 4095%Z in Hrc.
    replace ((h_rcode (m_hdr Name Body m) <? 0)%Z || (4095 <? h_rcode (m_hdr Name Body m))%Z) with false in HL
      by (symmetry; apply orb_false_iff; split; [apply Z.ltb_ge|apply Z.ltb_ge]; lia).
    rewrite <- select_opt_eq_lib_l in HL.
    change (lib_msg_compressible Name Body m) with (msg_compressible Name Body m) in HL. fold c in HL.
    assert (H12 : 12 <= length (ps_buf Name Body CMap st)) by (rewrite Hlen; vm_compute; lia).
    destruct (select_opt (shapes Name Body (m_extra Name Body m))) as [|i|] eqn:Es; [| |contradiction].
    - destruct Hsel as [-> Hp]. change rcode_plain_max with 15%Z in Hp.
      replace (15 <? h_rcode (m_hdr Name Body m))%Z with false in HL by (symmetry; apply Z.ltb_ge; lia).
      rewrite <- (lib_set_ext_none (h_rcode (m_hdr Name Body m)) m) in HL.
      symmetry. eapply (sim_body Hn Hr Hdn Hdr); eassumption.
    - destruct Hsel as (x & Hx & ->).
      apply nth_error_shapes in Hx. destruct Hx as (o & Ho & <-). rewrite Ho in HL.
      symmetry. eapply (sim_body Hn Hr Hdn Hdr); eassumption.
  Qed.

  (* ---------------------------------------------------------------- *)
  (** ** Two pooled states that satisfy the release invariant are indistinguishable *)

  Definition rel_q (r1 r2 : option (nat * buf * option CMap)) : Prop :=
    match r1, r2 with
    | Some (o1, b1, c1), Some (o2, b2, c2) => o1 = o2 /\ c1 = c2 /\ agree o1 b1 b2 /\ length b1 = length b2
    | None, None => True
    | _, _ => False
    end.

  Lemma sim2_question : in_place_name -> prefix_determined_name -> same_success_name ->
    forall q b1 b2 off cm c, agree off b1 b2 -> length b1 = length b2 ->
    rel_q (PQ q b1 off cm c) (PQ q b2 off cm c).
  Proof.
    intros Hn Hd Hs q b1 b2 off cm c Ha Hl. unfold pooled_question.
    pose proof (Hs (q_name Name q) b1 b2 off cm c Ha Hl) as Hiff.
    destruct (pack_name (q_name Name q) b1 off cm c) as [[[o1 x1] c1]|] eqn:E1;
      destruct (pack_name (q_name Name q) b2 off cm c) as [[[o2 x2] c2]|] eqn:E2.
    - destruct (Hd _ _ _ _ _ _ _ _ _ _ _ _ Ha E1 E2) as (-> & -> & Hag).
      pose proof (Hn _ _ _ _ _ _ _ _ E1). pose proof (Hn _ _ _ _ _ _ _ _ E2).
      change (N.to_nat question_fixed_len) with 4. rewrite Hl.
      destruct (Nat.ltb_spec (length b2) (o2 + 4)); cbn; [trivial|].
      split; [reflexivity|]. split; [reflexivity|]. split.
      + apply agree_put16_pair; try lia. assumption.
      + rewrite !put16_pair_length by lia. lia.
    - destruct Hiff as [_ Hc]. specialize (Hc eq_refl). discriminate.
    - destruct Hiff as [Hc _]. specialize (Hc eq_refl). discriminate.
    - exact I.
  Qed.

  Lemma sim2_questions : in_place_name -> prefix_determined_name -> same_success_name ->
    forall qs b1 b2 off cm c, agree off b1 b2 -> length b1 = length b2 ->
    rel_q (PQs qs b1 off cm c) (PQs qs b2 off cm c).
  Proof.
    intros Hn Hd Hs. induction qs as [|q r IH]; intros b1 b2 off cm c Ha Hl.
    - cbn. auto.
    - cbn [pooled_questions].
      pose proof (sim2_question Hn Hd Hs q b1 b2 off cm c Ha Hl) as Hq. unfold rel_q in Hq.
      destruct (PQ q b1 off cm c) as [[[o1 x1] c1]|]; destruct (PQ q b2 off cm c) as [[[o2 x2] c2]|]; try contradiction.
      + destruct Hq as (-> & -> & Hag & Hl2). apply IH; assumption.
      + exact I.
  Qed.

  Lemma sim2_records : in_place_rr -> prefix_determined_rr -> same_success_rr ->
    forall opt rcode c ss w1 w2 m,
    pw_off Name Body CMap w1 = pw_off Name Body CMap w2 -> pw_cm Name Body CMap w1 = pw_cm Name Body CMap w2 ->
    agree (pw_off Name Body CMap w1) (pw_out Name Body CMap w1) (pw_out Name Body CMap w2) ->
    length (pw_out Name Body CMap w1) = length (pw_out Name Body CMap w2) ->
    let r1 := PRec view_shim opt rcode c ss w1 m in
    let r2 := PRec view_shim opt rcode c ss w2 m in
    fst (fst r1) = fst (fst r2) /\
    (fst (fst r1) = true ->
     pw_off Name Body CMap (snd (fst r1)) = pw_off Name Body CMap (snd (fst r2)) /\
     pw_cm Name Body CMap (snd (fst r1)) = pw_cm Name Body CMap (snd (fst r2)) /\
     agree (pw_off Name Body CMap (snd (fst r1))) (pw_out Name Body CMap (snd (fst r1))) (pw_out Name Body CMap (snd (fst r2)))).
  Proof.
    intros Hr Hd Hs opt rcode c. induction ss as [|s rest IH]; intros w1 w2 m Ho Hc Ha Hl.
    - cbn. auto.
    - cbn [pooled_records]. rewrite <- Ho, <- Hc, <- Hl.
      destruct (length (pw_out Name Body CMap w1) <=? pw_off Name Body CMap w1); [cbn; split; [reflexivity|discriminate]|].
      set (h := if is_selected opt (s_sh Name Body s) then _ else _).
      pose proof (Hs h (s_body Name Body s) _ _ (pw_off Name Body CMap w1) (pw_cm Name Body CMap w1) c Ha Hl) as Hiff.
      destruct (pack_rr h (s_body Name Body s) (pw_out Name Body CMap w1) _ _ _) as [[[[he1 o1] x1] c1]|] eqn:E1;
        destruct (pack_rr h (s_body Name Body s) (pw_out Name Body CMap w2) _ _ _) as [[[[he2 o2] x2] c2]|] eqn:E2.
      + destruct (Hd _ _ _ _ _ _ _ _ _ _ _ _ _ _ _ Ha E1 E2) as (-> & -> & Hag).
        pose proof (Hr _ _ _ _ _ _ _ _ _ _ E1). pose proof (Hr _ _ _ _ _ _ _ _ _ _ E2).
        cbn [rrview_header]. cbn zeta beta iota.
        destruct ((o2 <=? _) || _); [cbn; split; [reflexivity|discriminate]|].
        apply IH; cbn; auto; lia.
      + destruct Hiff as [_ Hx]. specialize (Hx eq_refl). discriminate.
      + destruct Hiff as [Hx _]. specialize (Hx eq_refl). discriminate.
      + cbn. split; [reflexivity|discriminate].
  Qed.

  Theorem pool_state_noninterference_l :
    in_place_name -> in_place_rr -> prefix_determined_name -> prefix_determined_rr ->
    same_success_name -> same_success_rr ->
    forall st1 st2 m, Inv st1 -> Inv st2 ->
    tp_bytes Name Body CMap (TP st1 m) = tp_bytes Name Body CMap (TP st2 m) /\
    tp_handled Name Body CMap (TP st1 m) = tp_handled Name Body CMap (TP st2 m).
  Proof.
    intros Hn Hr Hdn Hdr Hsn Hsr st1 st2 m (Hl1 & Hc1 & _) (Hl2 & Hc2 & _).
    unfold try_pack, try_pack_gen.
    destruct (preflight _ _ _ _ _) as [| | | | |opt]; try (split; reflexivity).
    set (c := m_compress Name Body m && msg_compressible Name Body m).
    assert (E1 : (if c then Some match ps_cmap Name Body CMap st1 with None => cm_empty | Some x => x end else None)
                 = (if c then Some cm_empty else None)) by (destruct c; [destruct Hc1 as [->| ->]|]; reflexivity).
    assert (E2 : (if c then Some match ps_cmap Name Body CMap st2 with None => cm_empty | Some x => x end else None)
                 = (if c then Some cm_empty else None)) by (destruct c; [destruct Hc2 as [->| ->]|]; reflexivity).
    rewrite E1, E2. set (cm := if c then Some cm_empty else None).
    unfold pack_into_gen.
    assert (H12a : 12 <= length (ps_buf Name Body CMap st1)) by (rewrite Hl1; vm_compute; lia).
    assert (H12b : 12 <= length (ps_buf Name Body CMap st2)) by (rewrite Hl2; vm_compute; lia).
    repeat match goal with |- context [put16 (put16 (put16 (put16 (put16 (put16 ?b 0 ?a0) 2 ?a1) 4 ?a2) 6 ?a3) 8 ?a4) 10 ?a5] =>
      change (put16 (put16 (put16 (put16 (put16 (put16 b 0 a0) 2 a1) 4 a2) 6 a3) 8 a4) 10 a5) with (hdr6 b a0 a1 a2 a3 a4 a5) end.
    match goal with |- context [hdr6 (ps_buf Name Body CMap st1) ?a0 ?a1 ?a2 ?a3 ?a4 ?a5] =>
      set (p1 := hdr6 (ps_buf Name Body CMap st1) a0 a1 a2 a3 a4 a5);
      set (p2 := hdr6 (ps_buf Name Body CMap st2) a0 a1 a2 a3 a4 a5);
      assert (Hag : agree 12 p1 p2) by (subst p1 p2; apply hdr6_agree; assumption);
      assert (Hlen : length p1 = length p2) by (subst p1 p2; rewrite !hdr6_length by assumption; lia)
    end.
    change (N.to_nat header_len) with 12.
    pose proof (sim2_questions Hn Hdn Hsn (m_question Name Body m) p1 p2 12 cm c Hag Hlen) as Hq. unfold rel_q in Hq.
    destruct (PQs (m_question Name Body m) p1 12 cm c) as [[[o1 x1] c1]|];
      destruct (PQs (m_question Name Body m) p2 12 cm c) as [[[o2 x2] c2]|]; try contradiction.
    2:{ cbn. split; reflexivity. }
    destruct Hq as (-> & -> & Hagq & Hlq).
    match goal with |- context [PRec view_shim opt ?rc c ?ss ?w1 m] =>
      match goal with |- context [PRec view_shim opt rc c ss ?w2 m] =>
        lazymatch w1 with w2 => fail | _ =>
        pose proof (sim2_records Hr Hdr Hsr opt rc c ss w1 w2 m eq_refl eq_refl Hagq Hlq) as Hrec end end end.
    cbn zeta in Hrec.
    match type of Hrec with context [PRec view_shim opt ?rc c ?ss ?w1 m] =>
      destruct (PRec view_shim opt rc c ss w1 m) as [[ok1 wa] ma] end.
    match type of Hrec with context [PRec view_shim opt ?rc c ?ss ?w2 m] =>
      destruct (PRec view_shim opt rc c ss w2 m) as [[ok2 wb] mb] end.
    cbn [fst snd] in Hrec. destruct Hrec as [<- Hrec].
    destruct ok1; cbn; [|split; reflexivity].
    destruct (Hrec eq_refl) as (Ho & _ & Hagf). split; [|reflexivity].
    unfold sl_bytes. cbn. rewrite <- Ho. f_equal. exact Hagf.
  Qed.

  Lemma fresh_inv : Inv (fresh_state Name Body CMap name_zero).
  Proof.
    unfold pool_inv, fresh_state. cbn. rewrite repeat_length. repeat split; auto.
  Qed.

  (* ---------------------------------------------------------------- *)
  (** ** Every schedule of packs sharing the pool *)

  Notation schedT := (sched_state Name Body CMap).
  Notation Step := (sched_step Name Body CMap name_zero cm_empty cm_len pack_name pack_rr q_len rr_len).
  Notation Run := (sched_run Name Body CMap name_zero cm_empty cm_len pack_name pack_rr q_len rr_len).

  (* every state in the pool or owned by a request satisfies the release invariant, and
     every output so far is what a brand-new state would have produced for that message *)
  Definition sched_ok (s : schedT) : Prop :=
    Forall Inv (sc_pool Name Body CMap s) /\
    Forall (fun x : nat * msgT * pstateT => Inv (snd x)) (sc_inflight Name Body CMap s) /\
    Forall (fun x : nat * msgT * option buf =>
              snd x = tp_bytes Name Body CMap (TP (fresh_state Name Body CMap name_zero) (snd (fst x))))
           (sc_out Name Body CMap s).

  Lemma Forall_remove_nth {A} (P : A -> Prop) : forall n l, Forall P l -> Forall P (remove_nth n l).
  Proof.
    induction n as [|n IH]; intros l H; destruct l as [|x r]; cbn; auto.
    - inversion H; assumption.
    - inversion H; subst. constructor; auto.
  Qed.

  Lemma Forall_nth_error {A} (P : A -> Prop) : forall l n x, Forall P l -> nth_error l n = Some x -> P x.
  Proof. intros l n x H E. rewrite Forall_forall in H. apply H. eapply nth_error_In; eassumption. Qed.

  Lemma sched_step_ok :
    in_place_name -> in_place_rr -> prefix_determined_name -> prefix_determined_rr ->
    same_success_name -> same_success_rr ->
    forall s e, sched_ok s -> sched_ok (Step s e).
  Proof.
    intros Hn Hr Hdn Hdr Hsn Hsr s e (Hp & Hf & Ho). destruct e as [id m pick|k]; cbn [sched_step].
    - destruct (nth_error (sc_pool Name Body CMap s) pick) as [st|] eqn:E; unfold sched_ok; cbn.
      + split; [apply Forall_remove_nth; assumption|]. split; [|assumption].
        apply Forall_app. split; [assumption|]. constructor; [|constructor]. cbn.
        eapply Forall_nth_error; eassumption.
      + split; [assumption|]. split; [|assumption].
        apply Forall_app. split; [assumption|]. constructor; [|constructor]. cbn. apply fresh_inv.
    - destruct (nth_error (sc_inflight Name Body CMap s) k) as [[[id m] st]|] eqn:E; [|repeat split; assumption].
      pose proof (Forall_nth_error _ _ _ _ Hf E) as Hst. cbn in Hst.
      unfold sched_ok; cbn. split; [|split].
      + constructor; [|assumption]. apply (try_pack_keeps_inv Hn Hr); assumption.
      + apply Forall_remove_nth; assumption.
      + apply Forall_app. split; [assumption|]. constructor; [|constructor]. cbn.
        apply (pool_state_noninterference_l Hn Hr Hdn Hdr Hsn Hsr); [assumption|apply fresh_inv].
  Qed.

  Theorem schedule_outputs_l :
    in_place_name -> in_place_rr -> prefix_determined_name -> prefix_determined_rr ->
    same_success_name -> same_success_rr ->
    forall es s, sched_ok s -> sched_ok (Run es s).
  Proof.
    intros Hn Hr Hdn Hdr Hsn Hsr. unfold sched_run.
    induction es as [|e r IH]; intros s H; [exact H|].
    cbn [fold_left]. apply IH. apply (sched_step_ok Hn Hr Hdn Hdr Hsn Hsr); assumption.
  Qed.

  (* ---------------------------------------------------------------- *)
  (** ** ... and the library does pack what the pooled packer packed *)

  Lemma admissible_not_nil : forall s, admissible_rr s = true -> sh_is_nil s = false /\ sh_typed_nil s = false.
  Proof.
    intros s H. unfold admissible_rr in H. unfold sh_typed_nil. unfold sh_is_nil in *.
    destruct (d_nil (sh_dyn s)) eqn:En; [discriminate|]. split; [reflexivity|].
    assert (Ho : library_owned (sh_dyn s) = true).
    { destruct (sh_kind s); try discriminate; destruct (library_owned (sh_dyn s)); auto; discriminate. }
    unfold library_owned in Ho. rewrite En in Ho.
    destruct (d_ptr (sh_dyn s) && d_ptr_nil (sh_dyn s)) eqn:E; [discriminate|].
    cbn. destruct (d_ptr (sh_dyn s)), (d_ptr_nil (sh_dyn s)); auto; discriminate.
  Qed.

  Notation qsum := (sum_len (fun q : question Name => q_len (q_name Name q))).
  Notation rsum := (sum_len (slot_len Name Body rr_len)).

  Lemma ex_question : in_place_name -> prefix_determined_name -> sized_name ->
    forall q pout lout off cm c poff pout' pcm,
    agree off pout lout ->
    PQ q pout off cm c = Some (poff, pout', pcm) ->
    off + q_len (q_name Name q) < length lout ->
    exists lout', LQ q lout off cm c = Some (poff, lout', pcm) /\ agree poff pout' lout' /\
                  length lout' = length lout /\ poff <= off + q_len (q_name Name q).
  Proof.
    intros Hn Hd Hz q pout lout off cm c poff pout' pcm Ha HP Hroom.
    unfold pooled_question in HP. unfold lib_question.
    destruct (pack_name (q_name Name q) pout off cm c) as [[[o1 b1] cm1]|] eqn:E1; [|discriminate].
    destruct (Hz _ _ _ _ _ _ _ _ E1) as [Hb Hfit].
    specialize (Hfit lout Ha Hroom).
    destruct (pack_name (q_name Name q) lout off cm c) as [[[o2 b2] cm2]|] eqn:E2; [|congruence].
    destruct (Hd _ _ _ _ _ _ _ _ _ _ _ _ Ha E1 E2) as (-> & -> & Hag).
    pose proof (Hn _ _ _ _ _ _ _ _ E1) as Hl1. pose proof (Hn _ _ _ _ _ _ _ _ E2) as Hl2.
    change (N.to_nat question_fixed_len) with 4 in HP.
    destruct (Nat.ltb_spec (length pout) (o2 + 4)); [discriminate|]. inversion HP; subst; clear HP.
    unfold lib_pack_u16.
    destruct (Nat.ltb_spec (length b2) (o2 + 2)); [lia|].
    rewrite put16_length by lia.
    destruct (Nat.ltb_spec (length b2) (o2 + 2 + 2)); [lia|].
    exists (put16 (put16 b2 o2 (q_type Name q)) (o2 + 2) (q_class Name q)).
    replace (o2 + 2 + 2) with (o2 + 4) by lia.
    split; [reflexivity|]. split; [apply agree_put16_pair; try lia; assumption|].
    split; [rewrite put16_pair_length by lia; lia|lia].
  Qed.

  Lemma ex_questions : in_place_name -> prefix_determined_name -> sized_name ->
    forall qs pout lout off cm c poff pout' pcm,
    agree off pout lout ->
    PQs qs pout off cm c = Some (poff, pout', pcm) ->
    off + qsum qs < length lout ->
    exists lout', LQs qs lout off cm c = Some (poff, lout', pcm) /\ agree poff pout' lout' /\
                  length lout' = length lout /\ poff <= off + qsum qs.
  Proof.
    intros Hn Hd Hz. induction qs as [|q r IH]; intros pout lout off cm c poff pout' pcm Ha HP Hroom.
    - cbn in HP. inversion HP; subst. exists lout. cbn. repeat split; auto. lia.
    - cbn [pooled_questions] in HP. cbn [sum_len fold_right] in Hroom.
      destruct (PQ q pout off cm c) as [[[o1 b1] cm1]|] eqn:E1; [|discriminate].
      destruct (ex_question Hn Hd Hz _ _ _ _ _ _ _ _ _ Ha E1 ltac:(unfold sum_len in *; lia)) as (l1 & EL & Hag & Hl & Hb).
      assert (Hroom' : o1 + qsum r < length l1) by (unfold sum_len in *; lia).
      destruct (IH _ _ _ _ _ _ _ _ Hag HP Hroom') as (l2 & EL2 & Hag2 & Hl2 & Hb2).
      exists l2. cbn [lib_questions]. rewrite EL. split; [exact EL2|]. split; [assumption|].
      split; [lia|]. cbn [sum_len fold_right]. unfold sum_len in *. lia.
  Qed.

  Lemma ex_records : in_place_rr -> prefix_determined_rr -> sized_rr ->
    forall v opt rcode c ss w m w' m' lout,
    PRec v opt rcode c ss w m = (true, w', m') ->
    agree (pw_off Name Body CMap w) (pw_out Name Body CMap w) lout ->
    forallb admissible_rr (shapes Name Body ss) = true ->
    pw_off Name Body CMap w + rsum ss < length lout ->
    exists lout',
      LRec c (lib_rewrite opt rcode ss) lout (pw_off Name Body CMap w) (pw_cm Name Body CMap w) =
        FOk CMap lout' (pw_off Name Body CMap w') (pw_cm Name Body CMap w') /\
      agree (pw_off Name Body CMap w') (pw_out Name Body CMap w') lout' /\
      length lout' = length lout /\ pw_off Name Body CMap w' <= pw_off Name Body CMap w + rsum ss.
  Proof.
    intros Hr Hd Hz v opt rcode c. induction ss as [|s rest IH]; intros w m w' m' lout HP Ha Hadm Hroom.
    - cbn in HP. inversion HP; subst. exists lout. cbn. repeat split; auto. lia.
    - cbn [pooled_records] in HP. unfold lib_rewrite, upd_where. cbn [map lib_records].
      fold (upd_where Name Body (fun s => is_selected opt (s_sh Name Body s))
              (fun s => slot_set_ttl Name Body (lib_ext_ttl (sh_ttl (s_sh Name Body s)) rcode) s) rest).
      fold (lib_rewrite opt rcode rest).
      cbn [shapes map forallb] in Hadm. apply andb_true_iff in Hadm. destruct Hadm as [Hs Hadm].
      destruct (admissible_not_nil _ Hs) as [Hnil Htn].
      destruct (length (pw_out Name Body CMap w) <=? pw_off Name Body CMap w); [discriminate|].
      assert (Hh : s_hdr Name Body (if is_selected opt (s_sh Name Body s)
                                    then slot_set_ttl Name Body (lib_ext_ttl (sh_ttl (s_sh Name Body s)) rcode) s else s)
                   = (if is_selected opt (s_sh Name Body s)
                      then set_ttl Name (s_hdr Name Body s) (ext_ttl (rh_ttl Name (s_hdr Name Body s)) rcode)
                      else s_hdr Name Body s)).
      { destruct (is_selected opt (s_sh Name Body s)); [|reflexivity].
        unfold s_hdr, slot_set_ttl, set_ttl. cbn. rewrite ext_rcode_eq_lib_all_l. reflexivity. }
      assert (Hb : s_body Name Body (if is_selected opt (s_sh Name Body s)
                                     then slot_set_ttl Name Body (lib_ext_ttl (sh_ttl (s_sh Name Body s)) rcode) s else s)
                   = s_body Name Body s) by (destruct (is_selected opt (s_sh Name Body s)); reflexivity).
      assert (Hn1 : sh_is_nil (s_sh Name Body (if is_selected opt (s_sh Name Body s)
                                     then slot_set_ttl Name Body (lib_ext_ttl (sh_ttl (s_sh Name Body s)) rcode) s else s)) = false)
        by (destruct (is_selected opt (s_sh Name Body s)); exact Hnil).
      assert (Hn2 : sh_typed_nil (s_sh Name Body (if is_selected opt (s_sh Name Body s)
                                     then slot_set_ttl Name Body (lib_ext_ttl (sh_ttl (s_sh Name Body s)) rcode) s else s)) = false)
        by (destruct (is_selected opt (s_sh Name Body s)); exact Htn).
      rewrite Hn1, Hn2, Hh, Hb.
      set (h := if is_selected opt (s_sh Name Body s) then _ else _) in *.
      assert (Hname : rh_name Name h = s_name Name Body s) by (subst h; destruct (is_selected opt (s_sh Name Body s)); reflexivity).
      cbn [sum_len fold_right] in Hroom. unfold slot_len in Hroom at 1. rewrite Hnil in Hroom.
      destruct (pack_rr h (s_body Name Body s) (pw_out Name Body CMap w) _ _ _) as [[[[he1 o1] b1] cm1]|] eqn:E1; [|discriminate].
      destruct (Hz _ _ _ _ _ _ _ _ _ _ E1) as [Hbound Hfit]. rewrite Hname in Hbound, Hfit.
      specialize (Hfit lout Ha ltac:(unfold sum_len in *; lia)).
      destruct (pack_rr h (s_body Name Body s) lout _ _ _) as [[[[he2 o2] b2] cm2]|] eqn:E2; [|congruence].
      destruct (Hd _ _ _ _ _ _ _ _ _ _ _ _ _ _ _ Ha E1 E2) as (-> & -> & Hag).
      pose proof (Hr _ _ _ _ _ _ _ _ _ _ E2) as Hl2.
      assert (Hstep : forall shim mm,
                 PRec v opt rcode c rest (mk_pwork Name Body CMap b1 o2 cm2 None shim
                                            (if is_selected opt (s_sh Name Body s) then Some (h, s_body Name Body s) else pw_opt Name Body CMap w)) mm
                 = (true, w', m') ->
                 exists lout', LRec c (lib_rewrite opt rcode rest) b2 o2 cm2 =
                                 FOk CMap lout' (pw_off Name Body CMap w') (pw_cm Name Body CMap w') /\
                               agree (pw_off Name Body CMap w') (pw_out Name Body CMap w') lout' /\
                               length lout' = length lout /\
                               pw_off Name Body CMap w' <= pw_off Name Body CMap w + (rr_len (s_name Name Body s) (s_body Name Body s) + rsum rest)).
      { intros shim mm HP'.
        assert (Hroom' : o2 + rsum rest < length b2) by (unfold sum_len in *; lia).
        destruct (IH _ _ _ _ b2 HP' Hag Hadm Hroom') as (l' & EL & Hag' & Hl' & Hb').
        exists l'. cbn [pw_off pw_cm] in EL, Hb'. split; [exact EL|]. split; [exact Hag'|].
        split; [lia|]. unfold sum_len in *. lia. }
      cbn [sum_len fold_right]. unfold slot_len at 1. rewrite Hnil.
      destruct (v s); cbn zeta beta iota in HP;
        (destruct ((o2 <=? _) || _); [discriminate|]; eapply Hstep; exact HP).
  Qed.

  Lemma rsum_app : forall l1 l2, rsum (l1 ++ l2) = rsum l1 + rsum l2.
  Proof. induction l1 as [|x r IH]; intros l2; cbn; [reflexivity|]. unfold sum_len in *. rewrite IH. lia. Qed.

  Lemma rsum_rewrite : forall opt rcode l, rsum (lib_rewrite opt rcode l) = rsum l.
  Proof.
    intros opt rcode. induction l as [|s r IH]; [reflexivity|].
    unfold lib_rewrite, upd_where in *. cbn [map sum_len fold_right]. unfold sum_len in *. rewrite IH. f_equal.
    destruct (is_selected opt (s_sh Name Body s)); reflexivity.
  Qed.

  Lemma typed_nil_rewrite : forall opt rcode l,
    forallb admissible_rr (shapes Name Body l) = true ->
    existsb (fun s => sh_typed_nil (s_sh Name Body s)) (lib_rewrite opt rcode l) = false.
  Proof.
    intros opt rcode. induction l as [|s r IH]; intros H; [reflexivity|].
    cbn [shapes map forallb] in H. apply andb_true_iff in H. destruct H as [Hs H].
    unfold lib_rewrite, upd_where in *. cbn [map existsb]. rewrite (IH H), orb_false_r.
    destruct (admissible_not_nil _ Hs) as [_ Ht].
    destruct (is_selected opt (s_sh Name Body s)); exact Ht.
  Qed.

  Lemma forallb_shapes_app : forall (a b c : list slotT),
    forallb admissible_rr (shapes Name Body a ++ shapes Name Body b ++ shapes Name Body c) = true ->
    forallb admissible_rr (shapes Name Body a) = true /\ forallb admissible_rr (shapes Name Body b) = true /\
    forallb admissible_rr (shapes Name Body c) = true.
  Proof.
    intros a b c H. rewrite !forallb_app in H. apply andb_true_iff in H. destruct H as [Ha H].
    apply andb_true_iff in H. destruct H. auto.
  Qed.

  Lemma ex_body : in_place_name -> in_place_rr -> prefix_determined_name -> prefix_determined_rr ->
    sized_name -> sized_rr ->
    forall v st m opt cm c w m1,
    12 <= length (ps_buf Name Body CMap st) ->
    forallb admissible_rr (shapes Name Body (m_answer Name Body m) ++ shapes Name Body (m_ns Name Body m) ++
                           shapes Name Body (m_extra Name Body m)) = true ->
    PInto v st m opt cm c = (true, w, m1) ->
    exists m',
      LFrom (lib_set_ext Name Body opt (h_rcode (m_hdr Name Body m)) m) c cm =
        (LOk (firstn (pw_off Name Body CMap w) (pw_out Name Body CMap w)), m').
  Proof.
    intros Hn Hr Hdn Hdr Hzn Hzr v st m opt cm c w m1 H12 Hadm HP.
    destruct (forallb_shapes_app _ _ _ Hadm) as (Ha1 & Ha2 & Ha3).
    unfold pack_into_gen in HP. unfold lib_pack_from.
    set (rc := h_rcode (m_hdr Name Body m)) in *.
    set (mL := lib_set_ext Name Body opt rc m).
    assert (Hhdr : m_hdr Name Body mL = m_hdr Name Body m) by reflexivity.
    assert (Hq : m_question Name Body mL = m_question Name Body m) by reflexivity.
    assert (Han : m_answer Name Body mL = lib_rewrite opt rc (m_answer Name Body m)) by reflexivity.
    assert (Hns : m_ns Name Body mL = lib_rewrite opt rc (m_ns Name Body m)) by reflexivity.
    assert (Hex : m_extra Name Body mL = lib_rewrite opt rc (m_extra Name Body m)) by reflexivity.
    assert (Htn : has_typed_nil Name Body mL = false).
    { unfold has_typed_nil, m_records. rewrite Han, Hns, Hex. rewrite !existsb_app.
      rewrite !typed_nil_rewrite by assumption. reflexivity. }
    rewrite Htn.
    assert (Hlen : msg_len Name Body q_len rr_len mL =
                   12 + qsum (m_question Name Body m) + (rsum (m_answer Name Body m) + (rsum (m_ns Name Body m) + rsum (m_extra Name Body m)))).
    { unfold msg_len, m_records. rewrite Hq, Han, Hns, Hex. rewrite !rsum_app, !rsum_rewrite. reflexivity. }
    set (lbuf := repeat 0%N (msg_len Name Body q_len rr_len mL + 1)).
    assert (HlL : length lbuf = msg_len Name Body q_len rr_len mL + 1) by (subst lbuf; apply repeat_length).
    rewrite Hhdr, Hq, Han, Hns, Hex.
    unfold count16. unfold lib_rewrite at 1 2 3. rewrite !upd_where_length.
    fold (@count16 slotT (m_answer Name Body m)) (@count16 slotT (m_ns Name Body m)) (@count16 slotT (m_extra Name Body m))
         (@count16 (question Name) (m_question Name Body m)).
    rewrite <- msg_bits_eq_lib_l.
    rewrite lib_header_ok by lia.
    set (pb := ps_buf Name Body CMap st) in *.
    match type of HP with context [put16 (put16 (put16 (put16 (put16 (put16 ?b 0 ?a0) 2 ?a1) 4 ?a2) 6 ?a3) 8 ?a4) 10 ?a5] =>
      change (put16 (put16 (put16 (put16 (put16 (put16 b 0 a0) 2 a1) 4 a2) 6 a3) 8 a4) 10 a5) with (hdr6 b a0 a1 a2 a3 a4 a5) in HP;
      set (p6 := hdr6 b a0 a1 a2 a3 a4 a5) in HP;
      set (l6 := hdr6 lbuf a0 a1 a2 a3 a4 a5);
      assert (Hag6 : agree 12 p6 l6) by (subst p6 l6; apply hdr6_agree; lia);
      assert (Hl6 : length l6 = length lbuf) by (subst l6; apply hdr6_length; lia)
    end.
    change (N.to_nat header_len) with 12 in HP.
    destruct (PQs (m_question Name Body m) p6 12 cm c) as [[[poff pout] pcm]|] eqn:EPQ; [|discriminate].
    destruct (ex_questions Hn Hdn Hzn _ _ _ _ _ _ _ _ _ Hag6 EPQ ltac:(lia)) as (lq & ELQ & Hagq & Hlq & Hbq).
    rewrite ELQ.
    unfold m_records in HP. rewrite pooled_records_app in HP.
    destruct (PRec v opt rc c (m_answer Name Body m) _ m) as [[ok1 w1] mm1] eqn:EP1.
    destruct ok1; [|discriminate].
    rewrite pooled_records_app in HP.
    destruct (PRec v opt rc c (m_ns Name Body m) w1 mm1) as [[ok2 w2] mm2] eqn:EP2.
    destruct ok2; [|discriminate].
    destruct (ex_records Hr Hdr Hzr _ _ _ _ _ _ _ _ _ lq EP1 Hagq Ha1 ltac:(cbn; lia)) as (l1 & EL1 & Hag1 & Hl1 & Hb1).
    cbn [pw_off pw_cm] in EL1, Hb1. rewrite EL1.
    destruct (ex_records Hr Hdr Hzr _ _ _ _ _ _ _ _ _ l1 EP2 Hag1 Ha2 ltac:(lia)) as (l2 & EL2 & Hag2 & Hl2 & Hb2).
    rewrite EL2.
    destruct (ex_records Hr Hdr Hzr _ _ _ _ _ _ _ _ _ l2 HP Hag2 Ha3 ltac:(lia)) as (l3 & EL3 & Hag3 & Hl3 & Hb3).
    rewrite EL3. eexists. f_equal. f_equal. symmetry. exact Hag3.
  Qed.

  Theorem trypack_then_library_packs_l :
    in_place_name -> in_place_rr -> prefix_determined_name -> prefix_determined_rr ->
    sized_name -> sized_rr ->
    forall st m bytes, Inv st ->
    tp_bytes Name Body CMap (TP st m) = Some bytes ->
    exists m', LP m = (LOk bytes, m').
  Proof.
    intros Hn Hr Hdn Hdr Hzn Hzr st m bytes HI HT.
    unfold try_pack, try_pack_gen in HT.
    destruct (preflight _ _ _ _ _) as [| | | | |opt] eqn:Epf; try discriminate.
    apply preflight_proceed in Epf. destruct Epf as (Hrc & Hadm & Hsz & Hsel).
    destruct HI as (Hlen & Hcm & _).
    set (c := m_compress Name Body m && msg_compressible Name Body m) in *.
    assert (Hcmv : (if c then Some match ps_cmap Name Body CMap st with None => cm_empty | Some x => x end else None)
                   = (if c then Some cm_empty else None)).
    { destruct c; [|reflexivity]. destruct Hcm as [->| ->]; reflexivity. }
    rewrite Hcmv in HT.
    destruct (PInto view_shim st m opt _ c) as [[ok w] m1] eqn:EP.
    destruct ok; [|discriminate]. cbn in HT. inversion HT; subst bytes; clear HT.
    unfold sl_bytes. cbn.
    unfold lib_pack.
    change rcode_min with 0%Z in Hrc. change rcode_max with 4095%Z in Hrc.
    replace ((h_rcode (m_hdr Name Body m) <? 0)%Z || (4095 <? h_rcode (m_hdr Name Body m))%Z) with false
      by (symmetry; apply orb_false_iff; split; [apply Z.ltb_ge|apply Z.ltb_ge]; lia).
    rewrite <- select_opt_eq_lib_l.
    change (lib_msg_compressible Name Body m) with (msg_compressible Name Body m). fold c.
    assert (H12 : 12 <= length (ps_buf Name Body CMap st)) by (rewrite Hlen; vm_compute; lia).
    destruct (select_opt (shapes Name Body (m_extra Name Body m))) as [|i|] eqn:Es; [| |contradiction].
    - destruct Hsel as [-> Hp]. change rcode_plain_max with 15%Z in Hp.
      replace (15 <? h_rcode (m_hdr Name Body m))%Z with false by (symmetry; apply Z.ltb_ge; lia).
      destruct (ex_body Hn Hr Hdn Hdr Hzn Hzr _ _ _ _ _ _ _ _ H12 Hadm EP) as [m' Hm'].
      rewrite lib_set_ext_none in Hm'. exists m'. exact Hm'.
    - destruct Hsel as (x & Hx & ->).
      apply nth_error_shapes in Hx. destruct Hx as (o & Ho & <-). rewrite Ho.
      eapply (ex_body Hn Hr Hdn Hdr Hzn Hzr); eassumption.
  Qed.

End PackProofs.
