(* C15 — the two packers side by side.  Everything here holds for EVERY record packer
   [pack_rr] / name packer [pack_name] that satisfies the stated hypotheses about the
   library primitives (in-place, deterministic in the prefix already written). *)
From Sdns Require Import Common.Base Gen.C15 C15.Model C15.Proofs_bits C15.Proofs_select C15.Proofs_buf.
Open Scope nat_scope.

Section PackProofs.
  Variables Name Body CMap : Type.
  Variable name_zero : Name.
  Variable cm_empty : CMap.
  Variable cm_len : CMap -> N.
  Variable pack_name : Name -> buf -> nat -> option CMap -> bool -> option (nat * buf * option CMap).
  Variable pack_rr : rrhdr Name -> Body -> buf -> nat -> option CMap -> bool -> option (nat * nat * buf * option CMap).
  Variable q_len : Name -> nat.
  Variable rr_len : Name -> Body -> nat.

  Notation slotT := (slot Name Body).
  Notation msgT := (msg Name Body).
  Notation pstateT := (pstate Name Body CMap).
  Notation pworkT := (pwork Name Body CMap).
  Notation PRec := (pooled_records Name Body CMap pack_rr).
  Notation PQs := (pooled_questions Name CMap pack_name).
  Notation PQ := (pooled_question Name CMap pack_name).
  Notation LQs := (lib_questions Name CMap pack_name).
  Notation LQ := (lib_question Name CMap pack_name).
  Notation LRec := (lib_records Name Body CMap pack_rr).
  Notation PInto := (pack_into_gen Name Body CMap pack_name pack_rr).
  Notation TPG := (try_pack_gen Name Body CMap name_zero cm_empty cm_len pack_name pack_rr q_len rr_len).
  Notation Klen := (scrub_len Name Body q_len rr_len).
  Notation TP := (try_pack Name Body CMap name_zero cm_empty cm_len pack_name pack_rr q_len rr_len).
  Notation LP := (lib_pack Name Body CMap cm_empty pack_name pack_rr q_len rr_len).
  Notation LFrom := (lib_pack_from Name Body CMap pack_name pack_rr q_len rr_len).
  Notation Inv := (pool_inv Name Body CMap name_zero cm_empty).
  Notation Rel := (release Name Body CMap name_zero cm_empty cm_len).
  Notation view_shim := (rrview_header Name Body).

  (* ---- what is assumed of the library primitives ---- *)
  Definition in_place_name : Prop := forall n b off cm c o b' cm',
    pack_name n b off cm c = Some (o, b', cm') -> length b' = length b.
  Definition in_place_rr : Prop := forall h bd b off cm c he o b' cm',
    pack_rr h bd b off cm c = Some (he, o, b', cm') -> length b' = length b.
  (* frame condition: a pack reads nothing from the buffer; the offsets it returns and the
     dictionary do not depend on buffer content, what it writes is the same wherever the
     buffers agreed, and what it does not write stays as it was.  (This holds for packDataA
     too: the four octets it skips simply stay.) *)
  Definition frame_name : Prop := forall K n b1 b2 off cm c o1 b1' cm1 o2 b2' cm2,
    agree K b1 b2 -> pack_name n b1 off cm c = Some (o1, b1', cm1) -> pack_name n b2 off cm c = Some (o2, b2', cm2) ->
    o1 = o2 /\ cm1 = cm2 /\ agree K b1' b2'.
  Definition frame_rr : Prop := forall K h bd b1 b2 off cm c he1 o1 b1' cm1 he2 o2 b2' cm2,
    agree K b1 b2 -> pack_rr h bd b1 off cm c = Some (he1, o1, b1', cm1) -> pack_rr h bd b2 off cm c = Some (he2, o2, b2', cm2) ->
    o1 = o2 /\ cm1 = cm2 /\ agree K b1' b2'.
  (* a successful pack ends inside the buffer *)
  Definition in_bounds_name : Prop := forall n b off cm c o b' cm',
    pack_name n b off cm c = Some (o, b', cm') -> o <= length b'.
  Definition in_bounds_rr : Prop := forall h bd b off cm c he o b' cm',
    pack_rr h bd b off cm c = Some (he, o, b', cm') -> o <= length b'.
  (* on buffers of one length, success does not depend on content *)
  Definition same_success_name : Prop := forall n b1 b2 off cm c,
    length b1 = length b2 -> (pack_name n b1 off cm c = None <-> pack_name n b2 off cm c = None).
  Definition same_success_rr : Prop := forall h bd b1 b2 off cm c,
    length b1 = length b2 -> (pack_rr h bd b1 off cm c = None <-> pack_rr h bd b2 off cm c = None).
  (* the library's sizing contract: Len() bounds what a pack advances over ... *)
  Definition len_bounds_name : Prop := forall n b off cm c o b' cm',
    pack_name n b off cm c = Some (o, b', cm') -> o + 4 <= off + q_len n.
  Definition len_bounds_rr : Prop := forall h bd b off cm c he o b' cm',
    pack_rr h bd b off cm c = Some (he, o, b', cm') -> o <= off + rr_len (rh_name Name h) bd.
  (* ... and a buffer with room for Len() never fails for lack of room *)
  Definition len_suffices_name : Prop := forall n b off cm c o b' cm',
    pack_name n b off cm c = Some (o, b', cm') ->
    forall b2, off + q_len n < length b2 -> pack_name n b2 off cm c <> None.
  Definition len_suffices_rr : Prop := forall h bd b off cm c he o b' cm',
    pack_rr h bd b off cm c = Some (he, o, b', cm') ->
    forall b2, off + rr_len (rh_name Name h) bd < length b2 -> pack_rr h bd b2 off cm c <> None.

  (* ---------------------------------------------------------------- *)
  (** ** The message is a read-only input of the pooled path *)

  Lemma pooled_records_msg : forall opt rcode c ss w m,
    snd (PRec view_shim opt rcode c ss w m) = m.
  Proof.
    induction ss as [|s rest IH]; intros w m; [reflexivity|].
    cbn [pooled_records].
    destruct (length (pw_out Name Body CMap w) <=? pw_off Name Body CMap w); [reflexivity|].
    destruct (pack_rr _ _ _ _ _ _) as [[[[hend off1] out1] cm1]|]; [|reflexivity].
    cbn [rrview_header].
    destruct ((off1 <=? _) || _); [reflexivity|]. apply IH.
  Qed.

  Lemma pack_into_msg : forall st m opt cm c, snd (PInto view_shim st m opt cm c) = m.
  Proof.
    intros. unfold pack_into_gen.
    destruct (PQs _ _ _ _ _) as [[[off1 out1] cm1]|]; [|reflexivity].
    apply pooled_records_msg.
  Qed.

  Lemma message_untouched_gen : forall scrub st m, tp_msg Name Body CMap (TPG scrub view_shim st m) = m.
  Proof.
    intros scrub st m. unfold try_pack_gen.
    destruct (preflight _ _ _ _ _); try reflexivity.
    match goal with |- context [PInto view_shim ?st0 m opt ?cm ?c] =>
      pose proof (pack_into_msg st0 m opt cm c) as H; destruct (PInto view_shim st0 m opt cm c) as [[ok w] m1] end.
    cbn [snd] in H. subst m1. destruct ok; reflexivity.
  Qed.

  Lemma message_untouched_l : forall st m, tp_msg Name Body CMap (TP st m) = m.
  Proof. intros. apply message_untouched_gen. Qed.

  (* ---------------------------------------------------------------- *)
  (** ** Declining produces no output; handling produces exactly one *)

  Lemma consumed_shape : forall scrub v st m,
    let r := TPG scrub v st m in
    (tp_handled Name Body CMap r = false /\ tp_consumed Name Body CMap r = []) \/
    (tp_handled Name Body CMap r = true /\ exists b off, tp_consumed Name Body CMap r = [slice3 b off off]).
  Proof.
    intros scrub v st m. unfold try_pack_gen.
    destruct (preflight _ _ _ _ _); try (left; split; reflexivity).
    destruct (PInto _ _ _ _ _ _) as [[ok w] m1].
    destruct ok; [right|left]; cbn; eauto.
  Qed.

  (* every decision taken before the pooled state is borrowed leaves that state as it was *)
  Lemma preflight_decline_keeps_state : forall scrub v st m,
    (forall o, preflight (h_rcode (m_hdr Name Body m)) (shapes Name Body (m_answer Name Body m))
                 (shapes Name Body (m_ns Name Body m)) (shapes Name Body (m_extra Name Body m))
                 (N.of_nat (msg_len Name Body q_len rr_len m)) <> Proceed o) ->
    TPG scrub v st m = mk_tp Name Body CMap false [] st m.
  Proof.
    intros scrub v st m H. unfold try_pack_gen.
    destruct (preflight _ _ _ _ _); try reflexivity. exfalso. eapply H. reflexivity.
  Qed.

  (* ---------------------------------------------------------------- *)
  (** ** Capacity of the slice handed to the consumer *)

  Lemma capacity_pinned_l : forall scrub v st m s, In s (tp_consumed Name Body CMap (TPG scrub v st m)) ->
    sl_cap s = sl_len s /\ sl_reachable s = sl_bytes s.
  Proof.
    intros scrub v st m s Hin. destruct (consumed_shape scrub v st m) as [[_ H]|[_ (b & off & H)]];
      rewrite H in Hin; cbn in Hin; [contradiction|].
    destruct Hin as [<-|[]]. split; reflexivity.
  Qed.

  (* ---------------------------------------------------------------- *)
  (** ** release re-establishes the pool invariant, whatever the pack did *)

  Lemma release_inv : forall st, length (ps_buf Name Body CMap st) = N.to_nat pack_buffer_size -> Inv (Rel st).
  Proof.
    intros st Hl. unfold pool_inv, release. cbn.
    split; [assumption|]. split; [|auto].
    destruct (ps_cmap Name Body CMap st) as [c|]; [|left; reflexivity].
    destruct (max_pooled_compression_entries <? cm_len c)%N; [left|right]; reflexivity.
  Qed.

  Lemma pooled_questions_len : in_place_name -> forall qs out off cm c off1 out1 cm1,
    PQs qs out off cm c = Some (off1, out1, cm1) -> length out1 = length out /\ (off <= length out -> off1 <= length out).
  Proof.
    intros Hn. induction qs as [|q r IH]; intros out off cm c off1 out1 cm1 H; cbn in H.
    - inversion H; auto.
    - unfold pooled_question in H.
      destruct (pack_name (q_name Name q) out off cm c) as [[[o b'] cm']|] eqn:E; [|discriminate].
      change (N.to_nat question_fixed_len) with 4 in H.
      destruct (Nat.ltb_spec (length out) (o + 4)); [discriminate|].
      apply IH in H. destruct H as [H Hb]. pose proof (Hn _ _ _ _ _ _ _ _ E) as Hl.
      rewrite put16_pair_length in H, Hb by (rewrite Hl; assumption).
      split; [lia|]. intros _. rewrite <- Hl. apply Hb. lia.
  Qed.

  Lemma pooled_records_len : in_place_rr -> forall v opt rcode c ss w m,
    length (pw_out Name Body CMap (snd (fst (PRec v opt rcode c ss w m)))) = length (pw_out Name Body CMap w).
  Proof.
    intros Hr v opt rcode c. induction ss as [|s rest IH]; intros w m; [reflexivity|].
    cbn [pooled_records].
    destruct (length (pw_out Name Body CMap w) <=? pw_off Name Body CMap w); [reflexivity|].
    destruct (pack_rr _ _ _ _ _ _) as [[[[hend off1] out1] cm1]|] eqn:E; [|reflexivity].
    pose proof (Hr _ _ _ _ _ _ _ _ _ _ E) as Hl.
    destruct (v s); cbn zeta beta iota;
      (destruct ((off1 <=? _) || _); [cbn; assumption|]; rewrite IH; cbn; assumption).
  Qed.

  (* the guards of packInto keep the offset inside the pooled buffer *)
  Lemma pooled_records_bound : in_place_rr -> forall v opt rcode c ss w m w' m',
    PRec v opt rcode c ss w m = (true, w', m') ->
    pw_off Name Body CMap w <= length (pw_out Name Body CMap w) ->
    pw_off Name Body CMap w' <= length (pw_out Name Body CMap w').
  Proof.
    intros Hr v opt rcode c. induction ss as [|s rest IH]; intros w m w' m' HP Hb.
    - cbn in HP. inversion HP; subst. assumption.
    - cbn [pooled_records] in HP.
      destruct (length (pw_out Name Body CMap w) <=? pw_off Name Body CMap w); [discriminate|].
      destruct (pack_rr _ _ _ _ _ _) as [[[[hend off1] out1] cm1]|] eqn:E; [|discriminate].
      pose proof (Hr _ _ _ _ _ _ _ _ _ _ E) as Hl.
      destruct (v s); cbn zeta beta iota in HP;
        (destruct (Nat.leb_spec off1 (pw_off Name Body CMap w)); cbn [orb] in HP; [discriminate|];
         destruct (Nat.ltb_spec (length (pw_out Name Body CMap w)) off1); [discriminate|];
         eapply IH; [exact HP|cbn; lia]).
  Qed.

  Lemma pack_into_len : in_place_name -> in_place_rr -> forall v st m opt cm c,
    12 <= length (ps_buf Name Body CMap st) ->
    length (pw_out Name Body CMap (snd (fst (PInto v st m opt cm c)))) = length (ps_buf Name Body CMap st).
  Proof.
    intros Hn Hr v st m opt cm c H12. unfold pack_into_gen.
    match goal with |- context [put16 (put16 (put16 (put16 (put16 (put16 ?b 0 ?a0) 2 ?a1) 4 ?a2) 6 ?a3) 8 ?a4) 10 ?a5] =>
      change (put16 (put16 (put16 (put16 (put16 (put16 b 0 a0) 2 a1) 4 a2) 6 a3) 8 a4) 10 a5) with (hdr6 b a0 a1 a2 a3 a4 a5);
      set (out0 := hdr6 b a0 a1 a2 a3 a4 a5) end.
    assert (Hl0 : length out0 = length (ps_buf Name Body CMap st)) by (subst out0; apply hdr6_length; assumption).
    destruct (PQs _ _ _ _ _) as [[[off1 out1] cm1]|] eqn:E; [|cbn; assumption].
    rewrite pooled_records_len by assumption. cbn.
    apply (pooled_questions_len Hn) in E. lia.
  Qed.

  Lemma try_pack_keeps_inv : in_place_name -> in_place_rr -> forall scrub v st m,
    Inv st -> Inv (tp_state Name Body CMap (TPG scrub v st m)).
  Proof.
    intros Hn Hr scrub v st m HI. unfold try_pack_gen.
    destruct (preflight _ _ _ _ _); try exact HI.
    destruct HI as (Hl & _).
    match goal with |- context [PInto v ?st0 m opt ?cm ?c] =>
      pose proof (pack_into_len Hn Hr v st0 m opt cm c) as Hlen; set (s0 := st0) in *;
      destruct (PInto v s0 m opt cm c) as [[ok w] m1] end.
    cbn [fst snd] in Hlen.
    assert (Hl0 : length (ps_buf Name Body CMap s0) = N.to_nat pack_buffer_size).
    { subst s0. cbn [ps_buf]. destruct scrub; [rewrite zero_prefix_length|]; assumption. }
    assert (Inv (Rel (state_after Name Body CMap s0 w (m_compress Name Body m && msg_compressible Name Body m)))).
    { apply release_inv. cbn. rewrite Hlen; [assumption|]. rewrite Hl0. vm_compute. lia. }
    destruct ok; assumption.
  Qed.

  (* ---------------------------------------------------------------- *)
  (** ** Lock-step simulation of the two packers, on a window of K octets *)

  Lemma sim_question : in_place_name -> frame_name ->
    forall K q pout lout off cm c poff' pout' pcm' loff' lout' lcm',
    agree K pout lout ->
    PQ q pout off cm c = Some (poff', pout', pcm') ->
    LQ q lout off cm c = Some (loff', lout', lcm') ->
    poff' = loff' /\ pcm' = lcm' /\ agree K pout' lout' /\ length lout' = length lout /\ loff' <= length lout'.
  Proof.
    intros Hn Hd K q pout lout off cm c poff' pout' pcm' loff' lout' lcm' Ha HP HL.
    unfold pooled_question in HP. unfold lib_question in HL.
    destruct (pack_name (q_name Name q) pout off cm c) as [[[o1 b1] cm1]|] eqn:E1; [|discriminate].
    destruct (pack_name (q_name Name q) lout off cm c) as [[[o2 b2] cm2]|] eqn:E2; [|discriminate].
    destruct (Hd K _ _ _ _ _ _ _ _ _ _ _ _ Ha E1 E2) as (-> & -> & Hag).
    pose proof (Hn _ _ _ _ _ _ _ _ E1) as Hl1. pose proof (Hn _ _ _ _ _ _ _ _ E2) as Hl2.
    change (N.to_nat question_fixed_len) with 4 in HP.
    destruct (Nat.ltb_spec (length pout) (o2 + 4)); [discriminate|]. inversion HP; subst; clear HP.
    unfold lib_pack_u16 in HL.
    destruct (Nat.ltb_spec (length b2) (o2 + 2)); [discriminate|].
    rewrite put16_length in HL by lia.
    destruct (Nat.ltb_spec (length b2) (o2 + 2 + 2)); [discriminate|]. inversion HL; subst; clear HL.
    split; [lia|]. split; [reflexivity|]. split; [repeat apply agree_put16_any; assumption|].
    rewrite put16_pair_length by lia. split; lia.
  Qed.

  Lemma sim_questions : in_place_name -> frame_name ->
    forall K qs pout lout off cm c poff' pout' pcm' loff' lout' lcm',
    agree K pout lout -> off <= length lout ->
    PQs qs pout off cm c = Some (poff', pout', pcm') ->
    LQs qs lout off cm c = Some (loff', lout', lcm') ->
    poff' = loff' /\ pcm' = lcm' /\ agree K pout' lout' /\ length lout' = length lout /\ loff' <= length lout'.
  Proof.
    intros Hn Hd K. induction qs as [|q r IH]; intros pout lout off cm c poff' pout' pcm' loff' lout' lcm' Ha Hb HP HL.
    - cbn in HP, HL. inversion HP; inversion HL; subst. auto.
    - cbn [pooled_questions lib_questions] in HP, HL.
      destruct (PQ q pout off cm c) as [[[o1 b1] cm1]|] eqn:E1; [|discriminate].
      destruct (LQ q lout off cm c) as [[[o2 b2] cm2]|] eqn:E2; [|discriminate].
      destruct (sim_question Hn Hd K _ _ _ _ _ _ _ _ _ _ _ _ Ha E1 E2) as (-> & -> & Hag & Hl & Hb2).
      destruct (IH _ _ _ _ _ _ _ _ _ _ _ Hag Hb2 HP HL) as (? & ? & ? & Hl' & ?). repeat split; auto. lia.
  Qed.

  Definition lib_rewrite (opt : option N) (rcode : Z) : list slotT -> list slotT :=
    upd_where Name Body (fun s => is_selected opt (s_sh Name Body s))
              (fun s => slot_set_ttl Name Body (lib_ext_ttl (sh_ttl (s_sh Name Body s)) rcode) s).

  (* both packers hand the record packer the same header and the same rdata *)
  Lemma rewritten_hdr : forall opt rcode s,
    s_hdr Name Body (if is_selected opt (s_sh Name Body s)
                     then slot_set_ttl Name Body (lib_ext_ttl (sh_ttl (s_sh Name Body s)) rcode) s else s)
    = (if is_selected opt (s_sh Name Body s)
       then set_ttl Name (s_hdr Name Body s) (ext_ttl (rh_ttl Name (s_hdr Name Body s)) rcode)
       else s_hdr Name Body s).
  Proof.
    intros. destruct (is_selected opt (s_sh Name Body s)); [|reflexivity].
    unfold s_hdr, slot_set_ttl, set_ttl. cbn. rewrite ext_rcode_eq_lib_all_l. reflexivity.
  Qed.
  Lemma rewritten_body : forall opt rcode s,
    s_body Name Body (if is_selected opt (s_sh Name Body s)
                      then slot_set_ttl Name Body (lib_ext_ttl (sh_ttl (s_sh Name Body s)) rcode) s else s)
    = s_body Name Body s.
  Proof. intros. destruct (is_selected opt (s_sh Name Body s)); reflexivity. Qed.
  Lemma rewritten_nil : forall opt rcode s,
    sh_is_nil (s_sh Name Body (if is_selected opt (s_sh Name Body s)
                      then slot_set_ttl Name Body (lib_ext_ttl (sh_ttl (s_sh Name Body s)) rcode) s else s))
    = sh_is_nil (s_sh Name Body s).
  Proof. intros. destruct (is_selected opt (s_sh Name Body s)); reflexivity. Qed.
  Lemma rewritten_tnil : forall opt rcode s,
    sh_typed_nil (s_sh Name Body (if is_selected opt (s_sh Name Body s)
                      then slot_set_ttl Name Body (lib_ext_ttl (sh_ttl (s_sh Name Body s)) rcode) s else s))
    = sh_typed_nil (s_sh Name Body s).
  Proof. intros. destruct (is_selected opt (s_sh Name Body s)); reflexivity. Qed.

  Lemma lib_rewrite_cons : forall opt rcode s rest,
    lib_rewrite opt rcode (s :: rest) =
    (if is_selected opt (s_sh Name Body s)
     then slot_set_ttl Name Body (lib_ext_ttl (sh_ttl (s_sh Name Body s)) rcode) s else s) :: lib_rewrite opt rcode rest.
  Proof. reflexivity. Qed.

  Lemma sim_records : in_place_rr -> frame_rr -> in_bounds_rr ->
    forall K v opt rcode c ss w m w' m' lout lout' loff' lcm',
    PRec v opt rcode c ss w m = (true, w', m') ->
    agree K (pw_out Name Body CMap w) lout -> pw_off Name Body CMap w <= length lout ->
    LRec c (lib_rewrite opt rcode ss) lout (pw_off Name Body CMap w) (pw_cm Name Body CMap w) = FOk CMap lout' loff' lcm' ->
    loff' = pw_off Name Body CMap w' /\ lcm' = pw_cm Name Body CMap w' /\
    agree K (pw_out Name Body CMap w') lout' /\ length lout' = length lout /\ loff' <= length lout'.
  Proof.
    intros Hr Hd Hib K v opt rcode c. induction ss as [|s rest IH]; intros w m w' m' lout lout' loff' lcm' HP Ha Hb HL.
    - cbn in HP, HL. inversion HP; inversion HL; subst. auto.
    - cbn [pooled_records] in HP. rewrite lib_rewrite_cons in HL. cbn [lib_records] in HL.
      destruct (length (pw_out Name Body CMap w) <=? pw_off Name Body CMap w); [discriminate|].
      rewrite rewritten_nil, rewritten_tnil, rewritten_hdr, rewritten_body in HL.
      destruct (sh_is_nil (s_sh Name Body s)); [discriminate|].
      destruct (sh_typed_nil (s_sh Name Body s)); [discriminate|].
      destruct (pack_rr _ (s_body Name Body s) (pw_out Name Body CMap w) _ _ _) as [[[[he1 o1] b1] cm1]|] eqn:E1; [|discriminate].
      destruct (pack_rr _ (s_body Name Body s) lout _ _ _) as [[[[he2 o2] b2] cm2]|] eqn:E2; [|discriminate].
      destruct (Hd K _ _ _ _ _ _ _ _ _ _ _ _ _ _ _ Ha E1 E2) as (-> & -> & Hag).
      pose proof (Hr _ _ _ _ _ _ _ _ _ _ E2) as Hl2. pose proof (Hib _ _ _ _ _ _ _ _ _ _ E2) as Hb2.
      destruct (v s); cbn zeta beta iota in HP;
        (destruct ((o2 <=? _) || _); [discriminate|];
         destruct (IH _ _ _ _ _ _ _ _ HP Hag Hb2 HL) as (? & ? & ? & Hl' & ?); repeat split; auto; lia).
  Qed.

  Lemma pooled_records_app : forall v opt rcode c l1 l2 w m,
    PRec v opt rcode c (l1 ++ l2) w m =
    let '(ok, w1, m1) := PRec v opt rcode c l1 w m in
    if ok then PRec v opt rcode c l2 w1 m1 else (false, w1, m1).
  Proof.
    intros v opt rcode c. induction l1 as [|s rest IH]; intros l2 w m.
    - cbn. destruct (PRec v opt rcode c l2 w m) as [[ok w1] m1]. reflexivity.
    - cbn [app pooled_records].
      destruct (length (pw_out Name Body CMap w) <=? pw_off Name Body CMap w); [reflexivity|].
      destruct (pack_rr _ _ _ _ _ _) as [[[[he1 o1] b1] cm1]|]; [|reflexivity].
      destruct (v s); cbn zeta beta iota; (destruct ((o1 <=? _) || _); [reflexivity|apply IH]).
  Qed.

  Lemma upd_where_length : forall p f (l : list slotT), length (upd_where Name Body p f l) = length l.
  Proof. intros. unfold upd_where. apply map_length. Qed.

  Lemma lib_set_ext_none : forall rcode (m : msgT), lib_set_ext Name Body None rcode m = m.
  Proof.
    intros rcode m. unfold lib_set_ext, msg_upd, upd_where. cbn [is_selected].
    rewrite !map_id. destruct m; reflexivity.
  Qed.

  Notation qsum := (sum_len (fun q : question Name => q_len (q_name Name q))).
  Notation rsum := (sum_len (slot_len Name Body rr_len)).

  Lemma rsum_app : forall l1 l2, rsum (l1 ++ l2) = rsum l1 + rsum l2.
  Proof. induction l1 as [|x r IH]; intros l2; cbn; [reflexivity|]. unfold sum_len in *. rewrite IH. lia. Qed.

  Lemma rsum_rewrite : forall opt rcode l, rsum (lib_rewrite opt rcode l) = rsum l.
  Proof.
    intros opt rcode. induction l as [|s r IH]; [reflexivity|].
    rewrite lib_rewrite_cons. cbn [sum_len fold_right]. unfold sum_len in *. rewrite IH. f_equal.
    destruct (is_selected opt (s_sh Name Body s)); reflexivity.
  Qed.

  Lemma msg_len_set_ext : forall opt rcode (m : msgT),
    msg_len Name Body q_len rr_len (lib_set_ext Name Body opt rcode m) = msg_len Name Body q_len rr_len m.
  Proof.
    intros opt rcode m.
    assert (Hq : m_question Name Body (lib_set_ext Name Body opt rcode m) = m_question Name Body m) by reflexivity.
    assert (Ha : m_answer Name Body (lib_set_ext Name Body opt rcode m) = lib_rewrite opt rcode (m_answer Name Body m)) by reflexivity.
    assert (Hn : m_ns Name Body (lib_set_ext Name Body opt rcode m) = lib_rewrite opt rcode (m_ns Name Body m)) by reflexivity.
    assert (He : m_extra Name Body (lib_set_ext Name Body opt rcode m) = lib_rewrite opt rcode (m_extra Name Body m)) by reflexivity.
    unfold msg_len, m_records. rewrite Hq, Ha, Hn, He, !rsum_app, !rsum_rewrite. reflexivity.
  Qed.

  (* the pooled pack of [m] against the library's pack of [m] with the OPT rewritten, when
     the pooled buffer and the library's fresh array agree on the first K octets *)
  Lemma sim_body : in_place_name -> in_place_rr -> frame_name -> frame_rr -> in_bounds_rr ->
    forall v st m opt cm c w m1 bytes' m',
    12 <= length (ps_buf Name Body CMap st) ->
    agree (Nat.min (msg_len Name Body q_len rr_len m + 1) (length (ps_buf Name Body CMap st)))
          (ps_buf Name Body CMap st) (repeat 0%N (msg_len Name Body q_len rr_len m + 1)) ->
    PInto v st m opt cm c = (true, w, m1) ->
    LFrom (lib_set_ext Name Body opt (h_rcode (m_hdr Name Body m)) m) c cm = (LOk bytes', m') ->
    bytes' = firstn (pw_off Name Body CMap w) (pw_out Name Body CMap w).
  Proof.
    intros Hn Hr Hdn Hdr Hib v st m opt cm c w m1 bytes' m' H12 Hag0 HP HL.
    unfold pack_into_gen in HP. unfold lib_pack_from in HL.
    set (mL := lib_set_ext Name Body opt (h_rcode (m_hdr Name Body m)) m) in *.
    destruct (has_typed_nil Name Body mL); [discriminate|].
    assert (Hml : msg_len Name Body q_len rr_len mL = msg_len Name Body q_len rr_len m) by apply msg_len_set_ext.
    rewrite Hml in HL.
    set (ulen := msg_len Name Body q_len rr_len m) in *.
    set (lbuf := repeat 0%N (ulen + 1)) in *.
    assert (HlL : length lbuf = ulen + 1) by (subst lbuf; apply repeat_length).
    assert (Hu12 : 12 <= ulen) by (subst ulen; unfold msg_len; lia).
    set (pb := ps_buf Name Body CMap st) in *.
    set (K := Nat.min (ulen + 1) (length pb)) in *.
    assert (Hhdr : m_hdr Name Body mL = m_hdr Name Body m) by reflexivity.
    assert (Hq : m_question Name Body mL = m_question Name Body m) by reflexivity.
    assert (Han : m_answer Name Body mL = lib_rewrite opt (h_rcode (m_hdr Name Body m)) (m_answer Name Body m)) by reflexivity.
    assert (Hns : m_ns Name Body mL = lib_rewrite opt (h_rcode (m_hdr Name Body m)) (m_ns Name Body m)) by reflexivity.
    assert (Hex : m_extra Name Body mL = lib_rewrite opt (h_rcode (m_hdr Name Body m)) (m_extra Name Body m)) by reflexivity.
    rewrite Hhdr, Hq, Han, Hns, Hex in HL.
    unfold count16 in HL. unfold lib_rewrite in HL at 1 2 3. rewrite !upd_where_length in HL.
    fold (@count16 slotT (m_answer Name Body m)) (@count16 slotT (m_ns Name Body m)) (@count16 slotT (m_extra Name Body m))
         (@count16 (question Name) (m_question Name Body m)) in HL.
    rewrite <- msg_bits_eq_lib_l in HL.
    rewrite lib_header_ok in HL by lia.
    match type of HP with context [put16 (put16 (put16 (put16 (put16 (put16 ?b 0 ?a0) 2 ?a1) 4 ?a2) 6 ?a3) 8 ?a4) 10 ?a5] =>
      change (put16 (put16 (put16 (put16 (put16 (put16 b 0 a0) 2 a1) 4 a2) 6 a3) 8 a4) 10 a5) with (hdr6 b a0 a1 a2 a3 a4 a5) in HP;
      set (p6 := hdr6 b a0 a1 a2 a3 a4 a5) in HP;
      set (l6 := hdr6 lbuf a0 a1 a2 a3 a4 a5) in HL;
      assert (Hag6 : agree K p6 l6) by (subst p6 l6; apply hdr6_agree_any; assumption);
      assert (Hl6 : length l6 = length lbuf) by (subst l6; apply hdr6_length; lia);
      assert (Hp6 : length p6 = length pb) by (subst p6; apply hdr6_length; lia)
    end.
    change (N.to_nat header_len) with 12 in HP.
    destruct (PQs (m_question Name Body m) p6 12 cm c) as [[[poff pout] pcm]|] eqn:EPQ; [|discriminate].
    destruct (LQs (m_question Name Body m) l6 12 cm c) as [[[loff lout] lcm]|] eqn:ELQ; [|discriminate].
    assert (H12l : 12 <= length l6) by lia.
    destruct (sim_questions Hn Hdn K _ _ _ _ _ _ _ _ _ _ _ _ Hag6 H12l EPQ ELQ) as (-> & -> & Hagq & Hlq & Hbq).
    destruct (pooled_questions_len Hn _ _ _ _ _ _ _ _ EPQ) as [Hpl Hpb].
    assert (H12p : 12 <= length p6) by lia. specialize (Hpb H12p).
    unfold m_records in HP. rewrite pooled_records_app in HP.
    set (rc := h_rcode (m_hdr Name Body m)) in *.
    destruct (PRec v opt rc c (m_answer Name Body m) _ m) as [[ok1 w1] mm1] eqn:EP1.
    destruct ok1; [|discriminate].
    rewrite pooled_records_app in HP.
    destruct (PRec v opt rc c (m_ns Name Body m) w1 mm1) as [[ok2 w2] mm2] eqn:EP2.
    destruct ok2; [|discriminate].
    destruct (LRec c (lib_rewrite opt rc (m_answer Name Body m)) lout loff lcm) as [lo1 lf1 lc1| |] eqn:EL1; try discriminate.
    destruct (sim_records Hr Hdr Hib K _ _ _ _ _ _ _ _ _ _ _ _ _ EP1 Hagq Hbq EL1) as (-> & -> & Hag1 & Hl1 & Hb1).
    destruct (LRec c (lib_rewrite opt rc (m_ns Name Body m)) lo1 _ _) as [lo2 lf2 lc2| |] eqn:EL2; try discriminate.
    destruct (sim_records Hr Hdr Hib K _ _ _ _ _ _ _ _ _ _ _ _ _ EP2 Hag1 Hb1 EL2) as (-> & -> & Hag2 & Hl2 & Hb2).
    destruct (LRec c (lib_rewrite opt rc (m_extra Name Body m)) lo2 _ _) as [lo3 lf3 lc3| |] eqn:EL3; try discriminate.
    destruct (sim_records Hr Hdr Hib K _ _ _ _ _ _ _ _ _ _ _ _ _ HP Hag2 Hb2 EL3) as (-> & -> & Hag3 & Hl3 & Hb3).
    (* the final offset lies inside both buffers, hence inside the window *)
    assert (B0 : pw_off Name Body CMap (mk_pwork Name Body CMap pout loff lcm (ps_shim_rr Name Body CMap st) (ps_shim_hdr Name Body CMap st) (ps_opt Name Body CMap st))
                 <= length (pw_out Name Body CMap (mk_pwork Name Body CMap pout loff lcm (ps_shim_rr Name Body CMap st) (ps_shim_hdr Name Body CMap st) (ps_opt Name Body CMap st)))) by (cbn; lia).
    pose proof (pooled_records_bound Hr _ _ _ _ _ _ _ _ _ EP1 B0) as B1.
    pose proof (pooled_records_bound Hr _ _ _ _ _ _ _ _ _ EP2 B1) as B2.
    pose proof (pooled_records_bound Hr _ _ _ _ _ _ _ _ _ HP B2) as B3.
    pose proof (pooled_records_len Hr v opt rc c (m_answer Name Body m)
                  (mk_pwork Name Body CMap pout loff lcm (ps_shim_rr Name Body CMap st) (ps_shim_hdr Name Body CMap st) (ps_opt Name Body CMap st)) m) as L1.
    rewrite EP1 in L1. cbn in L1.
    pose proof (pooled_records_len Hr v opt rc c (m_ns Name Body m) w1 mm1) as L2. rewrite EP2 in L2. cbn in L2.
    pose proof (pooled_records_len Hr v opt rc c (m_extra Name Body m) w2 mm2) as L3. rewrite HP in L3. cbn in L3.
    inversion HL; subst bytes'. symmetry.
    apply (agree_le K); [exact Hag3|]. subst K. lia.
  Qed.

  (* ---------------------------------------------------------------- *)
  (** ** Byte parity *)

  Lemma nth_error_shapes : forall (l : list slotT) i x,
    nth_error (shapes Name Body l) i = Some x -> exists o, nth_error l i = Some o /\ s_sh Name Body o = x.
  Proof.
    intros l i x H. unfold shapes in H. rewrite nth_error_map in H.
    destruct (nth_error l i) as [o|]; [|discriminate]. inversion H. eauto.
  Qed.

  (* the scrubbed pooled buffer agrees with the library's fresh array on the window *)
  Lemma scrubbed_agrees : forall (st : pstateT) (m : msgT),
    length (ps_buf Name Body CMap st) = N.to_nat pack_buffer_size ->
    agree (Nat.min (msg_len Name Body q_len rr_len m + 1) (length (zero_prefix (Klen m) (ps_buf Name Body CMap st))))
          (zero_prefix (Klen m) (ps_buf Name Body CMap st)) (repeat 0%N (msg_len Name Body q_len rr_len m + 1)).
  Proof.
    intros st m Hl. rewrite zero_prefix_length. unfold scrub_len. rewrite Hl.
    apply zero_prefix_agree_fresh; lia.
  Qed.

  Theorem trypack_eq_libpack_l :
    in_place_name -> in_place_rr -> frame_name -> frame_rr -> in_bounds_rr ->
    forall st m bytes, Inv st ->
    tp_bytes Name Body CMap (TP st m) = Some bytes ->
    forall bytes' m', LP m = (LOk bytes', m') -> bytes = bytes'.
  Proof.
    intros Hn Hr Hdn Hdr Hib st m bytes HI HT bytes' m' HL.
    unfold try_pack, try_pack_gen in HT.
    destruct (preflight _ _ _ _ _) as [| | | | |opt] eqn:Epf; try discriminate.
    apply preflight_proceed in Epf. destruct Epf as (Hrc & Hadm & Hsz & Hsel).
    destruct HI as (Hlen & Hcm & _).
    set (c := m_compress Name Body m && msg_compressible Name Body m) in *.
    assert (Hcmv : (if c then Some match ps_cmap Name Body CMap st with None => cm_empty | Some x => x end else None)
                   = (if c then Some cm_empty else None)).
    { destruct c; [|reflexivity]. destruct Hcm as [->| ->]; reflexivity. }
    rewrite Hcmv in HT.
    set (st0 := mk_pstate Name Body CMap (zero_prefix (Klen m) (ps_buf Name Body CMap st)) _ _ _ _) in HT.
    destruct (PInto view_shim st0 m opt _ c) as [[ok w] m1] eqn:EP.
    destruct ok; [|discriminate]. cbn in HT. inversion HT; subst bytes; clear HT.
    unfold sl_bytes. cbn.
    unfold lib_pack in HL.
    change rcode_min with 0%Z in Hrc. change rcode_max with 4095%Z in Hrc.
    replace ((h_rcode (m_hdr Name Body m) <? 0)%Z || (4095 <? h_rcode (m_hdr Name Body m))%Z) with false in HL
      by (symmetry; apply orb_false_iff; split; [apply Z.ltb_ge|apply Z.ltb_ge]; lia).
    rewrite <- select_opt_eq_lib_l in HL.
    change (lib_msg_compressible Name Body m) with (msg_compressible Name Body m) in HL. fold c in HL.
    assert (H12 : 12 <= length (ps_buf Name Body CMap st0)).
    { subst st0. cbn [ps_buf]. rewrite zero_prefix_length, Hlen. vm_compute. lia. }
    assert (Hag0 := scrubbed_agrees st m Hlen). change (zero_prefix (Klen m) (ps_buf Name Body CMap st)) with (ps_buf Name Body CMap st0) in Hag0.
    destruct (select_opt (shapes Name Body (m_extra Name Body m))) as [|i|] eqn:Es; [| |contradiction].
    - destruct Hsel as [-> Hp]. change rcode_plain_max with 15%Z in Hp.
      replace (15 <? h_rcode (m_hdr Name Body m))%Z with false in HL by (symmetry; apply Z.ltb_ge; lia).
      rewrite <- (lib_set_ext_none (h_rcode (m_hdr Name Body m)) m) in HL.
      symmetry. eapply (sim_body Hn Hr Hdn Hdr Hib); eassumption.
    - destruct Hsel as (x & Hx & ->).
      apply nth_error_shapes in Hx. destruct Hx as (o & Ho & <-). rewrite Ho in HL.
      symmetry. eapply (sim_body Hn Hr Hdn Hdr Hib); eassumption.
  Qed.

  (* ---------------------------------------------------------------- *)
  (** ** ... and the library does pack what the pooled packer packed *)

  Lemma admissible_not_nil : forall s, admissible_rr s = true -> sh_is_nil s = false /\ sh_typed_nil s = false.
  Proof.
    intros s H. unfold admissible_rr in H. unfold sh_typed_nil. unfold sh_is_nil in *.
    destruct (d_nil (sh_dyn s)) eqn:En; [discriminate|]. split; [reflexivity|].
    assert (Ho : library_owned (sh_dyn s) = true).
    { destruct (sh_kind s); try discriminate; destruct (library_owned (sh_dyn s)); auto; discriminate. }
    unfold library_owned in Ho. rewrite En in Ho.
    destruct (d_ptr (sh_dyn s) && d_ptr_nil (sh_dyn s)) eqn:E; [discriminate|].
    cbn. destruct (d_ptr (sh_dyn s)), (d_ptr_nil (sh_dyn s)); auto; discriminate.
  Qed.

  (* how far a successful pooled pack can have advanced: never past Len() *)
  Lemma pooled_questions_adv : len_bounds_name -> forall qs out off cm c off1 out1 cm1,
    PQs qs out off cm c = Some (off1, out1, cm1) -> off1 <= off + qsum qs.
  Proof.
    intros Hz. induction qs as [|q r IH]; intros out off cm c off1 out1 cm1 H; cbn in H.
    - inversion H; subst. cbn. lia.
    - unfold pooled_question in H.
      destruct (pack_name (q_name Name q) out off cm c) as [[[o b'] cm']|] eqn:E; [|discriminate].
      destruct (_ <? _); [discriminate|]. apply IH in H. pose proof (Hz _ _ _ _ _ _ _ _ E).
      cbn [sum_len fold_right]. unfold sum_len in *. lia.
  Qed.

  Lemma pooled_records_adv : len_bounds_rr -> forall v opt rcode c ss w m w' m',
    PRec v opt rcode c ss w m = (true, w', m') ->
    forallb admissible_rr (shapes Name Body ss) = true ->
    pw_off Name Body CMap w' <= pw_off Name Body CMap w + rsum ss.
  Proof.
    intros Hz v opt rcode c. induction ss as [|s rest IH]; intros w m w' m' HP Hadm.
    - cbn in HP. inversion HP; subst. cbn. lia.
    - cbn [pooled_records] in HP.
      cbn [shapes map forallb] in Hadm. apply andb_true_iff in Hadm. destruct Hadm as [Hs Hadm].
      destruct (admissible_not_nil _ Hs) as [Hnil _].
      destruct (length (pw_out Name Body CMap w) <=? pw_off Name Body CMap w); [discriminate|].
      set (h := if is_selected opt (s_sh Name Body s) then _ else _) in *.
      assert (Hname : rh_name Name h = s_name Name Body s) by (subst h; destruct (is_selected opt (s_sh Name Body s)); reflexivity).
      destruct (pack_rr h _ _ _ _ _) as [[[[he1 o1] b1] cm1]|] eqn:E1; [|discriminate].
      pose proof (Hz _ _ _ _ _ _ _ _ _ _ E1) as Hb. rewrite Hname in Hb.
      cbn [sum_len fold_right]. unfold slot_len at 1. rewrite Hnil.
      destruct (v s); cbn zeta beta iota in HP;
        (destruct ((o1 <=? _) || _); [discriminate|]; apply IH in HP; [|assumption]; cbn in HP; unfold sum_len in *; lia).
  Qed.

  Lemma ex_question : in_place_name -> frame_name -> len_bounds_name -> len_suffices_name ->
    forall K q pout lout off cm c poff pout' pcm,
    agree K pout lout ->
    PQ q pout off cm c = Some (poff, pout', pcm) ->
    off + q_len (q_name Name q) < length lout ->
    exists lout', LQ q lout off cm c = Some (poff, lout', pcm) /\ agree K pout' lout' /\
                  length lout' = length lout /\ poff <= off + q_len (q_name Name q).
  Proof.
    intros Hn Hd Hzb Hzs K q pout lout off cm c poff pout' pcm Ha HP Hroom.
    unfold pooled_question in HP. unfold lib_question.
    destruct (pack_name (q_name Name q) pout off cm c) as [[[o1 b1] cm1]|] eqn:E1; [|discriminate].
    pose proof (Hzb _ _ _ _ _ _ _ _ E1) as Hb. pose proof (Hzs _ _ _ _ _ _ _ _ E1 lout Hroom) as Hfit.
    destruct (pack_name (q_name Name q) lout off cm c) as [[[o2 b2] cm2]|] eqn:E2; [|congruence].
    destruct (Hd K _ _ _ _ _ _ _ _ _ _ _ _ Ha E1 E2) as (-> & -> & Hag).
    pose proof (Hn _ _ _ _ _ _ _ _ E1) as Hl1. pose proof (Hn _ _ _ _ _ _ _ _ E2) as Hl2.
    change (N.to_nat question_fixed_len) with 4 in HP.
    destruct (Nat.ltb_spec (length pout) (o2 + 4)); [discriminate|]. inversion HP; subst; clear HP.
    unfold lib_pack_u16.
    destruct (Nat.ltb_spec (length b2) (o2 + 2)); [lia|].
    rewrite put16_length by lia.
    destruct (Nat.ltb_spec (length b2) (o2 + 2 + 2)); [lia|].
    exists (put16 (put16 b2 o2 (q_type Name q)) (o2 + 2) (q_class Name q)).
    replace (o2 + 2 + 2) with (o2 + 4) by lia.
    split; [reflexivity|]. split; [repeat apply agree_put16_any; assumption|].
    split; [rewrite put16_pair_length by lia; lia|lia].
  Qed.

  Lemma ex_questions : in_place_name -> frame_name -> len_bounds_name -> len_suffices_name ->
    forall K qs pout lout off cm c poff pout' pcm,
    agree K pout lout ->
    PQs qs pout off cm c = Some (poff, pout', pcm) ->
    off + qsum qs < length lout ->
    exists lout', LQs qs lout off cm c = Some (poff, lout', pcm) /\ agree K pout' lout' /\
                  length lout' = length lout /\ poff <= off + qsum qs.
  Proof.
    intros Hn Hd Hzb Hzs K. induction qs as [|q r IH]; intros pout lout off cm c poff pout' pcm Ha HP Hroom.
    - cbn in HP. inversion HP; subst. exists lout. cbn. repeat split; auto. lia.
    - cbn [pooled_questions] in HP. cbn [sum_len fold_right] in Hroom.
      destruct (PQ q pout off cm c) as [[[o1 b1] cm1]|] eqn:E1; [|discriminate].
      destruct (ex_question Hn Hd Hzb Hzs K _ _ _ _ _ _ _ _ _ Ha E1 ltac:(unfold sum_len in *; lia)) as (l1 & EL & Hag & Hl & Hb).
      assert (Hroom' : o1 + qsum r < length l1) by (unfold sum_len in *; lia).
      destruct (IH _ _ _ _ _ _ _ _ Hag HP Hroom') as (l2 & EL2 & Hag2 & Hl2 & Hb2).
      exists l2. cbn [lib_questions]. rewrite EL. split; [exact EL2|]. split; [assumption|].
      split; [lia|]. cbn [sum_len fold_right]. unfold sum_len in *. lia.
  Qed.

  Lemma ex_records : in_place_rr -> frame_rr -> len_bounds_rr -> len_suffices_rr ->
    forall K v opt rcode c ss w m w' m' lout,
    PRec v opt rcode c ss w m = (true, w', m') ->
    agree K (pw_out Name Body CMap w) lout ->
    forallb admissible_rr (shapes Name Body ss) = true ->
    pw_off Name Body CMap w + rsum ss < length lout ->
    exists lout',
      LRec c (lib_rewrite opt rcode ss) lout (pw_off Name Body CMap w) (pw_cm Name Body CMap w) =
        FOk CMap lout' (pw_off Name Body CMap w') (pw_cm Name Body CMap w') /\
      agree K (pw_out Name Body CMap w') lout' /\
      length lout' = length lout /\ pw_off Name Body CMap w' <= pw_off Name Body CMap w + rsum ss.
  Proof.
    intros Hr Hd Hzb Hzs K v opt rcode c. induction ss as [|s rest IH]; intros w m w' m' lout HP Ha Hadm Hroom.
    - cbn in HP. inversion HP; subst. exists lout. cbn. repeat split; auto. lia.
    - cbn [pooled_records] in HP. rewrite lib_rewrite_cons. cbn [lib_records].
      cbn [shapes map forallb] in Hadm. apply andb_true_iff in Hadm. destruct Hadm as [Hs Hadm].
      destruct (admissible_not_nil _ Hs) as [Hnil Htn].
      destruct (length (pw_out Name Body CMap w) <=? pw_off Name Body CMap w); [discriminate|].
      rewrite rewritten_nil, rewritten_tnil, rewritten_hdr, rewritten_body, Hnil, Htn.
      set (h := if is_selected opt (s_sh Name Body s) then _ else _) in *.
      assert (Hname : rh_name Name h = s_name Name Body s) by (subst h; destruct (is_selected opt (s_sh Name Body s)); reflexivity).
      cbn [sum_len fold_right] in Hroom. unfold slot_len in Hroom at 1. rewrite Hnil in Hroom.
      destruct (pack_rr h (s_body Name Body s) (pw_out Name Body CMap w) _ _ _) as [[[[he1 o1] b1] cm1]|] eqn:E1; [|discriminate].
      pose proof (Hzb _ _ _ _ _ _ _ _ _ _ E1) as Hbound. rewrite Hname in Hbound.
      pose proof (Hzs _ _ _ _ _ _ _ _ _ _ E1 lout) as Hfit. rewrite Hname in Hfit.
      specialize (Hfit ltac:(unfold sum_len in *; lia)).
      destruct (pack_rr h (s_body Name Body s) lout _ _ _) as [[[[he2 o2] b2] cm2]|] eqn:E2; [|congruence].
      destruct (Hd K _ _ _ _ _ _ _ _ _ _ _ _ _ _ _ Ha E1 E2) as (-> & -> & Hag).
      pose proof (Hr _ _ _ _ _ _ _ _ _ _ E2) as Hl2.
      assert (Hstep : forall shim mm,
                 PRec v opt rcode c rest (mk_pwork Name Body CMap b1 o2 cm2 None shim
                                            (if is_selected opt (s_sh Name Body s) then Some (h, s_body Name Body s) else pw_opt Name Body CMap w)) mm
                 = (true, w', m') ->
                 exists lout', LRec c (lib_rewrite opt rcode rest) b2 o2 cm2 =
                                 FOk CMap lout' (pw_off Name Body CMap w') (pw_cm Name Body CMap w') /\
                               agree K (pw_out Name Body CMap w') lout' /\
                               length lout' = length lout /\
                               pw_off Name Body CMap w' <= pw_off Name Body CMap w + (rr_len (s_name Name Body s) (s_body Name Body s) + rsum rest)).
      { intros shim mm HP'.
        assert (Hroom' : o2 + rsum rest < length b2) by (unfold sum_len in *; lia).
        destruct (IH _ _ _ _ b2 HP' Hag Hadm Hroom') as (l' & EL & Hag' & Hl' & Hb').
        exists l'. cbn [pw_off pw_cm] in EL, Hb'. split; [exact EL|]. split; [exact Hag'|].
        split; [lia|]. unfold sum_len in *. lia. }
      cbn [sum_len fold_right]. unfold slot_len at 1. rewrite Hnil.
      destruct (v s); cbn zeta beta iota in HP;
        (destruct ((o2 <=? _) || _); [discriminate|]; eapply Hstep; exact HP).
  Qed.

  Lemma typed_nil_rewrite : forall opt rcode l,
    forallb admissible_rr (shapes Name Body l) = true ->
    existsb (fun s => sh_typed_nil (s_sh Name Body s)) (lib_rewrite opt rcode l) = false.
  Proof.
    intros opt rcode. induction l as [|s r IH]; intros H; [reflexivity|].
    cbn [shapes map forallb] in H. apply andb_true_iff in H. destruct H as [Hs H].
    rewrite lib_rewrite_cons. cbn [existsb]. rewrite (IH H), orb_false_r, rewritten_tnil.
    destruct (admissible_not_nil _ Hs) as [_ Ht]. exact Ht.
  Qed.

  Lemma forallb_shapes_app : forall (a b c : list slotT),
    forallb admissible_rr (shapes Name Body a ++ shapes Name Body b ++ shapes Name Body c) = true ->
    forallb admissible_rr (shapes Name Body a) = true /\ forallb admissible_rr (shapes Name Body b) = true /\
    forallb admissible_rr (shapes Name Body c) = true.
  Proof.
    intros a b c H. rewrite !forallb_app in H. apply andb_true_iff in H. destruct H as [Ha H].
    apply andb_true_iff in H. destruct H. auto.
  Qed.

  Lemma ex_body : in_place_name -> in_place_rr -> frame_name -> frame_rr ->
    len_bounds_name -> len_bounds_rr -> len_suffices_name -> len_suffices_rr ->
    forall v st m opt cm c w m1,
    12 <= length (ps_buf Name Body CMap st) ->
    msg_len Name Body q_len rr_len m <= length (ps_buf Name Body CMap st) ->
    agree (Nat.min (msg_len Name Body q_len rr_len m + 1) (length (ps_buf Name Body CMap st)))
          (ps_buf Name Body CMap st) (repeat 0%N (msg_len Name Body q_len rr_len m + 1)) ->
    forallb admissible_rr (shapes Name Body (m_answer Name Body m) ++ shapes Name Body (m_ns Name Body m) ++
                           shapes Name Body (m_extra Name Body m)) = true ->
    PInto v st m opt cm c = (true, w, m1) ->
    exists m',
      LFrom (lib_set_ext Name Body opt (h_rcode (m_hdr Name Body m)) m) c cm =
        (LOk (firstn (pw_off Name Body CMap w) (pw_out Name Body CMap w)), m').
  Proof.
    intros Hn Hr Hdn Hdr Hbn Hbr Hsn Hsr v st m opt cm c w m1 H12 Hfitbuf Hag0 Hadm HP.
    destruct (forallb_shapes_app _ _ _ Hadm) as (Ha1 & Ha2 & Ha3).
    unfold pack_into_gen in HP. unfold lib_pack_from.
    set (rc := h_rcode (m_hdr Name Body m)) in *.
    set (mL := lib_set_ext Name Body opt rc m).
    assert (Hhdr : m_hdr Name Body mL = m_hdr Name Body m) by reflexivity.
    assert (Hq : m_question Name Body mL = m_question Name Body m) by reflexivity.
    assert (Han : m_answer Name Body mL = lib_rewrite opt rc (m_answer Name Body m)) by reflexivity.
    assert (Hns : m_ns Name Body mL = lib_rewrite opt rc (m_ns Name Body m)) by reflexivity.
    assert (Hex : m_extra Name Body mL = lib_rewrite opt rc (m_extra Name Body m)) by reflexivity.
    assert (Htn : has_typed_nil Name Body mL = false).
    { unfold has_typed_nil, m_records. rewrite Han, Hns, Hex. rewrite !existsb_app.
      rewrite !typed_nil_rewrite by assumption. reflexivity. }
    rewrite Htn.
    assert (Hml : msg_len Name Body q_len rr_len mL = msg_len Name Body q_len rr_len m) by apply msg_len_set_ext.
    rewrite Hml.
    assert (Hlen : msg_len Name Body q_len rr_len m =
                   12 + qsum (m_question Name Body m) + (rsum (m_answer Name Body m) + (rsum (m_ns Name Body m) + rsum (m_extra Name Body m)))).
    { unfold msg_len, m_records. rewrite !rsum_app. reflexivity. }
    set (ulen := msg_len Name Body q_len rr_len m) in *.
    set (lbuf := repeat 0%N (ulen + 1)) in *.
    assert (HlL : length lbuf = ulen + 1) by (subst lbuf; apply repeat_length).
    set (pb := ps_buf Name Body CMap st) in *.
    set (K := Nat.min (ulen + 1) (length pb)) in *.
    rewrite Hhdr, Hq, Han, Hns, Hex.
    unfold count16. unfold lib_rewrite at 1 2 3. rewrite !upd_where_length.
    fold (@count16 slotT (m_answer Name Body m)) (@count16 slotT (m_ns Name Body m)) (@count16 slotT (m_extra Name Body m))
         (@count16 (question Name) (m_question Name Body m)).
    rewrite <- msg_bits_eq_lib_l.
    rewrite lib_header_ok by lia.
    match type of HP with context [put16 (put16 (put16 (put16 (put16 (put16 ?b 0 ?a0) 2 ?a1) 4 ?a2) 6 ?a3) 8 ?a4) 10 ?a5] =>
      change (put16 (put16 (put16 (put16 (put16 (put16 b 0 a0) 2 a1) 4 a2) 6 a3) 8 a4) 10 a5) with (hdr6 b a0 a1 a2 a3 a4 a5) in HP;
      set (p6 := hdr6 b a0 a1 a2 a3 a4 a5) in HP;
      set (l6 := hdr6 lbuf a0 a1 a2 a3 a4 a5);
      assert (Hag6 : agree K p6 l6) by (subst p6 l6; apply hdr6_agree_any; assumption);
      assert (Hl6 : length l6 = length lbuf) by (subst l6; apply hdr6_length; lia)
    end.
    change (N.to_nat header_len) with 12 in HP.
    destruct (PQs (m_question Name Body m) p6 12 cm c) as [[[poff pout] pcm]|] eqn:EPQ; [|discriminate].
    destruct (ex_questions Hn Hdn Hbn Hsn K _ _ _ _ _ _ _ _ _ Hag6 EPQ ltac:(lia)) as (lq & ELQ & Hagq & Hlq & Hbq).
    rewrite ELQ.
    unfold m_records in HP. rewrite pooled_records_app in HP.
    destruct (PRec v opt rc c (m_answer Name Body m) _ m) as [[ok1 w1] mm1] eqn:EP1.
    destruct ok1; [|discriminate].
    rewrite pooled_records_app in HP.
    destruct (PRec v opt rc c (m_ns Name Body m) w1 mm1) as [[ok2 w2] mm2] eqn:EP2.
    destruct ok2; [|discriminate].
    destruct (ex_records Hr Hdr Hbr Hsr K _ _ _ _ _ _ _ _ _ lq EP1 Hagq Ha1 ltac:(cbn; lia)) as (l1 & EL1 & Hag1 & Hl1 & Hb1).
    cbn [pw_off pw_cm] in EL1, Hb1. rewrite EL1.
    destruct (ex_records Hr Hdr Hbr Hsr K _ _ _ _ _ _ _ _ _ l1 EP2 Hag1 Ha2 ltac:(lia)) as (l2 & EL2 & Hag2 & Hl2 & Hb2).
    rewrite EL2.
    destruct (ex_records Hr Hdr Hbr Hsr K _ _ _ _ _ _ _ _ _ l2 HP Hag2 Ha3 ltac:(lia)) as (l3 & EL3 & Hag3 & Hl3 & Hb3).
    rewrite EL3. eexists. f_equal. f_equal. symmetry.
    apply (agree_le K); [exact Hag3|]. subst K. lia.
  Qed.

  Theorem trypack_then_library_packs_l :
    in_place_name -> in_place_rr -> frame_name -> frame_rr ->
    len_bounds_name -> len_bounds_rr -> len_suffices_name -> len_suffices_rr ->
    forall st m bytes, Inv st ->
    tp_bytes Name Body CMap (TP st m) = Some bytes ->
    exists m', LP m = (LOk bytes, m').
  Proof.
    intros Hn Hr Hdn Hdr Hbn Hbr Hsn Hsr st m bytes HI HT.
    unfold try_pack, try_pack_gen in HT.
    destruct (preflight _ _ _ _ _) as [| | | | |opt] eqn:Epf; try discriminate.
    apply preflight_proceed in Epf. destruct Epf as (Hrc & Hadm & Hsz & Hsel).
    destruct HI as (Hlen & Hcm & _).
    set (c := m_compress Name Body m && msg_compressible Name Body m) in *.
    assert (Hcmv : (if c then Some match ps_cmap Name Body CMap st with None => cm_empty | Some x => x end else None)
                   = (if c then Some cm_empty else None)).
    { destruct c; [|reflexivity]. destruct Hcm as [->| ->]; reflexivity. }
    rewrite Hcmv in HT.
    set (st0 := mk_pstate Name Body CMap (zero_prefix (Klen m) (ps_buf Name Body CMap st)) _ _ _ _) in HT.
    destruct (PInto view_shim st0 m opt _ c) as [[ok w] m1] eqn:EP.
    destruct ok; [|discriminate]. cbn in HT. inversion HT; subst bytes; clear HT.
    unfold sl_bytes. cbn.
    unfold lib_pack.
    change rcode_min with 0%Z in Hrc. change rcode_max with 4095%Z in Hrc.
    replace ((h_rcode (m_hdr Name Body m) <? 0)%Z || (4095 <? h_rcode (m_hdr Name Body m))%Z) with false
      by (symmetry; apply orb_false_iff; split; [apply Z.ltb_ge|apply Z.ltb_ge]; lia).
    rewrite <- select_opt_eq_lib_l.
    change (lib_msg_compressible Name Body m) with (msg_compressible Name Body m). fold c.
    assert (Hl0 : length (ps_buf Name Body CMap st0) = N.to_nat pack_buffer_size).
    { subst st0. cbn [ps_buf]. rewrite zero_prefix_length. exact Hlen. }
    assert (H12 : 12 <= length (ps_buf Name Body CMap st0)) by (rewrite Hl0; vm_compute; lia).
    assert (Hfit : msg_len Name Body q_len rr_len m <= length (ps_buf Name Body CMap st0)) by (rewrite Hl0; lia).
    assert (Hag0 := scrubbed_agrees st m Hlen). change (zero_prefix (Klen m) (ps_buf Name Body CMap st)) with (ps_buf Name Body CMap st0) in Hag0.
    destruct (select_opt (shapes Name Body (m_extra Name Body m))) as [|i|] eqn:Es; [| |contradiction].
    - destruct Hsel as [-> Hp]. change rcode_plain_max with 15%Z in Hp.
      replace (15 <? h_rcode (m_hdr Name Body m))%Z with false by (symmetry; apply Z.ltb_ge; lia).
      destruct (ex_body Hn Hr Hdn Hdr Hbn Hbr Hsn Hsr _ _ _ _ _ _ _ _ H12 Hfit Hag0 Hadm EP) as [m' Hm'].
      rewrite lib_set_ext_none in Hm'. exists m'. exact Hm'.
    - destruct Hsel as (x & Hx & ->).
      apply nth_error_shapes in Hx. destruct Hx as (o & Ho & <-). rewrite Ho.
      eapply (ex_body Hn Hr Hdn Hdr Hbn Hbr Hsn Hsr); eassumption.
  Qed.

  (* ---------------------------------------------------------------- *)
  (** ** Two pooled states that satisfy the release invariant are indistinguishable *)

  Definition rel_q (K : nat) (r1 r2 : option (nat * buf * option CMap)) : Prop :=
    match r1, r2 with
    | Some (o1, b1, c1), Some (o2, b2, c2) => o1 = o2 /\ c1 = c2 /\ agree K b1 b2 /\ length b1 = length b2
    | None, None => True
    | _, _ => False
    end.

  Lemma sim2_question : in_place_name -> frame_name -> same_success_name ->
    forall K q b1 b2 off cm c, agree K b1 b2 -> length b1 = length b2 ->
    rel_q K (PQ q b1 off cm c) (PQ q b2 off cm c).
  Proof.
    intros Hn Hd Hs K q b1 b2 off cm c Ha Hl. unfold pooled_question.
    pose proof (Hs (q_name Name q) b1 b2 off cm c Hl) as Hiff.
    destruct (pack_name (q_name Name q) b1 off cm c) as [[[o1 x1] c1]|] eqn:E1;
      destruct (pack_name (q_name Name q) b2 off cm c) as [[[o2 x2] c2]|] eqn:E2.
    - destruct (Hd K _ _ _ _ _ _ _ _ _ _ _ _ Ha E1 E2) as (-> & -> & Hag).
      pose proof (Hn _ _ _ _ _ _ _ _ E1). pose proof (Hn _ _ _ _ _ _ _ _ E2).
      change (N.to_nat question_fixed_len) with 4. rewrite Hl.
      destruct (Nat.ltb_spec (length b2) (o2 + 4)); cbn; [trivial|].
      split; [reflexivity|]. split; [reflexivity|]. split.
      + repeat apply agree_put16_any. assumption.
      + rewrite !put16_pair_length by lia. lia.
    - destruct Hiff as [_ Hc]. specialize (Hc eq_refl). discriminate.
    - destruct Hiff as [Hc _]. specialize (Hc eq_refl). discriminate.
    - exact I.
  Qed.

  Lemma sim2_questions : in_place_name -> frame_name -> same_success_name ->
    forall K qs b1 b2 off cm c, agree K b1 b2 -> length b1 = length b2 ->
    rel_q K (PQs qs b1 off cm c) (PQs qs b2 off cm c).
  Proof.
    intros Hn Hd Hs K. induction qs as [|q r IH]; intros b1 b2 off cm c Ha Hl.
    - cbn. auto.
    - cbn [pooled_questions].
      pose proof (sim2_question Hn Hd Hs K q b1 b2 off cm c Ha Hl) as Hq. unfold rel_q in Hq.
      destruct (PQ q b1 off cm c) as [[[o1 x1] c1]|]; destruct (PQ q b2 off cm c) as [[[o2 x2] c2]|]; try contradiction.
      + destruct Hq as (-> & -> & Hag & Hl2). apply IH; assumption.
      + exact I.
  Qed.

  Lemma sim2_records : in_place_rr -> frame_rr -> same_success_rr ->
    forall K opt rcode c ss w1 w2 m,
    pw_off Name Body CMap w1 = pw_off Name Body CMap w2 -> pw_cm Name Body CMap w1 = pw_cm Name Body CMap w2 ->
    agree K (pw_out Name Body CMap w1) (pw_out Name Body CMap w2) ->
    length (pw_out Name Body CMap w1) = length (pw_out Name Body CMap w2) ->
    let r1 := PRec view_shim opt rcode c ss w1 m in
    let r2 := PRec view_shim opt rcode c ss w2 m in
    fst (fst r1) = fst (fst r2) /\
    (fst (fst r1) = true ->
     pw_off Name Body CMap (snd (fst r1)) = pw_off Name Body CMap (snd (fst r2)) /\
     pw_cm Name Body CMap (snd (fst r1)) = pw_cm Name Body CMap (snd (fst r2)) /\
     agree K (pw_out Name Body CMap (snd (fst r1))) (pw_out Name Body CMap (snd (fst r2)))).
  Proof.
    intros Hr Hd Hs K opt rcode c. induction ss as [|s rest IH]; intros w1 w2 m Ho Hc Ha Hl.
    - cbn. auto.
    - cbn [pooled_records]. rewrite <- Ho, <- Hc, <- Hl.
      destruct (length (pw_out Name Body CMap w1) <=? pw_off Name Body CMap w1); [cbn; split; [reflexivity|discriminate]|].
      set (h := if is_selected opt (s_sh Name Body s) then _ else _).
      pose proof (Hs h (s_body Name Body s) _ _ (pw_off Name Body CMap w1) (pw_cm Name Body CMap w1) c Hl) as Hiff.
      destruct (pack_rr h (s_body Name Body s) (pw_out Name Body CMap w1) _ _ _) as [[[[he1 o1] x1] c1]|] eqn:E1;
        destruct (pack_rr h (s_body Name Body s) (pw_out Name Body CMap w2) _ _ _) as [[[[he2 o2] x2] c2]|] eqn:E2.
      + destruct (Hd K _ _ _ _ _ _ _ _ _ _ _ _ _ _ _ Ha E1 E2) as (-> & -> & Hag).
        pose proof (Hr _ _ _ _ _ _ _ _ _ _ E1). pose proof (Hr _ _ _ _ _ _ _ _ _ _ E2).
        cbn [rrview_header]. cbn zeta beta iota.
        destruct ((o2 <=? _) || _); [cbn; split; [reflexivity|discriminate]|].
        apply IH; cbn; auto; lia.
      + destruct Hiff as [_ Hx]. specialize (Hx eq_refl). discriminate.
      + destruct Hiff as [Hx _]. specialize (Hx eq_refl). discriminate.
      + cbn. split; [reflexivity|discriminate].
  Qed.

  Theorem pool_state_noninterference_l :
    in_place_name -> in_place_rr -> frame_name -> frame_rr ->
    same_success_name -> same_success_rr -> len_bounds_name -> len_bounds_rr ->
    forall st1 st2 m, Inv st1 -> Inv st2 ->
    tp_bytes Name Body CMap (TP st1 m) = tp_bytes Name Body CMap (TP st2 m) /\
    tp_handled Name Body CMap (TP st1 m) = tp_handled Name Body CMap (TP st2 m).
  Proof.
    intros Hn Hr Hdn Hdr Hsn Hsr Hbn Hbr st1 st2 m (Hl1 & Hc1 & _) (Hl2 & Hc2 & _).
    unfold try_pack, try_pack_gen.
    destruct (preflight _ _ _ _ _) as [| | | | |opt] eqn:Epf; try (split; reflexivity).
    apply preflight_proceed in Epf. destruct Epf as (_ & Hadm & Hsz & _).
    set (c := m_compress Name Body m && msg_compressible Name Body m).
    assert (E1 : (if c then Some match ps_cmap Name Body CMap st1 with None => cm_empty | Some x => x end else None)
                 = (if c then Some cm_empty else None)) by (destruct c; [destruct Hc1 as [->| ->]|]; reflexivity).
    assert (E2 : (if c then Some match ps_cmap Name Body CMap st2 with None => cm_empty | Some x => x end else None)
                 = (if c then Some cm_empty else None)) by (destruct c; [destruct Hc2 as [->| ->]|]; reflexivity).
    rewrite E1, E2. set (cm := if c then Some cm_empty else None).
    unfold pack_into_gen. cbn [ps_buf ps_shim_rr ps_shim_hdr ps_opt].
    set (K := Klen m).
    set (z1 := zero_prefix K (ps_buf Name Body CMap st1)). set (z2 := zero_prefix K (ps_buf Name Body CMap st2)).
    assert (Hz1 : length z1 = N.to_nat pack_buffer_size) by (subst z1; rewrite zero_prefix_length; assumption).
    assert (Hz2 : length z2 = N.to_nat pack_buffer_size) by (subst z2; rewrite zero_prefix_length; assumption).
    assert (HK : K <= N.to_nat pack_buffer_size) by (subst K; unfold scrub_len; lia).
    assert (Hagz : agree K z1 z2) by (subst z1 z2; apply zero_prefix_agree_two; lia).
    assert (H12a : 12 <= length z1) by (rewrite Hz1; vm_compute; lia).
    assert (H12b : 12 <= length z2) by (rewrite Hz2; vm_compute; lia).
    repeat match goal with |- context [put16 (put16 (put16 (put16 (put16 (put16 ?b 0 ?a0) 2 ?a1) 4 ?a2) 6 ?a3) 8 ?a4) 10 ?a5] =>
      change (put16 (put16 (put16 (put16 (put16 (put16 b 0 a0) 2 a1) 4 a2) 6 a3) 8 a4) 10 a5) with (hdr6 b a0 a1 a2 a3 a4 a5) end.
    match goal with |- context [hdr6 z1 ?a0 ?a1 ?a2 ?a3 ?a4 ?a5] =>
      set (p1 := hdr6 z1 a0 a1 a2 a3 a4 a5);
      set (p2 := hdr6 z2 a0 a1 a2 a3 a4 a5);
      assert (Hag : agree K p1 p2) by (subst p1 p2; apply hdr6_agree_any; assumption);
      assert (Hlen : length p1 = length p2) by (subst p1 p2; rewrite !hdr6_length by assumption; lia);
      assert (Hlp1 : length p1 = length z1) by (subst p1; apply hdr6_length; assumption)
    end.
    change (N.to_nat header_len) with 12.
    pose proof (sim2_questions Hn Hdn Hsn K (m_question Name Body m) p1 p2 12 cm c Hag Hlen) as Hq. unfold rel_q in Hq.
    destruct (PQs (m_question Name Body m) p1 12 cm c) as [[[o1 x1] c1]|] eqn:EQ1;
      destruct (PQs (m_question Name Body m) p2 12 cm c) as [[[o2 x2] c2]|]; try contradiction.
    2:{ cbn. split; reflexivity. }
    destruct Hq as (-> & -> & Hagq & Hlq).
    pose proof (pooled_questions_adv Hbn _ _ _ _ _ _ _ _ EQ1) as Hadvq.
    match goal with |- context [PRec view_shim opt ?rc c ?ss ?w1 m] =>
      match goal with |- context [PRec view_shim opt rc c ss ?w2 m] =>
        lazymatch w1 with w2 => fail | _ =>
        pose proof (sim2_records Hr Hdr Hsr K opt rc c ss w1 w2 m eq_refl eq_refl Hagq Hlq) as Hrec;
        pose proof (pooled_records_adv Hbr view_shim opt rc c ss w1 m) as Hadvr end end end.
    cbn zeta in Hrec.
    match type of Hrec with context [PRec view_shim opt ?rc c ?ss ?w1 m] =>
      destruct (PRec view_shim opt rc c ss w1 m) as [[ok1 wa] ma] end.
    match type of Hrec with context [PRec view_shim opt ?rc c ?ss ?w2 m] =>
      destruct (PRec view_shim opt rc c ss w2 m) as [[ok2 wb] mb] end.
    cbn [fst snd] in Hrec. destruct Hrec as [<- Hrec].
    destruct ok1; cbn; [|split; reflexivity].
    destruct (Hrec eq_refl) as (Ho & _ & Hagf). split; [|reflexivity].
    unfold sl_bytes. cbn. rewrite <- Ho. f_equal.
    apply (agree_le K); [exact Hagf|].
    (* the offset stays below Len(), which the window covers *)
    specialize (Hadvr wa ma eq_refl). cbn [pw_off] in Hadvr.
    assert (Hadm' : forallb admissible_rr (shapes Name Body (m_records Name Body m)) = true).
    { unfold m_records, shapes. rewrite !map_app. exact Hadm. }
    specialize (Hadvr Hadm').
    assert (Hu : pw_off Name Body CMap wa <= msg_len Name Body q_len rr_len m) by (unfold msg_len; lia).
    subst K. unfold scrub_len. lia.
  Qed.

  Lemma fresh_inv : Inv (fresh_state Name Body CMap name_zero).
  Proof.
    unfold pool_inv, fresh_state. cbn. rewrite repeat_length. repeat split; auto.
  Qed.

  (* ---------------------------------------------------------------- *)
  (** ** Every schedule of packs sharing the pool *)

  Notation schedT := (sched_state Name Body CMap).
  Notation Step := (sched_step Name Body CMap name_zero cm_empty cm_len pack_name pack_rr q_len rr_len).
  Notation Run := (sched_run Name Body CMap name_zero cm_empty cm_len pack_name pack_rr q_len rr_len).

  (* every state in the pool or owned by a request satisfies the release invariant, and
     every output so far is what a brand-new state would have produced for that message *)
  Definition sched_ok (s : schedT) : Prop :=
    Forall Inv (sc_pool Name Body CMap s) /\
    Forall (fun x : nat * msgT * pstateT => Inv (snd x)) (sc_inflight Name Body CMap s) /\
    Forall (fun x : nat * msgT * option buf =>
              snd x = tp_bytes Name Body CMap (TP (fresh_state Name Body CMap name_zero) (snd (fst x))))
           (sc_out Name Body CMap s).

  Lemma Forall_remove_nth {A} (P : A -> Prop) : forall n l, Forall P l -> Forall P (remove_nth n l).
  Proof.
    induction n as [|n IH]; intros l H; destruct l as [|x r]; cbn; auto.
    - inversion H; assumption.
    - inversion H; subst. constructor; auto.
  Qed.

  Lemma Forall_nth_error {A} (P : A -> Prop) : forall l n x, Forall P l -> nth_error l n = Some x -> P x.
  Proof. intros l n x H E. rewrite Forall_forall in H. apply H. eapply nth_error_In; eassumption. Qed.

  Lemma sched_step_ok :
    in_place_name -> in_place_rr -> frame_name -> frame_rr ->
    same_success_name -> same_success_rr -> len_bounds_name -> len_bounds_rr ->
    forall s e, sched_ok s -> sched_ok (Step s e).
  Proof.
    intros Hn Hr Hdn Hdr Hsn Hsr Hbn Hbr s e (Hp & Hf & Ho). destruct e as [id m pick|k]; cbn [sched_step].
    - destruct (nth_error (sc_pool Name Body CMap s) pick) as [st|] eqn:E; unfold sched_ok; cbn.
      + split; [apply Forall_remove_nth; assumption|]. split; [|assumption].
        apply Forall_app. split; [assumption|]. constructor; [|constructor]. cbn.
        eapply Forall_nth_error; eassumption.
      + split; [assumption|]. split; [|assumption].
        apply Forall_app. split; [assumption|]. constructor; [|constructor]. cbn. apply fresh_inv.
    - destruct (nth_error (sc_inflight Name Body CMap s) k) as [[[id m] st]|] eqn:E; [|repeat split; assumption].
      pose proof (Forall_nth_error _ _ _ _ Hf E) as Hst. cbn in Hst.
      unfold sched_ok; cbn. split; [|split].
      + constructor; [|assumption]. apply (try_pack_keeps_inv Hn Hr); assumption.
      + apply Forall_remove_nth; assumption.
      + apply Forall_app. split; [assumption|]. constructor; [|constructor]. cbn.
        apply (pool_state_noninterference_l Hn Hr Hdn Hdr Hsn Hsr Hbn Hbr); [assumption|apply fresh_inv].
  Qed.

  Theorem schedule_outputs_l :
    in_place_name -> in_place_rr -> frame_name -> frame_rr ->
    same_success_name -> same_success_rr -> len_bounds_name -> len_bounds_rr ->
    forall es s, sched_ok s -> sched_ok (Run es s).
  Proof.
    intros Hn Hr Hdn Hdr Hsn Hsr Hbn Hbr. unfold sched_run.
    induction es as [|e r IH]; intros s H; [exact H|].
    cbn [fold_left]. apply IH. apply (sched_step_ok Hn Hr Hdn Hdr Hsn Hsr Hbn Hbr); assumption.
  Qed.

End PackProofs.
