(* C15 — the premises of Proofs_pack PROVED for the hybrid record packer (C15.Hybrid) from four
   sizing facts about the abstract rdata plan, and the main theorems instantiated with it. *)
From Sdns Require Import Common.Base Gen.C15 C15.Model C15.Concrete C15.Hybrid C15.Proofs_buf C15.Proofs_pack
                         C15.Proofs_clone C15.Proofs_concrete.
Open Scope nat_scope.

(* what is assumed of an abstract rdata fragment: its writes stay inside the extent it demands,
   it ends no further than that extent (or where it started), Len() bounds what it advances
   over, and a buffer with room for Len() and one octet more is never too short *)
Definition rdata_plan_ok (X : Type) (plan_x : X -> nat -> option dict -> bool -> option plan) (len_x : X -> nat) : Prop :=
  forall x off cm c pl, plan_x x off cm c = Some pl ->
    writes_within (p_writes pl) (p_need pl) /\
    p_off pl <= Nat.max off (p_need pl) /\
    p_off pl <= off + len_x x /\
    p_need pl <= S (off + len_x x).

Section HybridProofs.
  Variable X : Type.
  Variable plan_x : X -> nat -> option dict -> bool -> option plan.
  Variable len_x : X -> nat.
  Hypothesis Hx : rdata_plan_ok X plan_x len_x.

  Notation plan_hsteps := (plan_hsteps X plan_x).
  Notation plan_rr_h := (plan_rr_h X plan_x).
  Notation pack_rr_h := (pack_rr_h X plan_x).
  Notation hbody_len := (hbody_len X len_x).
  Notation rr_len_h := (rr_len_h X len_x).
  Notation hbody := (hbody X).

  Lemma plan_hsteps_inv : forall ss off cm c ws need pl,
    plan_hsteps ss off cm c ws need = Some pl -> writes_within ws need ->
    writes_within (p_writes pl) (p_need pl) /\ need <= p_need pl /\
    p_need pl <= Nat.max need (S (off + hbody_len ss)) /\
    p_off pl <= off + hbody_len ss /\
    (off <= need -> p_off pl <= p_need pl).
  Proof.
    induction ss as [|st r IH]; intros off cm c ws need pl H Hw.
    - cbn in H. inversion H; subst. cbn. repeat split; auto; lia.
    - cbn [Hybrid.plan_hsteps] in H. cbn [Hybrid.hbody_len fold_right]. fold (hbody_len r).
      destruct st as [bd|x].
      + destruct (plan_steps bd off cm c ws need) as [p1|] eqn:E1; [|discriminate].
        destruct (plan_steps_inv _ _ _ _ _ _ _ E1 Hw) as (A1 & B1 & C1 & D1 & F1).
        destruct (IH _ _ _ _ _ _ H A1) as (A & B & C & D & F).
        repeat split; auto; try lia.
      + destruct (plan_x x off cm c) as [p1|] eqn:E1; [|discriminate].
        destruct (Hx _ _ _ _ _ E1) as (N1 & N2 & N3 & N4).
        assert (Hw1 : writes_within (ws ++ p_writes p1) (Nat.max need (p_need p1))).
        { apply writes_within_app; [apply (writes_within_mono ws need)|apply (writes_within_mono _ (p_need p1))]; auto; lia. }
        destruct (IH _ _ _ _ _ _ H Hw1) as (A & B & C & D & F). repeat split; auto; try lia.
  Qed.

  Lemma plan_rr_h_inv : forall h bd off cm c hend pl, plan_rr_h h bd off cm c = Some (hend, pl) ->
    writes_within (p_writes pl) (p_need pl) /\
    p_off pl <= p_need pl /\
    p_off pl <= off + rr_len_h (rh_name name h) bd /\
    p_need pl <= S (off + rr_len_h (rh_name name h) bd).
  Proof.
    intros h bd off cm c hend pl H. unfold Hybrid.plan_rr_h in H.
    destruct (plan_name (rh_name name h) off cm c) as [p1|] eqn:E1; [|discriminate].
    destruct (plan_name_inv _ _ _ _ _ E1) as (N1 & N2 & N3 & N4).
    set (o1 := p_off p1) in *. set (he := o1 + 10) in *.
    match type of H with context [Hybrid.plan_hsteps X plan_x bd he (p_cm p1) c ?ws0 ?need0] =>
      assert (Hw0 : writes_within ws0 need0);
      [ apply writes_within_app; [apply (writes_within_mono _ (p_need p1)); [assumption|lia]|];
        apply writes_within_one; cbn [length app u16_bytes u32_bytes]; lia |];
      destruct (plan_hsteps bd he (p_cm p1) c ws0 need0) as [p2|] eqn:E2; [|discriminate]
    end.
    destruct (plan_hsteps_inv _ _ _ _ _ _ _ E2 Hw0) as (A & B & C & D & F).
    destruct (65536 <=? p_off p2 - he); [discriminate|].
    inversion H; subst; cbn [p_writes p_off p_cm p_need]. unfold Hybrid.rr_len_h.
    split; [|split; [apply F; lia|split; lia]].
    apply writes_within_app; [assumption|]. apply writes_within_one. rewrite u16_len. lia.
  Qed.

  Lemma pack_rr_h_in_place : in_place_rr name hbody dict pack_rr_h.
  Proof.
    intros h bd b off cm c he o b' cm' H. unfold Hybrid.pack_rr_h in H.
    destruct (plan_rr_h h bd off cm c) as [[hend pl]|] eqn:E; [|discriminate].
    destruct (Nat.ltb_spec (length b) (p_need pl)); [discriminate|]. inversion H; subst.
    destruct (plan_rr_h_inv _ _ _ _ _ _ _ E) as (R1 & _). eapply apply_writes_length; eassumption.
  Qed.

  Lemma pack_rr_h_frame : frame_rr name hbody dict pack_rr_h.
  Proof.
    intros K h bd b1 b2 off cm c he1 o1 b1' cm1 he2 o2 b2' cm2 Ha H1 H2. unfold Hybrid.pack_rr_h in H1, H2.
    destruct (plan_rr_h h bd off cm c) as [[hend pl]|]; [|discriminate].
    destruct (length b1 <? p_need pl); [discriminate|]. destruct (length b2 <? p_need pl); [discriminate|].
    inversion H1; inversion H2; subst. split; [reflexivity|]. split; [reflexivity|]. apply apply_writes_agree. assumption.
  Qed.

  Lemma pack_rr_h_in_bounds : in_bounds_rr name hbody dict pack_rr_h.
  Proof.
    intros h bd b off cm c he o b' cm' H. pose proof (pack_rr_h_in_place _ _ _ _ _ _ _ _ _ _ H) as Hl.
    unfold Hybrid.pack_rr_h in H.
    destruct (plan_rr_h h bd off cm c) as [[hend pl]|] eqn:E; [|discriminate].
    destruct (Nat.ltb_spec (length b) (p_need pl)); [discriminate|]. inversion H; subst.
    destruct (plan_rr_h_inv _ _ _ _ _ _ _ E) as (_ & R2 & _). lia.
  Qed.

  Lemma pack_rr_h_same_success : same_success_rr name hbody dict pack_rr_h.
  Proof.
    intros h bd b1 b2 off cm c Hl. unfold Hybrid.pack_rr_h. rewrite Hl.
    destruct (plan_rr_h h bd off cm c) as [[hend pl]|]; [|tauto].
    destruct (length b2 <? p_need pl); split; intros; auto; discriminate.
  Qed.

  Lemma pack_rr_h_len_bounds : len_bounds_rr name hbody dict pack_rr_h rr_len_h.
  Proof.
    intros h bd b off cm c he o b' cm' H. unfold Hybrid.pack_rr_h in H.
    destruct (plan_rr_h h bd off cm c) as [[hend pl]|] eqn:E; [|discriminate].
    destruct (length b <? p_need pl); [discriminate|]. inversion H; subst.
    destruct (plan_rr_h_inv _ _ _ _ _ _ _ E) as (_ & _ & R3 & _). exact R3.
  Qed.

  Lemma pack_rr_h_len_suffices : len_suffices_rr name hbody dict pack_rr_h rr_len_h.
  Proof.
    intros h bd b off cm c he o b' cm' H b2 Hroom. unfold Hybrid.pack_rr_h in *.
    destruct (plan_rr_h h bd off cm c) as [[hend pl]|] eqn:E; [|discriminate].
    destruct (plan_rr_h_inv _ _ _ _ _ _ _ E) as (_ & _ & _ & R4).
    destruct (Nat.ltb_spec (length b2) (p_need pl)); [lia|discriminate].
  Qed.

  Notation Inv_h := (pool_inv name hbody dict [] []).

  Theorem hybrid_trypack_is_libpack_l : forall st m bytes, Inv_h st ->
    tp_bytes name hbody dict (try_pack_h X plan_x len_x st m) = Some bytes ->
    exists m', lib_pack_h X plan_x len_x m = (LOk bytes, m').
  Proof.
    intros st m bytes. unfold try_pack_h, lib_pack_h.
    apply (trypack_then_library_packs_l name hbody dict [] [] cm_len_c pack_name_c pack_rr_h q_len_c rr_len_h
             pack_name_c_in_place pack_rr_h_in_place pack_name_c_frame pack_rr_h_frame
             pack_name_c_len_bounds pack_rr_h_len_bounds pack_name_c_len_suffices pack_rr_h_len_suffices).
  Qed.

  Theorem hybrid_pool_state_noninterference_l : forall st1 st2 m, Inv_h st1 -> Inv_h st2 ->
    tp_bytes name hbody dict (try_pack_h X plan_x len_x st1 m) = tp_bytes name hbody dict (try_pack_h X plan_x len_x st2 m) /\
    tp_handled name hbody dict (try_pack_h X plan_x len_x st1 m) = tp_handled name hbody dict (try_pack_h X plan_x len_x st2 m).
  Proof.
    unfold try_pack_h.
    apply (pool_state_noninterference_l name hbody dict [] [] cm_len_c pack_name_c pack_rr_h q_len_c rr_len_h
             pack_name_c_in_place pack_rr_h_in_place pack_name_c_frame pack_rr_h_frame
             pack_name_c_same_success pack_rr_h_same_success pack_name_c_len_bounds pack_rr_h_len_bounds).
  Qed.

  Theorem hybrid_schedules_l : forall es s,
    sched_ok name hbody dict [] [] cm_len_c pack_name_c pack_rr_h q_len_c rr_len_h s ->
    sched_ok name hbody dict [] [] cm_len_c pack_name_c pack_rr_h q_len_c rr_len_h
             (sched_run name hbody dict [] [] cm_len_c pack_name_c pack_rr_h q_len_c rr_len_h es s).
  Proof.
    apply (schedule_outputs_l name hbody dict [] [] cm_len_c pack_name_c pack_rr_h q_len_c rr_len_h
             pack_name_c_in_place pack_rr_h_in_place pack_name_c_frame pack_rr_h_frame
             pack_name_c_same_success pack_rr_h_same_success pack_name_c_len_bounds pack_rr_h_len_bounds).
  Qed.

  Theorem hybrid_packclone_is_libpack_l : forall st m, Inv_h st ->
    fst (fst (pack_clone_h X plan_x len_x st m)) = fst (lib_pack_h X plan_x len_x m) /\
    (forallb admissible_rr (shapes name hbody (m_records name hbody m)) = true -> snd (pack_clone_h X plan_x len_x st m) = m).
  Proof.
    unfold pack_clone_h, lib_pack_h.
    apply (packclone_eq_libpack_l name hbody dict [] [] cm_len_c pack_name_c pack_rr_h q_len_c rr_len_h
             pack_name_c_in_place pack_rr_h_in_place pack_name_c_frame pack_rr_h_frame
             pack_name_c_len_bounds pack_rr_h_len_bounds pack_name_c_len_suffices pack_rr_h_len_suffices).
  Qed.
End HybridProofs.

(* the hypothesis is satisfiable by the fragment that exposed the defect: four octets advanced
   over, nothing written (packDataA on a 16-byte non-IPv4 address) ... *)
Definition skip4_plan (x : unit) (off : nat) (cm : option dict) (c : bool) : option plan :=
  Some (mk_plan [] (off + 4) cm (off + 4)).
Lemma skip4_plan_ok : rdata_plan_ok unit skip4_plan (fun _ => 4).
Proof.
  intros x off cm c pl H. inversion H; subst. cbn [p_writes p_off p_need].
  split; [constructor|]. repeat split; lia.
Qed.
(* ... and by any run of concrete steps read as one opaque fragment *)
Definition steps_plan (bd : body) (off : nat) (cm : option dict) (c : bool) : option plan := plan_steps bd off cm c [] off.
Lemma steps_plan_ok : rdata_plan_ok body steps_plan body_len.
Proof.
  intros bd off cm c pl H. unfold steps_plan in H.
  destruct (plan_steps_inv _ _ _ _ _ _ _ H (Forall_nil _)) as (A & B & C & D & F).
  split; [exact A|]. repeat split; lia.
Qed.
