(* C15 — session 5: presentation escapes in names and character-strings.
   What the name model (C15.Concrete.pn_loop, the library's packDomainName with its in-place
   unescaping) writes without a dictionary is, for EVERY presentation text, the RFC 1035 encoding of
   the labels one gets by decoding the escapes and splitting at the unescaped dots; and the sizing of
   a character-string (C15.Layouts.txt_string_steps / octet_steps) is the length of its text. *)
From Sdns Require Import Common.Base Gen.C15 C15.Model C15.Concrete C15.Layouts C15.Proofs_buf C15.Proofs_concrete.
Open Scope nat_scope.

(* ---- the specification: decode, split, encode ---- *)

Inductive tok := TDot | TOct (b : N).

(* decode: an unescaped dot is a separator, everything else an octet *)
Fixpoint tokens (s : name) : list tok :=
  match s with
  | [] => []
  | c :: r =>
      if (c =? backslash)%N then
        match r with
        | [] => []
        | c1 :: r1 =>
            match r1 with
            | c2 :: c3 :: r3 =>
                if is_digit c1 && is_digit c2 && is_digit c3 then TOct (ddd_byte c1 c2 c3) :: tokens r3
                else TOct c1 :: tokens r1
            | _ => TOct c1 :: tokens r1
            end
        end
      else if (c =? dot)%N then TDot :: tokens r
      else TOct c :: tokens r
  end.

(* split at the separators; [cur] is the label being collected (octets after the last separator
   belong to no label) *)
Fixpoint split_labels (ts : list tok) (cur : buf) : list buf :=
  match ts with
  | [] => []
  | TDot :: r => cur :: split_labels r []
  | TOct b :: r => split_labels r (cur ++ [b])
  end.

(* encode: length octet + octets *)
Definition encode_labels (ls : list buf) : buf := flat_map (fun l => N.of_nat (length l) :: l) ls.
Definition label_ok (l : buf) : Prop := l <> [] /\ length l < 64.

(* the writes a run of labels turns into, one per label, back to back *)
Fixpoint label_writes (off : nat) (ls : list buf) : list (nat * buf) :=
  match ls with
  | [] => []
  | l :: r => (off, N.of_nat (length l) :: l) :: label_writes (off + 1 + length l) r
  end.

(* writes that start at [off] and follow each other without gap or overlap *)
Fixpoint contig (off : nat) (ws : list (nat * buf)) : Prop :=
  match ws with
  | [] => True
  | w :: r => fst w = off /\ contig (off + length (snd w)) r
  end.

Lemma tokens_cons c r : tokens (c :: r) =
  if (c =? backslash)%N then
    match r with
    | [] => []
    | c1 :: r1 =>
        match r1 with
        | c2 :: c3 :: r3 =>
            if is_digit c1 && is_digit c2 && is_digit c3 then TOct (ddd_byte c1 c2 c3) :: tokens r3
            else TOct c1 :: tokens r1
        | _ => TOct c1 :: tokens r1
        end
    end
  else if (c =? dot)%N then TDot :: tokens r
  else TOct c :: tokens r.
Proof. reflexivity. Qed.

Lemma encode_labels_cons l ls : encode_labels (l :: ls) = (N.of_nat (length l) :: l) ++ encode_labels ls.
Proof. reflexivity. Qed.

(* ---- the label loop without a dictionary ---- *)

Definition loop_spec (rest lab : name) (off : nat) (ws ws' : list (nat * buf)) (o : nat)
           (cm' : option dict) (ptr : option nat) : Prop :=
  ptr = None /\ cm' = None /\
  ws' = ws ++ label_writes off (split_labels (tokens rest) lab) /\
  o = off + length (encode_labels (split_labels (tokens rest) lab)) /\
  Forall label_ok (split_labels (tokens rest) lab).

Lemma pn_loop_spec_aux : forall n rest, length rest <= n -> forall lab key off c ws need ws' o cm' need' ptr,
  pn_loop rest lab key off None c ws need = Some (ws', o, cm', need', ptr) ->
  loop_spec rest lab off ws ws' o cm' ptr.
Proof.
  assert (Hnil : forall lab key off c ws need ws' o cm' need' ptr,
            pn_loop [] lab key off None c ws need = Some (ws', o, cm', need', ptr) ->
            loop_spec [] lab off ws ws' o cm' ptr).
  { intros lab key off c ws need ws' o cm' need' ptr H. cbn [pn_loop] in H. inversion H; subst.
    unfold loop_spec. cbn [tokens split_labels label_writes encode_labels flat_map length].
    rewrite app_nil_r. repeat split; auto. }
  induction n as [|n IH]; intros [|ch r] Hn lab key off c ws need ws' o cm' need' ptr H.
  - apply (Hnil _ _ _ _ _ _ _ _ _ _ _ H).
  - cbn [length] in Hn; lia.
  - apply (Hnil _ _ _ _ _ _ _ _ _ _ _ H).
  - cbn [pn_loop] in H. cbn [length] in Hn. unfold loop_spec. rewrite tokens_cons.
    destruct (ch =? backslash)%N.
    { destruct r as [|c1 r1]; [discriminate|].
      destruct r1 as [|c2 [|c3 r3]]; cbn [length] in Hn.
      - apply (IH [] ltac:(cbn; lia)) in H. exact H.
      - apply (IH [c2] ltac:(cbn; lia)) in H. exact H.
      - destruct (is_digit c1 && is_digit c2 && is_digit c3).
        + apply (IH r3 ltac:(lia)) in H. exact H.
        + apply (IH (c2 :: c3 :: r3) ltac:(cbn [length]; lia)) in H. exact H. }
    destruct (ch =? dot)%N.
    + destruct lab as [|l0 lab']; [discriminate|].
      set (lab := l0 :: lab') in *.
      destruct (Nat.leb_spec 64 (length lab)) as [|Hlt]; [discriminate|].
      apply (IH r ltac:(lia)) in H. destruct H as (A & B & C & D & E).
      cbn [split_labels label_writes]. rewrite encode_labels_cons, app_length.
      split; [exact A|]. split; [exact B|].
      split; [rewrite C, <- app_assoc; reflexivity|].
      split; [cbn [length]; lia|].
      constructor; [|exact E]. split; [subst lab; discriminate|exact Hlt].
    + apply (IH r ltac:(lia)) in H. exact H.
Qed.

Lemma pn_loop_spec : forall rest lab key off c ws need ws' o cm' need' ptr,
  pn_loop rest lab key off None c ws need = Some (ws', o, cm', need', ptr) ->
  loop_spec rest lab off ws ws' o cm' ptr.
Proof. intros rest. apply (pn_loop_spec_aux (length rest)). lia. Qed.

Lemma label_writes_contig : forall ls off tail,
  contig (off + length (encode_labels ls)) tail -> contig off (label_writes off ls ++ tail).
Proof.
  induction ls as [|l r IH]; intros off tail H.
  - cbn in *. rewrite Nat.add_0_r in H. exact H.
  - cbn [label_writes app contig fst snd length]. split; [reflexivity|].
    replace (off + S (length l)) with (off + 1 + length l) by lia. apply IH.
    rewrite encode_labels_cons, app_length in H. cbn [length] in H.
    replace (off + 1 + length l + length (encode_labels r)) with (off + (S (length l) + length (encode_labels r))) by lia.
    exact H.
Qed.

Lemma label_writes_bytes : forall ls off, flat_map snd (label_writes off ls) = encode_labels ls.
Proof.
  induction ls as [|l r IH]; intros off; [reflexivity|].
  cbn [label_writes flat_map snd]. rewrite IH. reflexivity.
Qed.

(* packDomainName without a dictionary, for every presentation name other than "" and ".":
   the writes are back to back from [off], together they are the encoded labels of the decoded
   text followed by the root octet, the offset ends right behind them, every label is non-empty and
   shorter than 64 octets, and no dictionary comes into being *)
Lemma plan_name_is_the_encoding : forall s off c pl,
  plan_name s off None c = Some pl -> s <> [] -> bytes_eqb s [dot] = false ->
  let ls := split_labels (tokens s) [] in
  contig off (p_writes pl) /\
  flat_map snd (p_writes pl) = encode_labels ls ++ [0%N] /\
  p_off pl = off + length (encode_labels ls) + 1 /\
  Forall label_ok ls /\ p_cm pl = None.
Proof.
  intros s off c pl H Hs Hdot ls. unfold plan_name in H.
  destruct s as [|s0 s']; [congruence|]. set (s := s0 :: s') in *.
  destruct (is_fqdn s); cbn [negb] in H; [|discriminate].
  rewrite Hdot in H.
  destruct (pn_loop s [] s off None c [] 0) as [[[[[ws o] cm'] need] ptr]|] eqn:E; [|discriminate].
  destruct (pn_loop_spec _ _ _ _ _ _ _ _ _ _ _ _ E) as (A & B & C & D & F). subst ptr cm'.
  inversion H; subst pl; cbn [p_writes p_off p_cm]. fold ls in C, D, F. cbn [app] in C. subst ws o.
  split; [apply label_writes_contig; cbn; auto|].
  split; [rewrite flat_map_app, label_writes_bytes; reflexivity|].
  split; [lia|]. split; [exact F|reflexivity].
Qed.

Lemma name_len_bounds_l : forall s off cm c pl,
  plan_name s off cm c = Some pl ->
  p_off pl <= off + name_len s /\ p_need pl <= off + name_len s /\ name_len s <= length s + 1.
Proof.
  intros s off cm c pl H. destruct (plan_name_inv _ _ _ _ _ H) as (_ & _ & A & B).
  split; [exact A|]. split; [exact B|exact (name_len_le_text s)].
Qed.

(* ---- character-strings ---- *)

Lemma unesc_cons c r : unesc (c :: r) =
  if (c =? backslash)%N then
    match r with
    | [] => ([], true)
    | c1 :: r1 =>
        match r1 with
        | c2 :: c3 :: r3 =>
            if is_digit c1 && is_digit c2 && is_digit c3
            then let u := unesc r3 in (ddd_byte c1 c2 c3 :: fst u, snd u)
            else let u := unesc r1 in (c1 :: fst u, snd u)
        | _ => let u := unesc r1 in (c1 :: fst u, snd u)
        end
    end
  else let u := unesc r in (c :: fst u, snd u).
Proof. reflexivity. Qed.

Lemma unesc_length_aux : forall n s, length s <= n -> length (fst (unesc s)) <= length s.
Proof.
  induction n as [|n IH]; intros s Hn; [destruct s; [cbn; lia|cbn in Hn; lia]|].
  destruct s as [|c r]; [cbn; lia|]. rewrite unesc_cons. cbn [length] in *.
  destruct (c =? backslash)%N; [|cbn [fst length]; pose proof (IH r ltac:(lia)); lia].
  destruct r as [|c1 r1]; [cbn; lia|]. cbn [length] in *.
  destruct r1 as [|c2 [|c3 r3]]; cbn [length] in *.
  - cbn. lia.
  - cbn [fst length]. pose proof (IH [c2] ltac:(cbn; lia)). cbn [length] in *. lia.
  - destruct (is_digit c1 && is_digit c2 && is_digit c3); cbn [fst length].
    + pose proof (IH r3 ltac:(lia)). lia.
    + pose proof (IH (c2 :: c3 :: r3) ltac:(cbn [length]; lia)). cbn [length] in *. lia.
Qed.
Lemma unesc_length s : length (fst (unesc s)) <= length s.
Proof. apply (unesc_length_aux (length s)). lia. Qed.

(* TXT.len / HINFO.len ... count len(s) + 1 for a character-string and CAA.len / URI.len count len(s)
   for an `octet` field whatever the text: the model's steps for the field add up to exactly that,
   for every text — decodable, too long, or ending in a lone backslash *)
Lemma character_string_sizing : forall s,
  body_len (txt_string_steps s) = length s + 1 /\ body_len (octet_steps s) = length s.
Proof.
  intros s. pose proof (unesc_length s) as Hl. unfold txt_string_steps, octet_steps.
  destruct (max_text <? length s); [cbn; lia|]. cbv zeta.
  destruct (255 <? length (fst (unesc s))); destruct (snd (unesc s)); cbn [body_len fold_right app step_len length]; lia.
Qed.

(* ---- non-vacuity: computed ---- *)

(* ex\.ample.\065bc.  decodes to the labels "ex.ample" and "Abc" *)
Definition esc_name : name := [101;120;92;46;97;109;112;108;101;46;92;48;54;53;98;99;46]%N.
Lemma esc_name_witness :
  split_labels (tokens esc_name) [] = [[101;120;46;97;109;112;108;101]; [65;98;99]]%N /\
  name_len esc_name = 14 /\ length esc_name = 17 /\
  option_map (fun pl => (flat_map snd (p_writes pl), p_off pl)) (plan_name esc_name 12 None true)
    = Some ([8;101;120;46;97;109;112;108;101;3;65;98;99;0]%N, 26) /\
  (* with a dictionary the key is the SOURCE text of the suffix: "\065bc." is found, "Abc." is not *)
  option_map p_off (plan_name esc_name 12 (Some [([92;48;54;53;98;99;46]%N, 40)]) true) = Some 23 /\
  option_map p_off (plan_name esc_name 12 (Some [([65;98;99;46]%N, 40)]) true) = Some 26 /\
  (* a text ending in a lone backslash: decoded octets, then one more octet of room *)
  txt_string_steps [97;92;48;54;53;92]%N = [SBytes [2;97;65]%N; SRoom1; SOver 4].
Proof. vm_compute. repeat split; reflexivity. Qed.
