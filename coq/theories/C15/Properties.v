(* C15 — property theorems only.  Each is closed by [exact <lemma>]; the lemmas live in
   Proofs_*.v, the model in Model.v, Gen/C15.v is regenerated from /repo on every run.
   The model is the code as of fix a876f32 (the pooled buffer is zeroed over
   min(Len()+1, 4096) octets after Get).

   The two packers are folds over ABSTRACT library primitives [pack_name] / [pack_rr]
   (both Go implementations call the same library functions).  What is assumed of
   those primitives is spelled out as premises of each theorem that needs it; all of
   them are frame / sizing facts the library provides, also for the one primitive that
   skips octets (packDataA on a 16-byte non-IPv4 address; Proofs_refute proves every
   premise for exactly such a packer):
     in_place_*       the buffer keeps its length (writes happen in the caller's array);
     frame_*          a pack reads nothing from the buffer: offsets and dictionary do not
                      depend on its content, writes are the same wherever two buffers
                      agreed, octets it does not write stay as they were;
     in_bounds_rr     a successful pack ends inside the buffer;
     same_success_*   on buffers of one length, failing does not depend on content;
     len_bounds_* / len_suffices_*   Msg.Len bounds what is advanced over, and a buffer
                      with room for Len never fails for lack of room. *)
From Sdns Require Import Common.Base Gen.C15 C15.Model C15.Proofs_bits C15.Proofs_select C15.Proofs_buf
                         C15.Proofs_pack C15.Proofs_clone C15.Proofs_refute C15.Concrete C15.Proofs_concrete
                         C15.Hybrid C15.Proofs_hybrid C15.Run C15.Proofs_history C15.Cache C15.Proofs_cache
                         C15.Layouts C15.Proofs_escape.

(* ---- translator ties: constants re-read from pack.go ---- *)

Theorem gen_flag_bits_are_the_librarys :
  bit_response = lib_QR /\ bit_authoritative = lib_AA /\ bit_truncated = lib_TC /\ bit_recursion_desired = lib_RD /\
  bit_recursion_available = lib_RA /\ bit_zero = lib_Z /\ bit_authenticated_data = lib_AD /\ bit_checking_disabled = lib_CD /\
  bits_opcode_shift = 11%N /\ bits_rcode_mask = 15%Z.
Proof. exact gen_flag_bits. Qed.
Print Assumptions gen_flag_bits_are_the_librarys.

Theorem gen_sizes_and_ranges :
  header_len = 12%N /\ (pack_buffer_size < 16384)%N /\ (12 < pack_buffer_size)%N /\ question_fixed_len = 4%N /\
  rcode_min = 0%Z /\ rcode_max = 4095%Z /\ rcode_plain_max = 15%Z /\
  ext_ttl_keep_mask = 16777215%N /\ ext_rcode_shift = 4%N /\ ext_ttl_shift = 24%N.
Proof. exact gen_sizes. Qed.
Print Assumptions gen_sizes_and_ranges.

(* session 5 — translated from the AST with the dns.RR interface as a sum type (iface_cases): the
   function wire.msgIsCompressible itself, not four numbers cut out of its text, is what the model's
   compression decision is proved equal to, for every message (replaces four regex ties) *)
Theorem gen_compressible_is_the_codes : forall m : T_Msg,
  go_msgIsCompressible m =
  is_compressible (N.of_nat (length (T_Msg_Question m))) (N.of_nat (length (T_Msg_Answer m)))
                  (N.of_nat (length (T_Msg_Ns m))) (N.of_nat (length (T_Msg_Extra m))).
Proof. exact gen_msgIsCompressible. Qed.
Print Assumptions gen_compressible_is_the_codes.
Example compressible_two_questions :
  go_msgIsCompressible (mk_T_Msg (mk_T_MsgHdr 0%N false 0%Z false false false false false false false 0%Z) false
     [mk_T_Question [] 1%N 1%N; mk_T_Question [] 1%N 1%N] [] [] []) = true /\
  go_msgIsCompressible (mk_T_Msg (mk_T_MsgHdr 0%N false 0%Z false false false false false false false 0%Z) false
     [mk_T_Question [] 1%N 1%N] [] [] []) = false.
Proof. split; reflexivity. Qed.

(* translated from the AST (purefunc, stage 3 with third-party structs): rrView.Header() *)
Theorem gen_shim_header_is_its_own_copy : forall v, go_rrView_Header v = T_rrView_hdr v.
Proof. exact gen_rrview_header. Qed.
Print Assumptions gen_shim_header_is_its_own_copy.

(* ---- header word ---- *)

(* the same word as the library for every int opcode, every int rcode, every flag *)
Theorem msg_bits_eq_lib : forall h, msg_bits h = lib_bits h.
Proof. exact msg_bits_eq_lib_l. Qed.
Print Assumptions msg_bits_eq_lib.

(* RFC 1035 4.1.1 / RFC 2535 6.1 layout, bit by bit, for all values *)
Theorem msg_bits_bit_exact : forall h i, N.testbit (msg_bits h) i = bits_layout_bit h i.
Proof. exact msg_bits_bit_exact_l. Qed.
Print Assumptions msg_bits_bit_exact.

(* ---- extended rcode ---- *)

(* the OPT TTL the pooled path packs is the one SetExtendedRcode would have stored — for
   every Go int, not only 0..4095 *)
Theorem ext_rcode_eq_lib : forall ttl rcode, ext_ttl ttl rcode = lib_ext_ttl ttl rcode.
Proof. exact ext_rcode_eq_lib_all_l. Qed.
Print Assumptions ext_rcode_eq_lib.

(* upper octet = rcode / 16, the low 24 bits (version, DO, Z) untouched, stale bits cleared *)
Theorem ext_rcode_layout : forall ttl rcode, (ttl < 2 ^ 32)%N -> (0 <= rcode <= 4095)%Z ->
  ext_ttl ttl rcode = (Z.to_N (rcode / 16) * 2 ^ 24 + ttl mod 2 ^ 24)%N.
Proof. exact ext_ttl_spec_l. Qed.
Print Assumptions ext_rcode_layout.

(* ---- compression decision ---- *)

Theorem compressible_eq_lib : forall nq na nn ne, is_compressible nq na nn ne = lib_is_compressible nq na nn ne.
Proof. exact compressible_eq_lib_l. Qed.
Print Assumptions compressible_eq_lib.

(* ---- OPT selection ---- *)

(* the backwards index loop is IsEdns0 on every additional section: several OPTs,
   misplaced OPTs, nil records, OPT-typed impostors (unsafe = the library panics) *)
Theorem select_opt_eq_lib : forall extra, select_opt extra = lib_is_edns0 extra.
Proof. exact select_opt_eq_lib_l. Qed.
Print Assumptions select_opt_eq_lib.

Theorem select_opt_selects_last : forall extra k,
  select_opt extra = SelSome k ->
  (exists x, nth_error extra k = Some x /\ opt_typed x = true /\ kind_is_opt (sh_kind x) = true /\ sh_is_nil x = false) /\
  (forall j x, (k < j)%nat -> nth_error extra j = Some x -> opt_typed x = false /\ sh_is_nil x = false).
Proof. exact select_opt_last_l. Qed.
Print Assumptions select_opt_selects_last.

(* ---- byte parity ---- *)

(* whenever the pooled packer hands out bytes and the library packs the message, they are
   the same bytes — header, questions, every record, compression pointers, the rewritten
   OPT in every alias — whatever earlier messages left in the pooled buffer *)
Theorem trypack_eq_libpack :
  forall (Name Body CMap : Type) (name_zero : Name) (cm_empty : CMap) (cm_len : CMap -> N)
         (pack_name : Name -> buf -> nat -> option CMap -> bool -> option (nat * buf * option CMap))
         (pack_rr : rrhdr Name -> Body -> buf -> nat -> option CMap -> bool -> option (nat * nat * buf * option CMap))
         (q_len : Name -> nat) (rr_len : Name -> Body -> nat),
  in_place_name Name CMap pack_name -> in_place_rr Name Body CMap pack_rr ->
  frame_name Name CMap pack_name -> frame_rr Name Body CMap pack_rr -> in_bounds_rr Name Body CMap pack_rr ->
  forall (st : pstate Name Body CMap) (m : msg Name Body) (bytes : buf),
  pool_inv Name Body CMap name_zero cm_empty st ->
  tp_bytes Name Body CMap (try_pack Name Body CMap name_zero cm_empty cm_len pack_name pack_rr q_len rr_len st m) = Some bytes ->
  forall (bytes' : buf) (m' : msg Name Body),
  lib_pack Name Body CMap cm_empty pack_name pack_rr q_len rr_len m = (LOk bytes', m') -> bytes = bytes'.
Proof. exact trypack_eq_libpack_l. Qed.
Print Assumptions trypack_eq_libpack.

(* ... and the library does pack it, to those bytes (library's own sizing contract) *)
Theorem trypack_then_library_packs :
  forall (Name Body CMap : Type) (name_zero : Name) (cm_empty : CMap) (cm_len : CMap -> N)
         (pack_name : Name -> buf -> nat -> option CMap -> bool -> option (nat * buf * option CMap))
         (pack_rr : rrhdr Name -> Body -> buf -> nat -> option CMap -> bool -> option (nat * nat * buf * option CMap))
         (q_len : Name -> nat) (rr_len : Name -> Body -> nat),
  in_place_name Name CMap pack_name -> in_place_rr Name Body CMap pack_rr ->
  frame_name Name CMap pack_name -> frame_rr Name Body CMap pack_rr ->
  len_bounds_name Name CMap pack_name q_len -> len_bounds_rr Name Body CMap pack_rr rr_len ->
  len_suffices_name Name CMap pack_name q_len -> len_suffices_rr Name Body CMap pack_rr rr_len ->
  forall (st : pstate Name Body CMap) (m : msg Name Body) (bytes : buf),
  pool_inv Name Body CMap name_zero cm_empty st ->
  tp_bytes Name Body CMap (try_pack Name Body CMap name_zero cm_empty cm_len pack_name pack_rr q_len rr_len st m) = Some bytes ->
  exists m', lib_pack Name Body CMap cm_empty pack_name pack_rr q_len rr_len m = (LOk bytes, m').
Proof. exact trypack_then_library_packs_l. Qed.
Print Assumptions trypack_then_library_packs.

(* the premises are what the library provides even where it skips octets: they all hold
   for a packer that advances over four rdata octets without writing them, and on a pooled
   buffer full of an earlier message the packer now emits the library's bytes for it
   (before a876f32 it emitted the stale octets: Proofs_refute.before_fix_parity_failed) *)
Theorem premises_hold_for_the_skipping_packer :
  in_place_name unit unit skip_name /\ in_place_rr unit unit unit skip_rr /\
  frame_name unit unit skip_name /\ frame_rr unit unit unit skip_rr /\ in_bounds_rr unit unit unit skip_rr /\
  same_success_name unit unit skip_name /\ same_success_rr unit unit unit skip_rr /\
  len_bounds_name unit unit skip_name skip_q_len /\ len_bounds_rr unit unit unit skip_rr skip_rr_len /\
  len_suffices_name unit unit skip_name skip_q_len /\ len_suffices_rr unit unit unit skip_rr skip_rr_len /\
  pool_inv unit unit unit tt tt w_dirty /\
  tp_bytes unit unit unit (try_pack unit unit unit tt tt (fun _ => 0%N) skip_name skip_rr skip_q_len skip_rr_len w_dirty w_msg)
    = Some w_library_bytes /\
  lib_pack unit unit unit tt skip_name skip_rr skip_q_len skip_rr_len w_msg = (LOk w_library_bytes, w_msg).
Proof. exact skipping_packer_premises. Qed.
Print Assumptions premises_hold_for_the_skipping_packer.

(* ---- declining ---- *)

(* a declined message reached no consumer; a handled one reached it exactly once, with a
   slice whose capacity is its length *)
Theorem decline_before_output :
  forall (Name Body CMap : Type) (name_zero : Name) (cm_empty : CMap) (cm_len : CMap -> N)
         (pack_name : Name -> buf -> nat -> option CMap -> bool -> option (nat * buf * option CMap))
         (pack_rr : rrhdr Name -> Body -> buf -> nat -> option CMap -> bool -> option (nat * nat * buf * option CMap))
         (q_len : Name -> nat) (rr_len : Name -> Body -> nat) (scrub : bool) (v : slot Name Body -> wtarget)
         (st : pstate Name Body CMap) (m : msg Name Body),
  let r := try_pack_gen Name Body CMap name_zero cm_empty cm_len pack_name pack_rr q_len rr_len scrub v st m in
  tp_handled Name Body CMap r = false /\ tp_consumed Name Body CMap r = [] \/
  tp_handled Name Body CMap r = true /\ (exists (b : buf) (off : nat), tp_consumed Name Body CMap r = [slice3 b off off]).
Proof. exact consumed_shape. Qed.
Print Assumptions decline_before_output.

(* rcode range, admission, OPT selection, missing OPT for an extended rcode, size: all of
   these decline before a pooled state is borrowed — nothing probed, written or changed *)
Theorem preflight_declines_touch_nothing :
  forall (Name Body CMap : Type) (name_zero : Name) (cm_empty : CMap) (cm_len : CMap -> N)
         (pack_name : Name -> buf -> nat -> option CMap -> bool -> option (nat * buf * option CMap))
         (pack_rr : rrhdr Name -> Body -> buf -> nat -> option CMap -> bool -> option (nat * nat * buf * option CMap))
         (q_len : Name -> nat) (rr_len : Name -> Body -> nat) (scrub : bool) (v : slot Name Body -> wtarget)
         (st : pstate Name Body CMap) (m : msg Name Body),
  (forall o : option N,
     preflight (h_rcode (m_hdr Name Body m)) (shapes Name Body (m_answer Name Body m)) (shapes Name Body (m_ns Name Body m))
               (shapes Name Body (m_extra Name Body m)) (N.of_nat (msg_len Name Body q_len rr_len m)) <> Proceed o) ->
  try_pack_gen Name Body CMap name_zero cm_empty cm_len pack_name pack_rr q_len rr_len scrub v st m =
  mk_tp Name Body CMap false [] st m.
Proof. exact preflight_decline_keeps_state. Qed.
Print Assumptions preflight_declines_touch_nothing.

(* what the pre-flight lets through: rcode in range, every record admissible, the selected
   OPT is the library's, an extended rcode has an OPT to live in, Len() fits the buffer *)
Theorem preflight_proceeds_only_when :
  forall an ns ex rcode ulen opt,
  preflight rcode an ns ex ulen = Proceed opt ->
  (rcode_min <= rcode <= rcode_max)%Z /\
  forallb admissible_rr (an ++ ns ++ ex) = true /\
  (ulen <= pack_buffer_size)%N /\
  match select_opt ex with
  | SelNone => opt = None /\ (rcode <= rcode_plain_max)%Z
  | SelSome i => exists x, nth_error ex i = Some x /\ opt = Some (sh_ptr x)
  | SelUnsafe => False
  end.
Proof. exact preflight_proceed. Qed.
Print Assumptions preflight_proceeds_only_when.

(* ---- the message is not written to ---- *)

(* every write of the pooled path (computed Rdlength, extended rcode) lands in the pooled
   shims; Proofs_refute.without_shim_message_changes / library_rewrites_callers_opt show the
   same writes routed the library's way do change the message *)
Theorem message_untouched :
  forall (Name Body CMap : Type) (name_zero : Name) (cm_empty : CMap) (cm_len : CMap -> N)
         (pack_name : Name -> buf -> nat -> option CMap -> bool -> option (nat * buf * option CMap))
         (pack_rr : rrhdr Name -> Body -> buf -> nat -> option CMap -> bool -> option (nat * nat * buf * option CMap))
         (q_len : Name -> nat) (rr_len : Name -> Body -> nat) (st : pstate Name Body CMap) (m : msg Name Body),
  tp_msg Name Body CMap (try_pack Name Body CMap name_zero cm_empty cm_len pack_name pack_rr q_len rr_len st m) = m.
Proof. exact message_untouched_l. Qed.
Print Assumptions message_untouched.

(* ---- what the consumer can reach ---- *)

Theorem capacity_pinned :
  forall (Name Body CMap : Type) (name_zero : Name) (cm_empty : CMap) (cm_len : CMap -> N)
         (pack_name : Name -> buf -> nat -> option CMap -> bool -> option (nat * buf * option CMap))
         (pack_rr : rrhdr Name -> Body -> buf -> nat -> option CMap -> bool -> option (nat * nat * buf * option CMap))
         (q_len : Name -> nat) (rr_len : Name -> Body -> nat) (scrub : bool) (v : slot Name Body -> wtarget)
         (st : pstate Name Body CMap) (m : msg Name Body) (s : gslice),
  In s (tp_consumed Name Body CMap (try_pack_gen Name Body CMap name_zero cm_empty cm_len pack_name pack_rr q_len rr_len scrub v st m)) ->
  sl_cap s = sl_len s /\ sl_reachable s = sl_bytes s.
Proof. exact capacity_pinned_l. Qed.
Print Assumptions capacity_pinned.

(* ---- pooled state ---- *)

(* whatever a pack did — handled, failed half-way, declined — the state that goes back to
   the pool satisfies the release invariant again (in-place packers) *)
Theorem release_reestablishes_invariant :
  forall (Name Body CMap : Type) (name_zero : Name) (cm_empty : CMap) (cm_len : CMap -> N)
         (pack_name : Name -> buf -> nat -> option CMap -> bool -> option (nat * buf * option CMap))
         (pack_rr : rrhdr Name -> Body -> buf -> nat -> option CMap -> bool -> option (nat * nat * buf * option CMap))
         (q_len : Name -> nat) (rr_len : Name -> Body -> nat),
  in_place_name Name CMap pack_name -> in_place_rr Name Body CMap pack_rr ->
  forall (scrub : bool) (v : slot Name Body -> wtarget) (st : pstate Name Body CMap) (m : msg Name Body),
  pool_inv Name Body CMap name_zero cm_empty st ->
  pool_inv Name Body CMap name_zero cm_empty
    (tp_state Name Body CMap (try_pack_gen Name Body CMap name_zero cm_empty cm_len pack_name pack_rr q_len rr_len scrub v st m)).
Proof. exact try_pack_keeps_inv. Qed.
Print Assumptions release_reestablishes_invariant.

(* any two pool states satisfying the release invariant give identical output and the
   same handled verdict: nothing of what earlier packs left in buffer, shim or dictionary
   can be observed *)
Theorem pool_state_noninterference :
  forall (Name Body CMap : Type) (name_zero : Name) (cm_empty : CMap) (cm_len : CMap -> N)
         (pack_name : Name -> buf -> nat -> option CMap -> bool -> option (nat * buf * option CMap))
         (pack_rr : rrhdr Name -> Body -> buf -> nat -> option CMap -> bool -> option (nat * nat * buf * option CMap))
         (q_len : Name -> nat) (rr_len : Name -> Body -> nat),
  in_place_name Name CMap pack_name -> in_place_rr Name Body CMap pack_rr ->
  frame_name Name CMap pack_name -> frame_rr Name Body CMap pack_rr ->
  same_success_name Name CMap pack_name -> same_success_rr Name Body CMap pack_rr ->
  len_bounds_name Name CMap pack_name q_len -> len_bounds_rr Name Body CMap pack_rr rr_len ->
  forall (st1 st2 : pstate Name Body CMap) (m : msg Name Body),
  pool_inv Name Body CMap name_zero cm_empty st1 -> pool_inv Name Body CMap name_zero cm_empty st2 ->
  tp_bytes Name Body CMap (try_pack Name Body CMap name_zero cm_empty cm_len pack_name pack_rr q_len rr_len st1 m) =
  tp_bytes Name Body CMap (try_pack Name Body CMap name_zero cm_empty cm_len pack_name pack_rr q_len rr_len st2 m) /\
  tp_handled Name Body CMap (try_pack Name Body CMap name_zero cm_empty cm_len pack_name pack_rr q_len rr_len st1 m) =
  tp_handled Name Body CMap (try_pack Name Body CMap name_zero cm_empty cm_len pack_name pack_rr q_len rr_len st2 m).
Proof. exact pool_state_noninterference_l. Qed.
Print Assumptions pool_state_noninterference.

(* every interleaving of requests sharing the pool (each owns the state it took until it
   puts it back): all states stay within the invariant and every output is what a
   brand-new state would have produced for that message *)
Theorem schedules_see_a_fresh_packer :
  forall (Name Body CMap : Type) (name_zero : Name) (cm_empty : CMap) (cm_len : CMap -> N)
         (pack_name : Name -> buf -> nat -> option CMap -> bool -> option (nat * buf * option CMap))
         (pack_rr : rrhdr Name -> Body -> buf -> nat -> option CMap -> bool -> option (nat * nat * buf * option CMap))
         (q_len : Name -> nat) (rr_len : Name -> Body -> nat),
  in_place_name Name CMap pack_name -> in_place_rr Name Body CMap pack_rr ->
  frame_name Name CMap pack_name -> frame_rr Name Body CMap pack_rr ->
  same_success_name Name CMap pack_name -> same_success_rr Name Body CMap pack_rr ->
  len_bounds_name Name CMap pack_name q_len -> len_bounds_rr Name Body CMap pack_rr rr_len ->
  forall (es : list (event Name Body)) (s : sched_state Name Body CMap),
  sched_ok Name Body CMap name_zero cm_empty cm_len pack_name pack_rr q_len rr_len s ->
  sched_ok Name Body CMap name_zero cm_empty cm_len pack_name pack_rr q_len rr_len
           (sched_run Name Body CMap name_zero cm_empty cm_len pack_name pack_rr q_len rr_len es s).
Proof. exact schedule_outputs_l. Qed.
Print Assumptions schedules_see_a_fresh_packer.

(* ---- PackClone ---- *)

(* what PackClone returns is what the library's Pack returns — bytes, error or panic —
   for every message, admissible or not; the caller's message comes back unwritten
   whenever every record is admissible *)
Theorem packclone_eq_libpack :
  forall (Name Body CMap : Type) (name_zero : Name) (cm_empty : CMap) (cm_len : CMap -> N)
         (pack_name : Name -> buf -> nat -> option CMap -> bool -> option (nat * buf * option CMap))
         (pack_rr : rrhdr Name -> Body -> buf -> nat -> option CMap -> bool -> option (nat * nat * buf * option CMap))
         (q_len : Name -> nat) (rr_len : Name -> Body -> nat),
  in_place_name Name CMap pack_name -> in_place_rr Name Body CMap pack_rr ->
  frame_name Name CMap pack_name -> frame_rr Name Body CMap pack_rr ->
  len_bounds_name Name CMap pack_name q_len -> len_bounds_rr Name Body CMap pack_rr rr_len ->
  len_suffices_name Name CMap pack_name q_len -> len_suffices_rr Name Body CMap pack_rr rr_len ->
  forall (st : pstate Name Body CMap) (m : msg Name Body),
  pool_inv Name Body CMap name_zero cm_empty st ->
  fst (fst (pack_clone Name Body CMap name_zero cm_empty cm_len pack_name pack_rr q_len rr_len st m)) =
  fst (lib_pack Name Body CMap cm_empty pack_name pack_rr q_len rr_len m) /\
  (forallb admissible_rr (shapes Name Body (m_records Name Body m)) = true ->
   snd (pack_clone Name Body CMap name_zero cm_empty cm_len pack_name pack_rr q_len rr_len st m) = m).
Proof. exact packclone_eq_libpack_l. Qed.
Print Assumptions packclone_eq_libpack.

(* ---- nothing assumed: the concrete library primitives ---- *)

(* C15.Concrete models packDomainName with its compression dictionary (every presentation name;
   since session 5 with the backslash escapes, see the end of this file) and
   packRR for step-sequence records (A — including the octet-skipping 16-byte form —, AAAA,
   NS, CNAME, PTR, MX, DNAME, NULL, TXT — including the empty one that pokes an octet beyond
   what it advances over —, SOA, SRV, HINFO, CAA, DS, DNSKEY, RRSIG, NSEC, TLSA, OPT with opaque
   options); both are tied to the Go code octet by octet by the name / concrete cases of the
   wire driver.  Every premise used above holds for them: *)
Theorem concrete_primitives_satisfy_the_premises :
  in_place_name name dict pack_name_c /\ in_place_rr name body dict pack_rr_c /\
  frame_name name dict pack_name_c /\ frame_rr name body dict pack_rr_c /\ in_bounds_rr name body dict pack_rr_c /\
  same_success_name name dict pack_name_c /\ same_success_rr name body dict pack_rr_c /\
  len_bounds_name name dict pack_name_c q_len_c /\ len_bounds_rr name body dict pack_rr_c rr_len_c /\
  len_suffices_name name dict pack_name_c q_len_c /\ len_suffices_rr name body dict pack_rr_c rr_len_c.
Proof. exact concrete_premises. Qed.
Print Assumptions concrete_primitives_satisfy_the_premises.

(* hence, for every message over those records, every pooled state within the invariant and
   every dictionary: what TryPack hands out is exactly what dns.Msg.Pack returns *)
Theorem concrete_trypack_is_libpack : forall st m bytes, pool_inv name body dict [] [] st ->
  tp_bytes name body dict (try_pack_c st m) = Some bytes -> exists m', lib_pack_c m = (LOk bytes, m').
Proof. exact concrete_trypack_is_libpack_l. Qed.
Print Assumptions concrete_trypack_is_libpack.

Theorem concrete_pool_state_noninterference : forall st1 st2 m,
  pool_inv name body dict [] [] st1 -> pool_inv name body dict [] [] st2 ->
  tp_bytes name body dict (try_pack_c st1 m) = tp_bytes name body dict (try_pack_c st2 m) /\
  tp_handled name body dict (try_pack_c st1 m) = tp_handled name body dict (try_pack_c st2 m).
Proof. exact concrete_pool_state_noninterference_l. Qed.
Print Assumptions concrete_pool_state_noninterference.

Theorem concrete_schedules_see_a_fresh_packer : forall es s,
  sched_ok name body dict [] [] cm_len_c pack_name_c pack_rr_c q_len_c rr_len_c s ->
  sched_ok name body dict [] [] cm_len_c pack_name_c pack_rr_c q_len_c rr_len_c
           (sched_run name body dict [] [] cm_len_c pack_name_c pack_rr_c q_len_c rr_len_c es s).
Proof. exact concrete_schedules_l. Qed.
Print Assumptions concrete_schedules_see_a_fresh_packer.

Theorem concrete_packclone_is_libpack : forall st m, pool_inv name body dict [] [] st ->
  fst (fst (pack_clone_c st m)) = fst (lib_pack_c m) /\
  (forallb admissible_rr (shapes name body (m_records name body m)) = true -> snd (pack_clone_c st m) = m).
Proof. exact concrete_packclone_is_libpack_l. Qed.
Print Assumptions concrete_packclone_is_libpack.

(* ---- one assumption left: the rdata of the remaining record types is a buffer-blind plan ---- *)

(* C15.Hybrid: a record's rdata is a sequence of concrete step runs and ABSTRACT fragments (the
   rdata of SVCB/HTTPS, LOC, APL, NSEC3, IPSECKEY, ... — record types the admission lets through
   that the step model does not decompose).  Owner names with their dictionary, record headers,
   the RDLENGTH patch, questions and the message header are concrete.  All that is assumed of a
   fragment is [rdata_plan_ok]: its writes, end offset, dictionary and the extent its bounds
   checks demand are a function of offset / dictionary / compress flag (not of the buffer), the
   writes stay inside that extent, and Len() bounds both what it advances over and (with one
   octet to spare) the extent.  The eleven premises of the abstract theorems follow. *)
Theorem hybrid_trypack_is_libpack :
  forall (X : Type) (plan_x : X -> nat -> option dict -> bool -> option plan) (len_x : X -> nat),
  rdata_plan_ok X plan_x len_x ->
  forall st m bytes, pool_inv name (hbody X) dict [] [] st ->
  tp_bytes name (hbody X) dict (try_pack_h X plan_x len_x st m) = Some bytes ->
  exists m', lib_pack_h X plan_x len_x m = (LOk bytes, m').
Proof. exact hybrid_trypack_is_libpack_l. Qed.
Print Assumptions hybrid_trypack_is_libpack.

Theorem hybrid_pool_state_noninterference :
  forall (X : Type) (plan_x : X -> nat -> option dict -> bool -> option plan) (len_x : X -> nat),
  rdata_plan_ok X plan_x len_x ->
  forall st1 st2 m, pool_inv name (hbody X) dict [] [] st1 -> pool_inv name (hbody X) dict [] [] st2 ->
  tp_bytes name (hbody X) dict (try_pack_h X plan_x len_x st1 m) = tp_bytes name (hbody X) dict (try_pack_h X plan_x len_x st2 m) /\
  tp_handled name (hbody X) dict (try_pack_h X plan_x len_x st1 m) = tp_handled name (hbody X) dict (try_pack_h X plan_x len_x st2 m).
Proof. exact hybrid_pool_state_noninterference_l. Qed.
Print Assumptions hybrid_pool_state_noninterference.

Theorem hybrid_schedules_see_a_fresh_packer :
  forall (X : Type) (plan_x : X -> nat -> option dict -> bool -> option plan) (len_x : X -> nat),
  rdata_plan_ok X plan_x len_x ->
  forall es s,
  sched_ok name (hbody X) dict [] [] cm_len_c pack_name_c (pack_rr_h X plan_x) q_len_c (rr_len_h X len_x) s ->
  sched_ok name (hbody X) dict [] [] cm_len_c pack_name_c (pack_rr_h X plan_x) q_len_c (rr_len_h X len_x)
           (sched_run name (hbody X) dict [] [] cm_len_c pack_name_c (pack_rr_h X plan_x) q_len_c (rr_len_h X len_x) es s).
Proof. exact hybrid_schedules_l. Qed.
Print Assumptions hybrid_schedules_see_a_fresh_packer.

Theorem hybrid_packclone_is_libpack :
  forall (X : Type) (plan_x : X -> nat -> option dict -> bool -> option plan) (len_x : X -> nat),
  rdata_plan_ok X plan_x len_x ->
  forall st m, pool_inv name (hbody X) dict [] [] st ->
  fst (fst (pack_clone_h X plan_x len_x st m)) = fst (lib_pack_h X plan_x len_x m) /\
  (forallb admissible_rr (shapes name (hbody X) (m_records name (hbody X) m)) = true -> snd (pack_clone_h X plan_x len_x st m) = m).
Proof. exact hybrid_packclone_is_libpack_l. Qed.
Print Assumptions hybrid_packclone_is_libpack.

(* the assumption is satisfiable: by the octet-skipping fragment, and by any run of concrete
   steps read as one opaque fragment *)
Theorem rdata_plan_ok_is_satisfiable :
  rdata_plan_ok unit skip4_plan (fun _ => 4%nat) /\ rdata_plan_ok body steps_plan body_len.
Proof. exact (conj skip4_plan_ok steps_plan_ok). Qed.
Print Assumptions rdata_plan_ok_is_satisfiable.

(* ---- pool histories: handled, declined and ABANDONED packs ---- *)

(* A pooled state is what any sequence of earlier TryPack calls left: packs that were handled,
   packs declined before a state was borrowed, and packs abandoned part-way — packInto wrote the
   header, the questions and k records into the pooled buffer, then met a record the library
   refuses; the state goes back with its buffer as written ([run_history] folds Model.try_pack,
   whose result state is [release (state_after st0 w c)] on every path).  After any two histories
   from any two states within the invariant the next pack gives the same bytes and verdict. *)
Theorem history_noninterference :
  forall (Name Body CMap : Type) (name_zero : Name) (cm_empty : CMap) (cm_len : CMap -> N)
         (pack_name : Name -> buf -> nat -> option CMap -> bool -> option (nat * buf * option CMap))
         (pack_rr : rrhdr Name -> Body -> buf -> nat -> option CMap -> bool -> option (nat * nat * buf * option CMap))
         (q_len : Name -> nat) (rr_len : Name -> Body -> nat),
  in_place_name Name CMap pack_name -> in_place_rr Name Body CMap pack_rr ->
  frame_name Name CMap pack_name -> frame_rr Name Body CMap pack_rr ->
  same_success_name Name CMap pack_name -> same_success_rr Name Body CMap pack_rr ->
  len_bounds_name Name CMap pack_name q_len -> len_bounds_rr Name Body CMap pack_rr rr_len ->
  forall (hist1 hist2 : list (msg Name Body)) (st1 st2 : pstate Name Body CMap) (m : msg Name Body),
  pool_inv Name Body CMap name_zero cm_empty st1 -> pool_inv Name Body CMap name_zero cm_empty st2 ->
  tp_bytes Name Body CMap (try_pack Name Body CMap name_zero cm_empty cm_len pack_name pack_rr q_len rr_len
     (run_history Name Body CMap name_zero cm_empty cm_len pack_name pack_rr q_len rr_len st1 hist1) m) =
  tp_bytes Name Body CMap (try_pack Name Body CMap name_zero cm_empty cm_len pack_name pack_rr q_len rr_len
     (run_history Name Body CMap name_zero cm_empty cm_len pack_name pack_rr q_len rr_len st2 hist2) m) /\
  tp_handled Name Body CMap (try_pack Name Body CMap name_zero cm_empty cm_len pack_name pack_rr q_len rr_len
     (run_history Name Body CMap name_zero cm_empty cm_len pack_name pack_rr q_len rr_len st1 hist1) m) =
  tp_handled Name Body CMap (try_pack Name Body CMap name_zero cm_empty cm_len pack_name pack_rr q_len rr_len
     (run_history Name Body CMap name_zero cm_empty cm_len pack_name pack_rr q_len rr_len st2 hist2) m).
Proof. exact history_noninterference_l. Qed.
Print Assumptions history_noninterference.

(* the concrete packers, no premise: after ANY history of concrete messages the bytes are those
   of any other history (the empty one: a state fresh from the pool's New) ... *)
Theorem concrete_history_noninterference : forall hist1 hist2 st1 st2 m,
  pool_inv name body dict [] [] st1 -> pool_inv name body dict [] [] st2 ->
  tp_bytes name body dict (try_pack_c (run_history_c st1 hist1) m) = tp_bytes name body dict (try_pack_c (run_history_c st2 hist2) m) /\
  tp_handled name body dict (try_pack_c (run_history_c st1 hist1) m) = tp_handled name body dict (try_pack_c (run_history_c st2 hist2) m).
Proof. exact concrete_history_noninterference_l. Qed.
Print Assumptions concrete_history_noninterference.

(* ... and they are the library's Pack of the message *)
Theorem concrete_history_then_libpack : forall hist st m bytes, pool_inv name body dict [] [] st ->
  tp_bytes name body dict (try_pack_c (run_history_c st hist) m) = Some bytes -> exists m', lib_pack_c m = (LOk bytes, m').
Proof. exact concrete_history_then_libpack_l. Qed.
Print Assumptions concrete_history_then_libpack.

(* the hypothesis class is not empty and the scrub at acquire is what it rests on: a computed
   history with an abandoned pack leaves 'Z' octets at offset 25 of the pooled buffer; the next
   message has an A record whose four rdata octets (25..28) the library skips; the packer without
   the scrub (what seeded changes C15-8 / C15-9 amount to after an abandoned pack) hands out 'Z'
   there, the packer as it is hands out 0 — the library's octet *)
Theorem abandoned_pack_needs_the_scrub :
  let st := run_history_c dirty_state [w_abandoned] in
  tp_handled name body dict (try_pack_c dirty_state w_abandoned) = false /\
  nth 25 (ps_buf name body dict st) 0%N = 90%N /\
  option_map (fun b => nth 25 b 0%N)
    (tp_bytes name body dict (try_pack_unscrubbed name body dict [] [] cm_len_c pack_name_c pack_rr_c q_len_c rr_len_c st w_hole)) = Some 90%N /\
  option_map (fun b => nth 25 b 0%N) (tp_bytes name body dict (try_pack_c st w_hole)) = Some 0%N /\
  option_map (fun b => nth 25 b 0%N) (match fst (lib_pack_c w_hole) with LOk b => Some b | _ => None end) = Some 0%N.
Proof. exact abandoned_pack_witness. Qed.
Print Assumptions abandoned_pack_needs_the_scrub.

(* ---- the consumer that keeps the bytes: a cache entry (C15.Cache) ---- *)

(* "the bytes stored for a cache entry are the same whether or not the fast packer handled them":
   NewCacheEntryWithKey keeps wire.PackClone of the storable view (the reply without the OPT objects
   of its additional section, compression on).  Whatever pooled state the pack gets — and whether
   TryPack takes the view or PackClone falls back to the library — what is kept (bytes / no entry /
   panic) is the library's own Pack of that view, and the pool is left within its invariant. *)
Theorem cache_entry_stores_the_librarys_bytes : forall st m, pool_inv name body dict [] [] st ->
  view_panics name body m = false ->
  fst (cache_entry_c st m) = fst (lib_pack_c (storable_view name body m)) /\
  pool_inv name body dict [] [] (snd (cache_entry_c st m)).
Proof. exact cache_entry_is_libpack_l. Qed.
Print Assumptions cache_entry_stores_the_librarys_bytes.

(* ... under any reuse of the pooled state: two admissions of one reply keep the same bytes *)
Theorem cache_entry_independent_of_the_pool : forall st1 st2 m,
  pool_inv name body dict [] [] st1 -> pool_inv name body dict [] [] st2 ->
  fst (cache_entry_c st1 m) = fst (cache_entry_c st2 m).
Proof. exact cache_entry_pool_independent_l. Qed.
Print Assumptions cache_entry_independent_of_the_pool.

(* the DO=0 body is packed second, on whatever the first pack put back: the library's bytes again *)
Theorem cache_entry_stripped_body_is_the_librarys : forall dn st m, pool_inv name body dict [] [] st ->
  fst (cache_stripped_c dn (snd (cache_entry_c st m)) m) = fst (lib_pack_c (stripped_view name body dn m)).
Proof. exact cache_stripped_is_libpack_l. Qed.
Print Assumptions cache_entry_stripped_body_is_the_librarys.

(* what the two views are: header, question, answer, authority as given, compression on, the
   additional section without exactly its OPT objects (by Go type, not by header type); the DO=0 view
   loses exactly the DNSSEC objects of answer and authority unless the question asks for RRSIG *)
Theorem storable_view_is_the_reply_without_its_opt_objects : forall (m : msg name body),
  let v := storable_view name body m in
  m_hdr name body v = m_hdr name body m /\ m_compress name body v = true /\
  m_question name body v = m_question name body m /\ m_answer name body v = m_answer name body m /\
  m_ns name body v = m_ns name body m /\
  (forall s, In s (m_extra name body v) <-> In s (m_extra name body m) /\ is_opt_object name body s = false).
Proof. exact storable_view_facts_l. Qed.
Print Assumptions storable_view_is_the_reply_without_its_opt_objects.

Theorem stripped_view_loses_exactly_the_dnssec_objects : forall dn (m : msg name body),
  let v := stripped_view name body dn m in
  m_compress name body v = true /\
  m_extra name body v = m_extra name body (storable_view name body m) /\
  (first_qtype_is name body type_rrsig m = true ->
     m_answer name body v = m_answer name body m /\ m_ns name body v = m_ns name body m) /\
  (first_qtype_is name body type_rrsig m = false ->
     forall s, In s (m_answer name body v ++ m_ns name body v) <->
               In s (m_answer name body m ++ m_ns name body m) /\ dn s = false).
Proof. exact stripped_view_l. Qed.
Print Assumptions stripped_view_loses_exactly_the_dnssec_objects.

(* non-vacuity, computed: a signed reply with an OPT and a retyped OPT object around a glue record —
   the entry keeps two answers and ONE additional record; its DO=0 body one answer *)
Example cache_entry_keeps_a_signed_reply :
  let r := cache_entry_c dirty_state wc_msg in
  (exists b, fst r = LOk b /\ fst (lib_pack_c (storable_view name body wc_msg)) = LOk b /\
             u16_at b 6 = 2%N /\ u16_at b 10 = 1%N) /\
  (exists b, fst (cache_stripped_c (is_dnssec_obj [2%N]) (snd r) wc_msg) = LOk b /\
             u16_at b 6 = 1%N /\ u16_at b 10 = 1%N).
Proof. exact cache_entry_witness. Qed.

(* ---- the consumers that use the bytes on the spot ---- *)

(* "a reply's wire form is the same whether or not the fast packer handled it":
   responseWriter.WriteMsg hands the transport either the pooled packer's bytes (declared sink, not
   an internal writer, TryPack handled) or the caller's message for the library's own Pack — the
   wire form is the library's Pack of the message either way, from any pooled state *)
Theorem reply_wire_form_is_the_librarys : forall direct internal st m, pool_inv name body dict [] [] st ->
  wire_form (fst (write_msg_c direct internal st m)) = fst (lib_pack_c m) /\
  (forall m', fst (write_msg_c direct internal st m) = SentMsg m' -> m' = m) /\
  (forall b, fst (write_msg_c direct internal st m) = SentBytes b -> direct = true /\ internal = false) /\
  pool_inv name body dict [] [] (snd (write_msg_c direct internal st m)).
Proof. exact reply_wire_form_l. Qed.
Print Assumptions reply_wire_form_is_the_librarys.

(* validatedNegativeProofFingerprint: for ANY hash function, the seal of a proof is the hash of the
   library's Pack of {Rcode, Ns} (invalid when the library errors), whether TryPack hashed it in the
   pooled buffer or declined — so a seal taken at one time compares equal at any later time *)
Theorem fingerprint_is_the_hash_of_the_librarys_bytes : forall (D : Type) (H : buf -> D) st m,
  pool_inv name body dict [] [] st ->
  fst (fingerprint_c H st m) = fp_of_lib H (fst (lib_pack_c (sealed_view m))) /\
  pool_inv name body dict [] [] (snd (fingerprint_c H st m)).
Proof. exact fingerprint_is_hash_of_libpack_l. Qed.
Print Assumptions fingerprint_is_the_hash_of_the_librarys_bytes.

Theorem fingerprint_independent_of_the_pool : forall (D : Type) (H : buf -> D) st1 st2 m,
  pool_inv name body dict [] [] st1 -> pool_inv name body dict [] [] st2 ->
  fst (fingerprint_c H st1 m) = fst (fingerprint_c H st2 m).
Proof. exact fingerprint_pool_independent_l. Qed.
Print Assumptions fingerprint_independent_of_the_pool.

Example consumers_see_the_signed_reply :
  (exists b, fst (write_msg_c true false dirty_state wc_msg) = SentBytes b /\ fst (lib_pack_c wc_msg) = LOk b) /\
  (exists m', fst (write_msg_c true true dirty_state wc_msg) = SentMsg m') /\
  fst (fingerprint_c (fun b => b) dirty_state wc_msg) = FpSum [0;0;0;0;0;0;0;0;0;0;0;0]%N.
Proof. exact consumers_witness. Qed.

(* ---- session 5: presentation escapes (names and character-strings) are part of the concrete model ----

   Until session 4 the name model refused a text with a backslash and the drivers kept such values
   under the hybrid theorems' assumption rdata_plan_ok.  Now pn_loop decodes \DDD (modulo 256) and \c
   as packDomainName does (in place, one octet of room asked for at each escape), keys the dictionary
   on the SOURCE text of the suffix, IsFqdn counts the backslashes in front of the final dot, and
   Len() is the decoded length (escapedNameLen) — so all the concrete_* theorems above (premises,
   parity, pool independence, schedules, PackClone, histories, the three consumers) now hold for
   messages whose names and strings carry escapes, with no premise.  What the escape handling MEANS: *)

(* Len() — what TryPack's size probe adds up — bounds what the packer advances over and demands of
   the buffer for every name, and is never more than the text + 1 *)
Theorem name_len_bounds_the_packer_with_escapes : forall s off cm c pl,
  plan_name s off cm c = Some pl ->
  p_off pl <= off + name_len s /\ p_need pl <= off + name_len s /\ name_len s <= length s + 1.
Proof. exact name_len_bounds_l. Qed.
Print Assumptions name_len_bounds_the_packer_with_escapes.

(* without a dictionary, for EVERY presentation name other than "" and ".": the octets written are,
   back to back from the offset given, the RFC 1035 encoding of the labels obtained by decoding the
   escapes and splitting at the unescaped dots, then the root octet; every label is non-empty and
   shorter than 64 octets (otherwise the name is refused); no dictionary comes into being *)
Theorem packed_name_is_the_encoding_of_its_decoded_labels : forall s off c pl,
  plan_name s off None c = Some pl -> s <> [] -> bytes_eqb s [dot] = false ->
  let ls := split_labels (tokens s) [] in
  contig off (p_writes pl) /\
  flat_map snd (p_writes pl) = encode_labels ls ++ [0%N] /\
  p_off pl = (off + length (encode_labels ls) + 1)%nat /\
  Forall label_ok ls /\ p_cm pl = None.
Proof. exact plan_name_is_the_encoding. Qed.
Print Assumptions packed_name_is_the_encoding_of_its_decoded_labels.

(* the sizing of a character-string field is the length of its TEXT (+ 1 with a length octet), for
   every text: what the record's len() counts, whatever the escapes decode to *)
Theorem character_string_sizing_is_the_text : forall s,
  body_len (txt_string_steps s) = (length s + 1)%nat /\ body_len (octet_steps s) = length s.
Proof. exact character_string_sizing. Qed.
Print Assumptions character_string_sizing_is_the_text.

Example escaped_name_packs :
  split_labels (tokens esc_name) [] = [[101;120;46;97;109;112;108;101]; [65;98;99]]%N /\
  name_len esc_name = 14%nat /\ length esc_name = 17%nat /\
  option_map (fun pl => (flat_map snd (p_writes pl), p_off pl)) (plan_name esc_name 12 None true)
    = Some ([8;101;120;46;97;109;112;108;101;3;65;98;99;0]%N, 26%nat) /\
  option_map p_off (plan_name esc_name 12 (Some [([92;48;54;53;98;99;46]%N, 40%nat)]) true) = Some 23%nat /\
  option_map p_off (plan_name esc_name 12 (Some [([65;98;99;46]%N, 40%nat)]) true) = Some 26%nat /\
  txt_string_steps [97;92;48;54;53;92]%N = [SBytes [2;97;65]%N; SRoom1; SOver 4].
Proof. exact esc_name_witness. Qed.
