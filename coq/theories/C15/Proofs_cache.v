(* C15 — the bytes a cache entry keeps (C15.Cache) are the library's Pack of the storable view,
   whatever pooled state the two packs of an admission happen to get. *)
From Sdns Require Import Common.Base Gen.C15 C15.Model C15.Concrete C15.Cache C15.Proofs_pack C15.Proofs_concrete.
From Sdns Require Import C15.Run.
Open Scope nat_scope.

Notation Inv_c := (pool_inv name body dict [] []).

Lemma pack_clone_c_state : forall st m,
  snd (fst (pack_clone_c st m)) = tp_state name body dict (try_pack_c st m).
Proof.
  intros st m. unfold pack_clone_c, pack_clone, try_pack_c.
  destruct (tp_bytes _ _ _ _); [reflexivity|].
  destruct (library_pack_immutable _ _ _ _ _ _ _ _ _); reflexivity.
Qed.

Lemma pack_clone_c_keeps_inv : forall st m, Inv_c st -> Inv_c (snd (fst (pack_clone_c st m))).
Proof.
  intros st m H. rewrite pack_clone_c_state. unfold try_pack_c, try_pack.
  apply (try_pack_keeps_inv name body dict [] [] cm_len_c pack_name_c pack_rr_c q_len_c rr_len_c
           pack_name_c_in_place pack_rr_c_in_place). exact H.
Qed.

(* the stored body *)
Lemma cache_entry_is_libpack_l : forall st m, Inv_c st -> view_panics name body m = false ->
  fst (cache_entry_c st m) = fst (lib_pack_c (storable_view name body m)) /\ Inv_c (snd (cache_entry_c st m)).
Proof.
  intros st m H Hp. unfold cache_entry_c. rewrite Hp. cbn [fst snd]. split.
  - apply concrete_packclone_is_libpack_l. exact H.
  - apply pack_clone_c_keeps_inv. exact H.
Qed.

Lemma cache_entry_pool_independent_l : forall st1 st2 m, Inv_c st1 -> Inv_c st2 ->
  fst (cache_entry_c st1 m) = fst (cache_entry_c st2 m).
Proof.
  intros st1 st2 m H1 H2. destruct (view_panics name body m) eqn:Hp.
  - unfold cache_entry_c. rewrite Hp. reflexivity.
  - rewrite (proj1 (cache_entry_is_libpack_l st1 m H1 Hp)), (proj1 (cache_entry_is_libpack_l st2 m H2 Hp)). reflexivity.
Qed.

(* the DO=0 body, packed on whatever the first pack left in the pool *)
Lemma cache_stripped_is_libpack_l : forall dn st m, Inv_c st ->
  fst (cache_stripped_c dn (snd (cache_entry_c st m)) m) = fst (lib_pack_c (stripped_view name body dn m)).
Proof.
  intros dn st m H. unfold cache_stripped_c. cbn [fst].
  apply concrete_packclone_is_libpack_l.
  unfold cache_entry_c. destruct (view_panics name body m); cbn [snd]; [exact H|].
  apply pack_clone_c_keeps_inv. exact H.
Qed.

(* what the views are *)
Lemma storable_view_extra_l : forall (m : msg name body) s,
  In s (m_extra name body (storable_view name body m)) <->
  In s (m_extra name body m) /\ is_opt_object name body s = false.
Proof.
  intros m s. unfold storable_view. cbn [m_extra]. rewrite filter_In.
  split; intros [A B]; split; try assumption.
  - destruct (is_opt_object name body s); [discriminate|reflexivity].
  - rewrite B. reflexivity.
Qed.

Lemma storable_view_facts_l : forall (m : msg name body),
  let v := storable_view name body m in
  m_hdr name body v = m_hdr name body m /\ m_compress name body v = true /\
  m_question name body v = m_question name body m /\ m_answer name body v = m_answer name body m /\
  m_ns name body v = m_ns name body m /\
  (forall s, In s (m_extra name body v) <-> In s (m_extra name body m) /\ is_opt_object name body s = false).
Proof.
  intros m v. do 5 (split; [reflexivity|]). intros s. apply storable_view_extra_l.
Qed.

Lemma stripped_view_l : forall dn (m : msg name body),
  let v := stripped_view name body dn m in
  m_compress name body v = true /\
  m_extra name body v = m_extra name body (storable_view name body m) /\
  (first_qtype_is name body type_rrsig m = true ->
     m_answer name body v = m_answer name body m /\ m_ns name body v = m_ns name body m) /\
  (first_qtype_is name body type_rrsig m = false ->
     forall s, In s (m_answer name body v ++ m_ns name body v) <->
               In s (m_answer name body m ++ m_ns name body m) /\ dn s = false).
Proof.
  intros dn m. unfold stripped_view, clear_dnssec.
  change (first_qtype_is name body type_rrsig (storable_view name body m)) with (first_qtype_is name body type_rrsig m).
  destruct (first_qtype_is name body type_rrsig m); cbn.
  - split; [reflexivity|]. split; [reflexivity|]. split; [intros _; split; reflexivity|discriminate].
  - split; [reflexivity|]. split; [reflexivity|]. split; [discriminate|]. intros _ s.
    rewrite !in_app_iff, !filter_In. destruct (dn s); cbn [negb]; intuition congruence.
Qed.

(* ---- non-vacuity: a reply with an OPT, a retyped OPT object and signatures ---- *)
Definition wc_hdr : mhdr := mk_mhdr 7 true 0 false false true true false true false 0.
Definition wc_a : crec := R [97;46]%N KOther 1 1 1 60 0 [SBytes [192;0;2;1]%N].
Definition wc_sig : crec := R [97;46]%N KOther 2 46 1 60 0 [SBytes [0;1;8;1;0;0;0;60;0;0;0;2;0;0;0;1;0;9]%N; SName [97;46]%N false; SBytes [1;2;3]%N].
Definition wc_opt : crec := R [46]%N KOpt 3 41 1232 32768 0 [].
Definition wc_opt_retyped : crec := R [46]%N KOpt 4 0 1232 0 0 [].
Definition wc_msg : msg name body :=
  msg_of wc_hdr false [([97;46]%N, 1%N, 1%N)] [wc_a; wc_sig] [] [wc_opt_retyped; wc_a; wc_opt].

Lemma cache_entry_witness :
  let r := cache_entry_c dirty_state wc_msg in
  (exists b, fst r = LOk b /\ fst (lib_pack_c (storable_view name body wc_msg)) = LOk b /\
             u16_at b 6 = 2%N /\ u16_at b 10 = 1%N) /\
  (exists b, fst (cache_stripped_c (is_dnssec_obj [2%N]) (snd r) wc_msg) = LOk b /\
             u16_at b 6 = 1%N /\ u16_at b 10 = 1%N).
Proof. vm_compute. split; eexists; repeat split; reflexivity. Qed.

(* ---- WriteMsg and the negative-proof fingerprint ---- *)

Lemma try_pack_c_msg : forall st m, tp_msg name body dict (try_pack_c st m) = m.
Proof.
  intros st m. unfold try_pack_c.
  apply (message_untouched_l name body dict [] [] cm_len_c pack_name_c pack_rr_c q_len_c rr_len_c).
Qed.

Lemma try_pack_c_keeps_inv : forall st m, Inv_c st -> Inv_c (tp_state name body dict (try_pack_c st m)).
Proof.
  intros st m H. unfold try_pack_c, try_pack.
  apply (try_pack_keeps_inv name body dict [] [] cm_len_c pack_name_c pack_rr_c q_len_c rr_len_c
           pack_name_c_in_place pack_rr_c_in_place). exact H.
Qed.

(* whichever way the reply leaves — raw bytes from the pooled packer or the message for the
   transport's own library pack — its wire form is the library's Pack of the message, the message
   the transport gets is the caller's, and the pool stays within its invariant *)
Lemma reply_wire_form_l : forall direct internal st m, Inv_c st ->
  wire_form (fst (write_msg_c direct internal st m)) = fst (lib_pack_c m) /\
  (forall m', fst (write_msg_c direct internal st m) = SentMsg m' -> m' = m) /\
  (forall b, fst (write_msg_c direct internal st m) = SentBytes b -> direct = true /\ internal = false) /\
  Inv_c (snd (write_msg_c direct internal st m)).
Proof.
  intros direct internal st m H. unfold write_msg_c.
  destruct (direct && negb internal) eqn:Hg.
  - destruct (tp_bytes name body dict (try_pack_c st m)) as [b|] eqn:Hb; cbn [fst snd wire_form].
    + destruct (concrete_trypack_is_libpack_l st m b H Hb) as (m' & Hl).
      rewrite Hl. cbn [fst]. split; [reflexivity|]. split; [discriminate|].
      split; [|apply try_pack_c_keeps_inv; exact H].
      intros _ _. destruct direct, internal; try discriminate; split; reflexivity.
    + rewrite try_pack_c_msg. split; [reflexivity|]. split; [intros m' E; injection E; auto|].
      split; [discriminate|apply try_pack_c_keeps_inv; exact H].
  - cbn [fst snd wire_form]. split; [reflexivity|]. split; [intros m' E; injection E; auto|].
    split; [discriminate|exact H].
Qed.

Lemma fingerprint_is_hash_of_libpack_l : forall (D : Type) (H : buf -> D) st m, Inv_c st ->
  fst (fingerprint_c H st m) = fp_of_lib H (fst (lib_pack_c (sealed_view m))) /\
  Inv_c (snd (fingerprint_c H st m)).
Proof.
  intros D H st m HI. unfold fingerprint_c.
  destruct (tp_bytes name body dict (try_pack_c st (sealed_view m))) as [b|] eqn:Hb; cbn [fst snd].
  - destruct (concrete_trypack_is_libpack_l st (sealed_view m) b HI Hb) as (m' & Hl).
    rewrite Hl. cbn [fst fp_of_lib]. split; [reflexivity|apply try_pack_c_keeps_inv; exact HI].
  - rewrite try_pack_c_msg. split; [reflexivity|apply try_pack_c_keeps_inv; exact HI].
Qed.

Lemma fingerprint_pool_independent_l : forall (D : Type) (H : buf -> D) st1 st2 m, Inv_c st1 -> Inv_c st2 ->
  fst (fingerprint_c H st1 m) = fst (fingerprint_c H st2 m).
Proof.
  intros D H st1 st2 m H1 H2.
  rewrite (proj1 (fingerprint_is_hash_of_libpack_l D H st1 m H1)), (proj1 (fingerprint_is_hash_of_libpack_l D H st2 m H2)).
  reflexivity.
Qed.

(* non-vacuity: the signed reply above leaves a direct writer as raw bytes; its authority section
   (empty here) seals to the twelve header octets *)
Lemma consumers_witness :
  (exists b, fst (write_msg_c true false dirty_state wc_msg) = SentBytes b /\ fst (lib_pack_c wc_msg) = LOk b) /\
  (exists m', fst (write_msg_c true true dirty_state wc_msg) = SentMsg m') /\
  fst (fingerprint_c (fun b => b) dirty_state wc_msg) = FpSum [0;0;0;0;0;0;0;0;0;0;0;0]%N.
Proof. vm_compute. split; [eexists; split; reflexivity|]. split; [eexists; reflexivity|reflexivity]. Qed.
