(* C15 — OPT selection: the backwards index loop of wire.selectOPT is the library's
   IsEdns0 on every additional section (any number of OPTs, anywhere, nil records and
   OPT-typed impostors included), and what it selects is the LAST OPT-typed record. *)
From Sdns Require Import Common.Base Gen.C15 C15.Model.
Open Scope N_scope.

Definition shift_sel (s : sel) : sel := match s with SelSome j => SelSome (S j) | r => r end.

Lemma examine_S s i : examine s (S i) = option_map shift_sel (examine s i).
Proof. unfold examine. destruct (sh_is_nil s), (sh_type s =? type_opt), (kind_is_opt (sh_kind s)); reflexivity. Qed.

(* scanning a list with one more record in front: positions shift by one, and the new
   head is looked at last *)
Lemma select_from_cons s rest : forall i, (i <= length rest)%nat ->
  select_from (s :: rest) (S i) =
  match select_from rest i with
  | SelNone => match examine s 0 with Some r => r | None => SelNone end
  | r => shift_sel r
  end.
Proof.
  induction i as [|i IH]; intros Hi.
  - cbn. destruct (examine s 0); reflexivity.
  - cbn [select_from]. cbn [nth_error].
    destruct (nth_error rest i) as [x|] eqn:Hx.
    2:{ apply nth_error_None in Hx. lia. }
    rewrite examine_S. destruct (examine x i) as [r|] eqn:Hr; cbn [option_map].
    + unfold examine in Hr. destruct (sh_is_nil x), (sh_type x =? type_opt), (kind_is_opt (sh_kind x));
        inversion Hr; reflexivity.
    + apply IH. lia.
Qed.

Lemma lib_from_shift l : forall b, lib_is_edns0_from l (S b) = shift_sel (lib_is_edns0_from l b).
Proof.
  induction l as [|s rest IH]; intros b; [reflexivity|].
  cbn [lib_is_edns0_from]. rewrite (IH (S b)).
  destruct (lib_is_edns0_from rest (S b)) eqn:E; cbn [shift_sel]; try reflexivity.
  rewrite examine_S. destruct (examine s b) as [r|]; reflexivity.
Qed.

Lemma select_opt_eq_lib_l : forall extra, select_opt extra = lib_is_edns0 extra.
Proof.
  unfold select_opt, lib_is_edns0.
  induction extra as [|s rest IH]; [reflexivity|].
  cbn [length lib_is_edns0_from]. rewrite select_from_cons by lia. rewrite IH.
  rewrite lib_from_shift.
  destruct (lib_is_edns0_from rest 0); reflexivity.
Qed.

(* ---- what is selected ---- *)

Definition opt_typed (s : sshape) : bool := sh_type s =? type_opt.

(* nothing behind position i stops the scan *)
Definition quiet_after (l : list sshape) (i : nat) : Prop :=
  forall j x, (i < j)%nat -> nth_error l j = Some x -> sh_is_nil x = false /\ opt_typed x = false.

Lemma examine_none s i : examine s i = None <-> sh_is_nil s = false /\ opt_typed s = false.
Proof.
  unfold examine, opt_typed. destruct (sh_is_nil s), (sh_type s =? type_opt), (kind_is_opt (sh_kind s));
    cbn; split; intros H; try discriminate; try (destruct H; discriminate); auto.
Qed.

Lemma select_from_spec l : forall i, (i <= length l)%nat ->
  match select_from l i with
  | SelSome k => (k < i)%nat /\ (exists x, nth_error l k = Some x /\ sh_is_nil x = false /\ opt_typed x = true /\
                                          kind_is_opt (sh_kind x) = true) /\
                 (forall j x, (k < j < i)%nat -> nth_error l j = Some x -> sh_is_nil x = false /\ opt_typed x = false)
  | SelNone => forall j x, (j < i)%nat -> nth_error l j = Some x -> sh_is_nil x = false /\ opt_typed x = false
  | SelUnsafe => exists k x, (k < i)%nat /\ nth_error l k = Some x /\
                             (sh_is_nil x = true \/ (opt_typed x = true /\ kind_is_opt (sh_kind x) = false)) /\
                 (forall j y, (k < j < i)%nat -> nth_error l j = Some y -> sh_is_nil y = false /\ opt_typed y = false)
  end.
Proof.
  induction i as [|i IH]; intros Hi.
  - cbn. intros j0 x0 Hj0. lia.
  - cbn [select_from]. destruct (nth_error l i) as [s|] eqn:Hs.
    2:{ apply nth_error_None in Hs. lia. }
    destruct (examine s i) as [r|] eqn:Hr.
    + unfold examine in Hr. fold (opt_typed s) in Hr.
      destruct (sh_is_nil s) eqn:Hn.
      * inversion Hr; subst r. exists i, s. split; [lia|]. split; [assumption|]. split; [auto|]. intros; lia.
      * destruct (opt_typed s) eqn:Ht; cbn [negb] in Hr; [|discriminate].
        destruct (kind_is_opt (sh_kind s)) eqn:Hk; inversion Hr; subst r.
        -- split; [lia|]. split; [exists s; auto|]. intros; lia.
        -- exists i, s. split; [lia|]. split; [assumption|]. split; [auto|]. intros; lia.
    + apply examine_none in Hr. destruct Hr as [Hn Ht].
      specialize (IH ltac:(lia)).
      destruct (select_from l i) as [|k|].
      * intros j x Hj Hx. destruct (Nat.eq_dec j i) as [->|]; [rewrite Hs in Hx; inversion Hx; subst; auto|].
        apply (IH j); [lia|assumption].
      * destruct IH as (Hk & Hex & Hq). split; [lia|]. split; [assumption|].
        intros j x Hj Hx. destruct (Nat.eq_dec j i) as [->|]; [rewrite Hs in Hx; inversion Hx; subst; auto|].
        apply (Hq j); [lia|assumption].
      * destruct IH as (k & x & Hk & Hx & Hbad & Hq). exists k, x.
        split; [lia|]. split; [assumption|]. split; [assumption|].
        intros j y Hj Hy. destruct (Nat.eq_dec j i) as [->|]; [rewrite Hs in Hy; inversion Hy; subst; auto|].
        apply (Hq j); [lia|assumption].
Qed.

(* the selected record is the last OPT-typed one, and it is a genuine *dns.OPT; with
   several OPTs the earlier ones are not selected; an OPT-typed record behind it would
   have been found first *)
Lemma select_opt_last_l : forall extra k,
  select_opt extra = SelSome k ->
  (exists x, nth_error extra k = Some x /\ opt_typed x = true /\ kind_is_opt (sh_kind x) = true /\ sh_is_nil x = false) /\
  (forall j x, (k < j)%nat -> nth_error extra j = Some x -> opt_typed x = false /\ sh_is_nil x = false).
Proof.
  intros extra k H. pose proof (select_from_spec extra (length extra) (le_n _)) as S.
  unfold select_opt in H. rewrite H in S. destruct S as (Hk & (x & Hx & Hn & Ht & Hko) & Hq).
  split; [exists x; auto|].
  intros j y Hj Hy. assert (j < length extra)%nat by (apply nth_error_Some; congruence).
  destruct (Hq j y); auto.
Qed.

Lemma select_opt_none_l : forall extra,
  select_opt extra = SelNone -> forall x, In x extra -> opt_typed x = false /\ sh_is_nil x = false.
Proof.
  intros extra H x Hin. pose proof (select_from_spec extra (length extra) (le_n _)) as S.
  unfold select_opt in H. rewrite H in S.
  apply In_nth_error in Hin. destruct Hin as [j Hj].
  assert (j < length extra)%nat by (apply nth_error_Some; congruence).
  destruct (S j x); auto.
Qed.

(* declining because of the selection means the library would have panicked there *)
Lemma select_opt_unsafe_l : forall extra,
  select_opt extra = SelUnsafe ->
  exists k x, nth_error extra k = Some x /\
              (sh_is_nil x = true \/ (opt_typed x = true /\ kind_is_opt (sh_kind x) = false)) /\
              (forall j y, (k < j)%nat -> nth_error extra j = Some y -> opt_typed y = false /\ sh_is_nil y = false).
Proof.
  intros extra H. pose proof (select_from_spec extra (length extra) (le_n _)) as S.
  unfold select_opt in H. rewrite H in S. destruct S as (k & x & Hk & Hx & Hbad & Hq).
  exists k, x. split; [assumption|]. split; [assumption|]. intros j y Hj Hy.
  assert (j < length extra)%nat by (apply nth_error_Some; congruence). destruct (Hq j y); auto.
Qed.

(* ---- the pre-flight ladder ---- *)

Lemma preflight_proceed an ns ex rcode ulen opt :
  preflight rcode an ns ex ulen = Proceed opt ->
  (rcode_min <= rcode <= rcode_max)%Z /\
  forallb admissible_rr (an ++ ns ++ ex) = true /\
  ulen <= pack_buffer_size /\
  match select_opt ex with
  | SelNone => opt = None /\ (rcode <= rcode_plain_max)%Z
  | SelSome i => exists x, nth_error ex i = Some x /\ opt = Some (sh_ptr x)
  | SelUnsafe => False
  end.
Proof.
  unfold preflight.
  destruct ((rcode <? rcode_min)%Z || (rcode_max <? rcode)%Z) eqn:Hr; [discriminate|].
  apply orb_false_iff in Hr. destruct Hr as [Hr1 Hr2].
  destruct (forallb admissible_rr (an ++ ns ++ ex)) eqn:Ha; cbn [negb]; [|discriminate].
  destruct (select_opt ex) as [|i|] eqn:Hs; [| |discriminate].
  - destruct (rcode_plain_max <? rcode)%Z eqn:Hp; [discriminate|].
    destruct (pack_buffer_size <? ulen) eqn:Hu; [discriminate|].
    intros H; inversion H; subst. repeat split; try lia. 
  - destruct (pack_buffer_size <? ulen) eqn:Hu; [discriminate|].
    intros H; inversion H; subst. repeat split; try lia.
    destruct (select_opt_last_l _ _ Hs) as [(x & Hx & _) _].
    exists x. split; [assumption|]. f_equal. f_equal. apply nth_error_nth. assumption.
Qed.
