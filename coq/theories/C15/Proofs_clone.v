(* C15 — PackClone and the immutable library fallback: same result as the library's
   Pack on every message; a message built from admissible records comes back unwritten. *)
From Sdns Require Import Common.Base Gen.C15 C15.Model C15.Proofs_bits C15.Proofs_select C15.Proofs_buf C15.Proofs_pack.
Open Scope nat_scope.

Section CloneProofs.
  Variables Name Body CMap : Type.
  Variable name_zero : Name.
  Variable cm_empty : CMap.
  Variable cm_len : CMap -> N.
  Variable pack_name : Name -> buf -> nat -> option CMap -> bool -> option (nat * buf * option CMap).
  Variable pack_rr : rrhdr Name -> Body -> buf -> nat -> option CMap -> bool -> option (nat * nat * buf * option CMap).
  Variable q_len : Name -> nat.
  Variable rr_len : Name -> Body -> nat.

  Notation slotT := (slot Name Body).
  Notation msgT := (msg Name Body).
  Notation LRec := (lib_records Name Body CMap pack_rr).
  Notation TP := (try_pack Name Body CMap name_zero cm_empty cm_len pack_name pack_rr q_len rr_len).
  Notation LP := (lib_pack Name Body CMap cm_empty pack_name pack_rr q_len rr_len).
  Notation LFrom := (lib_pack_from Name Body CMap pack_name pack_rr q_len rr_len).
  Notation LPI := (library_pack_immutable Name Body CMap cm_empty pack_name pack_rr q_len rr_len).
  Notation PC := (pack_clone Name Body CMap name_zero cm_empty cm_len pack_name pack_rr q_len rr_len).
  Notation Inv := (pool_inv Name Body CMap name_zero cm_empty).
  Notation rsum := (sum_len (slot_len Name Body rr_len)).

  Lemma lib_pack_from_snd : forall m1 c cm, snd (LFrom m1 c cm) = m1.
  Proof.
    intros m1 c cm. unfold lib_pack_from.
    destruct (has_typed_nil Name Body m1); [reflexivity|].
    destruct (lib_header _ _ _ _ _ _ _) as [[o f]|]; [|reflexivity].
    destruct (lib_questions _ _ _ _ _ _ _ _) as [[[f1 o1] c1]|]; [|reflexivity].
    destruct (LRec c (m_answer Name Body m1) o1 f1 c1); try reflexivity.
    destruct (LRec c (m_ns Name Body m1) out off cm0); try reflexivity.
    destruct (LRec c (m_extra Name Body m1) out0 off0 cm1); reflexivity.
  Qed.

  (* two records the library cannot tell apart: everything but the object identity *)
  Definition same_but_ptr (a b : slotT) : Prop :=
    s_hdr Name Body a = s_hdr Name Body b /\ s_body Name Body a = s_body Name Body b /\
    sh_is_nil (s_sh Name Body a) = sh_is_nil (s_sh Name Body b) /\
    sh_typed_nil (s_sh Name Body a) = sh_typed_nil (s_sh Name Body b) /\
    s_name Name Body a = s_name Name Body b.

  Lemma lib_records_upto : forall c l1 l2, Forall2 same_but_ptr l1 l2 ->
    forall out off cm, LRec c l1 out off cm = LRec c l2 out off cm.
  Proof.
    intros c l1 l2 H. induction H as [|a b r1 r2 (Hh & Hb & Hn & Ht & _) _ IH]; intros out off cm; [reflexivity|].
    cbn [lib_records]. rewrite Hn, Ht, Hh, Hb.
    destruct (sh_is_nil (s_sh Name Body b)); [reflexivity|]. destruct (sh_typed_nil (s_sh Name Body b)); [reflexivity|].
    destruct (pack_rr _ _ _ _ _ _) as [[[[he o] b'] cm']|]; [apply IH|reflexivity].
  Qed.

  Lemma rsum_upto : forall l1 l2, Forall2 same_but_ptr l1 l2 -> rsum l1 = rsum l2.
  Proof.
    intros l1 l2 H. induction H as [|a b r1 r2 (_ & Hb & Hn & _ & Hnm) _ IH]; [reflexivity|].
    cbn [sum_len fold_right]. unfold sum_len in IH. rewrite IH. f_equal.
    unfold slot_len. rewrite Hn, Hb, Hnm. reflexivity.
  Qed.

  Lemma typed_nil_upto : forall l1 l2, Forall2 same_but_ptr l1 l2 ->
    existsb (fun s => sh_typed_nil (s_sh Name Body s)) l1 = existsb (fun s => sh_typed_nil (s_sh Name Body s)) l2.
  Proof.
    intros l1 l2 H. induction H as [|a b r1 r2 (_ & _ & _ & Ht & _) _ IH]; [reflexivity|].
    cbn [existsb]. rewrite Ht, IH. reflexivity.
  Qed.

  Lemma Forall2_len {A B} (R : A -> B -> Prop) : forall l1 l2, Forall2 R l1 l2 -> length l1 = length l2.
  Proof. intros l1 l2 H. induction H; cbn; congruence. Qed.

  Lemma rsum_app' : forall l1 l2 : list slotT, rsum (l1 ++ l2) = rsum l1 + rsum l2.
  Proof. induction l1 as [|x r IH]; intros l2; cbn; [reflexivity|]. unfold sum_len in *. rewrite IH. lia. Qed.

  Lemma lib_pack_from_upto : forall (A B : msgT) c cm,
    m_hdr Name Body A = m_hdr Name Body B -> m_question Name Body A = m_question Name Body B ->
    Forall2 same_but_ptr (m_answer Name Body A) (m_answer Name Body B) ->
    Forall2 same_but_ptr (m_ns Name Body A) (m_ns Name Body B) ->
    Forall2 same_but_ptr (m_extra Name Body A) (m_extra Name Body B) ->
    fst (LFrom A c cm) = fst (LFrom B c cm).
  Proof.
    intros A B c cm Hh Hq Ha Hn He. unfold lib_pack_from.
    assert (Htn : has_typed_nil Name Body A = has_typed_nil Name Body B).
    { unfold has_typed_nil, m_records. rewrite !existsb_app.
      rewrite (typed_nil_upto _ _ Ha), (typed_nil_upto _ _ Hn), (typed_nil_upto _ _ He). reflexivity. }
    assert (Hlen : msg_len Name Body q_len rr_len A = msg_len Name Body q_len rr_len B).
    { unfold msg_len, m_records. rewrite Hq. rewrite !rsum_app'.
      rewrite (rsum_upto _ _ Ha), (rsum_upto _ _ Hn), (rsum_upto _ _ He). reflexivity. }
    rewrite Htn, Hlen, Hh, Hq. unfold count16.
    rewrite (Forall2_len _ _ _ Ha), (Forall2_len _ _ _ Hn), (Forall2_len _ _ _ He).
    destruct (has_typed_nil Name Body B); [reflexivity|].
    destruct (lib_header _ _ _ _ _ _ _) as [[o f]|]; [|reflexivity].
    destruct (lib_questions _ _ _ _ _ _ _ _) as [[[f1 o1] c1]|]; [|reflexivity].
    rewrite (lib_records_upto c _ _ Ha).
    destruct (LRec c (m_answer Name Body B) o1 f1 c1); try reflexivity.
    rewrite (lib_records_upto c _ _ Hn).
    destruct (LRec c (m_ns Name Body B) out off cm0); try reflexivity.
    rewrite (lib_records_upto c _ _ He).
    destruct (LRec c (m_extra Name Body B) out0 off0 cm1); reflexivity.
  Qed.

  (* ---- the clone ---- *)

  Lemma max_ptr_bound : forall (l : list slotT) s, In s l ->
    (sh_ptr (s_sh Name Body s) <= fold_right (fun s a => N.max (sh_ptr (s_sh Name Body s)) a) 0%N l)%N.
  Proof.
    induction l as [|x r IH]; intros s Hin; [destruct Hin|].
    cbn [fold_right]. destruct Hin as [->|Hin]; [lia|]. specialize (IH s Hin). lia.
  Qed.

  Notation rename p p' := (upd_where Name Body (fun s => is_selected (Some p) (s_sh Name Body s)) (slot_set_ptr Name Body p')).

  Lemma clone_section : forall p p' rc (l : list slotT),
    (forall s, In s l -> (sh_ptr (s_sh Name Body s) < p')%N) ->
    Forall2 same_but_ptr (lib_rewrite Name Body (Some p') rc (rename p p' l)) (lib_rewrite Name Body (Some p) rc l).
  Proof.
    intros p p' rc. induction l as [|s r IH]; intros Hb; [constructor|].
    unfold lib_rewrite, upd_where in *. cbn [map]. constructor.
    - destruct (is_selected (Some p) (s_sh Name Body s)) eqn:Es.
      + assert (Es' : is_selected (Some p') (s_sh Name Body (slot_set_ptr Name Body p' s)) = true).
        { unfold is_selected in *. cbn. apply andb_true_iff in Es. destruct Es as [Es _].
          unfold sh_is_nil in *. cbn. rewrite Es. apply N.eqb_refl. }
        rewrite Es'. unfold same_but_ptr. cbn. repeat split; reflexivity.
      + assert (Es' : is_selected (Some p') (s_sh Name Body s) = false).
        { unfold is_selected. replace (sh_ptr (s_sh Name Body s) =? p')%N with false; [apply andb_false_r|].
          symmetry. apply N.eqb_neq. specialize (Hb s (or_introl eq_refl)). lia. }
        rewrite Es'. unfold same_but_ptr. repeat split; reflexivity.
    - apply IH. intros x Hx. apply Hb. right. assumption.
  Qed.

  Lemma edns0_rename : forall p p' (l : list slotT) b,
    lib_is_edns0_from (shapes Name Body (rename p p' l)) b = lib_is_edns0_from (shapes Name Body l) b.
  Proof.
    intros p p'. induction l as [|s r IH]; intros b; [reflexivity|].
    unfold shapes, upd_where in *. cbn [map lib_is_edns0_from]. rewrite IH.
    destruct (lib_is_edns0_from _ (S b)); try reflexivity.
    destruct (is_selected (Some p) (s_sh Name Body s)); reflexivity.
  Qed.

  Lemma clone_same_bytes : forall (m : msgT) i o,
    select_opt (shapes Name Body (m_extra Name Body m)) = SelSome i ->
    nth_error (m_extra Name Body m) i = Some o ->
    (0 <= h_rcode (m_hdr Name Body m) <= 4095)%Z ->
    let p := sh_ptr (s_sh Name Body o) in
    let clone := msg_upd Name Body (fun s => is_selected (Some p) (s_sh Name Body s))
                         (slot_set_ptr Name Body (max_ptr Name Body m + 1)) m in
    fst (LP clone) = fst (LP m).
  Proof.
    intros m i o Hsel Ho Hrc p clone.
    set (p' := (max_ptr Name Body m + 1)%N) in *.
    unfold lib_pack.
    assert (Hh : m_hdr Name Body clone = m_hdr Name Body m) by reflexivity.
    rewrite Hh.
    replace ((h_rcode (m_hdr Name Body m) <? 0)%Z || (4095 <? h_rcode (m_hdr Name Body m))%Z) with false
      by (symmetry; apply orb_false_iff; split; apply Z.ltb_ge; lia).
    assert (Hc : lib_msg_compressible Name Body clone = lib_msg_compressible Name Body m).
    { unfold lib_msg_compressible, clone, msg_upd. cbn. rewrite !(upd_where_length Name Body). reflexivity. }
    assert (Hcp : m_compress Name Body clone = m_compress Name Body m) by reflexivity.
    rewrite Hc, Hcp.
    assert (Hex : m_extra Name Body clone = rename p p' (m_extra Name Body m)) by reflexivity.
    unfold lib_is_edns0. rewrite Hex, edns0_rename.
    fold (lib_is_edns0 (shapes Name Body (m_extra Name Body m))). rewrite <- select_opt_eq_lib_l, Hsel.
    (* the selected record in the clone is the private copy *)
    destruct (select_opt_last_l _ _ Hsel) as [(x & Hx & Ht & Hk & Hn) _].
    apply (nth_error_shapes Name Body) in Hx. destruct Hx as (o2 & Ho2 & <-).
    rewrite Ho in Ho2. inversion Ho2; subst o2; clear Ho2.
    assert (Hselo : is_selected (Some p) (s_sh Name Body o) = true).
    { unfold is_selected. rewrite Hn, Hk. cbn. subst p. apply N.eqb_refl. }
    unfold upd_where. rewrite nth_error_map, Ho. cbn [option_map]. rewrite Hselo.
    change (sh_ptr (s_sh Name Body (slot_set_ptr Name Body p' o))) with p'. fold p.
    (* same bytes: the rewritten messages differ in object identities only *)
    assert (Hbound : forall s, In s (m_records Name Body m) -> (sh_ptr (s_sh Name Body s) < p')%N).
    { intros s Hin. pose proof (max_ptr_bound _ s Hin). unfold p', max_ptr. lia. }
    apply lib_pack_from_upto; try reflexivity.
    - apply clone_section. intros s Hin. apply Hbound. unfold m_records. apply in_or_app. left. assumption.
    - apply clone_section. intros s Hin. apply Hbound. unfold m_records. apply in_or_app. right. apply in_or_app. left. assumption.
    - apply clone_section. intros s Hin. apply Hbound. unfold m_records. apply in_or_app. right. apply in_or_app. right. assumption.
  Qed.

  (* libraryPackImmutable returns what the library's Pack returns, on every message *)
  Lemma lpi_same_result : forall m, fst (LPI m) = fst (LP m).
  Proof.
    intros m. unfold library_pack_immutable.
    destruct ((h_rcode (m_hdr Name Body m) <? 0)%Z || (4095 <? h_rcode (m_hdr Name Body m))%Z) eqn:Er; [reflexivity|].
    destruct (forallb admissible_rr (shapes Name Body (m_records Name Body m))); cbn [negb]; [|reflexivity].
    destruct (select_opt (shapes Name Body (m_extra Name Body m))) as [|i|] eqn:Es; try reflexivity.
    destruct (nth_error (m_extra Name Body m) i) as [o|] eqn:Eo; [|reflexivity].
    cbn [fst]. apply orb_false_iff in Er. destruct Er as [E1 E2].
    apply (clone_same_bytes m i o Es Eo). apply Z.ltb_ge in E1. apply Z.ltb_ge in E2. lia.
  Qed.

  (* ... and gives the caller's message back as it was whenever the OPT write was diverted *)
  Lemma lpi_message : forall m,
    forallb admissible_rr (shapes Name Body (m_records Name Body m)) = true -> snd (LPI m) = m.
  Proof.
    intros m Hadm. unfold library_pack_immutable.
    assert (Hlp : forall x, select_opt (shapes Name Body (m_extra Name Body m)) = x ->
                  (match x with SelSome _ => False | _ => True end) -> snd (LP m) = m).
    { intros x Hx Hcase. unfold lib_pack.
      destruct ((h_rcode (m_hdr Name Body m) <? 0)%Z || (4095 <? h_rcode (m_hdr Name Body m))%Z); [reflexivity|].
      rewrite <- select_opt_eq_lib_l, Hx. destruct x; try contradiction; try reflexivity.
      destruct (15 <? h_rcode (m_hdr Name Body m))%Z; [reflexivity|]. apply lib_pack_from_snd. }
    destruct ((h_rcode (m_hdr Name Body m) <? 0)%Z || (4095 <? h_rcode (m_hdr Name Body m))%Z) eqn:Er.
    { unfold lib_pack. rewrite Er. reflexivity. }
    rewrite Hadm. cbn [negb].
    destruct (select_opt (shapes Name Body (m_extra Name Body m))) as [|i|] eqn:Es.
    - apply (Hlp SelNone); auto.
    - destruct (nth_error (m_extra Name Body m) i) as [o|] eqn:Eo; [reflexivity|].
      (* unreachable: the selected index is inside the section *)
      destruct (select_opt_last_l _ _ Es) as [(x & Hx & _) _].
      apply (nth_error_shapes Name Body) in Hx. destruct Hx as (o2 & Ho2 & _). congruence.
    - apply (Hlp SelUnsafe); auto.
  Qed.

  Theorem packclone_eq_libpack_l :
    in_place_name Name CMap pack_name -> in_place_rr Name Body CMap pack_rr ->
    frame_name Name CMap pack_name -> frame_rr Name Body CMap pack_rr ->
    len_bounds_name Name CMap pack_name q_len -> len_bounds_rr Name Body CMap pack_rr rr_len ->
    len_suffices_name Name CMap pack_name q_len -> len_suffices_rr Name Body CMap pack_rr rr_len ->
    forall st m, Inv st ->
    fst (fst (PC st m)) = fst (LP m) /\
    (forallb admissible_rr (shapes Name Body (m_records Name Body m)) = true -> snd (PC st m) = m).
  Proof.
    intros Hn Hr Hdn Hdr Hbn Hbr Hsn Hsr st m HI. unfold pack_clone.
    pose proof (message_untouched_l Name Body CMap name_zero cm_empty cm_len pack_name pack_rr q_len rr_len st m) as Hm.
    destruct (tp_bytes Name Body CMap (TP st m)) as [b|] eqn:Eb.
    - destruct (trypack_then_library_packs_l Name Body CMap name_zero cm_empty cm_len pack_name pack_rr q_len rr_len
                  Hn Hr Hdn Hdr Hbn Hbr Hsn Hsr st m b HI Eb) as [m' Hm'].
      rewrite Hm'. cbn. split; [reflexivity|]. intros _. exact Hm.
    - rewrite Hm. pose proof (lpi_same_result m) as H1. pose proof (lpi_message m) as H2.
      destruct (LPI m) as [res m1]. cbn in *. split; assumption.
  Qed.

End CloneProofs.
