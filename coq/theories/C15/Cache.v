(* C15 — the consumer that KEEPS the bytes: middleware/cache NewCacheEntryWithKey and
   CacheEntry.prepareStripped (types.go).  Definitions only.

   NewCacheEntryWithKey assembles the storable view of a reply — header, question, answer and
   authority as they are; the additional section without every record whose Go type is *dns.OPT
   (a type assertion: the header's Rrtype is not looked at); Compress forced on — and stores
   wire.PackClone of it (nil entry on error).  prepareStripped packs, for clients without DO,
   the same view through dnsutil.ClearDNSSEC (answer / authority without records whose Go type
   is *dns.RRSIG, *dns.NSEC, *dns.NSEC3, unless the first question asks for RRSIG), Compress on,
   again through wire.PackClone on the pooled state the first pack put back.

   Which entries get a stripped body at all (prepareWireServe's flags, parsed from the stored
   bytes) is cache-serving policy and not modelled: the cases say whether one was stored. *)
From Sdns Require Import Common.Base Gen.C15 C15.Model C15.Concrete.
Open Scope nat_scope.

Definition type_rrsig : N := 46%N. (* dns.TypeRRSIG *)

Section Views.
  Variables Name Body : Type.
  Notation msg := (msg Name Body).
  Notation slot := (slot Name Body).

  (* a type assertion to the OPT pointer type: by dynamic type; a typed-nil *dns.OPT passes too *)
  Definition is_opt_object (s : slot) : bool := kind_is_opt (sh_kind (s_sh Name Body s)).

  (* `for _, option := range opt.Option` dereferences the asserted pointer before anything is packed *)
  Definition view_panics (m : msg) : bool :=
    existsb (fun s => is_opt_object s && sh_typed_nil (s_sh Name Body s)) (m_extra Name Body m).

  Definition storable_view (m : msg) : msg :=
    mk_msg Name Body (m_hdr Name Body m) true (m_question Name Body m) (m_answer Name Body m) (m_ns Name Body m)
           (filter (fun s => negb (is_opt_object s)) (m_extra Name Body m)).

  (* isDNSSEC is a type switch over *dns.RRSIG / *dns.NSEC / *dns.NSEC3: a fact about the object *)
  Variable dnssec : slot -> bool.

  Definition first_qtype_is (t : N) (m : msg) : bool :=
    match m_question Name Body m with q :: _ => (q_type Name q =? t)%N | [] => false end.

  (* dnsutil.ClearDNSSEC *)
  Definition clear_dnssec (m : msg) : msg :=
    if first_qtype_is type_rrsig m then m
    else mk_msg Name Body (m_hdr Name Body m) (m_compress Name Body m) (m_question Name Body m)
                (filter (fun s => negb (dnssec s)) (m_answer Name Body m))
                (filter (fun s => negb (dnssec s)) (m_ns Name Body m))
                (m_extra Name Body m).

  (* prepareStripped: `stripped := *msgCopy; ClearDNSSEC(&stripped); stripped.Compress = true` *)
  Definition stripped_view (m : msg) : msg :=
    let v := clear_dnssec (storable_view m) in
    mk_msg Name Body (m_hdr Name Body v) true (m_question Name Body v) (m_answer Name Body v) (m_ns Name Body v)
           (m_extra Name Body v).
End Views.

(* ---- on the concrete packers ---- *)

(* the stored body (LOk bytes / LErr = nil entry / LPanic) and the pooled state afterwards *)
Definition cache_entry_c (st : pstate name body dict) (m : msg name body) : lib_result * pstate name body dict :=
  if view_panics name body m then (LPanic, st)
  else let r := pack_clone_c st (storable_view name body m) in (fst (fst r), snd (fst r)).

(* the DO=0 body *)
Definition cache_stripped_c (dnssec : slot name body -> bool) (st : pstate name body dict) (m : msg name body)
  : lib_result * pstate name body dict :=
  let r := pack_clone_c st (stripped_view name body dnssec m) in (fst (fst r), snd (fst r)).

(* object identity as the drivers give it: the ids of the objects whose Go type is RRSIG / NSEC / NSEC3 *)
Definition is_dnssec_obj (ids : list N) (s : slot name body) : bool :=
  existsb (fun p => (p =? sh_ptr (s_sh name body s))%N) ids.

(* octets 4..11 of a packed message: the four section counts *)
Definition u16_at (b : buf) (off : nat) : N := (nth off b 0 * 256 + nth (S off) b 0)%N.

(* ---- the two consumers that use the bytes on the spot ---- *)

(* middleware responseWriter.WriteMsg: on a writer that declared AllowDirectPack and is not an
   internal sub-query writer the reply goes through wire.TryPack and the consumer hands the bytes to
   Transport.Write; otherwise, or when TryPack declines, the message goes to Transport.WriteMsg,
   which packs it with the library. *)
Inductive sent := SentBytes (b : buf) | SentMsg (m : msg name body).

Definition write_msg_c (direct internal : bool) (st : pstate name body dict) (m : msg name body)
  : sent * pstate name body dict :=
  if direct && negb internal
  then let r := try_pack_c st m in
       match tp_bytes name body dict r with
       | Some b => (SentBytes b, tp_state name body dict r)
       | None => (SentMsg (tp_msg name body dict r), tp_state name body dict r)
       end
  else (SentMsg m, st).

(* the reply's wire form as it leaves the transport *)
Definition wire_form (s : sent) : lib_result :=
  match s with SentBytes b => LOk b | SentMsg m => fst (lib_pack_c m) end.

(* middleware validatedNegativeProofFingerprint: sealed = {Rcode, Ns} of the proof, hashed where the
   packer's consumer sees it, or — when TryPack declines — after the library's own Pack *)
Definition sealed_view (m : msg name body) : msg name body :=
  mk_msg name body (mk_mhdr 0 false 0 false false false false false false false (h_rcode (m_hdr name body m)))
         false [] [] (m_ns name body m) [].

Inductive fp_result (D : Type) := FpSum (d : D) | FpInvalid | FpPanic.
Arguments FpSum {D} d.
Arguments FpInvalid {D}.
Arguments FpPanic {D}.

Definition fp_of_lib {D : Type} (H : buf -> D) (r : lib_result) : fp_result D :=
  match r with LOk b => FpSum (H b) | LErr => FpInvalid | LPanic => FpPanic end.

Definition fingerprint_c {D : Type} (H : buf -> D) (st : pstate name body dict) (m : msg name body)
  : fp_result D * pstate name body dict :=
  let r := try_pack_c st (sealed_view m) in
  match tp_bytes name body dict r with
  | Some b => (FpSum (H b), tp_state name body dict r)
  | None => (fp_of_lib H (fst (lib_pack_c (tp_msg name body dict r))), tp_state name body dict r)
  end.
