(* C15 — rdata layouts of record types as step sequences (C15.Concrete), written from the
   library's generated packers (zmsg.go) field by field.  Definitions only.  The wire driver
   hands over FIELD VALUES (numbers, decoded octets, presentation names); the layout — order,
   widths, which octets are skipped, what Len() counts beyond what is packed — is here, so the
   concrete theorems speak about these record types, and every octet and the total Len() are
   compared with the library on generated records (CaseConcrete). *)
From Sdns Require Import Common.Base Gen.C15 C15.Model C15.Concrete.
Open Scope nat_scope.

(* net.IP.To4 on a 16-octet address: ten zero octets, ff ff *)
Definition is_v4_in_v6 (ip : buf) : bool :=
  forallb (fun x => (x =? 0)%N) (firstn 10 ip) && (nth 10 ip 0%N =? 255)%N && (nth 11 ip 0%N =? 255)%N.

(* packDataA: nothing for an empty address; four octets for a 4-octet or an IPv4-mapped 16-octet
   one; FOUR OCTETS ADVANCED OVER AND NOT WRITTEN for any other 16-octet address (copy of a nil
   To4()); refused otherwise *)
Definition a_steps (ip : buf) : body :=
  match length ip with
  | 0 => []
  | 4 => [SBytes ip]
  | 16 => if is_v4_in_v6 ip then [SBytes (skipn 12 ip)] else [SSkip 4]
  | _ => [SFail; SOver 4]                    (* len() counts four octets for any non-empty address *)
  end.
(* packDataAAAA *)
Definition aaaa_steps (ip : buf) : body :=
  match length ip with
  | 0 => []
  | 16 => [SBytes ip]
  | _ => [SFail; SOver 16]
  end.

(* packIPSECGateway (IPSECKEY and AMTRELAY; the type octet is compared whole, so an AMTRELAY
   type with the discovery bit packs no gateway); len() counts 4 / 16 / len(host)+1 whatever the
   address holds *)
Definition gateway_steps (t : N) (addr : buf) (host : name) : body :=
  if (t =? 1)%N then a_steps addr ++ [SOver (4 - body_len (a_steps addr))]
  else if (t =? 2)%N then aaaa_steps addr ++ [SOver (16 - body_len (aaaa_steps addr))]
  else if (t =? 3)%N then [SName host false; SOver (length host + 1 - name_len host)]
  else [].

(* ---- character-strings with presentation escapes (session 5) ----
   packTxtString / packOctetString (msg.go) decode the text while they copy it: a backslash and three
   digits is one octet (modulo 256), a backslash and anything else is that octet, a lone backslash at
   the very end is dropped — but only after the loop has asked for room for one more octet.
   [unesc s] = the decoded octets and whether the text ended in such a lone backslash. *)
Fixpoint unesc (s : name) : buf * bool :=
  match s with
  | [] => ([], false)
  | c :: r =>
      if (c =? backslash)%N then
        match r with
        | [] => ([], true)
        | c1 :: r1 =>
            match r1 with
            | c2 :: c3 :: r3 =>
                if is_digit c1 && is_digit c2 && is_digit c3
                then let u := unesc r3 in (ddd_byte c1 c2 c3 :: fst u, snd u)
                else let u := unesc r1 in (c1 :: fst u, snd u)
            | _ => let u := unesc r1 in (c1 :: fst u, snd u)
            end
        end
      else let u := unesc r in (c :: fst u, snd u)
  end.

Definition max_text : nat := 1025.   (* `len(s) > 256*4+1`: ErrBuf whatever the buffer *)

(* one <character-string> (packTxtString: TXT / SPF / NINFO / AVC / RESINFO strings, and every untagged
   string field through packString): length octet + decoded octets; refused when the text is longer
   than 1025 octets or decodes to more than 255; len() counts the TEXT + 1 *)
Definition txt_string_steps (s : name) : body :=
  if max_text <? length s then [SFail; SOver (length s + 1)]
  else
    let u := unesc s in
    let d := fst u in
    if 255 <? length d then [SFail; SOver (length s + 1)]
    else [SBytes (N.of_nat (length d) :: d)] ++ (if snd u then [SRoom1] else []) ++ [SOver (length s - length d)].

(* the `octet` tag (packOctetString: CAA value, URI target): no length octet; the entry check asks for
   one octet of room even when nothing is written; len() counts the TEXT *)
Definition octet_steps (s : name) : body :=
  if max_text <? length s then [SFail; SOver (length s)]
  else
    let u := unesc s in
    let d := fst u in
    [SRoom1; SBytes d] ++ (if snd u then [SRoom1] else []) ++ [SOver (length s - length d)].

(* packDataSVCB sorts the pairs by key (and refuses a repeated key) *)
Fixpoint insert_pair (p : N * buf) (l : list (N * buf)) : list (N * buf) :=
  match l with
  | [] => [p]
  | q :: r => if (fst p <=? fst q)%N then p :: l else q :: insert_pair p r
  end.
Definition sort_pairs (l : list (N * buf)) : list (N * buf) := fold_right insert_pair [] l.
Fixpoint repeated_key (l : list (N * buf)) : bool :=
  match l with
  | p :: ((q :: _) as r) => (fst p =? fst q)%N || repeated_key r
  | _ => false
  end.
Definition pair_steps (p : N * buf) : body :=
  [SBytes (u16_bytes (fst p)); SBytes (u16_bytes (N.of_nat (length (snd p)))); SBytes (snd p)].

Inductive rdata :=
| RA (ip : buf)
| RAAAA (ip : buf)
| RL32 (pref : N) (ip : buf)
| RLOC (version size horiz vert lat lon alt : N)
  (* salt = None: the presentation form "-"; next_text = length of the base32 text (what len() counts) *)
| RNSEC3 (hash flags iterations saltlen : N) (salt : option buf) (hashlen : N) (next : buf) (next_text : nat) (bitmap : buf)
| RNSEC3PARAM (hash flags iterations saltlen : N) (salt : option buf)
| RSVCB (prio : N) (target : name) (pairs : list (N * buf))      (* SVCB and HTTPS *)
  (* key_text = length of the base64 text: len() counts DecodedLen = key_text / 4 * 3 *)
| RIPSECKEY (prec gtype alg : N) (addr : buf) (host : name) (key : buf) (key_text : nat)
| RAMTRELAY (prec gtype : N) (addr : buf) (host : name).

Definition salt_steps (salt : option buf) : body := match salt with Some s => [SBytes s] | None => [] end.

Definition steps_of (r : rdata) : body :=
  match r with
  | RA ip => a_steps ip
  | RAAAA ip => aaaa_steps ip
  | RL32 pref ip => SBytes (u16_bytes pref) :: a_steps ip
  | RLOC v s h vp lat lon alt => [SBytes ([v; s; h; vp] ++ u32_bytes lat ++ u32_bytes lon ++ u32_bytes alt)]
  | RNSEC3 hash flags it sl salt hl next next_text bitmap =>
      [SBytes ([hash; flags] ++ u16_bytes it ++ [sl])] ++ salt_steps salt ++
      [SBytes [hl]; SBytes next; SBytes bitmap;
       (* typeBitMapLen counts a window header even for an empty bitmap *)
       SOver (2 + next_text - length next + match bitmap with [] => 2 | _ => 0 end)]
  | RNSEC3PARAM hash flags it sl salt =>
      [SBytes ([hash; flags] ++ u16_bytes it ++ [sl])] ++ salt_steps salt
  | RSVCB prio target pairs =>
      let sorted := sort_pairs pairs in
      [SBytes (u16_bytes prio); SName target false] ++
      (* a repeated key is refused; len() still counts every pair *)
      (if repeated_key sorted then [SFail; SOver (body_len (flat_map pair_steps sorted))] else flat_map pair_steps sorted)
  | RIPSECKEY prec gt alg addr host key key_text =>
      [SBytes [prec; gt; alg]] ++ gateway_steps gt addr host ++ [SBytes key; SOver (key_text / 4 * 3 - length key)]
  | RAMTRELAY prec gt addr host =>
      [SBytes [prec; gt]] ++ gateway_steps gt addr host
  end.
