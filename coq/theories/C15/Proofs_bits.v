(* C15 — header word, extended rcode, compressibility: the pooled packer's arithmetic
   is the library's, bit for bit, for every value of every field. *)
From Sdns Require Import Common.Base Gen.C15 C15.Model.
Open Scope N_scope.

(* ---------- same word as the library, for all ints and all flags ---------- *)

Lemma msg_bits_eq_lib_l : forall h, msg_bits h = lib_bits h.
Proof.
  intros h. unfold msg_bits, lib_bits, flag_table. cbn [fold_left fst snd].
  reflexivity.
Qed.

(* ---------- bit-exact layout ---------- *)

Lemma testbit_uint16_of_int z i : i < 16 -> N.testbit (uint16_of_int z) i = Z.testbit z (Z.of_N i).
Proof.
  intros Hi. unfold uint16_of_int, Z_to_uw.
  rewrite <- Z.testbit_of_N.
  rewrite Z2N.id by (apply Z.mod_pos_bound; reflexivity).
  change (Z.of_N two16) with (2 ^ 16)%Z.
  apply Z.mod_pow2_bits_low. lia.
Qed.

Lemma testbit_uint16_of_int_high z i : 16 <= i -> N.testbit (uint16_of_int z) i = false.
Proof.
  intros Hi. unfold uint16_of_int, Z_to_uw.
  rewrite <- Z.testbit_of_N.
  rewrite Z2N.id by (apply Z.mod_pos_bound; reflexivity).
  change (Z.of_N two16) with (2 ^ 16)%Z.
  apply Z.mod_pow2_bits_high. lia.
Qed.

Lemma testbit_wrap16 x i : N.testbit (wrap16 x) i = if i <? 16 then N.testbit x i else false.
Proof.
  unfold wrap16. change two16 with (2 ^ 16).
  destruct (N.ltb_spec i 16).
  - apply N.mod_pow2_bits_low; assumption.
  - apply N.mod_pow2_bits_high; assumption.
Qed.

(* bits of the constant flag masks, as functions of the index *)
Lemma testbit_pow2 k i : N.testbit (2 ^ k) i = (i =? k).
Proof.
  destruct (N.eqb_spec i k) as [->|Hne].
  - apply N.pow2_bits_true.
  - apply N.pow2_bits_false. congruence.
Qed.

Definition base_word (h : mhdr) : N :=
  N.lor (wrap16 (N.shiftl (uint16_of_int (h_opcode h)) bits_opcode_shift))
        (uint16_of_int (Z.land (h_rcode h) bits_rcode_mask)).

Lemma base_word_bit h i :
  N.testbit (base_word h) i =
  if i <? 4 then Z.testbit (h_rcode h) (Z.of_N i)
  else if i <? 11 then false
  else if i <? 16 then Z.testbit (h_opcode h) (Z.of_N (i - 11))
  else false.
Proof.
  unfold base_word. rewrite N.lor_spec, testbit_wrap16.
  change bits_opcode_shift with 11. change bits_rcode_mask with 15%Z.
  destruct (N.ltb_spec i 4) as [H4|H4].
  - replace (i <? 16) with true by (symmetry; apply N.ltb_lt; lia).
    rewrite N.shiftl_spec_low by lia. cbn [orb].
    rewrite testbit_uint16_of_int by lia.
    rewrite Z.land_spec.
    replace (Z.testbit 15 (Z.of_N i)) with true; [apply andb_true_r|].
    assert (Hc : i = 0 \/ i = 1 \/ i = 2 \/ i = 3) by lia.
    destruct Hc as [->|[->|[->| ->]]]; reflexivity.
  - assert (Hlow : N.testbit (uint16_of_int (Z.land (h_rcode h) 15)) i = false).
    { destruct (N.ltb_spec i 16).
      - rewrite testbit_uint16_of_int by assumption. rewrite Z.land_spec.
        replace (Z.testbit 15 (Z.of_N i)) with false; [apply andb_false_r|].
        symmetry. change 15%Z with (Z.ones 4). apply Z.ones_spec_high. lia.
      - apply testbit_uint16_of_int_high; assumption. }
    rewrite Hlow, orb_false_r.
    destruct (N.ltb_spec i 11) as [H11|H11].
    + replace (i <? 16) with true by (symmetry; apply N.ltb_lt; lia).
      apply N.shiftl_spec_low; assumption.
    + destruct (N.ltb_spec i 16) as [H16|H16]; [|reflexivity].
      rewrite N.shiftl_spec_high' by assumption.
      apply testbit_uint16_of_int. lia.
Qed.

Lemma msg_bits_bit_exact_l : forall h i, N.testbit (msg_bits h) i = bits_layout_bit h i.
Proof.
  intros h i. unfold msg_bits, flag_table. cbn [fold_left fst snd].
  fold (base_word h).
  change bit_response with (2 ^ 15). change bit_authoritative with (2 ^ 10).
  change bit_truncated with (2 ^ 9). change bit_recursion_desired with (2 ^ 8).
  change bit_recursion_available with (2 ^ 7). change bit_zero with (2 ^ 6).
  change bit_authenticated_data with (2 ^ 5). change bit_checking_disabled with (2 ^ 4).
  assert (step : forall (b : bool) (w : N) (k : N),
             N.testbit (if b then N.lor w (2 ^ k) else w) i = N.testbit w i || (b && (i =? k))).
  { intros b w k. destruct b; cbn [andb].
    - rewrite N.lor_spec, testbit_pow2. reflexivity.
    - rewrite orb_false_r. reflexivity. }
  rewrite !step, base_word_bit. unfold bits_layout_bit.
  (* case analysis on the index: sixteen positions and "above" *)
  destruct (N.ltb_spec i 16) as [Hi|Hi].
  - assert (Hc : i = 0 \/ i = 1 \/ i = 2 \/ i = 3 \/ i = 4 \/ i = 5 \/ i = 6 \/ i = 7 \/ i = 8 \/ i = 9 \/
                 i = 10 \/ i = 11 \/ i = 12 \/ i = 13 \/ i = 14 \/ i = 15) by lia.
    repeat (destruct Hc as [->|Hc]); [..|subst i];
      cbn [N.ltb N.eqb N.compare Pos.compare Pos.compare_cont Pos.eqb N.sub Pos.sub Pos.sub_mask
           Pos.succ_double_mask Pos.double_mask Pos.double_pred_mask Pos.pred_double];
      rewrite ?andb_false_r, ?andb_true_r, ?orb_false_r, ?orb_false_l; try reflexivity.
    + (* bit 15: QR or the fifth opcode bit *)
      change (15 - 11) with 4. apply orb_comm.
  - replace (i <? 4) with false by (symmetry; apply N.ltb_ge; lia).
    replace (i <? 11) with false by (symmetry; apply N.ltb_ge; lia).
    replace (i <? 16) with false by (symmetry; apply N.ltb_ge; lia).
    replace (i <? 15) with false by (symmetry; apply N.ltb_ge; lia).
    replace (i =? 15) with false by (symmetry; apply N.eqb_neq; lia).
    replace (i =? 10) with false by (symmetry; apply N.eqb_neq; lia).
    replace (i =? 9) with false by (symmetry; apply N.eqb_neq; lia).
    replace (i =? 8) with false by (symmetry; apply N.eqb_neq; lia).
    replace (i =? 7) with false by (symmetry; apply N.eqb_neq; lia).
    replace (i =? 6) with false by (symmetry; apply N.eqb_neq; lia).
    replace (i =? 5) with false by (symmetry; apply N.eqb_neq; lia).
    replace (i =? 4) with false by (symmetry; apply N.eqb_neq; lia).
    rewrite !andb_false_r. reflexivity.
Qed.

Lemma msg_bits_lt16 h : msg_bits h < 65536.
Proof.
  destruct (N.eq_dec (msg_bits h) 0) as [->|Hnz]; [reflexivity|].
  change 65536 with (2 ^ 16). apply N.log2_lt_pow2; [lia|].
  destruct (N.lt_ge_cases (N.log2 (msg_bits h)) 16) as [|Hge]; [assumption|exfalso].
  pose proof (N.bit_log2 (msg_bits h) Hnz) as Hb.
  rewrite msg_bits_bit_exact_l in Hb. unfold bits_layout_bit in Hb.
  set (i := N.log2 (msg_bits h)) in *.
  replace (i <? 4) with false in Hb by (symmetry; apply N.ltb_ge; lia).
  replace (i <? 15) with false in Hb by (symmetry; apply N.ltb_ge; lia).
  replace (i =? 15) with false in Hb by (symmetry; apply N.eqb_neq; lia).
  replace (i =? 10) with false in Hb by (symmetry; apply N.eqb_neq; lia).
  replace (i =? 9) with false in Hb by (symmetry; apply N.eqb_neq; lia).
  replace (i =? 8) with false in Hb by (symmetry; apply N.eqb_neq; lia).
  replace (i =? 7) with false in Hb by (symmetry; apply N.eqb_neq; lia).
  replace (i =? 6) with false in Hb by (symmetry; apply N.eqb_neq; lia).
  replace (i =? 5) with false in Hb by (symmetry; apply N.eqb_neq; lia).
  replace (i =? 4) with false in Hb by (symmetry; apply N.eqb_neq; lia).
  cbv iota in Hb. discriminate Hb.
Qed.

(* ---------- extended rcode ---------- *)

Lemma ext_rcode_eq_lib_l : forall ttl rcode, (0 <= rcode <= 4095)%Z -> ext_ttl ttl rcode = lib_ext_ttl ttl rcode.
Proof.
  intros ttl rcode Hr. unfold ext_ttl, lib_ext_ttl.
  change ext_ttl_keep_mask with 16777215. change ext_ttl_shift with 24. change (Z.of_N ext_rcode_shift) with 4%Z.
  f_equal. f_equal. f_equal.
  unfold uint32_of_int, uint16_of_int, Z_to_uw.
  rewrite Z.shiftr_div_pow2 by lia. rewrite N.shiftr_div_pow2.
  change (2 ^ 4)%Z with 16%Z. change (2 ^ 4) with 16.
  change (Z.of_N two32) with 4294967296%Z. change (Z.of_N two16) with 65536%Z.
  rewrite (Z.mod_small rcode 65536) by lia.
  rewrite (Z.mod_small (rcode / 16) 4294967296) by (split; [apply Z.div_pos; lia|]; apply Z.div_lt_upper_bound; lia).
  rewrite Z2N.inj_div by lia. reflexivity.
Qed.

(* lor of two disjoint bit fields is their sum *)
Lemma lor_high_low x k a : a < 2 ^ k -> N.lor (x * 2 ^ k) a = x * 2 ^ k + a.
Proof.
  intros Ha.
  assert (Hland : N.land (x * 2 ^ k) a = 0).
  { apply N.bits_inj. intros i. rewrite N.land_spec, N.bits_0.
    destruct (N.ltb_spec i k).
    - rewrite N.mul_pow2_bits_low by assumption. reflexivity.
    - replace (N.testbit a i) with false; [apply andb_false_r|].
      symmetry. destruct (N.eq_dec a 0) as [->|Hnz]; [apply N.bits_0|].
      apply N.bits_above_log2. apply N.lt_le_trans with k; [|assumption].
      apply N.log2_lt_pow2; [lia|assumption]. }
  rewrite <- N.lxor_lor by assumption. symmetry. apply N.add_nocarry_lxor. assumption.
Qed.

Lemma ext_ttl_spec_l : forall ttl rcode, ttl < 2 ^ 32 -> (0 <= rcode <= 4095)%Z ->
  ext_ttl ttl rcode = Z.to_N (rcode / 16) * 2 ^ 24 + ttl mod 2 ^ 24.
Proof.
  intros ttl rcode Ht Hr. unfold ext_ttl.
  change ext_ttl_keep_mask with (N.ones 24). change ext_ttl_shift with 24. change (Z.of_N ext_rcode_shift) with 4%Z.
  rewrite N.land_ones.
  unfold uint32_of_int, Z_to_uw. rewrite Z.shiftr_div_pow2 by lia. change (2 ^ 4)%Z with 16%Z.
  change (Z.of_N two32) with 4294967296%Z.
  assert (Hq : (0 <= rcode / 16 < 256)%Z).
  { split; [apply Z.div_pos; lia|apply Z.div_lt_upper_bound; lia]. }
  rewrite (Z.mod_small (rcode / 16) 4294967296) by lia.
  rewrite N.shiftl_mul_pow2.
  rewrite wrap32_small.
  2:{ unfold two32. change 4294967296 with (256 * 2 ^ 24). apply N.mul_lt_mono_pos_r; [reflexivity|lia]. }
  rewrite N.lor_comm. apply lor_high_low. apply N.mod_lt. discriminate.
Qed.

(* in fact the two conversions agree for EVERY Go int: only eight bits of rcode>>4
   survive the shift into the top octet *)
Lemma ext_rcode_eq_lib_all_l : forall ttl rcode, ext_ttl ttl rcode = lib_ext_ttl ttl rcode.
Proof.
  intros ttl rcode. unfold ext_ttl, lib_ext_ttl.
  change ext_ttl_keep_mask with 16777215. change ext_ttl_shift with 24. change (Z.of_N ext_rcode_shift) with 4%Z.
  f_equal.
  unfold uint32_of_int, uint16_of_int, Z_to_uw, wrap32.
  rewrite Z.shiftr_div_pow2 by lia. rewrite N.shiftr_div_pow2. rewrite !N.shiftl_mul_pow2.
  change (2 ^ 4)%Z with 16%Z. change (2 ^ 4) with 16. change (2 ^ 24) with 16777216.
  change (Z.of_N two32) with 4294967296%Z. change (Z.of_N two16) with 65536%Z. change two32 with 4294967296.
  pose proof (Z.mod_pos_bound (rcode / 16) 4294967296 eq_refl) as H1.
  pose proof (Z.mod_pos_bound rcode 65536 eq_refl) as H2.
  set (a := (rcode / 16 mod 4294967296)%Z) in *. set (b := (rcode mod 65536)%Z) in *.
  assert (Hab : (a mod 256 = (b / 16) mod 256)%Z) by (subst a b; lia).
  apply N2Z.inj. rewrite !N2Z.inj_mod, !N2Z.inj_mul, N2Z.inj_div, !Z2N.id by lia.
  change (Z.of_N 16777216) with 16777216%Z. change (Z.of_N 4294967296) with 4294967296%Z. change (Z.of_N 16) with 16%Z.
  lia.
Qed.

(* ---------- compressibility ---------- *)

Lemma compressible_eq_lib_l : forall nq na nn ne, is_compressible nq na nn ne = lib_is_compressible nq na nn ne.
Proof. intros. reflexivity. Qed.

(* ---------- translator ties ---------- *)

Lemma gen_flag_bits :
  bit_response = lib_QR /\ bit_authoritative = lib_AA /\ bit_truncated = lib_TC /\ bit_recursion_desired = lib_RD /\
  bit_recursion_available = lib_RA /\ bit_zero = lib_Z /\ bit_authenticated_data = lib_AD /\ bit_checking_disabled = lib_CD /\
  bits_opcode_shift = 11 /\ bits_rcode_mask = 15%Z.
Proof. repeat split; reflexivity. Qed.

Lemma gen_sizes :
  header_len = 12 /\ pack_buffer_size < 16384 /\ 12 < pack_buffer_size /\ question_fixed_len = 4 /\
  rcode_min = 0%Z /\ rcode_max = 4095%Z /\ rcode_plain_max = 15%Z /\
  ext_ttl_keep_mask = 16777215 /\ ext_rcode_shift = 4 /\ ext_ttl_shift = 24.
Proof. repeat split; reflexivity. Qed.

(* wire.msgIsCompressible as translated from the AST (purefunc over *dns.Msg, the sections being lists
   of the dns.RR sum type) IS the model's decision on the four section lengths, for every message *)
Lemma gen_msgIsCompressible : forall m : T_Msg,
  go_msgIsCompressible m =
  is_compressible (N.of_nat (length (T_Msg_Question m))) (N.of_nat (length (T_Msg_Answer m)))
                  (N.of_nat (length (T_Msg_Ns m))) (N.of_nat (length (T_Msg_Extra m))).
Proof.
  intros m. unfold go_msgIsCompressible, is_compressible, Common.GoList.go_len.
  destruct (T_Msg_Question m) as [|q0 [|q1 qs]], (T_Msg_Answer m), (T_Msg_Ns m), (T_Msg_Extra m); cbn [length];
    repeat match goal with |- context [Z.ltb ?a ?b] => let E := fresh in destruct (Z.ltb_spec a b) as [E|E] end;
    repeat match goal with |- context [N.ltb ?a ?b] => let E := fresh in destruct (N.ltb_spec a b) as [E|E] end;
    cbn [orb]; try reflexivity; lia.
Qed.

(* the record shim answers Header() with ITS OWN header copy, whatever record it wraps (the
   embedded dns.RR is an interface value and is not even part of the translated Record): this
   is what makes PackRR's Rdlength write land in the pool — Model.rrview_header = WShim *)
Lemma gen_rrview_header : forall v, go_rrView_Header v = T_rrView_hdr v.
Proof. reflexivity. Qed.
