(* C15 — the concrete packers of C15.Concrete extended by ONE abstract ingredient: the rdata
   of record types outside the step-decomposable class (SVCB/HTTPS values, LOC, APL, NSEC3,
   IPSECKEY, ... — whatever the admission lets through).  Definitions only.

   Such rdata is a fragment [x : X] with a PLAN function [plan_x] — the writes, the offset
   reached, the dictionary and the extent its bounds checks demand, as a function of the
   offset, the dictionary and the compress flag, NOT of the buffer — and the length [len_x]
   the library's Len() counts for it.  Owner names, the fixed record header, the RDLENGTH
   patch, questions, the message header and every step-decomposable fragment stay concrete:
   a hybrid body is a sequence of step runs and abstract fragments. *)
From Sdns Require Import Common.Base Gen.C15 C15.Model C15.Concrete.
Open Scope nat_scope.

Section Hybrid.
  Variable X : Type.
  Variable plan_x : X -> nat -> option dict -> bool -> option plan.
  Variable len_x : X -> nat.

  Definition hbody := list (body + X).

  Fixpoint plan_hsteps (ss : hbody) (off : nat) (cm : option dict) (compress : bool)
           (ws : list (nat * buf)) (need : nat) : option plan :=
    match ss with
    | [] => Some (mk_plan ws off cm need)
    | inl bd :: r =>
        match plan_steps bd off cm compress ws need with
        | None => None
        | Some pl => plan_hsteps r (p_off pl) (p_cm pl) compress (p_writes pl) (p_need pl)
        end
    | inr x :: r =>
        match plan_x x off cm compress with
        | None => None
        | Some pl => plan_hsteps r (p_off pl) (p_cm pl) compress (ws ++ p_writes pl) (Nat.max need (p_need pl))
        end
    end.

  (* packRR around a hybrid body: the same header, bounds and RDLENGTH patch as Concrete.plan_rr *)
  Definition plan_rr_h (h : rrhdr name) (bd : hbody) (off : nat) (cm : option dict) (compress : bool)
    : option (nat * plan) :=
    match plan_name (rh_name name h) off cm compress with
    | None => None
    | Some p1 =>
        let o1 := p_off p1 in
        let hend := o1 + 10 in
        let fixed := u16_bytes (rh_type name h) ++ u16_bytes (rh_class name h) ++ u32_bytes (rh_ttl name h) ++
                     u16_bytes (rh_rdlen name h) in
        match plan_hsteps bd hend (p_cm p1) compress (p_writes p1 ++ [(o1, fixed)]) (Nat.max (p_need p1) hend) with
        | None => None
        | Some p2 =>
            let rdl := p_off p2 - hend in
            if 65536 <=? rdl then None
            else Some (hend, mk_plan (p_writes p2 ++ [(hend - 2, u16_bytes (N.of_nat rdl))]) (p_off p2) (p_cm p2) (p_need p2))
        end
    end.

  Definition pack_rr_h (h : rrhdr name) (bd : hbody) (b : buf) (off : nat) (cm : option dict) (compress : bool)
    : option (nat * nat * buf * option dict) :=
    match plan_rr_h h bd off cm compress with
    | None => None
    | Some (hend, pl) =>
        if length b <? p_need pl then None else Some (hend, p_off pl, apply_writes b (p_writes pl), p_cm pl)
    end.

  Definition hbody_len (bd : hbody) : nat :=
    fold_right (fun s a => match s with inl b => body_len b | inr x => len_x x end + a) 0 bd.
  Definition rr_len_h (n : name) (bd : hbody) : nat := name_len n + 10 + hbody_len bd.

  Definition try_pack_h := try_pack name hbody dict [] [] cm_len_c pack_name_c pack_rr_h q_len_c rr_len_h.
  Definition lib_pack_h := lib_pack name hbody dict [] pack_name_c pack_rr_h q_len_c rr_len_h.
  Definition pack_clone_h := pack_clone name hbody dict [] [] cm_len_c pack_name_c pack_rr_h q_len_c rr_len_h.

  (* a message of step records read as a hybrid message *)
  Definition lift_body (bd : body) : hbody := [inl bd].
End Hybrid.
