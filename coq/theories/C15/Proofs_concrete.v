(* C15 — the premises of Proofs_pack, PROVED for the concrete packDomainName (with its
   compression dictionary) and the concrete step-sequence record packer (A, AAAA, NS,
   CNAME, PTR, MX, DNAME, NULL, option-less OPT — including the octet-skipping A), and
   the main theorems instantiated with them: no premise about the library left. *)
From Sdns Require Import Common.Base Gen.C15 C15.Model C15.Concrete C15.Proofs_buf C15.Proofs_pack C15.Proofs_clone.
Open Scope nat_scope.

(* ---- writes realised on a buffer ---- *)

Definition writes_within (ws : list (nat * buf)) (n : nat) : Prop :=
  Forall (fun w => fst w + length (snd w) <= n) ws.

Lemma writes_within_mono ws n m : writes_within ws n -> n <= m -> writes_within ws m.
Proof. intros H Hm. eapply Forall_impl; [|exact H]. cbn. intros a Ha. lia. Qed.

Lemma writes_within_app ws1 ws2 n : writes_within ws1 n -> writes_within ws2 n -> writes_within (ws1 ++ ws2) n.
Proof. intros. apply Forall_app. split; assumption. Qed.

Lemma writes_within_one o bs n : o + length bs <= n -> writes_within [(o, bs)] n.
Proof. intros. constructor; [assumption|constructor]. Qed.

Lemma apply_writes_length : forall ws b n, writes_within ws n -> n <= length b -> length (apply_writes b ws) = length b.
Proof.
  induction ws as [|w r IH]; intros b n H Hn; [reflexivity|].
  inversion H as [|w0 r0 Hw Hr]; subst. cbn beta in Hw. cbn [apply_writes fold_left].
  change (fold_left (fun acc w0 => write acc (fst w0) (snd w0)) r (write b (fst w) (snd w)))
    with (apply_writes (write b (fst w) (snd w)) r).
  assert (Hl : length (write b (fst w) (snd w)) = length b) by (apply write_length; exact (Nat.le_trans _ _ _ Hw Hn)).
  rewrite (IH _ n); [exact Hl|assumption|rewrite Hl; exact Hn].
Qed.

Lemma apply_writes_agree : forall ws K b1 b2, agree K b1 b2 -> agree K (apply_writes b1 ws) (apply_writes b2 ws).
Proof.
  induction ws as [|w r IH]; intros K b1 b2 H; [exact H|].
  cbn [apply_writes fold_left]. apply IH. apply agree_write_any. assumption.
Qed.

(* ---- the label loop ---- *)

Lemma dec_len_cons c r : dec_len (c :: r) =
  if (c =? backslash)%N then
    match r with
    | [] => 0
    | c1 :: r1 =>
        match r1 with
        | c2 :: c3 :: r3 => if is_digit c1 && is_digit c2 && is_digit c3 then S (dec_len r3) else S (dec_len r1)
        | _ => S (dec_len r1)
        end
    end
  else S (dec_len r).
Proof. reflexivity. Qed.

Lemma dec_len_le_aux : forall n s, length s <= n -> dec_len s <= length s.
Proof.
  induction n as [|n IH]; intros s Hn; [destruct s; [cbn; lia|cbn in Hn; lia]|].
  destruct s as [|c r]; [cbn; lia|]. rewrite dec_len_cons. cbn [length] in *.
  destruct (c =? backslash)%N; [|pose proof (IH r ltac:(lia)); lia].
  destruct r as [|c1 r1]; [lia|]. cbn [length] in *.
  destruct r1 as [|c2 [|c3 r3]]; cbn [length] in *.
  - pose proof (IH [] ltac:(cbn; lia)). cbn [length] in *. lia.
  - pose proof (IH [c2] ltac:(cbn; lia)). cbn [length] in *. lia.
  - destruct (is_digit c1 && is_digit c2 && is_digit c3).
    + pose proof (IH r3 ltac:(lia)). lia.
    + pose proof (IH (c2 :: c3 :: r3) ltac:(cbn [length]; lia)). cbn [length] in *. lia.
Qed.
Lemma dec_len_le s : dec_len s <= length s.
Proof. apply (dec_len_le_aux (length s)). lia. Qed.

(* the invariant of the label loop, with the DECODED length of what is still to be read as the
   measure: that is what escapedNameLen counts, so Len() bounds the packer for escaped names too *)
Lemma pn_loop_inv_aux : forall n rest, length rest <= n -> forall lab key off cm c ws need ws' o cm' need' ptr,
  pn_loop rest lab key off cm c ws need = Some (ws', o, cm', need', ptr) ->
  writes_within ws need ->
  writes_within ws' need' /\ need <= need' /\
  need' <= Nat.max need (off + length lab + dec_len rest) /\
  o <= off + length lab + dec_len rest /\
  (ptr <> None -> o + 2 <= need').
Proof.
  assert (Hnil : forall lab key off cm c ws need ws' o cm' need' ptr,
            pn_loop [] lab key off cm c ws need = Some (ws', o, cm', need', ptr) -> writes_within ws need ->
            writes_within ws' need' /\ need <= need' /\ need' <= Nat.max need (off + length lab + dec_len []) /\
            o <= off + length lab + dec_len [] /\ (ptr <> None -> o + 2 <= need')).
  { intros lab key off cm c ws need ws' o cm' need' ptr H Hw. cbn [pn_loop] in H. inversion H; subst.
    repeat split; auto; try lia. intros Hc; congruence. }
  induction n as [|n IH]; intros [|ch r] Hn lab key off cm c ws need ws' o cm' need' ptr H Hw.
  - apply (Hnil _ _ _ _ _ _ _ _ _ _ _ _ H Hw).
  - cbn [length] in Hn; lia.
  - apply (Hnil _ _ _ _ _ _ _ _ _ _ _ _ H Hw).
  - cbn [pn_loop] in H. rewrite dec_len_cons. cbn [length] in Hn.
    destruct (ch =? backslash)%N.
    { destruct r as [|c1 r1]; [discriminate|].
      assert (Hw1 : writes_within ws (Nat.max need (off + 1))) by (apply (writes_within_mono ws need); [assumption|lia]).
      assert (Hesc : forall rr b, pn_loop rr (lab ++ [b]) key off cm c ws (Nat.max need (off + 1)) = Some (ws', o, cm', need', ptr) ->
                     (forall lab' key' off' cm0 c0 ws0 need0 ws0' o0 cm0' need0' ptr0,
                        pn_loop rr lab' key' off' cm0 c0 ws0 need0 = Some (ws0', o0, cm0', need0', ptr0) ->
                        writes_within ws0 need0 ->
                        writes_within ws0' need0' /\ need0 <= need0' /\
                        need0' <= Nat.max need0 (off' + length lab' + dec_len rr) /\
                        o0 <= off' + length lab' + dec_len rr /\ (ptr0 <> None -> o0 + 2 <= need0')) ->
                     writes_within ws' need' /\ need <= need' /\
                     need' <= Nat.max need (off + length lab + S (dec_len rr)) /\
                     o <= off + length lab + S (dec_len rr) /\ (ptr <> None -> o + 2 <= need')).
      { intros rr b Hx IHrr. destruct (IHrr _ _ _ _ _ _ _ _ _ _ _ _ Hx Hw1) as (A & B & C & D & E).
        rewrite app_length in *. cbn [length] in *. repeat split; auto; lia. }
      destruct r1 as [|c2 [|c3 r3]]; cbn [length] in Hn.
      - apply (Hesc [] c1 H). apply (IH []). cbn; lia.
      - apply (Hesc [c2] c1 H). apply (IH [c2]). cbn; lia.
      - destruct (is_digit c1 && is_digit c2 && is_digit c3).
        + apply (Hesc r3 _ H). apply (IH r3). lia.
        + apply (Hesc (c2 :: c3 :: r3) c1 H). apply (IH (c2 :: c3 :: r3)). cbn [length]; lia. }
    destruct (ch =? dot)%N.
    + destruct lab as [|l0 lab']; [discriminate|].
      set (lab := l0 :: lab') in *.
      destruct (64 <=? length lab); [discriminate|].
      set (need1 := Nat.max need (off + 1 + length lab)) in *.
      assert (Hlab : 1 <= length lab) by (subst lab; cbn; lia).
      assert (Hw1 : writes_within (ws ++ [(off, N.of_nat (length lab) :: lab)]) need1).
      { apply writes_within_app; [apply (writes_within_mono ws need); [assumption|subst need1; lia]|].
        apply writes_within_one. cbn [length]. subst need1. lia. }
      assert (Hgo : forall cmx, pn_loop r [] r (off + 1 + length lab) cmx c (ws ++ [(off, N.of_nat (length lab) :: lab)]) need1
                                = Some (ws', o, cm', need', ptr) ->
                    writes_within ws' need' /\ need <= need' /\
                    need' <= Nat.max need (off + length lab + S (dec_len r)) /\
                    o <= off + length lab + S (dec_len r) /\ (ptr <> None -> o + 2 <= need')).
      { intros cmx Hx. destruct (IH r ltac:(lia) _ _ _ _ _ _ _ _ _ _ _ _ Hx Hw1) as (A & B & C & D & E).
        cbn [length] in *. subst need1. repeat split; auto; lia. }
      destruct cm as [d|]; [|apply (Hgo None); exact H].
      destruct (dict_find d key) as [p|].
      * destruct c; [|apply (Hgo (Some d)); exact H].
        inversion H; subst. cbn [length]. subst need1.
        split; [apply (writes_within_mono ws' need); [assumption|lia]|]. repeat split; try lia.
      * destruct (off <? max_compression_offset); [apply (Hgo (Some ((key, off) :: d)))|apply (Hgo (Some d))]; exact H.
    + destruct (IH r ltac:(lia) _ _ _ _ _ _ _ _ _ _ _ _ H Hw) as (A & B & C & D & E).
      rewrite app_length in *. cbn [length] in *. repeat split; auto; lia.
Qed.

Lemma pn_loop_inv : forall rest lab key off cm c ws need ws' o cm' need' ptr,
  pn_loop rest lab key off cm c ws need = Some (ws', o, cm', need', ptr) ->
  writes_within ws need ->
  writes_within ws' need' /\ need <= need' /\
  need' <= Nat.max need (off + length lab + dec_len rest) /\
  o <= off + length lab + dec_len rest /\
  (ptr <> None -> o + 2 <= need').
Proof. intros rest. apply (pn_loop_inv_aux (length rest)). lia. Qed.

Lemma name_len_pos s : 1 <= name_len s.
Proof. unfold name_len. destruct s; [lia|]. destruct (bytes_eqb _ _); lia. Qed.

(* Len() never counts more than the text: an escape stands for fewer octets than it is written with *)
Lemma name_len_le_text s : name_len s <= length s + 1.
Proof. unfold name_len. destruct s; [cbn; lia|]. destruct (bytes_eqb _ _); [cbn [length]; lia|]. pose proof (dec_len_le (n :: s)). lia. Qed.

(* what a name plan guarantees, whatever the dictionary *)
Lemma plan_name_inv : forall s off cm c pl, plan_name s off cm c = Some pl ->
  writes_within (p_writes pl) (p_need pl) /\
  p_off pl <= Nat.max off (p_need pl) /\
  p_off pl <= off + name_len s /\
  p_need pl <= off + name_len s.
Proof.
  intros s off cm c pl H. unfold plan_name in H.
  destruct s as [|s0 s']; [inversion H; subst; cbn; repeat split; try constructor; lia|].
  set (s := s0 :: s') in *.
  destruct (is_fqdn s); cbn [negb] in H; [|discriminate].
  destruct (bytes_eqb s [dot]) eqn:Er.
  - assert (Hnl : name_len s = 1) by (change (name_len s) with (if bytes_eqb s [dot] then 1 else dec_len s + 1); rewrite Er; reflexivity).
    inversion H; subst. cbn [p_writes p_off p_cm p_need]. rewrite Hnl.
    split; [apply writes_within_one; cbn [length]; lia|]. repeat split; lia.
  - assert (Hnl : name_len s = dec_len s + 1) by (change (name_len s) with (if bytes_eqb s [dot] then 1 else dec_len s + 1); rewrite Er; reflexivity).
    destruct (pn_loop s [] s off cm c [] 0) as [[[[[ws o] cm'] need] ptr]|] eqn:E; [|discriminate].
    destruct (pn_loop_inv _ _ _ _ _ _ _ _ _ _ _ _ _ E (Forall_nil _)) as (A & B & C & D & F).
    cbn [length] in C, D. rewrite Hnl.
    destruct ptr as [p|]; inversion H; subst; cbn [p_writes p_off p_cm p_need].
    + specialize (F ltac:(discriminate)).
      split; [apply writes_within_app; [assumption|]; apply writes_within_one; rewrite u16_bytes_length; lia|].
      repeat split; lia.
    + split; [apply writes_within_app; [apply (writes_within_mono ws need); [assumption|lia]|];
              apply writes_within_one; cbn [length]; lia|].
      repeat split; lia.
Qed.

(* ---- rdata steps and records ---- *)

Lemma plan_steps_inv : forall ss off cm c ws need pl,
  plan_steps ss off cm c ws need = Some pl -> writes_within ws need ->
  writes_within (p_writes pl) (p_need pl) /\ need <= p_need pl /\
  p_need pl <= Nat.max need (S (off + body_len ss)) /\
  p_off pl <= off + body_len ss /\
  (off <= need -> p_off pl <= p_need pl).
Proof.
  induction ss as [|st r IH]; intros off cm c ws need pl H Hw.
  - cbn in H. inversion H; subst. cbn. repeat split; auto; lia.
  - cbn [plan_steps] in H. cbn [body_len fold_right]. fold (body_len r).
    destruct st as [bs|s cf|n| | |n|].
    + assert (Hw1 : writes_within (ws ++ [(off, bs)]) (Nat.max need (off + length bs))).
      { apply writes_within_app; [apply (writes_within_mono ws need); [assumption|lia]|apply writes_within_one; cbn; lia]. }
      destruct (IH _ _ _ _ _ _ H Hw1) as (A & B & C & D & E). cbn [step_len]. repeat split; auto; try lia.
    + destruct (plan_name s off cm (c && cf)) as [p1|] eqn:E1; [|discriminate].
      destruct (plan_name_inv _ _ _ _ _ E1) as (N1 & N2 & N3 & N4).
      assert (Hw1 : writes_within (ws ++ p_writes p1) (Nat.max need (p_need p1))).
      { apply writes_within_app; [apply (writes_within_mono ws need)|apply (writes_within_mono _ (p_need p1))]; auto; lia. }
      destruct (IH _ _ _ _ _ _ H Hw1) as (A & B & C & D & F). cbn [step_len]. repeat split; auto; try lia.
    + assert (Hw1 : writes_within ws (Nat.max need (off + n))) by (apply (writes_within_mono ws need); [assumption|lia]).
      destruct (IH _ _ _ _ _ _ H Hw1) as (A & B & C & D & E). cbn [step_len]. repeat split; auto; try lia.
    + assert (Hw1 : writes_within (ws ++ [(off, [0%N])]) (Nat.max need (off + 1))).
      { apply writes_within_app; [apply (writes_within_mono ws need); [assumption|lia]|apply writes_within_one; cbn; lia]. }
      destruct (IH _ _ _ _ _ _ H Hw1) as (A & B & C & D & E). cbn [step_len]. repeat split; auto; try lia.
    + assert (Hw1 : writes_within ws (Nat.max need (off + 1))) by (apply (writes_within_mono ws need); [assumption|lia]).
      destruct (IH _ _ _ _ _ _ H Hw1) as (A & B & C & D & E). cbn [step_len]. repeat split; auto; try lia.
    + destruct (IH _ _ _ _ _ _ H Hw) as (A & B & C & D & E). cbn [step_len]. repeat split; auto; try lia.
    + discriminate.
Qed.

Lemma u16_len v : length (u16_bytes v) = 2. Proof. reflexivity. Qed.

Lemma plan_rr_inv : forall h bd off cm c hend pl, plan_rr h bd off cm c = Some (hend, pl) ->
  writes_within (p_writes pl) (p_need pl) /\
  p_off pl <= p_need pl /\
  p_off pl <= off + rr_len_c (rh_name name h) bd /\
  p_need pl <= S (off + rr_len_c (rh_name name h) bd).
Proof.
  intros h bd off cm c hend pl H. unfold plan_rr in H.
  destruct (plan_name (rh_name name h) off cm c) as [p1|] eqn:E1; [|discriminate].
  destruct (plan_name_inv _ _ _ _ _ E1) as (N1 & N2 & N3 & N4).
  set (o1 := p_off p1) in *. set (he := o1 + 10) in *.
  match type of H with context [plan_steps bd he (p_cm p1) c ?ws0 ?need0] =>
    assert (Hw0 : writes_within ws0 need0);
    [ apply writes_within_app; [apply (writes_within_mono _ (p_need p1)); [assumption|lia]|];
      apply writes_within_one; cbn [length app u16_bytes u32_bytes]; lia |];
    destruct (plan_steps bd he (p_cm p1) c ws0 need0) as [p2|] eqn:E2; [|discriminate]
  end.
  destruct (plan_steps_inv _ _ _ _ _ _ _ E2 Hw0) as (A & B & C & D & F).
  destruct (65536 <=? p_off p2 - he); [discriminate|].
  inversion H; subst; cbn [p_writes p_off p_cm p_need]. unfold rr_len_c.
  split; [|split; [apply F; lia|split; lia]].
  apply writes_within_app; [assumption|]. apply writes_within_one. rewrite u16_len. lia.
Qed.

(* ---- the premises of Proofs_pack ---- *)

Lemma pack_name_c_in_place : in_place_name name dict pack_name_c.
Proof.
  intros n b off cm c o b' cm' H. unfold pack_name_c in H.
  destruct (plan_name n off cm c) as [pl|] eqn:E; [|discriminate].
  destruct (Nat.ltb_spec (length b) (p_need pl)); [discriminate|]. inversion H; subst.
  destruct (plan_name_inv _ _ _ _ _ E) as (N1 & _). eapply apply_writes_length; eassumption.
Qed.

Lemma pack_rr_c_in_place : in_place_rr name body dict pack_rr_c.
Proof.
  intros h bd b off cm c he o b' cm' H. unfold pack_rr_c in H.
  destruct (plan_rr h bd off cm c) as [[hend pl]|] eqn:E; [|discriminate].
  destruct (Nat.ltb_spec (length b) (p_need pl)); [discriminate|]. inversion H; subst.
  destruct (plan_rr_inv _ _ _ _ _ _ _ E) as (R1 & _). eapply apply_writes_length; eassumption.
Qed.

Lemma pack_name_c_frame : frame_name name dict pack_name_c.
Proof.
  intros K n b1 b2 off cm c o1 b1' cm1 o2 b2' cm2 Ha H1 H2. unfold pack_name_c in H1, H2.
  destruct (plan_name n off cm c) as [pl|]; [|discriminate].
  destruct (length b1 <? p_need pl); [discriminate|]. destruct (length b2 <? p_need pl); [discriminate|].
  inversion H1; inversion H2; subst. split; [reflexivity|]. split; [reflexivity|]. apply apply_writes_agree. assumption.
Qed.

Lemma pack_rr_c_frame : frame_rr name body dict pack_rr_c.
Proof.
  intros K h bd b1 b2 off cm c he1 o1 b1' cm1 he2 o2 b2' cm2 Ha H1 H2. unfold pack_rr_c in H1, H2.
  destruct (plan_rr h bd off cm c) as [[hend pl]|]; [|discriminate].
  destruct (length b1 <? p_need pl); [discriminate|]. destruct (length b2 <? p_need pl); [discriminate|].
  inversion H1; inversion H2; subst. split; [reflexivity|]. split; [reflexivity|]. apply apply_writes_agree. assumption.
Qed.

Lemma pack_rr_c_in_bounds : in_bounds_rr name body dict pack_rr_c.
Proof.
  intros h bd b off cm c he o b' cm' H. pose proof (pack_rr_c_in_place _ _ _ _ _ _ _ _ _ _ H) as Hl.
  unfold pack_rr_c in H.
  destruct (plan_rr h bd off cm c) as [[hend pl]|] eqn:E; [|discriminate].
  destruct (Nat.ltb_spec (length b) (p_need pl)); [discriminate|]. inversion H; subst.
  destruct (plan_rr_inv _ _ _ _ _ _ _ E) as (_ & R2 & _). lia.
Qed.

Lemma pack_name_c_same_success : same_success_name name dict pack_name_c.
Proof.
  intros n b1 b2 off cm c Hl. unfold pack_name_c. rewrite Hl.
  destruct (plan_name n off cm c) as [pl|]; [|tauto].
  destruct (length b2 <? p_need pl); split; intros; auto; discriminate.
Qed.

Lemma pack_rr_c_same_success : same_success_rr name body dict pack_rr_c.
Proof.
  intros h bd b1 b2 off cm c Hl. unfold pack_rr_c. rewrite Hl.
  destruct (plan_rr h bd off cm c) as [[hend pl]|]; [|tauto].
  destruct (length b2 <? p_need pl); split; intros; auto; discriminate.
Qed.

Lemma pack_name_c_len_bounds : len_bounds_name name dict pack_name_c q_len_c.
Proof.
  intros n b off cm c o b' cm' H. unfold pack_name_c in H.
  destruct (plan_name n off cm c) as [pl|] eqn:E; [|discriminate].
  destruct (length b <? p_need pl); [discriminate|]. inversion H; subst.
  destruct (plan_name_inv _ _ _ _ _ E) as (_ & _ & N3 & _). unfold q_len_c. lia.
Qed.

Lemma pack_rr_c_len_bounds : len_bounds_rr name body dict pack_rr_c rr_len_c.
Proof.
  intros h bd b off cm c he o b' cm' H. unfold pack_rr_c in H.
  destruct (plan_rr h bd off cm c) as [[hend pl]|] eqn:E; [|discriminate].
  destruct (length b <? p_need pl); [discriminate|]. inversion H; subst.
  destruct (plan_rr_inv _ _ _ _ _ _ _ E) as (_ & _ & R3 & _). exact R3.
Qed.

Lemma pack_name_c_len_suffices : len_suffices_name name dict pack_name_c q_len_c.
Proof.
  intros n b off cm c o b' cm' H b2 Hroom. unfold pack_name_c in *.
  destruct (plan_name n off cm c) as [pl|] eqn:E; [|discriminate].
  destruct (plan_name_inv _ _ _ _ _ E) as (_ & _ & _ & N4). unfold q_len_c in Hroom.
  destruct (Nat.ltb_spec (length b2) (p_need pl)); [lia|discriminate].
Qed.

Lemma pack_rr_c_len_suffices : len_suffices_rr name body dict pack_rr_c rr_len_c.
Proof.
  intros h bd b off cm c he o b' cm' H b2 Hroom. unfold pack_rr_c in *.
  destruct (plan_rr h bd off cm c) as [[hend pl]|] eqn:E; [|discriminate].
  destruct (plan_rr_inv _ _ _ _ _ _ _ E) as (_ & _ & _ & R4).
  destruct (Nat.ltb_spec (length b2) (p_need pl)); [lia|discriminate].
Qed.

Lemma concrete_premises :
  in_place_name name dict pack_name_c /\ in_place_rr name body dict pack_rr_c /\
  frame_name name dict pack_name_c /\ frame_rr name body dict pack_rr_c /\ in_bounds_rr name body dict pack_rr_c /\
  same_success_name name dict pack_name_c /\ same_success_rr name body dict pack_rr_c /\
  len_bounds_name name dict pack_name_c q_len_c /\ len_bounds_rr name body dict pack_rr_c rr_len_c /\
  len_suffices_name name dict pack_name_c q_len_c /\ len_suffices_rr name body dict pack_rr_c rr_len_c.
Proof.
  split; [exact pack_name_c_in_place|]. split; [exact pack_rr_c_in_place|].
  split; [exact pack_name_c_frame|]. split; [exact pack_rr_c_frame|]. split; [exact pack_rr_c_in_bounds|].
  split; [exact pack_name_c_same_success|]. split; [exact pack_rr_c_same_success|].
  split; [exact pack_name_c_len_bounds|]. split; [exact pack_rr_c_len_bounds|].
  split; [exact pack_name_c_len_suffices|exact pack_rr_c_len_suffices].
Qed.

(* ---- the main theorems, with nothing assumed ---- *)

Notation Inv_c := (pool_inv name body dict [] []).

Theorem concrete_trypack_is_libpack_l : forall st m bytes, Inv_c st ->
  tp_bytes name body dict (try_pack_c st m) = Some bytes -> exists m', lib_pack_c m = (LOk bytes, m').
Proof.
  intros st m bytes. unfold try_pack_c, lib_pack_c.
  apply (trypack_then_library_packs_l name body dict [] [] cm_len_c pack_name_c pack_rr_c q_len_c rr_len_c
           pack_name_c_in_place pack_rr_c_in_place pack_name_c_frame pack_rr_c_frame
           pack_name_c_len_bounds pack_rr_c_len_bounds pack_name_c_len_suffices pack_rr_c_len_suffices).
Qed.

Theorem concrete_pool_state_noninterference_l : forall st1 st2 m, Inv_c st1 -> Inv_c st2 ->
  tp_bytes name body dict (try_pack_c st1 m) = tp_bytes name body dict (try_pack_c st2 m) /\
  tp_handled name body dict (try_pack_c st1 m) = tp_handled name body dict (try_pack_c st2 m).
Proof.
  unfold try_pack_c.
  apply (pool_state_noninterference_l name body dict [] [] cm_len_c pack_name_c pack_rr_c q_len_c rr_len_c
           pack_name_c_in_place pack_rr_c_in_place pack_name_c_frame pack_rr_c_frame
           pack_name_c_same_success pack_rr_c_same_success pack_name_c_len_bounds pack_rr_c_len_bounds).
Qed.

Theorem concrete_schedules_l : forall es s,
  sched_ok name body dict [] [] cm_len_c pack_name_c pack_rr_c q_len_c rr_len_c s ->
  sched_ok name body dict [] [] cm_len_c pack_name_c pack_rr_c q_len_c rr_len_c
           (sched_run name body dict [] [] cm_len_c pack_name_c pack_rr_c q_len_c rr_len_c es s).
Proof.
  apply (schedule_outputs_l name body dict [] [] cm_len_c pack_name_c pack_rr_c q_len_c rr_len_c
           pack_name_c_in_place pack_rr_c_in_place pack_name_c_frame pack_rr_c_frame
           pack_name_c_same_success pack_rr_c_same_success pack_name_c_len_bounds pack_rr_c_len_bounds).
Qed.

Theorem concrete_packclone_is_libpack_l : forall st m, Inv_c st ->
  fst (fst (pack_clone_c st m)) = fst (lib_pack_c m) /\
  (forallb admissible_rr (shapes name body (m_records name body m)) = true -> snd (pack_clone_c st m) = m).
Proof.
  unfold pack_clone_c, lib_pack_c.
  apply (packclone_eq_libpack_l name body dict [] [] cm_len_c pack_name_c pack_rr_c q_len_c rr_len_c
           pack_name_c_in_place pack_rr_c_in_place pack_name_c_frame pack_rr_c_frame
           pack_name_c_len_bounds pack_rr_c_len_bounds pack_name_c_len_suffices pack_rr_c_len_suffices).
Qed.
