(* C15 — correspondence: case type and the two checkers evaluated with vm_compute on
   what the Go drivers observed.
   check_case: the model computes what the implementation did (header word, compress
               decision, per-record admission, OPT selection, handled verdict, the TTL
               every record went out with, release).
   spec_case : what the implementation did satisfies the specification, formulated
               independently of the model (layout as a sum, provenance from the
               generator's own knowledge, last-OPT by a forward fold). *)
From Sdns Require Export Common.Base Gen.C15 C15.Model C15.Concrete C15.Layouts C15.Cache.
Open Scope N_scope.

(* compact forms the drivers print; package paths are given once per case *)
Record cdyn := D { c_nil : bool; c_ptr : bool; c_ptrnil : bool; c_pkg : nat }.
Record cshape := S { c_dyn : cdyn; c_kind : rkind; c_nested : list cdyn; c_ptrid : N; c_type : N; c_ttl : N }.

Definition dyn_of (pkgs : list (list N)) (d : cdyn) : dynv :=
  mk_dyn (c_nil d) (c_ptr d) (c_ptrnil d) (nth (c_pkg d) pkgs []).
Definition shape_of (pkgs : list (list N)) (s : cshape) : sshape :=
  mk_shape (dyn_of pkgs (c_dyn s)) (c_kind s) (map (dyn_of pkgs) (c_nested s)) (c_ptrid s) (c_type s) (c_ttl s).

(* selectOPT as observed: unsafe / none / the object selected / not called (a typed-nil
   record in Extra would make the call itself panic; TryPack never gets there) *)
Inductive osel := OUnsafe | ONone | OSome (ptr : N) | OSkip.

Record observed := Obs {
  o_bits : N;               (* msgBits(msg) *)
  o_compressible : bool;    (* msgIsCompressible(msg) *)
  o_adm : list bool;        (* admissibleRR per record *)
  o_sel : osel;             (* selectOPT(msg) *)
  o_packinto : bool;        (* packInto on a private clean state succeeded (false when not run) *)
  o_handled : bool;         (* TryPack handled *)
  o_wire_bits : option N;   (* header word in the bytes that went out (TryPack's, else the library's) *)
  o_ttls : option (list N); (* TTL of every record in those bytes *)
  o_lib : N;                (* library Pack on a deep copy: 0 ok, 1 error, 2 panic *)
  o_clean : list bool       (* generator's knowledge: plain library record, library nested values *)
}.

Inductive case :=
| CaseMsg (pkgs : list (list N)) (h : mhdr) (compress : bool) (nq : N) (an ns ex : list cshape) (ulen : N) (o : observed)
  (* release: dictionary present?, its entry count before; after: nil?, entry count, shim+opt cleared *)
| CaseRelease (had_map : bool) (entries : N) (post_nil : bool) (post_len : N) (post_clean : bool)
  (* responseWriter.WriteMsg: AllowDirectPack declared?, internal writer?, does TryPack handle
     the message?; observed: raw bytes written / message handed to Transport.WriteMsg *)
| CaseWrite (direct internal handled wrote_bytes fell_back : bool)
  (* dns.PackDomainName(s, make([]byte, buflen), off, dictionary, compress): ok?, new offset, the
     octets written at [off, off1), the dictionary entries added (in order of insertion) *)
| CaseName (s : list N) (buflen off : N) (cm : option (list (list N * N))) (compress : bool)
           (ok : bool) (off1 : N) (written : list N) (added : list (list N * N))
  (* a message of step-decomposable records through TryPack (dirty pool) and the library:
     handled?, library packs?, the library's bytes (= TryPack's when handled), Msg.Len() with
     Compress off (the size probe) *)
| CaseConcrete (h : mhdr) (compress : bool) (qs : list (list N * N * N)) (an ns ex : list crec)
               (handled lib_ok : bool) (bytes : list N) (ulen : N)
  (* a pool history: concrete messages packed one after the other on the same pooled state
     (handled, declined, or abandoned part-way), then the message under test: handled?, library
     packs?, TryPack's bytes, the library's bytes *)
| CaseHistory (hist : list cmsg) (m : cmsg) (handled lib_ok : bool) (got want : list N)
  (* cache.NewCacheEntryWithKey on a concrete reply: ids of the objects whose Go type is RRSIG / NSEC /
     NSEC3; the library's Pack of the driver's own storable view (0 ok / 1 error / 2 panic, bytes);
     entry stored?, its bytes; the DO=0 body when the entry keeps one, with the library's Pack of
     the driver's own stripped view *)
| CaseCacheEntry (m : cmsg) (dnssec : list N) (lib : N) (want : list N) (stored : bool) (wire : list N)
                 (stripped : option (list N * list N))
  (* responseWriter.WriteMsg of a concrete reply on a writer with / without AllowDirectPack, internal
     or not: the raw bytes Transport.Write got (if any), did Transport.WriteMsg get the message;
     the library's Pack of a deep copy (0 ok / 1 error / 2 panic, bytes) *)
| CaseReply (m : cmsg) (direct internal : bool) (wrote : option (list N)) (fell_back : bool) (lib : N) (want : list N)
  (* validatedNegativeProofFingerprint of a concrete proof: valid?, is the sum the SHA-256 of the
     library's Pack of the driver's own {Rcode, Ns} view?; that Pack (0 / 1 / 2, bytes) *)
| CaseFingerprint (m : cmsg) (valid sum_is_hash_of_want : bool) (lib : N) (want : list N)
with crec := R (nm : list N) (k : rkind) (ptr ty cls ttl rdlen : N) (steps : body)
with cmsg := CM (h : mhdr) (compress : bool) (qs : list (list N * N * N)) (an ns ex : list crec).

Fixpoint bools_eqb (a b : list bool) : bool :=
  match a, b with
  | [], [] => true
  | x :: xs, y :: ys => Bool.eqb x y && bools_eqb xs ys
  | _, _ => false
  end.
Fixpoint ns_eqb (a b : list N) : bool :=
  match a, b with
  | [], [] => true
  | x :: xs, y :: ys => (x =? y) && ns_eqb xs ys
  | _, _ => false
  end.

Definition len {A} (l : list A) : N := N.of_nat (length l).

Definition sel_matches (ex : list sshape) (s : sel) (o : osel) : bool :=
  match o, s with
  | OSkip, _ => true
  | OUnsafe, SelUnsafe => true
  | ONone, SelNone => true
  | OSome p, SelSome i => match nth_error ex i with Some x => sh_ptr x =? p | None => false end
  | _, _ => false
  end.

Definition proceeds (v : verdict) : option (option N) := match v with Proceed o => Some o | _ => None end.

(* release on a concrete instance of the abstract state: the dictionary is its size *)
Definition release_n (cm : option N) : option N :=
  ps_cmap unit unit N
    (release unit unit N tt 0 (fun n => n)
       (mk_pstate unit unit N [] cm (Some 1) (mk_rrhdr unit tt 1 1 1 1) (Some (mk_rrhdr unit tt 1 1 1 1, tt)))).

Fixpoint entries_eqb (a : list (list N * nat)) (b : list (list N * N)) : bool :=
  match a, b with
  | [], [] => true
  | (k1, v1) :: r1, (k2, v2) :: r2 => bytes_eqb k1 k2 && (N.of_nat v1 =? v2) && entries_eqb r1 r2
  | _, _ => false
  end.
Definition dict_of (l : list (list N * N)) : dict := map (fun e => (fst e, N.to_nat (snd e))) l.

Definition lib_dyn : dynv := mk_dyn false true false library_pkg.
Definition slot_of (r : crec) : slot name body :=
  match r with
  | R nm k ptr ty cls ttl rdlen steps => mk_slot name body (mk_shape lib_dyn k [] ptr ty ttl) nm cls rdlen steps
  end.
Definition msg_of (h : mhdr) (compress : bool) (qs : list (list N * N * N)) (an ns ex : list crec) : msg name body :=
  mk_msg name body h compress (map (fun q => mk_q name (fst (fst q)) (snd (fst q)) (snd q)) qs)
         (map slot_of an) (map slot_of ns) (map slot_of ex).
(* a pooled state full of an earlier message *)
Definition dirty_state : pstate name body dict :=
  mk_pstate name body dict (repeat 255 (N.to_nat pack_buffer_size)) None None (hdr_zero name []) None.

Definition msg_of_cm (c : cmsg) : msg name body :=
  match c with CM h compress qs an ns ex => msg_of h compress qs an ns ex end.
(* the state a history leaves: every TryPack hands its state back (Model.try_pack_gen), also
   when packInto gave up after writing part of the message *)
Definition state_after_history (hist : list cmsg) : pstate name body dict :=
  fold_left (fun s c => tp_state name body dict (try_pack_c s (msg_of_cm c))) hist dirty_state.

Definition check_case (c : case) : bool :=
  match c with
  | CaseMsg pkgs h compress nq an ns ex ulen o =>
      let an' := map (shape_of pkgs) an in
      let ns' := map (shape_of pkgs) ns in
      let ex' := map (shape_of pkgs) ex in
      let all := an' ++ ns' ++ ex' in
      let v := preflight (h_rcode h) an' ns' ex' ulen in
      (msg_bits h =? o_bits o) &&
      Bool.eqb (is_compressible nq (len an) (len ns) (len ex)) (o_compressible o) &&
      bools_eqb (map admissible_rr all) (o_adm o) &&
      sel_matches ex' (select_opt ex') (o_sel o) &&
      Bool.eqb (match proceeds v with Some _ => o_packinto o | None => false end) (o_handled o) &&
      match o_wire_bits o with Some b => (o_lib o =? 2) || (msg_bits h =? b) | None => true end &&
      match o_ttls o, select_opt ex' with
      | Some _, SelUnsafe => o_lib o =? 2
      | Some t, SelNone => ns_eqb (wire_ttls None (h_rcode h) all) t
      | Some t, SelSome i => ns_eqb (wire_ttls (Some (sh_ptr (nth i ex' (mk_shape (mk_dyn true false false []) KOther [] 0 0 0)))) (h_rcode h) all) t
      | None, _ => true
      end
  | CaseRelease had entries post_nil post_len post_clean =>
      post_clean &&
      match release_n (if had then Some entries else None) with
      | None => post_nil
      | Some n => negb post_nil && (post_len =? n)
      end
  | CaseWrite direct internal handled wrote fell =>
      Bool.eqb wrote (write_msg_direct direct internal handled) && Bool.eqb fell (negb wrote)
  | CaseName s buflen off cm compress ok off1 written added =>
      match pack_name_c s (repeat 0 (N.to_nat buflen)) (N.to_nat off) (option_map dict_of cm) compress with
      | None => negb ok
      | Some (o, b, cm') =>
          ok && (N.of_nat o =? off1) && bytes_eqb (firstn (o - N.to_nat off) (skipn (N.to_nat off) b)) written &&
          match cm, cm' with
          | None, None => match added with [] => true | _ => false end
          | Some d, Some d' => entries_eqb (rev (firstn (length d' - length d) d')) added &&
                               entries_eqb (skipn (length d' - length d) d') d
          | _, _ => false
          end
      end
  | CaseConcrete h compress qs an ns ex handled lib_ok bytes ulen =>
      let m := msg_of h compress qs an ns ex in
      (N.of_nat (msg_len name body q_len_c rr_len_c m) =? ulen) &&
      match tp_bytes name body dict (try_pack_c dirty_state m) with
      | Some b => handled && bytes_eqb b bytes
      | None => negb handled
      end &&
      match fst (lib_pack_c m) with
      | LOk b => lib_ok && bytes_eqb b bytes
      | _ => negb lib_ok
      end
  | CaseHistory hist cm handled lib_ok got want =>
      let m := msg_of_cm cm in
      match tp_bytes name body dict (try_pack_c (state_after_history hist) m) with
      | Some b => handled && bytes_eqb b got
      | None => negb handled
      end &&
      match fst (lib_pack_c m) with
      | LOk b => lib_ok && bytes_eqb b want
      | _ => negb lib_ok
      end
  | CaseCacheEntry cm dn lib want stored wire stripped =>
      let m := msg_of_cm cm in
      let r := cache_entry_c dirty_state m in
      match fst r with
      | LOk b => stored && bytes_eqb b wire
      | _ => negb stored
      end &&
      match fst (lib_pack_c (storable_view name body m)) with
      | LOk b => (lib =? 0) && bytes_eqb b want
      | LErr => lib =? 1
      | LPanic => lib =? 2
      end &&
      match stripped with
      | None => true
      | Some (got2, want2) =>
          match fst (cache_stripped_c (is_dnssec_obj dn) (snd r) m) with
          | LOk b => bytes_eqb b got2
          | _ => false
          end &&
          match fst (lib_pack_c (stripped_view name body (is_dnssec_obj dn) m)) with
          | LOk b => bytes_eqb b want2
          | _ => false
          end
      end
  | CaseReply cm direct internal wrote fell lib want =>
      let m := msg_of_cm cm in
      match fst (write_msg_c direct internal dirty_state m), wrote with
      | SentBytes b, Some b' => bytes_eqb b b' && negb fell
      | SentMsg _, None => fell
      | _, _ => false
      end &&
      match fst (lib_pack_c m) with
      | LOk b => (lib =? 0) && bytes_eqb b want
      | LErr => lib =? 1
      | LPanic => lib =? 2
      end
  | CaseFingerprint cm valid sum_ok lib want =>
      let m := msg_of_cm cm in
      match fst (fingerprint_c (fun b => b) dirty_state m) with
      | FpSum b => valid && sum_ok && (lib =? 0) && bytes_eqb b want
      | FpInvalid => negb valid && (lib =? 1)
      | FpPanic => lib =? 2
      end
  end.

Definition crec_kind (r : crec) : rkind := match r with R _ k _ _ _ _ _ _ => k end.
Definition crec_ptr (r : crec) : N := match r with R _ _ p _ _ _ _ _ => p end.

(* ---- the specification, stated without the model's control flow ---- *)

(* the record that carries the extended rcode: the LAST record of the additional section
   whose header type is OPT (forward fold keeping the latest) *)
Definition last_opt (ex : list sshape) : option sshape :=
  fold_left (fun acc s => if sh_type s =? 41 then Some s else acc) ex None.

Definition spec_ttl (rcode : Z) (sel : option sshape) (s : sshape) : N :=
  match sel with
  | Some o => if kind_is_opt (sh_kind s) && (sh_ptr s =? sh_ptr o)
              then Z.to_N (rcode / 16) * 16777216 + sh_ttl s mod 16777216
              else sh_ttl s
  | None => sh_ttl s
  end.

Definition spec_case (c : case) : bool :=
  match c with
  | CaseMsg pkgs h compress nq an ns ex ulen o =>
      let all := map (shape_of pkgs) (an ++ ns ++ ex) in
      let ex' := map (shape_of pkgs) ex in
      (* header word: RFC 1035 layout *)
      (if (0 <=? h_opcode h)%Z && (h_opcode h <? 16)%Z then o_bits o =? bits_layout_sum h else true) &&
      match o_wire_bits o with
      | Some b => (o_lib o =? 2) || (b =? o_bits o)
      | None => true
      end &&
      (* admission is exactly provenance *)
      bools_eqb (o_adm o) (o_clean o) &&
      (* whatever the pooled packer agrees to encode, the library encodes; only clean
         messages within the rcode range and the pooled buffer are taken *)
      (if o_handled o
       then (o_lib o =? 0) && forallb (fun b => b) (o_clean o) && (ulen <=? 4096) &&
            (0 <=? h_rcode h)%Z && (h_rcode h <=? 4095)%Z
       else true) &&
      (* extended rcode lands in the selected OPT (every alias of it), nowhere else *)
      match o_ttls o with
      | Some t =>
          if (o_lib o =? 2) || negb (forallb (fun b => b) (o_clean o)) then true
          else ns_eqb (map (spec_ttl (h_rcode h) (last_opt ex')) all) t
      | None => true
      end
  | CaseRelease had entries post_nil post_len post_clean =>
      (* nothing of the message stays in the pool; a dictionary that grew past 64 entries is dropped *)
      post_clean && (if post_nil then negb had || (64 <? entries) else (post_len =? 0) && (entries <=? 64))
  | CaseWrite direct internal handled wrote fell =>
      (* exactly one of the two transport calls; raw bytes only on a declared sink, never for
         an internal sub-query, and only when the packer took the message *)
      xorb wrote fell && (if wrote then direct && negb internal && handled else true)
  | CaseName s buflen off cm compress ok off1 written added =>
      (* an uncompressed name occupies its DECODED length + 1 octets (every escape counted as
         the one octet it stands for; = presentation length + 1 for an escape-free name), a
         compressed one no more; nothing is written past the buffer *)
      (* (an empty name writes nothing and returns the offset it was given, wherever that is) *)
      if ok then ((off1 <=? buflen) || match s with [] => true | _ => false end) && (len written =? off1 - off) &&
                 (off1 <=? off + N.of_nat (name_len s)) &&
                 (match cm with None => off1 =? off + (match s with [] => 0 | _ => N.of_nat (name_len s) end) | Some _ => true end)
      else true
  | CaseConcrete h compress qs an ns ex handled lib_ok bytes ulen =>
      (* whatever the pooled packer agrees to encode the library encodes, and it fits the pool *)
      if handled then lib_ok && (ulen <=? 4096) && (len bytes <=? ulen) else true
  | CaseHistory hist cm handled lib_ok got want =>
      (* whatever was packed, declined or abandoned before: the bytes are the library's *)
      if handled then lib_ok && bytes_eqb got want else true
  | CaseCacheEntry cm dn lib want stored wire stripped =>
      (* an entry is kept exactly when the library packs the storable view, and it keeps the
         library's bytes; the section counts in them are the reply's, the additional section
         without its OPT objects; a DO=0 body is the library's too, and carries none of the
         DNSSEC objects unless the question asks for signatures *)
      match cm with
      | CM h compress qs an ns ex =>
          Bool.eqb stored (lib =? 0) &&
          (if stored
           then bytes_eqb wire want &&
                (u16_at wire 4 =? count16 qs) && (u16_at wire 6 =? count16 an) &&
                (u16_at wire 8 =? count16 ns) &&
                (u16_at wire 10 =? count16 (filter (fun r => negb (kind_is_opt (crec_kind r))) ex))
           else true) &&
          match stripped with
          | None => true
          | Some (got2, want2) =>
              stored && bytes_eqb got2 want2 &&
              let keep l := match qs with
                            | (_, 46, _) :: _ => l
                            | _ => filter (fun r => negb (existsb (fun p => p =? crec_ptr r) dn)) l
                            end in
              (u16_at got2 6 =? count16 (keep an)) && (u16_at got2 8 =? count16 (keep ns)) &&
              (u16_at got2 10 =? u16_at wire 10)
          end
      end
  | CaseReply cm direct internal wrote fell lib want =>
      (* exactly one transport call; raw bytes only on a declared sink, never for an internal
         writer, only for a message the library packs, and then the library's bytes *)
      match wrote with
      | Some b => negb fell && direct && negb internal && (lib =? 0) && bytes_eqb b want
      | None => fell
      end
  | CaseFingerprint cm valid sum_ok lib want =>
      (* a proof seals exactly when the library packs {Rcode, Ns}; the seal is the hash of those
         bytes: header counts 0 / 0 / |Ns| / 0 *)
      match cm with
      | CM h compress qs an ns ex =>
          Bool.eqb valid (lib =? 0) &&
          (if valid then sum_ok && (u16_at want 4 =? 0) && (u16_at want 6 =? 0) && (u16_at want 8 =? count16 ns) &&
                         (u16_at want 10 =? 0)
           else true)
      end
  end.
