(* C12 — Part F: the RRSIG verification loop never performs more public-key operations than the
   per-signature, per-RRset and per-tree allowances admit, whatever the response looks like. *)
From Sdns Require Import Common.Base Gen.C12 C12.Model C12.Proofs_ledger.
Open Scope N_scope.

Definition lenf (l : ledger) : Prop := p_mode (l_pol l) = mode_enforce /\ is_live l = true.

Lemma check_local_enforce : forall l k used lim bit, lenf l -> local_dim (l_pol l) k = Some (lim, bit) ->
  let '(l', r) := check_local l k used true in
  l_pol l' = l_pol l /\ is_live l' = true /\ l_sig l' = l_sig l /\
  ((r = ROk /\ used < lim) \/ (exists kk ll, r = RLimit kk ll)).
Proof.
  intros l k used lim bit [Hm Hl] Hd. unfold check_local, control_error. rewrite Hl.
  rewrite enabled_cases, Hm. change (mode_enforce =? mode_shadow) with false. change (mode_enforce =? mode_enforce) with true.
  cbn [orb negb]. rewrite Hd.
  destruct (used <? lim) eqn:E.
  - apply N.ltb_lt in E. split; [reflexivity|]. split; [exact Hl|]. split; [reflexivity|]. left. split; [reflexivity|exact E].
  - destruct (mark_exhausted_ctr l k bit true) as (Hp & _ & _ & Hs & _ & _ & Hr & _).
    split; [exact Hp|]. split; [unfold is_live in *; now rewrite Hr|]. split; [exact Hs|]. right. eauto.
Qed.

Lemma debit_sig_enforce : forall l, lenf l ->
  let '(l', r) := debit l kind_signature true in
  l_pol l' = l_pol l /\ is_live l' = true /\
  ((r = ROk /\ l_sig l < p_max_sig (l_pol l) /\ l_sig l' = l_sig l + 1) \/ ((exists kk ll, r = RLimit kk ll) /\ l_sig l' = l_sig l)).
Proof.
  intros l [Hm Hl]. unfold debit, control_error. rewrite Hl.
  rewrite enabled_cases, Hm. change (mode_enforce =? mode_shadow) with false. change (mode_enforce =? mode_enforce) with true.
  cbn [orb negb]. unfold agg_dim.
  change (kind_signature =? kind_outbound) with false. change (kind_signature =? kind_internal) with false.
  change (kind_signature =? kind_signature) with true. cbv iota. change (get_ctr l 2) with (l_sig l).
  destruct (p_max_sig (l_pol l) <=? l_sig l) eqn:E.
  - destruct (mark_exhausted_ctr l kind_signature bit_signature true) as (Hp & _ & _ & Hs & _ & _ & Hr & _).
    split; [exact Hp|]. split; [unfold is_live in *; now rewrite Hr|]. right. split; eauto.
  - apply N.leb_gt in E. cbn. split; [reflexivity|]. split; [exact Hl|]. left. repeat split; auto.
Qed.

Ltac fin := unfold lenf in *; repeat match goal with H : _ /\ _ |- _ => destruct H end; repeat split; try congruence; try lia.

(* one signature *)
Lemma sig_cands_bound : forall c l rrused candused j v, lenf l ->
  let '(l', used', r) := sig_cands l rrused candused j c v in
  lenf l' /\ l_pol l' = l_pol l /\
  l_sig l' + rrused = l_sig l + used' /\                       (* operations of this signature *)
  used' <= rrused + N.of_nat c /\
  (candused <= p_max_key (l_pol l) -> used' + candused <= rrused + p_max_key (l_pol l)) /\
  (rrused <= p_max_rrsig (l_pol l) -> used' <= p_max_rrsig (l_pol l)) /\
  (l_sig l <= p_max_sig (l_pol l) -> l_sig l' <= p_max_sig (l_pol l)).
Proof.
  induction c as [|c IH]; intros l rrused candused j v He; cbn [sig_cands].
  - fin.
  - pose proof (check_local_enforce l kind_dnskey_candidate candused (p_max_key (l_pol l)) bit_dnskey_candidate He eq_refl) as C1.
    destruct (check_local l kind_dnskey_candidate candused true) as [l1 r1].
    destruct C1 as (P1 & L1 & S1 & [(-> & Hk)|(kk & ll & ->)]); [|fin].
    assert (He1 : lenf l1) by fin.
    pose proof (check_local_enforce l1 kind_rrset_signature rrused (p_max_rrsig (l_pol l1)) bit_rrset_signature He1 eq_refl) as C2.
    destruct (check_local l1 kind_rrset_signature rrused true) as [l2 r2].
    destruct C2 as (P2 & L2 & S2 & [(-> & Hr)|(kk & ll & ->)]); [|fin].
    assert (He2 : lenf l2) by fin.
    pose proof (debit_sig_enforce l2 He2) as C3.
    destruct (debit l2 kind_signature true) as [l3 r3].
    destruct C3 as (P3 & L3 & [(-> & Hs & Hs3)|((kk & ll & ->) & Hs3)]); [|fin].
    assert (He3 : lenf l3) by fin.
    destruct (match v with Some i => Nat.eqb i j | None => false end).
    + rewrite P2, P1 in *. fin.
    + specialize (IH l3 (rrused + 1) (candused + 1) (S j) v He3).
      destruct (sig_cands l3 (rrused + 1) (candused + 1) (S j) c v) as [[l' used'] r].
      destruct IH as (E' & P' & A1 & A2 & A3 & A4 & A5).
      rewrite P3, P2, P1 in *. fin.
Qed.

(* the signatures of one RRset *)
Lemma rrset_sigs_bound : forall sigs l rrused, lenf l -> rrused <= p_max_rrsig (l_pol l) ->
  let '(l', r) := rrset_sigs l rrused sigs in
  lenf l' /\ l_pol l' = l_pol l /\
  l_sig l' + rrused <= l_sig l + p_max_rrsig (l_pol l) /\
  l_sig l' <= l_sig l + fold_right (fun s b => N.min (p_max_key (l_pol l)) (N.of_nat (fst s)) + b) 0 sigs /\
  (l_sig l <= p_max_sig (l_pol l) -> l_sig l' <= p_max_sig (l_pol l)).
Proof.
  induction sigs as [|[c v] rest IH]; intros l rrused He Hr; cbn [rrset_sigs fold_right fst].
  - fin.
  - pose proof (sig_cands_bound c l rrused 0 O v He) as B.
    destruct (sig_cands l rrused 0 O c v) as [[l1 used1] r].
    destruct B as (E1 & P1 & A1 & A2 & A3 & A4 & A5).
    assert (Hone : l_sig l1 <= l_sig l + N.min (p_max_key (l_pol l)) (N.of_nat c)) by lia.
    destruct r.
    + fin.
    + fin.
    + specialize (IH l1 used1 E1). rewrite P1 in IH. specialize (IH (A4 Hr)).
      destruct (rrset_sigs l1 used1 rest) as [l' r'].
      destruct IH as (E' & P' & B1 & B2 & B3). fin.
Qed.

Lemma verify_rrsets_bound : forall sets l, lenf l ->
  let '(l', r) := verify_rrsets l sets in
  lenf l' /\ l_pol l' = l_pol l /\
  l_sig l' <= l_sig l + sig_shape_bound (p_max_key (l_pol l)) (p_max_rrsig (l_pol l)) sets /\
  (l_sig l <= p_max_sig (l_pol l) -> l_sig l' <= p_max_sig (l_pol l)).
Proof.
  induction sets as [|sigs rest IH]; intros l He; cbn [verify_rrsets sig_shape_bound fold_right].
  - fin.
  - pose proof (rrset_sigs_bound sigs l 0 He (N.le_0_l _)) as B.
    destruct (rrset_sigs l 0 sigs) as [l1 r].
    destruct B as (E1 & P1 & B1 & B2 & B3).
    fold (sig_shape_bound (p_max_key (l_pol l)) (p_max_rrsig (l_pol l)) rest).
    destruct r.
    + specialize (IH l1 E1). destruct (verify_rrsets l1 rest) as [l' r'].
      destruct IH as (E' & P' & C1 & C2). rewrite P1 in *. fin.
    + fin.
    + fin.
Qed.

Lemma rrsig_work_bounded_lemma : forall K Rl St sets,
  let pol := mk_T_RecursionWorkPolicy mode_enforce 128 32 K Rl St 32 32 32 in
  let l := fst (verify_rrsets (new_ledger pol) sets) in
  l_sig l <= St /\ l_sig l <= sig_shape_bound K Rl sets.
Proof.
  intros K Rl St sets pol l.
  assert (He : lenf (new_ledger pol)) by (split; reflexivity).
  pose proof (verify_rrsets_bound sets (new_ledger pol) He) as B. subst l.
  destruct (verify_rrsets (new_ledger pol) sets) as [l' r]. destruct B as (_ & _ & B1 & B2). cbn in *. split; lia.
Qed.
