(* C12 — Part H: DS digest work (definitions only).

   dnssec.verifyDSWithWork and dnssec.DSMatchedKeys under the resolver's dnssecWorkBudget, in the order
   Resolver.verifyDNSSEC runs them on the DNSKEY RRset of a signed zone: first VerifyDSWithWork (does SOME key of the
   set match a DS of the parent?), then — only when that succeeded — DSMatchedKeys (which keys does a DS vouch for?),
   both on the request tree's ledger.

   The shape of the input, in PROCESSING order:
     dsl     one entry per record of uniqueSortedDSRecords(parentDSSet): (supported, digest decodes, candidates) where the
             candidates are the usable keys (usableDSCandidate) of keyMap[ds.KeyTag] in uniqueSortedDNSKEYs order, each
             (key id, the key's digest equals the record's);
     korder  the keys in the order DSMatchedKeys visits them (per tag in uniqueSortedDNSKEYs order; across tags in Go's
             map iteration order).
   Before every digest the per-record candidate allowance is asked (CheckDNSKEYCandidate, local), then the tree-wide
   DS-digest budget is debited (BeginDSDigest); a refusal of either ends verifyDSWithWork with a work error.
   DSMatchedKeys runs verifyDSWithWork once per key on a one-key map and keeps the key iff there was no error — a work
   error does not end its loop, every later key asks again. *)
From Sdns Require Import Common.Base Gen.C12 C12.Model.
Open Scope N_scope.

Inductive dres := DOk | DWork (r : res) | DFail | DUnsup.
Definition dsrec : Type := (bool * bool * list (nat * bool))%type.

(* the candidates of one DS record; None: none matched, the next record is tried *)
Fixpoint ds_cands (l : ledger) (used : N) (cs : list (nat * bool)) : ledger * option dres :=
  match cs with
  | [] => (l, None)
  | (_, m) :: rest =>
    let '(l1, r1) := check_local l kind_dnskey_candidate used true in
    match r1 with
    | ROk =>
      let '(l2, r2) := debit l1 kind_ds_digest true in
      match r2 with
      | ROk => if m then (l2, Some DOk) else ds_cands l2 (used + 1) rest
      | e => (l2, Some (DWork e))
      end
    | e => (l1, Some (DWork e))
    end
  end.

Definition ds_usable (d : dsrec) : bool :=
  let '(s, dec, cs) := d in s && dec && match cs with [] => false | _ => true end.

(* [sup]: a supported record has been seen *)
Fixpoint verify_ds_loop (l : ledger) (sup : bool) (dsl : list dsrec) : ledger * dres :=
  match dsl with
  | [] => (l, if sup then DFail else DUnsup)
  | d :: rest =>
    let '(s, dec, cs) := d in
    if negb s then verify_ds_loop l sup rest
    else if negb (ds_usable d) then verify_ds_loop l true rest
    else let '(l1, r) := ds_cands l 0 cs in
         match r with
         | Some v => (l1, v)
         | None => verify_ds_loop l1 true rest
         end
  end.

(* total == 0: ErrMissingKSK, not "unsupported only" *)
Definition verify_ds (l : ledger) (dsl : list dsrec) : ledger * dres :=
  match dsl with [] => (l, DFail) | _ => verify_ds_loop l false dsl end.

(* the DS set as the one-key map {tag: {key j}} sees it *)
Definition restrict (j : nat) (dsl : list dsrec) : list dsrec :=
  map (fun d : dsrec => let '(s, dec, cs) := d in (s, dec, filter (fun c => Nat.eqb (fst c) j) cs)) dsl.

Fixpoint matched_keys (l : ledger) (dsl : list dsrec) (korder : list nat) : ledger * list nat :=
  match korder with
  | [] => (l, [])
  | j :: rest =>
    let '(l1, r) := verify_ds l (restrict j dsl) in
    let '(l2, m) := matched_keys l1 dsl rest in
    (l2, match r with DOk => j :: m | _ => m end)
  end.

(* verifyDNSSEC's sequence on one ledger *)
Definition ds_run (l : ledger) (dsl : list dsrec) (korder : list nat) : ledger * dres * list nat :=
  let '(l1, v) := verify_ds l dsl in
  match v with
  | DOk => let '(l2, m) := matched_keys l1 dsl korder in (l2, v, m)
  | _ => (l1, v, [])
  end.

(* what the candidate allowance admits for one pass over the DS set *)
Definition ds_shape_bound (K : N) (dsl : list dsrec) : N :=
  fold_right (fun d a => (if ds_usable d then N.min K (N.of_nat (length (snd d))) else 0) + a) 0 dsl.

(* ---- shape facts that need no ledger (used by the specification oracle) *)

(* a usable record names key j and carries its digest *)
Definition ds_vouches (j : nat) (d : dsrec) : bool :=
  ds_usable d && existsb (fun c => Nat.eqb (fst c) j && snd c) (snd d).
Definition ds_names (j : nat) (d : dsrec) : bool :=
  ds_usable d && existsb (fun c => Nat.eqb (fst c) j) (snd d).
Definition has_match (j : nat) (dsl : list dsrec) : bool := existsb (ds_vouches j) dsl.

(* digests that must have been computed before key j can be confirmed: one per usable record naming j, up to and
   including the first that carries its digest; without such a record, one per record naming it *)
Fixpoint key_cost (j : nat) (dsl : list dsrec) : N :=
  match dsl with
  | [] => 0
  | d :: rest => if ds_vouches j d then 1 else (if ds_names j d then 1 else 0) + key_cost j rest
  end.

(* digests one pass of verifyDSWithWork computes when nothing is refused: per usable record one per candidate up to
   and including the first whose digest it carries, records in order until one has such a candidate *)
Fixpoint cands_cost (cs : list (nat * bool)) : N * bool :=
  match cs with
  | [] => (0, false)
  | (_, m) :: rest => if m then (1, true) else let '(n, hit) := cands_cost rest in (n + 1, hit)
  end.
Fixpoint pass_cost (dsl : list dsrec) : N * bool :=
  match dsl with
  | [] => (0, false)
  | d :: rest =>
    if ds_usable d
    then let '(n, hit) := cands_cost (snd d) in
         if hit then (n, true) else let '(n', hit') := pass_cost rest in (n + n', hit')
    else pass_cost rest
  end.
(* ... and the whole of verifyDNSSEC's DS step: the second phase only after a successful first *)
Definition ds_need (dsl : list dsrec) (korder : list nat) : N :=
  let '(n, hit) := pass_cost dsl in
  if hit then n + fold_right (fun j a => fst (pass_cost (restrict j dsl)) + a) 0 korder else n.
Definition subset_nat (a b : list nat) : bool := forallb (fun x => existsb (Nat.eqb x) b) a.

Definition ds_policy (mode K D : N) : policy := mk_T_RecursionWorkPolicy mode 128 32 K 8 32 D 32 32.
Definition ds_verdict_eqb (v : dres) (verdict ekind : N) : bool :=
  match v with
  | DOk => verdict =? 0
  | DWork (RLimit k _) => (verdict =? 1) && (ekind =? k)
  | DWork _ => false
  | DFail => verdict =? 2
  | DUnsup => verdict =? 3
  end.
Definition ds_bits : N := N.lor bit_dnskey_candidate bit_ds_digest.
Definition first_of (l : ledger) : N := match enforcement_error l with RLimit k _ => k + 1 | _ => 0 end.

(* model = observed.  [ordered]: DSMatchedKeys' visiting order is determined (one key tag); otherwise Go's map order
   decides which keys are reached before the budget ends, and only what does not depend on it is compared when the
   model's run meets a refusal in that phase (whether one occurs does not depend on the order: every key's digests are
   the same whatever was visited before, unless the budget ended) *)
Definition ds_check (mode K D : N) (dsl : list dsrec) (korder : list nat) (ordered : bool)
    (verdict ekind : N) (matched : list nat) (digests exh first : N) : bool :=
  let l0 := new_ledger (ds_policy mode K D) in
  let '(l1, v1) := verify_ds l0 dsl in
  let '(l2, v, m) := ds_run l0 dsl korder in
  let refused2 := match v1 with DOk => negb (N.land (l_exh l2) ds_bits =? N.land (l_exh l1) ds_bits) && (mode =? mode_enforce) | _ => false end in
  ds_verdict_eqb v verdict ekind &&
  (l_ds l2 =? digests) && (N.land (l_exh l2) ds_bits =? exh) && (first_of l2 =? first) &&
  (if ordered || negb refused2
   then subset_nat m matched && subset_nat matched m && (length m =? length matched)%nat
   else forallb (fun j => has_match j dsl) matched && subset_nat matched korder).

(* the specification, judged on the observation alone: in enforce mode the digests stay within the budget; a key is
   only confirmed when a supported, well-formed DS naming it carries its digest AND the digests needed to get there
   were paid for (each confirmed key accounts for key_cost of them); a refused verdict only when the budget or the
   allowance can have been reached; in shadow mode nothing is ever refused: every key a DS vouches for is confirmed *)
Definition ds_spec (mode K D : N) (dsl : list dsrec) (korder : list nat) (ordered : bool)
    (verdict ekind : N) (matched : list nat) (digests exh first : N) : bool :=
  let paid := fold_right (fun j a => key_cost j dsl + a) 0 matched in
  forallb (fun j => has_match j dsl) matched && subset_nat matched korder &&
  (paid + (if verdict =? 0 then 1 else 0) <=? digests) &&
  (if mode =? mode_enforce
   then (digests <=? D) && (digests <=? ds_need dsl korder) &&
        (* nothing refused: everything the validation needs was counted *)
        ((0 <? exh) || (verdict =? 1) || (digests =? ds_need dsl korder)) &&
        (negb (verdict =? 1) || (if ekind =? kind_ds_digest then digests =? D else ekind =? kind_dnskey_candidate))
   else (* shadow: budgets are only counted — counted in full, nothing refused, every vouched key confirmed *)
        negb (verdict =? 1) && (first =? 0) && (digests =? ds_need dsl korder) &&
        (negb (verdict =? 0) || forallb (fun j => negb (has_match j dsl) || existsb (Nat.eqb j) matched) korder)).
