(* C12 — proofs about the ledger: sequential facts (Part A) and the interleaving system (Part B). *)
From Sdns Require Import Common.Base Common.GoList Gen.C12 C12.Model.
Open Scope N_scope.

(* ------------------------------------------------------------------ translator ties *)

(* the kinds aggregateDimension / localDimension switch over, as read from the source now,
   are exactly the domains of the model's dimension maps (all 256 values of the uint8 kind) *)
Definition in_cases (k : N) (cs : list (Z * Z)) : bool := existsb (fun c => (fst c =? Z.of_N k)%Z) cs.

Lemma gen_aggregate_kinds : forall p k, k < 256 ->
  (match agg_dim p k with Some _ => true | None => false end) = in_cases k aggregate_kinds.
Proof.
  intros p k Hk.
  assert (H : forallb (fun k => Bool.eqb (match agg_dim p k with Some _ => true | None => false end) (in_cases k aggregate_kinds))
                      (map N.of_nat (seq 0 256)) = true).
  { unfold agg_dim. vm_compute. reflexivity. }
  rewrite forallb_forall in H. specialize (H k).
  apply Bool.eqb_prop. apply H. apply in_map_iff. exists (N.to_nat k). split; [lia|]. apply in_seq. lia.
Qed.

Lemma gen_local_kinds : forall p k, k < 256 ->
  (match local_dim p k with Some _ => true | None => false end) = in_cases k local_kinds.
Proof.
  intros p k Hk.
  assert (H : forallb (fun k => Bool.eqb (match local_dim p k with Some _ => true | None => false end) (in_cases k local_kinds))
                      (map N.of_nat (seq 0 256)) = true).
  { unfold local_dim. vm_compute. reflexivity. }
  rewrite forallb_forall in H. specialize (H k).
  apply Bool.eqb_prop. apply H. apply in_map_iff. exists (N.to_nat k). split; [lia|]. apply in_seq. lia.
Qed.

(* every kind is aggregate or local, never both, for the 8 declared kinds; the exhaustion bit of
   kind k is 1 << k *)
Lemma kinds_partition : forall p k, k <= kind_concurrent_crypto ->
  (match agg_dim p k with Some _ => true | None => false end) = negb (match local_dim p k with Some _ => true | None => false end).
Proof.
  intros p k Hk. unfold kind_concurrent_crypto in Hk.
  assert (H : forallb (fun k => Bool.eqb (match agg_dim p k with Some _ => true | None => false end)
                                         (negb (match local_dim p k with Some _ => true | None => false end)))
                      (map N.of_nat (seq 0 8)) = true).
  { unfold agg_dim, local_dim. vm_compute. reflexivity. }
  rewrite forallb_forall in H. apply Bool.eqb_prop. apply H.
  apply in_map_iff. exists (N.to_nat k). split; [lia|]. apply in_seq. lia.
Qed.

Lemma agg_bit_is_shift : forall p k i lim bit, agg_dim p k = Some (i, lim, bit) -> bit = 2 ^ k.
Proof.
  intros p k i lim bit. unfold agg_dim.
  repeat match goal with |- context [if ?b then _ else _] => destruct b eqn:?E end; intros H; inversion H; subst;
  repeat match goal with H : (_ =? _) = true |- _ => apply N.eqb_eq in H; subst end; reflexivity.
Qed.

Lemma isDNSSEC_is_not_network : forall k,
  go_RecursionWorkKind_isDNSSEC k = negb ((k =? kind_outbound) || (k =? kind_internal)) && (k <=? kind_concurrent_crypto).
Proof.
  intros k. unfold go_RecursionWorkKind_isDNSSEC, kind_outbound, kind_internal, kind_concurrent_crypto.
  destruct (k <=? 7) eqn:E.
  - apply N.leb_le in E.
    assert (H : forallb (fun k => Bool.eqb
       (if (k =? 2) || (k =? 3) || (k =? 4) || (k =? 5) || (k =? 6) || (k =? 7) then true else false)
       (negb ((k =? 0) || (k =? 1)) && true)) (map N.of_nat (seq 0 8)) = true) by (vm_compute; reflexivity).
    rewrite forallb_forall in H. apply Bool.eqb_prop. apply H.
    apply in_map_iff. exists (N.to_nat k). split; [lia|]. apply in_seq. lia.
  - apply N.leb_gt in E.
    repeat match goal with |- context [?a =? ?b] => destruct (N.eqb_spec a b); [lia|] end. reflexivity.
Qed.

(* source shape (reported as part of the tie, not a property of the model): in the text of /repo now,
   - Resolver.exchange: attempt guard, then outbound debit, then the one transport send of resolver.go;
   - pipelineQueryer.Query: nesting cap, internal debit, sub-pipeline run, enforcement check, in this order;
   - Resolver.subQuery: internal debit, resolve, enforcement check;
   - forwarder / failover: BeforeAttempt = guard + outbound debit, and dnsclient refuses to send when it fails;
   - Resolver.Resolve re-checks the ledger after resolve; cacheableResolutionFailure consults the ledger.
   Each pattern is found exactly once. *)
Lemma source_shape_lemma :
  map (@length (list N))
      [shape_exchange_guard_debit_send; shape_resolver_send_sites; shape_query_cap_debit_run_check;
       shape_subquery_debit_resolve_check; shape_forwarder_before_attempt; shape_failover_before_attempt;
       shape_dnsclient_before_attempt_gates; shape_resolve_postcheck; shape_cacheable_failure_checks_ledger]
  = [1; 1; 1; 1; 1; 1; 1; 1; 1]%nat.
Proof. vm_compute. reflexivity. Qed.

(* the caps as they are in the source now: RFC 9520's three attempts; the alias caps are not shadowed
   by the generic queryer cap; NSEC3 iterations within RFC 9276's ceiling of 500; the defaults the
   config validator insists on are positive; subQuery's fallback depth is the handler's default *)
Lemma caps_consistent_lemma :
  max_resolution_attempts = 3 /\  max_dname_depth <= max_queryer_recursion /\ max_cname_chase_depth <= max_queryer_recursion /\  0 < cname_loop_depth /\ 0 < cached_loop_depth_penalty /\ max_nsec3_iterations <= 500 /\  subquery_default_depth = default_maxdepth /\ 0 < default_maxdepth /\  0 < default_max_outbound /\ 0 < default_max_internal /\ 0 < default_max_dnskey_candidates /\  0 < default_max_rrset_signature_checks /\ 0 < default_max_signature_checks /\ 0 < default_max_ds_digests /\  0 < default_max_nsec3_hashes /\ 0 < default_max_concurrent_crypto /\  default_max_internal <= default_max_outbound.
Proof. vm_compute. repeat split; congruence. Qed.

(* the errors IsRequestLocalResolutionError lists now (never admitted to the failure cache, never
   evidence against an authority) include the three request-tree limits of this property *)
Definition name_in (n : list N) (l : list (list N)) : bool := existsb (fun x => if list_eq_dec N.eq_dec x n then true else false) l.
Lemma request_local_errors_lemma :
  name_in [69;114;114;82;101;99;117;114;115;105;111;110;87;111;114;107;76;105;109;105;116] request_local_errors = true /\   (* ErrRecursionWorkLimit *)
  name_in [69;114;114;82;101;115;111;108;117;116;105;111;110;65;116;116;101;109;112;116;76;105;109;105;116] request_local_errors = true /\   (* ErrResolutionAttemptLimit *)
  name_in [69;114;114;77;97;120;82;101;99;117;114;115;105;111;110] request_local_errors = true.      (* ErrMaxRecursion *)
Proof. vm_compute. repeat split. Qed.

(* configuration -> policy: a configured limit is the enforced limit, an omitted one is the default,
   the mode is the configured one and an omitted mode means shadow *)
Lemma policy_of_config_lemma : forall mt lims p, policy_of_config mt lims = Some p ->
  (mt = 3 <-> p_mode p = mode_enforce) /\ (mt = 1 <-> p_mode p = mode_off) /\
  (nth 0 lims 0 <> 0 -> p_max_out p = nth 0 lims 0) /\ (nth 1 lims 0 <> 0 -> p_max_int p = nth 1 lims 0) /\
  (nth 2 lims 0 <> 0 -> p_max_key p = nth 2 lims 0) /\ (nth 3 lims 0 <> 0 -> p_max_rrsig p = nth 3 lims 0) /\
  (nth 4 lims 0 <> 0 -> p_max_sig p = nth 4 lims 0) /\ (nth 5 lims 0 <> 0 -> p_max_ds p = nth 5 lims 0) /\
  (nth 6 lims 0 <> 0 -> p_max_n3 p = nth 6 lims 0) /\ (nth 7 lims 0 <> 0 -> p_max_cc p = nth 7 lims 0).
Proof.
  intros mt lims p. unfold policy_of_config.
  assert (L : forall v d, v <> 0 -> cfg_limit v d = v).
  { intros v d Hv. unfold cfg_limit. destruct (N.eqb_spec v 0); [contradiction|reflexivity]. }
  destruct (N.eqb_spec mt 0); [|destruct (N.eqb_spec mt 1); [|destruct (N.eqb_spec mt 2); [|destruct (N.eqb_spec mt 3)]]];
    intros H; inversion H; subst; cbn; repeat split; intros; try discriminate; try lia; auto.
Qed.

(* RecursionWorkLedger.localDimension as translated from the source: which policy field and which exhaustion bit
   each per-validation-object kind reads — the model's local_dim is that function *)
Lemma gen_local_dimension : forall p k,
  go_RecursionWorkLedger_localDimension (mk_T_RecursionWorkLedger p) k =
  match local_dim p k with Some (lim, bit) => (lim, bit, true) | None => (0, 0, false) end.
Proof.
  intros p k. unfold go_RecursionWorkLedger_localDimension, local_dim. cbn [T_RecursionWorkLedger_policy].
  change kind_dnskey_candidate with 2. change kind_rrset_signature with 3. change kind_concurrent_crypto with 7.
  destruct (k =? 2); [reflexivity|]. destruct (k =? 3); [reflexivity|]. destruct (k =? 7); reflexivity.
Qed.

(* config.RecursionFirewallConfig.Validate as translated from the source (error = true).  The step in front of
   policy_of_config: MustRecursionWorkPolicyFromConfig panics exactly when Validate reports an error, so
   (1) a mode text other than the three names policy_of_config knows is refused, whatever the limits are;
   (2) a normalised configuration — a known mode, eight non-zero limits, failure-cache fields in range —
       is accepted as it is: Validate never asks for a limit to be anything but non-zero, so the configured
       number is the enforced number (configured_limits_are_the_policy). *)
Definition known_mode (m : list N) : Prop := m = name_off \/ m = name_shadow \/ m = name_enforce.
Definition limits_set (c : T_RecursionFirewallConfig) : Prop :=
  T_RecursionFirewallConfig_MaxOutboundQueries c <> 0 /\ T_RecursionFirewallConfig_MaxInternalQueries c <> 0 /\
  T_RecursionFirewallConfig_MaxDNSKEYCandidates c <> 0 /\ T_RecursionFirewallConfig_MaxRRsetSignatureChecks c <> 0 /\
  T_RecursionFirewallConfig_MaxSignatureChecks c <> 0 /\ T_RecursionFirewallConfig_MaxDSDigests c <> 0 /\
  T_RecursionFirewallConfig_MaxNSEC3Hashes c <> 0 /\ T_RecursionFirewallConfig_MaxConcurrentCrypto c <> 0.

Lemma gen_validate_refuses : forall c, go_RecursionFirewallConfig_Validate c = false ->
  known_mode (T_RecursionFirewallConfig_Mode c) /\ limits_set c.
Proof.
  intros c. unfold go_RecursionFirewallConfig_Validate, known_mode, limits_set.
  destruct (go_list_eqb N.eqb (T_RecursionFirewallConfig_Mode c) _) eqn:E1;
  [|destruct (go_list_eqb N.eqb (T_RecursionFirewallConfig_Mode c) [115; _; _; _; _; _]%N) eqn:E2;
    [|destruct (go_list_eqb N.eqb (T_RecursionFirewallConfig_Mode c) [101; _; _; _; _; _; _]%N) eqn:E3]];
  cbn [orb]; try discriminate.
  all: repeat match goal with |- context [N.eqb ?a 0%N] => destruct (N.eqb_spec a 0%N); [discriminate|] end.
  all: intros _; split; [|repeat split; assumption].
  - left. apply go_bytes_eqb_eq. exact E1.
  - right. left. apply go_bytes_eqb_eq. exact E2.
  - right. right. apply go_bytes_eqb_eq. exact E3.
Qed.

Lemma gen_validate_accepts : forall c, known_mode (T_RecursionFirewallConfig_Mode c) -> limits_set c ->
  (0 < T_RecursionFirewallConfig_FailureCacheSize c)%Z ->
  (1000000000 <= T_Duration_Duration (T_RecursionFirewallConfig_FailureCacheMinTTL c))%Z ->
  (T_Duration_Duration (T_RecursionFirewallConfig_FailureCacheMinTTL c) <= T_Duration_Duration (T_RecursionFirewallConfig_FailureCacheMaxTTL c))%Z ->
  (T_Duration_Duration (T_RecursionFirewallConfig_FailureCacheMaxTTL c) <= 300000000000)%Z ->
  go_RecursionFirewallConfig_Validate c = false.
Proof.
  intros c Hm (H1 & H2 & H3 & H4 & H5 & H6 & H7 & H8) Hs Hmin Hle Hmax.
  unfold go_RecursionFirewallConfig_Validate.
  assert (Hk : (go_list_eqb N.eqb (T_RecursionFirewallConfig_Mode c) [111; 102; 102]%N
             || go_list_eqb N.eqb (T_RecursionFirewallConfig_Mode c) [115; 104; 97; 100; 111; 119]%N
             || go_list_eqb N.eqb (T_RecursionFirewallConfig_Mode c) [101; 110; 102; 111; 114; 99; 101]%N)%bool = true).
  { destruct Hm as [-> | [-> | ->]]; reflexivity. }
  rewrite Hk.
  repeat match goal with |- context [N.eqb ?a 0%N] => destruct (N.eqb_spec a 0%N); [contradiction|] end.
  destruct (Z.leb_spec (T_RecursionFirewallConfig_FailureCacheSize c) 0); [lia|].
  destruct (Z.ltb_spec (T_Duration_Duration (T_RecursionFirewallConfig_FailureCacheMinTTL c)) 1000000000); [lia|].
  destruct (Z.ltb_spec (T_Duration_Duration (T_RecursionFirewallConfig_FailureCacheMaxTTL c)) (T_Duration_Duration (T_RecursionFirewallConfig_FailureCacheMinTTL c))); [lia|].
  destruct (Z.ltb_spec 300000000000 (T_Duration_Duration (T_RecursionFirewallConfig_FailureCacheMaxTTL c))); [lia|].
  reflexivity.
Qed.

(* config.RecursionFirewallConfig.Normalize as translated from the source (a receiver-mutating method: the translation
   hands back the final receiver; item flag join_ifs: twelve `let v_c := if field == 0 then <updated> else v_c in …` in a
   row, 10 KB) is norm_model.  Which branch each step takes is decided by whether its field is zero, so the proof splits
   every field on its head constructor and computes (13 824 cases, about 20 s).  A proof linear in the number of steps
   was tried and left: every way of peeling the head `let` (change / eapply of a let lemma) made the tactic unifier
   zeta-expand the whole chain. *)
Lemma gen_normalize : forall c, go_RecursionFirewallConfig_Normalize c = norm_model c.
Proof.
  intros [m f1 f2 f3 f4 f5 f6 f7 f8 s [tmin] [tmax]].
  destruct m as [|x m], f1, f2, f3, f4, f5, f6, f7, f8, s, tmin, tmax; reflexivity.
Qed.

Lemma cfg_limit_nonzero : forall v d, d <> 0 -> cfg_limit v d <> 0.
Proof. intros v d Hd. unfold cfg_limit. destruct (N.eqb_spec v 0); assumption. Qed.

(* an omitted field is "0"; a failure-cache field that is given must be in the range Validate accepts *)
Definition failure_cache_fields_ok (c : T_RecursionFirewallConfig) : Prop :=
  let s := T_RecursionFirewallConfig_FailureCacheSize c in
  let tmin := T_Duration_Duration (T_RecursionFirewallConfig_FailureCacheMinTTL c) in
  let tmax := T_Duration_Duration (T_RecursionFirewallConfig_FailureCacheMaxTTL c) in
  (0 <= s)%Z /\ (tmin = 0 \/ 1000000000 <= tmin <= 300000000000)%Z /\ (tmax = 0 \/ 1000000000 <= tmax <= 300000000000)%Z /\
  (tmin = 0 \/ tmax = 0 \/ tmin <= tmax)%Z /\ (tmax = 0 \/ tmin <> 0 \/ 5000000000 <= tmax)%Z.

(* Validate after Normalize: whatever limits are omitted, a configuration whose mode is omitted or one of the three
   names passes — so MustRecursionWorkPolicyFromConfig does not panic on it *)
Lemma validate_normalize_accepts : forall c,
  (T_RecursionFirewallConfig_Mode c = [] \/ known_mode (T_RecursionFirewallConfig_Mode c)) -> failure_cache_fields_ok c ->
  go_RecursionFirewallConfig_Validate (go_RecursionFirewallConfig_Normalize c) = false.
Proof.
  intros c Hm (Hs & Hmin & Hmax & Hord & Hdef). rewrite gen_normalize.
  destruct c as [m f1 f2 f3 f4 f5 f6 f7 f8 s [tmin] [tmax]]. cbn in *.
  apply gen_validate_accepts; unfold norm_model; cbn.
  - unfold known_mode in *. destruct Hm as [-> | Hk]; [right; left; reflexivity|].
    destruct m; [destruct Hk as [H|[H|H]]; discriminate H|exact Hk].
  - unfold limits_set. cbn. repeat split; apply cfg_limit_nonzero; discriminate.
  - destruct (Z.eqb_spec s 0); [reflexivity|lia].
  - destruct (Z.eqb_spec tmin 0); cbn; [unfold default_failure_cache_min_ttl; lia|lia].
  - unfold default_failure_cache_min_ttl, default_failure_cache_max_ttl.
    destruct (Z.eqb_spec tmin 0), (Z.eqb_spec tmax 0); cbn; lia.
  - unfold default_failure_cache_max_ttl. destruct (Z.eqb_spec tmax 0); cbn; lia.
Qed.

(* ... and Normalize never repairs a mode text: anything but the empty text is kept, so an unknown name is refused *)
Lemma validate_normalize_refuses : forall c,
  T_RecursionFirewallConfig_Mode c <> [] -> ~ known_mode (T_RecursionFirewallConfig_Mode c) ->
  go_RecursionFirewallConfig_Validate (go_RecursionFirewallConfig_Normalize c) = true.
Proof.
  intros c Hne Hk. destruct (go_RecursionFirewallConfig_Validate _) eqn:E; [reflexivity|exfalso].
  apply gen_validate_refuses in E. destruct E as [E _]. rewrite gen_normalize in E.
  destruct c as [m f1 f2 f3 f4 f5 f6 f7 f8 s tmin tmax]. cbn in *. destruct m; [contradiction|]. apply Hk. exact E.
Qed.

(* policy_of_config (what the CasePolicy cases compare the real MustRecursionWorkPolicyFromConfig with) is
   "Normalize, then the mode switch and the eight limit fields" *)
Lemma policy_of_config_is_normalize : forall mt l0 l1 l2 l3 l4 l5 l6 l7 s tmin tmax, mt <= 3 ->
  policy_of_config mt [l0; l1; l2; l3; l4; l5; l6; l7] =
  Some (policy_of_normalized (go_RecursionFirewallConfig_Normalize
          (mk_T_RecursionFirewallConfig (mode_text_name mt) l0 l1 l2 l3 l4 l5 l6 l7 s tmin tmax))).
Proof.
  intros mt l0 l1 l2 l3 l4 l5 l6 l7 s tmin tmax Hmt. rewrite gen_normalize.
  assert (H : mt = 0 \/ mt = 1 \/ mt = 2 \/ mt = 3) by lia.
  destruct H as [-> | [-> | [-> | ->]]]; reflexivity.
Qed.

(* ------------------------------------------------------------------ Part A: sequential facts *)

Definition enforce (l : ledger) : Prop := p_mode (l_pol l) = mode_enforce.
Definition shadow (l : ledger) : Prop := p_mode (l_pol l) = mode_shadow.

Lemma enabled_cases : forall p, enabled p = (p_mode p =? mode_shadow) || (p_mode p =? mode_enforce).
Proof. intros [m ? ? ? ? ? ? ? ?]. reflexivity. Qed.

(* counters below their caps *)
Definition under_caps (l : ledger) : Prop :=
  l_out l <= p_max_out (l_pol l) /\ l_int l <= p_max_int (l_pol l) /\ l_sig l <= p_max_sig (l_pol l) /\
  l_ds l <= p_max_ds (l_pol l) /\ l_n3 l <= p_max_n3 (l_pol l).

Lemma mark_exhausted_ctr : forall l k bit latch,
  l_pol (mark_exhausted l k bit latch) = l_pol l /\ l_out (mark_exhausted l k bit latch) = l_out l /\
  l_int (mark_exhausted l k bit latch) = l_int l /\ l_sig (mark_exhausted l k bit latch) = l_sig l /\
  l_ds (mark_exhausted l k bit latch) = l_ds l /\ l_n3 (mark_exhausted l k bit latch) = l_n3 l /\
  l_root (mark_exhausted l k bit latch) = l_root l /\ l_refs (mark_exhausted l k bit latch) = l_refs l.
Proof. intros. unfold mark_exhausted. destruct (negb (is_live l)); cbn; repeat split. Qed.

(* enforce mode: a debit keeps every counter under its cap, whatever the kind and the latch flag *)
Lemma debit_keeps_caps : forall l k latch, enforce l -> under_caps l -> under_caps (fst (debit l k latch)).
Proof.
  intros l k latch He Hc. unfold debit.
  destruct (control_error l); [exact Hc|].
  destruct (negb (enabled (l_pol l))); [exact Hc|].
  destruct (agg_dim (l_pol l) k) as [[[i lim] bit]|] eqn:Ea; [|exact Hc].
  unfold enforce in He. rewrite He. change (mode_enforce =? mode_shadow) with false. cbn [fst].
  destruct (lim <=? get_ctr l i) eqn:El; cbn [fst].
  - destruct (mark_exhausted_ctr l k bit latch) as (Hp & H1 & H2 & H3 & H4 & H5 & _).
    unfold under_caps. rewrite Hp, H1, H2, H3, H4, H5. exact Hc.
  - apply N.leb_gt in El. unfold agg_dim in Ea. unfold under_caps in *.
    destruct Hc as (C0 & C1 & C2 & C3 & C4).
    repeat match type of Ea with context [if ?b then _ else _] => destruct b eqn:? end; inversion Ea; subst; clear Ea;
      unfold get_ctr, set_ctr in *; cbn in *; repeat split; try assumption; lia.
Qed.

(* shadow mode and off mode never refuse a debit, a local check or a governor rejection *)
Lemma shadow_never_refuses : forall l k latch r, p_mode (l_pol l) <> mode_enforce -> is_live l = true ->
  snd (debit l k latch) = r -> r = ROk \/ r = RPanic.
Proof.
  intros l k latch r Hm Hl. unfold debit, control_error. rewrite Hl.
  destruct (negb (enabled (l_pol l))) eqn:Een; [cbn; intros <-; now left|].
  destruct (agg_dim (l_pol l) k) as [[[i lim] bit]|]; [|cbn; intros <-; now right].
  apply Bool.negb_false_iff in Een. rewrite enabled_cases in Een.
  destruct (p_mode (l_pol l) =? mode_shadow) eqn:Es; [cbn; intros <-; now left|].
  cbn in Een. apply N.eqb_eq in Een. contradiction.
Qed.

Lemma shadow_local_never_refuses : forall l k used latch, p_mode (l_pol l) <> mode_enforce -> is_live l = true ->
  snd (check_local l k used latch) = ROk \/ snd (check_local l k used latch) = RPanic.
Proof.
  intros l k used latch Hm Hl. unfold check_local, control_error. rewrite Hl.
  destruct (negb (enabled (l_pol l))) eqn:Een; [now left|].
  destruct (local_dim (l_pol l) k) as [[lim bit]|]; [|now right].
  destruct (used <? lim); [now left|].
  apply Bool.negb_false_iff in Een. rewrite enabled_cases in Een.
  destruct (p_mode (l_pol l) =? mode_shadow) eqn:Es; [now left|].
  cbn in Een. apply N.eqb_eq in Een. contradiction.
Qed.

(* off: nothing at all changes *)
Lemma off_debit_is_identity : forall l k latch, enabled (l_pol l) = false -> is_live l = true -> debit l k latch = (l, ROk).
Proof. intros l k latch He Hl. unfold debit, control_error. rewrite Hl, He. reflexivity. Qed.

(* enforcement error is only ever reported in enforce mode, and only after a latched rejection *)
Lemma enforcement_error_needs_latch : forall l, is_live l = true ->
  enforcement_error l <> ROk -> enforce l /\ l_first l <> 0.
Proof.
  intros l Hl. unfold enforcement_error, control_error. rewrite Hl.
  destruct (p_mode (l_pol l) =? mode_enforce) eqn:Em; cbn [negb]; [|congruence].
  destruct (l_first l =? 0) eqn:Ef; [congruence|].
  intros _. split; [now apply N.eqb_eq|]. now apply N.eqb_neq.
Qed.

(* a best-effort (non-latching) rejection never makes the tree fail later *)
Lemma best_effort_does_not_latch : forall l k, l_first (fst (debit l k false)) = l_first l.
Proof.
  intros l k. unfold debit.
  destruct (control_error l); [reflexivity|].
  destruct (negb (enabled (l_pol l))); [reflexivity|].
  destruct (agg_dim (l_pol l) k) as [[[i lim] bit]|]; [|reflexivity].
  assert (Hset : forall l i v, l_first (set_ctr l i v) = l_first l).
  { intros. unfold set_ctr. repeat match goal with |- context [if ?b then _ else _] => destruct b end; reflexivity. }
  assert (Hmark : forall l, l_first (mark_exhausted l k bit false) = l_first l).
  { intros. unfold mark_exhausted. destruct (negb (is_live l0)); reflexivity. }
  destruct (p_mode (l_pol l) =? mode_shadow); cbn [fst].
  - destruct (_ =? _); [rewrite Hmark|]; apply Hset.
  - destruct (lim <=? get_ctr l i); cbn [fst]; [apply Hmark|apply Hset].
Qed.

(* ------------------------------------------------------------------ Part B: every interleaving *)

Lemma set_nth_In {A} : forall (l : list A) i x t, In t (set_nth l i x) -> t = x \/ In t l.
Proof.
  induction l as [|a l IH]; intros i x t H; [destruct i; destruct H|].
  destruct i; cbn in H.
  - destruct H as [<-|H]; [now left|right; now right].
  - destruct H as [<-|H]; [right; now left|]. destruct (IH _ _ _ H); [now left|right; now right].
Qed.

Lemma nth_error_set_nth_same {A} : forall (l : list A) i x t, nth_error l i = Some t -> nth_error (set_nth l i x) i = Some x.
Proof. induction l; intros [|i] x t H; cbn in *; try discriminate; eauto. Qed.

Section Interleaving.
  Variable lim : N -> N.

  (* enforce mode *)
  Definition cinv (s : cstate) : Prop :=
    (forall k, c_ctr s k = c_acc s k) /\
    (forall k, c_ctr s k <= lim k) /\
    (forall t k u, In t (c_threads s) -> t_ph t = TLoaded k u -> u <= c_ctr s k) /\
    (forall k, 0 < c_rej s k -> c_ctr s k = lim k).

  Lemma cinv_init : forall todos, cinv (cinit todos).
  Proof.
    intros todos. unfold cinv, cinit; cbn. repeat split; intros; try lia.
    apply in_map_iff in H as (td & <- & _). cbn in H0. discriminate.
  Qed.

  Lemma cinv_step : forall s i, cinv s -> cinv (cstep false lim s i).
  Proof.
    intros s i (Hacc & Hcap & Hld & Hrej). unfold cstep.
    destruct (nth_error (c_threads s) i) as [t|] eqn:Et; [|repeat split; assumption].
    assert (Hin : In t (c_threads s)) by (eapply nth_error_In; eauto).
    destruct (t_ph t) as [|k used] eqn:Eph.
    - destruct (t_todo t) as [|k rest]; [repeat split; assumption|].
      repeat split; cbn; try assumption.
      intros t' k' u Hin' Hph. apply set_nth_In in Hin' as [->|Hin']; [|eauto].
      cbn in Hph. inversion Hph; subst. lia.
    - pose proof (Hld _ _ _ Hin Eph) as Hused.
      destruct (lim k <=? used) eqn:El.
      + apply N.leb_le in El. pose proof (Hcap k).
        repeat split; cbn; try assumption.
        * intros t' k' u Hin' Hph. apply set_nth_In in Hin' as [->|Hin']; [cbn in Hph; discriminate|eauto].
        * intros k'. unfold upd. destruct (k' =? k) eqn:Ek; [apply N.eqb_eq in Ek; subst; intros _; lia|apply Hrej].
      + apply N.leb_gt in El.
        destruct (c_ctr s k =? used) eqn:Ec.
        * apply N.eqb_eq in Ec.
          repeat split; cbn.
          -- intros k'. unfold upd. destruct (k' =? k) eqn:Ek; [apply N.eqb_eq in Ek; subst; rewrite <- Hacc; lia|apply Hacc].
          -- intros k'. unfold upd. destruct (k' =? k) eqn:Ek; [apply N.eqb_eq in Ek; subst; lia|apply Hcap].
          -- intros t' k' u Hin' Hph. apply set_nth_In in Hin' as [->|Hin']; [cbn in Hph; discriminate|].
             unfold upd. destruct (k' =? k) eqn:Ek; [apply N.eqb_eq in Ek; subst; pose proof (Hld _ _ _ Hin' Hph); lia|eauto].
          -- intros k'. unfold upd. destruct (k' =? k) eqn:Ek; [|apply Hrej].
             apply N.eqb_eq in Ek; subst. intros Hr. pose proof (Hrej _ Hr). lia.
        * repeat split; cbn; try assumption.
          intros t' k' u Hin' Hph. apply set_nth_In in Hin' as [->|Hin']; [cbn in Hph; discriminate|eauto].
  Qed.

  Lemma cinv_run : forall sched s, cinv s -> cinv (crun false lim s sched).
  Proof. induction sched as [|i r IH]; intros s H; [exact H|]. cbn. apply IH. now apply cinv_step. Qed.

  (* shadow mode: nothing is ever refused and the counter is the number of debits mod 2^32 *)
  Definition sinv (s : cstate) : Prop :=
    (forall k, c_ctr s k = wrap32 (c_acc s k)) /\ (forall k, c_rej s k = 0) /\
    (forall t, In t (c_threads s) -> t_ph t = TIdle).

  Lemma sinv_init : forall todos, sinv (cinit todos).
  Proof.
    intros todos. unfold sinv, cinit; cbn. repeat split; intros; try reflexivity.
    apply in_map_iff in H as (td & <- & _). reflexivity.
  Qed.

  Lemma sinv_step : forall s i, sinv s -> sinv (cstep true lim s i).
  Proof.
    intros s i (Hacc & Hrej & Hid). unfold cstep.
    destruct (nth_error (c_threads s) i) as [t|] eqn:Et; [|repeat split; assumption].
    assert (Hin : In t (c_threads s)) by (eapply nth_error_In; eauto).
    rewrite (Hid _ Hin). destruct (t_todo t) as [|k rest]; [repeat split; assumption|].
    repeat split; cbn; try assumption.
    - intros k'. unfold upd. destruct (k' =? k) eqn:Ek; [|apply Hacc].
      apply N.eqb_eq in Ek; subst. rewrite Hacc. unfold wrap32, two32.
      rewrite N.add_mod_idemp_l by discriminate. reflexivity.
    - intros t' Hin'. apply set_nth_In in Hin' as [->|Hin']; [reflexivity|eauto].
  Qed.

  Lemma sinv_run : forall sched s, sinv s -> sinv (crun true lim s sched).
  Proof. induction sched as [|i r IH]; intros s H; [exact H|]. cbn. apply IH. now apply sinv_step. Qed.

  (* bookkeeping for complete runs: accepted + rejected + still to do = requested *)
  Fixpoint count_k (k : N) (l : list N) : N :=
    match l with [] => 0 | x :: r => (if x =? k then 1 else 0) + count_k k r end.
  Definition pending (k : N) (ts : list thread) : N := fold_right (fun t a => count_k k (t_todo t) + a) 0 ts.

  Lemma pending_cons : forall k t ts, pending k (t :: ts) = count_k k (t_todo t) + pending k ts.
  Proof. reflexivity. Qed.
  Global Arguments pending : simpl never.

  Lemma pending_set_nth : forall ts i t t' k, nth_error ts i = Some t ->
    pending k (set_nth ts i t') + count_k k (t_todo t) = pending k ts + count_k k (t_todo t').
  Proof.
    induction ts as [|a ts IH]; intros [|i] t t' k H; cbn [nth_error set_nth] in *; try discriminate; rewrite !pending_cons.
    - inversion H; subst. lia.
    - specialize (IH _ _ t' k H). lia.
  Qed.

  Definition total_inv (tot : N -> N) (s : cstate) : Prop :=
    (forall k, c_acc s k + c_rej s k + pending k (c_threads s) = tot k) /\
    (forall t k u, In t (c_threads s) -> t_ph t = TLoaded k u -> exists r, t_todo t = k :: r).

  Lemma total_step : forall sh tot s i, total_inv tot s -> total_inv tot (cstep sh lim s i).
  Proof.
    intros sh tot s i (Ht & Hh). unfold cstep.
    destruct (nth_error (c_threads s) i) as [t|] eqn:Et; [|split; assumption].
    assert (Hin : In t (c_threads s)) by (eapply nth_error_In; eauto).
    destruct (t_ph t) as [|k used] eqn:Eph.
    - destruct (t_todo t) as [|k rest] eqn:Etd; [split; assumption|].
      destruct sh; split; cbn.
      + intros k'. pose proof (pending_set_nth _ _ _ (mk_thread rest TIdle) k' Et) as P. rewrite Etd in P. cbn in P.
        specialize (Ht k'). unfold upd. destruct (k' =? k) eqn:Ek.
        * apply N.eqb_eq in Ek; subst. rewrite N.eqb_refl in P. lia.
        * rewrite N.eqb_sym in Ek. rewrite Ek in P. lia.
      + intros t' k' u Hin' Hph. apply set_nth_In in Hin' as [->|Hin']; [cbn in Hph; discriminate|eauto].
      + intros k'. pose proof (pending_set_nth _ _ _ (mk_thread (t_todo t) (TLoaded k (c_ctr s k))) k' Et) as P. cbn in P.
        rewrite ?Etd in P. specialize (Ht k'). lia.
      + intros t' k' u Hin' Hph. apply set_nth_In in Hin' as [->|Hin']; [|eauto].
        cbn in Hph. inversion Hph; subst. cbn. eauto.
    - destruct (Hh _ _ _ Hin Eph) as (rest & Etd). rewrite Etd. cbn [tl].
      destruct (lim k <=? used); [|destruct (c_ctr s k =? used)]; split; cbn.
      + intros k'. pose proof (pending_set_nth _ _ _ (mk_thread rest TIdle) k' Et) as P. rewrite Etd in P. cbn in P.
        specialize (Ht k'). unfold upd. destruct (k' =? k) eqn:Ek.
        * apply N.eqb_eq in Ek; subst. rewrite N.eqb_refl in P. lia.
        * rewrite N.eqb_sym in Ek. rewrite Ek in P. lia.
      + intros t' k' u Hin' Hph. apply set_nth_In in Hin' as [->|Hin']; [cbn in Hph; discriminate|eauto].
      + intros k'. pose proof (pending_set_nth _ _ _ (mk_thread rest TIdle) k' Et) as P. rewrite Etd in P. cbn in P.
        specialize (Ht k'). unfold upd. destruct (k' =? k) eqn:Ek.
        * apply N.eqb_eq in Ek; subst. rewrite N.eqb_refl in P. lia.
        * rewrite N.eqb_sym in Ek. rewrite Ek in P. lia.
      + intros t' k' u Hin' Hph. apply set_nth_In in Hin' as [->|Hin']; [cbn in Hph; discriminate|eauto].
      + intros k'. pose proof (pending_set_nth _ _ _ (mk_thread (k :: rest) TIdle) k' Et) as P.
        rewrite ?Etd in P. cbn in P. specialize (Ht k'). lia.
      + intros t' k' u Hin' Hph. apply set_nth_In in Hin' as [->|Hin']; [cbn in Hph; discriminate|eauto].
  Qed.

  Lemma total_run : forall sh tot sched s, total_inv tot s -> total_inv tot (crun sh lim s sched).
  Proof. induction sched as [|i r IH]; intros s H; [exact H|]. cbn. apply IH. now apply total_step. Qed.

  Lemma total_init : forall todos, total_inv (fun k => pending k (map (fun td => mk_thread td TIdle) todos)) (cinit todos).
  Proof.
    intros todos. split; cbn; [intros; lia|].
    intros t k u Hin Hph. apply in_map_iff in Hin as (td & <- & _). cbn in Hph. discriminate.
  Qed.

  Lemma pending_done : forall k ts, forallb thread_done ts = true -> pending k ts = 0.
  Proof.
    induction ts as [|t ts IH]; cbn; intros H; [reflexivity|].
    apply Bool.andb_true_iff in H as [Hd Hr]. rewrite pending_cons, (IH Hr).
    unfold thread_done in Hd. destruct (t_todo t); [reflexivity|discriminate].
  Qed.
End Interleaving.

(* requested debits per kind *)
Definition requested (todos : list (list N)) (k : N) : N :=
  pending k (map (fun td => mk_thread td TIdle) todos).

(* THE ledger theorem: for every number of threads, every list of debits per thread, every schedule
   of the atomic steps, in every reachable state, per kind: the counter equals the number of accepted
   debits and never passes the cap. *)
Lemma debit_never_exceeds_cap_lemma : forall lim todos sched k,
  let s := crun false lim (cinit todos) sched in
  c_ctr s k = c_acc s k /\ c_acc s k <= lim k.
Proof.
  intros lim todos sched k s. destruct (cinv_run lim sched _ (cinv_init lim todos)) as (Ha & Hc & _).
  fold s in Ha, Hc. split; [apply Ha|]. rewrite <- Ha. apply Hc.
Qed.

(* ... and when every thread has finished, exactly min(requested, cap) were accepted and the rest refused *)
Lemma conc_complete_tally : forall lim todos sched k,
  let s := crun false lim (cinit todos) sched in
  forallb thread_done (c_threads s) = true ->
  c_acc s k = N.min (requested todos k) (lim k) /\ c_rej s k = requested todos k - c_acc s k.
Proof.
  intros lim todos sched k s Hdone.
  destruct (cinv_run lim sched _ (cinv_init lim todos)) as (Ha & Hc & _ & Hr). fold s in Ha, Hc, Hr.
  pose proof (total_init lim todos) as Hti. destruct (total_run lim false _ sched _ Hti) as (Ht & _). fold s in Ht.
  specialize (Ht k). rewrite (pending_done k _ Hdone) in Ht. fold (requested todos k) in Ht.
  specialize (Ha k). specialize (Hc k). specialize (Hr k).
  destruct (N.eq_dec (c_rej s k) 0) as [E|E]; [lia|].
  assert (0 < c_rej s k) as Hp by lia. specialize (Hr Hp). lia.
Qed.

(* shadow: never refuses; the counter is the number of debits modulo 2^32 (so it can pass any cap) *)
Lemma shadow_never_refuses_conc : forall lim todos sched k,
  let s := crun true lim (cinit todos) sched in
  c_rej s k = 0 /\ c_ctr s k = wrap32 (c_acc s k).
Proof.
  intros lim todos sched k s. destruct (sinv_run lim sched _ (sinv_init todos)) as (Ha & Hr & _).
  fold s in Ha, Hr. split; [apply Hr|apply Ha].
Qed.

Lemma shadow_complete_tally : forall lim todos sched k,
  let s := crun true lim (cinit todos) sched in
  forallb thread_done (c_threads s) = true -> c_acc s k = requested todos k.
Proof.
  intros lim todos sched k s Hdone.
  destruct (sinv_run lim sched _ (sinv_init todos)) as (_ & Hr & _). fold s in Hr.
  pose proof (total_init lim todos) as Hti. destruct (total_run lim true _ sched _ Hti) as (Ht & _). fold s in Ht.
  specialize (Ht k). rewrite (pending_done k _ Hdone), (Hr k) in Ht. fold (requested todos k) in Ht. lia.
Qed.

(* the sequential model function is one of these interleavings: thread-local load and CAS back to back *)
Lemma seq_debit_is_two_steps : forall lim ctr k,
  let s0 := mk_cstate ctr (fun _ => 0) (fun _ => 0) [mk_thread [k] TIdle] in
  let s := crun false lim s0 [O; O] in
  (lim k <=? ctr k = true -> c_ctr s k = ctr k /\ c_rej s k = 1) /\
  (lim k <=? ctr k = false -> c_ctr s k = ctr k + 1 /\ c_acc s k = 1).
Proof.
  intros lim ctr k s0 s. subst s s0. unfold crun. cbn. split; intros H; rewrite H; cbn.
  - unfold upd. rewrite N.eqb_refl. split; reflexivity.
  - rewrite N.eqb_refl. cbn. unfold upd. rewrite N.eqb_refl. split; reflexivity.
Qed.
