(* C12 — Part E: the resolver skeleton (definitions only).

   A resolution is a PROGRAM TREE over five primitive effects:

     Choose n k     the adversary — every upstream answer, every cache state, every scheduling
                    accident — picks one of n+1 continuations;
     DebitOut/Int   RecursionWorkLedger debit of an outbound / internal query (ctx best-effort flag),
                    continuing differently on acceptance and on an error;
     Exchange       one datagram / connection reaches an upstream server;
     SubRun         one sub-pipeline run (Queryer.Query) or direct sub-resolution starts;
     EnfErr         RecursionWorkEnforcementError(ctx).

   [prog] is an inductive type: a program tree is well-founded, so every run of every program
   against every adversary terminates.  The skeleton functions below BUILD such trees following
   the Go control flow, and their recursion is on the code's own counters only:

     exchange   retries left (2 - retried), then the one-way transitions udp -> tcp, OPT -> no OPT
     lookup     the server list
     resolve    (rs.depth, nomin flag, servers.Checked flag, minimisation steps left) — lexicographic;
                structural recursion on the accessibility proof of that order, every recursive call
                carries the proof that the code's own guard made the tuple smaller; no fuel argument
     chase      cnameDepth (10) inside one level, cnameChaseDepth (< 10) across nested levels
     checkDname contextKeyDnameDepth (< 10)
     query      maxQueryerRecursion - depth

   What is abstracted: message contents (the adversary chooses the class of every response),
   DNSSEC validation work (DNSSEC off / CD path; see NOTES.md), the attempt guard (assumed to admit:
   more work, never less), wall-clock deadlines (never fire), parallel racing in lookup (stragglers
   are extra exchange chains the adversary may add). *)
From Coq Require Import Relations Wf_nat.
From Sdns Require Import Common.Base Gen.C12 C12.Model.
Open Scope N_scope.

(* ---- the CNAME chase loop of Cache.additionalAnswer at ONE nesting level, against a queryer
   that answers name i with "CNAME -> next i" or, when next i = None, with the final record.
   Names are numbers; 0 is the client's qname.  [left] is the code's cnameDepth counter.
   (Executable; tied to the real code by the cache driver.) *)
Section Chase.
  Variable next : N -> option N.
  Fixpoint chase_loop (left : nat) (targets : list N) (target : N) (queries : N) : N * N :=
    match left with
    | O => (queries, 0)
    | S left' =>
      if existsb (N.eqb target) targets then (queries, 2)       (* loop among targets: SERVFAIL *)
      else match next target with
           | None => (queries + 1, 0)                              (* final answer merged *)
           | Some t' =>
             if t' =? 0 then (queries + 1, 2)                      (* target == q.Name: SERVFAIL *)
             else match left' with
                  | O => (queries + 1, 0)                          (* cnameDepth reached 0 *)
                  | S _ => chase_loop left' (target :: targets) t' (queries + 1)
                  end
           end
    end.
End Chase.

Definition chain_next (chain_len loop_at loop_to : N) (i : N) : option N :=
  if (0 <? loop_at) && (i =? loop_at) then Some loop_to
  else if i <? chain_len then Some (i + 1) else None.

Definition chase_model (depth0 chain_len loop_at loop_to : N) : N * N :=
  if depth0 <? max_cname_chase_depth
  then chase_loop (chain_next chain_len loop_at loop_to) (N.to_nat cname_loop_depth) [] 1 0
  else (0, 0).

(* ------------------------------------------------------------------ program trees *)

(* values carried in the context *)
(* cx_walk: contextKeyV6Walk — set on the context of the detached IPv6 nameserver walk (fix 1508bf1) and inherited by
   everything that runs inside it *)
Record cx := mk_cx { cx_be : bool; cx_chase : nat; cx_dname : nat; cx_nsl : bool; cx_walk : bool }.
(* what the context of a sub-pipeline run carries: queryerDepthKey and the rest *)
(* mk_sl: a run of the sub-pipeline (Queryer.Query); mk_dl: a direct sub-resolution (Resolver.subQuery, the DS / DNSKEY
   fetches of validation) — it does not pass the sub-pipeline and leaves the context as it is *)
Inductive slabel := mk_sl (nest : nat) (c : cx) | mk_dl (nest : nat) (c : cx).
Definition sl_nest (l : slabel) : nat := match l with mk_sl n _ | mk_dl n _ => n end.
Definition sl_cx (l : slabel) : cx := match l with mk_sl _ c | mk_dl _ c => c end.
Definition sl_direct (l : slabel) : bool := match l with mk_sl _ _ => false | mk_dl _ _ => true end.
(* the context a detached job's queries start from: best-effort, marked as a nameserver lookup, every depth counter
   at 0 (context.Background() plus the ledger and the attempt guard), and marked as a walk *)
Definition cx_fresh : cx := mk_cx true O O true true.
Definition cx_eqb (a b : cx) : bool :=
  Bool.eqb (cx_be a) (cx_be b) && (cx_chase a =? cx_chase b)%nat && (cx_dname a =? cx_dname b)%nat && Bool.eqb (cx_nsl a) (cx_nsl b) &&
  Bool.eqb (cx_walk a) (cx_walk b).

Inductive prog (A : Type) : Type :=
| Ret (a : A)
| Choose (n : nat) (k : nat -> prog A)
| DebitOut (be : bool) (kok : prog A) (kerr : res -> prog A)
| DebitInt (be : bool) (kok : prog A) (kerr : res -> prog A)
| Exchange (k : prog A)
| SubRun (l : slabel) (k : prog A)   (* a sub-pipeline run starts; [l]: what its context carries *)
| SubEnd (k : prog A)                (* ... and returns to Queryer.Query *)
| EnfErr (k : res -> prog A).
Arguments Ret {A}. Arguments Choose {A}. Arguments DebitOut {A}. Arguments DebitInt {A}.
Arguments Exchange {A}. Arguments SubRun {A}. Arguments SubEnd {A}. Arguments EnfErr {A}.

Fixpoint bind {A B} (p : prog A) (f : A -> prog B) : prog B :=
  match p with
  | Ret a => f a
  | Choose n k => Choose n (fun i => bind (k i) f)
  | DebitOut be kok kerr => DebitOut be (bind kok f) (fun e => bind (kerr e) f)
  | DebitInt be kok kerr => DebitInt be (bind kok f) (fun e => bind (kerr e) f)
  | Exchange k => Exchange (bind k f)
  | SubRun l k => SubRun l (bind k f)
  | SubEnd k => SubEnd (bind k f)
  | EnfErr k => EnfErr (fun e => bind (k e) f)
  end.

(* the interpreter: the adversary is any function of the consultation index *)
Fixpoint run {A} (adv : nat -> nat) (p : prog A) (w : wstate) : wstate * A :=
  match p with
  | Ret a => (w, a)
  | Choose n k => run adv (k (Nat.modulo (adv (w_tick w)) (S n))) (w_ticked w)
  | DebitOut be kok kerr =>
      let '(w1, r) := ctx_debit w kind_outbound be in
      match r with ROk => run adv kok w1 | e => run adv (kerr e) w1 end
  | DebitInt be kok kerr =>
      let '(w1, r) := ctx_debit w kind_internal be in
      match r with ROk => run adv kok w1 | e => run adv (kerr e) w1 end
  | Exchange k => run adv k (w_exchanged w)
  | SubRun _ k => run adv k (w_subbed w)
  | SubEnd k => run adv k w
  | EnfErr k => run adv (k (enforcement_error (w_led w))) w
  end.

(* what an observer placed at the upstream servers and at the head of the sub-pipeline sees, step by
   step: every exchange and every sub-run start with the ledger's counters at that moment, every
   sub-run end *)
Inductive event :=
| EvX (out int : N)
| EvS (l : slabel) (out int : N)
| EvE.

Fixpoint trace {A} (adv : nat -> nat) (p : prog A) (w : wstate) : list event :=
  match p with
  | Ret _ => []
  | Choose n k => trace adv (k (Nat.modulo (adv (w_tick w)) (S n))) (w_ticked w)
  | DebitOut be kok kerr =>
      let '(w1, r) := ctx_debit w kind_outbound be in
      match r with ROk => trace adv kok w1 | e => trace adv (kerr e) w1 end
  | DebitInt be kok kerr =>
      let '(w1, r) := ctx_debit w kind_internal be in
      match r with ROk => trace adv kok w1 | e => trace adv (kerr e) w1 end
  | Exchange k => EvX (l_out (w_led w)) (l_int (w_led w)) :: trace adv k (w_exchanged w)
  | SubRun l k => EvS l (l_out (w_led w)) (l_int (w_led w)) :: trace adv k (w_subbed w)
  | SubEnd k => EvE :: trace adv k w
  | EnfErr k => trace adv (k (enforcement_error (w_led w))) w
  end.

(* ---- two checkers over event sequences; Proofs_trace.v proves that every trace of the skeleton passes
   them, Run.v applies them to the event sequence recorded from the real resolver.

   steps_ok: the budget invariant, step by step.  When the k-th exchange reaches an upstream server the
   outbound counter is already >= k; when the k-th sub-pipeline run starts the internal counter is
   already >= k; counters never go down; with [enf] they never pass the caps. *)
Fixpoint steps_ok (enf : bool) (maxo maxi : N) (nx ns po pi : N) (tr : list event) : bool :=
  match tr with
  | [] => true
  | EvX o i :: r =>
      (nx + 1 <=? o) && (po <=? o) && (pi <=? i) && (negb enf || ((o <=? maxo) && (i <=? maxi))) &&
      steps_ok enf maxo maxi (nx + 1) ns o i r
  | EvS _ o i :: r =>
      (ns + 1 <=? i) && (po <=? o) && (pi <=? i) && (negb enf || ((o <=? maxo) && (i <=? maxi))) &&
      steps_ok enf maxo maxi nx (ns + 1) o i r
  | EvE :: r => steps_ok enf maxo maxi nx ns po pi r
  end.

(* how the context of a sub-pipeline run derives from the context of the run that asked for it: exactly
   one of the three reasons the resolver and the cache middleware have for an internal query *)
Definition child_cx_ok (v6 : bool) (p c : cx) : bool :=
  (( (* CNAME chase (Cache.additionalAnswer): chase depth + 1, only below maxCnameChaseDepth *)
    (cx_chase c =? S (cx_chase p))%nat && (N.of_nat (cx_chase p) <? max_cname_chase_depth) &&
    (cx_dname c =? cx_dname p)%nat && Bool.eqb (cx_nsl c) (cx_nsl p) && Bool.eqb (cx_be c) (cx_be p))
  || (* DNAME target follow-up (Resolver.checkDname): DNAME depth + 1, only below maxDnameDepth *)
   ((cx_dname c =? S (cx_dname p))%nat && (N.of_nat (cx_dname p) <? max_dname_depth) &&
    (cx_chase c =? cx_chase p)%nat && Bool.eqb (cx_nsl c) (cx_nsl p) && Bool.eqb (cx_be c) (cx_be p))
  || (* nameserver address lookup (lookupNSAddrV4/V6 from lookupV4Nss / checkHosts): marked contextKeyNSL *)
   (cx_nsl c && (cx_chase c =? cx_chase p)%nat && (cx_dname c =? cx_dname p)%nat &&
    Bool.eqb (cx_be c) (cx_be p)))
  (* whatever the reason: the walk mark travels with the context *)
  && Bool.eqb (cx_walk c) (cx_walk p).

(* the first query of a detached IPv6 walk: nesting 1 on the fresh, walk-marked context *)
Definition detached_root (v6 : bool) (ch : slabel) : bool :=
  v6 && negb (sl_direct ch) && (sl_nest ch =? 1)%nat && cx_eqb (sl_cx ch) cx_fresh.

Definition child_ok (v6 : bool) (par ch : slabel) : bool :=
  (negb (sl_direct ch) && (sl_nest ch =? S (sl_nest par))%nat && (sl_nest ch <=? N.to_nat max_queryer_recursion)%nat &&
   child_cx_ok v6 (sl_cx par) (sl_cx ch))
  || (* a walk is started by a run that is not itself inside a walk (processDelegation tests contextKeyV6Walk) *)
     (negb (cx_walk (sl_cx par)) && detached_root v6 ch)
  || (* a direct sub-resolution: same nesting, same context *)
     (sl_direct ch && (sl_nest ch =? sl_nest par)%nat && cx_eqb (sl_cx ch) (sl_cx par)).

(* the same, for an observer who knows each sub-run's parent directly (None: the run was started by a detached job) *)
Definition pair_ok (v6 : bool) (pc : option slabel * slabel) : bool :=
  match pc with
  | (Some par, ch) => child_ok v6 par ch
  | (None, ch) => detached_root v6 ch
  end.
(* the (parent, child) pairs of a properly nested event sequence *)
Fixpoint pairs_of (cur : slabel) (st : list slabel) (tr : list event) : list (option slabel * slabel) :=
  match tr with
  | [] => []
  | EvX _ _ :: r => pairs_of cur st r
  | EvS l _ _ :: r => (Some cur, l) :: pairs_of l (cur :: st) r
  | EvE :: r => match st with p :: st' => pairs_of p st' r | [] => [] end
  end.

(* tree_run: sub-runs nest properly and every one is a legitimate child of the run that is open when it
   starts; returns the open run and the stack below it, None on a violation *)
Fixpoint tree_run (v6 : bool) (cur : slabel) (st : list slabel) (tr : list event) : option (slabel * list slabel) :=
  match tr with
  | [] => Some (cur, st)
  | EvX _ _ :: r => tree_run v6 cur st r
  | EvS l _ _ :: r => if child_ok v6 cur l then tree_run v6 l (cur :: st) r else None
  | EvE :: r => match st with p :: st' => tree_run v6 p st' r | [] => None end
  end.

(* "every exchange is preceded by a debit; every sub-run too": a bare Exchange / SubRun is not
   well-formed, it must be the acceptance continuation of the matching debit *)
Inductive guarded {A} : prog A -> Prop :=
| g_ret : forall a, guarded (Ret a)
| g_choose : forall n k, (forall i, (i <= n)%nat -> guarded (k i)) -> guarded (Choose n k)
| g_out_x : forall be k kerr, guarded k -> (forall e, guarded (kerr e)) -> guarded (DebitOut be (Exchange k) kerr)
| g_out : forall be k kerr, guarded k -> (forall e, guarded (kerr e)) -> guarded (DebitOut be k kerr)
| g_int_s : forall be l k kerr, guarded k -> (forall e, guarded (kerr e)) -> guarded (DebitInt be (SubRun l k) kerr)
| g_int : forall be k kerr, guarded k -> (forall e, guarded (kerr e)) -> guarded (DebitInt be k kerr)
| g_end : forall k, guarded k -> guarded (SubEnd k)
| g_enf : forall k, (forall e, guarded (k e)) -> guarded (EnfErr k).

(* an upper bound, over all adversaries and all ledger states, on the wire exchanges of a program *)
Inductive costs {A} : prog A -> nat -> Prop :=
| c_ret : forall a n, costs (Ret a) n
| c_choose : forall m k n, (forall i, (i <= m)%nat -> costs (k i) n) -> costs (Choose m k) n
| c_out : forall be kok kerr n, costs kok n -> (forall e, costs (kerr e) n) -> costs (DebitOut be kok kerr) n
| c_int : forall be kok kerr n, costs kok n -> (forall e, costs (kerr e) n) -> costs (DebitInt be kok kerr) n
| c_exch : forall k n, costs k n -> costs (Exchange k) (S n)
| c_sub : forall l k n, costs k n -> costs (SubRun l k) n
| c_end : forall k n, costs k n -> costs (SubEnd k) n
| c_enf : forall k n, (forall e, costs (k e) n) -> costs (EnfErr k) n
| c_weaken : forall p n n', costs p n -> (n <= n')%nat -> costs p n'.

(* ------------------------------------------------------------------ the skeleton *)

Inductive xout := XResp | XWork (e : res) | XFail.
Inductive lres := LResp | LWork (e : res) | LErrAttempt | LErrFatal | LErrOther.
Inductive rres := RResp | RWork (e : res) | RMaxRec | RErr.
(* outcome of a validation: secure-or-insecure / bogus or a fetch failed / the work budget refused a sub-query *)
Inductive vres := VOk | VFail | VWork (e : res).

(* what a sub-pipeline / the client's pipeline produced *)
Inductive reply :=
| ReplyOk                       (* an answer (positive or negative) *)
| ReplyServfail (cached : bool) (* an ordinary failure; [cached]: RecordFailure was called *)
| ReplyWork (e : res) (ede : bool)  (* the recursion-work policy failure; never recorded; [ede]: built
                                   from the client's request, so an EDNS client gets the EDE *)
| ReplyLocal                    (* other request-local failure (attempt limit, max recursion) *)
| ReplyNone.                    (* nothing written *)

(* ---- the order [resolve] descends along: lexicographic on (rs.depth, not rs.nomin, servers not yet
   through checkHosts, minimisation steps left) *)
Definition b2n (b : bool) : nat := if b then 1%nat else 0%nat.
Definition rtup : Type := (nat * nat * nat * nat)%type.
Definition rkey (depth : nat) (nomin unch : bool) (lvl : nat) : rtup := (depth, b2n (negb nomin), b2n unch, lvl).
Definition rlt (x y : rtup) : Prop :=
  let '(a1, a2, a3, a4) := x in let '(b1, b2, b3, b4) := y in
  (a1 < b1 \/ (a1 = b1 /\ (a2 < b2 \/ (a2 = b2 /\ (a3 < b3 \/ (a3 = b3 /\ a4 < b4))))))%nat.

Lemma rlt_wf : well_founded rlt.
Proof.
  intros [[[a b] c] d]. revert b c d.
  induction a as [a IHa] using lt_wf_ind. intros b.
  induction b as [b IHb] using lt_wf_ind. intros c.
  induction c as [c IHc] using lt_wf_ind. intros d.
  induction d as [d IHd] using lt_wf_ind.
  constructor. intros [[[a' b'] c'] d'] H. cbn in H.
  destruct H as [H|[-> [H|[-> [H|[-> H]]]]]]; auto.
Qed.
(* accessibility proofs that evaluate lazily (2^64 levels before the opaque proof is touched), so that
   [resolve] computes under vm_compute *)
Definition rwf : forall x, Acc rlt x := Acc_intro_generator 64 rlt_wf.
(* proofs never look inside (they hold for every accessibility proof); vm_compute still evaluates it *)
Global Opaque rwf.

Section Obligations.
  Variables (depth : nat) (nomin unch : bool) (lvl : nat).
  Ltac brk := repeat match goal with
    | E : (_ && _)%bool = true |- _ => apply Bool.andb_true_iff in E; destruct E
    | E : negb _ = true |- _ => apply Bool.negb_true_iff in E; subst
    | E : Nat.ltb _ _ = true |- _ => apply Nat.ltb_lt in E
    | E : N.ltb _ _ = true |- _ => apply N.ltb_lt in E
    end.
  (* minimized: rs.level++ *)
  Lemma ob_level : (negb nomin && (0 <? lvl)%nat)%bool = true -> rlt (rkey depth nomin unch (pred lvl)) (rkey depth nomin unch lvl).
  Proof. intros E. brk. cbn. lia. Qed.
  (* parent detection: restart from the root with nomin = true; guarded by !rs.nomin *)
  Lemma ob_parent : forall qmin, (negb nomin && (0 <? qmin)%nat)%bool = true -> rlt (rkey depth true true 0%nat) (rkey depth nomin unch lvl).
  Proof. intros q E. brk. cbn. lia. Qed.
  (* rs.depth--; if rs.depth <= 0 return errMaxDepth *)
  Lemma ob_descend : forall lvl', (1 <? depth)%nat = true -> rlt (rkey (depth - 1) nomin true lvl') (rkey depth nomin unch lvl).
  Proof. intros l' E. brk. cbn. lia. Qed.
  (* cached delegation with the same servers: rs.depth -= 10 *)
  Lemma ob_penalty : forall lvl', (cached_loop_depth_penalty <? N.of_nat depth) = true ->
    rlt (rkey (depth - N.to_nat cached_loop_depth_penalty) nomin unch lvl') (rkey depth nomin unch lvl).
  Proof. intros l' E. brk. assert (0 < N.to_nat cached_loop_depth_penalty)%nat by (unfold cached_loop_depth_penalty; lia). cbn. lia. Qed.
  (* handleLookupError: retry without minimisation; guarded by minimized, i.e. !rs.nomin *)
  Lemma ob_nomin : (negb nomin && (0 <? lvl)%nat)%bool = true -> rlt (rkey depth true unch 0%nat) (rkey depth nomin unch lvl).
  Proof. intros E. brk. cbn. lia. Qed.
  (* ErrorCount reached 5 and checkHosts set servers.Checked *)
  Lemma ob_checked : unch = true -> rlt (rkey depth nomin false lvl) (rkey depth nomin unch lvl).
  Proof. intros ->. cbn. lia. Qed.
End Obligations.

Section Skeleton.
  (* configuration and physical bounds of the adversary's messages *)
  Variable maxdepth : nat.     (* cfg.Maxdepth *)
  Variable qmin : nat.         (* cfg.QnameMinLevel *)
  Variable v6 : bool.          (* cfg.IPv6Access *)
  Variable Smax : nat.         (* server addresses in one delegation: 1 .. Smax+1 *)
  Variable Fmax : nat.         (* glue-less NS names in one referral: 0 .. Fmax *)

  (* --- Resolver.exchange.  [left] = 2 - retried.  rs/tk/fk: where a retry that switches the
     transport, a truncated reply, a FORMERR to an EDNS query continue (None: cannot happen in
     this layer). *)
  Fixpoint xlayer (rs tk fk : option (nat -> prog xout)) (be : bool) (left : nat) : prog xout :=
    DebitOut be
      (Exchange (Choose 3 (fun a =>
         match a with
         | O => match left with                                 (* transport error / timeout *)
                | O => Ret XFail
                | S l' => match l', rs with
                          | O, Some k => k O                      (* retried == 1 && udp: go to tcp *)
                          | _, _ => xlayer rs tk fk be l'
                          end
                end
         | 1%nat => match tk with Some k => k left | None => Ret XResp end   (* TC or oversize on UDP *)
         | 2%nat => match fk with Some k => k left | None => Ret XResp end   (* FORMERR and we sent OPT *)
         | _ => Ret XResp
         end)))
      (fun e => Ret (XWork e)).

  Definition x_tcp_noopt (be : bool) := xlayer None None None be.
  Definition x_tcp_opt (be : bool) := xlayer None None (Some (x_tcp_noopt be)) be.
  Definition x_udp_noopt (be : bool) := xlayer (Some (x_tcp_noopt be)) (Some (x_tcp_noopt be)) None be.
  Definition x_udp_opt (be : bool) := xlayer (Some (x_tcp_opt be)) (Some (x_tcp_opt be)) (Some (x_udp_noopt be)) be.
  Definition exchange (be : bool) : prog xout := x_udp_opt be (N.to_nat exchange_max_retries).

  (* --- Resolver.lookup over the servers of one delegation.  A straggler is an attempt that was
     started in parallel (first two servers, fallback timers, exploration probe) and whose result
     nobody reads. *)
  Fixpoint stragglers (be : bool) (n : nat) : prog unit :=
    match n with
    | O => Ret tt
    | S n' => Choose 1 (fun a => match a with
                                 | O => Ret tt
                                 | _ => bind (exchange be) (fun _ => stragglers be n')
                                 end)
    end.

  Fixpoint lookup (be : bool) (n : nat) : prog lres :=
    match n with
    | O => Choose 3 (fun a => match a with                        (* pickFallbackResponse *)
                              | O => Ret LResp | 1%nat => Ret LErrAttempt | 2%nat => Ret LErrFatal | _ => Ret LErrOther end)
    | S n' =>
      bind (exchange be) (fun x =>
        match x with
        | XWork e => Ret (LWork e)                                 (* terminal policy, no other server *)
        | XFail => lookup be n'
        | XResp => Choose 1 (fun a => match a with
                                      | O => bind (stragglers be n') (fun _ => Ret LResp)
                                      | _ => lookup be n'           (* error rcode / bogus referral: next *)
                                      end)
        end)
    end.

  (* lookupV4Nss / lookupV6Nss / checkHosts: one NS-address sub-query per glue-less host through the queryer
     [q]; a work-limit or max-recursion error stops the walk and is returned, any other failure moves on *)
  Section NsLookups.
    Variable q : cx -> prog reply.
    Fixpoint ns_lookups (cc : cx) (stop_on_work : bool) (h : nat) : prog (option rres) :=
      match h with
      | O => Ret None
      | S h' => bind (q cc) (fun r =>
                  match r with
                  | ReplyWork e _ => if stop_on_work then Ret (Some (RWork e)) else ns_lookups cc stop_on_work h'
                  | _ => ns_lookups cc stop_on_work h'
                  end)
      end.
  End NsLookups.

  Section WithQueryer.
    (* the nested Queryer: what internalExchange reaches *)
    Variable nq : cx -> prog reply.
    (* the Queryer as a detached job reaches it: processDelegation's IPv6 walk runs on context.Background() plus the
       ledger and the attempt guard — queryerDepthKey, cnameChaseDepthKey, contextKeyDnameDepth restart at 0 there *)
    Variable nq0 : cx -> prog reply.
    (* DNSSEC validation of what was just received: the DS / DNSKEY sub-queries (Resolver.subQuery) it needs *)
    Variable vq : cx -> prog vres.
    Variable c : cx.

    Definition nsl_cx : cx := mk_cx (cx_be c) (cx_chase c) (cx_dname c) true (cx_walk c).

    (* answer() / authority() / validateDelegation(): validate first; a bogus result or a failed DS/DNSKEY fetch is an
       error, a work-limit error travels up unchanged *)
    Definition validated (k : prog rres) : prog rres :=
      bind (vq c) (fun v => match v with VOk => k | VFail => Ret RErr | VWork e => Ret (RWork e) end).

    (* Resolver.answer, DNSSEC off: the only further work is a DNAME target follow-up *)
    Definition answer_step : prog rres :=
      Choose 1 (fun a =>
        match a with
        | O => Ret RResp
        | _ => if (N.of_nat (cx_dname c) <? max_dname_depth)
               then bind (nq (mk_cx (cx_be c) (cx_chase c) (S (cx_dname c)) (cx_nsl c) (cx_walk c)))
                         (fun r => match r with
                                   | ReplyOk => Ret RResp
                                   | ReplyWork e _ => Ret (RWork e)
                                   | _ => Ret RErr
                                   end)
               else Ret RErr                                        (* errMaxDepth *)
        end).

    Definition inspectb (b : bool) : {b = true} + {b = false} :=
      match b as x return {x = true} + {x = false} with true => left eq_refl | false => right eq_refl end.

    (* --- Resolver.resolve.  depth = rs.depth; nomin = rs.nomin; unch = the current servers object
       has not been through checkHosts; lvl = minimisation steps left =
       min(qnameMinLevel, labels - 1) - rs.level;  n+1 = servers in rs.servers.
       The lexicographic order [rlt] on (depth, not nomin, unch, lvl) is the termination argument:
       [resolve_F] is one pass through the body; every re-entry goes through [rec], which demands a
       proof that the tuple became smaller — the ob_* lemmas above, each proved from the guard the Go
       code tests at that place.  [resolve_acc] ties the knot by structural recursion on the
       accessibility proof (the construction of Coq.Init.Wf.Fix_F, written out so that its unfolding
       [resolve_acc_eq] holds by computation, without functional extensionality). *)
    Definition resolve_F (depth : nat) (nomin unch : bool) (lvl n : nat)
        (rec : forall (d' : nat) (nm' u' : bool) (l' : nat) (n' : nat),
               rlt (rkey d' nm' u' l') (rkey depth nomin unch lvl) -> prog rres) : prog rres :=
      bind (lookup (cx_be c) (S n)) (fun l =>
        match l with
        | LWork e => Ret (RWork e)
        | LResp =>
          Choose 2 (fun cls =>
            match cls with
            | O =>                                                  (* no answer, no authority *)
              match inspectb (negb nomin && (0 <? lvl)%nat) with
              | left E => rec depth nomin unch (pred lvl) n (ob_level depth nomin unch lvl E)     (* minimized: level++ *)
              | right _ =>
                (* since 199ba21 a bare NXDOMAIN and an empty NOERROR go through authority() like a denial that shows
                   its SOA (the DS / DNSKEY fetches of its validation); any other rcode is handed back as it came — the
                   validation that fetches nothing *)
                validated (Ret RResp)
              end
            | 1%nat =>                                              (* answer section *)
              match inspectb (negb nomin && (0 <? lvl)%nat) with
              | left E => rec depth nomin unch (pred lvl) n (ob_level depth nomin unch lvl E)
              | right _ => validated answer_step
              end
            | _ =>                                                  (* authority section only *)
              Choose 7 (fun sub =>
                match sub with
                | O =>                                              (* minimized and SOA/CNAME there: level++ *)
                  match inspectb (negb nomin && (0 <? lvl)%nat) with
                  | left E => rec depth nomin unch (pred lvl) n (ob_level depth nomin unch lvl E)
                  | right _ => Ret RResp
                  end
                | 1%nat => validated (Ret RResp)                   (* authority(): negative answer, denial validated *)
                | 2%nat => Ret RErr                                (* non-progressing referral *)
                | 3%nat =>                                         (* rs.level > nlevel: parent detection *)
                  match inspectb (negb nomin && (0 <? qmin)%nat) with
                  | left E => Choose Smax (fun n' => rec depth true true 0%nat n' (ob_parent depth nomin unch lvl qmin E))
                  | right _ => Ret RErr
                  end
                | 4%nat =>                                         (* cached delegation, other servers *)
                  match inspectb (1 <? depth)%nat with
                  | left E => Choose Smax (fun n' => Choose qmin (fun lvl' => rec (depth - 1)%nat nomin true lvl' n' (ob_descend depth nomin unch lvl lvl' E)))
                  | right _ => Ret RErr                            (* errMaxDepth *)
                  end
                | 5%nat =>                                         (* cached delegation, same servers *)
                  match inspectb (cached_loop_depth_penalty <? N.of_nat depth) with
                  | left E => Choose qmin (fun lvl' => rec (depth - N.to_nat cached_loop_depth_penalty)%nat nomin unch lvl' n (ob_penalty depth nomin unch lvl lvl' E))
                  | right _ => Ret RErr
                  end
                | _ =>                                             (* new delegation: validateDelegation first *)
                  validated (Choose Fmax (fun h =>
                    bind (ns_lookups nq nsl_cx true h) (fun stop =>
                      match stop with
                      | Some r => Ret r
                      | None =>
                        Choose 1 (fun has =>
                          match has with
                          | O =>                                   (* no reachable server *)
                            match inspectb (negb nomin && (0 <? lvl)%nat) with
                            | left E => rec depth nomin unch (pred lvl) n (ob_level depth nomin unch lvl E)
                            | right _ => Ret RErr
                            end
                          | _ =>
                            (* the detached IPv6 walk — not from inside a walk: `r.cfg.IPv6Access && ctx.Value(contextKeyV6Walk) == nil` *)
                            bind (if v6 && negb (cx_walk c) then Choose Fmax (fun h6 => ns_lookups nq0 cx_fresh false h6) else Ret None) (fun _ =>
                              match inspectb (1 <? depth)%nat with
                              | left E => Choose Smax (fun n' => Choose qmin (fun lvl' => rec (depth - 1)%nat nomin true lvl' n' (ob_descend depth nomin unch lvl lvl' E)))
                              | right _ => Ret RErr
                              end)
                          end)
                      end)))
                end)
            end)
        | LErrAttempt =>                                           (* handleLookupError *)
          match inspectb (negb nomin && (0 <? lvl)%nat) with
          | left E => rec depth true unch 0%nat n (ob_nomin depth nomin unch lvl E)
          | right _ => Ret RErr
          end
        | LErrOther =>
          match inspectb (negb nomin && (0 <? lvl)%nat) with
          | left E => rec depth true unch 0%nat n (ob_nomin depth nomin unch lvl E)
          | right _ => Ret RErr
          end
        | LErrFatal =>
          match inspectb (negb nomin && (0 <? lvl)%nat) with
          | left E => rec depth true unch 0%nat n (ob_nomin depth nomin unch lvl E)
          | right _ =>
            if cx_nsl c then Ret RErr
            else match inspectb unch with
                 | left E =>                                       (* ErrorCount reached 5: checkHosts *)
                   Choose Fmax (fun h =>
                     bind (ns_lookups nq nsl_cx false h) (fun _ =>
                       bind (if v6 then ns_lookups nq nsl_cx false h else Ret None) (fun _ =>
                         Choose 1 (fun grew =>
                           match grew with
                           | O => Ret RErr
                           | _ => Choose Smax (fun n' => rec depth nomin false lvl n' (ob_checked depth nomin unch lvl E))
                           end))))
                 | right _ => Ret RErr
                 end
          end
        end).

    Fixpoint resolve_acc (depth : nat) (nomin unch : bool) (lvl n : nat)
        (a : Acc rlt (rkey depth nomin unch lvl)) {struct a} : prog rres :=
      resolve_F depth nomin unch lvl n
        (fun d' nm' u' l' n' p => resolve_acc d' nm' u' l' n' (Acc_inv a p)).

    Definition resolve (depth : nat) (nomin unch : bool) (lvl n : nat) : prog rres :=
      resolve_acc depth nomin unch lvl n (rwf (rkey depth nomin unch lvl)).

    (* Resolver.Resolve as called by DNSHandler.handle: enforcement check before and after *)
    Definition handle : prog rres :=
      EnfErr (fun e =>
        match e with
        | ROk =>
          Choose qmin (fun lvl0 => Choose Smax (fun nroot =>
            bind (resolve maxdepth false true lvl0 nroot) (fun r =>
              EnfErr (fun e2 => match e2 with ROk => Ret r | e' => Ret (RWork e') end))))
        | e' => Ret (RWork e')
        end).

    (* Cache.additionalAnswer: up to cnameDepth sub-queries, each at the next chase nesting *)
    Fixpoint chase (left : nat) : prog reply :=
      match left with
      | O => Ret ReplyOk
      | S left' =>
        Choose 1 (fun more =>
          match more with
          | O => Ret ReplyOk                                       (* nothing (more) to chase *)
          | _ => bind (nq (mk_cx (cx_be c) (S (cx_chase c)) (cx_dname c) (cx_nsl c) (cx_walk c)))
                   (fun r => match r with
                             | ReplyWork e _ => Ret (ReplyWork e false)   (* SetRcodeWithEDE(msg, ...) on the chased message: no client OPT there *)
                             | ReplyLocal => Ret ReplyLocal
                             | _ => Choose 1 (fun stop => match stop with
                                                          | O => chase left'
                                                          | _ => Ret (ReplyServfail false)   (* loop detected *)
                                                          end)
                             end)
          end)
      end.

    Definition chase_gate : prog reply :=
      if (N.of_nat (cx_chase c) <? max_cname_chase_depth) then chase (N.to_nat cname_loop_depth) else Ret ReplyOk.

    (* ResponseWriter.WriteMsg on a SERVFAIL: the policy failure replaces it when the tree is over
       budget; otherwise it is recorded iff cacheableResolutionFailure *)
    Definition write_failure (local : bool) : prog reply :=
      EnfErr (fun e =>
        match e with
        | ROk => Ret (if local then ReplyLocal else ReplyServfail (negb (cx_be c)))
        | e' => Ret (ReplyWork e' true)
        end).

    (* the cache middleware around the resolver, miss path *)
    Definition pipeline_miss : prog reply :=
      bind handle (fun r =>
        match r with
        | RWork e => write_failure true
        | RMaxRec => write_failure true
        | RErr => Choose 1 (fun local => write_failure (match local with O => false | _ => true end))
        | RResp =>
          Choose 1 (fun sf =>
            match sf with
            | O => bind chase_gate (fun r' =>
                     match r' with
                     | ReplyOk => Ret ReplyOk
                     | ReplyLocal => write_failure true
                     | _ => write_failure false
                     end)
            | _ => write_failure false                             (* upstream SERVFAIL relayed *)
            end)
        end).

    (* hit path (handleCacheHit): the cached message is chased; a chase that ends in SERVFAIL while the
       tree is over budget is rebuilt from the client's request, as the miss path's writer does
       (fix ca465fd); anything else is written as it comes back *)
    Definition pipeline_hit : prog reply :=
      bind chase_gate (fun r =>
        match r with
        | ReplyOk => Ret ReplyOk
        | r' => EnfErr (fun e => match e with ROk => Ret r' | e' => Ret (ReplyWork e' true) end)
        end).

    Definition pipeline : prog reply :=
      Choose 1 (fun hit => match hit with O => pipeline_miss | _ => pipeline_hit end).
  End WithQueryer.

  (* --- DNSSEC validation sub-queries.  Resolver.subQuery: answered from the store, or one internal-query debit and
     a direct sub-resolution from the root hints with a fresh rs.depth (no pass through the sub-pipeline, no change of
     queryerDepthKey: an observer at the head of the sub-pipeline does not see it start; the ledger does), then the
     enforcement check.  What it fetched is validated in turn, so sub-queries nest.  The code has no counter for that
     nesting; it ends because a nested question is either about a name with fewer labels (a DS is signed by the parent,
     findDS walks towards the root, the root's keys are the anchor) or the very same question again, which the attempt
     guard admits [G] more times.  [vlab lab rep] = the validation of something whose signer names have at most [lab]
     labels, with [rep] repeats of the same question left: up to lab+1 fetches (findDS's label loop, the signer's DS, its
     DNSKEY), each validated by a strictly smaller validation. *)
  Variable Lmax : nat.         (* labels of a name: <= 127 on the wire *)
  Variable G : nat.            (* repeats of one question the attempt guard admits over all endpoints *)

  Section Validator.
    Variable nq nq0 : cx -> prog reply.

    Variable nest : nat.       (* queryerDepthKey of the run the validation belongs to: subQuery leaves it alone *)

    Definition subq (inner : cx -> prog vres) (c : cx) : prog vres :=
      Choose 1 (fun hit =>
        match hit with
        | O => Ret VOk                                             (* store.Get hit *)
        | _ =>
          DebitInt (cx_be c)
            (SubRun (mk_dl nest c)
              (Choose qmin (fun lvl0 => Choose Smax (fun nroot =>
                 bind (resolve nq nq0 inner c maxdepth false true lvl0 nroot) (fun r =>
                   SubEnd (EnfErr (fun e =>
                     match e with
                     | ROk => match r with
                              | RResp => Choose 1 (fun ok => match ok with O => Ret VOk | _ => Ret VFail end)
                              | RWork e' => Ret (VWork e')
                              | _ => Ret VFail
                              end
                     | e' => Ret (VWork e')
                     end)))))))
            (fun e => Ret (VWork e))
        end).

    Fixpoint subqs (inner : cx -> prog vres) (k : nat) (c : cx) : prog vres :=
      match k with
      | O => Ret VOk
      | S k' => bind (subq inner c) (fun v => match v with VOk => subqs inner k' c | other => Ret other end)
      end.

    Definition vfail : cx -> prog vres := fun _ => Ret VFail.
    (* one validation: up to lab+1 fetches; what each fetched is validated by [vsame] (the same question again) or by
       [vless] (a signer name with fewer labels) *)
    Definition vstep (vsame vless : cx -> prog vres) (lab : nat) (c : cx) : prog vres :=
      Choose (S lab) (fun k =>
        subqs (fun c' => Choose 1 (fun same => match same with O => vsame c' | _ => vless c' end)) k c).
    Fixpoint vrep_of (vless : cx -> prog vres) (lab rep : nat) {struct rep} : cx -> prog vres :=
      vstep (match rep with O => vfail | S r' => vrep_of vless lab r' end) vless lab.
    Fixpoint vlab (lab : nat) : nat -> cx -> prog vres :=
      vrep_of (match lab with O => vfail | S l' => vlab l' G end) lab.
  End Validator.

  (* pipelineQueryer.Query: [qleft] = maxQueryerRecursion - depth.  [gen]: generations of detached jobs that start
     within the observation window — a detached IPv6 walk starts defaultTimeout after the delegation that spawned it,
     on a fresh context, so its queries nest from 0 again; nothing in the code bounds the number of generations except
     the request tree's ledger (enforce mode) and the finiteness of what the adversary keeps delegating *)
  Fixpoint queryg (gen : nat) : nat -> cx -> prog reply :=
    fix query (qleft : nat) (c : cx) {struct qleft} : prog reply :=
      match qleft with
      | O => Ret ReplyLocal                                          (* ErrMaxRecursion *)
      | S q' =>
        let nq0 := match gen with
                   | O => fun _ : cx => Ret ReplyNone                (* starts after the window *)
                   | S g' => queryg g' (N.to_nat max_queryer_recursion)
                   end in
        DebitInt (cx_be c)
          (SubRun (mk_sl (N.to_nat max_queryer_recursion - q') c)
             (bind (pipeline (query q') nq0 (vlab (query q') nq0 (N.to_nat max_queryer_recursion - q') Lmax G) c) (fun r =>
                SubEnd (EnfErr (fun e => match e with ROk => Ret r | e' => Ret (ReplyWork e' true) end)))))
          (fun e => Ret (ReplyWork e true))
      end.

  Definition detached (gen : nat) : cx -> prog reply :=
    match gen with O => fun _ : cx => Ret ReplyNone | S g' => queryg g' (N.to_nat max_queryer_recursion) end.

  (* the client's own chain: not a Query — no debit, no nesting increment.  [clientg gen]: the construction for any
     number of levels of detached queryers (what the code was before 1508bf1, when a walk could start a walk) *)
  Definition clientg (gen : nat) (c : cx) : prog reply :=
    let nq := queryg gen (N.to_nat max_queryer_recursion) in
    pipeline nq (detached gen) (vlab nq (detached gen) O Lmax G) c.

  (* The code as it is (since 1508bf1): ONE level.  The client's tree uses [queryg 1]; the walks it starts run on
     [queryg 0], whose own "detached queryer" is the empty program — it is never reached, because every context inside a
     walk carries the mark (cx_fresh has it, every child context inherits it) and processDelegation tests it
     ([resolve_F]: v6 && negb (cx_walk c)).  Theorems walk_contexts_inherit_mark / detached_generations_at_most_one say so
     about every trace. *)
  Definition walk_levels : nat := 1.
  Definition client (c : cx) : prog reply := clientg walk_levels c.
End Skeleton.

(* ---- the forwarder (middleware/forwarder ServeDNS; failover's dispatch has the same BeforeAttempt): the configured
   upstreams one after the other; every transport attempt — the transparent TCP retry after a truncated UDP answer
   included — first passes dnsclient's BeforeAttempt = attempt guard, then the outbound debit.  A refused debit ends the
   request with the policy SERVFAIL built from the client's request; a refused guard tuple, an error or a
   SERVFAIL-class reply moves on to the next upstream; when all have failed the reply is a plain SERVFAIL. *)
Fixpoint forward (be : bool) (n : nat) : prog reply :=
  match n with
  | O => Ret (ReplyServfail false)
  | S n' =>
    Choose 1 (fun g =>
      match g with
      | S _ => forward be n'                                         (* the guard refuses this tuple *)
      | O =>
        DebitOut be
          (Exchange (Choose 2 (fun a =>
             match a with
             | O => Ret ReplyOk                                      (* a useful response *)
             | 1%nat =>                                              (* TC=1 over UDP: the same exchange again over TCP *)
               Choose 1 (fun g2 =>
                 match g2 with
                 | S _ => forward be n'
                 | O => DebitOut be
                          (Exchange (Choose 1 (fun b => match b with O => Ret ReplyOk | _ => forward be n' end)))
                          (fun e => Ret (ReplyWork e true))
                 end)
             | _ => forward be n'                                    (* error or SERVFAIL-class reply: next upstream *)
             end)))
          (fun e => Ret (ReplyWork e true))
      end)
  end.

Definition cx0 : cx := mk_cx false O O false false.

(* ---- generations of detached walks, read off an event sequence: the generation of a sub-run is the number of walk
   starts (a run whose context carries the walk mark, started from one whose context does not — or from nowhere) on its
   path from the client's own chain.  [gens_of g st tr]: the generation of every sub-run of [tr], in order, when the
   open run has generation [g] and walk mark [wk], the runs below it [st]. *)
Definition gen_step (parent_walk : bool) (g : nat) (ch : slabel) : nat :=
  if cx_walk (sl_cx ch) && negb parent_walk then S g else g.
Fixpoint gens_of (wk : bool) (g : nat) (st : list (bool * nat)) (tr : list event) : list nat :=
  match tr with
  | [] => []
  | EvX _ _ :: r => gens_of wk g st r
  | EvS l _ _ :: r => let g' := gen_step wk g l in g' :: gens_of (cx_walk (sl_cx l)) g' ((wk, g) :: st) r
  | EvE :: r => match st with (w, p) :: st' => gens_of w p st' r | [] => [] end
  end.
(* what the walk mark says about a sub-run's generation: 1 inside a walk, 0 outside *)
Definition mark_gen (l : slabel) : nat := b2n (cx_walk (sl_cx l)).
