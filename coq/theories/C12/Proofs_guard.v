(* C12 — the RFC 9520 attempt guard (Part C): the 8-slot + overflow store is a counter map, and no
   tuple is ever admitted more than maxResolutionAttempts times. *)
From Sdns Require Import Common.Base Gen.C12 C12.Model.
Open Scope N_scope.

Definition gcount (g : gstore) (h : N) : N :=
  match assoc_find h (g_slots g) with
  | Some c => c
  | None => match assoc_find h (g_over g) with Some c => c | None => 0 end
  end.

Lemma assoc_find_app_none : forall h l x c, assoc_find h l = None ->
  assoc_find h (l ++ [(x, c)]) = if x =? h then Some c else None.
Proof.
  induction l as [|[h' c'] l IH]; intros x c H; cbn in *; [reflexivity|].
  destruct (h' =? h); [discriminate|]. now apply IH.
Qed.

Lemma assoc_find_app_some : forall h l x c v, assoc_find h l = Some v -> assoc_find h (l ++ [(x, c)]) = Some v.
Proof.
  induction l as [|[h' c'] l IH]; intros x c v H; cbn in *; [discriminate|].
  destruct (h' =? h); [exact H|]. now apply IH.
Qed.

Lemma assoc_bump_same : forall h l c, assoc_find h l = Some c -> assoc_find h (assoc_bump h l) = Some (c + 1).
Proof.
  induction l as [|[h' c'] l IH]; intros c H; cbn in *; [discriminate|].
  destruct (h' =? h) eqn:E; cbn; rewrite E; [inversion H; reflexivity|now apply IH].
Qed.

Lemma assoc_bump_other : forall h h' l, h' <> h -> assoc_find h' (assoc_bump h l) = assoc_find h' l.
Proof.
  induction l as [|[x c] l IH]; intros Hn; cbn; [reflexivity|].
  destruct (x =? h) eqn:E; cbn.
  - apply N.eqb_eq in E; subst. destruct (N.eqb_spec h h'); [congruence|reflexivity].
  - destruct (x =? h'); [reflexivity|now apply IH].
Qed.

Lemma assoc_bump_none : forall h l, assoc_find h l = None -> assoc_bump h l = l.
Proof.
  induction l as [|[x c] l IH]; intros H; cbn in *; [reflexivity|].
  destruct (x =? h); [discriminate|]. now rewrite IH.
Qed.

(* one begin: admitted iff the tuple's count is below the ceiling; the count goes up by one iff
   admitted; no other tuple is touched *)
Lemma gbegin_spec : forall g h,
  snd (gbegin g h) = (gcount g h <? max_resolution_attempts) /\
  gcount (fst (gbegin g h)) h = gcount g h + (if snd (gbegin g h) then 1 else 0) /\
  (forall h', h' <> h -> gcount (fst (gbegin g h)) h' = gcount g h').
Proof.
  intros g h. unfold gbegin, gcount.
  destruct (assoc_find h (g_slots g)) as [c|] eqn:Es.
  - destruct (max_resolution_attempts <=? c) eqn:El; cbn [fst snd g_slots g_over].
    + rewrite Es. repeat split; try lia.
      all: apply N.leb_le in El; symmetry; apply N.ltb_ge; exact El.
    + rewrite (assoc_bump_same _ _ _ Es). apply N.leb_gt in El. repeat split.
      * symmetry. now apply N.ltb_lt.
      * intros h' Hn. now rewrite (assoc_bump_other h h' _ Hn).
  - destruct (assoc_find h (g_over g)) as [c|] eqn:Eo.
    + destruct (max_resolution_attempts <=? c) eqn:El; cbn [fst snd g_slots g_over].
      * rewrite Es, Eo. repeat split; try lia.
        all: apply N.leb_le in El; symmetry; apply N.ltb_ge; exact El.
      * rewrite Es, (assoc_bump_same _ _ _ Eo). apply N.leb_gt in El. repeat split.
        -- symmetry. now apply N.ltb_lt.
        -- intros h' Hn. now rewrite (assoc_bump_other h h' _ Hn).
    + destruct (N.of_nat (length (g_slots g)) <? guard_slots); cbn [fst snd g_slots g_over].
      * rewrite (assoc_find_app_none _ _ _ _ Es), N.eqb_refl. repeat split.
        intros h' Hn. destruct (assoc_find h' (g_slots g)) as [v|] eqn:E'.
        -- now rewrite (assoc_find_app_some _ _ _ _ _ E').
        -- rewrite (assoc_find_app_none _ _ _ _ E'). destruct (N.eqb_spec h h'); [congruence|reflexivity].
      * rewrite Es. cbn [assoc_find]. rewrite N.eqb_refl. repeat split.
        intros h' Hn. destruct (N.eqb_spec h h'); [congruence|reflexivity].
Qed.

Fixpoint admitted (h : N) (hs : list N) (bs : list bool) : N :=
  match hs, bs with
  | x :: r, b :: rb => (if (x =? h) && b then 1 else 0) + admitted h r rb
  | _, _ => 0
  end.

Lemma grun_counts : forall hs g h,
  gcount (fst (grun g hs)) h = gcount g h + admitted h hs (snd (grun g hs)) /\ length (snd (grun g hs)) = length hs.
Proof.
  induction hs as [|x hs IH]; intros g h; cbn; [split; [lia|reflexivity]|].
  destruct (gbegin g x) as [g1 b] eqn:Eb.
  destruct (grun g1 hs) as [g2 bs] eqn:Er. cbn.
  specialize (IH g1 h). rewrite Er in IH. cbn in IH. destruct IH as [IH1 IH2].
  pose proof (gbegin_spec g x) as (Hb & Hsame & Hoth). rewrite Eb in *. cbn in *.
  split; [|now rewrite IH2].
  destruct (N.eqb_spec x h) as [->|Hn]; cbn.
  - rewrite IH1, Hsame. destruct b; lia.
  - rewrite IH1, (Hoth h) by congruence. lia.
Qed.

Definition gbounded (g : gstore) : Prop := forall h, gcount g h <= max_resolution_attempts.

Lemma gbegin_bounded : forall g h, gbounded g -> gbounded (fst (gbegin g h)).
Proof.
  intros g h Hb h'. pose proof (gbegin_spec g h) as (Hs & Hsame & Hoth).
  destruct (N.eq_dec h' h) as [->|Hn].
  - rewrite Hsame, Hs. destruct (gcount g h <? max_resolution_attempts) eqn:E.
    + apply N.ltb_lt in E. lia.
    + specialize (Hb h). lia.
  - rewrite (Hoth _ Hn). apply Hb.
Qed.

Lemma grun_bounded : forall hs g, gbounded g -> gbounded (fst (grun g hs)).
Proof.
  induction hs as [|x hs IH]; intros g Hb; cbn; [exact Hb|].
  destruct (gbegin g x) as [g1 b] eqn:Eb. destruct (grun g1 hs) as [g2 bs] eqn:Er. cbn.
  specialize (IH g1). rewrite Er in IH. apply IH.
  pose proof (gbegin_bounded g x Hb) as H. now rewrite Eb in H.
Qed.

Lemma gempty_bounded : gbounded gempty.
Proof. intros h. unfold gcount, gempty. cbn. lia. Qed.

(* for every sequence of attempts of one request tree and every tuple: at most
   maxResolutionAttempts of them are admitted *)
Lemma attempts_capped : forall hs h, admitted h hs (snd (grun gempty hs)) <= max_resolution_attempts.
Proof.
  intros hs h. pose proof (grun_counts hs gempty h) as [Hc _].
  pose proof (grun_bounded hs gempty gempty_bounded h) as Hb.
  unfold gcount at 2 in Hc. cbn in Hc. lia.
Qed.

(* ... and exactly the first maxResolutionAttempts are: an attempt is refused iff the tuple has
   already been admitted that many times (so tuples never interfere with each other, whether they
   sit in a slot or in the overflow map) *)
Lemma attempt_admitted_iff : forall pre h,
  snd (gbegin (fst (grun gempty pre)) h) = (admitted h pre (snd (grun gempty pre)) <? max_resolution_attempts).
Proof.
  intros pre h. pose proof (gbegin_spec (fst (grun gempty pre)) h) as (Hs & _).
  rewrite Hs. pose proof (grun_counts pre gempty h) as [Hc _]. rewrite Hc.
  unfold gcount at 1. cbn. reflexivity.
Qed.
