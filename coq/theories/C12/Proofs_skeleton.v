(* C12 — the skeleton programs are guarded (every exchange / sub-run sits behind its debit), have
   a closed-form exchange bound, and turn a latched rejection into the policy failure. *)
From Coq Require Import Relations.
From Sdns Require Import Common.Base Gen.C12 C12.Model C12.Skeleton C12.Proofs_ledger C12.Proofs_run.
Open Scope nat_scope.

(* ---------------------------------------------------------------- exchange *)

Definition kguard (ok : option (nat -> prog xout)) : Prop :=
  match ok with Some k => forall l, guarded (k l) | None => True end.
Definition kcost (ok : option (nat -> prog xout)) (ck : nat) : Prop :=
  match ok with Some k => forall l, costs (k l) (l + ck) | None => True end.

Lemma xlayer_guarded : forall rs tk fk be left, kguard rs -> kguard tk -> kguard fk -> guarded (xlayer rs tk fk be left).
Proof.
  intros rs tk fk be left Hr Ht Hf. induction left as [|l' IH]; cbn.
  - apply g_out_x; [|intros; apply g_ret]. apply g_choose. intros [|[|[|i]]] _; try apply g_ret.
    + destruct tk; [apply Ht|apply g_ret].
    + destruct fk; [apply Hf|apply g_ret].
  - apply g_out_x; [|intros; apply g_ret]. apply g_choose. intros [|[|[|i]]] _; try apply g_ret.
    + destruct l'; [destruct rs; [apply Hr|exact IH]|exact IH].
    + destruct tk; [apply Ht|apply g_ret].
    + destruct fk; [apply Hf|apply g_ret].
Qed.

Lemma xlayer_costs : forall rs tk fk be ck left, kcost rs ck -> kcost tk ck -> kcost fk ck ->
  costs (xlayer rs tk fk be left) (left + 1 + ck).
Proof.
  intros rs tk fk be ck left Hr Ht Hf. induction left as [|l' IH]; cbn.
  - apply c_out; [|intros; apply c_ret]. apply c_weaken with (n := S ck); [|lia]. apply c_exch.
    apply c_choose. intros [|[|[|i]]] _; try apply c_ret.
    + destruct tk; [apply c_weaken with (n := 0 + ck); [apply Ht|lia]|apply c_ret].
    + destruct fk; [apply c_weaken with (n := 0 + ck); [apply Hf|lia]|apply c_ret].
  - apply c_out; [|intros; apply c_ret]. apply c_weaken with (n := S (S l' + ck)); [|lia]. apply c_exch.
    apply c_choose. intros [|[|[|i]]] _; try apply c_ret.
    + destruct l'.
      * destruct rs; [apply c_weaken with (n := 0 + ck); [apply Hr|lia]|apply c_weaken with (n := 0 + 1 + ck); [exact IH|lia]].
      * apply c_weaken with (n := S l' + 1 + ck); [exact IH|lia].
    + destruct tk; [apply Ht|apply c_ret].
    + destruct fk; [apply Hf|apply c_ret].
Qed.

Definition xmax : nat := N.to_nat exchange_max_retries + 3.

Lemma exchange_guarded : forall be, guarded (exchange be).
Proof.
  intros be. unfold exchange, x_udp_opt. apply xlayer_guarded; cbn; intros l; unfold x_tcp_opt, x_udp_noopt;
    apply xlayer_guarded; cbn; auto; intros l'; unfold x_tcp_noopt; apply xlayer_guarded; cbn; auto.
Qed.

Lemma exchange_costs : forall be, costs (exchange be) xmax.
Proof.
  intros be. unfold exchange, x_udp_opt, xmax.
  assert (H0 : forall l, costs (x_tcp_noopt be l) (l + 1)).
  { intros l. unfold x_tcp_noopt. apply c_weaken with (n := l + 1 + 0); [apply xlayer_costs; cbn; auto|lia]. }
  assert (H1 : forall l, costs (x_tcp_opt be l) (l + 2)).
  { intros l. unfold x_tcp_opt. apply c_weaken with (n := l + 1 + 1); [apply xlayer_costs; cbn; auto|lia]. }
  assert (H2 : forall l, costs (x_udp_noopt be l) (l + 2)).
  { intros l. unfold x_udp_noopt. apply c_weaken with (n := l + 1 + 1); [apply xlayer_costs; cbn; auto|lia]. }
  apply c_weaken with (n := N.to_nat exchange_max_retries + 1 + 2); [apply xlayer_costs; cbn; auto|lia].
Qed.

(* ---------------------------------------------------------------- lookup *)

Lemma stragglers_guarded : forall be n, guarded (stragglers be n).
Proof.
  intros be n. induction n as [|n IH]; cbn; [apply g_ret|].
  apply g_choose. intros [|i] _; [apply g_ret|]. apply guarded_bind; [apply exchange_guarded|auto].
Qed.

Lemma stragglers_costs : forall be n, costs (stragglers be n) (n * xmax).
Proof.
  intros be n. induction n as [|n IH]; cbn [stragglers]; [apply c_ret|].
  apply c_choose. intros [|i] _; [apply c_ret|].
  apply c_weaken with (n := xmax + n * xmax); [|lia]. apply costs_bind; [apply exchange_costs|auto].
Qed.

Lemma lookup_guarded : forall be n, guarded (lookup be n).
Proof.
  intros be n. induction n as [|n IH]; cbn.
  - apply g_choose. intros [|[|[|i]]] _; apply g_ret.
  - apply guarded_bind; [apply exchange_guarded|]. intros [| |]; try apply g_ret; [|exact IH].
    apply g_choose. intros [|i] _; [|exact IH]. apply guarded_bind; [apply stragglers_guarded|intros; apply g_ret].
Qed.

Lemma lookup_costs : forall be n, costs (lookup be n) (n * xmax).
Proof.
  intros be n. induction n as [|n IH]; cbn [lookup].
  - apply c_choose. intros [|[|[|i]]] _; apply c_ret.
  - apply c_weaken with (n := xmax + n * xmax); [|lia]. apply costs_bind; [apply exchange_costs|].
    intros [| |]; try apply c_ret; [|exact IH].
    apply c_choose. intros [|i] _; [|exact IH].
    apply c_weaken with (n := n * xmax + 0); [|lia]. apply costs_bind; [apply stragglers_costs|intros; apply c_ret].
Qed.

(* ---------------------------------------------------------------- resolve and the rest, given the nested queryer *)

Section WithQueryer.
  Variable maxdepth qmin : nat.
  Variable v6 : bool.
  Variable Smax Fmax : nat.
  Variable nq : cx -> prog reply.
  Variable Q : nat.                       (* exchange bound of one nested query *)
  Hypothesis nq_guarded : forall cc, guarded (nq cc).
  Hypothesis nq_costs : forall cc, costs (nq cc) Q.

  Lemma ns_lookups_guarded : forall cc s h, guarded (ns_lookups nq cc s h).
  Proof.
    intros cc s h. induction h as [|h IH]; cbn; [apply g_ret|].
    apply guarded_bind; [apply nq_guarded|]. intros r. destruct r; try exact IH. destruct s; [apply g_ret|exact IH].
  Qed.

  Lemma ns_lookups_costs : forall cc s h, costs (ns_lookups nq cc s h) (h * Q).
  Proof.
    intros cc s h. induction h as [|h IH]; cbn [ns_lookups]; [apply c_ret|].
    apply c_weaken with (n := Q + h * Q); [|lia]. apply costs_bind; [apply nq_costs|].
    intros r. destruct r; try exact IH. destruct s; [apply c_ret|exact IH].
  Qed.

  Lemma answer_step_guarded : forall c, guarded (answer_step nq c).
  Proof.
    intros c. unfold answer_step. apply g_choose. intros [|i] _; [apply g_ret|].
    destruct (_ <? _)%N; [|apply g_ret]. apply guarded_bind; [apply nq_guarded|]. intros []; apply g_ret.
  Qed.

  Lemma answer_step_costs : forall c, costs (answer_step nq c) Q.
  Proof.
    intros c. unfold answer_step. apply c_choose. intros [|i] _; [apply c_ret|].
    destruct (_ <? _)%N; [|apply c_ret]. apply c_weaken with (n := Q + 0); [|lia].
    apply costs_bind; [apply nq_costs|]. intros []; apply c_ret.
  Qed.

  (* the lexicographic measure as one number; W = one more than the minimisation steps *)
  Definition W : nat := S qmin.
  Definition rank (depth : nat) (nomin unch : bool) (lvl : nat) : nat :=
    depth * (4 * W) + b2n (negb nomin) * (2 * W) + b2n unch * W + lvl.

  (* one round of resolve: a lookup over at most Smax+1 servers, NS-address sub-queries for at most
     Fmax hosts in each family (or a DNAME follow-up) *)
  Definition round_cost : nat := S Smax * xmax + (2 * Fmax + 1) * Q.

  (* the guard [E] also occurs inside the program (it is the argument of the ob_* lemma), so work on a copy *)
  Ltac dupE := match goal with E : _ = true |- _ => let E' := fresh "E" in pose proof E as E' end.
  Ltac brk := dupE;
    repeat match goal with
    | E : (_ && _)%bool = true |- _ => apply Bool.andb_true_iff in E; destruct E
    | E : negb _ = true |- _ => apply Bool.negb_true_iff in E; subst
    | E : Nat.ltb _ _ = true |- _ => apply Nat.ltb_lt in E
    | E : N.ltb _ _ = true |- _ => apply N.ltb_lt in E
    end.

  (* one unfolding of [resolve_acc]: both sides are convertible once the accessibility proof is a
     constructor — no functional extensionality *)
  Lemma resolve_acc_eq : forall c depth nomin unch lvl n a,
    resolve_acc qmin v6 Smax Fmax nq c depth nomin unch lvl n a =
    resolve_F qmin v6 Smax Fmax nq c depth nomin unch lvl n
      (fun d' nm' u' l' n' p => resolve_acc qmin v6 Smax Fmax nq c d' nm' u' l' n' (Acc_inv a p)).
  Proof. intros. destruct a. reflexivity. Qed.

  Lemma resolve_guarded : forall c r depth nomin unch lvl n a,
    rank depth nomin unch lvl <= r -> lvl <= qmin ->
    guarded (resolve_acc qmin v6 Smax Fmax nq c depth nomin unch lvl n a).
  Proof.
    intros c r. induction r as [r IH] using lt_wf_ind. intros depth nomin unch lvl n a Hr Hl.
    assert (REC : forall d' nm' u' l' n' a', rank d' nm' u' l' < rank depth nomin unch lvl -> l' <= qmin ->
                  guarded (resolve_acc qmin v6 Smax Fmax nq c d' nm' u' l' n' a')).
    { intros. eapply (IH (rank d' nm' u' l')); [lia|reflexivity|assumption]. }
    clear IH. rewrite resolve_acc_eq. unfold resolve_F.
    assert (Hp : cached_loop_depth_penalty = 10%N) by reflexivity.
    apply guarded_bind; [apply lookup_guarded|]. intros [ | | | | ].
    - (* LResp *)
      apply g_choose. intros [|[|cls]] _.
      + destruct (inspectb _) as [E|E]; [|apply g_ret]. brk. apply REC; unfold rank, W in *; cbn [b2n negb]; lia.
      + destruct (inspectb _) as [E|E]; [|apply answer_step_guarded]. brk. apply REC; unfold rank, W in *; cbn [b2n negb]; lia.
      + apply g_choose. intros [|[|[|[|[|[|sub]]]]]] _; try apply g_ret.
        * destruct (inspectb _) as [E|E]; [|apply g_ret]. brk. apply REC; unfold rank, W in *; cbn [b2n negb]; lia.
        * destruct (inspectb _) as [E|E]; [|apply g_ret]. brk. apply g_choose. intros n' _.
          apply REC; [|lia]. unfold rank, W in *; cbn [b2n negb]. destruct unch; cbn [b2n]; lia.
        * destruct (inspectb _) as [E|E]; [|apply g_ret]. brk. apply g_choose. intros n' _. apply g_choose. intros l' Hl'.
          apply REC; [|lia]. unfold rank, W in *. destruct depth as [|d]; [lia|]. cbn [Nat.sub]. rewrite Nat.sub_0_r.
          destruct nomin, unch; cbn [b2n negb]; lia.
        * destruct (inspectb _) as [E|E]; [|apply g_ret]. brk. apply g_choose. intros l' Hl'.
          apply REC; [|lia]. unfold rank, W in *. rewrite Hp in *.
          replace depth with ((depth - 10) + 10) at 2 by lia. change (N.to_nat 10) with 10.
          destruct nomin, unch; cbn [b2n negb]; lia.
        * apply g_choose. intros h _. apply guarded_bind; [apply ns_lookups_guarded|]. intros [rr|]; [apply g_ret|].
          apply g_choose. intros [|has] _.
          -- destruct (inspectb _) as [E|E]; [|apply g_ret]. brk. apply REC; unfold rank, W in *; cbn [b2n negb]; lia.
          -- apply guarded_bind.
             ++ destruct v6; [|apply g_ret]. apply g_choose. intros h6 _. apply ns_lookups_guarded.
             ++ intros _. destruct (inspectb _) as [E|E]; [|apply g_ret]. brk. apply g_choose. intros n' _. apply g_choose. intros l' Hl'.
                apply REC; [|lia]. unfold rank, W in *. destruct depth as [|d]; [lia|]. cbn [Nat.sub]. rewrite Nat.sub_0_r.
                destruct nomin, unch; cbn [b2n negb]; lia.
    - apply g_ret.
    - destruct (inspectb _) as [E|E]; [|apply g_ret]. brk. apply REC; [|lia]. unfold rank, W in *; cbn [b2n negb]; lia.
    - destruct (inspectb _) as [E|E].
      + brk. apply REC; [|lia]. unfold rank, W in *; cbn [b2n negb]; lia.
      + destruct (cx_nsl c); [apply g_ret|]. destruct (inspectb unch) as [E'|E']; [|apply g_ret]. subst unch.
        apply g_choose. intros h _. apply guarded_bind; [apply ns_lookups_guarded|]. intros _.
        apply guarded_bind; [destruct v6; [apply ns_lookups_guarded|apply g_ret]|]. intros _.
        apply g_choose. intros [|grew] _; [apply g_ret|]. apply g_choose. intros n' _.
        apply REC; [|lia]. unfold rank, W in *; cbn [b2n negb]; lia.
    - destruct (inspectb _) as [E|E]; [|apply g_ret]. brk. apply REC; [|lia]. unfold rank, W in *; cbn [b2n negb]; lia.
  Qed.

  Lemma resolve_costs : forall c r depth nomin unch lvl n a,
    rank depth nomin unch lvl <= r -> lvl <= qmin -> n <= Smax ->
    costs (resolve_acc qmin v6 Smax Fmax nq c depth nomin unch lvl n a) (S r * round_cost).
  Proof.
    intros c r. induction r as [r IH] using lt_wf_ind. intros depth nomin unch lvl n a Hr Hl Hn.
    assert (REC : forall d' nm' u' l' n' a', rank d' nm' u' l' < rank depth nomin unch lvl -> l' <= qmin -> n' <= Smax ->
                  costs (resolve_acc qmin v6 Smax Fmax nq c d' nm' u' l' n' a') (r * round_cost)).
    { intros d' nm' u' l' n' a' Hlt Hl' Hn'.
      apply c_weaken with (n := S (rank d' nm' u' l') * round_cost); [|apply Nat.mul_le_mono_r; lia].
      eapply (IH (rank d' nm' u' l')); [lia|reflexivity|assumption|assumption]. }
    clear IH. rewrite resolve_acc_eq. unfold resolve_F.
    assert (Hp : cached_loop_depth_penalty = 10%N) by reflexivity.
    (* split the budget: this round's lookup, this round's sub-queries, the rest *)
    replace (S r * round_cost) with (S n * xmax + ((S Smax - S n) * xmax + (2 * Fmax + 1) * Q + r * round_cost))
      by (unfold round_cost; nia).
    apply costs_bind; [apply lookup_costs|].
    set (rest := r * round_cost).
    assert (RECw : forall d' nm' u' l' n' a' extra, rank d' nm' u' l' < rank depth nomin unch lvl -> l' <= qmin -> n' <= Smax ->
                   costs (resolve_acc qmin v6 Smax Fmax nq c d' nm' u' l' n' a') (extra + rest)).
    { intros. eapply c_weaken; [apply REC; eassumption|lia]. }
    intros [ | | | | ].
    - apply c_choose. intros [|[|cls]] _.
      + destruct (inspectb _) as [E|E]; [|apply c_ret]. brk. apply RECw; unfold rank, W in *; cbn [b2n negb]; lia.
      + destruct (inspectb _) as [E|E].
        * brk. apply RECw; unfold rank, W in *; cbn [b2n negb]; lia.
        * eapply c_weaken; [apply answer_step_costs|nia].
      + apply c_choose. intros [|[|[|[|[|[|sub]]]]]] _; try apply c_ret.
        * destruct (inspectb _) as [E|E]; [|apply c_ret]. brk. apply RECw; unfold rank, W in *; cbn [b2n negb]; lia.
        * destruct (inspectb _) as [E|E]; [|apply c_ret]. brk. apply c_choose. intros n' Hn'.
          apply RECw; [|lia|lia]. unfold rank, W in *; cbn [b2n negb]. destruct unch; cbn [b2n]; lia.
        * destruct (inspectb _) as [E|E]; [|apply c_ret]. brk. apply c_choose. intros n' Hn'. apply c_choose. intros l' Hl'.
          apply RECw; [|lia|lia]. unfold rank, W in *. destruct depth as [|d]; [lia|]. cbn [Nat.sub]. rewrite Nat.sub_0_r.
          destruct nomin, unch; cbn [b2n negb]; lia.
        * destruct (inspectb _) as [E|E]; [|apply c_ret]. brk. apply c_choose. intros l' Hl'.
          apply RECw; [|lia|lia]. unfold rank, W in *. rewrite Hp in *.
          replace depth with ((depth - 10) + 10) at 2 by lia. change (N.to_nat 10) with 10.
          destruct nomin, unch; cbn [b2n negb]; lia.
        * apply c_choose. intros h Hh.
          replace ((S Smax - S n) * xmax + (2 * Fmax + 1) * Q + rest) with (h * Q + ((S Smax - S n) * xmax + (2 * Fmax + 1 - h) * Q + rest)) by nia.
          apply costs_bind; [apply ns_lookups_costs|]. intros [rr|]; [apply c_ret|].
          apply c_choose. intros [|has] _.
          -- destruct (inspectb _) as [E|E]; [|apply c_ret]. brk. apply RECw; unfold rank, W in *; cbn [b2n negb]; lia.
          -- replace ((S Smax - S n) * xmax + (2 * Fmax + 1 - h) * Q + rest) with (Fmax * Q + ((S Smax - S n) * xmax + (Fmax + 1 - h) * Q + rest)) by nia.
             apply costs_bind.
             ++ destruct v6; [|apply c_ret]. apply c_choose. intros h6 Hh6.
                eapply c_weaken; [apply ns_lookups_costs|]. apply Nat.mul_le_mono_r. exact Hh6.
             ++ intros _. destruct (inspectb _) as [E|E]; [|apply c_ret]. brk. apply c_choose. intros n' Hn'. apply c_choose. intros l' Hl'.
                apply RECw; [|lia|lia]. unfold rank, W in *. destruct depth as [|d]; [lia|]. cbn [Nat.sub]. rewrite Nat.sub_0_r.
                destruct nomin, unch; cbn [b2n negb]; lia.
    - apply c_ret.
    - destruct (inspectb _) as [E|E]; [|apply c_ret]. brk. apply RECw; [|lia|lia]. unfold rank, W in *; cbn [b2n negb]; lia.
    - destruct (inspectb _) as [E|E].
      + brk. apply RECw; [|lia|lia]. unfold rank, W in *; cbn [b2n negb]; lia.
      + destruct (cx_nsl c); [apply c_ret|]. destruct (inspectb unch) as [E'|E']; [|apply c_ret]. subst unch.
        apply c_choose. intros h Hh.
        replace ((S Smax - S n) * xmax + (2 * Fmax + 1) * Q + rest) with (h * Q + (h * Q + ((S Smax - S n) * xmax + (2 * Fmax + 1 - 2 * h) * Q + rest))) by nia.
        apply costs_bind; [apply ns_lookups_costs|]. intros _.
        apply costs_bind; [destruct v6; [apply ns_lookups_costs|apply c_ret]|]. intros _.
        apply c_choose. intros [|grew] _; [apply c_ret|]. apply c_choose. intros n' Hn'.
        apply RECw; [|lia|lia]. unfold rank, W in *; cbn [b2n negb]; lia.
    - destruct (inspectb _) as [E|E]; [|apply c_ret]. brk. apply RECw; [|lia|lia]. unfold rank, W in *; cbn [b2n negb]; lia.
  Qed.

  (* rounds of one Resolve call *)
  Definition rounds : nat := S (rank maxdepth false true qmin).
  Definition handle_cost : nat := rounds * round_cost.

  Lemma handle_guarded : forall c, guarded (handle maxdepth qmin v6 Smax Fmax nq c).
  Proof.
    intros c. unfold handle. apply g_enf. intros []; try apply g_ret.
    apply g_choose. intros l0 Hl0. apply g_choose. intros n0 _.
    apply guarded_bind; [unfold resolve; eapply resolve_guarded; [reflexivity|exact Hl0]|].
    intros r. apply g_enf. intros []; apply g_ret.
  Qed.

  Lemma handle_costs : forall c, costs (handle maxdepth qmin v6 Smax Fmax nq c) handle_cost.
  Proof.
    intros c. unfold handle. apply c_enf. intros []; try apply c_ret.
    apply c_choose. intros l0 Hl0. apply c_choose. intros n0 Hn0.
    apply c_weaken with (n := handle_cost + 0); [|lia]. apply costs_bind.
    - unfold handle_cost, rounds, resolve. apply resolve_costs; [|exact Hl0|exact Hn0]. unfold rank. lia.
    - intros r. apply c_enf. intros []; apply c_ret.
  Qed.

  Lemma chase_guarded : forall c left, guarded (chase nq c left).
  Proof.
    intros c left. induction left as [|l IH]; cbn; [apply g_ret|].
    apply g_choose. intros [|m] _; [apply g_ret|]. apply guarded_bind; [apply nq_guarded|].
    intros []; try apply g_ret; apply g_choose; intros [|s] _; try apply g_ret; exact IH.
  Qed.

  Lemma chase_costs : forall c left, costs (chase nq c left) (left * Q).
  Proof.
    intros c left. induction left as [|l IH]; cbn [chase]; [apply c_ret|].
    apply c_choose. intros [|m] _; [apply c_ret|].
    apply c_weaken with (n := Q + l * Q); [|lia]. apply costs_bind; [apply nq_costs|].
    intros []; try apply c_ret; apply c_choose; intros [|s] _; try apply c_ret; exact IH.
  Qed.

  Definition chase_cost : nat := N.to_nat cname_loop_depth * Q.

  Lemma chase_gate_guarded : forall c, guarded (chase_gate nq c).
  Proof. intros c. unfold chase_gate. destruct (_ <? _)%N; [apply chase_guarded|apply g_ret]. Qed.
  Lemma chase_gate_costs : forall c, costs (chase_gate nq c) chase_cost.
  Proof. intros c. unfold chase_gate. destruct (_ <? _)%N; [apply chase_costs|apply c_ret]. Qed.

  Lemma write_failure_guarded : forall c b, guarded (write_failure c b).
  Proof. intros. unfold write_failure. apply g_enf. intros []; apply g_ret. Qed.
  Lemma write_failure_costs : forall c b n, costs (write_failure c b) n.
  Proof. intros. unfold write_failure. apply c_enf. intros []; apply c_ret. Qed.

  Definition pipeline_cost : nat := handle_cost + chase_cost.

  Lemma pipeline_hit_guarded : forall c, guarded (pipeline_hit nq c).
  Proof.
    intros c. unfold pipeline_hit. apply guarded_bind; [apply chase_gate_guarded|].
    intros []; try apply g_ret; apply g_enf; intros []; apply g_ret.
  Qed.
  Lemma pipeline_hit_costs : forall c, costs (pipeline_hit nq c) chase_cost.
  Proof.
    intros c. unfold pipeline_hit. apply c_weaken with (n := chase_cost + 0); [|lia].
    apply costs_bind; [apply chase_gate_costs|].
    intros []; try apply c_ret; apply c_enf; intros []; apply c_ret.
  Qed.

  Lemma pipeline_guarded : forall c, guarded (pipeline maxdepth qmin v6 Smax Fmax nq c).
  Proof.
    intros c. unfold pipeline. apply g_choose. intros [|hit] _; [|apply pipeline_hit_guarded].
    unfold pipeline_miss. apply guarded_bind; [apply handle_guarded|].
    intros []; try apply write_failure_guarded.
    - apply g_choose. intros [|sf] _; [|apply write_failure_guarded].
      apply guarded_bind; [apply chase_gate_guarded|]. intros []; try apply write_failure_guarded. apply g_ret.
    - apply g_choose. intros i _. apply write_failure_guarded.
  Qed.

  Lemma pipeline_costs : forall c, costs (pipeline maxdepth qmin v6 Smax Fmax nq c) pipeline_cost.
  Proof.
    intros c. unfold pipeline, pipeline_cost. apply c_choose. intros [|hit] _.
    - unfold pipeline_miss. apply costs_bind; [apply handle_costs|].
      intros []; try apply write_failure_costs.
      + apply c_choose. intros [|sf] _; [|apply write_failure_costs].
        apply c_weaken with (n := chase_cost + 0); [|lia].
        apply costs_bind; [apply chase_gate_costs|]. intros []; try apply write_failure_costs. apply c_ret.
      + apply c_choose. intros i _. apply write_failure_costs.
    - eapply c_weaken; [apply pipeline_hit_costs|lia].
  Qed.
End WithQueryer.

(* ---------------------------------------------------------------- Query nesting and the closed form *)

Section Closed.
  Variable maxdepth qmin : nat.
  Variable v6 : bool.
  Variable Smax Fmax : nat.

  (* per pipeline run: exchanges it performs itself, and nested queries it can start *)
  Definition A_cost : nat := rounds maxdepth qmin * (S Smax * xmax).
  Definition B_fan : nat := rounds maxdepth qmin * (2 * Fmax + 1) + N.to_nat cname_loop_depth.

  Fixpoint geom (b q : nat) : nat := match q with O => 0 | S q' => 1 + b * geom b q' end.

  Lemma pipeline_cost_split : forall Qn, pipeline_cost maxdepth qmin Smax Fmax Qn = A_cost + B_fan * Qn.
  Proof. intros Qn. unfold pipeline_cost, handle_cost, chase_cost, round_cost, A_cost, B_fan. nia. Qed.

  Lemma query_ok : forall q c,
    guarded (query maxdepth qmin v6 Smax Fmax q c) /\ costs (query maxdepth qmin v6 Smax Fmax q c) (A_cost * geom B_fan q).
  Proof.
    induction q as [|q IH]; intros c; cbn [query]; [split; [apply g_ret|apply c_ret]|].
    assert (IHg : forall cc, guarded (query maxdepth qmin v6 Smax Fmax q cc)) by (intros; apply IH).
    assert (IHc : forall cc, costs (query maxdepth qmin v6 Smax Fmax q cc) (A_cost * geom B_fan q)) by (intros; apply IH).
    split.
    - apply g_int_s; [|intros; apply g_ret].
      apply guarded_bind; [eapply pipeline_guarded; eassumption|]. intros r. apply g_end. apply g_enf. intros []; apply g_ret.
    - apply c_int; [|intros; apply c_ret]. apply c_sub.
      apply c_weaken with (n := pipeline_cost maxdepth qmin Smax Fmax (A_cost * geom B_fan q) + 0).
      + apply costs_bind; [apply pipeline_costs; assumption|]. intros r. apply c_end. apply c_enf. intros []; apply c_ret.
      + rewrite pipeline_cost_split. cbn [geom]. nia.
  Qed.

  Lemma query_guarded : forall q c, guarded (query maxdepth qmin v6 Smax Fmax q c).
  Proof. intros. apply query_ok. Qed.
  Lemma query_costs : forall q c, costs (query maxdepth qmin v6 Smax Fmax q c) (A_cost * geom B_fan q).
  Proof. intros. apply query_ok. Qed.

  Definition work_bound : nat := A_cost * geom B_fan (S (N.to_nat max_queryer_recursion)).

  Lemma client_guarded : forall c, guarded (client maxdepth qmin v6 Smax Fmax c).
  Proof. intros c. unfold client. eapply pipeline_guarded; intros cc; [apply query_guarded|apply query_costs]. Qed.

  Lemma client_costs : forall c, costs (client maxdepth qmin v6 Smax Fmax c) work_bound.
  Proof.
    intros c. unfold client, work_bound.
    eapply c_weaken; [apply pipeline_costs; intros cc; [apply query_guarded|apply query_costs]|].
    rewrite pipeline_cost_split. cbn [geom]. nia.
  Qed.
End Closed.
