(* C12 — the skeleton programs are guarded (every exchange / sub-run sits behind its debit), have
   a closed-form exchange bound, and turn a latched rejection into the policy failure. *)
From Coq Require Import Relations.
From Sdns Require Import Common.Base Gen.C12 C12.Model C12.Skeleton C12.Proofs_ledger C12.Proofs_run.
Open Scope nat_scope.

(* ---------------------------------------------------------------- exchange *)

Definition kguard (ok : option (nat -> prog xout)) : Prop :=
  match ok with Some k => forall l, guarded (k l) | None => True end.
Definition kcost (ok : option (nat -> prog xout)) (ck : nat) : Prop :=
  match ok with Some k => forall l, costs (k l) (l + ck) | None => True end.

Lemma xlayer_guarded : forall rs tk fk be left, kguard rs -> kguard tk -> kguard fk -> guarded (xlayer rs tk fk be left).
Proof.
  intros rs tk fk be left Hr Ht Hf. induction left as [|l' IH]; cbn.
  - apply g_out_x; [|intros; apply g_ret]. apply g_choose. intros [|[|[|i]]] _; try apply g_ret.
    + destruct tk; [apply Ht|apply g_ret].
    + destruct fk; [apply Hf|apply g_ret].
  - apply g_out_x; [|intros; apply g_ret]. apply g_choose. intros [|[|[|i]]] _; try apply g_ret.
    + destruct l'; [destruct rs; [apply Hr|exact IH]|exact IH].
    + destruct tk; [apply Ht|apply g_ret].
    + destruct fk; [apply Hf|apply g_ret].
Qed.

Lemma xlayer_costs : forall rs tk fk be ck left, kcost rs ck -> kcost tk ck -> kcost fk ck ->
  costs (xlayer rs tk fk be left) (left + 1 + ck).
Proof.
  intros rs tk fk be ck left Hr Ht Hf. induction left as [|l' IH]; cbn.
  - apply c_out; [|intros; apply c_ret]. apply c_weaken with (n := S ck); [|lia]. apply c_exch.
    apply c_choose. intros [|[|[|i]]] _; try apply c_ret.
    + destruct tk; [apply c_weaken with (n := 0 + ck); [apply Ht|lia]|apply c_ret].
    + destruct fk; [apply c_weaken with (n := 0 + ck); [apply Hf|lia]|apply c_ret].
  - apply c_out; [|intros; apply c_ret]. apply c_weaken with (n := S (S l' + ck)); [|lia]. apply c_exch.
    apply c_choose. intros [|[|[|i]]] _; try apply c_ret.
    + destruct l'.
      * destruct rs; [apply c_weaken with (n := 0 + ck); [apply Hr|lia]|apply c_weaken with (n := 0 + 1 + ck); [exact IH|lia]].
      * apply c_weaken with (n := S l' + 1 + ck); [exact IH|lia].
    + destruct tk; [apply Ht|apply c_ret].
    + destruct fk; [apply Hf|apply c_ret].
Qed.

Definition xmax : nat := N.to_nat exchange_max_retries + 3.

Lemma exchange_guarded : forall be, guarded (exchange be).
Proof.
  intros be. unfold exchange, x_udp_opt. apply xlayer_guarded; cbn; intros l; unfold x_tcp_opt, x_udp_noopt;
    apply xlayer_guarded; cbn; auto; intros l'; unfold x_tcp_noopt; apply xlayer_guarded; cbn; auto.
Qed.

Lemma exchange_costs : forall be, costs (exchange be) xmax.
Proof.
  intros be. unfold exchange, x_udp_opt, xmax.
  assert (H0 : forall l, costs (x_tcp_noopt be l) (l + 1)).
  { intros l. unfold x_tcp_noopt. apply c_weaken with (n := l + 1 + 0); [apply xlayer_costs; cbn; auto|lia]. }
  assert (H1 : forall l, costs (x_tcp_opt be l) (l + 2)).
  { intros l. unfold x_tcp_opt. apply c_weaken with (n := l + 1 + 1); [apply xlayer_costs; cbn; auto|lia]. }
  assert (H2 : forall l, costs (x_udp_noopt be l) (l + 2)).
  { intros l. unfold x_udp_noopt. apply c_weaken with (n := l + 1 + 1); [apply xlayer_costs; cbn; auto|lia]. }
  apply c_weaken with (n := N.to_nat exchange_max_retries + 1 + 2); [apply xlayer_costs; cbn; auto|lia].
Qed.

(* ---------------------------------------------------------------- lookup *)

Lemma stragglers_guarded : forall be n, guarded (stragglers be n).
Proof.
  intros be n. induction n as [|n IH]; cbn; [apply g_ret|].
  apply g_choose. intros [|i] _; [apply g_ret|]. apply guarded_bind; [apply exchange_guarded|auto].
Qed.

Lemma stragglers_costs : forall be n, costs (stragglers be n) (n * xmax).
Proof.
  intros be n. induction n as [|n IH]; cbn [stragglers]; [apply c_ret|].
  apply c_choose. intros [|i] _; [apply c_ret|].
  apply c_weaken with (n := xmax + n * xmax); [|lia]. apply costs_bind; [apply exchange_costs|auto].
Qed.

Lemma lookup_guarded : forall be n, guarded (lookup be n).
Proof.
  intros be n. induction n as [|n IH]; cbn.
  - apply g_choose. intros [|[|[|i]]] _; apply g_ret.
  - apply guarded_bind; [apply exchange_guarded|]. intros [| |]; try apply g_ret; [|exact IH].
    apply g_choose. intros [|i] _; [|exact IH]. apply guarded_bind; [apply stragglers_guarded|intros; apply g_ret].
Qed.

Lemma lookup_costs : forall be n, costs (lookup be n) (n * xmax).
Proof.
  intros be n. induction n as [|n IH]; cbn [lookup].
  - apply c_choose. intros [|[|[|i]]] _; apply c_ret.
  - apply c_weaken with (n := xmax + n * xmax); [|lia]. apply costs_bind; [apply exchange_costs|].
    intros [| |]; try apply c_ret; [|exact IH].
    apply c_choose. intros [|i] _; [|exact IH].
    apply c_weaken with (n := n * xmax + 0); [|lia]. apply costs_bind; [apply stragglers_costs|intros; apply c_ret].
Qed.

(* ---------------------------------------------------------------- NS-address walks through any queryer *)

Lemma ns_lookups_guarded_gen : forall (q : cx -> prog reply), (forall cc, guarded (q cc)) ->
  forall cc s h, guarded (ns_lookups q cc s h).
Proof.
  intros q Hq cc s h. induction h as [|h IH]; cbn; [apply g_ret|].
  apply guarded_bind; [apply Hq|]. intros r. destruct r; try exact IH. destruct s; [apply g_ret|exact IH].
Qed.

Lemma ns_lookups_costs_gen : forall (q : cx -> prog reply) Qq, (forall cc, costs (q cc) Qq) ->
  forall cc s h, costs (ns_lookups q cc s h) (h * Qq).
Proof.
  intros q Qq Hq cc s h. induction h as [|h IH]; cbn [ns_lookups]; [apply c_ret|].
  apply c_weaken with (n := Qq + h * Qq); [|lia]. apply costs_bind; [apply Hq|].
  intros r. destruct r; try exact IH. destruct s; [apply c_ret|exact IH].
Qed.

Lemma costs_bind_le {A B} : forall (p : prog A) (f : A -> prog B) a b n,
  costs p a -> (forall x, costs (f x) b) -> a + b <= n -> costs (bind p f) n.
Proof. intros. eapply c_weaken; [apply costs_bind; eassumption|assumption]. Qed.

(* ---------------------------------------------------------------- resolve and the rest, given the three queryers *)

Section WithQueryer.
  Variable maxdepth qmin : nat.
  Variable v6 : bool.
  Variable Smax Fmax : nat.
  Variable nq nq0 : cx -> prog reply.
  Variable vq : cx -> prog vres.
  Variable Q Q0 V : nat.                  (* exchange bounds of one nested query / detached query / validation *)
  Hypothesis nq_guarded : forall cc, guarded (nq cc).
  Hypothesis nq_costs : forall cc, costs (nq cc) Q.
  Hypothesis nq0_guarded : forall cc, guarded (nq0 cc).
  Hypothesis nq0_costs : forall cc, costs (nq0 cc) Q0.
  Hypothesis vq_guarded : forall cc, guarded (vq cc).
  Hypothesis vq_costs : forall cc, costs (vq cc) V.

  Lemma ns_lookups_guarded : forall cc s h, guarded (ns_lookups nq cc s h).
  Proof. apply ns_lookups_guarded_gen. exact nq_guarded. Qed.
  Lemma ns_lookups_costs : forall cc s h, costs (ns_lookups nq cc s h) (h * Q).
  Proof. apply ns_lookups_costs_gen. exact nq_costs. Qed.
  Lemma ns_lookups0_guarded : forall cc s h, guarded (ns_lookups nq0 cc s h).
  Proof. apply ns_lookups_guarded_gen. exact nq0_guarded. Qed.
  Lemma ns_lookups0_costs : forall cc s h, costs (ns_lookups nq0 cc s h) (h * Q0).
  Proof. apply ns_lookups_costs_gen. exact nq0_costs. Qed.

  Lemma validated_guarded : forall c k, guarded k -> guarded (validated vq c k).
  Proof. intros c k Hk. unfold validated. apply guarded_bind; [apply vq_guarded|]. intros []; try apply g_ret. exact Hk. Qed.
  Lemma validated_costs : forall c k n, costs k n -> costs (validated vq c k) (V + n).
  Proof. intros c k n Hk. unfold validated. apply costs_bind; [apply vq_costs|]. intros []; try apply c_ret. exact Hk. Qed.

  Lemma answer_step_guarded : forall c, guarded (answer_step nq c).
  Proof.
    intros c. unfold answer_step. apply g_choose. intros [|i] _; [apply g_ret|].
    destruct (_ <? _)%N; [|apply g_ret]. apply guarded_bind; [apply nq_guarded|]. intros []; apply g_ret.
  Qed.

  Lemma answer_step_costs : forall c, costs (answer_step nq c) Q.
  Proof.
    intros c. unfold answer_step. apply c_choose. intros [|i] _; [apply c_ret|].
    destruct (_ <? _)%N; [|apply c_ret]. apply c_weaken with (n := Q + 0); [|lia].
    apply costs_bind; [apply nq_costs|]. intros []; apply c_ret.
  Qed.

  (* the lexicographic measure as one number; W = one more than the minimisation steps *)
  Definition W : nat := S qmin.
  Definition rank (depth : nat) (nomin unch : bool) (lvl : nat) : nat :=
    depth * (4 * W) + b2n (negb nomin) * (2 * W) + b2n unch * W + lvl.

  (* one round of resolve: a lookup over at most Smax+1 servers, NS-address sub-queries for at most Fmax hosts in
     each family (or a DNAME follow-up), the detached IPv6 walk over at most Fmax hosts, one validation *)
  Definition round_cost : nat := S Smax * xmax + (2 * Fmax + 1) * Q + Fmax * Q0 + V.

  (* one unfolding of [resolve_acc]: both sides are convertible once the accessibility proof is a
     constructor — no functional extensionality *)
  Lemma resolve_acc_eq : forall c depth nomin unch lvl n a,
    resolve_acc qmin v6 Smax Fmax nq nq0 vq c depth nomin unch lvl n a =
    resolve_F qmin v6 Smax Fmax nq nq0 vq c depth nomin unch lvl n
      (fun d' nm' u' l' n' p => resolve_acc qmin v6 Smax Fmax nq nq0 vq c d' nm' u' l' n' (Acc_inv a p)).
  Proof. intros. destruct a. reflexivity. Qed.

  (* the guard [E] also occurs inside the program (it is the argument of the ob_ lemma), so work on a copy *)
  Ltac dupE := match goal with E : _ = true |- _ => let E' := fresh "E" in pose proof E as E' end.
  Ltac brk := dupE;
    repeat match goal with
    | E : (_ && _)%bool = true |- _ => apply Bool.andb_true_iff in E; destruct E
    | E : negb _ = true |- _ => apply Bool.negb_true_iff in E; subst
    | E : Nat.ltb _ _ = true |- _ => apply Nat.ltb_lt in E
    | E : N.ltb _ _ = true |- _ => apply N.ltb_lt in E
    end.

  Lemma resolve_guarded : forall c r depth nomin unch lvl n a,
    rank depth nomin unch lvl <= r -> lvl <= qmin ->
    guarded (resolve_acc qmin v6 Smax Fmax nq nq0 vq c depth nomin unch lvl n a).
  Proof.
    intros c r. induction r as [r IH] using lt_wf_ind. intros depth nomin unch lvl n a Hr Hl.
    assert (REC : forall d' nm' u' l' n' a', rank d' nm' u' l' < rank depth nomin unch lvl -> l' <= qmin ->
                  guarded (resolve_acc qmin v6 Smax Fmax nq nq0 vq c d' nm' u' l' n' a')).
    { intros. eapply (IH (rank d' nm' u' l')); [lia|reflexivity|assumption]. }
    clear IH. rewrite resolve_acc_eq. unfold resolve_F.
    assert (Hp : cached_loop_depth_penalty = 10%N) by reflexivity.
    apply guarded_bind; [apply lookup_guarded|]. intros [ | | | | ].
    - (* LResp *)
      apply g_choose. intros [|[|cls]] _.
      + destruct (inspectb _) as [E|E]; [|apply validated_guarded; apply g_ret]. brk. apply REC; unfold rank, W in *; cbn [b2n negb]; lia.
      + destruct (inspectb _) as [E|E]; [|apply validated_guarded; apply answer_step_guarded]. brk. apply REC; unfold rank, W in *; cbn [b2n negb]; lia.
      + apply g_choose. intros [|[|[|[|[|[|sub]]]]]] _; try apply g_ret.
        * destruct (inspectb _) as [E|E]; [|apply g_ret]. brk. apply REC; unfold rank, W in *; cbn [b2n negb]; lia.
        * apply validated_guarded. apply g_ret.
        * destruct (inspectb _) as [E|E]; [|apply g_ret]. brk. apply g_choose. intros n' _.
          apply REC; [|lia]. unfold rank, W in *; cbn [b2n negb]. destruct unch; cbn [b2n]; lia.
        * destruct (inspectb _) as [E|E]; [|apply g_ret]. brk. apply g_choose. intros n' _. apply g_choose. intros l' Hl'.
          apply REC; [|lia]. unfold rank, W in *. destruct depth as [|d]; [lia|]. cbn [Nat.sub]. rewrite Nat.sub_0_r.
          destruct nomin, unch; cbn [b2n negb]; lia.
        * destruct (inspectb _) as [E|E]; [|apply g_ret]. brk. apply g_choose. intros l' Hl'.
          apply REC; [|lia]. unfold rank, W in *. rewrite Hp in *.
          replace depth with ((depth - 10) + 10) at 2 by lia. change (N.to_nat 10) with 10.
          destruct nomin, unch; cbn [b2n negb]; lia.
        * apply validated_guarded.
          apply g_choose. intros h _. apply guarded_bind; [apply ns_lookups_guarded|]. intros [rr|]; [apply g_ret|].
          apply g_choose. intros [|has] _.
          -- destruct (inspectb _) as [E|E]; [|apply g_ret]. brk. apply REC; unfold rank, W in *; cbn [b2n negb]; lia.
          -- apply guarded_bind.
             ++ destruct (v6 && negb (cx_walk c))%bool; [|apply g_ret]. apply g_choose. intros h6 _. apply ns_lookups0_guarded.
             ++ intros _. destruct (inspectb _) as [E|E]; [|apply g_ret]. brk. apply g_choose. intros n' _. apply g_choose. intros l' Hl'.
                apply REC; [|lia]. unfold rank, W in *. destruct depth as [|d]; [lia|]. cbn [Nat.sub]. rewrite Nat.sub_0_r.
                destruct nomin, unch; cbn [b2n negb]; lia.
    - apply g_ret.
    - destruct (inspectb _) as [E|E]; [|apply g_ret]. brk. apply REC; [|lia]. unfold rank, W in *; cbn [b2n negb]; lia.
    - destruct (inspectb _) as [E|E].
      + brk. apply REC; [|lia]. unfold rank, W in *; cbn [b2n negb]; lia.
      + destruct (cx_nsl c); [apply g_ret|]. destruct (inspectb unch) as [E'|E']; [|apply g_ret]. subst unch.
        apply g_choose. intros h _. apply guarded_bind; [apply ns_lookups_guarded|]. intros _.
        apply guarded_bind; [destruct v6; [apply ns_lookups_guarded|apply g_ret]|]. intros _.
        apply g_choose. intros [|grew] _; [apply g_ret|]. apply g_choose. intros n' _.
        apply REC; [|lia]. unfold rank, W in *; cbn [b2n negb]; lia.
    - destruct (inspectb _) as [E|E]; [|apply g_ret]. brk. apply REC; [|lia]. unfold rank, W in *; cbn [b2n negb]; lia.
  Qed.

  Lemma resolve_costs : forall c r depth nomin unch lvl n a,
    rank depth nomin unch lvl <= r -> lvl <= qmin -> n <= Smax ->
    costs (resolve_acc qmin v6 Smax Fmax nq nq0 vq c depth nomin unch lvl n a) (S r * round_cost).
  Proof.
    intros c r. induction r as [r IH] using lt_wf_ind. intros depth nomin unch lvl n a Hr Hl Hn.
    assert (REC : forall d' nm' u' l' n' a', rank d' nm' u' l' < rank depth nomin unch lvl -> l' <= qmin -> n' <= Smax ->
                  costs (resolve_acc qmin v6 Smax Fmax nq nq0 vq c d' nm' u' l' n' a') (r * round_cost)).
    { intros d' nm' u' l' n' a' Hlt Hl' Hn'.
      apply c_weaken with (n := S (rank d' nm' u' l') * round_cost); [|apply Nat.mul_le_mono_r; lia].
      eapply (IH (rank d' nm' u' l')); [lia|reflexivity|assumption|assumption]. }
    clear IH. rewrite resolve_acc_eq. unfold resolve_F.
    assert (Hp : cached_loop_depth_penalty = 10%N) by reflexivity.
    set (rest := r * round_cost).
    (* this round's lookup, then what is left of this round's budget plus the rest *)
    set (left := (2 * Fmax + 1) * Q + Fmax * Q0 + V + rest).
    apply costs_bind_le with (a := S n * xmax) (b := left);
      [apply lookup_costs| |unfold left, rest, round_cost; nia].
    assert (RECw : forall d' nm' u' l' n' a', rank d' nm' u' l' < rank depth nomin unch lvl -> l' <= qmin -> n' <= Smax ->
                   costs (resolve_acc qmin v6 Smax Fmax nq nq0 vq c d' nm' u' l' n' a') left).
    { intros. eapply c_weaken; [apply REC; eassumption|unfold left, rest; lia]. }
    intros [ | | | | ].
    - apply c_choose. intros [|[|cls]] _.
      + destruct (inspectb _) as [E|E]; [|apply c_weaken with (n := V + 0); [apply validated_costs; apply c_ret|unfold left; nia]]. brk. apply RECw; unfold rank, W in *; cbn [b2n negb]; lia.
      + destruct (inspectb _) as [E|E].
        * brk. apply RECw; unfold rank, W in *; cbn [b2n negb]; lia.
        * eapply c_weaken; [apply validated_costs; apply answer_step_costs|unfold left; nia].
      + apply c_choose. intros [|[|[|[|[|[|sub]]]]]] _; try apply c_ret.
        * destruct (inspectb _) as [E|E]; [|apply c_ret]. brk. apply RECw; unfold rank, W in *; cbn [b2n negb]; lia.
        * eapply c_weaken; [apply validated_costs; apply (c_ret RResp 0)|unfold left; lia].
        * destruct (inspectb _) as [E|E]; [|apply c_ret]. brk. apply c_choose. intros n' Hn'.
          apply RECw; [|lia|lia]. unfold rank, W in *; cbn [b2n negb]. destruct unch; cbn [b2n]; lia.
        * destruct (inspectb _) as [E|E]; [|apply c_ret]. brk. apply c_choose. intros n' Hn'. apply c_choose. intros l' Hl'.
          apply RECw; [|lia|lia]. unfold rank, W in *. destruct depth as [|d]; [lia|]. cbn [Nat.sub]. rewrite Nat.sub_0_r.
          destruct nomin, unch; cbn [b2n negb]; lia.
        * destruct (inspectb _) as [E|E]; [|apply c_ret]. brk. apply c_choose. intros l' Hl'.
          apply RECw; [|lia|lia]. unfold rank, W in *. rewrite Hp in *.
          replace depth with ((depth - 10) + 10) at 2 by lia. change (N.to_nat 10) with 10.
          destruct nomin, unch; cbn [b2n negb]; lia.
        * apply c_weaken with (n := V + ((2 * Fmax + 1) * Q + Fmax * Q0 + rest)); [|unfold left; lia].
          apply validated_costs.
          apply c_choose. intros h Hh.
          apply costs_bind_le with (a := h * Q) (b := (Fmax + 1) * Q + Fmax * Q0 + rest); [apply ns_lookups_costs| |nia].
          intros [rr|]; [apply c_ret|].
          apply c_choose. intros [|has] _.
          -- destruct (inspectb _) as [E|E]; [|apply c_ret]. brk.
             eapply c_weaken; [apply REC; unfold rank, W in *; cbn [b2n negb]; lia|unfold rest; lia].
          -- apply costs_bind_le with (a := Fmax * Q0) (b := rest); [| |lia].
             ++ destruct (v6 && negb (cx_walk c))%bool; [|apply c_ret]. apply c_choose. intros h6 Hh6.
                eapply c_weaken; [apply ns_lookups0_costs|]. apply Nat.mul_le_mono_r. exact Hh6.
             ++ intros _. destruct (inspectb _) as [E|E]; [|apply c_ret]. brk. apply c_choose. intros n' Hn'. apply c_choose. intros l' Hl'.
                apply REC; [|lia|lia]. unfold rank, W in *. destruct depth as [|d]; [lia|]. cbn [Nat.sub]. rewrite Nat.sub_0_r.
                destruct nomin, unch; cbn [b2n negb]; lia.
    - apply c_ret.
    - destruct (inspectb _) as [E|E]; [|apply c_ret]. brk. apply RECw; [|lia|lia]. unfold rank, W in *; cbn [b2n negb]; lia.
    - destruct (inspectb _) as [E|E].
      + brk. apply RECw; [|lia|lia]. unfold rank, W in *; cbn [b2n negb]; lia.
      + destruct (cx_nsl c); [apply c_ret|]. destruct (inspectb unch) as [E'|E']; [|apply c_ret]. subst unch.
        apply c_choose. intros h Hh.
        apply costs_bind_le with (a := h * Q) (b := h * Q + rest); [apply ns_lookups_costs| |unfold left; nia].
        intros _.
        apply costs_bind_le with (a := h * Q) (b := rest); [destruct v6; [apply ns_lookups_costs|apply c_ret]| |lia].
        intros _.
        apply c_choose. intros [|grew] _; [apply c_ret|]. apply c_choose. intros n' Hn'.
        apply REC; [|lia|lia]. unfold rank, W in *; cbn [b2n negb]; lia.
    - destruct (inspectb _) as [E|E]; [|apply c_ret]. brk. apply RECw; [|lia|lia]. unfold rank, W in *; cbn [b2n negb]; lia.
  Qed.

  (* rounds of one Resolve call *)
  Definition rounds : nat := S (rank maxdepth false true qmin).
  Definition handle_cost : nat := rounds * round_cost.

  Lemma handle_guarded : forall c, guarded (handle maxdepth qmin v6 Smax Fmax nq nq0 vq c).
  Proof.
    intros c. unfold handle. apply g_enf. intros []; try apply g_ret.
    apply g_choose. intros l0 Hl0. apply g_choose. intros n0 _.
    apply guarded_bind; [unfold resolve; eapply resolve_guarded; [reflexivity|exact Hl0]|].
    intros r. apply g_enf. intros []; apply g_ret.
  Qed.

  Lemma handle_costs : forall c, costs (handle maxdepth qmin v6 Smax Fmax nq nq0 vq c) handle_cost.
  Proof.
    intros c. unfold handle. apply c_enf. intros []; try apply c_ret.
    apply c_choose. intros l0 Hl0. apply c_choose. intros n0 Hn0.
    apply c_weaken with (n := handle_cost + 0); [|lia]. apply costs_bind.
    - unfold handle_cost, rounds, resolve. apply resolve_costs; [|exact Hl0|exact Hn0]. unfold rank. lia.
    - intros r. apply c_enf. intros []; apply c_ret.
  Qed.

  Lemma chase_guarded : forall c left, guarded (chase nq c left).
  Proof.
    intros c left. induction left as [|l IH]; cbn; [apply g_ret|].
    apply g_choose. intros [|m] _; [apply g_ret|]. apply guarded_bind; [apply nq_guarded|].
    intros []; try apply g_ret; apply g_choose; intros [|s] _; try apply g_ret; exact IH.
  Qed.

  Lemma chase_costs : forall c left, costs (chase nq c left) (left * Q).
  Proof.
    intros c left. induction left as [|l IH]; cbn [chase]; [apply c_ret|].
    apply c_choose. intros [|m] _; [apply c_ret|].
    apply c_weaken with (n := Q + l * Q); [|lia]. apply costs_bind; [apply nq_costs|].
    intros []; try apply c_ret; apply c_choose; intros [|s] _; try apply c_ret; exact IH.
  Qed.

  Definition chase_cost : nat := N.to_nat cname_loop_depth * Q.

  Lemma chase_gate_guarded : forall c, guarded (chase_gate nq c).
  Proof. intros c. unfold chase_gate. destruct (_ <? _)%N; [apply chase_guarded|apply g_ret]. Qed.
  Lemma chase_gate_costs : forall c, costs (chase_gate nq c) chase_cost.
  Proof. intros c. unfold chase_gate. destruct (_ <? _)%N; [apply chase_costs|apply c_ret]. Qed.

  Lemma write_failure_guarded : forall c b, guarded (write_failure c b).
  Proof. intros. unfold write_failure. apply g_enf. intros []; apply g_ret. Qed.
  Lemma write_failure_costs : forall c b n, costs (write_failure c b) n.
  Proof. intros. unfold write_failure. apply c_enf. intros []; apply c_ret. Qed.

  Definition pipeline_cost : nat := handle_cost + chase_cost.

  Lemma pipeline_hit_guarded : forall c, guarded (pipeline_hit nq c).
  Proof.
    intros c. unfold pipeline_hit. apply guarded_bind; [apply chase_gate_guarded|].
    intros []; try apply g_ret; apply g_enf; intros []; apply g_ret.
  Qed.
  Lemma pipeline_hit_costs : forall c, costs (pipeline_hit nq c) chase_cost.
  Proof.
    intros c. unfold pipeline_hit. apply c_weaken with (n := chase_cost + 0); [|lia].
    apply costs_bind; [apply chase_gate_costs|].
    intros []; try apply c_ret; apply c_enf; intros []; apply c_ret.
  Qed.

  Lemma pipeline_guarded : forall c, guarded (pipeline maxdepth qmin v6 Smax Fmax nq nq0 vq c).
  Proof.
    intros c. unfold pipeline. apply g_choose. intros [|hit] _; [|apply pipeline_hit_guarded].
    unfold pipeline_miss. apply guarded_bind; [apply handle_guarded|].
    intros []; try apply write_failure_guarded.
    - apply g_choose. intros [|sf] _; [|apply write_failure_guarded].
      apply guarded_bind; [apply chase_gate_guarded|]. intros []; try apply write_failure_guarded. apply g_ret.
    - apply g_choose. intros i _. apply write_failure_guarded.
  Qed.

  Lemma pipeline_costs : forall c, costs (pipeline maxdepth qmin v6 Smax Fmax nq nq0 vq c) pipeline_cost.
  Proof.
    intros c. unfold pipeline, pipeline_cost. apply c_choose. intros [|hit] _.
    - unfold pipeline_miss. apply costs_bind; [apply handle_costs|].
      intros []; try apply write_failure_costs.
      + apply c_choose. intros [|sf] _; [|apply write_failure_costs].
        apply c_weaken with (n := chase_cost + 0); [|lia].
        apply costs_bind; [apply chase_gate_costs|]. intros []; try apply write_failure_costs. apply c_ret.
      + apply c_choose. intros i _. apply write_failure_costs.
    - eapply c_weaken; [apply pipeline_hit_costs|lia].
  Qed.
End WithQueryer.

(* ---------------------------------------------------------------- validation sub-queries *)

Section Validator.
  Variable maxdepth qmin : nat.
  Variable v6 : bool.
  Variable Smax Fmax G : nat.
  Variable nq nq0 : cx -> prog reply.
  Variable nest : nat.
  Variable Q Q0 : nat.
  Hypothesis nq_guarded : forall cc, guarded (nq cc).
  Hypothesis nq_costs : forall cc, costs (nq cc) Q.
  Hypothesis nq0_guarded : forall cc, guarded (nq0 cc).
  Hypothesis nq0_costs : forall cc, costs (nq0 cc) Q0.

  (* a direct sub-resolution whose own validations cost at most Vi *)
  Definition Hc (Vi : nat) : nat := handle_cost maxdepth qmin Smax Fmax Q Q0 Vi.

  Lemma subq_ok : forall inner Vi c, (forall cc, guarded (inner cc)) -> (forall cc, costs (inner cc) Vi) ->
    guarded (subq maxdepth qmin v6 Smax Fmax nq nq0 nest inner c) /\ costs (subq maxdepth qmin v6 Smax Fmax nq nq0 nest inner c) (Hc Vi).
  Proof.
    intros inner Vi c Hg Hcst. unfold subq. split.
    - apply g_choose. intros [|hit] _; [apply g_ret|]. apply g_int_s; [|intros; apply g_ret].
      apply g_choose. intros l0 Hl0. apply g_choose. intros n0 _.
      apply guarded_bind.
      + unfold resolve. eapply resolve_guarded; eauto.
      + intros r. apply g_end. apply g_enf. intros []; try apply g_ret. destruct r; try apply g_ret.
        apply g_choose. intros [|i] _; apply g_ret.
    - apply c_choose. intros [|hit] _; [apply c_ret|]. apply c_int; [|intros; apply c_ret]. apply c_sub.
      apply c_choose. intros l0 Hl0. apply c_choose. intros n0 Hn0.
      apply c_weaken with (n := Hc Vi + 0); [|lia]. apply costs_bind.
      + unfold Hc, handle_cost, rounds, resolve. eapply resolve_costs; eauto. unfold rank. lia.
      + intros r. apply c_end. apply c_enf. intros []; try apply c_ret. destruct r; try apply c_ret.
        apply c_choose. intros [|i] _; apply c_ret.
  Qed.

  Lemma subqs_ok : forall inner Vi k c, (forall cc, guarded (inner cc)) -> (forall cc, costs (inner cc) Vi) ->
    guarded (subqs maxdepth qmin v6 Smax Fmax nq nq0 nest inner k c) /\
    costs (subqs maxdepth qmin v6 Smax Fmax nq nq0 nest inner k c) (k * Hc Vi).
  Proof.
    intros inner Vi k c Hg Hcst. induction k as [|k [IHg IHc]]; cbn [subqs]; [split; [apply g_ret|apply c_ret]|].
    destruct (subq_ok inner Vi c Hg Hcst) as [Sg Sc]. split.
    - apply guarded_bind; [exact Sg|]. intros []; try apply g_ret. exact IHg.
    - apply c_weaken with (n := Hc Vi + k * Hc Vi); [|lia]. apply costs_bind; [exact Sc|]. intros []; try apply c_ret. exact IHc.
  Qed.

  Lemma vstep_ok : forall vsame vless a b lab c,
    (forall cc, guarded (vsame cc)) -> (forall cc, costs (vsame cc) a) ->
    (forall cc, guarded (vless cc)) -> (forall cc, costs (vless cc) b) ->
    guarded (vstep maxdepth qmin v6 Smax Fmax nq nq0 nest vsame vless lab c) /\
    costs (vstep maxdepth qmin v6 Smax Fmax nq nq0 nest vsame vless lab c) (S lab * Hc (a + b)).
  Proof.
    intros vsame vless a b lab c Gs Cs Gl Cl. unfold vstep.
    set (inner := fun c' : cx => Choose 1 (fun same : nat => match same with O => vsame c' | _ => vless c' end)).
    assert (Ig : forall cc, guarded (inner cc)) by (intros cc; apply g_choose; intros [|i] _; auto).
    assert (Ic : forall cc, costs (inner cc) (a + b)).
    { intros cc. apply c_choose. intros [|i] _; [eapply c_weaken; [apply Cs|lia]|eapply c_weaken; [apply Cl|lia]]. }
    split.
    - apply g_choose. intros k _. apply (subqs_ok inner (a + b) k c Ig Ic).
    - apply c_choose. intros k Hk. eapply c_weaken; [apply (subqs_ok inner (a + b) k c Ig Ic)|]. apply Nat.mul_le_mono_r. exact Hk.
  Qed.

  (* the exchange bound of a validation, by the same recursion as the validation itself *)
  Fixpoint VRc (less : nat) (lab rep : nat) {struct rep} : nat :=
    S lab * Hc ((match rep with O => 0 | S r' => VRc less lab r' end) + less).
  Fixpoint VC (lab : nat) : nat -> nat := VRc (match lab with O => 0 | S l' => VC l' G end) lab.

  Lemma vfail_ok : (forall cc, guarded (vfail cc)) /\ (forall cc n, costs (vfail cc) n).
  Proof. split; intros; [apply g_ret|apply c_ret]. Qed.

  Lemma vrep_of_ok : forall vless b lab, (forall cc, guarded (vless cc)) -> (forall cc, costs (vless cc) b) ->
    forall rep c, guarded (vrep_of maxdepth qmin v6 Smax Fmax nq nq0 nest vless lab rep c) /\
                  costs (vrep_of maxdepth qmin v6 Smax Fmax nq nq0 nest vless lab rep c) (VRc b lab rep).
  Proof.
    intros vless b lab Gl Cl rep. induction rep as [|r IH]; intros c; cbn [vrep_of VRc].
    - apply vstep_ok; auto; intros; [apply g_ret|apply c_ret].
    - apply vstep_ok; auto; intros cc; apply IH.
  Qed.

  Lemma vlab_ok : forall lab rep c, guarded (vlab maxdepth qmin v6 Smax Fmax G nq nq0 nest lab rep c) /\
                                     costs (vlab maxdepth qmin v6 Smax Fmax G nq nq0 nest lab rep c) (VC lab rep).
  Proof.
    induction lab as [|l IH]; intros rep c; cbn [vlab VC].
    - apply vrep_of_ok; intros; [apply g_ret|apply c_ret].
    - apply vrep_of_ok; intros cc; apply IH.
  Qed.
End Validator.

(* ---------------------------------------------------------------- Query nesting, detached generations, the bound *)

Section Closed.
  Variable maxdepth qmin : nat.
  Variable v6 : bool.
  Variable Smax Fmax Lmax G : nat.
  Let maxQ := N.to_nat max_queryer_recursion.

  (* exchange bound of one pipeline run whose nested queries cost Qn and whose detached queries cost Q0 *)
  Definition run_cost (Qn Q0 : nat) : nat :=
    pipeline_cost maxdepth qmin Smax Fmax Qn Q0 (VC maxdepth qmin Smax Fmax G Qn Q0 Lmax G).

  Fixpoint qcost (Q0 : nat) (q : nat) : nat := match q with O => 0 | S q' => run_cost (qcost Q0 q') Q0 end.
  Fixpoint gcost (gen : nat) : nat := match gen with O => 0 | S g' => qcost (gcost g') maxQ end.   (* one detached query *)

  Lemma detached_ok : forall gen,
    (forall g q c, g <= gen -> guarded (queryg maxdepth qmin v6 Smax Fmax Lmax G g q c) /\
                              costs (queryg maxdepth qmin v6 Smax Fmax Lmax G g q c) (qcost (gcost g) q)) ->
    forall c, guarded (detached maxdepth qmin v6 Smax Fmax Lmax G (S gen) c) /\
              costs (detached maxdepth qmin v6 Smax Fmax Lmax G (S gen) c) (gcost (S gen)).
  Proof. intros gen H c. cbn [detached gcost]. apply H. lia. Qed.

  Lemma queryg_ok : forall gen q c,
    guarded (queryg maxdepth qmin v6 Smax Fmax Lmax G gen q c) /\
    costs (queryg maxdepth qmin v6 Smax Fmax Lmax G gen q c) (qcost (gcost gen) q).
  Proof.
    induction gen as [gen IHg] using lt_wf_ind.
    assert (D : forall c, guarded (detached maxdepth qmin v6 Smax Fmax Lmax G gen c) /\
                          costs (detached maxdepth qmin v6 Smax Fmax Lmax G gen c) (gcost gen)).
    { intros c. destruct gen as [|g']; cbn [detached gcost]; [split; [apply g_ret|apply c_ret]|]. apply IHg. lia. }
    induction q as [|q IH]; intros c.
    - destruct gen; cbn; split; try apply g_ret; apply c_ret.
    - assert (E : queryg maxdepth qmin v6 Smax Fmax Lmax G gen (S q) c =
                  DebitInt (cx_be c)
                    (SubRun (mk_sl (maxQ - q) c)
                       (bind (pipeline maxdepth qmin v6 Smax Fmax (queryg maxdepth qmin v6 Smax Fmax Lmax G gen q)
                                (detached maxdepth qmin v6 Smax Fmax Lmax G gen)
                                (vlab maxdepth qmin v6 Smax Fmax G (queryg maxdepth qmin v6 Smax Fmax Lmax G gen q)
                                      (detached maxdepth qmin v6 Smax Fmax Lmax G gen) (maxQ - q) Lmax G) c)
                          (fun r => SubEnd (EnfErr (fun e => match e with ROk => Ret r | e' => Ret (ReplyWork e' true) end)))))
                    (fun e => Ret (ReplyWork e true))) by (destruct gen; reflexivity).
      rewrite E. clear E.
      set (nq := queryg maxdepth qmin v6 Smax Fmax Lmax G gen q) in *.
      set (nq0 := detached maxdepth qmin v6 Smax Fmax Lmax G gen) in *.
      assert (Gq : forall cc, guarded (nq cc)) by (intros; apply IH).
      assert (Cq : forall cc, costs (nq cc) (qcost (gcost gen) q)) by (intros; apply IH).
      assert (G0 : forall cc, guarded (nq0 cc)) by (intros; apply D).
      assert (C0 : forall cc, costs (nq0 cc) (gcost gen)) by (intros; apply D).
      pose proof (vlab_ok maxdepth qmin v6 Smax Fmax G nq nq0 (maxQ - q) _ _ Gq Cq G0 C0 Lmax G) as VL.
      split.
      + apply g_int_s; [|intros; apply g_ret].
        apply guarded_bind; [eapply pipeline_guarded; eauto; intros cc; apply VL|]. intros r. apply g_end. apply g_enf. intros []; apply g_ret.
      + apply c_int; [|intros; apply c_ret]. apply c_sub. cbn [qcost]. unfold run_cost.
        apply c_weaken with (n := pipeline_cost maxdepth qmin Smax Fmax (qcost (gcost gen) q) (gcost gen)
                                    (VC maxdepth qmin Smax Fmax G (qcost (gcost gen) q) (gcost gen) Lmax G) + 0); [|lia].
        apply costs_bind; [eapply pipeline_costs; eauto; intros cc; apply VL|]. intros r. apply c_end. apply c_enf. intros []; apply c_ret.
  Qed.

  Definition work_bound (gen : nat) : nat := run_cost (qcost (gcost gen) maxQ) (gcost gen).

  Lemma client_ok : forall gen c,
    guarded (clientg maxdepth qmin v6 Smax Fmax Lmax G gen c) /\ costs (clientg maxdepth qmin v6 Smax Fmax Lmax G gen c) (work_bound gen).
  Proof.
    intros gen c. unfold clientg, work_bound, run_cost.
    set (nq := queryg maxdepth qmin v6 Smax Fmax Lmax G gen (N.to_nat max_queryer_recursion)).
    set (nq0 := detached maxdepth qmin v6 Smax Fmax Lmax G gen).
    assert (Gq : forall cc, guarded (nq cc)) by (intros; apply queryg_ok).
    assert (Cq : forall cc, costs (nq cc) (qcost (gcost gen) maxQ)) by (intros; apply queryg_ok).
    assert (D : forall cc, guarded (nq0 cc) /\ costs (nq0 cc) (gcost gen)).
    { intros cc. unfold nq0. destruct gen as [|g']; cbn [detached gcost]; [split; [apply g_ret|apply c_ret]|]. apply queryg_ok. }
    assert (G0 : forall cc, guarded (nq0 cc)) by (intros; apply D).
    assert (C0 : forall cc, costs (nq0 cc) (gcost gen)) by (intros; apply D).
    pose proof (vlab_ok maxdepth qmin v6 Smax Fmax G nq nq0 O _ _ Gq Cq G0 C0 Lmax G) as VL.
    split; [eapply pipeline_guarded|eapply pipeline_costs]; eauto; intros cc; apply VL.
  Qed.

  Lemma client_guarded : forall gen c, guarded (clientg maxdepth qmin v6 Smax Fmax Lmax G gen c).
  Proof. intros. apply client_ok. Qed.
  Lemma client_costs : forall gen c, costs (clientg maxdepth qmin v6 Smax Fmax Lmax G gen c) (work_bound gen).
  Proof. intros. apply client_ok. Qed.
End Closed.

(* ---------------------------------------------------------------- the forwarder *)

Lemma forward_guarded : forall be n, guarded (forward be n).
Proof.
  intros be n. induction n as [|n IH]; cbn [forward]; [apply g_ret|].
  apply g_choose. intros [|g] _; [|exact IH]. apply g_out_x; [|intros; apply g_ret].
  apply g_choose. intros [|[|a]] _; [apply g_ret| |exact IH].
  apply g_choose. intros [|g2] _; [|exact IH]. apply g_out_x; [|intros; apply g_ret].
  apply g_choose. intros [|b] _; [apply g_ret|exact IH].
Qed.

(* at most two transport attempts per configured upstream *)
Lemma forward_costs : forall be n, costs (forward be n) (2 * n).
Proof.
  intros be n. induction n as [|n IH]; cbn [forward]; [apply c_ret|].
  assert (IH' : costs (forward be n) (2 * S n - 2)) by (eapply c_weaken; [exact IH|lia]).
  apply c_choose. intros [|g] _; [|eapply c_weaken; [exact IH|lia]].
  apply c_out; [|intros; apply c_ret]. apply c_weaken with (n := S (2 * S n - 1)); [|lia]. apply c_exch.
  apply c_choose. intros [|[|a]] _; [apply c_ret| |eapply c_weaken; [exact IH|lia]].
  apply c_choose. intros [|g2] _; [|eapply c_weaken; [exact IH|lia]].
  apply c_out; [|intros; apply c_ret]. apply c_weaken with (n := S (2 * S n - 2)); [|lia]. apply c_exch.
  apply c_choose. intros [|b] _; [apply c_ret|exact IH'].
Qed.
