(* C12 — Part I: the NSEC3 denial verifiers never compute more iterated hashes than the tree's NSEC3-hash budget and
   the shape of the proofs admit — one per suffix of the name inside the signer zone up to the closest encloser and, when there
   is one, one for the wildcard below it —, records above the iteration cap (or with
   another hash algorithm / undefined flags) cost nothing, and shadow mode never refuses. *)
From Sdns Require Import Common.Base Gen.C12 C12.Model C12.Proofs_ledger C12.Proofs_sig C12.Proofs_ds C12.ModelN3.
Open Scope N_scope.

(* nsec3Safe, translated from the source, is what the model's comment says *)
Lemma gen_nsec3_safe : forall halg flags iters,
  n3_usable (halg, flags, iters) = (halg =? 1) && (iters <=? max_nsec3_iterations) && ((flags =? 0) || (flags =? 1)).
Proof. intros. unfold n3_usable, n3_record, go_nsec3Safe. cbn. reflexivity. Qed.

Lemma debit_n3_enforce : forall l, lenf l ->
  let '(l', r) := debit l kind_nsec3_hash true in
  lenf l' /\ l_pol l' = l_pol l /\
  ((r = ROk /\ l_n3 l < p_max_n3 (l_pol l) /\ l_n3 l' = l_n3 l + 1) \/ ((exists kk ll, r = RLimit kk ll) /\ l_n3 l' = l_n3 l)).
Proof.
  intros l [Hm Hl]. unfold debit, control_error. rewrite Hl.
  rewrite enabled_cases, Hm. change (mode_enforce =? mode_shadow) with false. change (mode_enforce =? mode_enforce) with true.
  cbn [orb negb]. change (agg_dim (l_pol l) kind_nsec3_hash) with (Some (4, p_max_n3 (l_pol l), bit_nsec3_hash)).
  cbv iota. change (get_ctr l 4) with (l_n3 l).
  destruct (p_max_n3 (l_pol l) <=? l_n3 l) eqn:E.
  - destruct (mark_exhausted_ctr l kind_nsec3_hash bit_nsec3_hash true) as (Hp & _ & _ & _ & _ & Hn & Hr & _).
    split; [split; [congruence|unfold is_live in *; now rewrite Hr]|]. split; [exact Hp|]. right. split; eauto.
  - apply N.leb_gt in E. cbn. split; [split; [exact Hm|exact Hl]|]. split; [reflexivity|]. left. repeat split; auto.
Qed.

Definition led (s : n3st) : ledger := fst (fst s).
Definition locs (s : n3st) : list nat := snd s.

(* from s to s' at most c hashes were debited, and the budget was respected *)
Definition good (s s' : n3st) (c : N) : Prop :=
  lenf (led s') /\ l_pol (led s') = l_pol (led s) /\ l_n3 (led s') <= l_n3 (led s) + c /\
  (l_n3 (led s) <= p_max_n3 (l_pol (led s)) -> l_n3 (led s') <= p_max_n3 (l_pol (led s))).

Lemma good_refl : forall s c, lenf (led s) -> good s s c.
Proof. intros s c H. unfold good. repeat split; try apply H; try lia. Qed.

Lemma good_trans : forall s s1 s2 c1 c2, good s s1 c1 -> good s1 s2 c2 -> good s s2 (c1 + c2).
Proof.
  intros s s1 s2 c1 c2 (L1 & P1 & B1 & M1) (L2 & P2 & B2 & M2). unfold good.
  split; [exact L2|]. split; [congruence|]. split; [lia|]. intros H. rewrite P1 in M2. apply M2. apply M1. exact H.
Qed.

Lemma good_weaken : forall s s' c c', good s s' c -> c <= c' -> good s s' c'.
Proof. intros s s' c c' (L & P & B & M) H. unfold good. repeat split; try apply L; auto; lia. Qed.

Lemma good_lenf : forall s s' c, good s s' c -> lenf (led s').
Proof. intros s s' c H. apply H. Qed.

(* the evaluator already knows the digest of [nm], or will never compute one *)
Definition known (s : n3st) (nm : n3name) : Prop := n3_inz nm = false \/ mem_nat (n3_id nm) (locs s) = true.

Definition b2N (b : bool) : N := if b then 1 else 0.

Lemma mem_nat_cons : forall x y l, mem_nat x l = true -> mem_nat x (y :: l) = true.
Proof. intros x y l H. unfold mem_nat in *. cbn. rewrite H. apply Bool.orb_true_r. Qed.
Lemma mem_nat_head : forall x l, mem_nat x (x :: l) = true.
Proof. intros. unfold mem_nat. cbn. now rewrite Nat.eqb_refl. Qed.

Lemma hash_step : forall um s nm, lenf (led s) ->
  let '(s', h) := n3_hash um s nm in
  good s s' (b2N (n3_inz nm)) /\
  (forall x, known s x -> known s' x) /\
  ((forall e, h <> HWork e) -> known s' nm) /\
  (known s nm -> s' = s /\ forall e, h <> HWork e).
Proof.
  intros um [[l memo] loc] nm Hl. unfold n3_hash.
  destruct (n3_inz nm) eqn:Ez; cbn [negb].
  2:{ split; [apply good_refl; exact Hl|]. split; [auto|]. split; [intros _; left; exact Ez|intros _; split; [reflexivity|discriminate]]. }
  destruct (mem_nat (n3_id nm) loc) eqn:Em.
  { split; [apply good_refl; exact Hl|]. split; [auto|]. split; [intros _; right; exact Em|intros _; split; [reflexivity|discriminate]]. }
  assert (Hk : forall x, known (l, memo, loc) x -> forall l' m', known (l', m', n3_id nm :: loc) x).
  { intros x [Hx|Hx] l' m'; [left; exact Hx|right; apply mem_nat_cons; exact Hx]. }
  assert (Hnk : known (l, memo, loc) nm -> False).
  { intros [Hx|Hx]; [congruence|unfold locs in Hx; cbn [snd] in Hx; congruence]. }
  destruct (um && mem_nat (n3_id nm) memo).
  { split; [unfold good; cbn; cbn in Hl; repeat split; try apply Hl; lia|].
    split; [intros x Hx; apply Hk; exact Hx|]. split; [intros _; right; apply mem_nat_head|intros H; destruct (Hnk H)]. }
  pose proof (debit_n3_enforce l Hl) as D. destruct (debit l kind_nsec3_hash true) as [l1 r].
  destruct D as (L1 & P1 & [(-> & Hlt & Hn)|((kk & ll & ->) & Hn)]).
  - split; [unfold good, led; cbn; split; [exact L1|]; split; [exact P1|]; split; [lia|intros _; rewrite Hn; lia]|].
    split; [intros x Hx; apply Hk; exact Hx|]. split; [intros _; right; apply mem_nat_head|intros H; destruct (Hnk H)].
  - split; [unfold good, led; cbn; split; [exact L1|]; split; [exact P1|]; split; [lia|intros H; rewrite Hn; exact H]|].
    split; [intros x [Hx|Hx]; [left; exact Hx|right; exact Hx]|]. split; [intros H; exfalso; exact (H _ eq_refl)|intros H; destruct (Hnk H)].
Qed.

Lemma lookup_step : forall um s nm, lenf (led s) ->
  let '(s', r) := n3_lookup um s nm in
  good s s' (b2N (n3_inz nm)) /\
  (forall x, known s x -> known s' x) /\
  ((forall e, r <> LkWork e) -> known s' nm) /\
  (known s nm -> s' = s /\ forall e, r <> LkWork e).
Proof.
  intros um s nm Hl. unfold n3_lookup. pose proof (hash_step um s nm Hl) as H. destruct (n3_hash um s nm) as [s1 h].
  destruct H as (G & K & W & F). split; [exact G|]. split; [exact K|]. split.
  - intros Hw. apply W. intros e ->. exact (Hw e eq_refl).
  - intros Hk. destruct (F Hk) as [-> Hh]. split; [reflexivity|]. intros e.
    destruct h; [|discriminate|intros _; exact (Hh e0 eq_refl)].
    destruct (n3_look nm =? 1); [discriminate|]. destruct (n3_look nm =? 2); [discriminate|]. destruct (n3_look nm =? 3); discriminate.
Qed.

(* what a lookup's answer says about the shape *)
Lemma lookup_class : forall um s nm,
  match snd (n3_lookup um s nm) with
  | LkMatch _ => n3_inz nm = true /\ (n3_look nm =? 1) = true
  | LkWork _ => n3_inz nm = true
  | _ => n3_inz nm = false \/ (n3_look nm =? 1) = false
  end.
Proof.
  intros um [[l memo] loc] nm. unfold n3_lookup, n3_hash.
  destruct (n3_inz nm) eqn:Ez; cbn [negb]; [|cbn [snd]; now left].
  assert (K : match (if n3_look nm =? 1 then LkMatch (n3_tys nm) else if n3_look nm =? 2 then LkCover (n3_oo nm)
                     else if n3_look nm =? 3 then LkMiss else LkNone) with
              | LkMatch _ => true = true /\ (n3_look nm =? 1) = true
              | LkWork _ => true = true
              | _ => true = false \/ (n3_look nm =? 1) = false
              end).
  { destruct (n3_look nm =? 1); [split; reflexivity|]. destruct (n3_look nm =? 2); [now right|]. destruct (n3_look nm =? 3); now right. }
  destruct (mem_nat (n3_id nm) loc); [cbn [snd]; exact K|].
  destruct (um && mem_nat (n3_id nm) memo); [cbn [snd]; exact K|].
  destruct (debit l kind_nsec3_hash true) as [l1 r]. destruct r; cbn [snd]; try exact K; reflexivity.
Qed.

Lemma b2N_le1 : forall b, b2N b <= 1.
Proof. destruct b; cbn; lia. Qed.

Definition wcost (chain : list (n3name * n3name)) : N := fst (walk_cost chain).
Definition wfound (chain : list (n3name * n3name)) : bool := snd (walk_cost chain).

Lemma walk_cons_match : forall nm wc rest, n3_inz nm = true -> (n3_look nm =? 1) = true ->
  wcost ((nm, wc) :: rest) = 1 /\ wfound ((nm, wc) :: rest) = true.
Proof. intros nm wc rest Hz Hm. unfold wcost, wfound. cbn [walk_cost]. rewrite Hz, Hm. split; reflexivity. Qed.

Lemma walk_cons_nomatch : forall nm wc rest, (n3_inz nm = false \/ (n3_look nm =? 1) = false) ->
  wcost ((nm, wc) :: rest) = b2N (n3_inz nm) + wcost rest /\ wfound ((nm, wc) :: rest) = wfound rest.
Proof.
  intros nm wc rest H. unfold wcost, wfound. cbn [walk_cost].
  destruct (n3_inz nm) eqn:Ez; [|split; reflexivity].
  destruct (n3_look nm =? 1) eqn:Em; [destruct H; congruence|].
  destruct (walk_cost rest) as [c f]. cbn [fst snd b2N]. split; reflexivity.
Qed.

Lemma walk_inz_pos : forall nm wc rest, n3_inz nm = true -> 1 <= wcost ((nm, wc) :: rest).
Proof.
  intros nm wc rest Hz. unfold wcost. cbn [walk_cost]. rewrite Hz. destruct (n3_look nm =? 1); [cbn; lia|].
  destruct (walk_cost rest) as [c f]. cbn [fst]. lia.
Qed.

Lemma ce_from_step : forall um chain s prev, lenf (led s) -> known s prev ->
  let '(s', r) := n3_ce_from um s prev chain in
  good s s' (wcost chain) /\ (forall wc tys nc, r = CEFound wc tys nc -> known s' nc /\ wfound chain = true).
Proof.
  induction chain as [|[nm wc] rest IH]; intros s prev Hl Hp; cbn [n3_ce_from].
  - split; [apply good_refl; exact Hl|discriminate].
  - pose proof (lookup_step um s nm Hl) as L. pose proof (lookup_class um s nm) as C.
    destruct (n3_lookup um s nm) as [s1 r]. cbn [snd] in C. destruct L as (G & K & W & _).
    assert (Hrest : (forall e, r <> LkWork e) -> (n3_inz nm = false \/ (n3_look nm =? 1) = false) ->
            let '(s', r') := n3_ce_from um s1 nm rest in
            good s s' (wcost ((nm, wc) :: rest)) /\
            (forall wc0 tys nc, r' = CEFound wc0 tys nc -> known s' nc /\ wfound ((nm, wc) :: rest) = true)).
    { intros Hw Hc. destruct (walk_cons_nomatch nm wc rest Hc) as [-> ->].
      pose proof (IH s1 nm (good_lenf _ _ _ G) (W Hw)) as I. destruct (n3_ce_from um s1 nm rest) as [s2 r2].
      destruct I as (G2 & K2). split; [eapply good_trans; eassumption|exact K2]. }
    destruct r.
    + destruct C as [Cz Cm]. destruct (walk_cons_match nm wc rest Cz Cm) as [-> ->]. rewrite Cz in G.
      split; [exact G|]. intros wc' tys' nc' E. injection E as _ _ <-. split; [apply K; exact Hp|reflexivity].
    + apply Hrest; [discriminate|exact C].
    + apply Hrest; [discriminate|exact C].
    + apply Hrest; [discriminate|exact C].
    + split; [|discriminate]. eapply good_weaken; [exact G|]. rewrite C. apply walk_inz_pos. exact C.
Qed.

Lemma ce_step : forall um chain s, lenf (led s) ->
  let '(s', r) := n3_ce um s chain in
  good s s' (wcost chain) /\ (forall wc tys nc, r = CEFound wc tys nc -> known s' nc /\ wfound chain = true).
Proof.
  intros um [|[nm wc] rest] s Hl; cbn [n3_ce].
  - split; [apply good_refl; exact Hl|discriminate].
  - pose proof (lookup_step um s nm Hl) as L. pose proof (lookup_class um s nm) as C.
    destruct (n3_lookup um s nm) as [s1 r]. cbn [snd] in C. destruct L as (G & K & W & _).
    assert (Hrest : (forall e, r <> LkWork e) -> (n3_inz nm = false \/ (n3_look nm =? 1) = false) ->
            let '(s', r') := n3_ce_from um s1 nm rest in
            good s s' (wcost ((nm, wc) :: rest)) /\
            (forall wc0 tys nc, r' = CEFound wc0 tys nc -> known s' nc /\ wfound ((nm, wc) :: rest) = true)).
    { intros Hw Hc. destruct (walk_cons_nomatch nm wc rest Hc) as [-> ->].
      pose proof (ce_from_step um rest s1 nm (good_lenf _ _ _ G) (W Hw)) as I. destruct (n3_ce_from um s1 nm rest) as [s2 r2].
      destruct I as (G2 & K2). split; [eapply good_trans; eassumption|exact K2]. }
    destruct r.
    + destruct C as [Cz Cm]. destruct (walk_cons_match nm wc rest Cz Cm) as [-> ->]. rewrite Cz in G.
      split; [exact G|]. intros wc' tys' nc' E. injection E as _ _ <-. split; [apply W; discriminate|reflexivity].
    + apply Hrest; [discriminate|exact C].
    + apply Hrest; [discriminate|exact C].
    + apply Hrest; [discriminate|exact C].
    + split; [|discriminate]. eapply good_weaken; [exact G|]. rewrite C. apply walk_inz_pos. exact C.
Qed.

(* the walk when the evaluator has looked at the first name before and it did not match (NODATA, delegation): the
   first step is free and the rest of the chain is walked *)
Lemma ce_known_head : forall um q w rest s, lenf (led s) -> known s q -> (n3_inz q = false \/ (n3_look q =? 1) = false) ->
  let '(s', r) := n3_ce um s ((q, w) :: rest) in
  good s s' (wcost rest) /\ (forall wc tys nc, r = CEFound wc tys nc -> known s' nc /\ wfound rest = true).
Proof.
  intros um q w rest s Hl Hk Hc. cbn [n3_ce].
  pose proof (lookup_step um s q Hl) as L. pose proof (lookup_class um s q) as C.
  destruct (n3_lookup um s q) as [s1 r]. cbn [snd] in C. destruct L as (_ & _ & _ & F). destruct (F Hk) as [-> Hw].
  destruct r; try (apply ce_from_step; assumption).
  - destruct C as [Cz Cm]. destruct Hc; congruence.
  - exfalso. exact (Hw e eq_refl).
Qed.

(* findCoverer on a name the evaluator may have to hash, and on one it knows *)
Lemma cover_step : forall um s nm k ck, lenf (led s) ->
  (forall s1 oo, lenf (led s1) -> good s1 (fst (k s1 oo)) ck) ->
  good s (fst (n3_cover um s nm k)) (1 + ck).
Proof.
  intros um s nm k ck Hl Hk. unfold n3_cover.
  pose proof (lookup_step um s nm Hl) as L. destruct (n3_lookup um s nm) as [s1 r]. destruct L as (G & _).
  assert (G1 : good s s1 1) by (eapply good_weaken; [exact G|apply b2N_le1]).
  destruct r; cbn [fst]; try (eapply good_weaken; [exact G1|lia]).
  eapply good_trans; [exact G1|]. apply Hk. exact (good_lenf _ _ _ G).
Qed.

Lemma cover_free : forall um s nm k ck, lenf (led s) -> known s nm ->
  (forall s1 oo, lenf (led s1) -> good s1 (fst (k s1 oo)) ck) ->
  good s (fst (n3_cover um s nm k)) ck.
Proof.
  intros um s nm k ck Hl Hn Hk. unfold n3_cover.
  pose proof (lookup_step um s nm Hl) as L. destruct (n3_lookup um s nm) as [s1 r]. destruct L as (_ & _ & _ & F).
  destruct (F Hn) as [-> _]. destruct r; cbn [fst]; try (apply good_refl; exact Hl). apply Hk. exact Hl.
Qed.

(* closest encloser, validated, continuation: the continuation's cost only when an encloser was found *)
Lemma enclosed_gen : forall um s chain k ck c f, lenf (led s) ->
  (let '(s', r) := n3_ce um s chain in
   good s s' c /\ (forall wc tys nc, r = CEFound wc tys nc -> known s' nc /\ f = true)) ->
  (forall s1 wc nc, lenf (led s1) -> known s1 nc -> good s1 (fst (k s1 wc nc)) ck) ->
  good s (fst (n3_enclosed um s chain k)) (c + (if f then ck else 0)).
Proof.
  intros um s chain k ck c f Hl C Hk. unfold n3_enclosed.
  destruct (n3_ce um s chain) as [s1 r]. destruct C as (G & K).
  destruct r; cbn [fst]; try (eapply good_weaken; [exact G|lia]).
  destruct (K _ _ _ eq_refl) as [Kn ->].
  destruct (bad_encloser tys); cbn [fst]; [eapply good_weaken; [exact G|lia]|].
  eapply good_trans; [exact G|]. apply Hk; [exact (good_lenf _ _ _ G)|exact Kn].
Qed.

Lemma const_good : forall s (v : n3res), lenf (led s) -> good s (fst (s, v)) 0.
Proof. intros. cbn [fst]. apply good_refl. assumption. Qed.

Definition pbound (chain : list (n3name * n3name)) : N := wcost chain + (if wfound chain then 1 else 0).

Lemma name_error_step : forall um s chain, lenf (led s) -> good s (fst (n3_name_error um s chain)) (pbound chain).
Proof.
  intros um s chain Hl. unfold n3_name_error, pbound. apply enclosed_gen; [exact Hl|apply ce_step; exact Hl|].
  intros s1 wc nc H1 Kn. apply cover_free; [exact H1|exact Kn|].
  intros s2 _ H2. change 1 with (1 + 0). apply cover_step; [exact H2|]. intros s3 _ H3. apply const_good. exact H3.
Qed.

Lemma optout_gen : forall um s chain c f, lenf (led s) ->
  (let '(s', r) := n3_ce um s chain in
   good s s' c /\ (forall wc tys nc, r = CEFound wc tys nc -> known s' nc /\ f = true)) ->
  good s (fst (n3_optout um s chain)) c.
Proof.
  intros um s chain c f Hl C. unfold n3_optout.
  eapply good_weaken; [apply (enclosed_gen um s chain _ 0 c f Hl C)|destruct f; lia].
  intros s1 wc nc H1 Kn. apply cover_free; [exact H1|exact Kn|]. intros s2 oo H2. apply const_good. exact H2.
Qed.

(* after a first look at the name that did not match: the rest of NODATA *)
Definition nodata_rest (um isds : bool) (s1 : n3st) (chain : list (n3name * n3name)) : n3st * n3res :=
  if isds then n3_optout um s1 chain
  else n3_enclosed um s1 chain (fun s2 wc nc =>
         n3_cover um s2 nc (fun s3 _ =>
           let '(s4, rw) := n3_lookup um s3 wc in
           match rw with
           | LkMatch tys => (s4, if ty_has tys 1 then NFail else NOk)
           | LkWork e => (s4, NWork e)
           | _ => (s4, NFail)
           end)).

Lemma first_look : forall um s q w rest (tail : n3st -> n3st * n3res) (onmatch : N -> n3res), lenf (led s) ->
  (forall s1, lenf (led s1) -> known s1 q -> (n3_inz q = false \/ (n3_look q =? 1) = false) ->
     good s1 (fst (tail s1)) (wcost rest + (if wfound rest then 1 else 0))) ->
  good s (fst (let '(s1, r) := n3_lookup um s q in
               match r with
               | LkMatch tys => (s1, onmatch tys)
               | LkWork e => (s1, NWork e)
               | _ => tail s1
               end)) (pbound ((q, w) :: rest)).
Proof.
  intros um s q w rest tail onmatch Hl Ht. unfold pbound.
  pose proof (lookup_step um s q Hl) as L. pose proof (lookup_class um s q) as C.
  destruct (n3_lookup um s q) as [s1 r]. cbn [snd] in C. destruct L as (G & _ & W & _).
  assert (H1 : lenf (led s1)) by exact (good_lenf _ _ _ G).
  assert (Hrest : (forall e, r <> LkWork e) -> (n3_inz q = false \/ (n3_look q =? 1) = false) ->
          good s (fst (tail s1)) (wcost ((q, w) :: rest) + (if wfound ((q, w) :: rest) then 1 else 0))).
  { intros Hw Hc. destruct (walk_cons_nomatch q w rest Hc) as [-> ->]. rewrite <- N.add_assoc.
    eapply good_trans; [exact G|]. apply Ht; [exact H1|exact (W Hw)|exact Hc]. }
  destruct r.
  - destruct C as [Cz Cm]. destruct (walk_cons_match q w rest Cz Cm) as [-> ->]. rewrite Cz in G. cbn [fst].
    eapply good_weaken; [exact G|cbn; lia].
  - apply Hrest; [discriminate|exact C].
  - apply Hrest; [discriminate|exact C].
  - apply Hrest; [discriminate|exact C].
  - cbn [fst]. eapply good_weaken; [exact G|]. rewrite C. pose proof (walk_inz_pos q w rest C). cbn [b2N]. lia.
Qed.

Lemma nodata_step : forall um isds s chain, lenf (led s) -> good s (fst (n3_nodata um isds s chain)) (pbound chain).
Proof.
  intros um isds s [|[q w] rest] Hl; cbn [n3_nodata]; [cbn [fst]; apply good_refl; exact Hl|].
  change (good s (fst (let '(s1, r) := n3_lookup um s q in
                       match r with
                       | LkMatch tys => (s1, if ty_has tys 1 then NFail
                                             else if isds && ty_has tys 2 then NFail
                                             else if negb isds && ty_has tys 4 && negb (ty_has tys 2) then NFail else NOk)
                       | LkWork e => (s1, NWork e)
                       | _ => nodata_rest um isds s1 ((q, w) :: rest)
                       end)) (pbound ((q, w) :: rest))).
  apply (first_look um s q w rest (fun s1 => nodata_rest um isds s1 ((q, w) :: rest))); [exact Hl|].
  intros s1 H1 Kq Hc. unfold nodata_rest. destruct isds.
  - eapply good_weaken; [apply (optout_gen um s1 _ (wcost rest) (wfound rest) H1); apply ce_known_head; assumption|lia].
  - apply (enclosed_gen um s1 _ _ 1 (wcost rest) (wfound rest) H1); [apply ce_known_head; assumption|].
    intros s2 wc nc H2 Kn. apply cover_free; [exact H2|exact Kn|].
    intros s3 _ H3. pose proof (lookup_step um s3 wc H3) as L3. destruct (n3_lookup um s3 wc) as [s4 rw]. destruct L3 as (G3 & _).
    assert (G4 : good s3 s4 1) by (eapply good_weaken; [exact G3|apply b2N_le1]).
    destruct rw; cbn [fst]; exact G4.
Qed.

Lemma delegation_step : forall um s chain, lenf (led s) -> good s (fst (n3_delegation um s chain)) (pbound chain).
Proof.
  intros um s [|[q w] rest] Hl; cbn [n3_delegation]; [cbn [fst]; apply good_refl; exact Hl|].
  apply (first_look um s q w rest (fun s1 => n3_optout um s1 ((q, w) :: rest))
           (fun tys => if negb (ty_has tys 4) then NFail else if ty_has tys 16 || ty_has tys 2 then NFail else NOk)); [exact Hl|].
  intros s1 H1 Kq Hc.
  eapply good_weaken; [apply (optout_gen um s1 _ (wcost rest) (wfound rest) H1); apply ce_known_head; assumption|lia].
Qed.

Lemma wildcard_step : forall um s chain, lenf (led s) -> good s (fst (n3_wildcard um s chain)) (pbound chain).
Proof.
  intros um s [|[nc w] rest] Hl; cbn [n3_wildcard]; [cbn [fst]; apply good_refl; exact Hl|].
  unfold n3_cover. pose proof (lookup_step um s nc Hl) as L. destruct (n3_lookup um s nc) as [s1 r]. destruct L as (G & _).
  assert (Hb : b2N (n3_inz nc) <= pbound ((nc, w) :: rest)).
  { unfold pbound. destruct (n3_inz nc) eqn:Ez; cbn [b2N]; [pose proof (walk_inz_pos nc w rest Ez)|]; lia. }
  destruct r; cbn [fst]; eapply good_weaken; try exact G; exact Hb.
Qed.

(* one validation *)
Lemma validate_step : forall um l memo p, lenf l ->
  let '(l', memo', v) := n3_validate um l memo p in
  lenf l' /\ l_pol l' = l_pol l /\ l_n3 l' <= l_n3 l + n3_proof_bound p /\
  (l_n3 l <= p_max_n3 (l_pol l) -> l_n3 l' <= p_max_n3 (l_pol l)).
Proof.
  intros um l memo [[[[kind isds] par] mixed] chain] Hl. unfold n3_validate, n3_proof_bound.
  destruct (negb (n3_usable par) || mixed).
  { repeat split; try apply Hl; lia. }
  assert (Eb : (let '(c, f) := walk_cost chain in c + (if f then 1 else 0)) = pbound chain)
    by (unfold pbound, wcost, wfound; destruct (walk_cost chain); reflexivity).
  rewrite Eb.
  assert (Hs : lenf (led (l, memo, @nil nat))) by exact Hl.
  destruct (kind =? 0).
  - pose proof (name_error_step um _ chain Hs) as G. destruct (n3_name_error um (l, memo, []) chain) as [[[l1 m1] loc1] v]. exact G.
  - destruct (kind =? 1).
    + pose proof (nodata_step um isds _ chain Hs) as G. destruct (n3_nodata um isds (l, memo, []) chain) as [[[l1 m1] loc1] v]. exact G.
    + destruct (kind =? 2).
      * pose proof (delegation_step um _ chain Hs) as G. destruct (n3_delegation um (l, memo, []) chain) as [[[l1 m1] loc1] v]. exact G.
      * pose proof (wildcard_step um _ chain Hs) as G. destruct (n3_wildcard um (l, memo, []) chain) as [[[l1 m1] loc1] v]. exact G.
Qed.

Lemma run_step : forall um ps l memo, lenf l ->
  let '(l', _, _) := n3_run um l memo ps in
  lenf l' /\ l_pol l' = l_pol l /\ l_n3 l' <= l_n3 l + n3_shape_bound ps /\
  (l_n3 l <= p_max_n3 (l_pol l) -> l_n3 l' <= p_max_n3 (l_pol l)).
Proof.
  induction ps as [|p rest IH]; intros l memo Hl; cbn [n3_run].
  - repeat split; try apply Hl; cbn; lia.
  - pose proof (validate_step um l memo p Hl) as V. destruct (n3_validate um l memo p) as [[l1 m1] v].
    destruct V as (L1 & P1 & B1 & M1).
    pose proof (IH l1 m1 L1) as R. destruct (n3_run um l1 m1 rest) as [[l2 m2] vs]. destruct R as (L2 & P2 & B2 & M2).
    split; [exact L2|]. split; [congruence|]. split.
    + unfold n3_shape_bound in *. cbn [fold_right]. lia.
    + intros H. rewrite P1 in M2. apply M2. apply M1. exact H.
Qed.

(* ---- the theorem: enforce mode, a fresh request tree, ANY sequence of validations of any shape *)
Lemma nsec3_hash_work_bounded_lemma : forall H um ps,
  let '(l, _, _) := n3_run um (new_ledger (n3_policy mode_enforce H)) [] ps in
  l_n3 l <= H /\ l_n3 l <= n3_shape_bound ps.
Proof.
  intros H um ps.
  assert (Hl : lenf (new_ledger (n3_policy mode_enforce H))) by (split; reflexivity).
  pose proof (run_step um ps _ [] Hl) as R. destruct (n3_run um (new_ledger (n3_policy mode_enforce H)) [] ps) as [[l m] vs].
  destruct R as (_ & P & B & M). split.
  - change H with (p_max_n3 (l_pol (new_ledger (n3_policy mode_enforce H)))). apply M. cbn. lia.
  - cbn in B. lia.
Qed.

(* records the validator must not use — above the iteration cap, another hash algorithm, undefined flags — are dropped
   before any hash work: the validation fails, the ledger and the memo are untouched; whatever mode *)
Lemma unusable_records_cost_nothing : forall um l memo kind isds halg flags iters mixed chain,
  (max_nsec3_iterations < iters \/ halg <> 1 \/ 1 < flags) ->
  n3_validate um l memo (kind, isds, (halg, flags, iters), mixed, chain) = (l, memo, NFail).
Proof.
  intros um l memo kind isds halg flags iters mixed chain H. unfold n3_validate. rewrite gen_nsec3_safe.
  assert (E : (halg =? 1) && (iters <=? max_nsec3_iterations) && ((flags =? 0) || (flags =? 1)) = false).
  { destruct H as [H|[H|H]].
    - apply N.leb_gt in H. rewrite H. now rewrite Bool.andb_false_r.
    - apply N.eqb_neq in H. now rewrite H.
    - assert (flags =? 0 = false) by (apply N.eqb_neq; lia). assert (flags =? 1 = false) by (apply N.eqb_neq; lia).
      rewrite H0, H1. now rewrite Bool.andb_false_r. }
  rewrite E. reflexivity.
Qed.

(* ---- shadow mode: nothing is refused *)
Lemma debit_n3_shadow : forall l, lsh l ->
  let '(l', r) := debit l kind_nsec3_hash true in lsh l' /\ r = ROk.
Proof.
  intros l [Hm Hl]. unfold debit, control_error. rewrite Hl.
  rewrite enabled_cases, Hm. change (mode_shadow =? mode_shadow) with true. cbn [orb negb].
  change (agg_dim (l_pol l) kind_nsec3_hash) with (Some (4, p_max_n3 (l_pol l), bit_nsec3_hash)). cbv iota.
  set (c := wrap32 (get_ctr l 4 + 1)).
  assert (Hs : lsh (set_ctr l 4 c)) by (split; [exact Hm|exact Hl]).
  destruct (c =? wrap32 (p_max_n3 (l_pol l) + 1)); [|split; [exact Hs|reflexivity]].
  destruct (mark_exhausted_ctr (set_ctr l 4 c) kind_nsec3_hash bit_nsec3_hash false) as (Hp & _ & _ & _ & _ & _ & Hr & _).
  destruct Hs as [Hm' Hl']. split; [split; [congruence|unfold is_live in *; now rewrite Hr]|reflexivity].
Qed.

Definition nowork (v : n3res) : Prop := forall e, v <> NWork e.

Lemma lookup_shadow : forall um s nm, lsh (led s) ->
  let '(s', r) := n3_lookup um s nm in lsh (led s') /\ (forall e, r <> LkWork e).
Proof.
  intros um [[l memo] loc] nm Hl. unfold n3_lookup, n3_hash.
  destruct (negb (n3_inz nm)); [split; [exact Hl|discriminate]|].
  destruct (mem_nat (n3_id nm) loc).
  { split; [exact Hl|]. destruct (n3_look nm =? 1); [discriminate|]. destruct (n3_look nm =? 2); [discriminate|].
    destruct (n3_look nm =? 3); discriminate. }
  destruct (um && mem_nat (n3_id nm) memo).
  { split; [exact Hl|]. destruct (n3_look nm =? 1); [discriminate|]. destruct (n3_look nm =? 2); [discriminate|].
    destruct (n3_look nm =? 3); discriminate. }
  pose proof (debit_n3_shadow l Hl) as D. destruct (debit l kind_nsec3_hash true) as [l1 r]. destruct D as [L1 ->].
  split; [exact L1|]. destruct (n3_look nm =? 1); [discriminate|]. destruct (n3_look nm =? 2); [discriminate|].
  destruct (n3_look nm =? 3); discriminate.
Qed.

Lemma ce_from_shadow : forall um chain s prev, lsh (led s) ->
  let '(s', r) := n3_ce_from um s prev chain in lsh (led s') /\ (forall e, r <> CEWork e).
Proof.
  induction chain as [|[nm wc] rest IH]; intros s prev Hl; cbn [n3_ce_from]; [split; [exact Hl|discriminate]|].
  pose proof (lookup_shadow um s nm Hl) as L. destruct (n3_lookup um s nm) as [s1 r]. destruct L as (L1 & W).
  destruct r; try (apply IH; exact L1); [split; [exact L1|discriminate]|exfalso; exact (W e eq_refl)].
Qed.

Lemma ce_shadow : forall um chain s, lsh (led s) ->
  let '(s', r) := n3_ce um s chain in lsh (led s') /\ (forall e, r <> CEWork e).
Proof.
  intros um [|[nm wc] rest] s Hl; cbn [n3_ce]; [split; [exact Hl|discriminate]|].
  pose proof (lookup_shadow um s nm Hl) as L. destruct (n3_lookup um s nm) as [s1 r]. destruct L as (L1 & W).
  destruct r; try (apply ce_from_shadow; exact L1); [split; [exact L1|discriminate]|exfalso; exact (W e eq_refl)].
Qed.

Definition shk (sv : n3st * n3res) : Prop := lsh (led (fst sv)) /\ nowork (snd sv).

Lemma cover_shadow : forall um s nm k, lsh (led s) ->
  (forall s1 oo, lsh (led s1) -> shk (k s1 oo)) -> shk (n3_cover um s nm k).
Proof.
  intros um s nm k Hl Hk. unfold n3_cover.
  pose proof (lookup_shadow um s nm Hl) as L. destruct (n3_lookup um s nm) as [s1 r]. destruct L as (L1 & W).
  destruct r; try (split; [exact L1|intros e; discriminate]); [apply Hk; exact L1|exfalso; exact (W e eq_refl)].
Qed.

Lemma enclosed_shadow : forall um s chain k, lsh (led s) ->
  (forall s1 wc nc, lsh (led s1) -> shk (k s1 wc nc)) -> shk (n3_enclosed um s chain k).
Proof.
  intros um s chain k Hl Hk. unfold n3_enclosed.
  pose proof (ce_shadow um chain s Hl) as C. destruct (n3_ce um s chain) as [s1 c]. destruct C as (L1 & W).
  destruct c; try (split; [exact L1|intros e'; discriminate]); [|exfalso; exact (W e eq_refl)].
  destruct (bad_encloser tys); [split; [exact L1|intros e'; discriminate]|]. apply Hk. exact L1.
Qed.

Lemma const_shadow : forall s (v : n3res), lsh (led s) -> nowork v -> shk (s, v).
Proof. intros. split; assumption. Qed.

Lemma optout_shadow : forall um s chain, lsh (led s) -> shk (n3_optout um s chain).
Proof.
  intros um s chain Hl. unfold n3_optout. apply enclosed_shadow; [exact Hl|]. intros s1 wc nc H1.
  apply cover_shadow; [exact H1|]. intros s2 oo H2. apply const_shadow; [exact H2|]. destruct oo; intros e; discriminate.
Qed.

Lemma validate_shadow : forall um l memo p, lsh l ->
  let '(l', _, v) := n3_validate um l memo p in lsh l' /\ nowork v.
Proof.
  intros um l memo [[[[kind isds] par] mixed] chain] Hl. unfold n3_validate.
  destruct (negb (n3_usable par) || mixed); [split; [exact Hl|intros e; discriminate]|].
  assert (Hs : lsh (led (l, memo, @nil nat))) by exact Hl.
  assert (K : shk (if kind =? 0 then n3_name_error um (l, memo, []) chain
                   else if kind =? 1 then n3_nodata um isds (l, memo, []) chain
                   else if kind =? 2 then n3_delegation um (l, memo, []) chain else n3_wildcard um (l, memo, []) chain)).
  { destruct (kind =? 0); [|destruct (kind =? 1); [|destruct (kind =? 2)]].
    - unfold n3_name_error. apply enclosed_shadow; [exact Hs|]. intros s1 wc nc H1. apply cover_shadow; [exact H1|].
      intros s2 _ H2. apply cover_shadow; [exact H2|]. intros s3 _ H3. apply const_shadow; [exact H3|intros e; discriminate].
    - destruct chain as [|[q w] rest]; cbn [n3_nodata]; [apply const_shadow; [exact Hs|intros e; discriminate]|].
      pose proof (lookup_shadow um _ q Hs) as L. destruct (n3_lookup um (l, memo, []) q) as [s1 r]. destruct L as (L1 & W).
      assert (Hrest : shk (if isds then n3_optout um s1 ((q, w) :: rest)
                           else n3_enclosed um s1 ((q, w) :: rest) (fun s2 wc nc =>
                                  n3_cover um s2 nc (fun s3 _ =>
                                    let '(s4, rw) := n3_lookup um s3 wc in
                                    match rw with
                                    | LkMatch tys => (s4, if ty_has tys 1 then NFail else NOk)
                                    | LkWork e => (s4, NWork e)
                                    | _ => (s4, NFail)
                                    end)))).
      { destruct isds; [apply optout_shadow; exact L1|]. apply enclosed_shadow; [exact L1|]. intros s2 wc nc H2.
        apply cover_shadow; [exact H2|]. intros s3 _ H3.
        pose proof (lookup_shadow um s3 wc H3) as L3. destruct (n3_lookup um s3 wc) as [s4 rw]. destruct L3 as (L4 & W4).
        destruct rw; try (apply const_shadow; [exact L4|intros e'; discriminate]).
        - apply const_shadow; [exact L4|]. destruct (ty_has tys 1); intros e'; discriminate.
        - exfalso; exact (W4 e eq_refl). }
      destruct r; try exact Hrest.
      + apply const_shadow; [exact L1|]. destruct (ty_has tys 1); [intros e; discriminate|].
        destruct (isds && ty_has tys 2); [intros e; discriminate|].
        destruct (negb isds && ty_has tys 4 && negb (ty_has tys 2)); intros e; discriminate.
      + exfalso; exact (W e eq_refl).
    - destruct chain as [|[q w] rest]; cbn [n3_delegation]; [apply const_shadow; [exact Hs|intros e; discriminate]|].
      pose proof (lookup_shadow um _ q Hs) as L. destruct (n3_lookup um (l, memo, []) q) as [s1 r]. destruct L as (L1 & W).
      destruct r; try (apply optout_shadow; exact L1).
      + apply const_shadow; [exact L1|]. destruct (negb (ty_has tys 4)); [intros e; discriminate|].
        destruct (ty_has tys 16 || ty_has tys 2); intros e; discriminate.
      + exfalso; exact (W e eq_refl).
    - destruct chain as [|[q w] rest]; cbn [n3_wildcard]; [apply const_shadow; [exact Hs|intros e; discriminate]|].
      apply cover_shadow; [exact Hs|]. intros s1 _ H1. apply const_shadow; [exact H1|intros e; discriminate]. }
  destruct (if kind =? 0 then n3_name_error um (l, memo, []) chain
            else if kind =? 1 then n3_nodata um isds (l, memo, []) chain
            else if kind =? 2 then n3_delegation um (l, memo, []) chain else n3_wildcard um (l, memo, []) chain) as [[[l1 m1] loc1] v].
  exact K.
Qed.

Lemma nsec3_shadow_never_refuses_lemma : forall H um ps,
  let '(_, _, vs) := n3_run um (new_ledger (n3_policy mode_shadow H)) [] ps in Forall nowork vs.
Proof.
  intros H um ps.
  assert (Hl : lsh (new_ledger (n3_policy mode_shadow H))) by (split; reflexivity).
  revert Hl. generalize (new_ledger (n3_policy mode_shadow H)) as l. generalize (@nil nat) as memo.
  induction ps as [|p rest IH]; intros memo l Hl; cbn [n3_run]; [constructor|].
  pose proof (validate_shadow um l memo p Hl) as V. destruct (n3_validate um l memo p) as [[l1 m1] v]. destruct V as (L1 & N1).
  pose proof (IH m1 l1 L1) as R. destruct (n3_run um l1 m1 rest) as [[l2 m2] vs]. constructor; assumption.
Qed.

(* non-vacuity: a.b.c.z under zone z, closest encloser z (NXDOMAIN: 4 suffixes inside the zone + the wildcard = 5 hashes);
   on a budget of 3 the walk is refused at the fourth name; the same validation again on a budget of 8 costs 5, and
   a second time in the same tree nothing (the tree's memo), without a memo 5 again; 151 iterations: nothing at all *)
Example n3_example :
  let nm := fun i look => mk_n3 i true look false 0 in
  let chain := [(nm 0%nat 2, nm 10%nat 0); (nm 1%nat 2, nm 11%nat 0); (nm 2%nat 2, nm 12%nat 0);
                (mk_n3 3 true 1 false 6, nm 13%nat 2); (mk_n3 4 false 0 false 0, mk_n3 14 false 0 false 0)] in
  let p := (0, false, (1, 0, 5), false, chain) : n3proof in
  (let '(l, _, vs) := n3_run true (new_ledger (n3_policy mode_enforce 3)) [] [p] in
   l_n3 l = 3 /\ vs = [NWork (RLimit kind_nsec3_hash 3)] /\ N.land (l_exh l) bit_nsec3_hash = bit_nsec3_hash) /\
  (let '(l, _, vs) := n3_run true (new_ledger (n3_policy mode_enforce 8)) [] [p; p] in l_n3 l = 5 /\ vs = [NOk; NOk]) /\
  (let '(l, _, vs) := n3_run false (new_ledger (n3_policy mode_enforce 8)) [] [p; p] in
   l_n3 l = 8 /\ vs = [NOk; NWork (RLimit kind_nsec3_hash 8)]) /\
  (let '(l, _, vs) := n3_run true (new_ledger (n3_policy mode_enforce 8)) [] [(0, false, (1, 0, 151), false, chain)] in
   l_n3 l = 0 /\ vs = [NFail]) /\
  n3_shape_bound [p] = 5 /\ distinct (n3_ids [p; p]) = 5%nat /\ memo_cap = 64%nat.
Proof. vm_compute. repeat split. Qed.
