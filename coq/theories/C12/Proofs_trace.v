(* C12 — the skeleton, step by step (session 3).

   Part 1: every trace of every guarded program passes [steps_ok] in enforce mode: the budget
           invariant holds at every exchange and every sub-run start, not only at the end.
   Part 2: every trace of the client program passes [tree_run]: sub-pipeline runs nest properly, each
           one's context (queryer nesting, CNAME-chase depth, DNAME depth, NS-lookup mark, best-effort
           mark) derives from its parent's by one of the three legitimate steps, hence the three depth
           counters never pass their caps.
   The same two checkers are applied by Run.check_case to the event sequence the lab driver records
   from the real resolver (upstream packet arrivals and sub-pipeline entries/exits with the ledger's
   counters and the context values read at that moment). *)
From Coq Require Import Relations.
From Sdns Require Import Common.Base Gen.C12 C12.Model C12.Skeleton C12.Proofs_ledger C12.Proofs_run C12.Proofs_skeleton.
Open Scope N_scope.

(* ---------------------------------------------------------------- Part 1: stepwise budgets *)

Record sinv (pol : policy) (w : wstate) : Prop := mk_sinv {
  s_pol : l_pol (w_led w) = pol;
  s_enf : p_mode pol = mode_enforce;
  s_live : wlive w;
  s_out : l_out (w_led w) <= p_max_out pol;
  s_int : l_int (w_led w) <= p_max_int pol;
  s_x : w_exch w <= l_out (w_led w);      (* exchanges so far <= accepted outbound debits *)
  s_s : w_sub w <= l_int (w_led w) }.     (* sub-runs so far <= accepted internal debits *)

Lemma steps_ok_X : forall maxo maxi nx ns po pi o i r,
  nx + 1 <= o -> po <= o -> pi <= i -> o <= maxo -> i <= maxi ->
  steps_ok true maxo maxi (nx + 1) ns o i r = true ->
  steps_ok true maxo maxi nx ns po pi (EvX o i :: r) = true.
Proof.
  intros. cbn [steps_ok negb orb]. rewrite H4.
  repeat (apply andb_true_intro; split); try apply N.leb_le; auto.
Qed.

Lemma steps_ok_S : forall maxo maxi nx ns po pi l o i r,
  ns + 1 <= i -> po <= o -> pi <= i -> o <= maxo -> i <= maxi ->
  steps_ok true maxo maxi nx (ns + 1) o i r = true ->
  steps_ok true maxo maxi nx ns po pi (EvS l o i :: r) = true.
Proof.
  intros. cbn [steps_ok negb orb]. rewrite H4.
  repeat (apply andb_true_intro; split); try apply N.leb_le; auto.
Qed.

Lemma trace_steps_ok {A} : forall (p : prog A), guarded p ->
  forall adv pol w po pi, sinv pol w -> po <= l_out (w_led w) -> pi <= l_int (w_led w) ->
  steps_ok true (p_max_out pol) (p_max_int pol) (w_exch w) (w_sub w) po pi (trace adv p w) = true.
Proof.
  intros p G. induction G as [a|n k Hk IH|be k kerr Gk IHk Gerr IHerr|be k kerr Gk IHk Gerr IHerr
                               |be l k kerr Gk IHk Gerr IHerr|be k kerr Gk IHk Gerr IHerr|k Gk IH|k Gk IH];
    intros adv pol w po pi Hi Hpo Hpi.
  - reflexivity.
  - cbn [trace].
    assert (Hb : (Nat.modulo (adv (w_tick w)) (S n) <= n)%nat) by (pose proof (Nat.mod_upper_bound (adv (w_tick w)) (S n)); lia).
    assert (Hi' : sinv pol (w_ticked w)) by (destruct Hi; constructor; assumption).
    exact (IH _ Hb adv pol (w_ticked w) po pi Hi' Hpo Hpi).
  - (* outbound debit, then the exchange *)
    cbn [trace]. destruct Hi as [Hp He Hl Ho Hn Hx Hs].
    assert (Hm : p_mode (l_pol (w_led w)) = mode_enforce) by (rewrite Hp; exact He).
    pose proof (debit_enforce_out (w_led w) (negb be) Hm Hl) as D. unfold ctx_debit.
    destruct (debit (w_led w) kind_outbound (negb be)) as [l' r].
    destruct D as (Dp & Dl & Di & [(-> & Hlt & Hout)|((lim & ->) & Hout)]).
    + cbn [trace w_set_led w_led]. rewrite Hp in *.
      apply steps_ok_X; cbn [w_led w_exch w_sub w_exchanged w_set_led]; try lia.
      apply (IHk adv pol (w_exchanged (w_set_led w l'))); cbn; [|lia|lia].
      constructor; cbn; try assumption; try congruence; try lia.
    + apply (IHerr _ adv pol (w_set_led w l')); cbn; [|lia|lia]. constructor; cbn; try assumption; try congruence; try lia.
  - cbn [trace]. destruct Hi as [Hp He Hl Ho Hn Hx Hs].
    assert (Hm : p_mode (l_pol (w_led w)) = mode_enforce) by (rewrite Hp; exact He).
    pose proof (debit_enforce_out (w_led w) (negb be) Hm Hl) as D. unfold ctx_debit.
    destruct (debit (w_led w) kind_outbound (negb be)) as [l' r].
    destruct D as (Dp & Dl & Di & [(-> & Hlt & Hout)|((lim & ->) & Hout)]).
    + rewrite Hp in *. apply (IHk adv pol (w_set_led w l')); cbn; [|lia|lia]. constructor; cbn; try assumption; try congruence; try lia.
    + apply (IHerr _ adv pol (w_set_led w l')); cbn; [|lia|lia]. constructor; cbn; try assumption; try congruence; try lia.
  - (* internal debit, then the sub-run *)
    cbn [trace]. destruct Hi as [Hp He Hl Ho Hn Hx Hs].
    assert (Hm : p_mode (l_pol (w_led w)) = mode_enforce) by (rewrite Hp; exact He).
    pose proof (debit_enforce_int (w_led w) (negb be) Hm Hl) as D. unfold ctx_debit.
    destruct (debit (w_led w) kind_internal (negb be)) as [l' r].
    destruct D as (Dp & Dl & Do & [(-> & Hlt & Hint)|((lim & ->) & Hint)]).
    + cbn [trace w_set_led w_led]. rewrite Hp in *.
      apply steps_ok_S; cbn [w_led w_exch w_sub w_subbed w_set_led]; try lia.
      apply (IHk adv pol (w_subbed (w_set_led w l'))); cbn; [|lia|lia].
      constructor; cbn; try assumption; try congruence; try lia.
    + apply (IHerr _ adv pol (w_set_led w l')); cbn; [|lia|lia]. constructor; cbn; try assumption; try congruence; try lia.
  - cbn [trace]. destruct Hi as [Hp He Hl Ho Hn Hx Hs].
    assert (Hm : p_mode (l_pol (w_led w)) = mode_enforce) by (rewrite Hp; exact He).
    pose proof (debit_enforce_int (w_led w) (negb be) Hm Hl) as D. unfold ctx_debit.
    destruct (debit (w_led w) kind_internal (negb be)) as [l' r].
    destruct D as (Dp & Dl & Do & [(-> & Hlt & Hint)|((lim & ->) & Hint)]).
    + rewrite Hp in *. apply (IHk adv pol (w_set_led w l')); cbn; [|lia|lia]. constructor; cbn; try assumption; try congruence; try lia.
    + apply (IHerr _ adv pol (w_set_led w l')); cbn; [|lia|lia]. constructor; cbn; try assumption; try congruence; try lia.
  - cbn [trace steps_ok]. apply IH; assumption.
  - cbn [trace]. apply IH; assumption.
Qed.

Lemma stepwise_budgets_lemma {A} : forall (p : prog A) pol adv, guarded p -> p_mode pol = mode_enforce ->
  steps_ok true (p_max_out pol) (p_max_int pol) 0 0 0 0 (trace adv p (fresh pol)) = true.
Proof.
  intros p pol adv G Hm.
  apply (trace_steps_ok p G adv pol (fresh pol) 0 0); cbn; try lia.
  constructor; cbn; try reflexivity; try assumption; lia.
Qed.

(* ---------------------------------------------------------------- Part 2: the call tree of sub-runs *)

Inductive bal {A} (v6 : bool) : slabel * list slabel -> slabel * list slabel -> prog A -> Prop :=
| b_ret : forall s a, bal v6 s s (Ret a)
| b_choose : forall s s' n k, (forall i, (i <= n)%nat -> bal v6 s s' (k i)) -> bal v6 s s' (Choose n k)
| b_out : forall s s' be kok kerr, bal v6 s s' kok -> (forall e, bal v6 s s' (kerr e)) -> bal v6 s s' (DebitOut be kok kerr)
| b_int : forall s s' be kok kerr, bal v6 s s' kok -> (forall e, bal v6 s s' (kerr e)) -> bal v6 s s' (DebitInt be kok kerr)
| b_exch : forall s s' k, bal v6 s s' k -> bal v6 s s' (Exchange k)
| b_sub : forall cur st s' l k, child_ok v6 cur l = true -> bal v6 (l, cur :: st) s' k -> bal v6 (cur, st) s' (SubRun l k)
| b_end : forall cur par st s' k, bal v6 (par, st) s' k -> bal v6 (cur, par :: st) s' (SubEnd k)
| b_enf : forall s s' k, (forall e, bal v6 s s' (k e)) -> bal v6 s s' (EnfErr k).

Lemma bal_bind {A B} : forall v6 s s' s'' (p : prog A) (f : A -> prog B),
  bal v6 s s' p -> (forall a, bal v6 s' s'' (f a)) -> bal v6 s s'' (bind p f).
Proof.
  intros v6 s s' s'' p f Hb Hf. induction Hb; cbn.
  - apply Hf.
  - apply b_choose. auto.
  - apply b_out; auto.
  - apply b_int; auto.
  - apply b_exch. auto.
  - apply b_sub; auto.
  - apply b_end. auto.
  - apply b_enf. auto.
Qed.

Lemma bal_tree_run {A} : forall v6 s s' (p : prog A), bal v6 s s' p ->
  forall adv w, tree_run v6 (fst s) (snd s) (trace adv p w) = Some s'.
Proof.
  intros v6 s s' p Hb. induction Hb; intros adv w; cbn [trace tree_run fst snd] in *.
  - destruct s; reflexivity.
  - apply H0. pose proof (Nat.mod_upper_bound (adv (w_tick w)) (S n)). lia.
  - destruct (ctx_debit w kind_outbound be) as [w1 r]. destruct r; auto.
  - destruct (ctx_debit w kind_internal be) as [w1 r]. destruct r; auto.
  - apply IHHb.
  - rewrite H. apply IHHb.
  - apply IHHb.
  - apply H0.
Qed.

(* programs that stay inside the run whose context carries (nest, c) — a sub-pipeline run or a direct sub-resolution
   inside it: balanced, whatever lies below on the stack *)
Definition balc {A} (v6 : bool) (nest : nat) (c : cx) (p : prog A) : Prop :=
  forall l st, sl_nest l = nest -> sl_cx l = c -> bal v6 (l, st) (l, st) p.

Section Balc.
  Variable v6 : bool.
  Variable nest : nat.
  Variable c : cx.
  Lemma balc_ret {A} : forall a : A, balc v6 nest c (Ret a).
  Proof. intros a l st _ _. apply b_ret. Qed.
  Lemma balc_choose {A} : forall n (k : nat -> prog A), (forall i, (i <= n)%nat -> balc v6 nest c (k i)) -> balc v6 nest c (Choose n k).
  Proof. intros n k H l st Hn Hc. apply b_choose. intros i Hi. apply H; assumption. Qed.
  Lemma balc_out_x {A} : forall be (k : prog A) kerr, balc v6 nest c k -> (forall e, balc v6 nest c (kerr e)) -> balc v6 nest c (DebitOut be (Exchange k) kerr).
  Proof. intros be k kerr H1 H2 l st Hn Hc. apply b_out; [apply b_exch; apply H1; assumption|intros e; apply H2; assumption]. Qed.
  Lemma balc_enf {A} : forall (k : res -> prog A), (forall e, balc v6 nest c (k e)) -> balc v6 nest c (EnfErr k).
  Proof. intros k H l st Hn Hc. apply b_enf. intros e. apply H; assumption. Qed.
  Lemma balc_bind {A B} : forall (p : prog A) (f : A -> prog B), balc v6 nest c p -> (forall a, balc v6 nest c (f a)) -> balc v6 nest c (bind p f).
  Proof. intros p f H1 H2 l st Hn Hc. eapply bal_bind; [apply H1; assumption|intros a; apply H2; assumption]. Qed.
  Lemma balc_if {A} : forall (b : bool) (p q : prog A), (b = true -> balc v6 nest c p) -> balc v6 nest c q -> balc v6 nest c (if b then p else q).
  Proof. intros [|] p q H1 H2; auto. Qed.
End Balc.

Lemma cx_eqb_refl : forall c, cx_eqb c c = true.
Proof. intros c. unfold cx_eqb. rewrite !Bool.eqb_reflx, !Nat.eqb_refl. reflexivity. Qed.

(* ---- exchange, lookup: no sub-runs at all *)
Definition kbal (v6 : bool) (nest : nat) (c : cx) (ok : option (nat -> prog xout)) : Prop :=
  match ok with Some k => forall l, balc v6 nest c (k l) | None => True end.

Lemma xlayer_balc : forall v6 nest c rs tk fk be left, kbal v6 nest c rs -> kbal v6 nest c tk -> kbal v6 nest c fk ->
  balc v6 nest c (xlayer rs tk fk be left).
Proof.
  intros v6 nest c rs tk fk be left Hr Ht Hf. induction left as [|l' IH]; cbn.
  - apply balc_out_x; [|intros; apply balc_ret]. apply balc_choose. intros [|[|[|i]]] _; try apply balc_ret.
    + destruct tk; [apply Ht|apply balc_ret].
    + destruct fk; [apply Hf|apply balc_ret].
  - apply balc_out_x; [|intros; apply balc_ret]. apply balc_choose. intros [|[|[|i]]] _; try apply balc_ret.
    + destruct l'; [destruct rs; [apply Hr|exact IH]|exact IH].
    + destruct tk; [apply Ht|apply balc_ret].
    + destruct fk; [apply Hf|apply balc_ret].
Qed.

Lemma exchange_balc : forall v6 nest c be, balc v6 nest c (exchange be).
Proof.
  intros v6 nest c be. unfold exchange, x_udp_opt. apply xlayer_balc; cbn; intros l; unfold x_tcp_opt, x_udp_noopt;
    apply xlayer_balc; cbn; auto; intros l'; unfold x_tcp_noopt; apply xlayer_balc; cbn; auto.
Qed.

Lemma stragglers_balc : forall v6 nest c be n, balc v6 nest c (stragglers be n).
Proof.
  intros v6 nest c be n. induction n as [|n IH]; cbn; [apply balc_ret|].
  apply balc_choose. intros [|i] _; [apply balc_ret|]. apply balc_bind; [apply exchange_balc|auto].
Qed.

Lemma lookup_balc : forall v6 nest c be n, balc v6 nest c (lookup be n).
Proof.
  intros v6 nest c be n. induction n as [|n IH]; cbn.
  - apply balc_choose. intros [|[|[|i]]] _; apply balc_ret.
  - apply balc_bind; [apply exchange_balc|]. intros [| |]; try apply balc_ret; [|exact IH].
    apply balc_choose. intros [|i] _; [|exact IH]. apply balc_bind; [apply stragglers_balc|intros; apply balc_ret].
Qed.

(* ---- NS-address walks through any queryer *)
Lemma ns_lookups_balc_gen : forall v6 nest c (q : cx -> prog reply) cc s h,
  balc v6 nest c (q cc) -> balc v6 nest c (ns_lookups q cc s h).
Proof.
  intros v6 nest c q cc s h Hq. induction h as [|h IH]; cbn; [apply balc_ret|].
  apply balc_bind; [exact Hq|]. intros r. destruct r; try exact IH. destruct s; [apply balc_ret|exact IH].
Qed.

(* ---- resolve and the rest of one pipeline run, given the three queryers *)
Section WithQueryer.
  Variable maxdepth qmin : nat.
  Variable v6 : bool.
  Variable Smax Fmax : nat.
  Variable nq nq0 : cx -> prog reply.
  Variable vq : cx -> prog vres.
  Variable nest : nat.                       (* queryerDepthKey of the run we are in *)
  (* a nested query is balanced when its context is a legitimate child of ours *)
  Hypothesis nq_balc : forall c cc, child_cx_ok v6 c cc = true -> balc v6 nest c (nq cc).
  (* the first query of a detached walk is balanced under any run (IPv6Access only) *)
  Hypothesis nq0_balc : v6 = true -> forall c, cx_walk c = false -> balc v6 nest c (nq0 cx_fresh).
  (* validation stays inside the run it validates for *)
  Hypothesis vq_balc : forall c, balc v6 nest c (vq c).

  Lemma child_ns : forall c, child_cx_ok v6 c (nsl_cx c) = true.
  Proof.
    intros c. unfold child_cx_ok, nsl_cx. cbn. rewrite !Nat.eqb_refl, !Bool.eqb_reflx. cbn.
    rewrite ?Bool.orb_true_r. reflexivity.
  Qed.
  Lemma child_dname : forall c, (N.of_nat (cx_dname c) <? max_dname_depth) = true ->
    child_cx_ok v6 c (mk_cx (cx_be c) (cx_chase c) (S (cx_dname c)) (cx_nsl c) (cx_walk c)) = true.
  Proof.
    intros c H. unfold child_cx_ok. cbn. rewrite H, !Nat.eqb_refl, !Bool.eqb_reflx. cbn.
    rewrite ?Bool.orb_true_r. reflexivity.
  Qed.
  Lemma child_chase : forall c, (N.of_nat (cx_chase c) <? max_cname_chase_depth) = true ->
    child_cx_ok v6 c (mk_cx (cx_be c) (S (cx_chase c)) (cx_dname c) (cx_nsl c) (cx_walk c)) = true.
  Proof.
    intros c H. unfold child_cx_ok. cbn. rewrite H, !Nat.eqb_refl, !Bool.eqb_reflx. reflexivity.
  Qed.

  Lemma ns_lookups_balc : forall c cc s h, child_cx_ok v6 c cc = true -> balc v6 nest c (ns_lookups nq cc s h).
  Proof. intros c cc s h Hc. apply ns_lookups_balc_gen. apply nq_balc. exact Hc. Qed.

  Lemma validated_balc : forall c k, balc v6 nest c k -> balc v6 nest c (validated vq c k).
  Proof. intros c k Hk. unfold validated. apply balc_bind; [apply vq_balc|]. intros []; try apply balc_ret. exact Hk. Qed.

  Lemma answer_step_balc : forall c, balc v6 nest c (answer_step nq c).
  Proof.
    intros c. unfold answer_step. apply balc_choose. intros [|i] _; [apply balc_ret|].
    destruct (_ <? _)%N eqn:E; [|apply balc_ret]. apply balc_bind; [apply nq_balc; apply child_dname; exact E|]. intros []; apply balc_ret.
  Qed.

  Lemma resolve_balc : forall c k, Acc rlt k -> forall depth nomin unch lvl n (a : Acc rlt (rkey depth nomin unch lvl)),
    k = rkey depth nomin unch lvl ->
    balc v6 nest c (resolve_acc qmin v6 Smax Fmax nq nq0 vq c depth nomin unch lvl n a).
  Proof.
    intros c k Hk. induction Hk as [k _ IH]. intros depth nomin unch lvl n a ->.
    assert (REC : forall d' nm' u' l' n' a', rlt (rkey d' nm' u' l') (rkey depth nomin unch lvl) ->
                  balc v6 nest c (resolve_acc qmin v6 Smax Fmax nq nq0 vq c d' nm' u' l' n' a')).
    { intros d' nm' u' l' n' a' p. eapply IH; [exact p|reflexivity]. }
    clear IH. rewrite resolve_acc_eq. unfold resolve_F.
    apply balc_bind; [apply lookup_balc|]. intros [ | | | | ].
    - (* LResp *)
      apply balc_choose. intros [|[|cls]] _.
      + destruct (inspectb _) as [E|E]; [|apply validated_balc; apply balc_ret]. apply REC. apply ob_level; exact E.
      + destruct (inspectb _) as [E|E]; [|apply validated_balc; apply answer_step_balc]. apply REC. apply ob_level; exact E.
      + apply balc_choose. intros [|[|[|[|[|[|sub]]]]]] _; try apply balc_ret.
        * destruct (inspectb _) as [E|E]; [|apply balc_ret]. apply REC. apply ob_level; exact E.
        * apply validated_balc. apply balc_ret.
        * destruct (inspectb _) as [E|E]; [|apply balc_ret]. apply balc_choose. intros n' _.
          apply REC. eapply ob_parent; exact E.
        * destruct (inspectb _) as [E|E]; [|apply balc_ret]. apply balc_choose. intros n' _. apply balc_choose. intros l' Hl'.
          apply REC. apply ob_descend; exact E.
        * destruct (inspectb _) as [E|E]; [|apply balc_ret]. apply balc_choose. intros l' Hl'.
          apply REC. apply ob_penalty; exact E.
        * apply validated_balc.
          apply balc_choose. intros h _. apply balc_bind; [apply ns_lookups_balc; apply child_ns|]. intros [rr|]; [apply balc_ret|].
          apply balc_choose. intros [|has] _.
          -- destruct (inspectb _) as [E|E]; [|apply balc_ret]. apply REC. apply ob_level; exact E.
          -- apply balc_bind.
             ++ apply balc_if; [intros Ev|apply balc_ret]. apply Bool.andb_true_iff in Ev. destruct Ev as [Ev Ew]. apply Bool.negb_true_iff in Ew.
                apply balc_choose. intros h6 _. apply ns_lookups_balc_gen. apply nq0_balc; assumption.
             ++ intros _. destruct (inspectb _) as [E|E]; [|apply balc_ret]. apply balc_choose. intros n' _. apply balc_choose. intros l' Hl'.
                apply REC. apply ob_descend; exact E.
    - apply balc_ret.
    - destruct (inspectb _) as [E|E]; [|apply balc_ret]. apply REC. apply ob_nomin; exact E.
    - destruct (inspectb _) as [E|E].
      + apply REC. apply ob_nomin; exact E.
      + destruct (cx_nsl c); [apply balc_ret|]. destruct (inspectb unch) as [E'|E']; [|apply balc_ret].
        apply balc_choose. intros h _. apply balc_bind; [apply ns_lookups_balc; apply child_ns|]. intros _.
        apply balc_bind; [apply balc_if; [intros _; apply ns_lookups_balc; apply child_ns|apply balc_ret]|]. intros _.
        apply balc_choose. intros [|grew] _; [apply balc_ret|]. apply balc_choose. intros n' _.
        apply REC. apply ob_checked; exact E'.
    - destruct (inspectb _) as [E|E]; [|apply balc_ret]. apply REC. apply ob_nomin; exact E.
  Qed.

  Lemma handle_balc : forall c, balc v6 nest c (handle maxdepth qmin v6 Smax Fmax nq nq0 vq c).
  Proof.
    intros c. unfold handle. apply balc_enf. intros []; try apply balc_ret.
    apply balc_choose. intros l0 Hl0. apply balc_choose. intros n0 _.
    apply balc_bind; [unfold resolve; eapply resolve_balc; [apply rlt_wf|reflexivity]|].
    intros r. apply balc_enf. intros []; apply balc_ret.
  Qed.

  Lemma chase_balc : forall c left, (N.of_nat (cx_chase c) <? max_cname_chase_depth) = true -> balc v6 nest c (chase nq c left).
  Proof.
    intros c left Hc. induction left as [|l IH]; cbn; [apply balc_ret|].
    apply balc_choose. intros [|m] _; [apply balc_ret|]. apply balc_bind; [apply nq_balc; apply child_chase; exact Hc|].
    intros []; try apply balc_ret; apply balc_choose; intros [|s] _; try apply balc_ret; exact IH.
  Qed.

  Lemma chase_gate_balc : forall c, balc v6 nest c (chase_gate nq c).
  Proof. intros c. unfold chase_gate. destruct (_ <? _)%N eqn:E; [apply chase_balc; exact E|apply balc_ret]. Qed.

  Lemma write_failure_balc : forall c b, balc v6 nest c (write_failure c b).
  Proof. intros. unfold write_failure. apply balc_enf. intros []; apply balc_ret. Qed.

  Lemma pipeline_balc : forall c, balc v6 nest c (pipeline maxdepth qmin v6 Smax Fmax nq nq0 vq c).
  Proof.
    intros c. unfold pipeline. apply balc_choose. intros [|hit] _.
    - unfold pipeline_miss. apply balc_bind; [apply handle_balc|].
      intros []; try apply write_failure_balc.
      + apply balc_choose. intros [|sf] _; [|apply write_failure_balc].
        apply balc_bind; [apply chase_gate_balc|]. intros []; try apply write_failure_balc. apply balc_ret.
      + apply balc_choose. intros i _. apply write_failure_balc.
    - unfold pipeline_hit. apply balc_bind; [apply chase_gate_balc|].
      intros []; try apply balc_ret; apply balc_enf; intros []; apply balc_ret.
  Qed.
End WithQueryer.

(* ---- validation sub-queries: direct sub-resolutions stay inside the run they validate for (Resolver.subQuery does
   not pass the sub-pipeline and does not touch queryerDepthKey) *)
Section ValidatorBal.
  Variable maxdepth qmin : nat.
  Variable v6 : bool.
  Variable Smax Fmax G : nat.
  Variable nq nq0 : cx -> prog reply.
  Variable nest : nat.
  Hypothesis nq_balc : forall c cc, child_cx_ok v6 c cc = true -> balc v6 nest c (nq cc).
  Hypothesis nq0_balc : v6 = true -> forall c, cx_walk c = false -> balc v6 nest c (nq0 cx_fresh).

  Lemma subq_balc : forall inner c, (forall cc, balc v6 nest cc (inner cc)) ->
    balc v6 nest c (subq maxdepth qmin v6 Smax Fmax nq nq0 nest inner c).
  Proof.
    intros inner c Hi. unfold subq. apply balc_choose. intros [|hit] _; [apply balc_ret|].
    intros l st Hn Hc. apply b_int; [|intros; apply b_ret].
    apply b_sub.
    - unfold child_ok. cbn [sl_direct sl_nest sl_cx]. rewrite Hn, Hc, Nat.eqb_refl, cx_eqb_refl. cbn.
      rewrite Bool.orb_true_r. reflexivity.
    - apply b_choose. intros l0 _. apply b_choose. intros n0 _.
      eapply bal_bind.
      + unfold resolve. eapply (resolve_balc qmin v6 Smax Fmax nq nq0 inner nest nq_balc nq0_balc Hi c); [apply rlt_wf|reflexivity|reflexivity|reflexivity].
      + intros r. apply b_end. apply b_enf. intros []; try apply b_ret. destruct r; try apply b_ret.
        apply b_choose. intros [|i] _; apply b_ret.
  Qed.

  Lemma subqs_balc : forall inner k c, (forall cc, balc v6 nest cc (inner cc)) ->
    balc v6 nest c (subqs maxdepth qmin v6 Smax Fmax nq nq0 nest inner k c).
  Proof.
    intros inner k c Hi. induction k as [|k IH]; cbn [subqs]; [apply balc_ret|].
    apply balc_bind; [apply subq_balc; exact Hi|]. intros []; try apply balc_ret. exact IH.
  Qed.

  Lemma vstep_balc : forall vsame vless lab c, (forall cc, balc v6 nest cc (vsame cc)) -> (forall cc, balc v6 nest cc (vless cc)) ->
    balc v6 nest c (vstep maxdepth qmin v6 Smax Fmax nq nq0 nest vsame vless lab c).
  Proof.
    intros vsame vless lab c Hs Hl. unfold vstep. apply balc_choose. intros k _. apply subqs_balc.
    intros cc. apply balc_choose. intros [|i] _; auto.
  Qed.

  Lemma vrep_of_balc : forall vless lab, (forall cc, balc v6 nest cc (vless cc)) ->
    forall rep c, balc v6 nest c (vrep_of maxdepth qmin v6 Smax Fmax nq nq0 nest vless lab rep c).
  Proof.
    intros vless lab Hl rep. induction rep as [|r IH]; intros c; cbn [vrep_of]; apply vstep_balc; auto.
    intros cc. apply balc_ret.
  Qed.

  Lemma vlab_balc : forall lab rep c, balc v6 nest c (vlab maxdepth qmin v6 Smax Fmax G nq nq0 nest lab rep c).
  Proof.
    induction lab as [|l IH]; intros rep c; cbn [vlab]; apply vrep_of_balc; auto.
    intros cc. apply balc_ret.
  Qed.
End ValidatorBal.

(* ---- Query: one more level of nesting per query, up to maxQueryerRecursion; a detached generation starts from nesting 1 *)
Lemma maxQ_pos : (1 <= N.to_nat max_queryer_recursion)%nat.
Proof. vm_compute. lia. Qed.

Lemma queryg_bal : forall maxdepth qmin v6 Smax Fmax Lmax G gen q, (q <= N.to_nat max_queryer_recursion)%nat ->
  forall cur c, match q with O => True | S q' => child_ok v6 cur (mk_sl (N.to_nat max_queryer_recursion - q') c) = true end ->
  forall st, bal v6 (cur, st) (cur, st) (queryg maxdepth qmin v6 Smax Fmax Lmax G gen q c).
Proof.
  intros maxdepth qmin v6 Smax Fmax Lmax G gen. induction gen as [gen IHg] using lt_wf_ind.
  induction q as [|q IH]; intros Hq cur c Hc st.
  - destruct gen; cbn; apply b_ret.
  - assert (E : queryg maxdepth qmin v6 Smax Fmax Lmax G gen (S q) c =
                DebitInt (cx_be c)
                  (SubRun (mk_sl (N.to_nat max_queryer_recursion - q) c)
                     (bind (pipeline maxdepth qmin v6 Smax Fmax (queryg maxdepth qmin v6 Smax Fmax Lmax G gen q)
                              (detached maxdepth qmin v6 Smax Fmax Lmax G gen)
                              (vlab maxdepth qmin v6 Smax Fmax G (queryg maxdepth qmin v6 Smax Fmax Lmax G gen q)
                                    (detached maxdepth qmin v6 Smax Fmax Lmax G gen) (N.to_nat max_queryer_recursion - q) Lmax G) c)
                        (fun r => SubEnd (EnfErr (fun e => match e with ROk => Ret r | e' => Ret (ReplyWork e' true) end)))))
                  (fun e => Ret (ReplyWork e true))) by (destruct gen; reflexivity).
    rewrite E. clear E.
    set (nest := (N.to_nat max_queryer_recursion - q)%nat).
    assert (NQ : forall c0 cc, child_cx_ok v6 c0 cc = true -> balc v6 nest c0 (queryg maxdepth qmin v6 Smax Fmax Lmax G gen q cc)).
    { intros c0 cc Hcc l0 st0 Hn0 Hc0. apply IH; [lia|].
      destruct q as [|q'']; [exact I|]. unfold child_ok. cbn [sl_nest sl_cx sl_direct negb andb]. rewrite Hn0, Hc0, Hcc. unfold nest.
      replace (N.to_nat max_queryer_recursion - q'')%nat with (S (N.to_nat max_queryer_recursion - S q'')) by lia.
      rewrite Nat.eqb_refl. cbn [andb]. rewrite Bool.andb_true_r.
      replace (S (N.to_nat max_queryer_recursion - S q'') <=? N.to_nat max_queryer_recursion)%nat with true; [reflexivity|].
      symmetry. apply Nat.leb_le. lia. }
    assert (NQ0 : v6 = true -> forall c0, cx_walk c0 = false -> balc v6 nest c0 (detached maxdepth qmin v6 Smax Fmax Lmax G gen cx_fresh)).
    { intros Ev c0 Hw l0 st0 _ Hc0. destruct gen as [|g']; cbn [detached]; [apply b_ret|].
      pose proof maxQ_pos as Hpos.
      replace (N.to_nat max_queryer_recursion) with (S (N.to_nat max_queryer_recursion - 1)) at 1 by lia.
      apply IHg; [lia|lia|].
      unfold child_ok, detached_root. cbn [sl_nest sl_cx sl_direct negb]. rewrite Ev, Hc0, Hw.
      replace (N.to_nat max_queryer_recursion - (N.to_nat max_queryer_recursion - 1))%nat with 1%nat by lia.
      cbn. rewrite Bool.orb_true_r. reflexivity. }
    apply b_int; [|intros; apply b_ret].
    apply b_sub; [exact Hc|].
    eapply bal_bind.
    + apply (pipeline_balc maxdepth qmin v6 Smax Fmax _ _ _ nest NQ NQ0); [|reflexivity|reflexivity].
      intros c0. apply vlab_balc; assumption.
    + intros r. apply b_end. apply b_enf. intros []; apply b_ret.
Qed.

Lemma client_balc : forall maxdepth qmin v6 Smax Fmax Lmax G gen c, balc v6 0 c (clientg maxdepth qmin v6 Smax Fmax Lmax G gen c).
Proof.
  intros. unfold clientg. pose proof maxQ_pos as Hpos.
  assert (NQ : forall c0 cc, child_cx_ok v6 c0 cc = true ->
               balc v6 0 c0 (queryg maxdepth qmin v6 Smax Fmax Lmax G gen (N.to_nat max_queryer_recursion) cc)).
  { intros c0 cc Hcc l0 st0 Hn0 Hc0.
    replace (N.to_nat max_queryer_recursion) with (S (N.to_nat max_queryer_recursion - 1)) at 1 by lia.
    apply queryg_bal; [lia|]. unfold child_ok. cbn [sl_nest sl_cx sl_direct negb andb]. rewrite Hn0, Hc0, Hcc.
    replace (N.to_nat max_queryer_recursion - (N.to_nat max_queryer_recursion - 1))%nat with 1%nat by lia.
    cbn. reflexivity. }
  assert (NQ0 : v6 = true -> forall c0, cx_walk c0 = false -> balc v6 0 c0 (detached maxdepth qmin v6 Smax Fmax Lmax G gen cx_fresh)).
  { intros Ev c0 Hw l0 st0 _ Hc0. destruct gen as [|g']; cbn [detached]; [apply b_ret|].
    replace (N.to_nat max_queryer_recursion) with (S (N.to_nat max_queryer_recursion - 1)) at 1 by lia.
    apply queryg_bal; [lia|]. unfold child_ok, detached_root. cbn [sl_nest sl_cx sl_direct negb]. rewrite Ev, Hc0, Hw.
    replace (N.to_nat max_queryer_recursion - (N.to_nat max_queryer_recursion - 1))%nat with 1%nat by lia.
    cbn. rewrite Bool.orb_true_r. reflexivity. }
  apply (pipeline_balc maxdepth qmin v6 Smax Fmax _ _ _ 0 NQ NQ0).
  intros c0. apply vlab_balc; assumption.
Qed.

Lemma client_call_tree_lemma : forall maxdepth qmin v6 Smax Fmax Lmax G gen c adv w,
  tree_run v6 (mk_sl 0 c) [] (trace adv (clientg maxdepth qmin v6 Smax Fmax Lmax G gen c) w) = Some (mk_sl 0 c, []).
Proof.
  intros. apply (bal_tree_run v6 (mk_sl 0 c, []) (mk_sl 0 c, [])). apply client_balc; reflexivity.
Qed.

(* an observer who learns each sub-run's parent directly sees only legitimate (parent, child) pairs *)
Lemma tree_run_pairs : forall v6 tr cur st s', tree_run v6 cur st tr = Some s' ->
  forallb (pair_ok v6) (pairs_of cur st tr) = true.
Proof.
  intros v6 tr. induction tr as [|e tr IH]; intros cur st s' H; cbn in *; [reflexivity|].
  destruct e as [o i|l o i|].
  - eapply IH; eauto.
  - destruct (child_ok v6 cur l) eqn:E; [|discriminate]. cbn. rewrite E. cbn. eapply IH; eauto.
  - destruct st as [|p st']; [discriminate|]. eapply IH; eauto.
Qed.

Lemma client_pairs_lemma : forall maxdepth qmin v6 Smax Fmax Lmax G gen c adv w,
  forallb (pair_ok v6) (pairs_of (mk_sl 0 c) [] (trace adv (clientg maxdepth qmin v6 Smax Fmax Lmax G gen c) w)) = true.
Proof. intros. eapply tree_run_pairs. apply client_call_tree_lemma. Qed.

(* what a legitimate step means for the depth counters: every sub-run that starts has a nesting of at most
   maxQueryerRecursion, and it can only have been started by a chase below maxCnameChaseDepth, a DNAME follow-up below
   maxDnameDepth, a nameserver-address lookup, or as the first query of a detached walk (nesting 1, counters 0) *)
Lemma child_ok_caps : forall v6 par ch, child_ok v6 par ch = true ->
  (N.of_nat (sl_nest ch) <= N.max (N.of_nat (sl_nest par)) max_queryer_recursion) /\
  N.of_nat (cx_chase (sl_cx ch)) <= N.of_nat (cx_chase (sl_cx par)) + 1 /\
  N.of_nat (cx_dname (sl_cx ch)) <= N.of_nat (cx_dname (sl_cx par)) + 1 /\
  (cx_chase (sl_cx ch) = S (cx_chase (sl_cx par)) -> N.of_nat (cx_chase (sl_cx ch)) <= max_cname_chase_depth) /\
  (cx_dname (sl_cx ch) = S (cx_dname (sl_cx par)) -> N.of_nat (cx_dname (sl_cx ch)) <= max_dname_depth).
Proof.
  intros v6 par ch H. unfold child_ok, detached_root, child_cx_ok, cx_eqb, cx_fresh in H.
  assert (Hq : max_queryer_recursion = 32) by reflexivity. assert (Hc : max_cname_chase_depth = 10) by reflexivity.
  assert (Hd : max_dname_depth = 10) by reflexivity. cbn in H.
  repeat match goal with
  | H : (_ && _)%bool = true |- _ => apply Bool.andb_true_iff in H; destruct H
  | H : (_ || _)%bool = true |- _ => apply Bool.orb_true_iff in H; destruct H
  | H : (_ =? _)%nat = true |- _ => apply Nat.eqb_eq in H
  | H : (_ <=? _)%nat = true |- _ => apply Nat.leb_le in H
  | H : (_ <? _)%N = true |- _ => apply N.ltb_lt in H
  end; repeat split; intros; lia.
Qed.
