(* C12 — Part I (wave 9): what the model's [ring_look] decides with the srcgen translation of
   dnssec.aggressiveNSEC3Covers IS interval arithmetic on the digests read as big-endian numbers — for digests of equal
   length whose elements are octets (what decodeAggressiveNSEC3Hash and prepareNSEC3Set guarantee: 20 octets each). *)
From Sdns Require Import Common.Base Gen.C12 C12.Model C12.ModelN3.
Open Scope N_scope.

(* an octet string read as a big-endian number *)
Fixpoint be (l : list N) : N :=
  match l with [] => 0 | x :: r => x * 256 ^ N.of_nat (length r) + be r end.
Definition octets (l : list N) : Prop := Forall (fun x => x < 256) l.

Lemma be_bound : forall l, octets l -> be l < 256 ^ N.of_nat (length l).
Proof.
  induction l as [|x r IH]; intros H; cbn [be length]; [cbn; lia|].
  inversion H as [|? ? Hx Hr]; subst. specialize (IH Hr).
  rewrite Nat2N.inj_succ, N.pow_succ_r'. set (P := 256 ^ N.of_nat (length r)) in *.
  assert (x * P <= 255 * P) by (apply N.mul_le_mono_r; lia). lia.
Qed.

Definition cmpZ (a b : N) : Z := match N.compare a b with Lt => (-1)%Z | Eq => 0%Z | Gt => 1%Z end.

(* bytes.Compare, as translated, on octet strings of equal length: the order of the numbers *)
Lemma bytes_compare_be : forall a b, length a = length b -> octets a -> octets b ->
  go_bytes_compare a b = cmpZ (be a) (be b).
Proof.
  induction a as [|x a' IH]; intros [|y b'] Hl Ha Hb; try discriminate; [reflexivity|].
  cbn [go_bytes_compare be length]. injection Hl as Hl. rewrite <- Hl.
  inversion Ha as [|? ? Hx Ha']; subst. inversion Hb as [|? ? Hy Hb']; subst.
  pose proof (be_bound a' Ha') as Ba. pose proof (be_bound b' Hb') as Bb. rewrite <- Hl in Bb.
  set (P := 256 ^ N.of_nat (length a')) in *.
  unfold cmpZ. destruct (x <? y) eqn:E1.
  - apply N.ltb_lt in E1. assert ((x + 1) * P <= y * P) by (apply N.mul_le_mono_r; lia).
    assert (L : x * P + be a' < y * P + be b') by lia. apply N.compare_lt_iff in L. now rewrite L.
  - destruct (y <? x) eqn:E2.
    + apply N.ltb_lt in E2. assert ((y + 1) * P <= x * P) by (apply N.mul_le_mono_r; lia).
      assert (L : y * P + be b' < x * P + be a') by lia. apply N.compare_gt_iff in L. now rewrite L.
    + apply N.ltb_ge in E1. apply N.ltb_ge in E2. assert (x = y) by lia. subst y.
      rewrite (IH b' Hl Ha' Hb'). unfold cmpZ.
      destruct (N.compare_spec (be a') (be b')) as [Q|Q|Q].
      * rewrite Q. now rewrite N.compare_refl.
      * assert (L : x * P + be a' < x * P + be b') by lia. apply N.compare_lt_iff in L. now rewrite L.
      * assert (L : x * P + be b' < x * P + be a') by lia. apply N.compare_gt_iff in L. now rewrite L.
Qed.

Lemma gen_nsec3_covers : forall rr o n h, length o = length h -> length n = length h ->
  octets o -> octets n -> octets h ->
  go_aggressiveNSEC3Covers (mk_T_aggressiveNSEC3Entry rr o n) h = covers_spec (be o) (be n) (be h).
Proof.
  intros rr o n h Lo Ln Ho Hn Hh. unfold go_aggressiveNSEC3Covers.
  cbn [T_aggressiveNSEC3Entry_ownerHash T_aggressiveNSEC3Entry_nextHash].
  rewrite (bytes_compare_be o n), (bytes_compare_be h o), (bytes_compare_be h n); try assumption; try congruence.
  unfold covers_spec, cmpZ.
  destruct (N.compare_spec (be o) (be n)) as [A|A|A];
  destruct (N.compare_spec (be h) (be o)) as [B|B|B];
  destruct (N.compare_spec (be h) (be n)) as [C|C|C]; cbn;
  repeat match goal with
  | |- context [?a =? ?b] => let E := fresh in destruct (a =? b) eqn:E; [apply N.eqb_eq in E|apply N.eqb_neq in E]
  | |- context [?a <? ?b] => let E := fresh in destruct (a <? b) eqn:E; [apply N.ltb_lt in E|apply N.ltb_ge in E]
  end; cbn; try reflexivity; try lia.
Qed.

(* the octet strings the model builds from a number are octet strings of the stated length *)
Lemma bytes_of_octets : forall k v, octets (bytes_of k v) /\ length (bytes_of k v) = k.
Proof.
  induction k as [|k IH]; intros v; cbn [bytes_of length]; [split; [constructor|reflexivity]|].
  destruct (IH v) as [O L]. split; [constructor; [apply N.mod_lt; lia|exact O]|now rewrite L].
Qed.

(* ... so for every record and every digest the model handles: the translated function is the interval test *)
Lemma ring_covers_is_interval : forall o n oo types h,
  cov_code (o, n, oo, types) h =
  covers_spec (be (bytes_of hash_octets o)) (be (bytes_of hash_octets n)) (be (bytes_of hash_octets h)).
Proof.
  intros. unfold cov_code, ring_entry.
  destruct (bytes_of_octets hash_octets o) as [Oo Lo]. destruct (bytes_of_octets hash_octets n) as [On Ln].
  destruct (bytes_of_octets hash_octets h) as [Oh Lh].
  apply gen_nsec3_covers; try assumption; congruence.
Qed.

(* non-vacuity: a ring of three records; the digest between the second and the third is covered by the second only; the
   digest below the first is covered by the wrap-around interval of the third; an owner is matched, not covered; with an
   extra record whose interval overlaps, a lookup is ambiguous; typesSet on the matched record's bitmap (NS without SOA) *)
Example ring_example :
  let ring := [(100, 200, false, [1; 46]); (200, 300, true, [2]); (300, 100, false, [2; 6; 46])] : list ringrec in
  ring_look 1 ring 250 = (2, true, 0) /\ ring_look 1 ring 50 = (2, false, 0) /\ ring_look 1 ring 400 = (2, false, 0) /\
  ring_look 1 ring 200 = (1, false, 4) /\ ring_look 1 ring 100 = (1, false, 1) /\ ring_look 1 ring 300 = (1, false, 6) /\
  ring_look 1 ((150, 260, false, [1]) :: ring) 250 = (3, false, 0) /\
  be (bytes_of hash_octets 281474976710655) = 281474976710655 /\
  covers_spec 300 100 50 = true /\ covers_spec 100 200 200 = false.
Proof. vm_compute. repeat split. Qed.
