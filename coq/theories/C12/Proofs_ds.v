(* C12 — Part H: the DS step of verifyDNSSEC (VerifyDSWithWork, then DSMatchedKeys) never computes more digests than
   the tree's DS-digest budget and the per-record candidate allowance admit, whatever the DS set and the DNSKEY set look
   like, and a key is only confirmed after every digest on the way to its DS record was paid for. *)
From Sdns Require Import Common.Base Gen.C12 C12.Model C12.Proofs_ledger C12.Proofs_sig C12.ModelDS.
Open Scope N_scope.

Lemma check_local_cand_enforce : forall l used, lenf l ->
  let '(l', r) := check_local l kind_dnskey_candidate used true in
  lenf l' /\ l_pol l' = l_pol l /\ l_ds l' = l_ds l /\
  ((r = ROk /\ used < p_max_key (l_pol l)) \/ (exists kk ll, r = RLimit kk ll)).
Proof.
  intros l used [Hm Hl]. unfold check_local, control_error. rewrite Hl.
  rewrite enabled_cases, Hm. change (mode_enforce =? mode_shadow) with false. change (mode_enforce =? mode_enforce) with true.
  cbn [orb negb]. change (local_dim (l_pol l) kind_dnskey_candidate) with (Some (p_max_key (l_pol l), bit_dnskey_candidate)). cbv beta iota.
  destruct (used <? p_max_key (l_pol l)) eqn:E.
  - apply N.ltb_lt in E. split; [split; assumption|]. split; [reflexivity|]. split; [reflexivity|]. left. split; [reflexivity|exact E].
  - destruct (mark_exhausted_ctr l kind_dnskey_candidate bit_dnskey_candidate true) as (Hp & _ & _ & _ & Hd & _ & Hr & _).
    split; [split; [congruence|unfold is_live in *; now rewrite Hr]|]. split; [exact Hp|]. split; [exact Hd|]. right. eauto.
Qed.

Lemma debit_ds_enforce : forall l, lenf l ->
  let '(l', r) := debit l kind_ds_digest true in
  lenf l' /\ l_pol l' = l_pol l /\
  ((r = ROk /\ l_ds l < p_max_ds (l_pol l) /\ l_ds l' = l_ds l + 1) \/ ((exists kk ll, r = RLimit kk ll) /\ l_ds l' = l_ds l)).
Proof.
  intros l [Hm Hl]. unfold debit, control_error. rewrite Hl.
  rewrite enabled_cases, Hm. change (mode_enforce =? mode_shadow) with false. change (mode_enforce =? mode_enforce) with true.
  cbn [orb negb]. change (agg_dim (l_pol l) kind_ds_digest) with (Some (3, p_max_ds (l_pol l), bit_ds_digest)).
  cbv iota. change (get_ctr l 3) with (l_ds l).
  destruct (p_max_ds (l_pol l) <=? l_ds l) eqn:E.
  - destruct (mark_exhausted_ctr l kind_ds_digest bit_ds_digest true) as (Hp & _ & _ & _ & Hd & _ & Hr & _).
    split; [split; [congruence|unfold is_live in *; now rewrite Hr]|]. split; [exact Hp|]. right. split; eauto.
  - apply N.leb_gt in E. cbn. split; [split; [exact Hm|exact Hl]|]. split; [reflexivity|]. left. repeat split; auto.
Qed.

Ltac dfin := unfold lenf in *; repeat match goal with H : _ /\ _ |- _ => destruct H end; repeat split; try congruence; try lia.

(* the candidates of one DS record *)
Lemma ds_cands_bound : forall cs l used, lenf l ->
  let '(l', r) := ds_cands l used cs in
  lenf l' /\ l_pol l' = l_pol l /\ l_ds l <= l_ds l' /\
  l_ds l' <= l_ds l + N.of_nat (length cs) /\
  (used <= p_max_key (l_pol l) -> l_ds l' + used <= l_ds l + p_max_key (l_pol l)) /\
  (l_ds l <= p_max_ds (l_pol l) -> l_ds l' <= p_max_ds (l_pol l)) /\
  (* confirmed, or all tried in vain: every digest on the way was paid *)
  (r = Some DOk -> l_ds l' = l_ds l + fst (cands_cost cs) /\ snd (cands_cost cs) = true) /\
  (r = None -> l_ds l' = l_ds l + fst (cands_cost cs) /\ snd (cands_cost cs) = false).
Proof.
  induction cs as [|[i m] rest IH]; intros l used He; cbn [ds_cands cands_cost length].
  - cbn. dfin; try discriminate; lia.
  - pose proof (check_local_cand_enforce l used He) as C1.
    destruct (check_local l kind_dnskey_candidate used true) as [l1 r1].
    destruct C1 as (E1 & P1 & D1 & [(-> & Hk)|(kk & ll & ->)]); [|dfin; try discriminate; lia].
    pose proof (debit_ds_enforce l1 E1) as C2.
    destruct (debit l1 kind_ds_digest true) as [l2 r2].
    destruct C2 as (E2 & P2 & [(-> & Hd & Hd2)|((kk & ll & ->) & Hd2)]); [|rewrite P1 in *; dfin; try discriminate; lia].
    rewrite P1 in *. destruct m.
    + cbn [fst snd]. dfin; try discriminate; lia.
    + specialize (IH l2 (used + 1) E2).
      destruct (ds_cands l2 (used + 1) rest) as [l' r]. destruct (cands_cost rest) as [n hit] eqn:Ec.
      cbn [fst snd] in *. rewrite P2 in IH.
      destruct IH as (E' & P' & A1 & A2 & A3 & A4 & A5 & A6).
      split; [exact E'|]. split; [congruence|]. split; [lia|]. split; [lia|]. split; [lia|]. split; [lia|].
      split; intros Hr.
      * destruct (A5 Hr). split; [lia|assumption].
      * destruct (A6 Hr). split; [lia|assumption].
Qed.

Lemma shape_bound_cons : forall K d rest,
  ds_shape_bound K (d :: rest) = (if ds_usable d then N.min K (N.of_nat (length (snd d))) else 0) + ds_shape_bound K rest.
Proof. reflexivity. Qed.

(* one pass over the DS set *)
Lemma verify_ds_loop_bound : forall dsl l sup, lenf l ->
  let '(l', r) := verify_ds_loop l sup dsl in
  lenf l' /\ l_pol l' = l_pol l /\ l_ds l <= l_ds l' /\
  l_ds l' <= l_ds l + ds_shape_bound (p_max_key (l_pol l)) dsl /\
  (l_ds l <= p_max_ds (l_pol l) -> l_ds l' <= p_max_ds (l_pol l)) /\
  (r = DOk -> l_ds l' = l_ds l + fst (pass_cost dsl) /\ snd (pass_cost dsl) = true).
Proof.
  induction dsl as [|d rest IH]; intros l sup He.
  - cbn. destruct sup; dfin; try discriminate; lia.
  - cbn [verify_ds_loop pass_cost]. rewrite shape_bound_cons. destruct d as [[s dec] cs].
    destruct s; cbn [negb].
    + destruct (ds_usable (true, dec, cs)) eqn:Eu; cbn [negb snd].
      * pose proof (ds_cands_bound cs l 0 He) as B.
        destruct (ds_cands l 0 cs) as [l1 r]. destruct B as (E1 & P1 & A1 & A2 & A3 & A4 & A5 & A6).
        specialize (A3 (N.le_0_l _)).
        destruct r as [v|].
        -- split; [exact E1|]. split; [exact P1|]. split; [lia|]. split; [lia|]. split; [exact A4|].
           intros ->. destruct (A5 eq_refl) as [X Y]. destruct (cands_cost cs) as [n hit]. cbn [fst snd] in *. subst hit. cbn [fst snd]. split; [exact X|reflexivity].
        -- specialize (IH l1 true E1). destruct (verify_ds_loop l1 true rest) as [l' r'].
           destruct (A6 eq_refl) as [X Y]. destruct (cands_cost cs) as [n hit]. cbn [fst snd] in *. subst hit.
           destruct (pass_cost rest) as [n' hit']. cbn [fst snd] in *. rewrite P1 in IH.
           destruct IH as (E' & P' & B1 & B2 & B3 & B4).
           split; [exact E'|]. split; [congruence|]. split; [lia|]. split; [lia|]. split; [lia|].
           intros Hr. destruct (B4 Hr). split; [lia|assumption].
      * specialize (IH l true He). destruct (verify_ds_loop l true rest) as [l' r'].
        destruct IH as (E' & P' & B1 & B2 & B3 & B4).
        split; [exact E'|]. split; [exact P'|]. split; [lia|]. split; [lia|]. split; [exact B3|]. exact B4.
    + replace (ds_usable (false, dec, cs)) with false by reflexivity. cbv iota.
      specialize (IH l sup He). destruct (verify_ds_loop l sup rest) as [l' r'].
      destruct IH as (E' & P' & B1 & B2 & B3 & B4).
      split; [exact E'|]. split; [exact P'|]. split; [lia|]. split; [lia|]. split; [exact B3|]. exact B4.
Qed.

Lemma verify_ds_bound : forall dsl l, lenf l ->
  let '(l', r) := verify_ds l dsl in
  lenf l' /\ l_pol l' = l_pol l /\ l_ds l <= l_ds l' /\
  l_ds l' <= l_ds l + ds_shape_bound (p_max_key (l_pol l)) dsl /\
  (l_ds l <= p_max_ds (l_pol l) -> l_ds l' <= p_max_ds (l_pol l)) /\
  (r = DOk -> l_ds l' = l_ds l + fst (pass_cost dsl) /\ snd (pass_cost dsl) = true).
Proof.
  intros dsl l He. destruct dsl as [|d rest].
  - cbn. dfin; try discriminate; lia.
  - change (verify_ds l (d :: rest)) with (verify_ds_loop l false (d :: rest)). now apply verify_ds_loop_bound.
Qed.

(* a one-key pass that succeeds: a supported, well-formed record naming that key carries its digest *)
Lemma restrict_hit : forall j dsl, snd (pass_cost (restrict j dsl)) = true -> has_match j dsl = true.
Proof.
  induction dsl as [|d rest IH]; cbn [restrict map pass_cost has_match existsb]; [discriminate|].
  destruct d as [[s dec] cs]. fold (restrict j rest). fold (has_match j rest).
  set (f := filter (fun c : nat * bool => Nat.eqb (fst c) j) cs).
  assert (Hf : snd (cands_cost f) = true -> existsb (fun c : nat * bool => Nat.eqb (fst c) j && snd c) cs = true).
  { subst f. clear. induction cs as [|[i m] r IHr]; cbn [filter cands_cost existsb fst snd]; [discriminate|].
    destruct (Nat.eqb i j) eqn:Ei; cbn [andb orb].
    - cbn [cands_cost]. destruct m; cbn [snd orb]; [reflexivity|].
      destruct (cands_cost (filter (fun c : nat * bool => Nat.eqb (fst c) j) r)) as [n hit]. cbn [snd] in *. exact IHr.
    - exact IHr. }
  intros H. unfold ds_vouches, ds_usable in *. cbn [snd] in *.
  destruct s, dec; cbn [andb] in *; try (apply Bool.orb_true_iff; right; apply IH; exact H).
  destruct f as [|c0 f'] eqn:Ef.
  - apply Bool.orb_true_iff; right; apply IH; exact H.
  - destruct (cands_cost (c0 :: f')) as [n hit] eqn:Ec. destruct hit.
    + apply Bool.orb_true_iff; left.
      assert (Hne : match cs with [] => false | _ :: _ => true end = true).
      { destruct cs; [subst f; discriminate|reflexivity]. }
      rewrite Hne. cbn [andb]. apply Hf. reflexivity.
    + destruct (pass_cost (restrict j rest)) as [n' hit']. cbn [snd] in H.
      apply Bool.orb_true_iff; right; apply IH; exact H.
Qed.

(* the per-key passes of DSMatchedKeys *)
Lemma matched_keys_bound : forall korder dsl l, lenf l ->
  let '(l', m) := matched_keys l dsl korder in
  lenf l' /\ l_pol l' = l_pol l /\
  (l_ds l <= p_max_ds (l_pol l) -> l_ds l' <= p_max_ds (l_pol l)) /\
  l_ds l + fold_right (fun j a => fst (pass_cost (restrict j dsl)) + a) 0 m <= l_ds l' /\
  forallb (fun j => has_match j dsl) m = true /\
  (forall j, In j m -> In j korder).
Proof.
  induction korder as [|j rest IH]; intros dsl l He; cbn [matched_keys].
  - cbn. dfin; try lia; try (intros ? []); try contradiction.
  - pose proof (verify_ds_bound (restrict j dsl) l He) as B.
    destruct (verify_ds l (restrict j dsl)) as [l1 r]. destruct B as (E1 & P1 & A1 & A2 & A3 & A4).
    specialize (IH dsl l1 E1). destruct (matched_keys l1 dsl rest) as [l2 m].
    rewrite P1 in IH. destruct IH as (E2 & P2 & B1 & B2 & B3 & B4).
    split; [exact E2|]. split; [congruence|]. split; [lia|].
    destruct r; cbn [fold_right forallb].
    + destruct (A4 eq_refl) as [X Y]. split; [lia|]. split.
      * rewrite (restrict_hit j dsl Y). exact B3.
      * intros k [<-|Hk]; [now left|right; auto].
    + split; [lia|]. split; [exact B3|]. intros k Hk; right; auto.
    + split; [lia|]. split; [exact B3|]. intros k Hk; right; auto.
    + split; [lia|]. split; [exact B3|]. intros k Hk; right; auto.
Qed.

(* the DS step as verifyDNSSEC runs it, enforce mode, a fresh request tree, ANY DS set, key set and visiting order *)
Lemma ds_digest_work_bounded_lemma : forall K D dsl korder,
  let pol := ds_policy mode_enforce K D in
  let '(l, v, m) := ds_run (new_ledger pol) dsl korder in
  l_ds l <= D /\
  l_ds (fst (verify_ds (new_ledger pol) dsl)) <= ds_shape_bound K dsl /\
  (* every confirmed key: a supported, well-formed DS naming it carries its digest, and the digests of the first
     pass and of the pass that confirmed it — one per DS record on the way — are all on the ledger *)
  forallb (fun j => has_match j dsl) m = true /\
  (v = DOk -> fst (pass_cost dsl) + fold_right (fun j a => fst (pass_cost (restrict j dsl)) + a) 0 m <= l_ds l).
Proof.
  intros K D dsl korder pol.
  assert (He : lenf (new_ledger pol)) by (split; reflexivity).
  unfold ds_run. pose proof (verify_ds_bound dsl (new_ledger pol) He) as B.
  destruct (verify_ds (new_ledger pol) dsl) as [l1 v]. destruct B as (E1 & P1 & A1 & A2 & A3 & A4).
  change (l_ds (new_ledger pol)) with 0 in *. change (p_max_ds (l_pol (new_ledger pol))) with D in *.
  change (p_max_key (l_pol (new_ledger pol))) with K in *. cbn [fst].
  specialize (A3 (N.le_0_l _)).
  destruct v; try (cbn; repeat split; try lia; discriminate).
  pose proof (matched_keys_bound korder dsl l1 E1) as M.
  destruct (matched_keys l1 dsl korder) as [l2 m]. destruct M as (E2 & P2 & B1 & B2 & B3 & B4).
  rewrite P1 in B1. change (p_max_ds (l_pol (new_ledger pol))) with D in B1.
  destruct (A4 eq_refl) as [X Y].
  split; [auto|]. split; [lia|]. split; [exact B3|]. intros _. lia.
Qed.

(* ---- shadow mode: nothing is refused *)
Definition lsh (l : ledger) : Prop := p_mode (l_pol l) = mode_shadow /\ is_live l = true.

Lemma check_local_cand_shadow : forall l used, lsh l ->
  let '(l', r) := check_local l kind_dnskey_candidate used true in lsh l' /\ r = ROk.
Proof.
  intros l used [Hm Hl]. unfold check_local, control_error. rewrite Hl.
  rewrite enabled_cases, Hm. change (mode_shadow =? mode_shadow) with true. cbn [orb negb].
  change (local_dim (l_pol l) kind_dnskey_candidate) with (Some (p_max_key (l_pol l), bit_dnskey_candidate)). cbv beta iota.
  destruct (used <? p_max_key (l_pol l)); [split; [split; assumption|reflexivity]|].
  destruct (used =? p_max_key (l_pol l)); [|split; [split; assumption|reflexivity]].
  destruct (mark_exhausted_ctr l kind_dnskey_candidate bit_dnskey_candidate false) as (Hp & _ & _ & _ & _ & _ & Hr & _).
  split; [split; [congruence|unfold is_live in *; now rewrite Hr]|reflexivity].
Qed.

Lemma debit_ds_shadow : forall l, lsh l ->
  let '(l', r) := debit l kind_ds_digest true in lsh l' /\ r = ROk.
Proof.
  intros l [Hm Hl]. unfold debit, control_error. rewrite Hl.
  rewrite enabled_cases, Hm. change (mode_shadow =? mode_shadow) with true. cbn [orb negb].
  change (agg_dim (l_pol l) kind_ds_digest) with (Some (3, p_max_ds (l_pol l), bit_ds_digest)). cbv iota.
  set (c := wrap32 (get_ctr l 3 + 1)).
  assert (Hs : lsh (set_ctr l 3 c)) by (split; [exact Hm|exact Hl]).
  destruct (c =? wrap32 (p_max_ds (l_pol l) + 1)); [|split; [exact Hs|reflexivity]].
  destruct (mark_exhausted_ctr (set_ctr l 3 c) kind_ds_digest bit_ds_digest false) as (Hp & _ & _ & _ & _ & _ & Hr & _).
  destruct Hs as [Hm' Hl']. split; [split; [congruence|unfold is_live in *; now rewrite Hr]|reflexivity].
Qed.

Lemma ds_cands_shadow : forall cs l used, lsh l ->
  let '(l', r) := ds_cands l used cs in lsh l' /\ (r = Some DOk \/ r = None).
Proof.
  induction cs as [|[i m] rest IH]; intros l used Hs; cbn [ds_cands]; [split; [exact Hs|now right]|].
  pose proof (check_local_cand_shadow l used Hs) as C1. destruct (check_local l kind_dnskey_candidate used true) as [l1 r1].
  destruct C1 as [S1 ->].
  pose proof (debit_ds_shadow l1 S1) as C2. destruct (debit l1 kind_ds_digest true) as [l2 r2]. destruct C2 as [S2 ->].
  destruct m; [split; [exact S2|now left]|]. apply IH. exact S2.
Qed.

Lemma verify_ds_loop_shadow : forall dsl l sup, lsh l ->
  let '(l', r) := verify_ds_loop l sup dsl in lsh l' /\ (forall e, r <> DWork e).
Proof.
  induction dsl as [|d rest IH]; intros l sup Hs; cbn [verify_ds_loop].
  - split; [exact Hs|]. destruct sup; discriminate.
  - destruct d as [[s dec] cs]. destruct (negb s); [apply IH; exact Hs|].
    destruct (negb (ds_usable (s, dec, cs))); [apply IH; exact Hs|].
    pose proof (ds_cands_shadow cs l 0 Hs) as C. destruct (ds_cands l 0 cs) as [l1 r]. destruct C as [S1 [->| ->]].
    + split; [exact S1|discriminate].
    + apply IH. exact S1.
Qed.

Lemma ds_shadow_never_refuses_lemma : forall K D dsl korder,
  let '(_, v, _) := ds_run (new_ledger (ds_policy mode_shadow K D)) dsl korder in forall e, v <> DWork e.
Proof.
  intros K D dsl korder. unfold ds_run.
  assert (Hs : lsh (new_ledger (ds_policy mode_shadow K D))) by (split; reflexivity).
  assert (B : let '(l', r) := verify_ds (new_ledger (ds_policy mode_shadow K D)) dsl in lsh l' /\ (forall e, r <> DWork e)).
  { destruct dsl as [|d rest]; [cbn; split; [exact Hs|discriminate]|].
    change (verify_ds ?l (d :: rest)) with (verify_ds_loop l false (d :: rest)). now apply verify_ds_loop_shadow. }
  destruct (verify_ds (new_ledger (ds_policy mode_shadow K D)) dsl) as [l1 v]. destruct B as [_ B].
  destruct v; try (intros e; discriminate).
  - destruct (matched_keys l1 dsl korder). intros e; discriminate.
  - exfalso. exact (B r eq_refl).
Qed.

(* non-vacuity: one key, twelve DS records naming it, the one that carries its digest last, a budget of four digests
   (the first pass is paid by a second key that the first record vouches for): the key is not confirmed, four digests
   were computed, the budget is marked exhausted — and with a budget of fourteen it is confirmed at a cost of 1 + 1 + 12 *)
Example ds_padded_set_example :
  let wrong := (true, true, [(0%nat, false); (1%nat, false)]) in
  let dsl := (true, true, [(0%nat, true); (1%nat, false)]) :: repeat wrong 10 ++ [(true, true, [(0%nat, false); (1%nat, true)])] in
  (let '(l, v, m) := ds_run (new_ledger (ds_policy mode_enforce 4 4)) dsl [0%nat; 1%nat] in
   v = DOk /\ m = [0%nat] /\ l_ds l = 4 /\ N.land (l_exh l) bit_ds_digest = bit_ds_digest) /\
  (let '(l, v, m) := ds_run (new_ledger (ds_policy mode_enforce 4 14)) dsl [0%nat; 1%nat] in
   v = DOk /\ m = [0%nat; 1%nat] /\ l_ds l = 14 /\ l_exh l = 0) /\
  ds_need dsl [0%nat; 1%nat] = 14.
Proof. vm_compute. repeat split. Qed.
