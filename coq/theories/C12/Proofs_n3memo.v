(* C12 — Part I (continued): the request tree's NSEC3 hash memo.  With a memo on the context, every distinct hash
   preimage — (parameters, zone, class, canonical name) — is paid for at most once per request tree, however many
   validations of the tree ask for it, as long as the tree meets no more distinct preimages than the memo holds
   (maxNSEC3HashMemoEntries): at every moment the NSEC3-hash counter equals the number of memo entries. *)
From Coq Require Import List.
From Sdns Require Import Common.Base Gen.C12 C12.Model C12.Proofs_ledger C12.Proofs_sig C12.Proofs_ds C12.ModelN3 C12.Proofs_n3.
Open Scope N_scope.

Section Memo.
  Variable S : list nat.
  Hypothesis Hcap : (distinct S <= memo_cap)%nat.

  Definition memo_of (s : n3st) : list nat := snd (fst s).
  Definition idok (nm : n3name) : Prop := n3_inz nm = true -> In (n3_id nm) S.
  (* every name the walk can reach is a preimage of S: the suffixes up to the first match, and its wildcard *)
  Fixpoint chainok (chain : list (n3name * n3name)) : Prop :=
    match chain with
    | [] => True
    | (nm, wc) :: rest => idok nm /\ (if n3_inz nm && (n3_look nm =? 1) then idok wc else chainok rest)
    end.
  Lemma chainok_nomatch : forall nm wc rest, chainok ((nm, wc) :: rest) ->
    (n3_inz nm = false \/ (n3_look nm =? 1) = false) -> chainok rest.
  Proof.
    intros nm wc rest [_ H] Hc. destruct (n3_inz nm) eqn:Ez; [|exact H].
    destruct (n3_look nm =? 1) eqn:Em; [destruct Hc; congruence|exact H].
  Qed.
  Lemma chainok_match : forall nm wc rest, chainok ((nm, wc) :: rest) ->
    n3_inz nm = true -> (n3_look nm =? 1) = true -> idok wc.
  Proof. intros nm wc rest [_ H] Ez Em. rewrite Ez, Em in H. exact H. Qed.

  (* enforce mode, live; the memo has no duplicates, holds only preimages of S, and the counter is its length *)
  Definition P (s : n3st) : Prop :=
    lenf (led s) /\ NoDup (memo_of s) /\ incl (memo_of s) S /\ l_n3 (led s) = N.of_nat (length (memo_of s)).

  Lemma mem_nat_In : forall x l, mem_nat x l = true <-> In x l.
  Proof.
    intros x l. unfold mem_nat. rewrite existsb_exists. split.
    - intros (y & Hy & E). apply Nat.eqb_eq in E. now subst.
    - intros H. exists x. split; [exact H|apply Nat.eqb_refl].
  Qed.

  Lemma room : forall m x, NoDup m -> incl m S -> ~ In x m -> In x S -> (length m <? memo_cap)%nat = true.
  Proof.
    intros m x Hn Hi Hx Hs. apply Nat.ltb_lt.
    assert (N2 : NoDup (x :: m)) by (constructor; assumption).
    assert (I2 : incl (x :: m) (nodup Nat.eq_dec S)).
    { intros y [<-|Hy]; apply nodup_In; [exact Hs|apply Hi; exact Hy]. }
    pose proof (NoDup_incl_length N2 I2) as L. cbn [length] in L. unfold distinct in Hcap. lia.
  Qed.

  Lemma hash_inv : forall s nm, P s -> idok nm -> P (fst (n3_hash true s nm)).
  Proof.
    intros [[l memo] loc] nm (Hl & Hn & Hi & Hc) Hok. unfold n3_hash. unfold P, led, memo_of in *. cbn [fst snd] in *.
    destruct (n3_inz nm) eqn:Ez; cbn [negb]; [|cbn [fst snd]; exact (conj Hl (conj Hn (conj Hi Hc)))].
    destruct (mem_nat (n3_id nm) loc); [cbn [fst snd]; exact (conj Hl (conj Hn (conj Hi Hc)))|].
    cbn [andb]. destruct (mem_nat (n3_id nm) memo) eqn:Em; [cbn [fst snd]; exact (conj Hl (conj Hn (conj Hi Hc)))|].
    pose proof (debit_n3_enforce l Hl) as D. destruct (debit l kind_nsec3_hash true) as [l1 r].
    destruct D as (L1 & P1 & [(-> & Hlt & Hn3)|((kk & ll & ->) & Hn3)]).
    - assert (Hx : ~ In (n3_id nm) memo) by (rewrite <- mem_nat_In; congruence).
      rewrite (room memo (n3_id nm) Hn Hi Hx (Hok Ez)). cbn [fst snd].
      split; [exact L1|]. split; [constructor; assumption|]. split.
      + intros y [<-|Hy]; [exact (Hok Ez)|apply Hi; exact Hy].
      + cbn [length]. lia.
    - cbn [fst snd]. split; [exact L1|]. split; [exact Hn|]. split; [exact Hi|]. lia.
  Qed.

  Lemma lookup_inv : forall s nm, P s -> idok nm -> P (fst (n3_lookup true s nm)).
  Proof.
    intros s nm Hp Hok. unfold n3_lookup. pose proof (hash_inv s nm Hp Hok) as H. destruct (n3_hash true s nm) as [s1 h]. exact H.
  Qed.

  Lemma ce_from_inv : forall chain s prev, P s -> idok prev -> chainok chain ->
    let '(s', r) := n3_ce_from true s prev chain in
    P s' /\ (forall wc tys nc, r = CEFound wc tys nc -> idok wc /\ idok nc).
  Proof.
    induction chain as [|[nm wc] rest IH]; intros s prev Hp Hprev Hc; cbn [n3_ce_from]; [split; [exact Hp|discriminate]|].
    assert (Hnm : idok nm) by (destruct Hc as [H _]; exact H).
    pose proof (lookup_inv s nm Hp Hnm) as L. pose proof (lookup_class true s nm) as C.
    destruct (n3_lookup true s nm) as [s1 r]. cbn [fst] in L. cbn [snd] in C.
    destruct r; try (apply IH; [exact L|exact Hnm|exact (chainok_nomatch _ _ _ Hc C)]).
    - destruct C as [Cz Cm]. split; [exact L|]. intros wc' tys' nc' E. injection E as <- _ <-.
      split; [exact (chainok_match _ _ _ Hc Cz Cm)|exact Hprev].
    - split; [exact L|discriminate].
  Qed.

  Lemma ce_inv : forall chain s, P s -> chainok chain ->
    let '(s', r) := n3_ce true s chain in
    P s' /\ (forall wc tys nc, r = CEFound wc tys nc -> idok wc /\ idok nc).
  Proof.
    intros [|[nm wc] rest] s Hp Hc; cbn [n3_ce]; [split; [exact Hp|discriminate]|].
    assert (Hnm : idok nm) by (destruct Hc as [H _]; exact H).
    pose proof (lookup_inv s nm Hp Hnm) as L. pose proof (lookup_class true s nm) as C.
    destruct (n3_lookup true s nm) as [s1 r]. cbn [fst] in L. cbn [snd] in C.
    destruct r; try (apply ce_from_inv; [exact L|exact Hnm|exact (chainok_nomatch _ _ _ Hc C)]).
    - destruct C as [Cz Cm]. split; [exact L|]. intros wc' tys' nc' E. injection E as <- _ <-.
      split; [exact (chainok_match _ _ _ Hc Cz Cm)|exact Hnm].
    - split; [exact L|discriminate].
  Qed.

  Lemma cover_inv : forall s nm k, P s -> idok nm -> (forall s1 oo, P s1 -> P (fst (k s1 oo))) -> P (fst (n3_cover true s nm k)).
  Proof.
    intros s nm k Hp Hok Hk. unfold n3_cover. pose proof (lookup_inv s nm Hp Hok) as L.
    destruct (n3_lookup true s nm) as [s1 r]. cbn [fst] in L. destruct r; cbn [fst]; try exact L. apply Hk. exact L.
  Qed.

  Lemma enclosed_inv : forall s chain k, P s -> chainok chain ->
    (forall s1 wc nc, P s1 -> idok wc -> idok nc -> P (fst (k s1 wc nc))) -> P (fst (n3_enclosed true s chain k)).
  Proof.
    intros s chain k Hp Hc Hk. unfold n3_enclosed. pose proof (ce_inv chain s Hp Hc) as C.
    destruct (n3_ce true s chain) as [s1 c]. destruct C as (P1 & K).
    destruct c; cbn [fst]; try exact P1. destruct (bad_encloser tys); cbn [fst]; [exact P1|].
    destruct (K _ _ _ eq_refl) as [Kw Kn]. apply Hk; assumption.
  Qed.

  Lemma optout_inv : forall s chain, P s -> chainok chain -> P (fst (n3_optout true s chain)).
  Proof.
    intros s chain Hp Hc. unfold n3_optout. apply enclosed_inv; [exact Hp|exact Hc|].
    intros s1 wc nc P1 Kw Kn. apply cover_inv; [exact P1|exact Kn|]. intros s2 oo P2. exact P2.
  Qed.

  Lemma validate_inv : forall l memo p, P (l, memo, []) ->
    (let '(_, _, par, mixed, chain) := p in negb (n3_usable par) || mixed = false -> chainok chain) ->
    let '(l', memo', _) := n3_validate true l memo p in P (l', memo', []).
  Proof.
    intros l memo [[[[kind isds] par] mixed] chain] Hp Hc. unfold n3_validate.
    destruct (negb (n3_usable par) || mixed); [exact Hp|]. specialize (Hc eq_refl).
    assert (K : P (fst (if kind =? 0 then n3_name_error true (l, memo, []) chain
                        else if kind =? 1 then n3_nodata true isds (l, memo, []) chain
                        else if kind =? 2 then n3_delegation true (l, memo, []) chain else n3_wildcard true (l, memo, []) chain))).
    { destruct (kind =? 0); [|destruct (kind =? 1); [|destruct (kind =? 2)]].
      - unfold n3_name_error. apply enclosed_inv; [exact Hp|exact Hc|]. intros s1 wc nc P1 Kw Kn.
        apply cover_inv; [exact P1|exact Kn|]. intros s2 _ P2. apply cover_inv; [exact P2|exact Kw|]. intros s3 _ P3. exact P3.
      - destruct chain as [|[q w] rest]; cbn [n3_nodata]; [exact Hp|].
        assert (Hq : idok q) by (destruct Hc as [Hq _]; exact Hq).
        pose proof (lookup_inv _ q Hp Hq) as L. destruct (n3_lookup true (l, memo, []) q) as [s1 r]. cbn [fst] in L.
        assert (Hrest : P (fst (if isds then n3_optout true s1 ((q, w) :: rest)
                                 else n3_enclosed true s1 ((q, w) :: rest) (fun s2 wc nc =>
                                        n3_cover true s2 nc (fun s3 _ =>
                                          let '(s4, rw) := n3_lookup true s3 wc in
                                          match rw with
                                          | LkMatch tys => (s4, if ty_has tys 1 then NFail else NOk)
                                          | LkWork e => (s4, NWork e)
                                          | _ => (s4, NFail)
                                          end))))).
        { destruct isds; [apply optout_inv; assumption|]. apply enclosed_inv; [exact L|exact Hc|]. intros s2 wc nc P2 Kw Kn.
          apply cover_inv; [exact P2|exact Kn|]. intros s3 _ P3.
          pose proof (lookup_inv s3 wc P3 Kw) as L3. destruct (n3_lookup true s3 wc) as [s4 rw]. cbn [fst] in L3.
          destruct rw; cbn [fst]; exact L3. }
        destruct r; try exact Hrest; cbn [fst]; exact L.
      - destruct chain as [|[q w] rest]; cbn [n3_delegation]; [exact Hp|].
        assert (Hq : idok q) by (destruct Hc as [Hq _]; exact Hq).
        pose proof (lookup_inv _ q Hp Hq) as L. destruct (n3_lookup true (l, memo, []) q) as [s1 r]. cbn [fst] in L.
        destruct r; try (apply optout_inv; assumption); cbn [fst]; exact L.
      - destruct chain as [|[q w] rest]; cbn [n3_wildcard]; [exact Hp|].
        assert (Hq : idok q) by (destruct Hc as [Hq _]; exact Hq).
        apply cover_inv; [exact Hp|exact Hq|]. intros s1 _ P1. exact P1. }
    destruct (if kind =? 0 then n3_name_error true (l, memo, []) chain
              else if kind =? 1 then n3_nodata true isds (l, memo, []) chain
              else if kind =? 2 then n3_delegation true (l, memo, []) chain else n3_wildcard true (l, memo, []) chain) as [[[l1 m1] loc1] v].
    unfold P, led, memo_of in *. cbn [fst snd] in *. exact K.
  Qed.

  Lemma run_inv : forall ps l memo, P (l, memo, []) ->
    Forall (fun p : n3proof => let '(_, _, par, mixed, chain) := p in negb (n3_usable par) || mixed = false -> chainok chain) ps ->
    let '(l', memo', _) := n3_run true l memo ps in P (l', memo', []).
  Proof.
    induction ps as [|p rest IH]; intros l memo Hp Hall; cbn [n3_run]; [exact Hp|].
    inversion Hall as [|p0 r0 Hp0 Hrest]; subst.
    pose proof (validate_inv l memo p Hp Hp0) as V. destruct (n3_validate true l memo p) as [[l1 m1] v].
    pose proof (IH l1 m1 V Hrest) as R. destruct (n3_run true l1 m1 rest) as [[l2 m2] vs]. exact R.
  Qed.
End Memo.

Lemma chain_ids_ok : forall S chain, incl (chain_ids chain) S -> chainok S chain.
Proof.
  intros S chain. induction chain as [|[nm wc] rest IH]; intros Hi; [exact I|].
  cbn [chain_ids] in Hi. cbn [chainok]. split.
  - intros Ez. apply Hi. rewrite Ez. apply in_or_app. left. now left.
  - destruct (n3_inz nm && (n3_look nm =? 1)).
    + intros Ez. apply Hi. apply in_or_app. right. rewrite Ez. now left.
    + apply IH. intros x Hx. apply Hi. apply in_or_app. right. exact Hx.
Qed.

Lemma proofs_ok : forall S ps, incl (n3_ids ps) S ->
  Forall (fun p : n3proof => let '(_, _, par, mixed, chain) := p in negb (n3_usable par) || mixed = false -> chainok S chain) ps.
Proof.
  intros S ps. induction ps as [|p rest IH]; intros Hi; [constructor|].
  unfold n3_ids in Hi. cbn [flat_map] in Hi. constructor.
  - destruct p as [[[[kind isds] par] mixed] chain]. intros E. apply chain_ids_ok. intros x Hx. apply Hi. apply in_or_app. left.
    unfold proof_ids. rewrite E. exact Hx.
  - apply IH. intros x Hx. apply Hi. apply in_or_app. right. exact Hx.
Qed.

(* ---- the theorem *)
Lemma nsec3_memo_pays_once_lemma : forall H ps, (distinct (n3_ids ps) <= memo_cap)%nat ->
  let '(l, memo, _) := n3_run true (new_ledger (n3_policy mode_enforce H)) [] ps in
  NoDup memo /\ incl memo (n3_ids ps) /\ l_n3 l = N.of_nat (length memo) /\ l_n3 l <= N.of_nat (distinct (n3_ids ps)).
Proof.
  intros H ps Hcap.
  assert (P0 : P (n3_ids ps) (new_ledger (n3_policy mode_enforce H), [], [])).
  { split; [split; reflexivity|]. split; [constructor|]. split; [intros x []|reflexivity]. }
  pose proof (run_inv (n3_ids ps) Hcap ps _ [] P0 (proofs_ok _ ps (incl_refl _))) as R.
  destruct (n3_run true (new_ledger (n3_policy mode_enforce H)) [] ps) as [[l m] vs].
  destruct R as (_ & Hn & Hi & Hc). unfold led, memo_of in *. cbn [fst snd] in *.
  split; [exact Hn|]. split; [exact Hi|]. split; [exact Hc|].
  assert (I2 : incl m (nodup Nat.eq_dec (n3_ids ps))) by (intros y Hy; apply nodup_In; apply Hi; exact Hy).
  pose proof (NoDup_incl_length Hn I2) as L. unfold distinct. lia.
Qed.
