(* C12 — interpreter-level theorems: they hold for EVERY program tree, hence for every skeleton
   function and every adversary. *)
From Sdns Require Import Common.Base Gen.C12 C12.Model C12.Skeleton C12.Proofs_ledger.
Open Scope N_scope.

Definition wlive (w : wstate) : Prop := is_live (w_led w) = true.
Definition wenf (w : wstate) : Prop := p_mode (l_pol (w_led w)) = mode_enforce.
Definition latched (w : wstate) : Prop := enforcement_error (w_led w) <> ROk.

Lemma run_bind {A B} : forall adv (p : prog A) (f : A -> prog B) w,
  run adv (bind p f) w = let '(w1, a) := run adv p w in run adv (f a) w1.
Proof.
  intros adv p f. induction p as [a|n k IH|be kok IHok kerr IHerr|be kok IHok kerr IHerr|k IH|l k IH|k IH|k IH]; intros w; cbn.
  - reflexivity.
  - apply IH.
  - destruct (ctx_debit w kind_outbound be) as [w1 r]. destruct r; [apply IHok|apply IHerr..].
  - destruct (ctx_debit w kind_internal be) as [w1 r]. destruct r; [apply IHok|apply IHerr..].
  - apply IH.
  - apply IH.
  - apply IH.
  - apply IH.
Qed.

(* ---------------------------------------------------------------- what one debit does *)

Lemma set_ctr_fields : forall l i v,
  l_pol (set_ctr l i v) = l_pol l /\ l_root (set_ctr l i v) = l_root l /\ l_first (set_ctr l i v) = l_first l /\
  l_exh (set_ctr l i v) = l_exh l.
Proof. intros. unfold set_ctr. repeat match goal with |- context [if ?b then _ else _] => destruct b end; cbn; repeat split. Qed.

Lemma is_live_root : forall l l', l_root l' = l_root l -> is_live l' = is_live l.
Proof. intros l l' H. unfold is_live. now rewrite H. Qed.

(* enforce mode, live ledger, an aggregate kind k in {outbound, internal} *)
Lemma debit_enforce_out : forall l latch, p_mode (l_pol l) = mode_enforce -> is_live l = true ->
  let '(l', r) := debit l kind_outbound latch in
  l_pol l' = l_pol l /\ is_live l' = true /\ l_int l' = l_int l /\
  ((r = ROk /\ l_out l < p_max_out (l_pol l) /\ l_out l' = l_out l + 1) \/
   ((exists lim, r = RLimit kind_outbound lim) /\ l_out l' = l_out l)).
Proof.
  intros l latch Hm Hl. unfold debit, control_error. rewrite Hl.
  rewrite enabled_cases, Hm. cbn [negb orb].
  change (mode_enforce =? mode_shadow) with false. change (mode_enforce =? mode_enforce) with true. cbn [orb negb].
  unfold agg_dim. change (kind_outbound =? kind_outbound) with true. cbv iota.
  change (get_ctr l 0) with (l_out l).
  destruct (p_max_out (l_pol l) <=? l_out l) eqn:E.
  - destruct (mark_exhausted_ctr l kind_outbound bit_outbound latch) as (Hp & H1 & H2 & _ & _ & _ & Hr & _).
    repeat split; try assumption.
    + rewrite (is_live_root _ _ Hr). exact Hl.
    + right. split; [eexists; reflexivity|assumption].
  - apply N.leb_gt in E. cbn. repeat split; try assumption. left. repeat split; assumption.
Qed.

Lemma debit_enforce_int : forall l latch, p_mode (l_pol l) = mode_enforce -> is_live l = true ->
  let '(l', r) := debit l kind_internal latch in
  l_pol l' = l_pol l /\ is_live l' = true /\ l_out l' = l_out l /\
  ((r = ROk /\ l_int l < p_max_int (l_pol l) /\ l_int l' = l_int l + 1) \/
   ((exists lim, r = RLimit kind_internal lim) /\ l_int l' = l_int l)).
Proof.
  intros l latch Hm Hl. unfold debit, control_error. rewrite Hl.
  rewrite enabled_cases, Hm. cbn [negb orb].
  change (mode_enforce =? mode_shadow) with false. change (mode_enforce =? mode_enforce) with true. cbn [orb negb].
  unfold agg_dim. change (kind_internal =? kind_outbound) with false. change (kind_internal =? kind_internal) with true. cbv iota.
  change (get_ctr l 1) with (l_int l).
  destruct (p_max_int (l_pol l) <=? l_int l) eqn:E.
  - destruct (mark_exhausted_ctr l kind_internal bit_internal latch) as (Hp & H1 & H2 & _ & _ & _ & Hr & _).
    repeat split; try assumption.
    + rewrite (is_live_root _ _ Hr). exact Hl.
    + right. split; [eexists; reflexivity|assumption].
  - apply N.leb_gt in E. cbn. repeat split; try assumption. left. repeat split; assumption.
Qed.

(* ---------------------------------------------------------------- Theorem 1: budgets *)

(* the network part of under_caps is all the skeleton touches *)
Record einv (w0 w : wstate) : Prop := mk_einv {
  e_pol : l_pol (w_led w) = l_pol (w_led w0);
  e_live : wlive w;
  e_out : l_out (w_led w) <= p_max_out (l_pol (w_led w));
  e_int : l_int (w_led w) <= p_max_int (l_pol (w_led w));
  e_exch : w_exch w + l_out (w_led w0) <= w_exch w0 + l_out (w_led w);   (* exchanges since w0 <= accepted outbound debits since w0 *)
  e_sub : w_sub w + l_int (w_led w0) <= w_sub w0 + l_int (w_led w) }.

Lemma einv_refl : forall w, wlive w -> l_out (w_led w) <= p_max_out (l_pol (w_led w)) ->
  l_int (w_led w) <= p_max_int (l_pol (w_led w)) -> einv w w.
Proof. intros. constructor; auto; lia. Qed.

Lemma run_guarded_enforce {A} : forall (p : prog A), guarded p ->
  forall adv w0 w, wenf w0 -> einv w0 w -> einv w0 (fst (run adv p w)).
Proof.
  intros p G. induction G as [a|n k Hk IH|be k kerr Gk IHk Gerr IHerr|be k kerr Gk IHk Gerr IHerr
                               |be l k kerr Gk IHk Gerr IHerr|be k kerr Gk IHk Gerr IHerr|k Gk IH|k Gk IH];
    intros adv w0 w He Hi.
  - exact Hi.
  - cbn. apply IH; [|exact He|].
    + pose proof (Nat.mod_upper_bound (adv (w_tick w)) (S n)). lia.
    + destruct Hi. constructor; assumption.
  - (* debit, then the exchange *)
    cbn. destruct Hi as [Hp Hl Ho Hn Hx Hs].
    assert (Hm : p_mode (l_pol (w_led w)) = mode_enforce) by (rewrite Hp; exact He).
    pose proof (debit_enforce_out (w_led w) (negb be) Hm Hl) as D. unfold ctx_debit.
    destruct (debit (w_led w) kind_outbound (negb be)) as [l' r].
    destruct D as (Dp & Dl & Di & [(-> & Hlt & Hout)|((lim & ->) & Hout)]).
    + cbn. apply IHk; [exact He|]. constructor; cbn; try assumption; try congruence; rewrite ?Dp; try lia.
      all: rewrite ?Di; try lia.
    + apply IHerr; [exact He|]. constructor; cbn; try assumption; try congruence; rewrite ?Dp, ?Hout, ?Di; try lia.
  - (* debit without an exchange *)
    cbn. destruct Hi as [Hp Hl Ho Hn Hx Hs].
    assert (Hm : p_mode (l_pol (w_led w)) = mode_enforce) by (rewrite Hp; exact He).
    pose proof (debit_enforce_out (w_led w) (negb be) Hm Hl) as D. unfold ctx_debit.
    destruct (debit (w_led w) kind_outbound (negb be)) as [l' r].
    destruct D as (Dp & Dl & Di & [(-> & Hlt & Hout)|((lim & ->) & Hout)]).
    + apply IHk; [exact He|]. constructor; cbn; try assumption; try congruence; rewrite ?Dp, ?Di; try lia.
    + apply IHerr; [exact He|]. constructor; cbn; try assumption; try congruence; rewrite ?Dp, ?Hout, ?Di; try lia.
  - cbn. destruct Hi as [Hp Hl Ho Hn Hx Hs].
    assert (Hm : p_mode (l_pol (w_led w)) = mode_enforce) by (rewrite Hp; exact He).
    pose proof (debit_enforce_int (w_led w) (negb be) Hm Hl) as D. unfold ctx_debit.
    destruct (debit (w_led w) kind_internal (negb be)) as [l' r].
    destruct D as (Dp & Dl & Do & [(-> & Hlt & Hint)|((lim & ->) & Hint)]).
    + cbn. apply IHk; [exact He|]. constructor; cbn; try assumption; try congruence; rewrite ?Dp, ?Do; try lia.
    + apply IHerr; [exact He|]. constructor; cbn; try assumption; try congruence; rewrite ?Dp, ?Hint, ?Do; try lia.
  - cbn. destruct Hi as [Hp Hl Ho Hn Hx Hs].
    assert (Hm : p_mode (l_pol (w_led w)) = mode_enforce) by (rewrite Hp; exact He).
    pose proof (debit_enforce_int (w_led w) (negb be) Hm Hl) as D. unfold ctx_debit.
    destruct (debit (w_led w) kind_internal (negb be)) as [l' r].
    destruct D as (Dp & Dl & Do & [(-> & Hlt & Hint)|((lim & ->) & Hint)]).
    + apply IHk; [exact He|]. constructor; cbn; try assumption; try congruence; rewrite ?Dp, ?Do; try lia.
    + apply IHerr; [exact He|]. constructor; cbn; try assumption; try congruence; rewrite ?Dp, ?Hint, ?Do; try lia.
  - cbn. apply IH; assumption.
  - cbn. apply IH; assumption.
Qed.

(* a request tree starts with a fresh ledger *)
Definition fresh (pol : policy) : wstate := w_init (new_ledger pol).

Lemma budgets_hold {A} : forall (p : prog A) pol adv, guarded p -> p_mode pol = mode_enforce ->
  let w' := fst (run adv p (fresh pol)) in
  w_exch w' <= p_max_out pol /\ w_sub w' <= p_max_int pol /\
  l_out (w_led w') <= p_max_out pol /\ l_int (w_led w') <= p_max_int pol.
Proof.
  intros p pol adv G Hm w'.
  assert (Hi : einv (fresh pol) (fresh pol)) by (apply einv_refl; cbn; [reflexivity|lia|lia]).
  pose proof (run_guarded_enforce p G adv (fresh pol) (fresh pol) Hm Hi) as [Hp Hl Ho Hn Hx Hs].
  fold w' in Hp, Hl, Ho, Hn, Hx, Hs. cbn in Hp, Hx, Hs. rewrite Hp in Ho, Hn. cbn in Ho, Hn. repeat split; lia.
Qed.

(* ---------------------------------------------------------------- Theorem 2: shadow = off *)

Definition wquiet (w : wstate) : Prop := wlive w /\ p_mode (l_pol (w_led w)) <> mode_enforce.
(* everything an observer outside the ledger can see *)
Definition same_obs (a b : wstate) : Prop :=
  w_tick a = w_tick b /\ w_exch a = w_exch b /\ w_sub a = w_sub b.

Lemma quiet_debit : forall w k be, wquiet w -> (k = kind_outbound \/ k = kind_internal) ->
  snd (ctx_debit w k be) = ROk /\ wquiet (fst (ctx_debit w k be)) /\
  w_tick (fst (ctx_debit w k be)) = w_tick w /\ w_exch (fst (ctx_debit w k be)) = w_exch w /\ w_sub (fst (ctx_debit w k be)) = w_sub w.
Proof.
  intros w k be [Hl Hm] Hk. unfold ctx_debit.
  destruct (debit (w_led w) k (negb be)) as [l' r] eqn:E. cbn.
  assert (Hr : r = ROk /\ l_pol l' = l_pol (w_led w) /\ l_root l' = l_root (w_led w)).
  { unfold debit, control_error in E. unfold wlive in Hl. rewrite Hl in E.
    destruct (negb (enabled (l_pol (w_led w)))) eqn:En; [inversion E; subst; auto|].
    apply Bool.negb_false_iff in En. rewrite enabled_cases in En.
    destruct (p_mode (l_pol (w_led w)) =? mode_shadow) eqn:Es;
      [|cbn in En; apply N.eqb_eq in En; contradiction].
    assert (exists i lim bit, agg_dim (l_pol (w_led w)) k = Some (i, lim, bit)) as (i & lim & bit & Ea).
    { destruct Hk as [-> | ->]; unfold agg_dim; cbn; eauto. }
    rewrite Ea in E. inversion E; subst. split; [reflexivity|].
    destruct (set_ctr_fields (w_led w) i (wrap32 (get_ctr (w_led w) i + 1))) as (Sp & Sr & _).
    destruct (mark_exhausted_ctr (set_ctr (w_led w) i (wrap32 (get_ctr (w_led w) i + 1))) k bit false) as (Mp & _ & _ & _ & _ & _ & Mr & _).
    destruct (wrap32 (get_ctr (w_led w) i + 1) =? wrap32 (lim + 1)); split; congruence. }
  destruct Hr as (-> & Hp & Hroot). repeat split.
  - unfold wlive. cbn. rewrite (is_live_root _ _ Hroot). exact Hl.
  - cbn. now rewrite Hp.
Qed.

Lemma quiet_enferr : forall w, wquiet w -> enforcement_error (w_led w) = ROk.
Proof.
  intros w [Hl Hm]. unfold enforcement_error, control_error. unfold wlive in Hl. rewrite Hl.
  destruct (p_mode (l_pol (w_led w)) =? mode_enforce) eqn:E; [apply N.eqb_eq in E; contradiction|reflexivity].
Qed.

(* with the firewall off or in shadow mode every program, against every adversary, takes the same
   path: same result, same adversary consultations, same exchanges, same sub-runs *)
Lemma run_quiet_same {A} : forall (p : prog A) adv w1 w2, wquiet w1 -> wquiet w2 -> same_obs w1 w2 ->
  snd (run adv p w1) = snd (run adv p w2) /\ same_obs (fst (run adv p w1)) (fst (run adv p w2)) /\
  wquiet (fst (run adv p w1)) /\ wquiet (fst (run adv p w2)).
Proof.
  intros p adv. induction p as [a|n k IH|be kok IHok kerr IHerr|be kok IHok kerr IHerr|k IH|l k IH|k IH|k IH];
    intros w1 w2 Q1 Q2 S; cbn.
  - auto.
  - destruct S as (St & Sx & Ss). rewrite St. apply IH.
    + destruct Q1; split; assumption.
    + destruct Q2; split; assumption.
    + repeat split; cbn; congruence.
  - pose proof (quiet_debit w1 kind_outbound be Q1 (or_introl eq_refl)) as (R1 & Q1' & T1 & X1 & B1).
    pose proof (quiet_debit w2 kind_outbound be Q2 (or_introl eq_refl)) as (R2 & Q2' & T2 & X2 & B2).
    destruct (ctx_debit w1 kind_outbound be) as [w1' r1]. destruct (ctx_debit w2 kind_outbound be) as [w2' r2].
    cbn in *. subst r1 r2. apply IHok; try assumption. destruct S as (St & Sx & Ss). repeat split; congruence.
  - pose proof (quiet_debit w1 kind_internal be Q1 (or_intror eq_refl)) as (R1 & Q1' & T1 & X1 & B1).
    pose proof (quiet_debit w2 kind_internal be Q2 (or_intror eq_refl)) as (R2 & Q2' & T2 & X2 & B2).
    destruct (ctx_debit w1 kind_internal be) as [w1' r1]. destruct (ctx_debit w2 kind_internal be) as [w2' r2].
    cbn in *. subst r1 r2. apply IHok; try assumption. destruct S as (St & Sx & Ss). repeat split; congruence.
  - apply IH.
    + destruct Q1; split; assumption.
    + destruct Q2; split; assumption.
    + destruct S as (St & Sx & Ss). repeat split; cbn; congruence.
  - apply IH.
    + destruct Q1; split; assumption.
    + destruct Q2; split; assumption.
    + destruct S as (St & Sx & Ss). repeat split; cbn; congruence.
  - apply IH; assumption.
  - rewrite (quiet_enferr _ Q1), (quiet_enferr _ Q2). apply IH; assumption.
Qed.

(* ---------------------------------------------------------------- Theorem 3: work bound *)

Lemma ctx_debit_exch : forall w k be, w_exch (fst (ctx_debit w k be)) = w_exch w.
Proof. intros. unfold ctx_debit. destruct (debit (w_led w) k (negb be)). reflexivity. Qed.

Lemma run_costs {A} : forall (p : prog A) n, costs p n -> forall adv w,
  w_exch (fst (run adv p w)) <= w_exch w + N.of_nat n.
Proof.
  intros p n C. induction C as [a n|m k n Hk IH|be kok kerr n Cok IHok Cerr IHerr|be kok kerr n Cok IHok Cerr IHerr
                                 |k n Ck IH|l k n Ck IH|k n Ck IH|k n Hk IH|p n n' C IH Hle]; intros adv w; cbn.
  - lia.
  - assert (Hb : (Nat.modulo (adv (w_tick w)) (S m) <= m)%nat) by (pose proof (Nat.mod_upper_bound (adv (w_tick w)) (S m)); lia).
    specialize (IH _ Hb adv (w_ticked w)). cbn in IH. exact IH.
  - pose proof (ctx_debit_exch w kind_outbound be) as Hx.
    destruct (ctx_debit w kind_outbound be) as [w1 r]. cbn in Hx. rewrite <- Hx.
    destruct r; [apply IHok|apply IHerr..].
  - pose proof (ctx_debit_exch w kind_internal be) as Hx.
    destruct (ctx_debit w kind_internal be) as [w1 r]. cbn in Hx. rewrite <- Hx.
    destruct r; [apply IHok|apply IHerr..].
  - specialize (IH adv (w_exchanged w)). cbn in IH. lia.
  - specialize (IH adv (w_subbed w)). cbn in IH. exact IH.
  - apply IH.
  - apply IH.
  - specialize (IH adv w). lia.
Qed.

Lemma costs_bind {A B} : forall (p : prog A) (f : A -> prog B) a b,
  costs p a -> (forall x, costs (f x) b) -> costs (bind p f) (a + b).
Proof.
  intros p f a b C Hf. induction C; cbn.
  - eapply c_weaken; [apply Hf|lia].
  - apply c_choose. auto.
  - apply c_out; auto.
  - apply c_int; auto.
  - apply c_exch. auto.
  - apply c_sub. auto.
  - apply c_end. auto.
  - apply c_enf. auto.
  - eapply c_weaken; [apply IHC|lia].
Qed.

Lemma guarded_bind {A B} : forall (p : prog A) (f : A -> prog B),
  guarded p -> (forall x, guarded (f x)) -> guarded (bind p f).
Proof.
  intros p f G Hf. induction G; cbn.
  - apply Hf.
  - apply g_choose. auto.
  - apply g_out_x; auto.
  - apply g_out; auto.
  - apply g_int_s; auto.
  - apply g_int; auto.
  - apply g_end. auto.
  - apply g_enf. auto.
Qed.
