(* C12 — what the client sees when the tree went over budget, and shadow = off at the client. *)
From Coq Require Import Relations.
From Sdns Require Import Common.Base Gen.C12 C12.Model C12.Skeleton C12.Proofs_ledger C12.Proofs_run C12.Proofs_skeleton.
Open Scope N_scope.

Definition is_work (r : reply) : Prop := exists e ede, r = ReplyWork e ede.
(* ... built from the client's request: an EDNS client gets the Extended DNS Error *)
Definition is_work_ede (r : reply) : Prop := exists e, r = ReplyWork e true.

(* a program whose result is the policy failure whenever it leaves the ledger latched, provided
   it was entered unlatched *)
Definition over_ok (p : prog reply) : Prop :=
  forall adv w, ~ latched w -> latched (fst (run adv p w)) -> is_work (snd (run adv p w)).
(* ... and unconditionally *)
Definition over_ok_any (p : prog reply) : Prop :=
  forall adv w, latched (fst (run adv p w)) -> is_work (snd (run adv p w)).

Lemma latched_dec : forall w, latched w \/ ~ latched w.
Proof. intros w. unfold latched. destruct (enforcement_error (w_led w)); (left; discriminate) || (right; intros H; now apply H). Qed.

Lemma ctx_debit_err_is_work : forall w k be w1 e, ctx_debit w k be = (w1, e) -> e <> ROk -> True.
Proof. trivial. Qed.

Section WithQueryer.
  Variable maxdepth qmin : nat.
  Variable v6 : bool.
  Variable Smax Fmax : nat.
  Variable nq nq0 : cx -> prog reply.
  Variable vq : cx -> prog vres.
  Hypothesis nq_ok : forall cc, over_ok (nq cc).

  (* Resolve checks the ledger after resolving, whatever resolve did *)
  Lemma handle_over : forall c adv w,
    latched (fst (run adv (handle maxdepth qmin v6 Smax Fmax nq nq0 vq c) w)) ->
    exists e, snd (run adv (handle maxdepth qmin v6 Smax Fmax nq nq0 vq c) w) = RWork e.
  Proof.
    intros c adv w. unfold handle. cbn [run].
    destruct (enforcement_error (w_led w)) eqn:E0; cbn [run]; try (intros _; eexists; reflexivity).
    rewrite run_bind.
    destruct (run adv (resolve _ _ _ _ _ _ _ _ _ _ _ _ _) _) as [w1 r] eqn:Er. cbn [run].
    destruct (enforcement_error (w_led w1)) eqn:E1; cbn [fst snd]; try (intros _; eexists; reflexivity).
    intros L. exfalso. apply L. exact E1.
  Qed.

  Lemma write_failure_over : forall c b, over_ok_any (write_failure c b).
  Proof.
    intros c b adv w. unfold write_failure. cbn [run].
    destruct (enforcement_error (w_led w)) eqn:E; cbn [fst snd]; try (intros _; do 2 eexists; reflexivity).
    intros L. exfalso. apply L. exact E.
  Qed.

  Lemma chase_over : forall c left, over_ok (chase nq c left).
  Proof.
    intros c left. induction left as [|l IH]; intros adv w U L; cbn [chase run] in *; [contradiction|].
    destruct (Nat.modulo (adv (w_tick w)) 2) as [|m]; cbn [run] in *; [contradiction|].
    rewrite run_bind in *.
    assert (U1 : ~ latched (w_ticked w)) by exact U.
    pose proof (nq_ok (mk_cx (cx_be c) (S (cx_chase c)) (cx_dname c) (cx_nsl c) (cx_walk c)) adv (w_ticked w) U1) as Hn.
    destruct (run adv (nq _) (w_ticked w)) as [w1 r]. cbn [fst snd] in Hn.
    destruct r; cbn [run fst snd] in *; try (do 2 eexists; reflexivity); try (apply Hn in L; destruct L as (? & ? & ?); discriminate).
    all: destruct (latched_dec w1) as [L1|U1']; [apply Hn in L1; destruct L1 as (? & ? & ?); discriminate|].
    all: destruct (Nat.modulo (adv (w_tick w1)) 2) as [|s]; cbn [run fst snd] in *; try contradiction.
    all: try (apply (IH adv (w_ticked w1)); [exact U1'|exact L]).
  Qed.

  Lemma chase_gate_over : forall c, over_ok (chase_gate nq c).
  Proof.
    intros c. unfold chase_gate. destruct (_ <? _); [apply chase_over|].
    intros adv w U L. cbn in L. contradiction.
  Qed.

  (* the miss path ends in the writer's enforcement check whatever state it was entered in *)
  Lemma pipeline_miss_over : forall c, over_ok_any (pipeline_miss maxdepth qmin v6 Smax Fmax nq nq0 vq c).
  Proof.
    intros c adv w. unfold pipeline_miss. rewrite run_bind.
    pose proof (handle_over c adv w) as Hh.
    destruct (run adv (handle _ _ _ _ _ _ _ _ _) w) as [w1 r]. cbn [fst snd] in Hh.
    destruct r; try apply write_failure_over.
    - (* RResp: the tree was not latched when Resolve returned *)
      assert (U1 : ~ latched w1) by (intros L1; destruct (Hh L1); discriminate).
      cbn [run]. destruct (Nat.modulo (adv (w_tick w1)) 2) as [|sf]; [|apply write_failure_over].
      rewrite run_bind.
      pose proof (chase_gate_over c adv (w_ticked w1) U1) as Hc.
      destruct (run adv (chase_gate nq c) (w_ticked w1)) as [w2 r']. cbn [fst snd] in Hc.
      destruct r'; try apply write_failure_over.
      cbn. intros L. destruct (Hc L) as (? & ? & ?). discriminate.
  Qed.

  (* on the miss path the policy failure is always rebuilt from the client's request *)
  Lemma pipeline_miss_has_ede : forall c adv w e ede,
    snd (run adv (pipeline_miss maxdepth qmin v6 Smax Fmax nq nq0 vq c) w) = ReplyWork e ede -> ede = true.
  Proof.
    assert (WF : forall c b adv w e ede, snd (run adv (write_failure c b) w) = ReplyWork e ede -> ede = true).
    { intros c b adv w e ede. unfold write_failure. cbn [run].
      destruct (enforcement_error (w_led w)); cbn; try (intros H; inversion H; reflexivity).
      destruct b; [|destruct (negb (cx_be c))]; discriminate. }
    intros c adv w e ede. unfold pipeline_miss. rewrite run_bind.
    destruct (run adv (handle _ _ _ _ _ _ _ _ _) w) as [w1 r].
    destruct r; try apply WF.
    - cbn [run]. destruct (Nat.modulo (adv (w_tick w1)) 2) as [|sf]; [|apply WF].
      rewrite run_bind. destruct (run adv (chase_gate nq c) (w_ticked w1)) as [w2 r'].
      destruct r'; try apply WF. cbn. discriminate.
  Qed.
  Lemma pipeline_miss_over_ede : forall c adv w,
    latched (fst (run adv (pipeline_miss maxdepth qmin v6 Smax Fmax nq nq0 vq c) w)) ->
    is_work_ede (snd (run adv (pipeline_miss maxdepth qmin v6 Smax Fmax nq nq0 vq c) w)).
  Proof.
    intros c adv w L. destruct (pipeline_miss_over c adv w L) as (e & ede & H).
    exists e. rewrite H. f_equal. eapply pipeline_miss_has_ede. exact H.
  Qed.

  (* the hit path re-checks the ledger after the chase (fix ca465fd) *)
  Lemma pipeline_hit_over_ede : forall c adv w, ~ latched w ->
    latched (fst (run adv (pipeline_hit nq c) w)) -> is_work_ede (snd (run adv (pipeline_hit nq c) w)).
  Proof.
    intros c adv w U. unfold pipeline_hit. rewrite run_bind.
    pose proof (chase_gate_over c adv w U) as Hc.
    destruct (run adv (chase_gate nq c) w) as [w1 r']. cbn [fst snd] in Hc.
    destruct r'; cbn [run].
    - cbn. intros L. destruct (Hc L) as (? & ? & ?). discriminate.
    - destruct (enforcement_error (w_led w1)) eqn:E; cbn [fst snd]; try (intros _; eexists; reflexivity).
      intros L. exfalso. apply L. exact E.
    - destruct (enforcement_error (w_led w1)) eqn:E; cbn [fst snd]; try (intros _; eexists; reflexivity).
      intros L. exfalso. apply L. exact E.
    - destruct (enforcement_error (w_led w1)) eqn:E; cbn [fst snd]; try (intros _; eexists; reflexivity).
      intros L. exfalso. apply L. exact E.
    - destruct (enforcement_error (w_led w1)) eqn:E; cbn [fst snd]; try (intros _; eexists; reflexivity).
      intros L. exfalso. apply L. exact E.
  Qed.

  Lemma pipeline_over_ede : forall c adv w, ~ latched w ->
    latched (fst (run adv (pipeline maxdepth qmin v6 Smax Fmax nq nq0 vq c) w)) ->
    is_work_ede (snd (run adv (pipeline maxdepth qmin v6 Smax Fmax nq nq0 vq c) w)).
  Proof.
    intros c adv w U. unfold pipeline. cbn [run].
    destruct (Nat.modulo (adv (w_tick w)) 2) as [|hit].
    - apply pipeline_miss_over_ede.
    - apply pipeline_hit_over_ede. exact U.
  Qed.

  Lemma pipeline_over : forall c, over_ok (pipeline maxdepth qmin v6 Smax Fmax nq nq0 vq c).
  Proof.
    intros c adv w U L. destruct (pipeline_over_ede c adv w U L) as (e & H). exists e, true. exact H.
  Qed.
End WithQueryer.

Lemma query_over : forall maxdepth qmin v6 Smax Fmax Lmax G gen q c, over_ok (queryg maxdepth qmin v6 Smax Fmax Lmax G gen q c).
Proof.
  intros maxdepth qmin v6 Smax Fmax Lmax G gen q c adv w U L.
  destruct q as [|q]; [destruct gen; cbn in L; contradiction|].
  assert (E : exists nq nq0 vq, queryg maxdepth qmin v6 Smax Fmax Lmax G gen (S q) c =
                DebitInt (cx_be c)
                  (SubRun (mk_sl (N.to_nat max_queryer_recursion - q) c)
                     (bind (pipeline maxdepth qmin v6 Smax Fmax nq nq0 vq c)
                        (fun r => SubEnd (EnfErr (fun e => match e with ROk => Ret r | e' => Ret (ReplyWork e' true) end)))))
                  (fun e => Ret (ReplyWork e true))) by (destruct gen; do 3 eexists; reflexivity).
  destruct E as (nq & nq0 & vq & E). rewrite E in *. clear E. cbn [run] in *.
  destruct (ctx_debit w kind_internal (cx_be c)) as [w1 r].
  destruct r; cbn [run fst snd] in *; try (do 2 eexists; reflexivity).
  rewrite run_bind in *.
  destruct (run adv (pipeline _ _ _ _ _ _ _ _ _) (w_subbed w1)) as [w2 r2]. cbn [run] in *.
  destruct (enforcement_error (w_led w2)) eqn:E; cbn [fst snd] in *; try (do 2 eexists; reflexivity).
  exfalso. apply L. exact E.
Qed.

Lemma client_over : forall maxdepth qmin v6 Smax Fmax Lmax G gen c, over_ok (clientg maxdepth qmin v6 Smax Fmax Lmax G gen c).
Proof. intros. unfold clientg. apply pipeline_over. intros cc. apply query_over. Qed.

Lemma fresh_unlatched : forall pol, ~ latched (fresh pol).
Proof.
  intros pol L. apply L. unfold fresh, w_init, latched, enforcement_error, control_error. cbn.
  destruct (negb (p_mode pol =? mode_enforce)); reflexivity.
Qed.

(* over budget  =>  SERVFAIL built by the policy path from the client's request (so it carries the
   EDE for an EDNS client), never handed to the failure cache — on the miss path and on the hit path *)
Lemma overbudget_lemma : forall maxdepth qmin v6 Smax Fmax Lmax G gen pol adv,
  let '(w', r) := run adv (clientg maxdepth qmin v6 Smax Fmax Lmax G gen cx0) (fresh pol) in
  latched w' -> exists e, r = ReplyWork e true.
Proof.
  intros. unfold clientg.
  match goal with |- context [pipeline _ _ _ _ _ ?nq ?nq0 ?vq cx0] =>
    pose proof (pipeline_over_ede maxdepth qmin v6 Smax Fmax nq nq0 vq
                  (fun cc => query_over maxdepth qmin v6 Smax Fmax Lmax G gen _ cc) cx0 adv (fresh pol) (fresh_unlatched pol)) as H end.
  destruct (run adv _ (fresh pol)) as [w' r]. exact H.
Qed.

(* the adversary that defeated the hit path before fix ca465fd: the hit-path chase goes over an
   internal budget of 1; the reply now carries the EDE *)
Definition witness_pol : policy := mk_T_RecursionWorkPolicy mode_enforce 128 1 4 8 32 32 32 32.
Lemma overbudget_hit_path_example_lemma :
  let '(w', r) := run (fun _ => 1%nat) (client 30 5 false 1 1 3 2 cx0) (fresh witness_pol) in
  latched w' /\ r = ReplyWork (RLimit kind_internal 1) true.
Proof. vm_compute. split; [discriminate|reflexivity]. Qed.

(* shadow = off, at the client: same reply, same upstream exchanges, same sub-queries, for every
   adversary; in neither mode is anything ever refused *)
Lemma shadow_equals_off_lemma : forall maxdepth qmin v6 Smax Fmax Lmax G gen pol_off pol_shadow adv,
  p_mode pol_off = mode_off -> p_mode pol_shadow = mode_shadow ->
  let p := clientg maxdepth qmin v6 Smax Fmax Lmax G gen cx0 in
  snd (run adv p (fresh pol_off)) = snd (run adv p (fresh pol_shadow)) /\
  w_exch (fst (run adv p (fresh pol_off))) = w_exch (fst (run adv p (fresh pol_shadow))) /\
  w_sub (fst (run adv p (fresh pol_off))) = w_sub (fst (run adv p (fresh pol_shadow))).
Proof.
  intros maxdepth qmin v6 Smax Fmax Lmax G gen po ps adv Ho Hs p.
  assert (Q1 : wquiet (fresh po)) by (split; [reflexivity|cbn; rewrite Ho; discriminate]).
  assert (Q2 : wquiet (fresh ps)) by (split; [reflexivity|cbn; rewrite Hs; discriminate]).
  assert (S0 : same_obs (fresh po) (fresh ps)) by (repeat split).
  destruct (run_quiet_same p adv _ _ Q1 Q2 S0) as (Hr & (_ & Hx & Hb) & _). auto.
Qed.

(* a reply other than the policy failure in shadow mode: nothing is refused, so no ReplyWork *)
Lemma quiet_never_work {A} : forall (p : prog A) adv w, wquiet w -> ~ latched (fst (run adv p w)).
Proof.
  intros p adv w Q L. destruct (run_quiet_same p adv w w Q Q (conj eq_refl (conj eq_refl eq_refl))) as (_ & _ & Q' & _).
  apply L. apply quiet_enferr. exact Q'.
Qed.

(* termination: every run of the client program, against every adversary, from every state, yields a
   reply.  (The content of this lemma is that [client] — with [resolve] defined by well-founded
   recursion on the code's own counters — is a definable total function; the proof is reflexivity.) *)
Lemma resolve_terminates_lemma : forall maxdepth qmin v6 Smax Fmax Lmax G gen adv w,
  exists w' r, run adv (clientg maxdepth qmin v6 Smax Fmax Lmax G gen cx0) w = (w', r).
Proof. intros. destruct (run adv _ w) as [w' r]. eauto. Qed.

Lemma work_bound_off_lemma : forall maxdepth qmin v6 Smax Fmax Lmax G gen adv w,
  w_exch (fst (run adv (clientg maxdepth qmin v6 Smax Fmax Lmax G gen cx0) w)) <= w_exch w + N.of_nat (work_bound maxdepth qmin Smax Fmax Lmax G gen).
Proof. intros. apply run_costs. apply client_costs. Qed.
