(* C12 — the detached IPv6 walk after fix 1508bf1 ("a detached walk does not start a walk").

   The walk marks its context (contextKeyV6Walk = cx_walk), every context derived inside it inherits the mark, and
   processDelegation starts a walk only from a context without it.  So per client query the detached walks form ONE
   generation: [client] is the one-level instance [clientg walk_levels] of the general construction, the theorems of
   Proofs_skeleton / Proofs_trace / Proofs_reply (proved for every number of levels) are instantiated here, and the new
   statement — no sub-run of any trace of the client program has a generation above 1 — is proved from the call-tree
   theorem: the checker [tree_run] (the one the lab applies to the recorded events) admits a walk start only under a run
   whose context is unmarked and lets the mark neither appear elsewhere nor disappear. *)
From Sdns Require Import Common.Base Gen.C12 C12.Model C12.Skeleton C12.Proofs_ledger C12.Proofs_run C12.Proofs_skeleton
  C12.Proofs_trace C12.Proofs_reply.
Open Scope N_scope.

(* the context key the lab's probe reads the walk mark from, by value (vC12WalkKey): if the code renumbers or drops
   contextKeyV6Walk this stops compiling *)
Lemma walk_key_is_the_probes : context_key_v6_walk = 3.
Proof. reflexivity. Qed.

(* one legitimate step of the call tree: the child's generation is what its mark says, given the parent's was *)
Lemma child_ok_walk : forall v6 cur l, child_ok v6 cur l = true ->
  gen_step (cx_walk (sl_cx cur)) (b2n (cx_walk (sl_cx cur))) l = b2n (cx_walk (sl_cx l)).
Proof.
  intros v6 cur l H. unfold gen_step.
  destruct (cx_walk (sl_cx cur)) eqn:Ec, (cx_walk (sl_cx l)) eqn:El; cbn; try reflexivity; exfalso;
  unfold child_ok, detached_root, child_cx_ok, cx_eqb, cx_fresh in H; rewrite Ec, El in H; cbn in H;
  repeat match goal with
  | H : (_ && _)%bool = true |- _ => apply Bool.andb_true_iff in H; destruct H
  | H : (_ || _)%bool = true |- _ => apply Bool.orb_true_iff in H; destruct H
  end; congruence.
Qed.

(* a walk start is only legitimate under an unmarked run; every other step keeps the mark as it is *)
Lemma child_ok_mark : forall v6 cur l, child_ok v6 cur l = true ->
  (cx_walk (sl_cx cur) = true -> cx_walk (sl_cx l) = true) /\
  (cx_walk (sl_cx cur) = false -> cx_walk (sl_cx l) = true -> sl_nest l = 1%nat /\ sl_cx l = cx_fresh /\ v6 = true).
Proof.
  intros v6 cur l H. unfold child_ok, detached_root, child_cx_ok, cx_eqb, cx_fresh in H.
  destruct l as [n [be ch dn nsl wk]|n [be ch dn nsl wk]]; destruct (cx_walk (sl_cx cur)) eqn:Ec; cbn in *;
  split; intros H1; try discriminate; try intros H2; subst;
  repeat match goal with
  | H : (_ && _)%bool = true |- _ => apply Bool.andb_true_iff in H; destruct H
  | H : (_ || _)%bool = true |- _ => apply Bool.orb_true_iff in H; destruct H
  | H : (_ =? _)%nat = true |- _ => apply Nat.eqb_eq in H
  | H : Bool.eqb _ _ = true |- _ => apply Bool.eqb_prop in H
  end; subst; try congruence; try discriminate; repeat split; try congruence.
Qed.

Definition gstack (st : list slabel) : list (bool * nat) :=
  map (fun l => (cx_walk (sl_cx l), b2n (cx_walk (sl_cx l)))) st.

(* the checker lemma: an event sequence that passes tree_run has no sub-run beyond generation 1 *)
Lemma tree_run_gens : forall v6 tr cur st s', tree_run v6 cur st tr = Some s' ->
  Forall (fun g => (g <= 1)%nat) (gens_of (cx_walk (sl_cx cur)) (b2n (cx_walk (sl_cx cur))) (gstack st) tr).
Proof.
  intros v6 tr. induction tr as [|e tr IH]; intros cur st s' H; cbn [gens_of tree_run] in *; [constructor|].
  destruct e as [o i|l o i|].
  - eapply IH; eauto.
  - destruct (child_ok v6 cur l) eqn:E; [|discriminate]. cbv zeta. rewrite (child_ok_walk v6 cur l E).
    constructor; [destruct (cx_walk (sl_cx l)); cbn; lia|].
    change ((cx_walk (sl_cx cur), b2n (cx_walk (sl_cx cur))) :: gstack st) with (gstack (cur :: st)). eapply IH; eauto.
  - destruct st as [|p st']; [discriminate|]. cbn [gstack map]. eapply IH; eauto.
Qed.

(* ---- the client program as the code runs it now *)
Section Client.
  Variables (maxdepth qmin : nat) (v6 : bool) (Smax Fmax Lmax G : nat).
  Notation cl := (client maxdepth qmin v6 Smax Fmax Lmax G).

  Definition work_bound1 : nat := work_bound maxdepth qmin Smax Fmax Lmax G walk_levels.

  Lemma client1_guarded : forall c, guarded (cl c).
  Proof. intros c. exact (client_guarded maxdepth qmin v6 Smax Fmax Lmax G walk_levels c). Qed.

  Lemma client1_call_tree : forall c adv w, tree_run v6 (mk_sl 0 c) [] (trace adv (cl c) w) = Some (mk_sl 0 c, []).
  Proof. intros. exact (client_call_tree_lemma maxdepth qmin v6 Smax Fmax Lmax G walk_levels c adv w). Qed.

  Lemma client1_pairs : forall c adv w, forallb (pair_ok v6) (pairs_of (mk_sl 0 c) [] (trace adv (cl c) w)) = true.
  Proof. intros. exact (client_pairs_lemma maxdepth qmin v6 Smax Fmax Lmax G walk_levels c adv w). Qed.

  (* at most one generation of detached walks per client query, whatever the adversary delegates *)
  Lemma client1_generations : forall c adv w, cx_walk c = false ->
    Forall (fun g => (g <= 1)%nat) (gens_of false 0 [] (trace adv (cl c) w)).
  Proof.
    intros c adv w Hc. pose proof (tree_run_gens v6 _ _ _ _ (client1_call_tree c adv w)) as T.
    cbn [sl_cx gstack map] in T. rewrite Hc in T. exact T.
  Qed.

  (* ... and every (parent, child) pair of every trace: a marked run has only marked children; an unmarked run gets a
     marked child only as the first query of a walk *)
  Lemma client1_marks : forall c adv w par ch,
    In (Some par, ch) (pairs_of (mk_sl 0 c) [] (trace adv (cl c) w)) ->
    (cx_walk (sl_cx par) = true -> cx_walk (sl_cx ch) = true) /\
    (cx_walk (sl_cx par) = false -> cx_walk (sl_cx ch) = true -> sl_nest ch = 1%nat /\ sl_cx ch = cx_fresh /\ v6 = true).
  Proof.
    intros c adv w par ch Hin. pose proof (client1_pairs c adv w) as P.
    rewrite forallb_forall in P. specialize (P _ Hin). cbn [pair_ok] in P. exact (child_ok_mark v6 par ch P).
  Qed.

  Lemma client1_terminates : forall adv w, exists w' r, run adv (cl cx0) w = (w', r).
  Proof. intros. exact (resolve_terminates_lemma maxdepth qmin v6 Smax Fmax Lmax G walk_levels adv w). Qed.

  Lemma client1_work_bound : forall adv w, w_exch (fst (run adv (cl cx0) w)) <= w_exch w + N.of_nat work_bound1.
  Proof. intros. exact (work_bound_off_lemma maxdepth qmin v6 Smax Fmax Lmax G walk_levels adv w). Qed.

  Lemma client1_overbudget : forall pol adv,
    let '(w', r) := run adv (cl cx0) (fresh pol) in latched w' -> exists e, r = ReplyWork e true.
  Proof. intros. exact (overbudget_lemma maxdepth qmin v6 Smax Fmax Lmax G walk_levels pol adv). Qed.

  Lemma client1_shadow_equals_off : forall pol_off pol_shadow adv,
    p_mode pol_off = mode_off -> p_mode pol_shadow = mode_shadow ->
    let p := cl cx0 in
    snd (run adv p (fresh pol_off)) = snd (run adv p (fresh pol_shadow)) /\
    w_exch (fst (run adv p (fresh pol_off))) = w_exch (fst (run adv p (fresh pol_shadow))) /\
    w_sub (fst (run adv p (fresh pol_off))) = w_sub (fst (run adv p (fresh pol_shadow))).
  Proof. intros po ps adv. exact (shadow_equals_off_lemma maxdepth qmin v6 Smax Fmax Lmax G walk_levels po ps adv). Qed.
End Client.

(* the bound does not grow with a number of generations any more: it is the one-level instance, and a model with more
   levels has the same traces as far as walks are concerned — the second level is never entered (client1_marks) *)
Lemma work_bound1_is_one_level : forall maxdepth qmin Smax Fmax Lmax G,
  work_bound1 maxdepth qmin Smax Fmax Lmax G = work_bound maxdepth qmin Smax Fmax Lmax G 1.
Proof. reflexivity. Qed.
