(* C12 — Part D (the executable Queryer model the middleware driver is compared with) and the
   executable chase loop the cache driver is compared with. *)
From Sdns Require Import Common.Base Gen.C12 C12.Model C12.Skeleton C12.Proofs_ledger C12.Proofs_run.
Open Scope N_scope.

Lemma iter_n_inv {A} (P : A -> Prop) (f : A -> A) : (forall a, P a -> P (f a)) -> forall n a, P a -> P (iter_n n f a).
Proof. intros Hf n. induction n as [|n IH]; intros a Ha; cbn; [exact Ha|]. apply IH. now apply Hf. Qed.

Lemma w_tally_led : forall w r, w_led (w_tally w r) = w_led w /\ w_exch (w_tally w r) = w_exch w /\
  w_sub (w_tally w r) = w_sub w /\ w_deep (w_tally w r) = w_deep w.
Proof. intros w r. destruct r; cbn; repeat split. Qed.

(* nesting: no handler ever runs with a queryer depth above maxQueryerRecursion *)
Lemma qrun_deep : forall adv be q w, w_deep (fst (qrun adv be q w)) <= N.max (w_deep w) max_queryer_recursion.
Proof.
  intros adv be q. induction q as [|q IH]; intros w; cbn [qrun]; [cbn; lia|].
  unfold ctx_debit. destruct (debit (w_led w) kind_internal (negb be)) as [l r].
  destruct r; try (cbn; lia).
  destruct (adv _) as [n wr].
  set (w2 := w_saw_depth _ _).
  assert (H2 : w_deep w2 <= N.max (w_deep w) max_queryer_recursion) by (subst w2; cbn; lia).
  set (step := fun w0 => let '(w', r') := qrun adv be q w0 in w_tally w' r').
  assert (Hs : forall a, w_deep a <= N.max (w_deep w) max_queryer_recursion -> w_deep (step a) <= N.max (w_deep w) max_queryer_recursion).
  { intros a Ha. subst step. cbn beta. specialize (IH a). destruct (qrun adv be q a) as [w' r']. cbn in IH.
    destruct (w_tally_led w' r') as (_ & _ & _ & ->). lia. }
  pose proof (iter_n_inv _ step Hs n w2 H2) as H3.
  destruct (enforcement_error _); cbn [fst]; exact H3.
Qed.

(* budgets: in enforce mode the sub-pipeline runs since any earlier state are at most the internal
   debits accepted since then, and the internal counter stays under its cap *)
Lemma qrun_einv : forall adv be q w0 w, wenf w0 -> einv w0 w -> einv w0 (fst (qrun adv be q w)).
Proof.
  intros adv be q. induction q as [|q IH]; intros w0 w He Hi; cbn [qrun]; [exact Hi|].
  destruct Hi as [Hp Hl Ho Hn Hx Hs].
  assert (Hm : p_mode (l_pol (w_led w)) = mode_enforce) by (rewrite Hp; exact He).
  pose proof (debit_enforce_int (w_led w) (negb be) Hm Hl) as D. unfold ctx_debit.
  destruct (debit (w_led w) kind_internal (negb be)) as [l' r].
  destruct D as (Dp & Dl & Do & [(-> & Hlt & Hint)|((lim & ->) & Hint)]).
  - destruct (adv _) as [n wr].
    set (w2 := w_saw_depth _ _).
    assert (H2 : einv w0 w2).
    { subst w2. constructor; cbn; try assumption; try congruence; rewrite ?Dp, ?Do; try lia. }
    set (step := fun wa => let '(w', r') := qrun adv be q wa in w_tally w' r').
    assert (Hstep : forall a, einv w0 a -> einv w0 (step a)).
    { intros a Ha. subst step. cbn beta. specialize (IH w0 a He Ha). destruct (qrun adv be q a) as [w' r']. cbn in IH.
      destruct (w_tally_led w' r') as (E1 & E2 & E3 & _). destruct IH. constructor; unfold wlive; rewrite ?E1, ?E2, ?E3; assumption. }
    pose proof (iter_n_inv _ step Hstep n w2 H2) as H3.
    destruct (enforcement_error _); cbn [fst]; exact H3.
  - cbn [fst]. constructor; cbn; try assumption; try congruence; rewrite ?Dp, ?Hint, ?Do; try lia.
Qed.

Lemma qroot_budget : forall adv be depth0 pol, p_mode pol = mode_enforce ->
  let w' := qroot adv be depth0 (fresh pol) in
  w_sub w' <= p_max_int pol /\ l_int (w_led w') <= p_max_int pol.
Proof.
  intros adv be depth0 pol Hm w'.
  assert (Hi : einv (fresh pol) (fresh pol)) by (apply einv_refl; cbn; [reflexivity|lia|lia]).
  assert (Hfin : einv (fresh pol) w').
  { subst w'. unfold qroot. destruct (adv _) as [n wr].
    set (w2 := w_saw_depth _ _).
    assert (H2 : einv (fresh pol) w2) by (subst w2; destruct Hi; constructor; cbn; assumption).
    set (step := fun wa => let '(w', r') := qrun adv be (N.to_nat (max_queryer_recursion - depth0)) wa in w_tally w' r').
    assert (Hstep : forall a, einv (fresh pol) a -> einv (fresh pol) (step a)).
    { intros a Ha. subst step. cbn beta. pose proof (qrun_einv adv be (N.to_nat (max_queryer_recursion - depth0)) (fresh pol) a Hm Ha) as IH.
      destruct (qrun adv be _ a) as [wq rq]. cbn in IH.
      destruct (w_tally_led wq rq) as (E1 & E2 & E3 & _). destruct IH. constructor; unfold wlive; rewrite ?E1, ?E2, ?E3; assumption. }
    exact (iter_n_inv _ step Hstep n w2 H2). }
  destruct Hfin as [Hp Hl Ho Hn Hx Hs]. cbn in Hp, Hs. rewrite Hp in Hn. cbn in Hn. split; lia.
Qed.

(* the chase loop at one level asks at most cnameDepth sub-queries, and none at all once the
   nesting counter has reached maxCnameChaseDepth *)
Lemma chase_loop_bound : forall next left targets t q,
  fst (chase_loop next left targets t q) <= q + N.of_nat left.
Proof.
  intros next left. induction left as [|l IH]; intros targets t q; cbn [chase_loop]; [cbn; lia|].
  destruct (existsb _ _); [cbn; lia|].
  destruct (next t) as [t'|]; [|cbn; lia].
  destruct (t' =? 0); [cbn; lia|].
  destruct l as [|l']; [cbn; lia|]. specialize (IH (t :: targets) t' (q + 1)). lia.
Qed.

Lemma chase_model_bound : forall d len la lt,
  fst (chase_model d len la lt) <= cname_loop_depth /\ (max_cname_chase_depth <= d -> fst (chase_model d len la lt) = 0).
Proof.
  intros d len la lt. unfold chase_model. destruct (d <? max_cname_chase_depth) eqn:E.
  - split; [|apply N.ltb_lt in E; lia].
    pose proof (chase_loop_bound (chain_next len la lt) (N.to_nat cname_loop_depth) [] 1 0). lia.
  - cbn. split; [unfold cname_loop_depth; lia|reflexivity].
Qed.
