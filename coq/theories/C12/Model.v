(* C12 — bounded work per request.  Executable model (definitions only).

   Part A  the request-tree ledger (middleware/recursion_work.go), sequential semantics of every
           entry point, uint32 wrap written in where the code can wrap (shadow Add);
   Part B  the ledger's debit as an interleaving transition system (load ; compare-and-swap in
           enforce mode, atomic add in shadow mode), any number of threads, any schedule;
   Part C  the RFC 9520 attempt guard (middleware/resolution_attempt.go): 8 inline slots + overflow map;
   Part D  pipelineQueryer.Query (middleware/queryer.go): nesting bound, internal-query debit,
           enforcement check after the sub-pipeline ran; the handler is an adversary script.
   Part E  (Skeleton.v) the resolver skeleton.

   Constants, kinds, bits, modes, caps come from Gen/C12.v (regenerated from /repo on every run). *)
From Sdns Require Import Common.Base Gen.C12.
Open Scope N_scope.

(* ------------------------------------------------------------------ Part A: ledger *)

Definition policy := T_RecursionWorkPolicy.
Definition p_mode := T_RecursionWorkPolicy_Mode.
Definition p_max_out := T_RecursionWorkPolicy_MaxOutboundQueries.
Definition p_max_int := T_RecursionWorkPolicy_MaxInternalQueries.
Definition p_max_key := T_RecursionWorkPolicy_MaxDNSKEYCandidates.
Definition p_max_rrsig := T_RecursionWorkPolicy_MaxRRsetSignatureChecks.
Definition p_max_sig := T_RecursionWorkPolicy_MaxSignatureChecks.
Definition p_max_ds := T_RecursionWorkPolicy_MaxDSDigests.
Definition p_max_n3 := T_RecursionWorkPolicy_MaxNSEC3Hashes.
Definition p_max_cc := T_RecursionWorkPolicy_MaxConcurrentCrypto.

(* RecursionWorkPolicy.Enabled, as translated from the source *)
Definition enabled (p : policy) : bool := go_RecursionWorkPolicy_Enabled p.

Definition zero_policy : policy := mk_T_RecursionWorkPolicy 0 0 0 0 0 0 0 0 0.

Record ledger := mk_ledger {
  l_pol : policy;
  l_out : N; l_int : N; l_sig : N; l_ds : N; l_n3 : N;   (* atomic.Uint32 counters *)
  l_exh : N;      (* exhausted bit set *)
  l_first : N;    (* first latched rejection: kind+1, 0 = none *)
  l_refs : Z;     (* atomic.Int64 *)
  l_root : N;     (* rootState: live / rootDone / pending / closed *)
  l_fin : bool }.

Definition new_ledger (p : policy) : ledger := mk_ledger p 0 0 0 0 0 0 0 1%Z state_live false.
(* newRecursionWorkControlLedger: zero value with a control state *)
Definition control_ledger (st : N) : ledger := mk_ledger zero_policy 0 0 0 0 0 0 0 0%Z st false.

Inductive res := ROk | RLimit (kind limit : N) | RCanceled | RPanic.

Definition is_live (l : ledger) : bool := (l_root l =? state_live) || (l_root l =? state_root_done).

(* controlError: Some r = "control ledger, return r" *)
Definition control_error (l : ledger) : option res :=
  if is_live l then None
  else if l_root l =? state_closed then Some RCanceled else Some ROk.

(* which counter an aggregate kind uses: index into [out;int;sig;ds;n3], its limit, its bit *)
Definition agg_dim (p : policy) (k : N) : option (N * N * N) :=
  if k =? kind_outbound then Some (0, p_max_out p, bit_outbound)
  else if k =? kind_internal then Some (1, p_max_int p, bit_internal)
  else if k =? kind_signature then Some (2, p_max_sig p, bit_signature)
  else if k =? kind_ds_digest then Some (3, p_max_ds p, bit_ds_digest)
  else if k =? kind_nsec3_hash then Some (4, p_max_n3 p, bit_nsec3_hash)
  else None.

Definition local_dim (p : policy) (k : N) : option (N * N) :=
  if k =? kind_dnskey_candidate then Some (p_max_key p, bit_dnskey_candidate)
  else if k =? kind_rrset_signature then Some (p_max_rrsig p, bit_rrset_signature)
  else if k =? kind_concurrent_crypto then Some (p_max_cc p, bit_concurrent_crypto)
  else None.

Definition get_ctr (l : ledger) (i : N) : N :=
  if i =? 0 then l_out l else if i =? 1 then l_int l else if i =? 2 then l_sig l
  else if i =? 3 then l_ds l else l_n3 l.

Definition set_ctr (l : ledger) (i v : N) : ledger :=
  if i =? 0 then mk_ledger (l_pol l) v (l_int l) (l_sig l) (l_ds l) (l_n3 l) (l_exh l) (l_first l) (l_refs l) (l_root l) (l_fin l)
  else if i =? 1 then mk_ledger (l_pol l) (l_out l) v (l_sig l) (l_ds l) (l_n3 l) (l_exh l) (l_first l) (l_refs l) (l_root l) (l_fin l)
  else if i =? 2 then mk_ledger (l_pol l) (l_out l) (l_int l) v (l_ds l) (l_n3 l) (l_exh l) (l_first l) (l_refs l) (l_root l) (l_fin l)
  else if i =? 3 then mk_ledger (l_pol l) (l_out l) (l_int l) (l_sig l) v (l_n3 l) (l_exh l) (l_first l) (l_refs l) (l_root l) (l_fin l)
  else mk_ledger (l_pol l) (l_out l) (l_int l) (l_sig l) (l_ds l) v (l_exh l) (l_first l) (l_refs l) (l_root l) (l_fin l).

Definition set_flags (l : ledger) (exh first : N) : ledger :=
  mk_ledger (l_pol l) (l_out l) (l_int l) (l_sig l) (l_ds l) (l_n3 l) exh first (l_refs l) (l_root l) (l_fin l).

(* markExhausted *)
Definition mark_exhausted (l : ledger) (k bit : N) (latch : bool) : ledger :=
  if negb (is_live l) then l
  else set_flags l (N.lor (l_exh l) bit)
                 (if latch && (l_first l =? 0) then k + 1 else l_first l).

(* debit(kind, latchRejection) *)
Definition debit (l : ledger) (k : N) (latch : bool) : ledger * res :=
  match control_error l with
  | Some r => (l, r)
  | None =>
    if negb (enabled (l_pol l)) then (l, ROk)
    else match agg_dim (l_pol l) k with
    | None => (l, RPanic)
    | Some (i, lim, bit) =>
      if p_mode (l_pol l) =? mode_shadow then
        (* counter.Add(1) == limit+1, both in uint32 *)
        let c := wrap32 (get_ctr l i + 1) in
        let l1 := set_ctr l i c in
        ((if c =? wrap32 (lim + 1) then mark_exhausted l1 k bit false else l1), ROk)
      else
        let used := get_ctr l i in
        if lim <=? used then (mark_exhausted l k bit latch, RLimit k lim)
        else (set_ctr l i (used + 1), ROk)
    end
  end.

(* checkLocal(kind, used, latchRejection) *)
Definition check_local (l : ledger) (k used : N) (latch : bool) : ledger * res :=
  match control_error l with
  | Some r => (l, r)
  | None =>
    if negb (enabled (l_pol l)) then (l, ROk)
    else match local_dim (l_pol l) k with
    | None => (l, RPanic)
    | Some (lim, bit) =>
      if used <? lim then (l, ROk)
      else if p_mode (l_pol l) =? mode_shadow then
        ((if used =? lim then mark_exhausted l k bit false else l), ROk)
      else (mark_exhausted l k bit latch, RLimit k lim)
    end
  end.

(* reject(kind, latchRejection) *)
Definition reject (l : ledger) (k : N) (latch : bool) : ledger * res :=
  match control_error l with
  | Some r => (l, r)
  | None =>
    if negb (enabled (l_pol l)) then (l, ROk)
    else match local_dim (l_pol l) k with
    | None => (l, RPanic)
    | Some (lim, bit) =>
      let l1 := mark_exhausted l k bit ((p_mode (l_pol l) =? mode_enforce) && latch) in
      if p_mode (l_pol l) =? mode_shadow then (l1, ROk) else (l1, RLimit k lim)
    end
  end.

Definition limit_of (p : policy) (k : N) : option N :=
  match agg_dim p k with
  | Some (_, lim, _) => Some lim
  | None => match local_dim p k with Some (lim, _) => Some lim | None => None end
  end.

(* EnforcementError: ROk stands for nil *)
Definition enforcement_error (l : ledger) : res :=
  match control_error l with
  | Some r => r
  | None =>
    if negb (p_mode (l_pol l) =? mode_enforce) then ROk
    else if l_first l =? 0 then ROk
    else if kind_concurrent_crypto + 1 <? l_first l then ROk
    else match limit_of (l_pol l) (l_first l - 1) with
         | Some lim => RLimit (l_first l - 1) lim
         | None => ROk
         end
  end.

Definition set_refs (l : ledger) (r : Z) (root : N) (fin : bool) : ledger :=
  mk_ledger (l_pol l) (l_out l) (l_int l) (l_sig l) (l_ds l) (l_n3 l) (l_exh l) (l_first l) r root fin.

(* Retain *)
Definition retain (l : ledger) : ledger * bool :=
  if negb (is_live l) || negb (enabled (l_pol l)) then (l, false)
  else if (l_refs l =? 0)%Z then (l, false)
  else (set_refs l (l_refs l + 1)%Z (l_root l) (l_fin l), true).

(* release *)
Definition release (l : ledger) : ledger :=
  if negb (is_live l) then l
  else let r := (l_refs l - 1)%Z in
       if negb (r =? 0)%Z then set_refs l r (l_root l) (l_fin l)
       else set_refs l r (l_root l) true.

(* finish *)
Definition finish (l : ledger) : ledger :=
  if negb (is_live l) || negb (enabled (l_pol l)) || negb (l_root l =? state_live) then l
  else release (set_refs l (l_refs l) state_root_done (l_fin l)).

(* Snapshot followed by the raw words the in-package driver can read *)
Definition snapshot (l : ledger) : list Z :=
  (if negb (is_live l) then [0; 0; 0; 0; 0; 0; 0]%Z
   else map Z.of_N [p_mode (l_pol l); l_out l; l_int l; l_sig l; l_ds l; l_n3 l; l_exh l])
  ++ [Z.of_N (l_first l); l_refs l; Z.of_N (l_root l); (if l_fin l then 1 else 0)%Z].

(* operations of the op-sequence differential *)
Inductive lop :=
| ODebit (k : N) (latch : bool)
| OCheckLocal (k used : N) (latch : bool)
| OReject (k : N) (latch : bool)
| OEnfErr
| ORetain
| ORelease (i : nat)      (* the i-th release closure obtained so far; sync.Once *)
| OFinish
| OSet (i v : N).          (* driver hook: store v into counter i (to reach the uint32 boundary) *)

(* observation of one op: (code, kind, limit); code 0 nil, 1 limit error, 2 context.Canceled, 3 panic,
   4 false, 5 true *)
Definition obs := (N * N * N)%type.
Definition obs_of_res (r : res) : obs :=
  match r with ROk => (0, 0, 0) | RLimit k lim => (1, k, lim) | RCanceled => (2, 0, 0) | RPanic => (3, 0, 0) end.
Definition obs_of_bool (b : bool) : obs := if b then (5, 0, 0) else (4, 0, 0).

Fixpoint mark_released (hs : list bool) (i : nat) : option (list bool) :=
  match hs, i with
  | [], _ => None
  | h :: r, O => if h then None else Some (true :: r)
  | h :: r, S i' => match mark_released r i' with Some r' => Some (h :: r') | None => None end
  end.

Definition lstep (st : ledger * list bool) (o : lop) : (ledger * list bool) * obs :=
  let '(l, hs) := st in
  match o with
  | ODebit k latch => let '(l', r) := debit l k latch in ((l', hs), obs_of_res r)
  | OCheckLocal k used latch => let '(l', r) := check_local l k used latch in ((l', hs), obs_of_res r)
  | OReject k latch => let '(l', r) := reject l k latch in ((l', hs), obs_of_res r)
  | OEnfErr => ((l, hs), obs_of_res (enforcement_error l))
  | ORetain => let '(l', ok) := retain l in ((l', if ok then hs ++ [false] else hs), obs_of_bool ok)
  | ORelease i => match mark_released hs i with
                  | Some hs' => ((release l, hs'), (0, 0, 0))
                  | None => ((l, hs), (0, 0, 0))
                  end
  | OFinish => ((finish l, hs), (0, 0, 0))
  | OSet i v => ((set_ctr l i (wrap32 v), hs), (0, 0, 0))
  end.

Fixpoint lrun (st : ledger * list bool) (ops : list lop) : (ledger * list bool) * list obs :=
  match ops with
  | [] => (st, [])
  | o :: r => let '(st1, ob) := lstep st o in let '(st2, obs) := lrun st1 r in (st2, ob :: obs)
  end.

(* ------------------------------------------------------------------ Part B: interleavings *)

(* One debit of an aggregate kind is two atomic steps in enforce mode (Load, then the
   comparison with the loaded value and CompareAndSwap) and one in shadow mode (Add).
   Counters are indexed by kind; limits are a function of the kind. *)
Inductive tphase := TIdle | TLoaded (k used : N).
Record thread := mk_thread { t_todo : list N; t_ph : tphase }.
Record cstate := mk_cstate {
  c_ctr : N -> N;        (* the atomic counters *)
  c_acc : N -> N;        (* ghost: debits that returned nil, per kind *)
  c_rej : N -> N;        (* ghost: debits that returned a limit error, per kind *)
  c_threads : list thread }.

Definition upd (f : N -> N) (k v : N) : N -> N := fun x => if x =? k then v else f x.

Fixpoint set_nth {A} (l : list A) (i : nat) (x : A) : list A :=
  match l, i with
  | [], _ => []
  | _ :: r, O => x :: r
  | a :: r, S i' => a :: set_nth r i' x
  end.

Definition cstep (shadow : bool) (lim : N -> N) (s : cstate) (i : nat) : cstate :=
  match nth_error (c_threads s) i with
  | None => s
  | Some t =>
    match t_ph t with
    | TIdle =>
      match t_todo t with
      | [] => s
      | k :: rest =>
        if shadow then
          mk_cstate (upd (c_ctr s) k (wrap32 (c_ctr s k + 1))) (upd (c_acc s) k (c_acc s k + 1)) (c_rej s)
                    (set_nth (c_threads s) i (mk_thread rest TIdle))
        else
          mk_cstate (c_ctr s) (c_acc s) (c_rej s) (set_nth (c_threads s) i (mk_thread (t_todo t) (TLoaded k (c_ctr s k))))
      end
    | TLoaded k used =>
      if lim k <=? used then
        mk_cstate (c_ctr s) (c_acc s) (upd (c_rej s) k (c_rej s k + 1))
                  (set_nth (c_threads s) i (mk_thread (tl (t_todo t)) TIdle))
      else if c_ctr s k =? used then
        mk_cstate (upd (c_ctr s) k (used + 1)) (upd (c_acc s) k (c_acc s k + 1)) (c_rej s)
                  (set_nth (c_threads s) i (mk_thread (tl (t_todo t)) TIdle))
      else
        (* CAS failed: loop back to the Load *)
        mk_cstate (c_ctr s) (c_acc s) (c_rej s) (set_nth (c_threads s) i (mk_thread (t_todo t) TIdle))
    end
  end.

Definition crun (shadow : bool) (lim : N -> N) (s : cstate) (sched : list nat) : cstate :=
  fold_left (cstep shadow lim) sched s.

Definition cinit (todos : list (list N)) : cstate :=
  mk_cstate (fun _ => 0) (fun _ => 0) (fun _ => 0) (map (fun td => mk_thread td TIdle) todos).

Definition thread_done (t : thread) : bool :=
  match t_todo t, t_ph t with [], TIdle => true | _, _ => false end.

(* ------------------------------------------------------------------ Part C: attempt guard *)

Record gstore := mk_gstore { g_slots : list (N * N); g_over : list (N * N) }.
Definition gempty : gstore := mk_gstore [] [].

Fixpoint assoc_find (h : N) (l : list (N * N)) : option N :=
  match l with
  | [] => None
  | (h', c) :: r => if h' =? h then Some c else assoc_find h r
  end.
Fixpoint assoc_bump (h : N) (l : list (N * N)) : list (N * N) :=
  match l with
  | [] => []
  | (h', c) :: r => if h' =? h then (h', c + 1) :: r else (h', c) :: assoc_bump h r
  end.

(* ResolutionAttemptGuard.begin *)
Definition gbegin (g : gstore) (h : N) : gstore * bool :=
  match assoc_find h (g_slots g) with
  | Some c => if max_resolution_attempts <=? c then (g, false)
              else (mk_gstore (assoc_bump h (g_slots g)) (g_over g), true)
  | None =>
    match assoc_find h (g_over g) with
    | Some c => if max_resolution_attempts <=? c then (g, false)
                else (mk_gstore (g_slots g) (assoc_bump h (g_over g)), true)
    | None =>
      if N.of_nat (length (g_slots g)) <? guard_slots
      then (mk_gstore (g_slots g ++ [(h, 1)]) (g_over g), true)
      else (mk_gstore (g_slots g) ((h, 1) :: g_over g), true)
    end
  end.

Fixpoint grun (g : gstore) (hs : list N) : gstore * list bool :=
  match hs with
  | [] => (g, [])
  | h :: r => let '(g1, b) := gbegin g h in let '(g2, bs) := grun g1 r in (g2, b :: bs)
  end.

(* ------------------------------------------------------------------ Part D: pipelineQueryer.Query *)

Inductive qres := QOk | QErrMax | QErrLimit (k lim : N) | QNoResp | QCanceled | QPanic.

Record wstate := mk_w {
  w_led : ledger;
  w_tick : nat;       (* adversary consultations so far (= handler invocations in Part D) *)
  w_exch : N;         (* wire exchanges performed *)
  w_deep : N;         (* deepest queryer nesting value a handler saw in its context *)
  w_sub : N;          (* sub-pipeline runs / direct sub-resolutions started *)
  w_rok : N; w_rmax : N; w_rlim : N; w_rnone : N   (* tallies of nested Query results *) }.

Definition w_set_led (w : wstate) (l : ledger) : wstate :=
  mk_w l (w_tick w) (w_exch w) (w_deep w) (w_sub w) (w_rok w) (w_rmax w) (w_rlim w) (w_rnone w).
Definition w_ticked (w : wstate) : wstate :=
  mk_w (w_led w) (S (w_tick w)) (w_exch w) (w_deep w) (w_sub w) (w_rok w) (w_rmax w) (w_rlim w) (w_rnone w).
Definition w_saw_depth (w : wstate) (d : N) : wstate :=
  mk_w (w_led w) (w_tick w) (w_exch w) (N.max (w_deep w) d) (w_sub w) (w_rok w) (w_rmax w) (w_rlim w) (w_rnone w).
Definition w_subbed (w : wstate) : wstate :=
  mk_w (w_led w) (w_tick w) (w_exch w) (w_deep w) (w_sub w + 1) (w_rok w) (w_rmax w) (w_rlim w) (w_rnone w).
Definition w_exchanged (w : wstate) : wstate :=
  mk_w (w_led w) (w_tick w) (w_exch w + 1) (w_deep w) (w_sub w) (w_rok w) (w_rmax w) (w_rlim w) (w_rnone w).
Definition w_tally (w : wstate) (r : qres) : wstate :=
  match r with
  | QOk => mk_w (w_led w) (w_tick w) (w_exch w) (w_deep w) (w_sub w) (w_rok w + 1) (w_rmax w) (w_rlim w) (w_rnone w)
  | QErrMax => mk_w (w_led w) (w_tick w) (w_exch w) (w_deep w) (w_sub w) (w_rok w) (w_rmax w + 1) (w_rlim w) (w_rnone w)
  | QErrLimit _ _ => mk_w (w_led w) (w_tick w) (w_exch w) (w_deep w) (w_sub w) (w_rok w) (w_rmax w) (w_rlim w + 1) (w_rnone w)
  | _ => mk_w (w_led w) (w_tick w) (w_exch w) (w_deep w) (w_sub w) (w_rok w) (w_rmax w) (w_rlim w) (w_rnone w + 1)
  end.
Definition w_init (l : ledger) : wstate := mk_w l O 0 0 0 0 0 0 0.

Definition qres_of_res (r : res) : qres :=
  match r with ROk => QOk | RLimit k lim => QErrLimit k lim | RCanceled => QCanceled | RPanic => QPanic end.

(* DebitRecursionWork(ctx, kind): best-effort contexts do not latch *)
Definition ctx_debit (w : wstate) (k : N) (best_effort : bool) : wstate * res :=
  let '(l, r) := debit (w_led w) k (negb best_effort) in (w_set_led w l, r).

Fixpoint iter_n {A} (n : nat) (f : A -> A) (a : A) : A :=
  match n with O => a | S n' => iter_n n' f (f a) end.

(* Query with [qleft] = maxQueryerRecursion - depth.  The sub-pipeline is one handler that,
   on its j-th invocation overall, issues [fst (adv j)] nested queries one after the other and
   then writes a response iff [snd (adv j)].  The recursion is on the code's own nesting
   counter only. *)
Fixpoint qrun (adv : nat -> nat * bool) (be : bool) (qleft : nat) (w : wstate) : wstate * qres :=
  match qleft with
  | O => (w, QErrMax)
  | S q' =>
    let '(w1, r) := ctx_debit w kind_internal be in
    match r with
    | ROk =>
      let '(n, wr) := adv (w_tick w1) in
      let w2 := w_saw_depth (w_ticked (w_subbed w1)) (max_queryer_recursion - N.of_nat q') in
      let w3 := iter_n n (fun w => let '(w', r') := qrun adv be q' w in w_tally w' r') w2 in
      match enforcement_error (w_led w3) with
      | ROk => (w3, if wr then QOk else QNoResp)
      | e => (w3, qres_of_res e)
      end
    | e => (w1, qres_of_res e)
    end
  end.

(* the client's own chain: the root handler invocation is not a Query (no debit, no nesting
   increment); its nested calls are *)
Definition qroot (adv : nat -> nat * bool) (be : bool) (depth0 : N) (w : wstate) : wstate :=
  let '(n, _) := adv (w_tick w) in
  let w2 := w_saw_depth (w_ticked w) depth0 in
  iter_n n (fun w => let '(w', r') := qrun adv be (N.to_nat (max_queryer_recursion - depth0)) w in w_tally w' r') w2.

(* ------------------------------------------------------------------ Part F: RRSIG verification work *)

(* dnssec.verifyRRSIGWithWork / verifyOneSigWithWork under the resolver's dnssecWorkBudget: per
   RRset the signatures in order, per signature its same-tag candidate keys in order; before every
   public-key operation the per-signature candidate allowance, the per-RRset allowance and the
   tree-wide signature budget are asked, in this order.  A signature is (number of eligible
   candidates, index of the one that verifies if any). *)
Inductive sres := SVerified | SWork (r : res) | SFailed.

Fixpoint sig_cands (l : ledger) (rrused candused : N) (j c : nat) (v : option nat) : ledger * N * sres :=
  match c with
  | O => (l, rrused, SFailed)
  | S c' =>
    let '(l1, r1) := check_local l kind_dnskey_candidate candused true in
    match r1 with
    | ROk =>
      let '(l2, r2) := check_local l1 kind_rrset_signature rrused true in
      match r2 with
      | ROk =>
        let '(l3, r3) := debit l2 kind_signature true in
        match r3 with
        | ROk =>
          if match v with Some i => Nat.eqb i j | None => false end
          then (l3, rrused + 1, SVerified)
          else sig_cands l3 (rrused + 1) (candused + 1) (S j) c' v
        | e => (l3, rrused, SWork e)
        end
      | e => (l2, rrused, SWork e)
      end
    | e => (l1, rrused, SWork e)
    end
  end.

Fixpoint rrset_sigs (l : ledger) (rrused : N) (sigs : list (nat * option nat)) : ledger * sres :=
  match sigs with
  | [] => (l, SFailed)
  | (c, v) :: rest =>
    let '(l1, used1, r) := sig_cands l rrused 0 O c v in
    match r with
    | SFailed => rrset_sigs l1 used1 rest
    | r' => (l1, r')
    end
  end.

Fixpoint verify_rrsets (l : ledger) (sets : list (list (nat * option nat))) : ledger * sres :=
  match sets with
  | [] => (l, SVerified)
  | sigs :: rest =>
    let '(l1, r) := rrset_sigs l 0 sigs in
    match r with
    | SVerified => verify_rrsets l1 rest
    | r' => (l1, r')
    end
  end.

(* what the two local allowances admit for a shape: per RRset min(Rl, sum over signatures of min(K, candidates)) *)
Definition sig_shape_bound (K Rl : N) (sets : list (list (nat * option nat))) : N :=
  fold_right (fun sigs a => N.min Rl (fold_right (fun s b => N.min K (N.of_nat (fst s)) + b) 0 sigs) + a) 0 sets.


(* ------------------------------------------------------------------ Part G: configuration -> policy *)

(* MustRecursionWorkPolicyFromConfig after RecursionFirewallConfig.Normalize/Validate.
   mode text: 0 omitted, 1 "off", 2 "shadow", 3 "enforce", anything else is rejected (panic).
   limits in struct order; 0 = omitted = the default. *)
Definition cfg_limit (v dflt : N) : N := if v =? 0 then dflt else v.
Definition policy_of_config (mode_text : N) (lims : list N) : option policy :=
  let m := if mode_text =? 0 then Some mode_shadow else if mode_text =? 1 then Some mode_off
           else if mode_text =? 2 then Some mode_shadow else if mode_text =? 3 then Some mode_enforce else None in
  match m with
  | None => None
  | Some mode =>
    Some (mk_T_RecursionWorkPolicy mode
            (cfg_limit (nth 0 lims 0) default_max_outbound) (cfg_limit (nth 1 lims 0) default_max_internal)
            (cfg_limit (nth 2 lims 0) default_max_dnskey_candidates) (cfg_limit (nth 3 lims 0) default_max_rrset_signature_checks)
            (cfg_limit (nth 4 lims 0) default_max_signature_checks) (cfg_limit (nth 5 lims 0) default_max_ds_digests)
            (cfg_limit (nth 6 lims 0) default_max_nsec3_hashes) (cfg_limit (nth 7 lims 0) default_max_concurrent_crypto))
  end.
(* config.RecursionFirewallConfig.Normalize, field by field: an omitted mode is shadow, an omitted limit its default
   (the failure-cache fields likewise).  Proofs_ledger.gen_normalize: this IS the srcgen translation of the Go method. *)
Definition name_off : list N := [111; 102; 102].
Definition name_shadow : list N := [115; 104; 97; 100; 111; 119].
Definition name_enforce : list N := [101; 110; 102; 111; 114; 99; 101].
Definition norm_model (c : T_RecursionFirewallConfig) : T_RecursionFirewallConfig :=
  mk_T_RecursionFirewallConfig
    (match T_RecursionFirewallConfig_Mode c with [] => name_shadow | m => m end)
    (cfg_limit (T_RecursionFirewallConfig_MaxOutboundQueries c) default_max_outbound)
    (cfg_limit (T_RecursionFirewallConfig_MaxInternalQueries c) default_max_internal)
    (cfg_limit (T_RecursionFirewallConfig_MaxDNSKEYCandidates c) default_max_dnskey_candidates)
    (cfg_limit (T_RecursionFirewallConfig_MaxRRsetSignatureChecks c) default_max_rrset_signature_checks)
    (cfg_limit (T_RecursionFirewallConfig_MaxSignatureChecks c) default_max_signature_checks)
    (cfg_limit (T_RecursionFirewallConfig_MaxDSDigests c) default_max_ds_digests)
    (cfg_limit (T_RecursionFirewallConfig_MaxNSEC3Hashes c) default_max_nsec3_hashes)
    (cfg_limit (T_RecursionFirewallConfig_MaxConcurrentCrypto c) default_max_concurrent_crypto)
    (if (T_RecursionFirewallConfig_FailureCacheSize c =? 0)%Z then default_failure_cache_size else T_RecursionFirewallConfig_FailureCacheSize c)
    (if (T_Duration_Duration (T_RecursionFirewallConfig_FailureCacheMinTTL c) =? 0)%Z
     then mk_T_Duration default_failure_cache_min_ttl else T_RecursionFirewallConfig_FailureCacheMinTTL c)
    (if (T_Duration_Duration (T_RecursionFirewallConfig_FailureCacheMaxTTL c) =? 0)%Z
     then mk_T_Duration default_failure_cache_max_ttl else T_RecursionFirewallConfig_FailureCacheMaxTTL c).

(* the mode switch of MustRecursionWorkPolicyFromConfig (by hand: the function panics, which the translator refuses) *)
Definition mode_of_name (m : list N) : N :=
  if list_eq_dec N.eq_dec m name_off then mode_off
  else if list_eq_dec N.eq_dec m name_enforce then mode_enforce else mode_shadow.
Definition mode_text_name (t : N) : list N :=
  if t =? 1 then name_off else if t =? 2 then name_shadow else if t =? 3 then name_enforce else [].
Definition policy_of_normalized (c : T_RecursionFirewallConfig) : policy :=
  mk_T_RecursionWorkPolicy (mode_of_name (T_RecursionFirewallConfig_Mode c))
    (T_RecursionFirewallConfig_MaxOutboundQueries c) (T_RecursionFirewallConfig_MaxInternalQueries c)
    (T_RecursionFirewallConfig_MaxDNSKEYCandidates c) (T_RecursionFirewallConfig_MaxRRsetSignatureChecks c)
    (T_RecursionFirewallConfig_MaxSignatureChecks c) (T_RecursionFirewallConfig_MaxDSDigests c)
    (T_RecursionFirewallConfig_MaxNSEC3Hashes c) (T_RecursionFirewallConfig_MaxConcurrentCrypto c).

Definition policy_eqb (a b : policy) : bool :=
  (p_mode a =? p_mode b) && (p_max_out a =? p_max_out b) && (p_max_int a =? p_max_int b) && (p_max_key a =? p_max_key b) &&
  (p_max_rrsig a =? p_max_rrsig b) && (p_max_sig a =? p_max_sig b) && (p_max_ds a =? p_max_ds b) &&
  (p_max_n3 a =? p_max_n3 b) && (p_max_cc a =? p_max_cc b).
