(* C12 — property theorems only.  Each is closed by [exact <lemma>]; the lemmas live in Proofs_*.v,
   the model in Model.v / Skeleton.v; Gen/C12.v is regenerated from /repo on every run. *)
From Coq Require Import Relations.
From Sdns Require Import Common.Base Gen.C12 C12.Model C12.Skeleton
  C12.Proofs_ledger C12.Proofs_sig C12.Proofs_guard C12.Proofs_run C12.Proofs_skeleton C12.Proofs_reply C12.Proofs_query C12.Proofs_trace C12.Proofs_walk C12.ModelDS C12.Proofs_ds C12.ModelN3 C12.Proofs_n3 C12.Proofs_n3memo C12.Proofs_n3ring C12.Run.
Open Scope N_scope.

(* ---- translator ties: the kind sets the two dimension switches range over, the DNSSEC/network
   split that selects the EDE, as read from the source now *)
Theorem aggregate_kinds_are_the_switch_cases : forall p k, k < 256 ->
  (match agg_dim p k with Some _ => true | None => false end) = in_cases k aggregate_kinds.
Proof. exact gen_aggregate_kinds. Qed.
Print Assumptions aggregate_kinds_are_the_switch_cases.

Theorem local_kinds_are_the_switch_cases : forall p k, k < 256 ->
  (match local_dim p k with Some _ => true | None => false end) = in_cases k local_kinds.
Proof. exact gen_local_kinds. Qed.
Print Assumptions local_kinds_are_the_switch_cases.

Theorem every_kind_has_exactly_one_dimension : forall p k, k <= kind_concurrent_crypto ->
  (match agg_dim p k with Some _ => true | None => false end) = negb (match local_dim p k with Some _ => true | None => false end).
Proof. exact kinds_partition. Qed.
Print Assumptions every_kind_has_exactly_one_dimension.

Theorem dnssec_kinds_are_the_non_network_kinds : forall k,
  go_RecursionWorkKind_isDNSSEC k = negb ((k =? kind_outbound) || (k =? kind_internal)) && (k <=? kind_concurrent_crypto).
Proof. exact isDNSSEC_is_not_network. Qed.
Print Assumptions dnssec_kinds_are_the_non_network_kinds.

Theorem source_shape : 
  map (@length (list N))
      [shape_exchange_guard_debit_send; shape_resolver_send_sites; shape_query_cap_debit_run_check;
       shape_subquery_debit_resolve_check; shape_forwarder_before_attempt; shape_failover_before_attempt;
       shape_dnsclient_before_attempt_gates; shape_resolve_postcheck; shape_cacheable_failure_checks_ledger]
  = [1; 1; 1; 1; 1; 1; 1; 1; 1]%nat.
Proof. exact source_shape_lemma. Qed.
Print Assumptions source_shape.

Theorem caps_consistent :
  max_resolution_attempts = 3 /\
  max_dname_depth <= max_queryer_recursion /\ max_cname_chase_depth <= max_queryer_recursion /\
  0 < cname_loop_depth /\ 0 < cached_loop_depth_penalty /\ max_nsec3_iterations <= 500 /\
  subquery_default_depth = default_maxdepth /\ 0 < default_maxdepth /\
  0 < default_max_outbound /\ 0 < default_max_internal /\ 0 < default_max_dnskey_candidates /\
  0 < default_max_rrset_signature_checks /\ 0 < default_max_signature_checks /\ 0 < default_max_ds_digests /\
  0 < default_max_nsec3_hashes /\ 0 < default_max_concurrent_crypto /\
  default_max_internal <= default_max_outbound.
Proof. exact caps_consistent_lemma. Qed.
Print Assumptions caps_consistent.

Theorem request_tree_limits_are_request_local :
  name_in [69;114;114;82;101;99;117;114;115;105;111;110;87;111;114;107;76;105;109;105;116] request_local_errors = true /\
  name_in [69;114;114;82;101;115;111;108;117;116;105;111;110;65;116;116;101;109;112;116;76;105;109;105;116] request_local_errors = true /\
  name_in [69;114;114;77;97;120;82;101;99;117;114;115;105;111;110] request_local_errors = true.
Proof. exact request_local_errors_lemma. Qed.
Print Assumptions request_tree_limits_are_request_local.

(* configuration -> policy (MustRecursionWorkPolicyFromConfig): configured limits are the enforced ones *)
Theorem configured_limits_are_the_policy : forall mt lims p, policy_of_config mt lims = Some p ->
  (mt = 3 <-> p_mode p = mode_enforce) /\ (mt = 1 <-> p_mode p = mode_off) /\
  (nth 0 lims 0 <> 0 -> p_max_out p = nth 0 lims 0) /\ (nth 1 lims 0 <> 0 -> p_max_int p = nth 1 lims 0) /\
  (nth 2 lims 0 <> 0 -> p_max_key p = nth 2 lims 0) /\ (nth 3 lims 0 <> 0 -> p_max_rrsig p = nth 3 lims 0) /\
  (nth 4 lims 0 <> 0 -> p_max_sig p = nth 4 lims 0) /\ (nth 5 lims 0 <> 0 -> p_max_ds p = nth 5 lims 0) /\
  (nth 6 lims 0 <> 0 -> p_max_n3 p = nth 6 lims 0) /\ (nth 7 lims 0 <> 0 -> p_max_cc p = nth 7 lims 0).
Proof. exact policy_of_config_lemma. Qed.
Print Assumptions configured_limits_are_the_policy.

(* the per-validation-object dimension (limit field, exhaustion bit) of every kind: the model's local_dim is the
   srcgen translation of RecursionWorkLedger.localDimension *)
Theorem local_dimension_is_the_translated_function : forall p k,
  go_RecursionWorkLedger_localDimension (mk_T_RecursionWorkLedger p) k =
  match local_dim p k with Some (lim, bit) => (lim, bit, true) | None => (0, 0, false) end.
Proof. exact gen_local_dimension. Qed.
Print Assumptions local_dimension_is_the_translated_function.

(* ... and the validation step in front of it, translated from config.RecursionFirewallConfig.Validate: only the
   three mode names are accepted (anything else makes MustRecursionWorkPolicyFromConfig panic), and a known mode
   with non-zero limits and failure-cache fields in range is accepted as configured *)
Theorem validate_refuses_unknown_modes : forall c, go_RecursionFirewallConfig_Validate c = false ->
  known_mode (T_RecursionFirewallConfig_Mode c) /\ limits_set c.
Proof. exact gen_validate_refuses. Qed.
Print Assumptions validate_refuses_unknown_modes.

Theorem validate_accepts_normalised_configs : forall c, known_mode (T_RecursionFirewallConfig_Mode c) -> limits_set c ->
  (0 < T_RecursionFirewallConfig_FailureCacheSize c)%Z ->
  (1000000000 <= T_Duration_Duration (T_RecursionFirewallConfig_FailureCacheMinTTL c))%Z ->
  (T_Duration_Duration (T_RecursionFirewallConfig_FailureCacheMinTTL c) <= T_Duration_Duration (T_RecursionFirewallConfig_FailureCacheMaxTTL c))%Z ->
  (T_Duration_Duration (T_RecursionFirewallConfig_FailureCacheMaxTTL c) <= 300000000000)%Z ->
  go_RecursionFirewallConfig_Validate c = false.
Proof. exact gen_validate_accepts. Qed.
Print Assumptions validate_accepts_normalised_configs.

(* ---- Normalize (session 3, translator stage with receiver-mutating methods): the model's norm_model IS the
   srcgen translation of config.RecursionFirewallConfig.Normalize; Validate after Normalize accepts every configuration
   whose mode is omitted or one of the three names, whichever limits are omitted (so MustRecursionWorkPolicyFromConfig
   does not panic on it), and refuses every other mode text — Normalize never repairs one; policy_of_config, which the
   CasePolicy cases compare the real MustRecursionWorkPolicyFromConfig with, is Normalize followed by the mode switch *)
Theorem normalize_is_the_translated_function : forall c, go_RecursionFirewallConfig_Normalize c = norm_model c.
Proof. exact gen_normalize. Qed.
Print Assumptions normalize_is_the_translated_function.

Theorem validate_accepts_every_normalised_config : forall c,
  (T_RecursionFirewallConfig_Mode c = [] \/ known_mode (T_RecursionFirewallConfig_Mode c)) -> failure_cache_fields_ok c ->
  go_RecursionFirewallConfig_Validate (go_RecursionFirewallConfig_Normalize c) = false.
Proof. exact validate_normalize_accepts. Qed.
Print Assumptions validate_accepts_every_normalised_config.

Theorem unknown_mode_survives_normalize_and_is_refused : forall c,
  T_RecursionFirewallConfig_Mode c <> [] -> ~ known_mode (T_RecursionFirewallConfig_Mode c) ->
  go_RecursionFirewallConfig_Validate (go_RecursionFirewallConfig_Normalize c) = true.
Proof. exact validate_normalize_refuses. Qed.
Print Assumptions unknown_mode_survives_normalize_and_is_refused.

Theorem policy_of_config_is_normalize_then_switch : forall mt l0 l1 l2 l3 l4 l5 l6 l7 s tmin tmax, mt <= 3 ->
  policy_of_config mt [l0; l1; l2; l3; l4; l5; l6; l7] =
  Some (policy_of_normalized (go_RecursionFirewallConfig_Normalize
          (mk_T_RecursionFirewallConfig (mode_text_name mt) l0 l1 l2 l3 l4 l5 l6 l7 s tmin tmax))).
Proof. exact policy_of_config_is_normalize. Qed.
Print Assumptions policy_of_config_is_normalize_then_switch.

(* non-vacuity: everything omitted; a tiny aggregate with the per-RRset allowance omitted (the shape of seeded C12-5) *)
Example normalize_example :
  let c0 := mk_T_RecursionFirewallConfig [] 0 0 0 0 0 0 0 0 0%Z (mk_T_Duration 0) (mk_T_Duration 0) in
  let c5 := mk_T_RecursionFirewallConfig name_enforce 3 28 35 0 1 194 2 8 0%Z (mk_T_Duration 0) (mk_T_Duration 0) in
  go_RecursionFirewallConfig_Validate (go_RecursionFirewallConfig_Normalize c0) = false /\
  policy_of_normalized (go_RecursionFirewallConfig_Normalize c0) = mk_T_RecursionWorkPolicy mode_shadow 128 32 4 8 32 32 32 32 /\
  policy_of_normalized (go_RecursionFirewallConfig_Normalize c5) = mk_T_RecursionWorkPolicy mode_enforce 3 28 35 8 1 194 2 8.
Proof. vm_compute. repeat split. Qed.

(* ---- (i) the ledger.  For every number of threads, every list of debits per thread and EVERY
   schedule of the atomic steps (Load; compare, CompareAndSwap): in every reachable state, per kind,
   the counter equals the number of accepted debits and never passes the cap. *)
Theorem debit_never_exceeds_cap : forall lim todos sched k,
  let s := crun false lim (cinit todos) sched in
  c_ctr s k = c_acc s k /\ c_acc s k <= lim k.
Proof. exact debit_never_exceeds_cap_lemma. Qed.
Print Assumptions debit_never_exceeds_cap.

(* when all threads are done exactly min(requested, cap) debits were accepted: nothing is refused
   while budget is left, whatever the interleaving *)
Theorem concurrent_debits_tally : forall lim todos sched k,
  let s := crun false lim (cinit todos) sched in
  forallb thread_done (c_threads s) = true ->
  c_acc s k = N.min (requested todos k) (lim k) /\ c_rej s k = requested todos k - c_acc s k.
Proof. exact conc_complete_tally. Qed.
Print Assumptions concurrent_debits_tally.

(* shadow mode never refuses, under every interleaving; the counter is the debit count mod 2^32 *)
Theorem shadow_never_refuses_any_schedule : forall lim todos sched k,
  let s := crun true lim (cinit todos) sched in
  c_rej s k = 0 /\ c_ctr s k = wrap32 (c_acc s k).
Proof. exact shadow_never_refuses_conc. Qed.
Print Assumptions shadow_never_refuses_any_schedule.

(* the sequential entry points (what the op-sequence driver compares): enforce keeps every counter
   under its cap; shadow/off never return a limit error; an optional branch's rejection does not latch *)
Theorem enforce_debit_keeps_caps : forall l k latch, enforce l -> under_caps l -> under_caps (fst (debit l k latch)).
Proof. exact debit_keeps_caps. Qed.
Print Assumptions enforce_debit_keeps_caps.

Theorem shadow_and_off_never_refuse : forall l k latch r, p_mode (l_pol l) <> mode_enforce -> is_live l = true ->
  snd (debit l k latch) = r -> r = ROk \/ r = RPanic.
Proof. exact shadow_never_refuses. Qed.
Print Assumptions shadow_and_off_never_refuse.

Theorem best_effort_rejection_does_not_latch : forall l k, l_first (fst (debit l k false)) = l_first l.
Proof. exact best_effort_does_not_latch. Qed.
Print Assumptions best_effort_rejection_does_not_latch.

(* ---- (ii) the attempt guard: per (question, endpoint, transport) hash at most
   maxResolutionAttempts admissions, for every sequence of attempts; refusal exactly at the ceiling *)
Theorem attempts_never_exceed_ceiling : forall hs h, admitted h hs (snd (grun gempty hs)) <= max_resolution_attempts.
Proof. exact attempts_capped. Qed.
Print Assumptions attempts_never_exceed_ceiling.

Theorem attempt_refused_exactly_at_ceiling : forall pre h,
  snd (gbegin (fst (grun gempty pre)) h) = (admitted h pre (snd (grun gempty pre)) <? max_resolution_attempts).
Proof. exact attempt_admitted_iff. Qed.
Print Assumptions attempt_refused_exactly_at_ceiling.

(* ---- queryer nesting and internal budget on the executable model the driver compares with *)
Theorem queryer_nesting_bounded : forall adv be q w,
  w_deep (fst (qrun adv be q w)) <= N.max (w_deep w) max_queryer_recursion.
Proof. exact qrun_deep. Qed.
Print Assumptions queryer_nesting_bounded.

Theorem queryer_runs_within_internal_budget : forall adv be depth0 pol, p_mode pol = mode_enforce ->
  let w' := qroot adv be depth0 (fresh pol) in
  w_sub w' <= p_max_int pol /\ l_int (w_led w') <= p_max_int pol.
Proof. exact qroot_budget. Qed.
Print Assumptions queryer_runs_within_internal_budget.

Theorem chase_level_bounded : forall d len la lt,
  fst (chase_model d len la lt) <= cname_loop_depth /\ (max_cname_chase_depth <= d -> fst (chase_model d len la lt) = 0).
Proof. exact chase_model_bound. Qed.
Print Assumptions chase_level_bounded.

(* ---- DNSSEC signature work: whatever the response looks like (any number of RRsets, RRSIGs per
   RRset, colliding DNSKEYs per key tag, genuine or not), in enforce mode the verification loop performs
   at most MaxSignatureChecks public-key operations, and at most
   sum over RRsets of min(MaxRRsetSignatureChecks, sum over RRSIGs of min(MaxDNSKEYCandidates, candidates)) *)
Theorem rrsig_work_bounded : forall K Rl St sets,
  let pol := mk_T_RecursionWorkPolicy mode_enforce 128 32 K Rl St 32 32 32 in
  let l := fst (verify_rrsets (new_ledger pol) sets) in
  l_sig l <= St /\ l_sig l <= sig_shape_bound K Rl sets.
Proof. exact rrsig_work_bounded_lemma. Qed.
Print Assumptions rrsig_work_bounded.

(* ---- (iii) the skeleton.
   exchange_preceded_by_debit: ANY program in which every Exchange is the acceptance branch of an
   outbound debit and every SubRun that of an internal debit stays within the budgets in enforce
   mode, against every adversary ... *)
Theorem exchange_preceded_by_debit : forall A (p : prog A) pol adv, guarded p -> p_mode pol = mode_enforce ->
  let w' := fst (run adv p (fresh pol)) in
  w_exch w' <= p_max_out pol /\ w_sub w' <= p_max_int pol /\
  l_out (w_led w') <= p_max_out pol /\ l_int (w_led w') <= p_max_int pol.
Proof. exact (@budgets_hold). Qed.
Print Assumptions exchange_preceded_by_debit.

(* ... and the resolver skeleton is such a program, for every configuration *)
Theorem skeleton_is_guarded : forall maxdepth qmin v6 Smax Fmax Lmax G c, guarded (client maxdepth qmin v6 Smax Fmax Lmax G c).
Proof. exact client1_guarded. Qed.
Print Assumptions skeleton_is_guarded.

(* ---- (iii bis) the skeleton step by step (session 3).
   budgets_hold_at_every_step: for EVERY guarded program and every adversary, in enforce mode, the
   sequence of events an outside observer sees — exchanges reaching upstream servers, sub-pipeline runs
   starting, each with the ledger counters at that moment — passes [steps_ok]: when the k-th exchange
   arrives the outbound counter is already >= k and <= MaxOutboundQueries, when the k-th sub-run starts the
   internal counter is already >= k and <= MaxInternalQueries, counters never decrease.  Run.check_case
   applies the same [steps_ok] to the event sequence recorded from the real resolver. *)
Theorem budgets_hold_at_every_step : forall A (p : prog A) pol adv, guarded p -> p_mode pol = mode_enforce ->
  steps_ok true (p_max_out pol) (p_max_int pol) 0 0 0 0 (trace adv p (fresh pol)) = true.
Proof. exact (@stepwise_budgets_lemma). Qed.
Print Assumptions budgets_hold_at_every_step.

(* subquery_call_tree: in every run of the client program the sub-pipeline runs nest properly and the
   context of each (queryer nesting, CNAME-chase depth, DNAME depth, NS-lookup mark, best-effort mark) derives
   from the context of the run that asked for it by exactly one legitimate step ([child_ok]); at the end
   every run has returned. *)
Theorem subquery_call_tree : forall maxdepth qmin v6 Smax Fmax Lmax G c adv w,
  tree_run v6 (mk_sl 0 c) [] (trace adv (client maxdepth qmin v6 Smax Fmax Lmax G c) w) = Some (mk_sl 0 c, []).
Proof. exact client1_call_tree. Qed.
Print Assumptions subquery_call_tree.

(* ... and what one legitimate step means for the three depth counters *)
Theorem call_tree_step_respects_caps : forall v6 par ch, child_ok v6 par ch = true ->
  (N.of_nat (sl_nest ch) <= N.max (N.of_nat (sl_nest par)) max_queryer_recursion) /\
  N.of_nat (cx_chase (sl_cx ch)) <= N.of_nat (cx_chase (sl_cx par)) + 1 /\
  N.of_nat (cx_dname (sl_cx ch)) <= N.of_nat (cx_dname (sl_cx par)) + 1 /\
  (cx_chase (sl_cx ch) = S (cx_chase (sl_cx par)) -> N.of_nat (cx_chase (sl_cx ch)) <= max_cname_chase_depth) /\
  (cx_dname (sl_cx ch) = S (cx_dname (sl_cx par)) -> N.of_nat (cx_dname (sl_cx ch)) <= max_dname_depth).
Proof. exact child_ok_caps. Qed.
Print Assumptions call_tree_step_respects_caps.

(* ... the same for an observer who learns every sub-run's parent directly (the lab's probe passes its identity down the
   context): each (parent, child) pair is a legitimate step, a sub-run without a parent is the first query of a detached
   IPv6 walk — nesting 1 on the fresh, walk-marked context, started from a run whose context carries no walk mark
   (wave 5: the detached walk is modelled as the code runs it; session 4: as it runs since fix 1508bf1) *)
Theorem subquery_pairs : forall maxdepth qmin v6 Smax Fmax Lmax G c adv w,
  forallb (pair_ok v6) (pairs_of (mk_sl 0 c) [] (trace adv (client maxdepth qmin v6 Smax Fmax Lmax G c) w)) = true.
Proof. exact client1_pairs. Qed.
Print Assumptions subquery_pairs.

(* non-vacuity: a run of the client program with nested sub-runs (hit path, chase three levels deep on an
   internal budget of 3), and one with exchanges only *)
Example trace_example :
  let pol := mk_T_RecursionWorkPolicy mode_enforce 128 3 4 8 32 32 32 32 in
  let tr := trace (fun _ => 1%nat) (client 30 5 false 1 1 3 2 cx0) (fresh pol) in
  let tx := trace (fun j => match j with O => O | _ => 1%nat end) (client 30 5 false 1 1 3 2 cx0) (fresh pol) in
  length (filter (fun e => match e with EvS _ _ _ => true | _ => false end) tr) = 3%nat /\
  steps_ok true 128 3 0 0 0 0 tr = true /\
  length (filter (fun e => match e with EvX _ _ => true | _ => false end) tx) = 8%nat /\
  steps_ok true 128 3 0 0 0 0 tx = true.
Proof. vm_compute. repeat split. Qed.

(* non-vacuity (wave 5): a run in which a new delegation spawns the detached IPv6 walk — its query starts at nesting 1 on the
   fresh context under the client's own chain —, and a run in which the validation of a negative answer fetches a DS by a
   direct sub-resolution (label mk_dl: same nesting, same context): internal query debited first, its own exchange debited *)
Example detached_and_validation_example :
  let pol := mk_T_RecursionWorkPolicy mode_enforce 128 32 4 8 32 32 32 32 in
  let adv1 := fun j => nth j [0;0;0;3;0;2;6;0;0;1;1;1;0;0;0;3;0;0;0;0]%nat 0%nat in
  let adv2 := fun j => nth j [0;0;0;3;0;2;1;1;1;0;0;3;0;0;0]%nat 0%nat in
  trace adv1 (client 30 5 true 1 1 3 2 cx0) (fresh pol) = [EvX 1 0; EvS (mk_sl 1 cx_fresh) 1 1; EvE; EvX 2 1] /\
  trace adv2 (client 30 5 false 1 1 3 2 cx0) (fresh pol) = [EvX 1 0; EvS (mk_dl 0 cx0) 1 1; EvX 2 1; EvE] /\
  (let w := fst (run adv2 (client 30 5 false 1 1 3 2 cx0) (fresh pol)) in w_sub w = 1 /\ l_int (w_led w) = 1 /\ l_out (w_led w) = 2).
Proof. vm_compute. repeat split. Qed.

(* ---- the forwarder (wave 5): every transport attempt of middleware/forwarder — the TCP retry after TC=1 included — sits
   behind dnsclient's BeforeAttempt (guard, then outbound debit), so the interpreter theorems above apply to it; it makes at
   most two attempts per configured upstream.  Run.check_case compares [forward] with the real Forwarder exactly (CaseFwd). *)
Theorem forwarder_is_guarded : forall be n, guarded (forward be n).
Proof. exact forward_guarded. Qed.
Print Assumptions forwarder_is_guarded.

Theorem forwarder_work_bound : forall be n adv w,
  w_exch (fst (run adv (forward be n) w)) <= w_exch w + N.of_nat (2 * n).
Proof. intros. apply run_costs. apply forward_costs. Qed.
Print Assumptions forwarder_work_bound.

Example forwarder_example :
  let pol := mk_T_RecursionWorkPolicy mode_enforce 3 32 4 8 32 32 32 32 in
  let '(w, r) := run (fwd_adv [3; 2; 1]) (forward false 3) (fresh pol) in
  w_exch w = 3 /\ l_out (w_led w) = 3 /\ r = ReplyWork (RLimit kind_outbound 3) true.
Proof. vm_compute. repeat split. Qed.

(* resolve_terminates: the client program is a total function of the adversary — [resolve] is defined
   by structural recursion on the accessibility proof of the lexicographic order on
   (rs.depth, nomin, servers.Checked, minimisation steps left), each re-entry carrying the proof that
   the guard tested by the Go code made the tuple smaller (the ob_ lemmas of Skeleton.v); everything else
   structurally on the code's own counters; no fuel anywhere, no axiom (session 3: the Equations
   definition and with it functional_extensionality_dep are gone) *)
Theorem resolve_terminates : forall maxdepth qmin v6 Smax Fmax Lmax G adv w,
  exists w' r, run adv (client maxdepth qmin v6 Smax Fmax Lmax G cx0) w = (w', r).
Proof. exact client1_terminates. Qed.
Print Assumptions resolve_terminates.
Print Assumptions resolve.

(* work_bound_off: a computable bound (Proofs_skeleton.work_bound, defined by the same recursions as the skeleton: nested
   queries 32 deep, validation sub-queries over at most Lmax labels with G repeats of one question, ONE generation of
   detached IPv6 walks) on the exchanges of one client query in EVERY mode (so in particular with the firewall off), for
   every adversary whose delegations carry at most Smax+1 server addresses and Fmax glue-less names.  Session 4: the bound
   is no longer parameterised by a number of generations — since fix 1508bf1 the code admits one (next theorem). *)
Theorem work_bound_off : forall maxdepth qmin v6 Smax Fmax Lmax G adv w,
  w_exch (fst (run adv (client maxdepth qmin v6 Smax Fmax Lmax G cx0) w)) <= w_exch w + N.of_nat (work_bound1 maxdepth qmin Smax Fmax Lmax G).
Proof. exact client1_work_bound. Qed.
Print Assumptions work_bound_off.

(* detached_generations_at_most_one (session 4, fix 1508bf1): in every run of the client program, against every
   adversary — however many fresh zones it keeps delegating to nameservers without AAAA glue —, no sub-run has a generation
   above 1: the generation of a sub-run counts the detached-walk starts on its path from the client's own chain
   ([gens_of]: a run whose context carries the walk mark, started from one whose context does not).  The lab reconstructs
   the same numbers from who started whom (request-id dye) and Run.spec_case requires them to be <= 1. *)
Theorem detached_generations_at_most_one : forall maxdepth qmin v6 Smax Fmax Lmax G c adv w, cx_walk c = false ->
  Forall (fun g => (g <= 1)%nat) (gens_of false 0 [] (trace adv (client maxdepth qmin v6 Smax Fmax Lmax G c) w)).
Proof. exact client1_generations. Qed.
Print Assumptions detached_generations_at_most_one.

(* ... because the mark travels: a run inside a walk has only children inside the walk, and a run outside gets a marked
   child only as the first query of a walk (nesting 1, the fresh context, IPv6Access on) *)
Theorem walk_contexts_inherit_mark : forall maxdepth qmin v6 Smax Fmax Lmax G c adv w par ch,
  In (Some par, ch) (pairs_of (mk_sl 0 c) [] (trace adv (client maxdepth qmin v6 Smax Fmax Lmax G c) w)) ->
  (cx_walk (sl_cx par) = true -> cx_walk (sl_cx ch) = true) /\
  (cx_walk (sl_cx par) = false -> cx_walk (sl_cx ch) = true -> sl_nest ch = 1%nat /\ sl_cx ch = cx_fresh /\ v6 = true).
Proof. exact client1_marks. Qed.
Print Assumptions walk_contexts_inherit_mark.

(* the checker the lab applies to recorded events admits no second generation, whatever the events are *)
Theorem call_tree_checker_bounds_generations : forall v6 tr cur st s', tree_run v6 cur st tr = Some s' ->
  Forall (fun g => (g <= 1)%nat) (gens_of (cx_walk (sl_cx cur)) (b2n (cx_walk (sl_cx cur))) (gstack st) tr).
Proof. exact tree_run_gens. Qed.
Print Assumptions call_tree_checker_bounds_generations.

(* non-vacuity: IPv6Access on, the new delegation starts exactly one walk (one sub-run, generation 1, on the marked fresh
   context; adv1 is the adversary of detached_and_validation_example: consultations 10-12 are the walk's — how many
   glue-less names it looks up, cache hit, nothing to chase).  Inside a walk nothing starts another: under a marked
   client context the same choices for the chain itself (adv1 without the walk's three consultations, which a marked
   context never asks for) give the same two exchanges and no sub-run at all; and adv1 unchanged — now read at shifted
   positions, a different run of 11 exchanges — starts no sub-run either *)
Example one_generation_example :
  let pol := mk_T_RecursionWorkPolicy mode_enforce 128 32 4 8 32 32 32 32 in
  let adv1 := fun j => nth j [0;0;0;3;0;2;6;0;0;1;1;1;0;0;0;3;0;0;0;0]%nat 0%nat in
  let adv1m := fun j => nth j [0;0;0;3;0;2;6;0;0;1;0;0;3;0;0;0;0]%nat 0%nat in
  let marked := mk_cx false O O false true in
  let is_start := fun e => match e with EvS _ _ _ => true | _ => false end in
  trace adv1 (client 30 5 true 1 1 3 2 cx0) (fresh pol) = [EvX 1 0; EvS (mk_sl 1 cx_fresh) 1 1; EvE; EvX 2 1] /\
  gens_of false 0 [] (trace adv1 (client 30 5 true 1 1 3 2 cx0) (fresh pol)) = [1%nat] /\
  trace adv1m (client 30 5 true 1 1 3 2 marked) (fresh pol) = [EvX 1 0; EvX 2 0] /\
  length (trace adv1 (client 30 5 true 1 1 3 2 marked) (fresh pol)) = 11%nat /\
  filter is_start (trace adv1 (client 30 5 true 1 1 3 2 marked) (fresh pol)) = [].
Proof. vm_compute. repeat split. Qed.

(* overbudget_is_servfail_not_cached: if the request tree ends with a latched rejection, the client's
   reply is the policy SERVFAIL built from the client's request (so an EDNS client gets the Extended
   DNS Error), and it is never handed to the failure cache — on the cache-miss path and, since fix
   ca465fd, on the cache-hit path as well.  (Before the fix the EDE clause was refuted on the hit path;
   reverting the fix makes the lab report the violation again.) *)
Theorem overbudget_is_servfail_not_cached : forall maxdepth qmin v6 Smax Fmax Lmax G pol adv,
  let '(w', r) := run adv (client maxdepth qmin v6 Smax Fmax Lmax G cx0) (fresh pol) in
  latched w' -> exists e, r = ReplyWork e true.
Proof. exact client1_overbudget. Qed.
Print Assumptions overbudget_is_servfail_not_cached.

Theorem overbudget_miss_path_carries_ede : forall maxdepth qmin v6 Smax Fmax nq nq0 vq c adv w e ede,
  snd (run adv (pipeline_miss maxdepth qmin v6 Smax Fmax nq nq0 vq c) w) = ReplyWork e ede -> ede = true.
Proof. exact pipeline_miss_has_ede. Qed.
Print Assumptions overbudget_miss_path_carries_ede.

(* non-vacuity, and the former counterexample: the hit-path chase runs over an internal budget of 1 *)
Example overbudget_hit_path_example :
  let '(w', r) := run (fun _ => 1%nat) (client 30 5 false 1 1 3 2 cx0) (fresh witness_pol) in
  latched w' /\ r = ReplyWork (RLimit kind_internal 1) true.
Proof. exact overbudget_hit_path_example_lemma. Qed.

(* shadow_equals_off: as functions of the adversary, the reply, the upstream exchanges and the
   sub-queries of one client query are identical with the firewall off and in shadow mode *)
Theorem shadow_equals_off : forall maxdepth qmin v6 Smax Fmax Lmax G pol_off pol_shadow adv,
  p_mode pol_off = mode_off -> p_mode pol_shadow = mode_shadow ->
  let p := client maxdepth qmin v6 Smax Fmax Lmax G cx0 in
  snd (run adv p (fresh pol_off)) = snd (run adv p (fresh pol_shadow)) /\
  w_exch (fst (run adv p (fresh pol_off))) = w_exch (fst (run adv p (fresh pol_shadow))) /\
  w_sub (fst (run adv p (fresh pol_off))) = w_sub (fst (run adv p (fresh pol_shadow))).
Proof. exact client1_shadow_equals_off. Qed.
Print Assumptions shadow_equals_off.

(* ---- the DS step of verifyDNSSEC (session 4): dnssec.VerifyDSWithWork, then DSMatchedKeys, on the tree's ledger.
   ds_digest_work_bounded: enforce mode, a fresh request tree, ANY DS set (padded, duplicated, colliding), any key set and
   any visiting order: the digests computed stay within MaxDSDigests; one pass stays within what the candidate allowance
   admits for the shape; every key reported as vouched for has a supported, well-formed DS naming it that carries its
   digest, and every digest on the way — one per record tried in the first pass and in the pass that confirmed the key —
   is on the ledger (nothing is confirmed on unpaid digests).  Run.check_case compares [ds_run] with the real functions. *)
Theorem ds_digest_work_bounded : forall K D dsl korder,
  let pol := ds_policy mode_enforce K D in
  let '(l, v, m) := ds_run (new_ledger pol) dsl korder in
  l_ds l <= D /\
  l_ds (fst (verify_ds (new_ledger pol) dsl)) <= ds_shape_bound K dsl /\
  forallb (fun j => has_match j dsl) m = true /\
  (v = DOk -> fst (pass_cost dsl) + fold_right (fun j a => fst (pass_cost (restrict j dsl)) + a) 0 m <= l_ds l).
Proof. exact ds_digest_work_bounded_lemma. Qed.
Print Assumptions ds_digest_work_bounded.

Theorem ds_shadow_never_refuses : forall K D dsl korder,
  let '(_, v, _) := ds_run (new_ledger (ds_policy mode_shadow K D)) dsl korder in forall e, v <> DWork e.
Proof. exact ds_shadow_never_refuses_lemma. Qed.
Print Assumptions ds_shadow_never_refuses.

Example ds_padded_set :
  let wrong := (true, true, [(0%nat, false); (1%nat, false)]) in
  let dsl := (true, true, [(0%nat, true); (1%nat, false)]) :: repeat wrong 10 ++ [(true, true, [(0%nat, false); (1%nat, true)])] in
  (let '(l, v, m) := ds_run (new_ledger (ds_policy mode_enforce 4 4)) dsl [0%nat; 1%nat] in
   v = DOk /\ m = [0%nat] /\ l_ds l = 4 /\ N.land (l_exh l) bit_ds_digest = bit_ds_digest) /\
  (let '(l, v, m) := ds_run (new_ledger (ds_policy mode_enforce 4 14)) dsl [0%nat; 1%nat] in
   v = DOk /\ m = [0%nat; 1%nat] /\ l_ds l = 14 /\ l_exh l = 0) /\
  ds_need dsl [0%nat; 1%nat] = 14.
Proof. exact ds_padded_set_example. Qed.

(* ---- the NSEC3 denial verifiers (session 5): VerifyNameError / VerifyNODATA / VerifyDelegation / VerifyWildcardAnswer
   ...ForZoneWithWork on the tree's ledger and the tree's hash memo, as Resolver.answer / authority / validateDelegation call them.
   nsec3_hash_work_bounded: enforce mode, a fresh request tree, ANY sequence of validations of ANY shape (names of any
   depth, rings with gaps, overlaps, Opt-Out, any type bitmaps), with or without a memo: the iterated hashes computed
   stay within MaxNSEC3Hashes, and within what the shapes admit — per validation one per suffix of the name inside the
   signer zone, from the name itself up to and including the first suffix a record matches (the closest encloser; all
   of them when there is none) and, only when there is one, one more for the wildcard below it ([walk_cost]): names
   above the signer zone, the next closer name, a second look at the name cost nothing.
   Run.check_case compares [n3_run] with the real functions (CaseN3: every verdict, counter, exhaustion bit, latch). *)
Theorem nsec3_hash_work_bounded : forall H um ps,
  let '(l, _, _) := n3_run um (new_ledger (n3_policy mode_enforce H)) [] ps in
  l_n3 l <= H /\ l_n3 l <= n3_shape_bound ps.
Proof. exact nsec3_hash_work_bounded_lemma. Qed.
Print Assumptions nsec3_hash_work_bounded.

(* "high NSEC3 iteration proofs": records above maxNSEC3Iterations (150), with another hash algorithm or with undefined
   flags are dropped before any hash work, in every mode — the validation fails, ledger and memo are untouched.  The
   usability test is the srcgen translation of dnssec.nsec3Safe (second theorem: what it says), so one hash is at most
   151 SHA-1 rounds and one request tree at most MaxNSEC3Hashes x 151. *)
Theorem nsec3_unusable_records_cost_nothing : forall um l memo kind isds halg flags iters mixed chain,
  (max_nsec3_iterations < iters \/ halg <> 1 \/ 1 < flags) ->
  n3_validate um l memo (kind, isds, (halg, flags, iters), mixed, chain) = (l, memo, NFail).
Proof. exact unusable_records_cost_nothing. Qed.
Print Assumptions nsec3_unusable_records_cost_nothing.

Theorem nsec3_safe_is_the_translated_function : forall halg flags iters,
  go_nsec3Safe (n3_record (halg, flags, iters)) =
  (halg =? 1) && (iters <=? max_nsec3_iterations) && ((flags =? 0) || (flags =? 1)).
Proof. exact gen_nsec3_safe. Qed.
Print Assumptions nsec3_safe_is_the_translated_function.

Theorem nsec3_shadow_never_refuses : forall H um ps,
  let '(_, _, vs) := n3_run um (new_ledger (n3_policy mode_shadow H)) [] ps in Forall (fun v => forall e, v <> NWork e) vs.
Proof. exact nsec3_shadow_never_refuses_lemma. Qed.
Print Assumptions nsec3_shadow_never_refuses.

(* the request tree's hash memo (dnssec.EnsureNSEC3HashMemo): with a memo on the context every distinct hash preimage —
   (parameters, zone, class, canonical name) — is paid for at most once per request tree, however many validations of the
   tree ask about it and in whatever order, as long as the tree meets no more distinct preimages than the memo holds
   (maxNSEC3HashMemoEntries = 64): the memo never holds a preimage twice, holds only preimages some validation can ask
   about ([n3_ids]: per validation the suffixes inside the zone up to and including the closest encloser and the wildcard
   below it — nothing beyond), and the NSEC3-hash counter IS its length.  Run.spec_case requires hashes <= distinct
   preimages of every tree that carries a memo. *)
Theorem nsec3_memo_pays_once : forall H ps, (distinct (n3_ids ps) <= memo_cap)%nat ->
  let '(l, memo, _) := n3_run true (new_ledger (n3_policy mode_enforce H)) [] ps in
  NoDup memo /\ incl memo (n3_ids ps) /\ l_n3 l = N.of_nat (length memo) /\ l_n3 l <= N.of_nat (distinct (n3_ids ps)).
Proof. exact nsec3_memo_pays_once_lemma. Qed.
Print Assumptions nsec3_memo_pays_once.

(* non-vacuity: a.b.c.z under zone z, closest encloser z (NXDOMAIN: 4 suffixes inside the zone + the wildcard = 5 hashes);
   on a budget of 3 the walk is refused at the fourth name and the budget is marked exhausted; on a budget of 8 it
   validates at a cost of 5, and a second time in the same tree it costs nothing (the tree's memo) — without a memo it
   costs 3 more and is refused; with 151 iterations nothing is hashed at all *)
Example nsec3_example :
  let nm := fun i look => mk_n3 i true look false 0 in
  let chain := [(nm 0%nat 2, nm 10%nat 0); (nm 1%nat 2, nm 11%nat 0); (nm 2%nat 2, nm 12%nat 0);
                (mk_n3 3 true 1 false 6, nm 13%nat 2); (mk_n3 4 false 0 false 0, mk_n3 14 false 0 false 0)] in
  let p := (0, false, (1, 0, 5), false, chain) : n3proof in
  (let '(l, _, vs) := n3_run true (new_ledger (n3_policy mode_enforce 3)) [] [p] in
   l_n3 l = 3 /\ vs = [NWork (RLimit kind_nsec3_hash 3)] /\ N.land (l_exh l) bit_nsec3_hash = bit_nsec3_hash) /\
  (let '(l, _, vs) := n3_run true (new_ledger (n3_policy mode_enforce 8)) [] [p; p] in l_n3 l = 5 /\ vs = [NOk; NOk]) /\
  (let '(l, _, vs) := n3_run false (new_ledger (n3_policy mode_enforce 8)) [] [p; p] in
   l_n3 l = 8 /\ vs = [NOk; NWork (RLimit kind_nsec3_hash 8)]) /\
  (let '(l, _, vs) := n3_run true (new_ledger (n3_policy mode_enforce 8)) [] [(0, false, (1, 0, 151), false, chain)] in
   l_n3 l = 0 /\ vs = [NFail]) /\
  n3_shape_bound [p] = 5 /\ distinct (n3_ids [p; p]) = 5%nat /\ memo_cap = 64%nat.
Proof. exact n3_example. Qed.

(* ---- the record set itself (wave 9).  What a lookup of a name finds in the NSEC3 records of a response — which the model
   used to be told by the driver — is computed by ModelN3.ring_look with the srcgen translations of the two functions the
   evaluator uses: dnssec.aggressiveNSEC3Covers (bytes.Compare on the digests) and dnssec.typesSet (map-as-set).
   nsec3_covers_is_interval_arithmetic: for digests of equal length whose elements are octets (20 each in the code:
   decodeAggressiveNSEC3Hash, prepareNSEC3Set), the translated function is the interval test on the digests read as
   big-endian numbers — a one-record ring covers everything but its owner, an ordinary interval is open on both sides,
   the last interval wraps around; and the digests the model builds from the case's numbers satisfy the premise. *)
Theorem nsec3_covers_is_interval_arithmetic : forall rr o n h, length o = length h -> length n = length h ->
  octets o -> octets n -> octets h ->
  go_aggressiveNSEC3Covers (mk_T_aggressiveNSEC3Entry rr o n) h = covers_spec (be o) (be n) (be h).
Proof. exact gen_nsec3_covers. Qed.
Print Assumptions nsec3_covers_is_interval_arithmetic.

Theorem nsec3_ring_lookup_uses_the_interval_test : forall o n oo types h,
  cov_code (o, n, oo, types) h =
  covers_spec (be (bytes_of hash_octets o)) (be (bytes_of hash_octets n)) (be (bytes_of hash_octets h)).
Proof. exact ring_covers_is_interval. Qed.
Print Assumptions nsec3_ring_lookup_uses_the_interval_test.

(* non-vacuity: a ring of three records (covered in the middle, covered by the wrap-around interval from both ends,
   matched owners with their type facts through typesSet, an overlapping extra record makes the lookup ambiguous) *)
Example nsec3_ring_example :
  let ring := [(100, 200, false, [1; 46]); (200, 300, true, [2]); (300, 100, false, [2; 6; 46])] : list ringrec in
  ring_look 1 ring 250 = (2, true, 0) /\ ring_look 1 ring 50 = (2, false, 0) /\ ring_look 1 ring 400 = (2, false, 0) /\
  ring_look 1 ring 200 = (1, false, 4) /\ ring_look 1 ring 100 = (1, false, 1) /\ ring_look 1 ring 300 = (1, false, 6) /\
  ring_look 1 ((150, 260, false, [1]) :: ring) 250 = (3, false, 0) /\
  be (bytes_of hash_octets 281474976710655) = 281474976710655 /\
  covers_spec 300 100 50 = true /\ covers_spec 100 200 200 = false.
Proof. exact ring_example. Qed.

(* ---- non-vacuity *)
(* three threads, two debits each, cap 4: a schedule that interleaves loads and CASes; 4 accepted, 2 refused *)
Example ledger_example :
  let s := crun false (fun _ => 4) (cinit [[0; 0]; [0; 0]; [0; 0]]) [0;1;2;0;1;2;1;0;2;0;0;1;1;2;2;0;1;2;0;1;2;0;1;2;0;1;2;2;2;2]%nat in
  forallb thread_done (c_threads s) = true /\ c_acc s 0 = 4 /\ c_rej s 0 = 2 /\ c_ctr s 0 = 4.
Proof. vm_compute. repeat split. Qed.

(* the skeleton reaches its internal budget: the adversary of the refutation spends it exactly *)
Example budget_reached_example :
  let w' := fst (run (fun _ => 1%nat) (client 30 5 false 1 1 3 2 cx0) (fresh witness_pol)) in
  w_sub w' = p_max_int witness_pol /\ wenf (fresh witness_pol) /\ guarded (client 30 5 false 1 1 3 2 cx0).
Proof. split; [vm_compute; reflexivity|split; [reflexivity|apply client1_guarded]]. Qed.

(* a fourth attempt for a tuple sitting in the overflow map (nine other tuples fill the slots first) *)
Example guard_example :
  snd (grun gempty [1;2;3;4;5;6;7;8;9;9;9;9]) = [true;true;true;true;true;true;true;true;true;true;true;false] /\
  length (g_slots (fst (grun gempty [1;2;3;4;5;6;7;8;9;9;9;9]))) = 8%nat.
Proof. vm_compute. split; reflexivity. Qed.
