(* C12 — Part I: NSEC3 hash work (definitions only).

   The NSEC3 denial-of-existence verifiers of middleware/resolver/dnssec/nsec3.go — VerifyNameErrorForZoneWithWork,
   VerifyNODATAForZoneWithWork, VerifyDelegationForZoneWithWork — as Resolver.answer / authority / validateDelegation
   call them: under the resolver's dnssecWorkBudget adapter, on the request tree's ledger and the request tree's hash
   memo (dnssec.EnsureNSEC3HashMemo, installed by Resolver.Resolve).

   One validation prepares the ring (prepareNSEC3Set: records above maxNSEC3Iterations, with another hash algorithm or
   undefined flags are skipped WITHOUT any hash work; a mixed-parameter set is refused) and then asks its evaluator about
   names.  nsec3RingEvaluator.hash: a name outside the signer zone costs nothing (ErrNSECMissingCoverage); a name this
   evaluator has hashed before is taken from its own map; a name the request tree's memo holds is taken from there;
   anything else is one BeginNSEC3Hash — a debit of the tree-wide NSEC3-hash budget, a refusal ends the validation with
   a work error — and one iterated SHA-1 (iterations + 1 rounds), remembered by the evaluator and, while the memo has
   fewer than maxNSEC3HashMemoEntries entries, by the tree.

   The shape of the input, in PROCESSING order: per validation the suffixes of the name in question, longest first
   (dnsname.Suffixes: the root excluded), each with what the ring says about it and about the wildcard below it:
     n3_id    identity of the hash preimage (parameters, zone, class, canonical name): equal ids share a digest
     n3_inz   the name is at or below the signer zone
     n3_look  0 neither matched nor covered / 1 matched by exactly one record / 2 covered by exactly one interval /
              3 ambiguous (matched and covered, or covered twice: ErrNSECMissingCoverage)
     n3_oo    the covering record has Opt-Out set
     n3_tys   type bitmap facts of the matching record: 1 the question's type or CNAME, 2 SOA, 4 NS, 8 DNAME, 16 DS *)
From Coq Require Import List.
From Sdns Require Import Common.Base Gen.C12 C12.Model.
Open Scope N_scope.

Record n3name := mk_n3 { n3_id : nat; n3_inz : bool; n3_look : N; n3_oo : bool; n3_tys : N }.
Inductive n3res := NOk | NWork (r : res) | NFail.
(* kind 0 NXDOMAIN / 1 NODATA / 2 insecure delegation / 3 wildcard answer (its chain is the next closer name alone); the question is a DS question; what the records of the set have
   in common: (hash algorithm, flags — 0: the records carry 0 or 1 —, iterations); the set mixes parameter tuples; the
   suffix chain with the wildcard below each suffix *)
Definition n3proof : Type := (N * bool * (N * N * N) * bool * list (n3name * n3name))%type.

Definition memo_cap : nat := N.to_nat max_nsec3_hash_memo_entries.
Definition mem_nat (x : nat) (l : list nat) : bool := existsb (Nat.eqb x) l.
Definition ty_has (tys bit : N) : bool := negb (N.land tys bit =? 0).

Inductive hres := HKnown | HOut | HWork (e : res).
(* the evaluator's state while it runs: the tree's ledger, the tree's memo, the evaluator's own map *)
Definition n3st : Type := (ledger * list nat * list nat)%type.

(* nsec3RingEvaluator.hash; [um]: the context carries a memo *)
Definition n3_hash (um : bool) (s : n3st) (nm : n3name) : n3st * hres :=
  let '(l, memo, loc) := s in
  if negb (n3_inz nm) then (s, HOut)
  else if mem_nat (n3_id nm) loc then (s, HKnown)
  else if um && mem_nat (n3_id nm) memo then ((l, memo, n3_id nm :: loc), HKnown)
  else let '(l1, r) := debit l kind_nsec3_hash true in
       match r with
       | ROk => ((l1, (if um && (length memo <? memo_cap)%nat then n3_id nm :: memo else memo), n3_id nm :: loc), HKnown)
       | e => ((l1, memo, loc), HWork e)
       end.

(* nsec3RingEvaluator.lookup *)
Inductive lkres := LkMatch (tys : N) | LkCover (oo : bool) | LkNone | LkMiss | LkWork (e : res).
Definition n3_lookup (um : bool) (s : n3st) (nm : n3name) : n3st * lkres :=
  let '(s1, h) := n3_hash um s nm in
  (s1, match h with
       | HOut => LkMiss
       | HWork e => LkWork e
       | HKnown => if n3_look nm =? 1 then LkMatch (n3_tys nm)
                   else if n3_look nm =? 2 then LkCover (n3_oo nm)
                   else if n3_look nm =? 3 then LkMiss else LkNone
       end).

(* findClosestEncloserWithWork: the first suffix with a matching record; the next closer name is the suffix tried
   just before it (the name itself when the name matches) *)
Inductive ceres := CEFound (wc : n3name) (tys : N) (nc : n3name) | CENone | CEWork (e : res).
Fixpoint n3_ce_from (um : bool) (s : n3st) (prev : n3name) (chain : list (n3name * n3name)) : n3st * ceres :=
  match chain with
  | [] => (s, CENone)
  | (nm, wc) :: rest =>
    let '(s1, r) := n3_lookup um s nm in
    match r with
    | LkMatch tys => (s1, CEFound wc tys prev)
    | LkWork e => (s1, CEWork e)
    | _ => n3_ce_from um s1 nm rest
    end
  end.
Definition n3_ce (um : bool) (s : n3st) (chain : list (n3name * n3name)) : n3st * ceres :=
  match chain with
  | [] => (s, CENone)
  | (nm, wc) :: rest =>
    let '(s1, r) := n3_lookup um s nm in
    match r with
    | LkMatch tys => (s1, CEFound wc tys nm)
    | LkWork e => (s1, CEWork e)
    | _ => n3_ce_from um s1 nm rest
    end
  end.

(* validateNSEC3ClosestEncloser *)
Definition bad_encloser (tys : N) : bool := ty_has tys 8 || (ty_has tys 4 && negb (ty_has tys 2)).

(* findCovererWithWork on [nm], then [k] on the Opt-Out bit of the cover *)
Definition n3_cover (um : bool) (s : n3st) (nm : n3name) (k : n3st -> bool -> n3st * n3res) : n3st * n3res :=
  let '(s1, r) := n3_lookup um s nm in
  match r with
  | LkCover oo => k s1 oo
  | LkWork e => (s1, NWork e)
  | _ => (s1, NFail)
  end.

(* closest encloser, validated, then [k] on the wildcard below it and the next closer name *)
Definition n3_enclosed (um : bool) (s : n3st) (chain : list (n3name * n3name))
    (k : n3st -> n3name -> n3name -> n3st * n3res) : n3st * n3res :=
  let '(s1, c) := n3_ce um s chain in
  match c with
  | CEWork e => (s1, NWork e)
  | CENone => (s1, NFail)
  | CEFound wc tys nc => if bad_encloser tys then (s1, NFail) else k s1 wc nc
  end.

(* verifyNameErrorWithRing *)
Definition n3_name_error (um : bool) (s : n3st) (chain : list (n3name * n3name)) : n3st * n3res :=
  n3_enclosed um s chain (fun s1 wc nc =>
    n3_cover um s1 nc (fun s2 _ => n3_cover um s2 wc (fun s3 _ => (s3, NOk)))).

(* the Opt-Out proof shared by the DS branch of NODATA and by VerifyDelegation *)
Definition n3_optout (um : bool) (s : n3st) (chain : list (n3name * n3name)) : n3st * n3res :=
  n3_enclosed um s chain (fun s1 _ nc =>
    n3_cover um s1 nc (fun s2 oo => (s2, if oo then NOk else NFail))).

(* VerifyNODATAForZoneWithWork after the ring was prepared *)
Definition n3_nodata (um : bool) (isds : bool) (s : n3st) (chain : list (n3name * n3name)) : n3st * n3res :=
  match chain with
  | [] => (s, NFail)
  | (q, _) :: _ =>
    let '(s1, r) := n3_lookup um s q in
    match r with
    | LkMatch tys =>
        (s1, if ty_has tys 1 then NFail
             else if isds && ty_has tys 2 then NFail
             else if negb isds && ty_has tys 4 && negb (ty_has tys 2) then NFail
             else NOk)
    | LkWork e => (s1, NWork e)
    | _ =>
      if isds then n3_optout um s1 chain
      else n3_enclosed um s1 chain (fun s2 wc nc =>
             n3_cover um s2 nc (fun s3 _ =>
               let '(s4, rw) := n3_lookup um s3 wc in
               match rw with
               | LkMatch tys => (s4, if ty_has tys 1 then NFail else NOk)
               | LkWork e => (s4, NWork e)
               | _ => (s4, NFail)
               end))
    end
  end.

(* VerifyDelegationForZoneWithWork after the ring was prepared *)
Definition n3_delegation (um : bool) (s : n3st) (chain : list (n3name * n3name)) : n3st * n3res :=
  match chain with
  | [] => (s, NFail)
  | (q, _) :: _ =>
    let '(s1, r) := n3_lookup um s q in
    match r with
    | LkMatch tys => (s1, if negb (ty_has tys 4) then NFail else if ty_has tys 16 || ty_has tys 2 then NFail else NOk)
    | LkWork e => (s1, NWork e)
    | _ => n3_optout um s1 chain
    end
  end.

(* nextCloserDeniedWithWork as VerifyWildcardAnswerForZoneWithWork runs it for a wildcard-expanded RRSIG of the answer:
   the ring prepared, a fresh evaluator, ONE lookup — the next closer name (the RRSIG owner cut to Labels + 1 labels) must
   be covered; the chain of such a validation is that one name *)
Definition n3_wildcard (um : bool) (s : n3st) (chain : list (n3name * n3name)) : n3st * n3res :=
  match chain with
  | [] => (s, NFail)
  | (nc, _) :: _ => n3_cover um s nc (fun s1 _ => (s1, NOk))
  end.

(* one validation: prepareNSEC3Set first — records above the iteration cap are not usable, so a set of such records is
   an empty ring; a set mixing parameter tuples is refused — both before any hash work; a fresh evaluator *)
(* nsec3Safe, as translated by srcgen from the source, on a record with these parameters *)
Definition n3_record (par : N * N * N) : T_NSEC3 :=
  let '(halg, flags, iters) := par in
  mk_T_NSEC3 (mk_T_RR_Header [] 50 1 0 0) halg flags iters 0 [] 20 [] [].
Definition n3_usable (par : N * N * N) : bool := go_nsec3Safe (n3_record par).
Definition n3_validate (um : bool) (l : ledger) (memo : list nat) (p : n3proof) : ledger * list nat * n3res :=
  let '(kind, isds, par, mixed, chain) := p in
  if negb (n3_usable par) || mixed then (l, memo, NFail)
  else let '((l1, memo1, _), v) :=
         (if kind =? 0 then n3_name_error um (l, memo, []) chain
          else if kind =? 1 then n3_nodata um isds (l, memo, []) chain
          else if kind =? 2 then n3_delegation um (l, memo, []) chain
          else n3_wildcard um (l, memo, []) chain) in
       (l1, memo1, v).

(* the validations of one request tree, one after the other, on its ledger and its memo *)
Fixpoint n3_run (um : bool) (l : ledger) (memo : list nat) (ps : list n3proof) : ledger * list nat * list n3res :=
  match ps with
  | [] => (l, memo, [])
  | p :: rest =>
    let '(l1, memo1, v) := n3_validate um l memo p in
    let '(l2, memo2, vs) := n3_run um l1 memo1 rest in
    (l2, memo2, v :: vs)
  end.

(* ---- shape facts that need no ledger *)
(* the walk of findClosestEncloserWithWork as a shape fact: the suffixes inside the zone up to and including the first
   one a record matches, and whether there is one *)
Fixpoint walk_cost (chain : list (n3name * n3name)) : N * bool :=
  match chain with
  | [] => (0, false)
  | (nm, _) :: rest =>
    if n3_inz nm
    then (if n3_look nm =? 1 then (1, true) else let '(c, f) := walk_cost rest in (1 + c, f))
    else walk_cost rest
  end.
(* hashes one validation can need: the walk, and — only when it found a closest encloser — the wildcard below it (the
   next closer name was hashed on the way; NODATA and the delegation proof look at the name itself first, which is the
   walk's first name) *)
Definition n3_proof_bound (p : n3proof) : N :=
  let '(kind, isds, par, mixed, chain) := p in
  if negb (n3_usable par) || mixed then 0 else let '(c, f) := walk_cost chain in c + (if f then 1 else 0).
Definition n3_shape_bound (ps : list n3proof) : N := fold_right (fun p a => n3_proof_bound p + a) 0 ps.

(* the preimages a validation can ask about: the suffixes inside the signer zone up to and including the closest
   encloser (the first one a record matches) and the wildcard below it — nothing beyond; of a validation whose record
   set is unusable, none *)
Fixpoint chain_ids (chain : list (n3name * n3name)) : list nat :=
  match chain with
  | [] => []
  | (nm, wc) :: rest =>
    (if n3_inz nm then [n3_id nm] else []) ++
    (if n3_inz nm && (n3_look nm =? 1) then (if n3_inz wc then [n3_id wc] else []) else chain_ids rest)
  end.
Definition proof_ids (p : n3proof) : list nat :=
  let '(_, _, par, mixed, chain) := p in if negb (n3_usable par) || mixed then [] else chain_ids chain.
Definition n3_ids (ps : list n3proof) : list nat := flat_map proof_ids ps.
Definition distinct (l : list nat) : nat := length (nodup Nat.eq_dec l).

(* the preimages an ACCEPTED validation must have looked at: the suffixes inside the zone up to and including the closest
   encloser (kind 3: the next closer name) — each was hashed in this tree, by this validation or by an earlier one *)
Fixpoint walk_ids (chain : list (n3name * n3name)) : list nat :=
  match chain with
  | [] => []
  | (nm, _) :: rest =>
    if n3_inz nm then n3_id nm :: (if n3_look nm =? 1 then [] else walk_ids rest) else walk_ids rest
  end.
Definition must_ids (p : n3proof) : list nat :=
  let '(kind, _, par, mixed, chain) := p in
  if negb (n3_usable par) || mixed then []
  else if kind =? 3 then match chain with (nc, _) :: _ => if n3_inz nc then [n3_id nc] else [] | [] => [] end
  else walk_ids chain.
Definition paid_ids (ps : list n3proof) (verdicts : list (N * N)) : list nat :=
  flat_map (fun pv : n3proof * (N * N) => if fst (snd pv) =? 0 then must_ids (fst pv) else []) (combine ps verdicts).

Definition n3_policy (mode H : N) : policy := mk_T_RecursionWorkPolicy mode 128 32 4 8 32 32 H 32.
Definition n3_verdict_eqb (v : n3res) (o : N * N) : bool :=
  match v with
  | NOk => fst o =? 0
  | NWork (RLimit k _) => (fst o =? 1) && (snd o =? k)
  | NWork _ => false
  | NFail => fst o =? 2
  end.
Fixpoint n3_verdicts_eqb (vs : list n3res) (os : list (N * N)) : bool :=
  match vs, os with
  | [], [] => true
  | v :: vr, o :: or => n3_verdict_eqb v o && n3_verdicts_eqb vr or
  | _, _ => false
  end.

(* model = observed: every verdict, the NSEC3-hash counter, the exhaustion bit, the first latched rejection *)
Definition n3_check (mode H : N) (um : bool) (ps : list n3proof) (verdicts : list (N * N)) (hashes exh first : N) : bool :=
  let '(l, _, vs) := n3_run um (new_ledger (n3_policy mode H)) [] ps in
  n3_verdicts_eqb vs verdicts && (l_n3 l =? hashes) && (N.land (l_exh l) bit_nsec3_hash =? exh) &&
  (match enforcement_error l with RLimit k _ => first =? k + 1 | _ => first =? 0 end).

(* the specification, judged on the observation alone: enforce — hashes within the budget and within what the shapes
   admit, a work verdict only with the budget spent, records above the iteration cap never validate and cost nothing;
   shadow — nothing refused; with a memo no preimage is hashed twice; in every mode an accepted validation's hashes
   were counted *)
Definition n3_spec (mode H : N) (um : bool) (ps : list n3proof) (verdicts : list (N * N)) (hashes exh first : N) : bool :=
  (hashes <=? n3_shape_bound ps) &&
  (* nothing is validated on unpaid hashes: every distinct preimage an accepted validation looked at is on the ledger *)
  (N.of_nat (distinct (paid_ids ps verdicts)) <=? hashes) &&
  (* with a memo every distinct preimage is paid for at most once per tree (while the memo has room for all of them) *)
  (negb um || (64 <? distinct (n3_ids ps))%nat || (hashes <=? N.of_nat (distinct (n3_ids ps)))) &&
  forallb (fun pv : n3proof * (N * N) => let '((_, _, (halg, flags, iters), _, _), (v, _)) := pv in
             ((iters <=? 150) && (halg =? 1) && (flags <=? 1)) || (v =? 2)) (combine ps verdicts) &&
  (if mode =? mode_enforce
   then (hashes <=? H) && forallb (fun o : N * N => negb (fst o =? 1) || ((snd o =? kind_nsec3_hash) && (hashes =? H))) verdicts
   else forallb (fun o : N * N => negb (fst o =? 1)) verdicts && (first =? 0)).

(* ---- the record set itself (wave 9): what a name's lookup finds is no longer handed over by the driver but computed
   here from the NSEC3 records of the response, with the srcgen translations of the two functions the evaluator uses:
   dnssec.aggressiveNSEC3Covers (does the interval owner -> next of a record cover a hash: bytes.Compare on the digests)
   and dnssec.typesSet (is one of these types in the bitmap: Go's map-as-set idiom).  Digests are given by their first
   [hash_octets] octets as one number (the driver checks that distinct digests of a case differ within them, so order
   and equality are those of the full digests); [ring_look] mirrors nsec3RingEvaluator.lookup: the record whose owner
   hash equals the name's, every other record whose interval covers it; two covers, or a match that is also covered, are
   ambiguous. *)
Definition hash_octets : nat := 6.
Fixpoint bytes_of (k : nat) (v : N) : list N :=
  match k with O => [] | S k' => (v / 256 ^ N.of_nat k') mod 256 :: bytes_of k' v end.
(* owner hash, next hash, Opt-Out, type bitmap *)
Definition ringrec : Type := (N * N * bool * list N)%type.
Definition ring_entry (r : ringrec) : T_aggressiveNSEC3Entry :=
  let '(o, n, _, _) := r in
  mk_T_aggressiveNSEC3Entry (n3_record (1, 0, 0)) (bytes_of hash_octets o) (bytes_of hash_octets n).
(* the type facts the verifiers ask of a matching record, each by typesSet as the Go code calls it:
   (qtype, CNAME) / SOA / NS / DNAME / DS *)
Definition ring_tys_with (has : list N -> list N -> bool) (qt : N) (types : list N) : N :=
  (if has types [qt; 5] then 1 else 0) + (if has types [6] then 2 else 0) +
  (if has types [2] then 4 else 0) + (if has types [39] then 8 else 0) +
  (if has types [43] then 16 else 0).
Definition ring_look_with (cov : ringrec -> N -> bool) (has : list N -> list N -> bool) (qt : N) (ring : list ringrec) (h : N)
    : N * bool * N :=
  let ms := filter (fun r : ringrec => let '(o, _, _, _) := r in o =? h) ring in
  let cs := filter (fun r : ringrec => let '(o, _, _, _) := r in negb (o =? h) && cov r h) ring in
  match ms, cs with
  | _, _ :: _ :: _ => (3, false, 0)
  | _ :: _, _ :: _ => (3, false, 0)
  | (_, _, _, types) :: _, [] => (1, false, ring_tys_with has qt types)
  | [], [(_, _, oo, _)] => (2, oo, 0)
  | [], [] => (0, false, 0)
  end.
(* the model: the translated functions, on the digests as octet strings *)
Definition cov_code (r : ringrec) (h : N) : bool := go_aggressiveNSEC3Covers (ring_entry r) (bytes_of hash_octets h).
Definition ring_tys (qt : N) (types : list N) : N := ring_tys_with go_typesSet qt types.
Definition ring_look (qt : N) (ring : list ringrec) (h : N) : N * bool * N := ring_look_with cov_code go_typesSet qt ring h.
(* the specification: RFC 5155 interval arithmetic on the digests as numbers — a one-record ring covers everything but
   its owner, an ordinary interval is open on both sides, the last interval of the ring wraps around — and plain
   membership in the type bitmap; Proofs_n3ring.v proves that the translated cover test is this one *)
Definition covers_spec (o n h : N) : bool :=
  if o =? n then negb (h =? o)
  else if o <? n then (o <? h) && (h <? n)
  else (o <? h) || (h <? n).
Definition cov_spec (r : ringrec) (h : N) : bool := let '(o, n, _, _) := r in covers_spec o n h.
Definition has_spec (set types : list N) : bool := existsb (fun t => existsb (N.eqb t) types) set.
(* a name as the driver gives it: preimage identity, inside the signer zone, its digest *)
Definition rname : Type := (nat * bool * N)%type.
Definition n3_of_rname (look : N -> list ringrec -> N -> N * bool * N) (qt : N) (ring : list ringrec) (x : rname) : n3name :=
  let '(id, inz, h) := x in
  if inz then let '(lk, oo, tys) := look qt ring h in mk_n3 id true lk oo tys
  else mk_n3 id false 0 false 0.
(* kind, DS question, record parameters, mixed set, question type, the usable records, the suffix chain *)
Definition n3rproof : Type := (N * bool * (N * N * N) * bool * N * list ringrec * list (rname * rname))%type.
Definition n3_of_rproof (look : N -> list ringrec -> N -> N * bool * N) (p : n3rproof) : n3proof :=
  let '(kind, isds, par, mixed, qt, ring, chain) := p in
  (kind, isds, par, mixed, map (fun e : rname * rname => (n3_of_rname look qt ring (fst e), n3_of_rname look qt ring (snd e))) chain).
(* model = observed: the lookups decided by the translated functions *)
Definition n3r_check (mode H : N) (um : bool) (ps : list n3rproof) (verdicts : list (N * N)) (hashes exh first : N) : bool :=
  n3_check mode H um (map (n3_of_rproof ring_look) ps) verdicts hashes exh first.
(* the specification, judged with RFC 5155's interval arithmetic on the digests and plain bitmap membership — no
   translated function: what the code hashed must fit the shapes these give *)
Definition n3r_spec (mode H : N) (um : bool) (ps : list n3rproof) (verdicts : list (N * N)) (hashes exh first : N) : bool :=
  n3_spec mode H um (map (n3_of_rproof (ring_look_with cov_spec has_spec)) ps) verdicts hashes exh first.
