(* C12 — correspondence: case type and the two checkers evaluated with vm_compute on what the
   Go drivers recorded.
   check_case: the model computes what the implementation did (or, for the loopback lab where
               packet counts depend on the scheduler, the model's bound dominates what it did);
   spec_case : what the implementation did satisfies the property's specification, judged
               without the model. *)
From Sdns Require Export Common.Base Gen.C12 C12.Model C12.ModelDS C12.ModelN3 C12.Skeleton.
Open Scope N_scope.

Inductive case :=
  (* op-sequence differential on a real RecursionWorkLedger (lk 0), or on the pending (1) /
     closed (2) control ledger, driven through the context API *)
| CaseLedger (lk : N) (pol : policy) (ops : list lop) (observed : list obs) (final : list Z)
  (* [threads] goroutines x [per] debits of one aggregate kind on one ledger whose counter
     starts at [start]; tallies after all finished *)
| CaseConc (mode lim start threads per acc rej fin : N)
  (* attempt guard: hashes of the tuples begun, admission results, occupancy *)
| CaseGuard (hs : list N) (observed : list bool) (nslots nover : N)
  (* pipelineQueryer.Query on a one-handler pipeline scripted per handler invocation *)
| CaseQuery (pol : policy) (be : bool) (depth0 : N) (script : list (N * bool)) (dflt : N * bool)
            (hinv deep : N) (tallies : list N) (final : list Z)
  (* CNAME chase loop of the cache middleware against a scripted queryer (see driver) *)
| CaseChase (depth0 chain_len loop_at loop_to queries rcode : N)
  (* loopback lab: one client query through cache+resolver with the real queryer *)
| CaseLab (mode max_out max_int : N) (fam p1 p2 : N) (qmin edns resolvable : bool)
          (packets led_out led_int nq first : N) (rcode ede : N)
          (packets2 rcode2 ede2 : N)
  (* [k] clients with an outbound budget of [tiny] ([over] of them ended over budget) on one resolver, then
     an independent client with an ample budget: its reply, and the reply a fresh resolver gives it *)
| CaseCrowd (k tiny over : N) (reply_after reply_fresh : list N)
  (* MustRecursionWorkPolicyFromConfig: mode text, configured limits -> panicked? / policy, and how many of
     260 debits per aggregate kind (outbound, internal, signature, DS digest, NSEC3 hash) a ledger made from it accepts *)
| CasePolicy (mode_text : N) (lims : list N) (panicked : bool) (pol : policy) (accepted : list N)
  (* dnssec.VerifyRRSIGWithWork under the real work adapter: RRsets -> signatures (candidates, genuine index)
     in processing order; verdict 0 verified / 1 work error of [ekind] / 2 ordinary failure *)
| CaseSig (mode K Rl St : N) (sets : list (list (nat * option nat)))
          (verdict ekind ops exh first bound : N)
  (* loopback lab, one client query, step by step: the events an observer at the upstream servers and at
     the head of the sub-pipeline recorded in order — EvX: a datagram/TCP query arrived upstream, with the
     tree's ledger counters read at that moment; EvS: a sub-pipeline run started, with the values its context
     carries (queryerDepthKey, best-effort mark, cnameChaseDepthKey, contextKeyDnameDepth, contextKeyNSL) and the
     counters; EvE: it returned.  [treechk]: the sub-runs of this topology are sequential (no detached IPv6 walk).
     [pairs]: for every sub-run the label of the run it was started from (the probe hands its identity down the context;
     None: no probe above it and no known spawner — a detached job) and its own label.
     [gens]: for every sub-run, in the order of [pairs], its generation as the observer reconstructs it from who started
     whom: a run started through the Queryer has its parent's generation, a run started by a detached job has the
     generation of the run that spawned the job (named by the request id the job carries) plus one *)
| CaseTrace (mode max_out max_int : N) (v6 treechk : bool) (evs : list event) (pairs : list (option slabel * slabel)) (gens : list nat)
  (* the DS step of verifyDNSSEC (dnssec.VerifyDSWithWork, then DSMatchedKeys) under the real work adapter: DS records
     (supported, digest decodes, usable candidates (key id, matches)) and the visiting order of the keys, in processing
     order; verdict of the first phase 0 ok / 1 work error of [ekind] / 2 ordinary failure / 3 unsupported only; the keys
     the second phase confirmed; the ledger's DS-digest counter, exhaustion bits (candidates, digests), first rejection *)
| CaseDS (mode K D : N) (dsl : list (bool * bool * list (nat * bool))) (korder : list nat) (ordered : bool)
         (verdict ekind : N) (matched : list nat) (digests exh first : N)
  (* the NSEC3 denial verifiers (VerifyNameError / VerifyNODATA / VerifyDelegation ...ForZoneWithWork) under the real work
     adapter, the validations of one request tree in order on one ledger and one hash memo ([um]: the context carries
     one): per validation its shape in processing order (ModelN3.v); per validation the verdict 0 ok / 1 work error of
     [kind] / 2 ordinary failure; the ledger's NSEC3-hash counter, exhaustion bit, first rejection *)
| CaseN3 (mode H : N) (um : bool) (proofs : list n3proof) (verdicts : list (N * N)) (hashes exh first : N)
  (* the same observation with the record sets themselves (wave 9): per validation the question type, the usable NSEC3
     records (owner / next digest, Opt-Out, type bitmap) and the suffix chain with each name's digest; what each lookup finds
     is computed by the model (ring_look: the translated aggressiveNSEC3Covers and typesSet) *)
| CaseN3R (mode H : N) (um : bool) (proofs : list n3rproof) (verdicts : list (N * N)) (hashes exh first : N)
  (* the forwarder against scripted upstreams, one behaviour per configured upstream in order — 0: answers; 1: TC=1 over
     UDP, answers over TCP; 2: TC=1 over UDP, SERVFAIL over TCP; 3: SERVFAIL —: datagrams + TCP queries the upstreams
     received, the ledger's outbound counter, the reply (0 answer / 1 policy SERVFAIL with the work EDE / 2 plain SERVFAIL) *)
| CaseFwd (mode max_out : N) (script : list N) (packets led_out reply : N)
  (* same topology resolved with the firewall off and in shadow mode: canonical replies *)
| CaseLabEq (fam p1 p2 : N) (qmin : bool) (reply_off reply_shadow : list N) (packets_off packets_shadow : N).

Definition obs_eqb (a b : obs) : bool :=
  let '(a1, a2, a3) := a in let '(b1, b2, b3) := b in (a1 =? b1) && (a2 =? b2) && (a3 =? b3).
Fixpoint list_eqb {A} (e : A -> A -> bool) (a b : list A) : bool :=
  match a, b with
  | [], [] => true
  | x :: xs, y :: ys => e x y && list_eqb e xs ys
  | _, _ => false
  end.

Definition ledger_of_kind (lk : N) (pol : policy) : ledger :=
  if lk =? 0 then new_ledger pol else if lk =? 1 then control_ledger state_pending else control_ledger state_closed.

Definition adv_of_script (script : list (N * bool)) (dflt : N * bool) : nat -> nat * bool :=
  fun j => let '(n, b) := nth j script dflt in (N.to_nat n, b).

Definition obs_of_qres (r : qres) : obs :=
  match r with
  | QOk => (0, 0, 0) | QErrLimit k lim => (1, k, lim) | QCanceled => (2, 0, 0) | QPanic => (3, 0, 0)
  | QErrMax => (6, 0, 0) | QNoResp => (7, 0, 0)
  end.

(* DNS constants used by the lab oracles (RFC 1035 / RFC 8914 numbers) *)
Definition rcode_servfail : N := 2.
Definition ede_other : N := 0.            (* RecursionWorkEDECode *)
Definition ede_cached_error : N := 13.

Definition fam_dname : N := 3.
Definition fam_deep : N := 1.

(* the adversary of the forwarder program that a script of upstream behaviours amounts to: guard admits (0), then the
   outcome of the UDP attempt, then — after a truncated answer — guard admits (0) and the outcome of the TCP attempt *)
Definition fwd_choices (beh : N) : list nat :=
  if beh =? 0 then [0; 0]%nat else if beh =? 1 then [0; 1; 0; 0]%nat else if beh =? 2 then [0; 1; 0; 1]%nat else [0; 2]%nat.
Definition fwd_adv (script : list N) : nat -> nat := fun j => nth j (concat (map fwd_choices script)) 0%nat.
Definition reply_code (r : reply) : N := match r with ReplyOk => 0 | ReplyWork _ true => 1 | _ => 2 end.

Definition check_case (c : case) : bool :=
  match c with
  | CaseLedger lk pol ops observed final =>
      let '((l, _), ob) := lrun (ledger_of_kind lk pol, []) ops in
      list_eqb obs_eqb ob observed && list_eqb Z.eqb (snapshot l) final
  | CaseConc mode lim start threads per acc rej fin =>
      (* sequential run of the same number of debits: by conc_complete_tally every complete
         interleaving ends with these tallies *)
      let pol := mk_T_RecursionWorkPolicy mode lim lim lim lim lim lim lim lim in
      let l0 := set_ctr (new_ledger pol) 0 start in
      let ops := repeat (ODebit kind_outbound true) (N.to_nat (threads * per)) in
      let '((l, _), ob) := lrun (l0, []) ops in
      (N.of_nat (length (filter (fun o => fst (fst o) =? 0) ob)) =? acc) &&
      (N.of_nat (length (filter (fun o => fst (fst o) =? 1) ob)) =? rej) &&
      (l_out l =? fin)
  | CaseGuard hs observed nslots nover =>
      let '(g, bs) := grun gempty hs in
      list_eqb Bool.eqb bs observed && (N.of_nat (length (g_slots g)) =? nslots) && (N.of_nat (length (g_over g)) =? nover)
  | CaseQuery pol be depth0 script dflt hinv deep tallies final =>
      let w := qroot (adv_of_script script dflt) be depth0 (w_init (new_ledger pol)) in
      (N.of_nat (w_tick w) =? hinv) && (w_deep w =? deep) &&
      list_eqb N.eqb [w_rok w; w_rmax w; w_rlim w; w_rnone w] tallies &&
      list_eqb Z.eqb (snapshot (w_led w)) final
  | CaseChase depth0 chain_len loop_at loop_to queries rcode =>
      let '(q, rc) := chase_model depth0 chain_len loop_at loop_to in (q =? queries) && (rc =? rcode)
  | CaseLab mode max_out max_int fam p1 p2 qmin edns resolvable packets led_out led_int nq first rcode ede packets2 rcode2 ede2 =>
      (* every datagram / connection the upstream saw was debited first; every sub-pipeline run too *)
      ((mode =? mode_off) || ((packets <=? led_out) && (nq <=? led_int))) &&
      (* the ledger never accepted more than the cap *)
      (negb (mode =? mode_enforce) || ((led_out <=? max_out) && (led_int <=? max_int))) &&
      (* DNAME follow-ups are capped by the resolver's own chain counter in every mode *)
      (negb (fam =? fam_dname) || (nq <=? max_dname_depth)) &&
      (* rs.depth: a chain of p1 nested delegations needs p1 descents and only Maxdepth-1 are allowed *)
      (negb ((fam =? fam_deep) && (default_maxdepth <=? p1)) || (rcode =? rcode_servfail)) &&
      (* the policy failure is never handed to the failure cache (overbudget_is_servfail_not_cached) *)
      (negb ((mode =? mode_enforce) && negb (first =? 0) && resolvable) || negb (ede2 =? 1 + ede_cached_error)) &&
      (* a latched rejection turns the reply into the policy failure *)
      (negb ((mode =? mode_enforce) && negb (first =? 0)) ||
       ((rcode =? rcode_servfail) &&
        (negb edns || (ede =? 1 + (if go_RecursionWorkKind_isDNSSEC (first - 1) then 9 else ede_other)))))
  | CaseTrace mode max_out max_int v6 treechk evs pairs gens =>
      (* the real event sequence passes the checkers every trace of the skeleton passes
         (budgets_hold_at_every_step, subquery_call_tree, subquery_pairs, detached_generations_at_most_one) *)
      ((mode =? mode_off) || steps_ok (mode =? mode_enforce) max_out max_int 0 0 0 0 evs) &&
      forallb (pair_ok v6) pairs &&
      (* who started whom agrees with the walk mark: generation 1 exactly inside a walk, 0 outside *)
      list_eqb Nat.eqb gens (map (fun pc => mark_gen (snd pc)) pairs) &&
      (negb treechk ||
       (match tree_run v6 (mk_sl 0 cx0) [] evs with
        | Some (mk_sl O (mk_cx false O O false false), []) => true
        | _ => false
        end && forallb (fun g => (g <=? 1)%nat) (gens_of false 0 [] evs)))
  | CaseDS mode K D dsl korder ordered verdict ekind matched digests exh first =>
      ds_check mode K D dsl korder ordered verdict ekind matched digests exh first
  | CaseN3 mode H um proofs verdicts hashes exh first => n3_check mode H um proofs verdicts hashes exh first
  | CaseN3R mode H um proofs verdicts hashes exh first => n3r_check mode H um proofs verdicts hashes exh first
  | CaseFwd mode max_out script packets led_out reply =>
      (* the forwarder is sequential: the model computes exactly what the upstreams received and what the client got *)
      let pol := mk_T_RecursionWorkPolicy mode max_out 32 4 8 32 32 32 32 in
      let '(w, r) := run (fwd_adv script) (forward false (length script)) (w_init (new_ledger pol)) in
      (w_exch w =? packets) && ((mode =? mode_off) || (l_out (w_led w) =? led_out)) && (reply_code r =? reply)
  | CaseLabEq fam p1 p2 qmin reply_off reply_shadow packets_off packets_shadow =>
      list_eqb N.eqb reply_off reply_shadow
  | CaseCrowd k tiny over reply_after reply_fresh =>
      (* budget failures are request-local: nothing the over-budget trees left behind changes a later reply *)
      list_eqb N.eqb reply_after reply_fresh
  | CasePolicy mode_text lims panicked pol accepted =>
      match policy_of_config mode_text lims with
      | None => panicked
      | Some p =>
        negb panicked && policy_eqb p pol &&
        list_eqb N.eqb accepted
          (map (fun lim => if p_mode p =? mode_enforce then N.min 260 lim else 260)
               [p_max_out p; p_max_int p; p_max_sig p; p_max_ds p; p_max_n3 p])
      end
  | CaseSig mode K Rl St sets verdict ekind ops exh first bound =>
      let pol := mk_T_RecursionWorkPolicy mode 128 32 K Rl St 32 32 32 in
      let '(l, r) := verify_rrsets (new_ledger pol) sets in
      (match r with
       | SVerified => (verdict =? 0)
       | SWork (RLimit k _) => (verdict =? 1) && (ekind =? k)
       | SWork _ => false
       | SFailed => (verdict =? 2)
       end) &&
      (l_sig l =? ops) && (N.land (l_exh l) 28 =? exh) &&
      (match enforcement_error l with RLimit k _ => first =? k + 1 | _ => first =? 0 end)
  end.

(* --- specification oracles (no model functions below this line except Gen constants) --- *)

Fixpoint count_accepted (k : N) (ops : list lop) (ob : list obs) : N :=
  match ops, ob with
  | ODebit k' _ :: r, (c, _, _) :: ro => (if (k' =? k) && (c =? 0) then 1 else 0) + count_accepted k r ro
  | _ :: r, _ :: ro => count_accepted k r ro
  | _, _ => 0
  end.
Definition has_set (ops : list lop) : bool := existsb (fun o => match o with OSet _ _ => true | _ => false end) ops.
Definition spec_limit (p : policy) (k : N) : N :=
  if k =? 0 then p_max_out p else if k =? 1 then p_max_int p else if k =? 4 then p_max_sig p
  else if k =? 5 then p_max_ds p else p_max_n3 p.

Fixpoint spec_guard (seen : list (N * N)) (hs : list N) (ob : list bool) : bool :=
  match hs, ob with
  | [], [] => true
  | h :: r, b :: rb =>
      let c := match assoc_find h seen with Some c => c | None => 0 end in
      Bool.eqb b (c <? 3) &&
      spec_guard (if c <? 3 then (h, c + 1) :: filter (fun e => negb (fst e =? h)) seen else seen) r rb
  | _, _ => false
  end.

Definition spec_case (c : case) : bool :=
  match c with
  | CaseLedger lk pol ops observed final =>
      (* enforce: accepted debits of a kind never exceed its cap; shadow/off: nothing is refused *)
      if lk =? 0 then
        if p_mode pol =? 2 then
          has_set ops || forallb (fun k => count_accepted k ops observed <=? spec_limit pol k) [0; 1; 4; 5; 6]
        else forallb (fun o => negb (fst (fst o) =? 1)) observed
      else forallb (fun o => negb (fst (fst o) =? 1)) observed
  | CaseConc mode lim start threads per acc rej fin =>
      let total := threads * per in
      (acc + rej =? total) &&
      (if mode =? 2 then (acc =? N.min total (lim - start)) && (fin =? start + acc) && ((fin <=? lim) || (lim <? start))
       else (rej =? 0) && (fin =? (start + total) mod 4294967296))
  | CaseGuard hs observed nslots nover => spec_guard [] hs observed
  | CaseQuery pol be depth0 script dflt hinv deep tallies final =>
      (* nesting never passes the cap (unless the context already arrived past it); in enforce mode
         no more sub-pipeline runs than the internal budget (+1: the client's own chain);
         outside enforce mode nothing is refused for budget reasons *)
      (deep <=? N.max 32 depth0) &&
      (negb (p_mode pol =? 2) || (hinv <=? p_max_int pol + 1)) &&
      ((p_mode pol =? 2) || (nth 2 tallies 0 =? 0))
  | CaseChase depth0 chain_len loop_at loop_to queries rcode =>
      (* the chase loop stops after at most 10 hops at one level, and not at all at nesting 10 *)
      (queries <=? 10) && ((depth0 <? 10) || (queries =? 0))
  | CaseLab mode max_out max_int fam p1 p2 qmin edns resolvable packets led_out led_int nq first rcode ede packets2 rcode2 ede2 =>
      (* enforce: what the upstream received and the number of internal sub-queries stay within
         the configured budgets; an over-budget tree answers SERVFAIL (+EDE for EDNS clients);
         when the budget was the only obstacle ([resolvable]: the same topology resolves with the
         firewall off) the next client is not answered from the failure cache (EDE 13) *)
      (negb (mode =? 2) ||
       ((packets <=? max_out) && (nq <=? max_int) &&
        ((first =? 0) ||
         ((rcode =? 2) && (negb edns || negb (ede =? 0)) &&
          (negb resolvable || negb (ede2 =? 1 + 13))))))
  | CaseDS mode K D dsl korder ordered verdict ekind matched digests exh first =>
      ds_spec mode K D dsl korder ordered verdict ekind matched digests exh first
  | CaseTrace mode max_out max_int v6 treechk evs pairs gens =>
      (* one generation of detached helper lookups per client query: no sub-run was started, directly or through
         further sub-runs, by a detached job that was itself started from inside a detached job *)
      forallb (fun g => (g <=? 1)%nat) gens &&
      (* enforce: no more upstream arrivals than the outbound budget, no more sub-pipeline runs than the
         internal budget; in every mode no sub-run nests deeper than 32, chases deeper than 10 or follows
         DNAMEs deeper than 10 (the numbers of the property text) *)
      let xs := N.of_nat (length (filter (fun e => match e with EvX _ _ => true | _ => false end) evs)) in
      let ss := N.of_nat (length (filter (fun e => match e with EvS _ _ _ => true | _ => false end) evs)) in
      (negb (mode =? 2) || ((xs <=? max_out) && (ss <=? max_int))) &&
      forallb (fun e => match e with
                        | EvS (mk_sl n (mk_cx _ ch dn _ _)) _ _ | EvS (mk_dl n (mk_cx _ ch dn _ _)) _ _ =>
                            (n <=? 32)%nat && (ch <=? 10)%nat && (dn <=? 10)%nat
                        | _ => true
                        end) evs
  | CaseN3 mode H um proofs verdicts hashes exh first => n3_spec mode H um proofs verdicts hashes exh first
  | CaseN3R mode H um proofs verdicts hashes exh first => n3r_spec mode H um proofs verdicts hashes exh first
  | CaseFwd mode max_out script packets led_out reply =>
      (* at most two transport attempts per upstream; enforce: never more than the outbound budget, and a request that ran
         into it is answered with the policy SERVFAIL; shadow / off: the budget changes nothing *)
      (packets <=? 2 * N.of_nat (length script)) &&
      (if mode =? 2 then (packets <=? max_out) && (negb (reply =? 1) || (packets =? max_out))
       else negb (reply =? 1))
  | CaseLabEq fam p1 p2 qmin reply_off reply_shadow packets_off packets_shadow =>
      list_eqb N.eqb reply_off reply_shadow
  | CaseCrowd k tiny over reply_after reply_fresh => list_eqb N.eqb reply_after reply_fresh
  | CasePolicy mode_text lims panicked pol accepted =>
      (* an unknown mode is refused; in enforce mode a tree never gets more units of a kind than the
         operator configured for it (an omitted limit, 0, is unconstrained here) *)
      if 3 <? mode_text then panicked
      else negb panicked &&
           (negb (mode_text =? 3) ||
            forallb (fun ia => let '(i, a) := ia in let c := nth i lims 0 in (c =? 0) || (a <=? c))
                    (combine [0; 1; 4; 5; 6]%nat accepted))
  | CaseSig mode K Rl St sets verdict ekind ops exh first bound =>
      (* enforce: public-key operations stay within the tree budget and within what the per-RRset
         and per-signature allowances admit for this shape; shadow never stops on a budget *)
      if mode =? 2 then (ops <=? St) && (ops <=? sig_shape_bound K Rl sets) else negb (verdict =? 1)
  end.
