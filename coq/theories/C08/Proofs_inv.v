(* C08 — the lineage invariant over all histories, and the property theorems' lemmas.

   [good fx v l]: the value v (a stored expiry, a descended / noted cut, an entry's end)
   lies within the deadline the code derived for the parent-side referral l, and l is
   well formed: that deadline is within observedAt + min(NS TTL, DS TTL) and, with the
   repair (fx = true), within observedAt + 12 h. *)
From Sdns Require Import Common.Base Gen.C08 C08.Model C08.Proofs_base.
Open Scope Z_scope.

Definition wf (fx : bool) (l : lrec) : Prop :=
  l_code l <= l_obs l + l_ttl l /\ (fx = true -> l_code l <= l_obs l + max_ttl).

Definition good (fx : bool) (v : Z) (l : lrec) : Prop := v <= l_code l /\ wf fx l.

Definition cgood (fx : bool) (c : cut) (l : lrec) : Prop := cut_le c (l_code l) /\ wf fx l.

Record Inv (fx : bool) (st : state) : Prop := mk_Inv {
  inv_dc   : forall z d, st_dc st z = Some d -> forall l, In l (d_lin d) -> good fx (d_exp d) l;
  inv_rs   : forall i rs, st_rs st i = Some rs -> forall l, In l (rs_lin rs) -> cgood fx (rs_cut rs) l;
  inv_meta : forall t l, In l (mt_lin (st_meta st t)) -> cgood fx (mt_cut (st_meta st t)) l;
  inv_ans  : forall e, In e (st_ans st) -> forall l, In l (ae_lin e) -> good fx (ae_end e) l;
  inv_path : forall i rs, st_rs st i = Some rs -> incl (rs_lin rs) (mt_lin (st_meta st (rs_tree rs)))
}.

Lemma Inv_init : forall fx, Inv fx st_init.
Proof.
  intro fx. constructor; cbn; intros; try discriminate; try contradiction.
Qed.

(* ------------------------------------------------------------------ note *)

Lemma note_dc : forall st t c lin, st_dc (note st t c lin) = st_dc st.
Proof. reflexivity. Qed.
Lemma note_rs : forall st t c lin, st_rs (note st t c lin) = st_rs st.
Proof. reflexivity. Qed.
Lemma note_ans : forall st t c lin, st_ans (note st t c lin) = st_ans st.
Proof. reflexivity. Qed.
Lemma note_meta_same : forall st t c lin,
  st_meta (note st t c lin) t = mk_meta (bound_cut (mt_cut (st_meta st t)) c) (lin ++ mt_lin (st_meta st t)).
Proof. intros. cbn. unfold upd_meta. rewrite N.eqb_refl. reflexivity. Qed.
Lemma note_meta_other : forall st t c lin t', t <> t' -> st_meta (note st t c lin) t' = st_meta st t'.
Proof. intros. cbn. unfold upd_meta. apply N.eqb_neq in H. rewrite H. reflexivity. Qed.

Lemma note_lin_incl : forall st t c lin t', incl (mt_lin (st_meta st t')) (mt_lin (st_meta (note st t c lin) t')).
Proof.
  intros. destruct (N.eq_dec t t') as [<-|Hne].
  - rewrite note_meta_same. cbn. apply incl_appr. apply incl_refl.
  - rewrite note_meta_other by assumption. apply incl_refl.
Qed.

Lemma note_Inv : forall fx st t c lin,
  Inv fx st -> (forall l, In l lin -> cgood fx c l) -> Inv fx (note st t c lin).
Proof.
  intros fx st t c lin [Hdc Hrs Hmeta Hans Hpath] Hl. constructor.
  - rewrite note_dc. exact Hdc.
  - rewrite note_rs. exact Hrs.
  - intros t' l Hin. destruct (N.eq_dec t t') as [<-|Hne].
    + rewrite note_meta_same in *. cbn in *. apply in_app_or in Hin as [Hin|Hin].
      * destruct (Hl l Hin) as [H1 H2]. split; [|exact H2]. apply bound_cut_le_r. exact H1.
      * destruct (Hmeta t l Hin) as [H1 H2]. split; [|exact H2]. apply bound_cut_le_l. exact H1.
    + rewrite note_meta_other in * by assumption. apply Hmeta. exact Hin.
  - rewrite note_ans. exact Hans.
  - intros i rs Hi. rewrite note_rs in Hi. apply (incl_tran (Hpath i rs Hi)). apply note_lin_incl.
Qed.

(* ------------------------------------------------------ lease arithmetic *)

Lemma lease_deadline_eq : forall r, lease_deadline r = r_obs r + lease_ttl r.
Proof.
  intro r. unfold lease_deadline, lease_ttl. destruct (r_ds_ttl r) as [d|]; [|reflexivity].
  destruct (Z.ltb_spec (r_obs r + d * ds_ttl_unit) (r_obs r + r_ns_ttl r * ns_ttl_unit)); lia.
Qed.

Lemma lease_ttl_le_ns : forall r, lease_ttl r <= r_ns_ttl r * 1000000000.
Proof. intro r. unfold lease_ttl. destruct gen_ttl_units as (-> & -> & _). destruct (r_ds_ttl r); lia. Qed.
Lemma lease_ttl_le_ds : forall r d, r_ds_ttl r = Some d -> lease_ttl r <= d * 1000000000.
Proof. intros r d H. unfold lease_ttl. rewrite H. destruct gen_ttl_units as (-> & -> & _). lia. Qed.

(* the deadline processDelegation notes and descends with *)
Definition child_deadline (fx : bool) (rs : rstate) (r : referral) : Z :=
  cut_deadline (child_cut fx rs r) (lease_deadline r).

Lemma child_cut_some : forall fx rs r, exists k, child_cut fx rs r = Some (child_deadline fx rs r, k).
Proof.
  intros. unfold child_deadline, child_cut.
  destruct (rs_cut rs) as [[tc kc]|]; cbn.
  - destruct (Z.ltb_spec (lease_deadline r) tc); destruct fx; cbn;
      try (match goal with |- context [if ?b then _ else _] => destruct b end); cbn; eauto.
  - destruct fx; cbn; [|eauto]. destruct (_ <? _); cbn; eauto.
Qed.

Lemma child_deadline_val : forall fx rs r,
  child_deadline fx rs r =
  let base := match cut_time (rs_cut rs) with Some c => Z.min c (lease_deadline r) | None => lease_deadline r end in
  if fx then Z.min base (r_obs r + max_ttl) else base.
Proof.
  intros. unfold child_deadline, child_cut.
  destruct (rs_cut rs) as [[tc kc]|]; cbn.
  - destruct (Z.ltb_spec (lease_deadline r) tc); destruct fx; cbn;
      try (match goal with |- context [if ?b then _ else _] => destruct (Z.ltb_spec (r_obs r + max_ttl) tc) end);
      try (match goal with |- context [?a <? ?b] => destruct (Z.ltb_spec a b) end); cbn; lia.
  - destruct fx; cbn; [|reflexivity]. destruct (Z.ltb_spec (r_obs r + max_ttl) (lease_deadline r)); cbn; lia.
Qed.

Lemma child_deadline_le_lease : forall fx rs r, child_deadline fx rs r <= r_obs r + lease_ttl r.
Proof.
  intros. rewrite child_deadline_val, lease_deadline_eq. cbn. destruct (cut_time (rs_cut rs)); destruct fx; lia.
Qed.
Lemma child_deadline_le_ceiling : forall rs r, child_deadline true rs r <= r_obs r + max_ttl.
Proof. intros. rewrite child_deadline_val. cbn. destruct (cut_time (rs_cut rs)); lia. Qed.
Lemma child_deadline_le_cut : forall fx rs r v, cut_le (rs_cut rs) v -> child_deadline fx rs r <= v.
Proof.
  intros fx rs r v H. rewrite child_deadline_val. destruct (rs_cut rs) as [[tc kc]|]; cbn in *; [|contradiction].
  destruct fx; lia.
Qed.

(* -------------------------------------------------- provisional entries *)

Lemma provisional_other : forall ps c z srv lin cd k, z <> k -> provisional c z srv lin cd ps k = c k.
Proof.
  induction ps as [|[tn tc] ps IH]; intros; cbn; [reflexivity|].
  rewrite IH by assumption. apply dc_set_until_other. assumption.
Qed.

(* under the referred key: the old entry, or one with this lineage that ends within the deadline *)
Lemma provisional_cases : forall ps c z srv lin cd k d,
  provisional c z srv lin cd ps k = Some d ->
  c k = Some d \/ (k = z /\ d_exp d <= cd /\ d_lin d = lin /\ d_srv d = srv).
Proof.
  induction ps as [|[tn tc] ps IH]; intros c z srv lin cd k d H; cbn in H; [left; assumption|].
  apply IH in H as [H|H]; [|right; assumption].
  apply dc_set_until_cases in H as [H|(-> & Hlt & ->)]; [left; assumption|].
  right. repeat split; cbn.
  destruct (Z.ltb_spec cd (tn + provisional_cap)); lia.
Qed.

(* -------------------------------------------------------- step preserves Inv *)

Lemma process_delegation_Inv : forall fx st i r, Inv fx st -> Inv fx (process_delegation fx st i r).
Proof.
  intros fx st i r HI. unfold process_delegation.
  destruct (st_rs st i) as [rs|] eqn:Ers; [|exact HI].
  destruct (valid_referral _ _ _ _); cbn [negb]; [|exact HI].
  destruct (r_valid r); cbn [negb]; [|exact HI].
  fold (child_deadline fx rs r).
  set (cd := child_deadline fx rs r).
  set (rec_ := mk_lrec (r_zone r) (r_obs r) (lease_ttl r) cd).
  set (lin := rec_ :: rs_lin rs).
  destruct (child_cut_some fx rs r) as [kc Hcc]. fold cd in Hcc.
  assert (Hwf : wf fx rec_).
  { split; cbn; [apply child_deadline_le_lease|]. intros ->. apply child_deadline_le_ceiling. }
  assert (Hlin : forall l, In l lin -> good fx cd l).
  { intros l [<-|Hin]; [split; [cbn; lia|exact Hwf]|].
    destruct (inv_rs _ _ HI i rs Ers l Hin) as [H1 H2]. split; [|exact H2].
    apply child_deadline_le_cut. exact H1. }
  assert (Hclin : forall l, In l lin -> cgood fx (child_cut fx rs r) l).
  { intros l Hin. destruct (Hlin l Hin) as [H1 H2]. split; [|exact H2]. rewrite Hcc. cbn. exact H1. }
  assert (HI1 : Inv fx (note st (rs_tree rs) (child_cut fx rs r) lin)) by (apply note_Inv; assumption).
  set (st1 := note st (rs_tree rs) (child_cut fx rs r) lin) in *.
  destruct (r_pdet r); [exact HI1|].
  destruct (dc_get (st_dc st1) (r_get r) (r_zone r)) as [cached|] eqn:Eg.
  - (* cached branch *)
    apply dc_get_some in Eg as [Ec _].
    set (cut' := min_cut (child_cut fx rs r) (Some (d_exp cached, r_zone r))).
    set (lin' := d_lin cached ++ lin).
    assert (Hl' : forall l, In l lin' -> cgood fx cut' l).
    { intros l Hin. apply in_app_or in Hin as [Hin|Hin].
      - destruct (inv_dc _ _ HI1 _ _ Ec l Hin) as [H1 H2]. split; [|exact H2]. apply min_cut_le_r. cbn. exact H1.
      - destruct (Hclin l Hin) as [H1 H2]. split; [|exact H2]. apply min_cut_le_l. exact H1. }
    pose proof (note_Inv fx st1 (rs_tree rs) cut' lin' HI1 Hl') as HI2.
    destruct HI2 as [Hdc Hrs Hmeta Hans Hpath]. constructor; cbn -[note]; try assumption.
    + intros j rs' Hj. unfold upd_rs in Hj. destruct (N.eqb_spec i j) as [->|Hne].
      * inversion Hj; subst rs'. cbn. exact Hl'.
      * exact (Hrs j rs' Hj).
    + intros j rs' Hj. unfold upd_rs in Hj. destruct (N.eqb_spec i j) as [->|Hne].
      * inversion Hj; subst rs'. cbn [rs_lin rs_tree]. rewrite note_meta_same. cbn [mt_lin]. apply incl_appl. apply incl_refl.
      * exact (Hpath j rs' Hj).
  - (* uncached branch: provisional entries, then the final store *)
    set (dc1 := if r_anchor r then provisional (st_dc st1) (r_zone r) (r_srv r) lin cd (r_prov r) else st_dc st1).
    assert (Hdc1 : forall z d, dc1 z = Some d -> forall l, In l (d_lin d) -> good fx (d_exp d) l).
    { intros z d Hz l Hin. unfold dc1 in Hz. destruct (r_anchor r); [|eapply (inv_dc _ _ HI1); eauto].
      apply provisional_cases in Hz as [Hz|(-> & Hle & Hl & _)]; [eapply (inv_dc _ _ HI1); eauto|].
      rewrite Hl in Hin. destruct (Hlin l Hin) as [H1 H2]. split; [lia|exact H2]. }
    destruct (r_abort r || negb (r_reach r)).
    + destruct HI1 as [Hdc Hrs Hmeta Hans Hpath]. constructor; cbn -[note]; assumption.
    + set (dc2 := if r_anchor r then dc_set_until dc1 (r_store r) (r_zone r) (r_srv r) lin cd else dc1).
      assert (Hdc2 : forall z d, dc2 z = Some d -> forall l, In l (d_lin d) -> good fx (d_exp d) l).
      { intros z d Hz l Hin. unfold dc2 in Hz. destruct (r_anchor r); [|eapply Hdc1; eauto].
        apply dc_set_until_cases in Hz as [Hz|(-> & Hlt & ->)]; [eapply Hdc1; eauto|].
        cbn in *. destruct (Hlin l Hin) as [H1 H2]. split; [lia|exact H2]. }
      destruct HI1 as [Hdc Hrs Hmeta Hans Hpath]. constructor; cbn -[note]; try assumption.
      * intros j rs' Hj. unfold upd_rs in Hj. destruct (N.eqb_spec i j) as [->|Hne].
        -- inversion Hj; subst rs'. cbn. exact Hclin.
        -- exact (Hrs j rs' Hj).
      * intros j rs' Hj. unfold upd_rs in Hj. destruct (N.eqb_spec i j) as [->|Hne].
        -- inversion Hj; subst rs'. cbn [rs_lin rs_tree]. unfold st1. rewrite note_meta_same. cbn [mt_lin]. apply incl_appl. apply incl_refl.
        -- exact (Hpath j rs' Hj).
Qed.

Lemma step_Inv : forall fx a st, Inv fx st -> Inv fx (step fx a st).
Proof.
  intros fx a st HI. destruct a as [i tree q is_ds now|i r|tree key msg_ttl now|tree idx|p c|z|i]; cbn [step].
  - (* ASeed *)
    set (m := search_cache (st_dc st) now q is_ds).
    assert (Hm : forall l, In l (m_lin m) -> cgood fx (min_cut None (m_cut m)) l).
    { intros l Hin. destruct (search_cache_cases (st_dc st) now q is_ds) as [H|(z & d & Hg & H)]; fold m in H; rewrite H in *.
      - destruct Hin.
      - cbn in *. apply dc_get_some in Hg as [Hc _]. destruct (inv_dc _ _ HI _ _ Hc l Hin) as [H1 H2]. split; assumption. }
    pose proof (note_Inv fx st tree (min_cut None (m_cut m)) (m_lin m) HI Hm) as HI1.
    destruct HI1 as [Hdc Hrs Hmeta Hans Hpath]. constructor; cbn -[note]; try assumption.
    + intros j rs' Hj. unfold upd_rs in Hj. destruct (N.eqb_spec i j) as [->|Hne].
      * inversion Hj; subst rs'. cbn. exact Hm.
      * exact (Hrs j rs' Hj).
    + intros j rs' Hj. unfold upd_rs in Hj. destruct (N.eqb_spec i j) as [->|Hne].
      * inversion Hj; subst rs'. cbn [rs_lin rs_tree]. rewrite note_meta_same. cbn [mt_lin]. apply incl_appl. apply incl_refl.
      * exact (Hpath j rs' Hj).
  - apply process_delegation_Inv. exact HI.
  - (* AStore *)
    destruct HI as [Hdc Hrs Hmeta Hans Hpath]. constructor; cbn; try assumption.
    intros e [<-|Hin]; [|exact (Hans e Hin)].
    intros l Hl. cbn in Hl. destruct (Hmeta tree l Hl) as [H1 H2]. split; [|exact H2].
    destruct (mt_cut (st_meta st tree)) as [[tc kc]|]; cbn in *; [lia|contradiction].
  - (* AHit *)
    destruct (nth_error (st_ans st) idx) as [e|] eqn:E; [|exact HI].
    apply note_Inv; [exact HI|]. intros l Hl. apply nth_error_In in E.
    destruct (inv_ans _ _ HI e E l Hl) as [H1 H2]. split; [|exact H2]. cbn. rewrite ae_bound_end. exact H1.
  - (* AFold *)
    apply note_Inv; [exact HI|]. intros l Hl. apply (inv_meta _ _ HI). exact Hl.
  - (* ARemove *)
    destruct HI as [Hdc Hrs Hmeta Hans Hpath]. constructor; cbn; try assumption.
    intros z' d Hz. unfold dc_upd in Hz. destruct (zone_eqb z z'); [discriminate|]. exact (Hdc z' d Hz).
  - (* ADrop *)
    destruct HI as [Hdc Hrs Hmeta Hans Hpath]. constructor; cbn; try assumption.
    + intros j rs' Hj. unfold upd_rs in Hj. destruct (N.eqb i j); [discriminate|]. exact (Hrs j rs' Hj).
    + intros j rs' Hj. unfold upd_rs in Hj. destruct (N.eqb i j); [discriminate|]. exact (Hpath j rs' Hj).
Qed.

Lemma run_Inv : forall fx acts st, Inv fx st -> Inv fx (run fx acts st).
Proof. induction acts as [|a r IH]; intros st HI; cbn; [exact HI|]. apply IH. apply step_Inv. exact HI. Qed.

Lemma reachable_Inv : forall fx acts, Inv fx (run fx acts st_init).
Proof. intros. apply run_Inv. apply Inv_init. Qed.

(* ---------------------------------------------- learned-through theorems *)

(* everything that was learned through a parent-side referral l — deeper delegations,
   answers, denials, DS, DNSKEY — has ended by the deadline the code derived for l *)
Lemma learned_through_code : forall fx acts st, st = run fx acts st_init ->
  (forall e l, In e (st_ans st) -> In l (ae_lin e) -> ae_end e <= l_code l) /\
  (forall z d l, st_dc st z = Some d -> In l (d_lin d) -> d_exp d <= l_code l).
Proof.
  intros fx acts st ->. pose proof (reachable_Inv fx acts) as HI. split.
  - intros e l He Hl. apply (inv_ans _ _ HI e He l Hl).
  - intros z d l Hz Hl. apply (inv_dc _ _ HI z d Hz l Hl).
Qed.

(* with the repair the code-derived deadline is the lease the property grants *)
Lemma wf_fixed_spec : forall l, wf true l -> l_spec l = l_code l.
Proof. intros l [_ H]. unfold l_spec. specialize (H eq_refl). lia. Qed.

Lemma learned_through_fixed : forall acts st, st = run true acts st_init ->
  (forall e l, In e (st_ans st) -> In l (ae_lin e) -> ae_end e <= l_spec l) /\
  (forall z d l, st_dc st z = Some d -> In l (d_lin d) -> d_exp d <= l_spec l).
Proof.
  intros acts st ->. pose proof (reachable_Inv true acts) as HI. split.
  - intros e l He Hl. destruct (inv_ans _ _ HI e He l Hl) as [H1 H2]. rewrite wf_fixed_spec by exact H2. exact H1.
  - intros z d l Hz Hl. destruct (inv_dc _ _ HI z d Hz l Hl) as [H1 H2]. rewrite wf_fixed_spec by exact H2. exact H1.
Qed.

Lemma lineage_wf_fixed : forall acts st, st = run true acts st_init ->
  (forall e l, In e (st_ans st) -> In l (ae_lin e) -> l_spec l = l_code l /\ l_code l <= l_obs l + l_ttl l) /\
  (forall z d l, st_dc st z = Some d -> In l (d_lin d) -> l_spec l = l_code l /\ l_code l <= l_obs l + l_ttl l).
Proof.
  intros acts st ->. pose proof (reachable_Inv true acts) as HI. split.
  - intros e l He Hl. destruct (inv_ans _ _ HI e He l Hl) as [_ H2]. split; [apply wf_fixed_spec; exact H2|apply H2].
  - intros z d l Hz Hl. destruct (inv_dc _ _ HI z d Hz l Hl) as [_ H2]. split; [apply wf_fixed_spec; exact H2|apply H2].
Qed.

(* the pre-fix variant: whenever the referral's own TTL stays within 12 h the two coincide *)
Lemma learned_through_short_ttl : forall acts st, st = run false acts st_init ->
  forall e l, In e (st_ans st) -> In l (ae_lin e) -> l_ttl l <= max_ttl -> ae_end e <= l_spec l.
Proof.
  intros acts st -> e l He Hl Httl. pose proof (reachable_Inv false acts) as HI.
  destruct (inv_ans _ _ HI e He l Hl) as [H1 [H2 _]]. unfold l_spec. lia.
Qed.

(* what a tree admits carries the lineage of every resolution of the tree that is still on its path *)
Lemma store_covers_path : forall fx acts st i rs tree key ttl now,
  st = run fx acts st_init -> st_rs st i = Some rs -> rs_tree rs = tree ->
  match st_ans (step fx (AStore tree key ttl now) st) with
  | e :: _ => incl (rs_lin rs) (ae_lin e)
  | [] => False
  end.
Proof.
  intros fx acts st i rs tree key ttl now -> Hrs <-. cbn.
  apply (inv_path _ _ (reachable_Inv fx acts) i rs Hrs).
Qed.

(* ---------------------------------------------------- not extendable *)

(* only processDelegation, handling a referral FOR z that progresses from a zone strictly
   above z towards the name being resolved, can put anything under key z *)
Lemma step_writes_key : forall fx a st z d,
  st_dc (step fx a st) z = Some d -> st_dc st z <> Some d ->
  exists i r rs, a = ARefer i r /\ r_zone r = z /\ st_rs st i = Some rs /\
                 strict_above (rs_zone rs) z = true /\ is_prefix z (rs_q rs) = true /\ r_coherent r = true /\
                 r_valid r = true /\
                 dc_get (st_dc st) (r_get r) z = None /\
                 d_exp d <= child_deadline fx rs r /\ d_srv d = r_srv r.
Proof.
  intros fx a st z d H Hne.
  destruct a as [i tree q is_ds now|i r|tree key msg_ttl now|tree idx|p c|z'|i]; cbn [step] in H.
  - exfalso. apply Hne. exact H.
  - exists i, r. unfold process_delegation in H.
    destruct (st_rs st i) as [rs|] eqn:Ers; [|contradiction].
    exists rs.
    destruct (valid_referral (r_coherent r) (r_zone r) (rs_zone rs) (rs_q rs)) eqn:Ev; cbn [negb] in H; [|contradiction].
    apply valid_referral_spec in Ev as (Hcoh & Habove & Hpath).
    destruct (r_valid r) eqn:Evalid; cbn [negb] in H; [|contradiction].
    fold (child_deadline fx rs r) in H.
    destruct (r_pdet r); [contradiction|].
    rewrite note_dc in H.
    destruct (dc_get (st_dc st) (r_get r) (r_zone r)) as [cached|] eqn:Eg; [contradiction|].
    assert (Hz : r_zone r = z).
    { destruct (zone_eqb (r_zone r) z) eqn:E; [apply zone_eqb_eq; exact E|]. apply zone_eqb_neq in E.
      exfalso. apply Hne.
      destruct (r_abort r || negb (r_reach r)); cbn in H; destruct (r_anchor r);
        try rewrite dc_set_until_other in H by assumption; try rewrite provisional_other in H by assumption; exact H. }
    subst z.
    assert (Hcases : st_dc st (r_zone r) = Some d \/ (d_exp d <= child_deadline fx rs r /\ d_srv d = r_srv r)).
    { destruct (r_abort r || negb (r_reach r)); cbn in H; destruct (r_anchor r); try (left; exact H).
      - apply provisional_cases in H as [H|(_ & H1 & _ & H2)]; auto.
      - apply dc_set_until_cases in H as [H|(_ & Hlt & ->)].
        + apply provisional_cases in H as [H|(_ & H1 & _ & H2)]; auto.
        + right. cbn. split; [lia|reflexivity]. }
    destruct Hcases as [Hc|[H1 H2]]; [contradiction|].
    repeat split; auto.
  - exfalso. apply Hne. exact H.
  - exfalso. apply Hne. destruct (nth_error (st_ans st) idx); exact H.
  - exfalso. apply Hne. exact H.
  - exfalso. apply Hne. cbn in H. unfold dc_upd in H. destruct (zone_eqb z' z); [discriminate|exact H].
  - exfalso. apply Hne. exact H.
Qed.

Lemma lrec_eq_dec : forall a b : lrec, {a = b} + {a <> b}.
Proof. decide equality; try apply Z.eq_dec. apply (list_eq_dec N.eq_dec). Qed.
Lemma deleg_eq_dec : forall a b : deleg, {a = b} + {a <> b}.
Proof. decide equality; [apply (list_eq_dec lrec_eq_dec)|apply N.eq_dec|apply Z.eq_dec]. Qed.
Lemma option_eq_dec_deleg : forall a b : option deleg, {a = b} + {a <> b}.
Proof. decide equality. apply deleg_eq_dec. Qed.

(* a history without a referral for z: the entry under z is the one that was there, or gone *)
Lemma no_referral_no_change : forall fx z acts st,
  forallb (fun a => negb (is_referral_for z a)) acts = true ->
  match st_dc (run fx acts st) z with
  | Some d => st_dc st z = Some d
  | None => True
  end.
Proof.
  intros fx z. induction acts as [|a r IH]; intros st H; cbn.
  - destruct (st_dc st z); auto.
  - cbn in H. apply andb_true_iff in H as [Ha Hr]. specialize (IH (step fx a st) Hr).
    destruct (st_dc (run fx r (step fx a st)) z) as [d|]; [|exact I].
    destruct (option_eq_dec_deleg (st_dc st z) (Some d)) as [E|E]; [exact E|].
    exfalso. destruct (step_writes_key fx a st z d IH E) as (i & r' & rs & -> & Hz & _).
    cbn in Ha. rewrite Hz, zone_eqb_refl in Ha. discriminate.
Qed.

(* what the derived denial stores (RFC 8020 cut, RFC 8198 proof index) file under a request tree ends within the
   granted lease of every parent-side referral that tree learned anything through - whatever the proof's own TTL,
   for every history *)
Lemma derived_dies_fixed : forall acts st, st = run true acts st_init ->
  forall tree now ttl l, In l (mt_lin (st_meta st tree)) ->
  derived_end st tree now ttl <= l_spec l /\ derived_end st tree now ttl <= now + ttl /\
  l_spec l = l_code l /\ l_code l <= l_obs l + l_ttl l.
Proof.
  intros acts st -> tree now ttl l Hl. pose proof (reachable_Inv true acts) as HI.
  destruct (inv_meta _ _ HI tree l Hl) as [H1 H2]. unfold derived_end.
  destruct (mt_cut (st_meta (run true acts st_init) tree)) as [[tc kc]|]; cbn in H1; [|contradiction].
  cbn [cut_time option_map fst]. rewrite (wf_fixed_spec l H2). repeat split; try lia. apply H2.
Qed.
