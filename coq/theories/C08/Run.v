(* C08 — correspondence: case type and the two checkers evaluated with vm_compute on
   what the Go drivers observed.
     check_case: the model computes what the implementation did;
     spec_case : what the implementation did satisfies the specification, judged
                 without the model's transition function where the property allows. *)
From Sdns Require Export Common.Base Gen.C08 C08.Model.
Open Scope Z_scope.

(* ------------------------------------------------------------ small helpers *)

Definition oz_eqb (a b : option Z) : bool :=
  match a, b with None, None => true | Some x, Some y => x =? y | _, _ => false end.
Definition cut_eqb (a b : cut) : bool :=
  match a, b with
  | None, None => true
  | Some (x, k), Some (y, l) => (x =? y) && zone_eqb k l
  | _, _ => false
  end.
Definition between (lo x hi : Z) : bool := (lo <=? x) && (x <=? hi).
Definition obetween (lo x hi : option Z) : bool :=
  match lo, x, hi with
  | None, None, None => true
  | Some a, Some b, Some c => between a b c
  | _, _, _ => false
  end.

(* ---------------------------------------------------- authority.Cache histories *)

(* one operation on a real authority.Cache whose clock the driver scripts;
   key: small numbers (zones [[k]]); observed result of Get: 0 hit (+ expiry, server id), 1 expired, 2 not found *)
Inductive aop :=
| OpSet (now : Z) (k : N) (srv : N) (ttl : Z)
| OpSetUntil (now : Z) (k : N) (srv : N) (exp : Z)
| OpRemove (k : N)
| OpGet (now : Z) (k : N) (res : N) (exp : Z) (srv : N).

Definition kz (k : N) : zone := [k].

Fixpoint auth_run (c : dcache) (ops : list aop) : bool :=
  match ops with
  | [] => true
  | OpSet now k srv ttl :: r => auth_run (dc_set c now (kz k) srv [] ttl) r
  | OpSetUntil now k srv exp :: r => auth_run (dc_set_until c now (kz k) srv [] exp) r
  | OpRemove k :: r => auth_run (dc_upd c (kz k) None) r
  | OpGet now k res exp srv :: r =>
      match dc_get_res c now (kz k) with
      | GHit d => (res =? 0)%N && (d_exp d =? exp) && (d_srv d =? srv)%N
      | GExpired => (res =? 1)%N
      | GNotFound => (res =? 2)%N
      end && auth_run c r
  end.

(* specification, stated on the history itself: the last effective write to the key
   decides.  A write is effective iff its deadline lies strictly after the instant it
   was made; its deadline is the requested one capped at 12 h after that instant. *)
Definition twelve_hours : Z := 43200000000000.

Fixpoint last_write (k : N) (rev_ops : list aop) : option (option (Z * N)) :=
  (* None: no write found; Some None: removed; Some (Some (deadline, srv))) *)
  match rev_ops with
  | [] => None
  | OpSet now k' srv ttl :: r =>
      if (k =? k')%N && (0 <? ttl) then Some (Some (now + Z.min ttl twelve_hours, srv)) else last_write k r
  | OpSetUntil now k' srv exp :: r =>
      if (k =? k')%N && (now <? exp) then Some (Some (Z.min exp (now + twelve_hours), srv)) else last_write k r
  | OpRemove k' :: r => if (k =? k')%N then Some None else last_write k r
  | OpGet _ _ _ _ _ :: r => last_write k r
  end.

Fixpoint auth_spec (rev_before : list aop) (ops : list aop) : bool :=
  match ops with
  | [] => true
  | (OpGet now k res exp srv as o) :: r =>
      match last_write k rev_before with
      | Some (Some (dl, s)) =>
          if now <? dl then (res =? 0)%N && (exp =? dl) && (srv =? s)%N else (res =? 1)%N
      | _ => (res =? 2)%N
      end && auth_spec (o :: rev_before) r
  | o :: r => auth_spec (o :: rev_before) r
  end.

(* ------------------------------------------------------------------- lab *)

(* what the driver derived from the authoritative servers' logs for one request tree
   (a client query, or the background refresh it triggered); instants are filled in
   by [inst]: the driver only knows that they lie in [t0, t1] *)
Inductive lact :=
| LSeed (q : zone)
| LRefer (z : zone) (srv : N) (coherent : bool) (ns_ttl : Z) (ds_ttl : option Z)
| LStore (key : N) (msg_ttl : Z).

Definition inst (t : Z) (a : lact) : act :=
  match a with
  | LSeed q => ASeed 0 0 q false t
  | LRefer z srv coh ns ds => ARefer 0 (mk_ref z srv coh ns ds true t false t [] false true true t)
  | LStore key ttl => AStore 0 key ttl t
  end.

Record ltree := mk_ltree {
  lt_t0 : Z; lt_t1 : Z;            (* virtual instants just before / after the tree ran *)
  lt_key : N;                      (* answer-cache key of the question *)
  lt_refresh : bool;               (* a prefetch refresh (never answered from the cache) *)
  lt_removed : list zone;          (* delegations removed (eviction / ErrorCount / purge) since the previous tree *)
  lt_acts : list lact;             (* seed, referrals accepted or rejected, final store *)
  lt_asked : list N;               (* server sets asked for the question, in order *)
  lt_from_cache : bool;            (* the client was answered without asking anybody *)
  lt_delegs : list (zone * option Z);                 (* dump after the tree: delegation expiries *)
  lt_entries : list (N * option (Z * Z * option Z))   (* dump after the tree: key -> stored, ttl, cutUntil *)
}.

(* a fresh tree on the state that is left: one resolution (id 0), one sink (id 0) *)
Definition fresh_tree (st : state) : state :=
  mk_st (st_dc st) (fun _ => None) (fun _ => meta_empty) (st_ans st).

Fixpoint latest (key : N) (l : list aentry) : option aentry :=
  match l with
  | [] => None
  | e :: r => if (ae_key e =? key)%N then Some e else latest key r
  end.

(* the servers the model asks: after the seed and after every step that changed rs *)
Fixpoint lab_walk (st : state) (t : Z) (acts : list lact) (asked : list N) : state * list N :=
  match acts with
  | [] => (st, rev asked)
  | a :: r =>
      let st' := step code_fx (inst t a) st in
      let asked' :=
        match a with
        | LStore _ _ => asked
        | _ => match st_rs st' 0%N with
               | Some rs =>
                   match a, st_rs st 0%N with
                   | LRefer _ _ _ _ _, Some rs0 =>
                       (* a rejected referral leaves the resolution where it was: nobody new is asked *)
                       if zone_eqb (rs_zone rs0) (rs_zone rs) then asked else rs_srv rs :: asked
                   | _, _ => rs_srv rs :: asked
                   end
               | None => asked
               end
        end in
      lab_walk st' t r asked'
  end.

Definition lab_tree_run (st0 : state) (t : Z) (tr : ltree) : state * list N * bool :=
  (* returns the state, the servers asked, and whether the model answers from the cache *)
  let st := fold_left (fun s z => step code_fx (ARemove z) s) (lt_removed tr) st0 in
  let hit := match latest (lt_key tr) (st_ans st) with
             | Some e => ae_served e t && negb (lt_refresh tr)
             | None => false
             end in
  if hit then (st, [], true)
  else let '(st', asked) := lab_walk (fresh_tree st) t (lt_acts tr) [] in (st', asked, false).

Fixpoint nlist_eqb (a b : list N) : bool :=
  match a, b with
  | [], [] => true
  | x :: a', y :: b' => (x =? y)%N && nlist_eqb a' b'
  | _, _ => false
  end.

Definition deleg_exp (st : state) (z : zone) : option Z := option_map d_exp (st_dc st z).

Definition entry_view (st : state) (key : N) : option (Z * Z * option Z) :=
  option_map (fun e => (ae_stored e, ae_ttl e, ae_cut e)) (latest key (st_ans st)).

Definition entry_between (lo x hi : option (Z * Z * option Z)) : bool :=
  match lo, x, hi with
  | None, None, None => true
  | Some (s0, t0, c0), Some (s, t, c), Some (s1, t1, c1) =>
      between s0 s s1 && (t0 =? t) && (t =? t1) && obetween c0 c c1
  | _, _, _ => false
  end.

Definition entry_dead (st : state) (key : N) (t : Z) : bool :=
  match latest key (st_ans st) with Some e => negb (ae_served e t) | None => true end.

(* model run twice: every clock reading of a tree at its earliest / latest possible instant.
   All modelled quantities are monotone in the clock readings, so the observed values
   must lie between the two runs; decisions (liveness, hit) must agree in both. *)
Fixpoint lab_check (lo hi : state) (trees : list ltree) : bool :=
  match trees with
  | [] => true
  | tr :: r =>
      let '(lo', asked_lo, hit_lo) := lab_tree_run lo (lt_t0 tr) tr in
      let '(hi', asked_hi, hit_hi) := lab_tree_run hi (lt_t1 tr) tr in
      Bool.eqb hit_lo (lt_from_cache tr) && Bool.eqb hit_hi (lt_from_cache tr) &&
      nlist_eqb asked_lo (lt_asked tr) && nlist_eqb asked_hi (lt_asked tr) &&
      forallb (fun ze => obetween (deleg_exp lo' (fst ze)) (snd ze) (deleg_exp hi' (fst ze))) (lt_delegs tr) &&
      forallb (fun ke => match snd ke with
                         | Some _ => entry_between (entry_view lo' (fst ke)) (snd ke) (entry_view hi' (fst ke))
                         | None =>
                             (* the cache deletes an expired entry when a lookup meets it: an absent
                                entry is fine iff the model's is absent or no longer served *)
                             entry_dead lo' (fst ke) (lt_t0 tr) && entry_dead hi' (fst ke) (lt_t0 tr)
                         end) (lt_entries tr) &&
      lab_check lo' hi' r
  end.

(* --- specification oracle for the lab, on the observations and the published TTLs only.

   G z: an upper bound of the lease the parent side currently grants for z, per the
   property: observed instant (at most t1 of the tree in which the referral was seen) +
   min(NS TTL, DS TTL, 12 h), capped by the lease bound of the path so far; a lease that
   is still running (G z > t0) cannot be replaced or extended by a further referral. *)
Definition gmap := list (zone * (Z * N)).     (* zone -> lease bound, servers the lease points at *)
Fixpoint g_get2 (g : gmap) (z : zone) : option (Z * N) :=
  match g with
  | [] => None
  | (z', v) :: r => if zone_eqb z z' then Some v else g_get2 r z
  end.
Definition g_get (g : gmap) (z : zone) : option Z := option_map fst (g_get2 g z).

Definition omin (a : option Z) (b : Z) : Z := match a with Some x => Z.min x b | None => b end.

(* fold over the tree's referrals; cur: lease bound of the path so far (None above every delegation);
   cur_zone: the zone whose servers are being asked *)
Fixpoint spec_walk (g : gmap) (t0 t1 : Z) (cur : option Z) (cur_zone q : zone) (acts : list lact) : gmap * option Z :=
  match acts with
  | [] => (g, cur)
  | LRefer z srv coh ns ds :: r =>
      if valid_referral coh z cur_zone q then
        let ttl := Z.min (match ds with Some d => Z.min ns d | None => ns end * 1000000000) twelve_hours in
        let cand := omin cur (t1 + ttl) in
        match g_get g z with
        | Some old => if t0 <? old
                      then spec_walk g t0 t1 (Some (Z.min cand old)) z q r          (* running lease: not extendable *)
                      else spec_walk ((z, (cand, srv)) :: g) t0 t1 (Some cand) z q r
        | None => spec_walk ((z, (cand, srv)) :: g) t0 t1 (Some cand) z q r
        end
      else (g, cur)           (* nothing the zone says about itself, upwards or sideways counts *)
  | _ :: r => spec_walk g t0 t1 cur cur_zone q r
  end.

Definition seed_of (acts : list lact) : option zone :=
  match acts with LSeed q :: _ => Some q | _ => None end.

Definition entry_end (x : Z * Z * option Z) : Z :=
  let '(s, t, c) := x in match c with Some c' => Z.min (s + t) c' | None => s + t end.

Fixpoint assoc_entry (k : N) (l : list (N * option (Z * Z * option Z))) : option (Z * Z * option Z) :=
  match l with
  | [] => None
  | (k', v) :: r => if (k =? k')%N then v else assoc_entry k r
  end.

Fixpoint srv_zone (zs : list (zone * N)) (s : N) : option zone :=
  match zs with
  | [] => None
  | (z, s') :: r => if (s =? s')%N then Some z else srv_zone r s
  end.

Definition g_remove (g : gmap) (z : zone) : gmap := filter (fun p => negb (zone_eqb (fst p) z)) g.

Fixpoint lab_spec (g0 : gmap) (zone_srv : list (zone * N)) (trees : list ltree) : bool :=
  match trees with
  | [] => true
  | tr :: r =>
      (* an evicted delegation has no lease outstanding: the next referral starts a new one *)
      let g := fold_left g_remove (lt_removed tr) g0 in
      if lt_from_cache tr then
        (* served from the cache: the entry's admission was judged when it was stored *)
        lab_spec g zone_srv r
      else
        match seed_of (lt_acts tr), lt_asked tr with
        | Some q, a :: _ =>
            (* (S2) a delegation is used only while the lease its parent granted is running: the first
               servers asked are the root's or belong to a zone at or above the name whose lease runs *)
            let sz := match srv_zone zone_srv a with Some z => z | None => [] end in
            let sv := g_get g sz in
            (match sz with
             | [] => (a =? root_srv)%N
             | _ => is_prefix sz q && match g_get2 g sz with Some (v, s) => (lt_t0 tr <? v) && (s =? a)%N | None => false end
             end) &&
            let '(g', cur) := spec_walk g (lt_t0 tr) (lt_t1 tr) sv sz q (lt_acts tr) in
            (* (S1) no stored delegation outlives the lease bound the parent side granted *)
            forallb (fun ze => match snd ze, g_get g' (fst ze) with
                               | Some e, Some v => e <=? v
                               | Some _, None => false
                               | None, _ => true
                               end) (lt_delegs tr) &&
            (* (S3) what was admitted in this tree ends within the lease of every delegation on its path *)
            match assoc_entry (lt_key tr) (lt_entries tr), cur with
            | Some x, Some v => let '(s, _, _) := x in if (lt_t0 tr <=? s) then entry_end x <=? v else true
            | _, _ => true
            end &&
            lab_spec g' zone_srv r
        | _, _ => lab_spec g zone_srv r
        end
  end.

(* ------------------------------------------------------------------ race *)

(* one step of an interleaved history of several resolutions (resolution id = request tree id),
   with the bracket of the clock readings of that step *)
Record rstep := mk_rstep { rp_id : N; rp_act : lact; rp_t0 : Z; rp_t1 : Z }.

Definition inst_id (i : N) (t : Z) (a : lact) : act :=
  match a with
  | LSeed q => ASeed i i q false t
  | LRefer z srv coh ns ds => ARefer i (mk_ref z srv coh ns ds true t false t [] false true true t)
  | LStore key ttl => AStore i key ttl t
  end.

Fixpoint push_asked (i s : N) (l : list (N * list N)) : list (N * list N) :=
  match l with
  | [] => [(i, [s])]
  | (j, xs) :: r => if (i =? j)%N then (j, xs ++ [s]) :: r else (j, xs) :: push_asked i s r
  end.

Fixpoint race_walk (hi : bool) (st : state) (steps : list rstep) (asked : list (N * list N)) : state * list (N * list N) :=
  match steps with
  | [] => (st, asked)
  | p :: r =>
      let i := rp_id p in
      let st' := step code_fx (inst_id i (if hi then rp_t1 p else rp_t0 p) (rp_act p)) st in
      let asked' :=
        match rp_act p, st_rs st' i with
        | LStore _ _, _ => asked
        | LSeed _, Some rs => push_asked i (rs_srv rs) asked
        | LRefer _ _ _ _ _, Some rs =>
            match st_rs st i with
            | Some rs0 => if zone_eqb (rs_zone rs0) (rs_zone rs) then asked else push_asked i (rs_srv rs) asked
            | None => asked
            end
        | _, None => asked
        end in
      race_walk hi st' r asked'
  end.

Fixpoint asked_get (i : N) (l : list (N * list N)) : list N :=
  match l with [] => [] | (j, xs) :: r => if (i =? j)%N then xs else asked_get i r end.

(* ------------------------------------------------------------------ cases *)

Inductive case :=
  (* authority.Cache op history (scripted clock) *)
| CaseAuth (ops : list aop)
  (* resolver.minCut / minNonZero / ResponseMeta.BoundCutFor folds *)
| CaseMinCut (a b res : cut)
| CaseMinNZ (a b res : option Z)
| CaseBound (seq : list cut) (res : cut)
  (* validReferral on a coherent/incoherent NS set *)
| CaseReferral (coherent : bool) (referral auth qname : zone) (res : bool)
  (* extractDelegationInfo + minRRSetTTL: TTLs of the coherent NS RRset / of a DS set *)
| CaseTTLs (ns : list Z) (ns_min : Z) (ds : list Z) (ds_min : Z)
  (* CacheEntry.remaining and boundRequestToEntryLifetime on a hand-built entry *)
| CaseEntry (stored ttl : Z) (cutu : option Z) (now rem bound : Z)
  (* TTLManager.Calculate of the positive cache as configured by cache.New *)
| CaseAdmit (msg_ttl res : Z)
  (* searchCache on a seeded delegation cache (scripted clock) *)
| CaseSearch (ents : list (zone * Z * N)) (now : Z) (q : zone) (is_ds : bool) (rz : zone) (rsrv : N) (rcut : cut)
  (* processDelegation stopped by the depth budget right after its cache writes:
     rs (zone, cut, qname), pre-seeded entry for the referred zone, the referral, clock
     skew of the delegation cache (emulated validation latency), its skew once the first nameserver
     address lookup has run (a slow lookup: skew2 >= skew), bracket [t0,t1] of the real clock readings, fatal lookup error flag; observed: outcome class, stored entry for the
     zone, tree cut, rs cut after the call *)
| CasePD (rsz : zone) (rscut : cut) (q : zone) (pre : option (Z * N))
         (z : zone) (srv : N) (coh : bool) (ns : Z) (ds : option Z) (nprov : nat) (abort anchor : bool) (skew skew2 t0 t1 : Z)
         (outcome : N) (stored : option (Z * N)) (mcut : cut) (rcut : cut)
  (* two overlapping resolutions through the full pipeline: interleaved steps with their clock
     brackets; observed: stored delegations, both answer entries, servers asked per resolution *)
| CaseRace (steps : list rstep) (delegs : list (zone * option Z)) (entries : list (N * option (Z * Z * option Z)))
           (asked : list (N * list N)) (t4 : Z) (ghost : bool)
  (* ([t4], [ghost]: afterwards the parent withdraws the zone, the clock moves past the lease the answers were learned
     through, and resolution 1's question is asked again at t4: whether it was served the old child's data or the old
     child was asked) *)
  (* DNSSEC-on pipeline against the repository's signed hermetic namespace: referral NS / DS TTLs (s),
     brackets of the first tree [t0,t1] and of a second one through the cached delegation [t2,t3],
     stored delegation expiry, the entries the trees admitted (answer, denial, DNSKEY, DS), then after the
     parent withdrew: instant of the next query, whether it got the parent's NXDOMAIN, whether the old child was asked *)
| CaseSec (ns ds t0 t1 t2 t3 : Z) (deleg : option Z) (entries : list (option (Z * Z * option Z)))
          (dttl : Z) (derived : list Z)
          (t4 : Z) (nx child_asked old_denial : bool)
  (* ([dttl]: what the signed denial's own records allow the derived stores - RFC 8020 cut, RFC 8198 proof index - to
     keep it for (ns); [derived]: the expiry of every record those stores filed for the zone under the second tree;
     [old_denial]: after the withdrawal and the lease, a question below the denied name or a fresh name of the zone was
     answered with the old child's proof) *)
  (* full pipeline, nested delegation tld. -> a.tld. -> s.a.tld. whose referral carries a partly glue-less NS
     set: per-level NS TTLs (s), number of provisional entries filed, bracket of an optional warm-up tree
     (tld. and a.tld. cached beforehand), the main tree's bracket split at the nameserver address lookup
     ([t0,h0] before it reached the child's server, [h1,t1] after), whether the client's request was cancelled
     during the lookup and whether that aborted the descent (the cancellation may come too late for that);
     observed: stored delegation expiries (tld., a.tld., s.a.tld.), the answer's and the nameserver address's
     entries; then after a.tld. withdrew s.a.tld.: instant of the next query, whether it got the parent's
     NXDOMAIN, whether the former child was asked *)
| CaseNest (ttl_tld ttl_a ttl_s : Z) (nprov : nat) (warm : option (Z * Z)) (t0 h0 h1 t1 : Z) (cancelled aborted : bool)
           (delegs : list (option Z)) (ans nsaddr : option (Z * Z * option Z)) (t4 : Z) (nx child_asked : bool)
  (* full pipeline, an alias in the outer zone a.tld. onto a name in the target zone b.tld. (both delegated by tld.,
     with their own leases): DNAME leg followed by the resolver (dname = true) or CNAME chased by the cache layer;
     per-zone NS TTLs (s), TTL the outer entry is admitted with and TTL of the target's answer / denial (ns),
     bracket of an optional warm-up tree that cached b.tld. beforehand, bracket of the tree; observed: stored
     delegation expiries (tld., a.tld., b.tld.), the entries admitted for the outer and for the target question;
     then after tld. re-pointed / withdrew b.tld.: instant of the repeated question, whether the reply carried the
     old target servers' data, whether they were asked *)
| CaseAlias (dname : bool) (leg_records leg_nx : bool) (ttl_tld ttl_a ttl_b : Z) (outer_ttl msg_ttl : Z) (warm : option (Z * Z)) (t0 t1 : Z)
            (delegs : list (option Z)) (outer target : option (Z * Z * option Z)) (t4 : Z) (from_old old_asked : bool)
  (* ([leg_records], [leg_nx]: the shape of the target leg's reply - whether it has answer / authority records, whether
     its rcode is NXDOMAIN: a denial may come with its SOA or as the bare rcode)

     full pipeline, a CHAIN of CNAMEs: the question lies in zone 0, whose alias points into zone 1, ... whose alias
     points at the final name in zone n; tld. delegates every zone with its own lease; the cache layer chases each
     alias with sub-queries under forked request trees, nested.  Per zone k: NS TTL (s), the TTL (ns) the entry for
     leg k's question is admitted with, and the sub-queries leg k's own chase loop issued, in order - each with the
     leg whose question it asked, whether it was answered from that leg's stored entry (a hit under a fresh tree; the
     first sub-query of leg k is the resolution of leg k+1), and the shape of its reply as the loop saw it (records,
     NXDOMAIN, "ends in a further alias without a record of the question's type").  Bracket of an optional warm-up
     tree in which a client asked the final name itself beforehand (the last leg is then never resolved again: the
     sub-query for it is answered from the stored entry, part of whose lease has run).  Bracket of the tree; observed:
     stored delegation expiries (tld., zone 0 .. n), the entry of every leg's question; then tld. re-points /
     withdraws zone [victim]: instant of the repeated question, whether the reply carried data of the old servers of
     that zone (or of zones only reachable through its old alias), whether they were asked *)
| CaseChain (ttl_tld : Z) (legs : list (Z * Z * list (nat * bool * bool * bool * bool))) (warm : option (Z * Z)) (t0 t1 : Z)
            (delegs : list (option Z)) (entries : list (option (Z * Z * option Z)))
            (victim : nat) (t4 : Z) (from_old old_asked : bool)
  (* full pipeline against the scripted world *)
| CaseLab (zone_srv : list (zone * N)) (trees : list ltree).

(* ---- processDelegation unit: model side *)
Definition pd_state (rsz : zone) (rscut : cut) (q : zone) (pre : option (Z * N)) (z : zone) : state :=
  let dc := match pre with Some (e, s) => dc_upd dc_empty z (Some (mk_deleg e s [])) | None => dc_empty end in
  mk_st dc (fun i => if (i =? 0)%N then Some (mk_rs rsz 1%N rscut 0%N q []) else None) (fun _ => meta_empty) [].

Definition pd_ref (z : zone) (srv : N) (coh : bool) (ns : Z) (ds : option Z) (nprov : nat) (abort anchor : bool) (skew skew2 t : Z) : referral :=
  (* the first provisional entry is filed before the first address lookup, the others and the final store after it *)
  let prov := match nprov with O => [] | S n => (t, t + skew) :: repeat (t, t + skew2) n end in
  mk_ref z srv coh ns ds true t false (t + skew) prov abort true anchor (t + skew2).

(* outcome: 0 rejected (errParentDetection), 1 cached branch (stopped by depth), 2 stored and stopped by depth,
   3 fatal lookup error *)
Definition pd_outcome (st : state) (z : zone) (coh : bool) (rsz q : zone) (abort : bool) (tget : Z) : N :=
  if negb (valid_referral coh z rsz q) then 0%N
  else match dc_get (st_dc st) tget z with
       | Some _ => 1%N
       | None => if abort then 3%N else 2%N
       end.

Definition view_deleg (st : state) (z : zone) : option (Z * N) :=
  option_map (fun d => (d_exp d, d_srv d)) (st_dc st z).
Definition pair_between (lo x hi : option (Z * N)) : bool :=
  match lo, x, hi with
  | None, None, None => true
  | Some (a, s0), Some (b, s), Some (c, s1) => between a b c && (s0 =? s)%N && (s =? s1)%N
  | _, _, _ => false
  end.
Definition cut_between (lo x hi : cut) : bool :=
  match lo, x, hi with
  | None, None, None => true
  | Some (a, k0), Some (b, k), Some (c, k1) => between a b c && zone_eqb k0 k && zone_eqb k k1
  | _, _, _ => false
  end.
Definition rs_cut_of (st : state) : cut := match st_rs st 0%N with Some rs => rs_cut rs | None => None end.

(* ---- nested delegation with a partly glue-less NS set: model side *)
Definition nest_ztld : zone := [1%N].
Definition nest_za : zone := [1%N; 2%N].
Definition nest_zs : zone := [1%N; 2%N; 3%N].
Definition nest_q : zone := [1%N; 2%N; 3%N; 4%N].
Definition nest_qa : zone := [1%N; 2%N; 5%N].
Definition nest_ref (z : zone) (srv : N) (ttl t : Z) : act :=
  ARefer 0 (mk_ref z srv true ttl None true t false t [] false true true t).
Definition nest_ans_ttl : Z := 3600000000000.

(* every clock reading up to the address lookup at [ta], every one after it at [ts] *)
Definition nest_run (hi : bool) (ttl_tld ttl_a ttl_s : Z) (nprov : nat) (warm : option (Z * Z)) (t0 h0 h1 t1 : Z) (aborted : bool) : state :=
  let ta := if hi then h0 else t0 in
  let ts := if hi then t1 else h1 in
  let prov := match nprov with O => [] | S n => (ta, ta) :: repeat (ts, ts) n end in
  let rs := ARefer 0 (mk_ref nest_zs 3 true ttl_s None true ta false ta prov aborted true true ts) in
  let tail := if aborted then [rs] else [rs; AStore 0 1 nest_ans_ttl ts] in
  match warm with
  | Some (w0, w1) =>
      let w := if hi then w1 else w0 in
      let st := run code_fx [ASeed 0 0 nest_qa false w; nest_ref nest_ztld 1 ttl_tld w; nest_ref nest_za 2 ttl_a w;
                             AStore 0 2 nest_ans_ttl w] st_init in
      run code_fx (ASeed 0 0 nest_q false ta :: tail) (fresh_tree st)
  | None =>
      run code_fx (ASeed 0 0 nest_q false ta :: nest_ref nest_ztld 1 ttl_tld ta :: nest_ref nest_za 2 ttl_a ta :: tail) st_init
  end.

(* ---- alias legs: the composed answer's tree (0) and the target leg's forked tree (1) *)
Definition al_ztld : zone := [1%N].
Definition al_za : zone := [1%N; 2%N].
Definition al_zb : zone := [1%N; 3%N].
Definition al_qo : zone := [1%N; 2%N; 4%N; 5%N].
Definition al_qt : zone := [1%N; 3%N; 5%N].
Definition al_qw : zone := [1%N; 3%N; 6%N].
Definition al_ref (i : N) (z : zone) (srv : N) (ttl t : Z) : act :=
  ARefer i (mk_ref z srv true ttl None true t false t [] false true true t).

(* the reply of a leg that completed its part of the chain (no error, no DNSSEC proof marker: the drivers run with
   validation off; nothing further to chase) *)
Definition leg_hop (tree : N) (records nx : bool) : hop := mk_hop tree false records nx false false.

Definition alias_run (dname : bool) (h : hop) (ttl_tld ttl_a ttl_b outer_ttl msg_ttl : Z) (warm : option Z) (t : Z) : state :=
  (* the target leg resolves and admits the target's answer under its own tree; its cut is folded into the outer
     tree where the code inherits it - the DNAME leg of Resolver.answer always, the cache layer's chase where the leg's
     records / its NXDOMAIN become part of the composed answer - which is admitted after that *)
  let finish st :=
    let st1 := step code_fx (AStore 1 2 msg_ttl t) st in
    let st2 := if dname then (if leg_inherits true h then step code_fx (AFold 0 1) st1 else st1)
               else chase code_fx chase_depth 0 [h] st1 in
    step code_fx (AStore 0 1 outer_ttl t) st2 in
  match warm with
  | Some w =>
      let st := run code_fx [ASeed 0 0 al_qw false w; al_ref 0 al_ztld 1 ttl_tld w; al_ref 0 al_zb 3 ttl_b w;
                             AStore 0 3 msg_ttl w] st_init in
      finish (run code_fx [ASeed 0 0 al_qo false t; al_ref 0 al_za 2 ttl_a t; ASeed 1 1 al_qt false t] (fresh_tree st))
  | None =>
      finish (run code_fx [ASeed 0 0 al_qo false t; al_ref 0 al_ztld 1 ttl_tld t; al_ref 0 al_za 2 ttl_a t;
                           ASeed 1 1 al_qt false t; al_ref 1 al_zb 3 ttl_b t] st_init)
  end.

(* ---- a chain of aliases through zones 0 .. n: leg k is its own resolution and request tree k *)
Definition ch_zone (k : nat) : zone := [1%N; N.of_nat (10 + k)].
Definition ch_q (k : nat) : zone := [1%N; N.of_nat (10 + k); 5%N].
Definition ch_key (k : nat) : N := N.of_nat (S k).
Definition ch_srv (k : nat) : N := N.of_nat (2 + k).
(* one sub-query of a leg's chase: (leg asked, hit, records, nx, more) *)
Definition chain_hop := (nat * bool * bool * bool * bool)%type.
Definition chain_leg := (Z * Z * list chain_hop)%type.

(* the descents, outermost first (tld. is learned by leg 0 and found in the delegation cache by the others) *)
Fixpoint chain_down (k : nat) (legs : list chain_leg) (t : Z) : list act :=
  match legs with
  | [] => []
  | (ns, _, _) :: r =>
      ASeed (N.of_nat k) (N.of_nat k) (ch_q k) false t :: al_ref (N.of_nat k) (ch_zone k) (ch_srv k) ns t :: chain_down (S k) r t
  end.

Fixpoint entry_idx (key : N) (l : list aentry) : option nat :=
  match l with
  | [] => None
  | e :: r => if (ae_key e =? key)%N then Some O else option_map S (entry_idx key r)
  end.
(* the fresh request tree of the i-th sub-query of leg k when it is answered from the cache *)
Definition hit_tree (k i : nat) : N := N.of_nat (100 + 10 * k + i).

(* the sub-queries of leg k's chase as the model's hops: the resolution of a deeper leg reports into that leg's tree
   (which is complete by now); a sub-query answered from leg j's stored entry runs under a fresh tree that the hit
   binds to the entry's lifetime (boundRequestToEntryLifetime) *)
Fixpoint chain_hops (k i : nat) (hs : list chain_hop) (st : state) : state * list hop :=
  match hs with
  | [] => (st, [])
  | (j, hit, records, nx, more) :: r =>
      let tree := if hit then hit_tree k i else N.of_nat j in
      let st1 := if hit then match entry_idx (ch_key j) (st_ans st) with
                             | Some idx => step code_fx (AHit tree idx) st
                             | None => st
                             end
                 else st in
      let '(st2, l) := chain_hops k (S i) r st1 in
      (st2, mk_hop tree false records nx false more :: l)
  end.

(* the replies, innermost first: the deeper legs run inside the first sub-query of leg k's chase; then the loop of
   Cache.additionalAnswer ([chase]) over the sub-queries it issued; then leg k's entry is admitted under tree k *)
Fixpoint chain_up (k : nat) (legs : list chain_leg) (t : Z) (st : state) : state :=
  match legs with
  | [] => st
  | (_, ttl, hs) :: r =>
      let st1 := chain_up (S k) r t st in
      let '(st2, l) := chain_hops k 0 hs st1 in
      let st3 := chase code_fx chase_depth (N.of_nat k) l st2 in
      step code_fx (AStore (N.of_nat k) (ch_key k) ttl t) st3
  end.
Definition chain_run (ttl_tld : Z) (legs : list chain_leg) (warm : option Z) (t : Z) : state :=
  match warm with
  | None =>
      let down := match chain_down 0 legs t with
                  | s :: r => s :: al_ref 0 al_ztld 1 ttl_tld t :: r
                  | [] => []
                  end in
      chain_up 0 legs t (run code_fx down st_init)
  | Some w =>
      (* the warm-up tree resolved the final name by itself at w; the chain's own tree finds tld. in the delegation
         cache and never descends into the last zone *)
      let n := pred (length legs) in
      match nth_error legs n with
      | Some (ns, ttl, _) =>
          let st := run code_fx [ASeed 0 0 (ch_q n) false w; al_ref 0 al_ztld 1 ttl_tld w;
                                 al_ref 0 (ch_zone n) (ch_srv n) ns w; AStore 0 (ch_key n) ttl w] st_init in
          chain_up 0 (removelast legs) t (run code_fx (chain_down 0 (removelast legs) t) (fresh_tree st))
      | None => st_init
      end
  end.

Definition hop_of (h : chain_hop) : hop := let '(_, _, records, nx, more) := h in mk_hop 0 false records nx false more.
(* the loop of the model issues exactly the observed sub-queries: it does not stop before the last one and would not
   issue another one after it (a reply without an alias to chase never enters the loop: nothing to compare) *)
Definition loop_agrees (hs : list chain_hop) : bool :=
  let l := map hop_of hs in
  match hs with
  | [] => true
  | _ => (length (chase_used chase_depth (l ++ [mk_hop 0 false false false false false])) =? length hs)%nat
  end.
(* shape: the first sub-query of leg k asks leg k+1's question - a resolution, except for the last leg after a
   warm-up, which is answered from its stored entry; every later one is answered from the entry of a deeper leg; the
   last leg chases nothing *)
Fixpoint chain_shape_ok (warm : bool) (k n : nat) (legs : list chain_leg) : bool :=
  match legs with
  | [] => true
  | (_, _, hs) :: r =>
      loop_agrees hs &&
      match hs with
      | [] => (S k =? n)%nat
      | (j, hit, _, _, _) :: later =>
          (S k <? n)%nat && (j =? S k)%nat && Bool.eqb hit (warm && (S j =? n)%nat) &&
          forallb (fun h => let '(j', hit', _, _, _) := h in hit' && (k <? j')%nat && (j' <? n)%nat) later
      end && chain_shape_ok warm (S k) n r
  end.

Definition hop_carries (h : chain_hop) : bool := let '(_, _, records, nx, _) := h in records || nx.
(* what leg v learned reaches leg k's reply: through a run of sub-queries each of which handed something (records or
   its NXDOMAIN) to the loop that issued it *)
Fixpoint reaches (fuel : nat) (legs : list chain_leg) (k v : nat) : bool :=
  (k =? v)%nat ||
  match fuel with
  | O => false
  | S f => match nth_error legs k with
           | Some (_, _, hs) => existsb (fun h => hop_carries h && reaches f legs (fst (fst (fst (fst h)))) v) hs
           | None => false
           end
  end.
Definition linked (legs : list chain_leg) (k v : nat) : bool := reaches (length legs) legs k v.

Fixpoint chain_delegs_ok (lo hi : state) (k : nat) (ds : list (option Z)) : bool :=
  match ds with
  | [] => true
  | d :: r => obetween (deleg_exp lo (ch_zone k)) d (deleg_exp hi (ch_zone k)) && chain_delegs_ok lo hi (S k) r
  end.
Fixpoint chain_entries_ok (lo hi : state) (k : nat) (es : list (option (Z * Z * option Z))) : bool :=
  match es with
  | [] => true
  | e :: r => entry_between (entry_view lo (ch_key k)) e (entry_view hi (ch_key k)) && chain_entries_ok lo hi (S k) r
  end.

Definition ole (a : option Z) (b : Z) : bool := match a with Some x => x <=? b | None => true end.

Definition check_case (c : case) : bool :=
  match c with
  | CaseAuth ops => auth_run dc_empty ops
  | CaseMinCut a b res => cut_eqb (min_cut a b) res
  | CaseMinNZ a b res => oz_eqb (min_nonzero a b) res
  | CaseBound seq res => cut_eqb (fold_left bound_cut seq None) res
  | CaseReferral coh ref auth q res => Bool.eqb (valid_referral coh ref auth q) res
  | CaseTTLs ns ns_min ds ds_min =>
      (* the lease uses the minimum over each RRset (0 for an empty DS set) *)
      (match ns with [] => true | x :: r => ns_rrset_ttl x r =? ns_min end) &&
      (rrset_min_ttl ds =? ds_min)
  | CaseEntry stored ttl cutu now rem bound =>
      let e := mk_ae 0%N stored ttl cutu [] in
      (ae_remaining e now =? rem) && (ae_bound e =? bound)
  | CaseAdmit msg_ttl res => admit_ttl msg_ttl =? res
  | CaseSearch ents now q is_ds rz rsrv rcut =>
      let dc := fold_left (fun c e => let '(z, ex, s) := e in dc_upd c z (Some (mk_deleg ex s []))) ents dc_empty in
      let m := search_cache dc now q is_ds in
      zone_eqb (m_zone m) rz && (m_srv m =? rsrv)%N && cut_eqb (m_cut m) rcut
  | CasePD rsz rscut q pre z srv coh ns ds nprov abort anchor skew skew2 t0 t1 outcome stored mcut rcut =>
      let st := pd_state rsz rscut q pre z in
      let lo := process_delegation code_fx st 0%N (pd_ref z srv coh ns ds nprov abort anchor skew skew2 t0) in
      let hi := process_delegation code_fx st 0%N (pd_ref z srv coh ns ds nprov abort anchor skew skew2 t1) in
      (pd_outcome st z coh rsz q abort (t0 + skew) =? outcome)%N &&
      (pd_outcome st z coh rsz q abort (t1 + skew) =? outcome)%N &&
      pair_between (view_deleg lo z) stored (view_deleg hi z) &&
      cut_between (mt_cut (st_meta lo 0%N)) mcut (mt_cut (st_meta hi 0%N)) &&
      (* the depth budget stops the uncached branch before rs is moved, and a rejected or aborted
         call leaves rs as it was: rs is compared after the cached branch only *)
      (if (outcome =? 1)%N then cut_between (rs_cut_of lo) rcut (rs_cut_of hi) else true)
  | CaseRace steps delegs entries asked t4 ghost =>
      let '(lo, alo) := race_walk false st_init steps [] in
      let '(hi, ahi) := race_walk true st_init steps [] in
      forallb (fun ze => obetween (deleg_exp lo (fst ze)) (snd ze) (deleg_exp hi (fst ze))) delegs &&
      forallb (fun ke => entry_between (entry_view lo (fst ke)) (snd ke) (entry_view hi (fst ke))) entries &&
      forallb (fun ia => nlist_eqb (asked_get (fst ia) alo) (snd ia) && nlist_eqb (asked_get (fst ia) ahi) (snd ia)) asked &&
      (* once every delegation below the top one and resolution 1's entry have lapsed in the model, the repeated
         question is not served from the old child *)
      (if forallb (fun ze => match fst ze with
                             | [_] => true
                             | z => ole (deleg_exp hi z) t4
                             end) delegs && entry_dead hi 1%N t4
       then negb ghost else true)
  | CaseSec ns ds t0 t1 t2 t3 deleg entries dttl derived t4 nx child_asked old_denial =>
      let z := [1%N] in let q := [1%N; 2%N] in
      let tree t := run code_fx [ASeed 0 0 q false t; ARefer 0 (mk_ref z 1 true ns (Some ds) true t false t [] false true true t); AStore 0 1 0 t] st_init in
      let lo := tree t0 in let hi := tree t1 in
      obetween (deleg_exp lo z) deleg (deleg_exp hi z) &&
      (* validation material consumed from the cache folds its own lifetime in, so what a tree admits may end
         earlier than the delegation, never later: every admitted entry carries a cut within the tree's *)
      forallb (fun e => match e, cut_time (mt_cut (st_meta hi 0%N)) with
                        | Some (_, _, Some c), Some m => c <=? m
                        | Some (_, _, None), _ => false
                        | None, _ => true
                        | _, None => false
                        end) entries &&
      (* the derived denial stores file the second tree's denial under that tree's cut: [derived_end].  The second
         tree descends through the cached delegation (its cut is the stored expiry) and consumes validation material
         from the cache (the DNSKEY / DS entries: their ends may fold in as well): each record ends between the two *)
      (let second t := run code_fx [ASeed 0 0 q false t] (fresh_tree (tree t)) in
       let up := derived_end (second t1) 0%N t3 dttl in
       let material := fold_left (fun acc e => match e with Some x => Z.min acc (entry_end x) | None => acc end)
                                 (skipn 2 entries) (derived_end (second t0) 0%N t2 dttl) in
       forallb (fun x => (material <=? x) && (x <=? up)) derived) &&
      (* after the lease the model walks up to the root, and every derived record has ended *)
      (if (match deleg_exp hi z with Some e => e <=? t4 | None => true end)
       then zone_eqb (m_zone (search_cache (st_dc hi) t4 q false)) [] && negb child_asked &&
            (if forallb (fun x => x <=? t4) derived then negb old_denial else true)
       else true)
  | CaseNest ttl_tld ttl_a ttl_s nprov warm t0 h0 h1 t1 cancelled aborted delegs ans nsaddr t4 nx child_asked =>
      let lo := nest_run false ttl_tld ttl_a ttl_s nprov warm t0 h0 h1 t1 aborted in
      let hi := nest_run true ttl_tld ttl_a ttl_s nprov warm t0 h0 h1 t1 aborted in
      (* the address sub-query is resolved through the provisional entry, whose lifetime (the tree's deadline,
         at most one minute from the lookup) it folds into the tree: both admissions carry that cut *)
      let ecut (st : state) (ta : Z) := option_map (fun c => Z.min c (ta + provisional_cap)) (cut_time (mt_cut (st_meta st 0%N))) in
      let entry_ok (x : option (Z * Z * option Z)) :=
        match x with
        | Some (s, t, c) => between t0 s t1 && (t =? admit_ttl nest_ans_ttl) && obetween (ecut lo t0) c (ecut hi h0)
        | None => cancelled   (* a cancelled request admits what it got as far as it got *)
        end in
      match delegs with
      | [dt; da; dz] =>
          obetween (deleg_exp lo nest_ztld) dt (deleg_exp hi nest_ztld) &&
          obetween (deleg_exp lo nest_za) da (deleg_exp hi nest_za) &&
          obetween (deleg_exp lo nest_zs) dz (deleg_exp hi nest_zs)
      | _ => false
      end &&
      (if aborted then match ans with None => true | Some _ => false end
       else entry_ok ans && entry_ok nsaddr) &&
      (* once the model's entry for s.a.tld. has run out the walk starts strictly above it *)
      (if ole (deleg_exp hi nest_zs) t4
       then strict_above (m_zone (search_cache (st_dc hi) t4 nest_q false)) nest_zs && negb child_asked
       else true)
  | CaseChain ttl_tld legs warm t0 t1 delegs entries victim t4 from_old old_asked =>
      let lo := chain_run ttl_tld legs (option_map fst warm) t0 in
      let hi := chain_run ttl_tld legs (option_map snd warm) t1 in
      (length delegs =? S (length legs))%nat && (length entries =? length legs)%nat && (victim <? length legs)%nat &&
      chain_shape_ok (match warm with Some _ => true | None => false end) 0 (length legs) legs &&
      match delegs with
      | dt :: ds => obetween (deleg_exp lo al_ztld) dt (deleg_exp hi al_ztld) && chain_delegs_ok lo hi 0 ds
      | [] => false
      end &&
      chain_entries_ok lo hi 0 entries &&
      (* once the model's delegation for the victim zone has lapsed and with it every entry that holds something learned
         through it (the legs above it as far as each hop handed something up), the repeated question is resolved from
         strictly above the victim zone: nothing of its old servers is served or asked *)
      (if ole (deleg_exp hi (ch_zone victim)) t4 &&
          forallb (fun k => negb (linked legs k victim) || entry_dead hi (ch_key k) t4) (seq 0 (S victim))
       then strict_above (m_zone (search_cache (st_dc hi) t4 (ch_q victim) false)) (ch_zone victim) && negb from_old && negb old_asked
       else true)
  | CaseAlias dname leg_records leg_nx ttl_tld ttl_a ttl_b outer_ttl msg_ttl warm t0 t1 delegs outer target t4 from_old old_asked =>
      let h := leg_hop 1 leg_records leg_nx in
      let lo := alias_run dname h ttl_tld ttl_a ttl_b outer_ttl msg_ttl (option_map fst warm) t0 in
      let hi := alias_run dname h ttl_tld ttl_a ttl_b outer_ttl msg_ttl (option_map snd warm) t1 in
      match delegs with
      | [dt; da; db] =>
          obetween (deleg_exp lo al_ztld) dt (deleg_exp hi al_ztld) &&
          obetween (deleg_exp lo al_za) da (deleg_exp hi al_za) &&
          obetween (deleg_exp lo al_zb) db (deleg_exp hi al_zb)
      | _ => false
      end &&
      entry_between (entry_view lo 1%N) outer (entry_view hi 1%N) &&
      entry_between (entry_view lo 2%N) target (entry_view hi 2%N) &&
      (* once the model's delegation for b.tld. and both entries have lapsed, the repeated question is resolved
         from strictly above b.tld.: nothing of the old target servers is served or asked *)
      (if ole (deleg_exp hi al_zb) t4 && (negb (leg_inherits dname h) || entry_dead hi 1%N t4) && entry_dead hi 2%N t4
       then strict_above (m_zone (search_cache (st_dc hi) t4 al_qt false)) al_zb && negb from_old && negb old_asked
       else true)
  | CaseLab _ trees => lab_check st_init st_init trees
  end.

Definition spec_case (c : case) : bool :=
  match c with
  | CaseAuth ops => auth_spec [] ops
  | CaseMinCut a b res =>
      (* the result is one of the two, never later than either bounded one; ties keep the first *)
      match a, b with
      | None, _ => cut_eqb res b
      | _, None => cut_eqb res a
      | Some (ta, _), Some (tb, _) =>
          match res with
          | Some (tr, _) => (tr =? Z.min ta tb) && (if ta <=? tb then cut_eqb res a else cut_eqb res b)
          | None => false
          end
      end
  | CaseMinNZ a b res =>
      match a, b with
      | None, _ => oz_eqb res b
      | _, None => oz_eqb res a
      | Some x, Some y => oz_eqb res (Some (Z.min x y))
      end
  | CaseBound seq res =>
      (* the sink holds the earliest bounded deadline folded so far, with the identity of the first to supply it *)
      let ts := flat_map (fun c => match c with Some (t, _) => [t] | None => [] end) seq in
      match ts, res with
      | [], None => true
      | t :: r, Some (tr, kr) =>
          let m := fold_left Z.min r t in
          (tr =? m) &&
          match find (fun c => match c with Some (t', _) => t' =? m | None => false end) seq with
          | Some (Some (_, k)) => zone_eqb k kr
          | _ => false
          end
      | _, _ => false
      end
  | CaseReferral coh ref auth q res =>
      Bool.eqb res (coh && is_prefix auth ref && negb (zone_eqb auth ref) && is_prefix ref q)
  | CaseTTLs ns ns_min ds ds_min =>
      forallb (fun x => ns_min <=? x) ns && (match ns with [] => true | _ => existsb (fun x => x =? ns_min) ns end) &&
      forallb (fun x => ds_min <=? x) ds && (match ds with [] => ds_min =? 0 | _ => existsb (fun x => x =? ds_min) ds end)
  | CaseEntry stored ttl cutu now rem bound =>
      (* remaining = end - now; a hit folds the entry's end *)
      let e := match cutu with Some c => Z.min (stored + ttl) c | None => stored + ttl end in
      (rem =? e - now) && (bound =? e)
  | CaseAdmit msg_ttl res => res =? Z.max 5000000000 (Z.min msg_ttl 86400000000000)
  | CaseSearch ents now q is_ds rz rsrv rcut =>
      (* the deepest live delegation at or above the start name (the parent for DS), later writes win *)
      let start := if is_ds then parent q else q in
      let live z := find (fun e => let '(z', _, _) := e in zone_eqb z z') (rev ents) in
      let cands := match start with [] => [[]] | _ => ancestors_desc (S (length start)) start end in
      let fix go (l : list zone) :=
        match l with
        | [] => zone_eqb rz [] && (rsrv =? root_srv)%N && cut_eqb rcut None
        | z :: r => match live z with
                    | Some (_, ex, s) => if now <? ex then zone_eqb rz z && (rsrv =? s)%N && cut_eqb rcut (Some (ex, z)) else go r
                    | None => go r
                    end
        end in
      go cands
  | CasePD rsz rscut q pre z srv coh ns ds nprov abort anchor skew skew2 t0 t1 outcome stored mcut rcut =>
      (* the specification for one referral: nothing is written unless the referral progresses;
         a running lease is not replaced; what is written, noted or descended ends no later than
         the ancestor cut, than observed + min(NS TTL, DS TTL) and than observed + 12 h *)
      let ok_ref := coh && is_prefix rsz z && negb (zone_eqb rsz z) && is_prefix z q in
      let ttl := match ds with Some d => Z.min ns d | None => ns end in
      let lim := omin (cut_time rscut) (Z.min (t1 + ttl * 1000000000) (t1 + twelve_hours)) in
      let unchanged := match pre, stored with
                       | None, None => true
                       | Some (e, s), Some (e', s') => (e =? e') && (s =? s')%N
                       | _, _ => false
                       end in
      if negb ok_ref then (outcome =? 0)%N && unchanged && cut_eqb mcut None
      else
        let running := match pre with Some (e, _) => t1 + skew <? e | None => false end in
        if running then (outcome =? 1)%N && unchanged &&
                        match rcut, pre with
                        | Some (m, _), Some (e, _) => (m <=? lim) && (m <=? e)   (* the descent keeps the shorter deadline *)
                        | _, _ => false
                        end &&
                        (* ... and so does the request tree: whatever this descent obtains from the cached servers is
                           admitted under the tree's cut, and was learned through the cached delegation *)
                        match mcut, pre with
                        | Some (m, _), Some (e, _) => (m <=? lim) && (m <=? e)
                        | _, _ => false
                        end
        else
          match stored with
          | Some (e, s) => (e <=? lim) || unchanged
          | None => true
          end &&
          match mcut with Some (m, _) => m <=? lim | None => false end &&
          true
  | CaseRace steps delegs entries asked t4 ghost =>
      (* whichever way the two resolutions interleave: a stored delegation ends within SOME referral the
         parent side issued for it (observed no later than that step's t1, TTL capped at 12 h), and an
         admitted answer ends within such a bound for EVERY zone its resolution was referred through *)
      let bound z := fold_left (fun acc p => match rp_act p with
                                             | LRefer z' _ _ ns ds =>
                                                 if zone_eqb z z' then
                                                   let b := rp_t1 p + Z.min (match ds with Some d => Z.min ns d | None => ns end * 1000000000) twelve_hours in
                                                   match acc with Some a => Some (Z.max a b) | None => Some b end
                                                 else acc
                                             | _ => acc
                                             end) steps None in
      forallb (fun ze => match snd ze, bound (fst ze) with
                         | Some e, Some b => e <=? b
                         | Some _, None => false
                         | None, _ => true
                         end) delegs &&
      forallb (fun p => match rp_act p with
                        | LStore key _ =>
                            match assoc_entry key entries with
                            | Some x =>
                                forallb (fun p' => if (rp_id p' =? rp_id p)%N then
                                                     match rp_act p' with
                                                     | LRefer z _ _ _ _ => match bound z with Some b => entry_end x <=? b | None => false end
                                                     | _ => true
                                                     end
                                                   else true) steps
                            | None => true
                            end
                        | _ => true
                        end) steps &&
      (* ... an admitted answer does not outlive the delegation it was obtained through: for every zone its resolution
         was referred to, the stored delegation - if it was running when the answer was admitted - ends no earlier than
         the answer does (the cached branch descends through the OTHER resolution's lease, which may be the shorter) *)
      forallb (fun p => match rp_act p with
                        | LStore key _ =>
                            match assoc_entry key entries with
                            | Some x =>
                                forallb (fun p' => if (rp_id p' =? rp_id p)%N then
                                                     match rp_act p' with
                                                     | LRefer z _ _ _ _ =>
                                                         match find (fun ze => zone_eqb (fst ze) z) delegs with
                                                         | Some (_, Some e) => let '(sx, _, _) := x in if sx <? e then entry_end x <=? e else true
                                                         | _ => true
                                                         end
                                                     | _ => true
                                                     end
                                                   else true) steps
                            | None => true
                            end
                        | _ => true
                        end) steps &&
      (* and once the parent has re-pointed / withdrawn the zone and every lease it granted for the first (old) server
         set has run out, nothing of the old servers is served or asked *)
      (let old := find (fun p => match rp_act p with LRefer (_ :: _ :: _) _ _ _ _ => true | _ => false end) steps in
       match old with
       | Some p0 =>
           match rp_act p0 with
           | LRefer z0 srv0 _ _ _ =>
               if forallb (fun p => match rp_act p with
                                    | LRefer z srv _ ns ds =>
                                        if zone_eqb z z0 && (srv =? srv0)%N
                                        then rp_t1 p + Z.min (match ds with Some d => Z.min ns d | None => ns end * 1000000000) twelve_hours <=? t4
                                        else true
                                    | _ => true
                                    end) steps
               then negb ghost else true
           | _ => true
           end
       | None => true
       end)
  | CaseSec ns ds t0 t1 t2 t3 deleg entries dttl derived t4 nx child_asked old_denial =>
      (* ... and what the derived denial stores keep of the zone's signed denial ends within the lease as well,
         and within what the proof's own records allow; after the lease nothing of it is served *)
      let bound := t1 + Z.min (Z.min ns ds * 1000000000) twelve_hours in
      match deleg with Some e => e <=? bound | None => true end &&
      forallb (fun e => match e with Some x => entry_end x <=? bound | None => true end) entries &&
      forallb (fun x => (x <=? bound) && (x <=? t3 + dttl)) derived &&
      (if bound <=? t4 then nx && negb child_asked && negb old_denial else true)
  | CaseNest ttl_tld ttl_a ttl_s nprov warm t0 h0 h1 t1 cancelled aborted delegs ans nsaddr t4 nx child_asked =>
      (* the lease per level: observed (no later than the end of the bracket it was seen in) + min(NS TTL, 12 h),
         limited by every shallower one; nothing stored for a zone, and nothing learned through s.a.tld.
         (the answer, its nameserver's address), outlives it - provisional entries included; once it has run
         out and the parent has withdrawn the zone, the parent's NXDOMAIN is served and the child is left alone *)
      let capd ttl := Z.min (ttl * 1000000000) twelve_hours in
      let obs_up := match warm with Some (_, w1) => w1 | None => h0 end in
      let l_tld := obs_up + capd ttl_tld in
      let l_a := Z.min l_tld (obs_up + capd ttl_a) in
      let l_s := Z.min l_a (h0 + capd ttl_s) in
      match delegs with
      | [dt; da; dz] => ole dt l_tld && ole da l_a && ole dz l_s
      | _ => false
      end &&
      match ans with Some x => entry_end x <=? l_s | None => true end &&
      match nsaddr with Some x => entry_end x <=? l_s | None => true end &&
      (if l_s <=? t4 then nx && negb child_asked else true)
  | CaseChain ttl_tld legs warm t0 t1 delegs entries victim t4 from_old old_asked =>
      (* leases from the published TTLs only (what the warm-up tree observed runs from the warm-up); the entry of leg k's question holds what leg k learned through zone k
         and whatever the legs below handed up: it ends within the lease of every zone j >= k whose leg is linked to
         it, whatever any record's own TTL; after the victim zone's lease its old servers are history *)
      let capd ttl := Z.min (ttl * 1000000000) twelve_hours in
      let n := length legs in
      let obs_first := match warm with Some (_, w1) => w1 | None => t1 end in
      let l_tld := obs_first + capd ttl_tld in
      let lease k := match nth_error legs k with
                     | Some (ns, _, _) => Z.min l_tld ((if (S k =? n)%nat then obs_first else t1) + capd ns)
                     | None => l_tld
                     end in
      (length delegs =? S n)%nat && (length entries =? n)%nat && (victim <? n)%nat &&
      match delegs with
      | dt :: ds => ole dt l_tld && forallb (fun k => ole (nth k ds None) (lease k)) (seq 0 n)
      | [] => false
      end &&
      forallb (fun k => match nth k entries None with
                        | Some x => forallb (fun j => negb (linked legs k j) || (entry_end x <=? lease j)) (seq k (n - k))
                        | None => true
                        end) (seq 0 n) &&
      (if lease victim <=? t4 then negb from_old && negb old_asked else true)
  | CaseAlias dname leg_records leg_nx ttl_tld ttl_a ttl_b outer_ttl msg_ttl warm t0 t1 delegs outer target t4 from_old old_asked =>
      (* leases from the published TTLs only; the composed answer was learned through BOTH zones' delegations
         (the alias through a.tld., the target's records or denial through b.tld.): it ends within both leases,
         whatever the alias's or the denial's own TTL; after b.tld.'s lease the old target servers are history.
         (A target leg that hands nothing up - NOERROR without any record - leaves the outer entry the alias
         records alone: nothing in it was learned through b.tld., and the ghost clause below still judges what a
         client is served.) *)
      let capd ttl := Z.min (ttl * 1000000000) twelve_hours in
      let obs_first := match warm with Some (_, w1) => w1 | None => t1 end in
      let l_tld := obs_first + capd ttl_tld in
      let l_a := Z.min l_tld (t1 + capd ttl_a) in
      let l_b := Z.min l_tld (obs_first + capd ttl_b) in
      match delegs with
      | [dt; da; db] => ole dt l_tld && ole da l_a && ole db l_b
      | _ => false
      end &&
      match outer with Some x => entry_end x <=? (if leg_records || leg_nx then Z.min l_a l_b else l_a) | None => true end &&
      match target with Some x => entry_end x <=? l_b | None => true end &&
      (if l_b <=? t4 then negb from_old && negb old_asked else true)
  | CaseLab zone_srv trees => lab_spec [] zone_srv trees
  end.
