(* C08 — lemmas about the pieces: translator ties, names, cuts, the delegation cache,
   searchCache, entry lifetimes. *)
From Sdns Require Import Common.Base Gen.C08 C08.Model Common.GoList.
Open Scope Z_scope.

(* ------------------------------------------------------------ translator ties *)

Definition twelve_h : Z := 12 * 3600 * 1000000000.

Lemma gen_lease_ceiling : authority_maximum_ttl = twelve_h /\ set_until_ceiling = authority_maximum_ttl /\ set_ceiling = authority_maximum_ttl.
Proof. vm_compute. repeat split. Qed.

Lemma gen_ttl_units : ns_ttl_unit = 1000000000 /\ ds_ttl_unit = 1000000000 /\ provisional_cap = 60 * 1000000000.
Proof. vm_compute. repeat split. Qed.

Lemma gen_cache_bounds : min_cache_ttl = 5 * 1000000000 /\ max_cache_ttl = 24 * 3600 * 1000000000.
Proof. vm_compute. repeat split. Qed.

(* the answer cache's own bounds are dnsutil's constants (cache.New builds the positive store with them;
   that construction is tied by the driver's admission cases) *)
Lemma gen_cache_bounds_src : cache_max_ttl = max_cache_ttl /\ cache_min_ttl = min_cache_ttl.
Proof. vm_compute. split; reflexivity. Qed.

(* TTLManager.Calculate, as translated from the source, is the clamp *)
Lemma gen_TTLManager_Calculate : forall tm x, T_TTLManager_min tm <= T_TTLManager_max tm ->
  go_TTLManager_Calculate tm x = Z.max (T_TTLManager_min tm) (Z.min x (T_TTLManager_max tm)).
Proof. intros tm x H. unfold go_TTLManager_Calculate. destruct (Z.ltb_spec x (T_TTLManager_min tm)); destruct (Z.ltb_spec (T_TTLManager_max tm) x); lia. Qed.

Lemma admit_ttl_bounds : forall x, 5 * 1000000000 <= admit_ttl x <= 24 * 3600 * 1000000000.
Proof.
  intro x. unfold admit_ttl. rewrite gen_TTLManager_Calculate; cbn [positive_ttl T_TTLManager_min T_TTLManager_max].
  - destruct gen_cache_bounds as [-> ->]. lia.
  - destruct gen_cache_bounds as [-> ->]. lia.
Qed.

Lemma max_ttl_val : max_ttl = twelve_h.
Proof. reflexivity. Qed.
Lemma max_ttl_pos : 0 < max_ttl.
Proof. rewrite max_ttl_val. unfold twelve_h. lia. Qed.

(* ------------------------------------------------------------------ names *)

Lemma zone_eqb_refl : forall a, zone_eqb a a = true.
Proof. induction a; cbn; [reflexivity|]. rewrite N.eqb_refl. exact IHa. Qed.

Lemma zone_eqb_eq : forall a b, zone_eqb a b = true <-> a = b.
Proof.
  induction a as [|x a IH]; destruct b as [|y b]; cbn; split; intro H; try discriminate; try reflexivity.
  - apply andb_true_iff in H as [H1 H2]. apply N.eqb_eq in H1. apply IH in H2. congruence.
  - inversion H; subst. rewrite N.eqb_refl. apply zone_eqb_refl.
Qed.

Lemma zone_eqb_neq : forall a b, zone_eqb a b = false <-> a <> b.
Proof.
  intros a b. split; intro H.
  - intro E. apply zone_eqb_eq in E. congruence.
  - destruct (zone_eqb a b) eqn:E; [|reflexivity]. apply zone_eqb_eq in E. contradiction.
Qed.

Lemma is_prefix_refl : forall a, is_prefix a a = true.
Proof. induction a; cbn; [reflexivity|]. rewrite N.eqb_refl. exact IHa. Qed.

Lemma is_prefix_app : forall z n, is_prefix z n = true <-> exists s, n = z ++ s.
Proof.
  induction z as [|x z IH]; intros n; cbn.
  - split; [intros _; exists n; reflexivity | reflexivity].
  - destruct n as [|y n]; split; intro H; try discriminate.
    + destruct H as [s H]. discriminate.
    + apply andb_true_iff in H as [H1 H2]. apply N.eqb_eq in H1. apply IH in H2 as [s ->]. exists s. subst. reflexivity.
    + destruct H as [s H]. inversion H; subst. rewrite N.eqb_refl. apply IH. exists s. reflexivity.
Qed.

Lemma is_prefix_trans : forall a b c, is_prefix a b = true -> is_prefix b c = true -> is_prefix a c = true.
Proof.
  intros a b c H1 H2. apply is_prefix_app in H1 as [s ->]. apply is_prefix_app in H2 as [t ->].
  apply is_prefix_app. exists (s ++ t). rewrite app_assoc. reflexivity.
Qed.

Lemma is_prefix_antisym : forall a b, is_prefix a b = true -> is_prefix b a = true -> a = b.
Proof.
  intros a b H1 H2. apply is_prefix_app in H1 as [s ->]. apply is_prefix_app in H2 as [t H].
  rewrite <- app_assoc in H. rewrite <- (app_nil_r a) in H at 1. apply app_inv_head in H.
  symmetry in H. apply app_eq_nil in H as [-> _]. rewrite app_nil_r. reflexivity.
Qed.

(* two names above the same name are comparable *)
Lemma is_prefix_comparable : forall a b q, is_prefix a q = true -> is_prefix b q = true ->
  is_prefix a b = true \/ is_prefix b a = true.
Proof.
  induction a as [|x a IH]; intros b q Ha Hb; [left; reflexivity|].
  destruct b as [|y b]; [right; reflexivity|].
  destruct q as [|w q]; [discriminate|]. cbn in *.
  apply andb_true_iff in Ha as [Ha1 Ha2]. apply andb_true_iff in Hb as [Hb1 Hb2].
  apply N.eqb_eq in Ha1, Hb1. subst. rewrite N.eqb_refl. cbn. eapply IH; eauto.
Qed.

Lemma strict_above_spec : forall z n, strict_above z n = true <-> is_prefix z n = true /\ z <> n.
Proof.
  intros. unfold strict_above. rewrite andb_true_iff, negb_true_iff, zone_eqb_neq. tauto.
Qed.

Lemma valid_referral_spec : forall coh ref auth q,
  valid_referral coh ref auth q = true <->
  coh = true /\ strict_above auth ref = true /\ is_prefix ref q = true.
Proof.
  intros. unfold valid_referral, progressing_referral. rewrite !andb_true_iff, strict_above_spec, negb_true_iff, zone_eqb_neq.
  split; intros H; repeat split; try tauto; intro E; subst; tauto.
Qed.

(* what a zone says about itself, about anything above it, or about anything off the path never counts *)
Lemma self_referral_rejected : forall coh z q, valid_referral coh z z q = false.
Proof.
  intros. destruct (valid_referral coh z z q) eqn:E; [|reflexivity].
  apply valid_referral_spec in E as (_ & E & _). apply strict_above_spec in E as [_ E]. contradiction.
Qed.

Lemma upward_referral_rejected : forall coh ref auth q, is_prefix ref auth = true -> valid_referral coh ref auth q = false.
Proof.
  intros coh ref auth q H. destruct (valid_referral coh ref auth q) eqn:E; [|reflexivity].
  apply valid_referral_spec in E as (_ & E & _). apply strict_above_spec in E as [E1 E2].
  exfalso. apply E2. apply is_prefix_antisym; assumption.
Qed.

Lemma sideways_referral_rejected : forall coh ref auth q, is_prefix ref q = false -> valid_referral coh ref auth q = false.
Proof.
  intros coh ref auth q H. destruct (valid_referral coh ref auth q) eqn:E; [|reflexivity].
  apply valid_referral_spec in E as (_ & _ & E). congruence.
Qed.

Lemma junk_referral_rejected : forall coh ref auth q,
  (ref = auth \/ is_prefix ref auth = true \/ is_prefix ref q = false) -> valid_referral coh ref auth q = false.
Proof.
  intros coh ref auth q [->|[H|H]].
  - apply self_referral_rejected.
  - apply upward_referral_rejected. exact H.
  - apply sideways_referral_rejected. exact H.
Qed.

(* ------------------------------------------------------------------- cuts *)

Definition cut_le (c : cut) (b : Z) : Prop := match c with Some (t, _) => t <= b | None => False end.

Lemma min_cut_le_l : forall a b v, cut_le a v -> cut_le (min_cut a b) v.
Proof.
  intros [[ta ka]|] [[tb kb]|] v H; cbn in *; try tauto.
  destruct (Z.ltb_spec tb ta); cbn; lia.
Qed.
Lemma min_cut_le_r : forall a b v, cut_le b v -> cut_le (min_cut a b) v.
Proof.
  intros [[ta ka]|] [[tb kb]|] v H; cbn in *; try tauto.
  destruct (Z.ltb_spec tb ta); cbn; lia.
Qed.
Lemma bound_cut_is_min_cut : forall m d, bound_cut m d = min_cut m d.
Proof. intros [[tm km]|] [[td kd]|]; reflexivity. Qed.
Lemma bound_cut_le_l : forall m d v, cut_le m v -> cut_le (bound_cut m d) v.
Proof. intros. rewrite bound_cut_is_min_cut. apply min_cut_le_l. assumption. Qed.
Lemma bound_cut_le_r : forall m d v, cut_le d v -> cut_le (bound_cut m d) v.
Proof. intros. rewrite bound_cut_is_min_cut. apply min_cut_le_r. assumption. Qed.

(* min_cut computes the minimum of the bounded deadlines *)
Lemma min_cut_time : forall a b,
  cut_time (min_cut a b) = match cut_time a, cut_time b with
                           | None, x => x | x, None => x
                           | Some x, Some y => Some (Z.min x y)
                           end.
Proof.
  intros [[ta ka]|] [[tb kb]|]; cbn; try reflexivity.
  destruct (Z.ltb_spec tb ta); cbn; f_equal; lia.
Qed.

(* resolver.minNonZero / resolver.minCut as translated from the source (an instant is a Z, the zero
   time.Time is 0; real instants are non-zero) are the model's functions *)
Definition ot (x : option Z) : Z := match x with Some t => t | None => 0 end.
Definition nz (x : option Z) : Prop := forall t, x = Some t -> t <> 0.

Lemma gen_minNonZero : forall a b, nz a -> nz b -> go_minNonZero (ot a) (ot b) = ot (min_nonzero a b).
Proof.
  intros [x|] [y|] Ha Hb; unfold go_minNonZero; cbn.
  - specialize (Ha x eq_refl). specialize (Hb y eq_refl).
    destruct (Z.eqb_spec x 0); [contradiction|]. destruct (Z.eqb_spec y 0); [contradiction|].
    destruct (x <? y); reflexivity.
  - specialize (Ha x eq_refl). destruct (Z.eqb_spec x 0); [contradiction|]. reflexivity.
  - reflexivity.
  - reflexivity.
Qed.

(* keys: any encoding [kf] of delegation identities; an unbounded cut carries whatever key it carries *)
Lemma gen_minCut : forall (kf : zone -> N) a b ka kb,
  nz (cut_time a) -> nz (cut_time b) ->
  (forall t z, a = Some (t, z) -> ka = kf z) -> (forall t z, b = Some (t, z) -> kb = kf z) ->
  let r := go_minCut (ot (cut_time a)) ka (ot (cut_time b)) kb in
  fst r = ot (cut_time (min_cut a b)) /\ (forall t z, min_cut a b = Some (t, z) -> snd r = kf z).
Proof.
  intros kf [[ta za]|] [[tb zb]|] ka kb Ha Hb Hka Hkb; unfold go_minCut; cbn.
  - specialize (Ha ta eq_refl). specialize (Hb tb eq_refl).
    destruct (Z.eqb_spec ta 0); [contradiction|]. destruct (Z.eqb_spec tb 0); [contradiction|].
    destruct (tb <? ta); cbn; split; try reflexivity; intros t z E; inversion E; subst; eauto.
  - specialize (Ha ta eq_refl). destruct (Z.eqb_spec ta 0); [contradiction|]. cbn.
    split; [reflexivity|]. intros t z E; inversion E; subst; eauto.
  - split; [reflexivity|]. intros t z E; inversion E; subst; eauto.
  - split; [reflexivity|]. intros t z E; discriminate.
Qed.

(* middleware.ResponseMeta.BoundCutFor / Cut as translated from the source (mutex calls are no-ops there; a
   result-less pointer-receiver setter is a function to the new receiver).  A sink value represents a model cut
   when its deadline is the cut's instant (0 for "unbounded") and, for a bounded cut, its key encodes the cut's
   delegation identity. *)
Definition meta_rep (kf : zone -> N) (m : T_ResponseMeta) (c : cut) : Prop :=
  T_responseCut_deadline (T_ResponseMeta_cut m) = ot (cut_time c) /\
  (forall t z, c = Some (t, z) -> T_responseCut_key (T_ResponseMeta_cut m) = kf z).

Lemma gen_bound_cut_for : forall (kf : zone -> N) m mc d kd,
  nz (cut_time mc) -> nz (cut_time d) -> meta_rep kf m mc ->
  (forall t z, d = Some (t, z) -> kd = kf z) ->
  meta_rep kf (go_ResponseMeta_BoundCutFor m (ot (cut_time d)) kd) (bound_cut mc d).
Proof.
  intros kf m [[tm zm]|] [[td zd]|] kd Hm Hd [H1 H2] Hk; unfold go_ResponseMeta_BoundCutFor, meta_rep; cbn in *.
  - specialize (Hm tm eq_refl). specialize (Hd td eq_refl). rewrite H1.
    destruct (Z.eqb_spec td 0); [contradiction|]. destruct (Z.eqb_spec tm 0); [contradiction|]. cbn.
    destruct (td <? tm); cbn.
    + split; [reflexivity|]. intros t z E; inversion E; subst. eauto.
    + split; [exact H1|]. intros t z E; inversion E; subst. eauto.
  - split; [exact H1|]. exact H2.
  - specialize (Hd td eq_refl). rewrite H1. destruct (Z.eqb_spec td 0); [contradiction|]. cbn.
    split; [reflexivity|]. intros t z E; inversion E; subst. eauto.
  - split; [exact H1|]. intros t z E; discriminate.
Qed.

(* the hypotheses are satisfiable, and ties keep the cut that was there: *)
Example ex_bound_cut_for : forall wp,
  let m := mk_T_ResponseMeta (mk_T_responseCut 50 7) wp in
  T_ResponseMeta_cut (go_ResponseMeta_BoundCutFor m 30 9) = mk_T_responseCut 30 9 /\
  T_ResponseMeta_cut (go_ResponseMeta_BoundCutFor m 50 9) = mk_T_responseCut 50 7 /\
  T_ResponseMeta_cut (go_ResponseMeta_BoundCutFor m 0 9) = mk_T_responseCut 50 7 /\
  meta_rep (fun z => N.of_nat (length z)) m (Some (50, [1;2;3;4;5;6;7]%N)).
Proof. intro wp. cbn. repeat split. intros t z E. inversion E. reflexivity. Qed.

Lemma gen_meta_cut : forall (kf : zone -> N) m c, meta_rep kf m c ->
  fst (go_ResponseMeta_Cut m) = ot (cut_time c) /\ (forall t z, c = Some (t, z) -> snd (go_ResponseMeta_Cut m) = kf z).
Proof. intros kf m c [H1 H2]. unfold go_ResponseMeta_Cut. cbn. split; assumption. Qed.

(* the fold-back of a forked sub-query's cut, exactly as subQueryLineage.inherit and the DNAME leg in
   Resolver.answer write it - [deadline, key := child.Cut(); parent.BoundCutFor(deadline, key)] - is the cut part
   of the model's AFold step ([bound_cut] of the two trees' cuts) *)
Lemma gen_fold_back : forall (kf : zone -> N) p c cp cc,
  nz (cut_time cp) -> nz (cut_time cc) -> meta_rep kf p cp -> meta_rep kf c cc ->
  meta_rep kf (go_ResponseMeta_BoundCutFor p (fst (go_ResponseMeta_Cut c)) (snd (go_ResponseMeta_Cut c))) (bound_cut cp cc).
Proof.
  intros kf p c cp cc Hp Hc Rp Rc. destruct (gen_meta_cut kf c cc Rc) as [E1 E2]. rewrite E1.
  apply gen_bound_cut_for; assumption.
Qed.

(* cache.subQueryLineage.inherit as translated from the source (both metas non-nil: the translation's
   [nonnil_pointers] reading - a sub-query without a forked meta has nothing to fold): the first call marks the
   lineage inherited and leaves in the parent the model's fold of the two cuts; every later call changes nothing *)
Lemma gen_lineage_inherit : forall (kf : zone -> N) l cp cc,
  nz (cut_time cp) -> nz (cut_time cc) ->
  meta_rep kf (T_subQueryLineage_parent l) cp -> meta_rep kf (T_subQueryLineage_child l) cc ->
  let l' := go_subQueryLineage_inherit l in
  T_subQueryLineage_inherited l' = true /\ T_subQueryLineage_child l' = T_subQueryLineage_child l /\
  meta_rep kf (T_subQueryLineage_parent l') (if T_subQueryLineage_inherited l then cp else bound_cut cp cc) /\
  go_subQueryLineage_inherit l' = l'.
Proof.
  intros kf [p c inh] cp cc Hp Hc Rp Rc. unfold go_subQueryLineage_inherit. cbn in *.
  destruct inh; cbn.
  - repeat split; try assumption; apply Rp.
  - pose proof (gen_fold_back kf p c cp cc Hp Hc Rp Rc) as HF. unfold go_ResponseMeta_Cut in *. cbn [fst snd] in *.
    split; [reflexivity|]. split; [reflexivity|]. split; [exact HF|reflexivity].
Qed.

(* the constants of the alias chase *)
Lemma gen_chase_depth : cname_chase_depth = 10 /\ max_cname_chase_depth = 10.
Proof. split; reflexivity. Qed.

(* cache.CacheEntry.remaining as translated from the source is the model's [ae_remaining]: the entry's
   cutUntil is a time.Time whose zero value ("no cut") is the model's [None] *)
Definition ae_of (e : T_CacheEntry) : aentry :=
  mk_ae 0%N (T_CacheEntry_stored e) (T_CacheEntry_ttl e)
        (if T_CacheEntry_cutUntil e =? 0 then None else Some (T_CacheEntry_cutUntil e)) [].

Lemma gen_CacheEntry_remaining : forall e now, go_CacheEntry_remaining e now = ae_remaining (ae_of e) now.
Proof.
  intros e now. unfold go_CacheEntry_remaining, ae_remaining, ae_of. cbn [ae_ttl ae_stored ae_cut].
  destruct (Z.eqb_spec (T_CacheEntry_cutUntil e) 0); cbn [negb]; [reflexivity|].
  destruct (T_CacheEntry_cutUntil e - now <? T_CacheEntry_ttl e - (now - T_CacheEntry_stored e)); reflexivity.
Qed.

(* ----------------------------------------------------- delegation cache *)

Lemma dc_upd_same : forall c k v, dc_upd c k v k = v.
Proof. intros. unfold dc_upd. rewrite zone_eqb_refl. reflexivity. Qed.
Lemma dc_upd_other : forall c k v k', k <> k' -> dc_upd c k v k' = c k'.
Proof. intros. unfold dc_upd. apply zone_eqb_neq in H. rewrite H. reflexivity. Qed.

Lemma dc_get_some : forall c now k d, dc_get c now k = Some d <-> c k = Some d /\ now < d_exp d.
Proof.
  intros. unfold dc_get, dc_get_res. destruct (c k) as [d'|]; [|split; [discriminate|intros [H _]; discriminate]].
  destruct (Z.ltb_spec now (d_exp d')); split; intro H0.
  - inversion H0; subst. split; [reflexivity|assumption].
  - destruct H0 as [H1 H2]. assumption.
  - discriminate.
  - destruct H0 as [H1 H2]. inversion H1; subst. lia.
Qed.

(* expired entries are invisible *)
Lemma dc_get_expired : forall c now k d, c k = Some d -> d_exp d <= now -> dc_get c now k = None.
Proof.
  intros. destruct (dc_get c now k) eqn:E; [|reflexivity].
  apply dc_get_some in E as [E1 E2]. rewrite H in E1. inversion E1; subst. lia.
Qed.

(* SetUntil: other keys untouched; this key either untouched (deadline not in the future) or
   set to the deadline capped at now + 12 h *)
Lemma dc_set_until_other : forall c now k srv lin exp k', k <> k' -> dc_set_until c now k srv lin exp k' = c k'.
Proof.
  intros. unfold dc_set_until. destruct (exp <=? now); [reflexivity|].
  apply dc_upd_other. assumption.
Qed.

Lemma dc_set_until_same : forall c now k srv lin exp,
  dc_set_until c now k srv lin exp k =
  if exp <=? now then c k else Some (mk_deleg (Z.min exp (now + max_ttl)) srv lin).
Proof.
  intros. unfold dc_set_until. destruct (exp <=? now); [reflexivity|].
  rewrite dc_upd_same. f_equal. f_equal.
  destruct gen_lease_ceiling as (_ & -> & _). fold max_ttl.
  destruct (Z.ltb_spec (now + max_ttl) exp); lia.
Qed.

Lemma dc_set_same : forall c now k srv lin ttl,
  dc_set c now k srv lin ttl k =
  if ttl <=? 0 then c k else Some (mk_deleg (now + Z.min ttl max_ttl) srv lin).
Proof.
  intros. unfold dc_set. destruct (ttl <=? 0); [reflexivity|].
  rewrite dc_upd_same. f_equal. f_equal.
  destruct gen_lease_ceiling as (_ & _ & ->). fold max_ttl.
  destruct (Z.ltb_spec max_ttl ttl); lia.
Qed.

(* whatever SetUntil leaves under a key: the old entry, or one that ends no later than asked *)
Lemma dc_set_until_cases : forall c now k srv lin exp k' d,
  dc_set_until c now k srv lin exp k' = Some d ->
  c k' = Some d \/ (k' = k /\ now < exp /\ d = mk_deleg (Z.min exp (now + max_ttl)) srv lin).
Proof.
  intros c now k srv lin exp k' d H.
  destruct (zone_eqb k k') eqn:E.
  - apply zone_eqb_eq in E. subst k'. rewrite dc_set_until_same in H.
    destruct (Z.leb_spec exp now); [left; assumption|]. right. inversion H. repeat split; auto.
  - apply zone_eqb_neq in E. rewrite dc_set_until_other in H by assumption. left. assumption.
Qed.

(* ------------------------------------------------------------ searchCache *)

Lemma first_live_cases : forall c now cands,
  first_live c now cands = root_match \/
  exists z d, In z cands /\ dc_get c now z = Some d /\
              first_live c now cands = mk_dmatch z (d_srv d) (Some (d_exp d, z)) (d_lin d).
Proof.
  induction cands as [|z r IH]; cbn; [left; reflexivity|].
  destruct (dc_get c now z) as [d|] eqn:E.
  - right. exists z, d. auto.
  - destruct IH as [IH|(z' & d & Hin & Hg & Heq)]; [left; assumption|].
    right. exists z', d. auto.
Qed.

Lemma search_cache_cases : forall c now q is_ds,
  search_cache c now q is_ds = root_match \/
  exists z d, dc_get c now z = Some d /\
              search_cache c now q is_ds = mk_dmatch z (d_srv d) (Some (d_exp d, z)) (d_lin d).
Proof.
  intros. unfold search_cache.
  destruct (if is_ds then parent q else q) as [|x q'].
  - destruct (first_live_cases c now [[]]) as [H|(z & d & _ & Hg & Heq)]; [left; assumption|]. right. eauto.
  - destruct (first_live_cases c now (ancestors_desc (S (length (x :: q'))) (x :: q'))) as [H|(z & d & _ & Hg & Heq)];
      [left; assumption|]. right. eauto.
Qed.

Lemma ancestors_desc_prefix : forall fuel n z, In z (ancestors_desc fuel n) -> is_prefix z n = true.
Proof.
  induction fuel as [|f IH]; intros n z H; [destruct H|].
  cbn in H. destruct n as [|x n']; [destruct H|].
  destruct H as [<-|H]; [apply is_prefix_refl|].
  apply IH in H. eapply is_prefix_trans; [exact H|].
  unfold parent. apply is_prefix_app. exists [last (x :: n') 0%N].
  apply app_removelast_last. discriminate.
Qed.

(* the zone searchCache starts from always lies at or above the name *)
Lemma search_cache_zone_prefix : forall c now q is_ds, is_prefix (m_zone (search_cache c now q is_ds)) q = true.
Proof.
  intros. unfold search_cache.
  assert (Hp : is_prefix (if is_ds then parent q else q) q = true).
  { destruct is_ds; [|apply is_prefix_refl]. unfold parent. destruct q as [|x q']; [reflexivity|].
    apply is_prefix_app. exists [last (x :: q') 0%N]. apply app_removelast_last. discriminate. }
  destruct (if is_ds then parent q else q) as [|x q'] eqn:E.
  - destruct (first_live_cases c now [[]]) as [H|(z & d & Hin & _ & Heq)]; [rewrite H; reflexivity|].
    rewrite Heq. cbn. destruct Hin as [<-|[]]. reflexivity.
  - destruct (first_live_cases c now (ancestors_desc (S (length (x :: q'))) (x :: q'))) as [H|(z & d & Hin & _ & Heq)];
      [rewrite H; reflexivity|].
    rewrite Heq. cbn. apply ancestors_desc_prefix in Hin. eapply is_prefix_trans; eauto.
Qed.

(* --------------------------------------------------------- entry lifetimes *)

Lemma ae_remaining_end : forall e now, ae_remaining e now = ae_end e - now.
Proof.
  intros [k s t [c|] l] now; cbn; [|lia].
  destruct (Z.ltb_spec (c - now) (t - (now - s))); lia.
Qed.

(* an entry is served exactly until its end *)
Lemma ae_served_iff : forall e now, ae_served e now = true <-> now < ae_end e.
Proof. intros. unfold ae_served. rewrite ae_remaining_end. rewrite Z.ltb_lt. lia. Qed.

Lemma ae_bound_end : forall e, ae_bound e = ae_end e.
Proof. intros [k s t [c|] l]; cbn; [|reflexivity]. destruct (Z.ltb_spec (s + t) c); lia. Qed.

Lemma ae_end_le_cut : forall e c, ae_cut e = Some c -> ae_end e <= c.
Proof. intros [k s t [c'|] l] c H; cbn in *; inversion H; subst. lia. Qed.

(* the 5 s floor never lifts an entry past its cut *)
Lemma floor_does_not_beat_cut : forall key now msg_ttl c lin, ae_end (mk_ae key now (admit_ttl msg_ttl) (Some c) lin) <= c.
Proof. intros. cbn. lia. Qed.

(* ------------------------------------------------------------ resolver.minRRSetTTL

   translated from the source on every run (range loop over []dns.RR, the interface as the sum type I_RR, rr.Header()
   exact for every dynamic type): it computes the model's [rrset_min_ttl] of the records' TTLs *)
Definition rr_ttl (rr : I_RR) : N := T_RR_Header_Ttl (I_RR_Header rr).

Fixpoint min_walk (i : nat) (l : list I_RR) (m : N) : N :=
  match l with
  | [] => m
  | rr :: r => min_walk (S i) r (if (Nat.eqb i 0) || (rr_ttl rr <? m)%N then rr_ttl rr else m)
  end.

Lemma go_idx_middle : forall (pre : list I_RR) rr suf, go_idx I_RR_nil (pre ++ rr :: suf) (Z.of_nat (length pre)) = rr.
Proof.
  intros. rewrite go_idx_nth by lia. rewrite Nat2Z.id. apply nth_middle.
Qed.

Lemma min_loop_suffix : forall suf pre lf rrs m, (length suf < lf)%nat ->
  go_minRRSetTTL_loop1 (pre ++ suf) lf (Z.of_nat (length pre)) rrs m = (GoNext, (rrs, min_walk (length pre) suf m)).
Proof.
  induction suf as [|rr r IH]; intros pre lf rrs m Hlf; (destruct lf as [|lf]; [cbn in Hlf; lia|]); cbn [go_minRRSetTTL_loop1].
  - rewrite app_nil_r. unfold go_len. rewrite Z.ltb_irrefl. reflexivity.
  - assert (Hlt : Z.of_nat (length pre) <? go_len (pre ++ rr :: r) = true).
    { apply Z.ltb_lt. unfold go_len. rewrite app_length. cbn [length]. lia. }
    rewrite Hlt. rewrite go_idx_middle. cbn [min_walk]. fold (rr_ttl rr).
    assert (E : Z.eqb (Z.of_nat (length pre)) 0 = Nat.eqb (length pre) 0).
    { destruct (length pre); cbn; reflexivity. }
    rewrite E.
    replace (pre ++ rr :: r) with ((pre ++ [rr]) ++ r) by (rewrite <- app_assoc; reflexivity).
    replace (Z.of_nat (length pre) + 1) with (Z.of_nat (length (pre ++ [rr]))) by (rewrite app_length; cbn [length]; lia).
    replace (S (length pre)) with (length (pre ++ [rr])) by (rewrite app_length; cbn [length]; lia).
    cbn [length] in Hlf.
    destruct (Nat.eqb (length pre) 0 || (rr_ttl rr <? m)%N); apply IH; lia.
Qed.

Lemma min_walk_pos : forall l i m, (0 < i)%nat -> min_walk i l m = fold_left N.min (map rr_ttl l) m.
Proof.
  induction l as [|rr r IH]; intros i m Hi; cbn [min_walk map fold_left]; [reflexivity|].
  destruct i as [|i]; [lia|]. cbn [Nat.eqb orb]. rewrite IH by lia. f_equal.
  destruct (N.ltb_spec (rr_ttl rr) m); lia.
Qed.

Lemma fold_min_of_N : forall l m, Z.of_N (fold_left N.min l m) = fold_left Z.min (map Z.of_N l) (Z.of_N m).
Proof. induction l as [|x r IH]; intros m; cbn; [reflexivity|]. rewrite IH. f_equal. lia. Qed.

Lemma gen_minRRSetTTL : forall rrs,
  Z.of_N (go_minRRSetTTL rrs) = rrset_min_ttl (map (fun rr => Z.of_N (rr_ttl rr)) rrs).
Proof.
  intro rrs. unfold go_minRRSetTTL.
  pose proof (min_loop_suffix rrs [] (S (length rrs)) rrs 0%N (Nat.lt_succ_diag_r _)) as H.
  cbn [app length Z.of_nat] in H. rewrite H.
  destruct rrs as [|rr r]; [reflexivity|].
  cbn [min_walk Nat.eqb orb map rrset_min_ttl]. rewrite min_walk_pos by lia. rewrite fold_min_of_N.
  rewrite map_map. reflexivity.
Qed.

(* non-vacuity: a DS set of three records of different dynamic types (a DS, an NS, one outside the list) *)
Example ex_minRRSetTTL :
  let h t := mk_T_RR_Header [] 43 1 t 0 in
  go_minRRSetTTL [I_RR_of_DS (mk_T_DS (h 600%N) 1 13 2 []); I_RR_of_NS (mk_T_NS (h 30%N) []); I_RR_other 99 (h 300%N)] = 30%N /\
  go_minRRSetTTL [] = 0%N /\ go_minRRSetTTL [I_RR_other 7 (h 0%N); I_RR_other 7 (h 5%N)] = 0%N.
Proof. vm_compute. repeat split. Qed.

(* ------------------------------------------------------------ Resolver.extractDelegationInfo, the loop

   translated from the source on every run (loopfunc: range loop over resp.Ns with a type switch on dns.RR as a sum
   type; flags nonnil_pointers - the loop is described from the state in which the first NS record has anchored the
   RRset, `info.nsRecord == nil` reads false -, ascii_strings, map_fields): under the representation [di_rep] (anchor
   owner and class, TTL, the two flags; the host set is carried along and not related) it runs the model's
   [deleg_step] over the section *)
Definition rr_kind (rr : I_RR) : rrk :=
  match rr with
  | I_RR_of_SOA _ => KSoa
  | I_RR_of_NS v => KNs (T_RR_Header_Name (T_NS_Hdr v)) (T_RR_Header_Class (T_NS_Hdr v)) (T_RR_Header_Ttl (T_NS_Hdr v))
  | _ => KOther
  end.
Definition di_rep (i : T_delegationInfo) (d : dinfo) : Prop :=
  T_RR_Header_Name (T_NS_Hdr (T_delegationInfo_nsRecord i)) = di_owner d /\
  T_RR_Header_Class (T_NS_Hdr (T_delegationInfo_nsRecord i)) = di_class d /\
  T_delegationInfo_nsTTL i = di_ttl d /\ T_delegationInfo_hasSOA i = di_soa d /\ T_delegationInfo_incoherent i = di_incoh d.

Lemma go_idx_mid : forall (pre : list I_RR) rr suf, go_idx I_RR_nil (pre ++ rr :: suf) (Z.of_nat (length pre)) = rr.
Proof. intros. rewrite go_idx_nth by lia. rewrite Nat2Z.id. apply nth_middle. Qed.

Lemma deleg_loop_suffix : forall suf pre lf resp i d, (length suf < lf)%nat -> di_rep i d ->
  exists i', go_Resolver_extractDelegationInfo_loop1 (pre ++ suf) lf (Z.of_nat (length pre)) resp i = (GoNext, (resp, i')) /\
             di_rep i' (fold_left deleg_step (map rr_kind suf) d).
Proof.
  induction suf as [|rr r IH]; intros pre lf resp i d Hlf Hrep; (destruct lf as [|lf]; [cbn in Hlf; lia|]);
    cbn [go_Resolver_extractDelegationInfo_loop1].
  - rewrite app_nil_r. unfold go_len. rewrite Z.ltb_irrefl. exists i. split; [reflexivity|exact Hrep].
  - assert (Hlt : Z.of_nat (length pre) <? go_len (pre ++ rr :: r) = true).
    { apply Z.ltb_lt. unfold go_len. rewrite app_length. cbn [length]. lia. }
    rewrite Hlt, go_idx_mid. cbn [map fold_left].
    assert (Hnext : forall i1 d1, di_rep i1 d1 ->
      exists i', go_Resolver_extractDelegationInfo_loop1 (pre ++ rr :: r) lf (Z.of_nat (length pre) + 1) resp i1 = (GoNext, (resp, i')) /\
                 di_rep i' (fold_left deleg_step (map rr_kind r) d1)).
    { intros i1 d1 H1.
      replace (pre ++ rr :: r) with ((pre ++ [rr]) ++ r) by (rewrite <- app_assoc; reflexivity).
      replace (Z.of_nat (length pre) + 1) with (Z.of_nat (length (pre ++ [rr]))) by (rewrite app_length; cbn [length]; lia).
      apply IH; [cbn [length] in Hlf; lia|exact H1]. }
    destruct Hrep as (Ho & Hc & Ht & Hs & Hi).
    destruct rr as [|v|v|v|tag hdr]; cbn [rr_kind deleg_step]; try (apply Hnext; repeat split; assumption).
    unfold go_NS_Header. rewrite Ho, Hc.
    destruct (negb (go_equal_fold_ascii (T_RR_Header_Name (T_NS_Hdr v)) (di_owner d)) ||
                negb (T_RR_Header_Class (T_NS_Hdr v) =? di_class d)%N).
    + apply Hnext. repeat split; cbn; assumption.
    + rewrite Ht. destruct (T_RR_Header_Ttl (T_NS_Hdr v) <? di_ttl d)%N; apply Hnext; repeat split; cbn; assumption.
Qed.

Lemma gen_extract_delegation_loop : forall resp i d, di_rep i d ->
  exists i', go_Resolver_extractDelegationInfo_loop1_run resp i = (GoNext, (resp, i')) /\
             di_rep i' (fold_left deleg_step (map rr_kind (T_Msg_Ns resp)) d).
Proof.
  intros resp i d H. unfold go_Resolver_extractDelegationInfo_loop1_run.
  exact (deleg_loop_suffix (T_Msg_Ns resp) [] (S (length (T_Msg_Ns resp))) resp i d (Nat.lt_succ_diag_r _) H).
Qed.

(* the model's fold: the anchor's owner and class never change, the TTL is the minimum over the anchor and every NS
   record of the anchored owner and class, records of another owner / class only raise the flag *)
Definition ns_coherent (d : dinfo) (k : rrk) : bool :=
  match k with KNs o c _ => go_equal_fold_ascii o (di_owner d) && (c =? di_class d)%N | _ => false end.
Lemma deleg_fold_shape : forall ks d,
  let d' := fold_left deleg_step ks d in
  di_owner d' = di_owner d /\ di_class d' = di_class d /\
  di_ttl d' = fold_left N.min (flat_map (fun k => match k with KNs _ _ t => if ns_coherent d k then [t] else [] | _ => [] end) ks) (di_ttl d) /\
  di_incoh d' = di_incoh d || existsb (fun k => match k with KNs _ _ _ => negb (ns_coherent d k) | _ => false end) ks /\
  di_soa d' = di_soa d || existsb (fun k => match k with KSoa => true | _ => false end) ks.
Proof.
  induction ks as [|k r IH]; intros d; cbn [fold_left flat_map existsb].
  - rewrite !orb_false_r. repeat split.
  - specialize (IH (deleg_step d k)). cbn zeta in IH. destruct IH as (Ho & Hc & Ht & Hi & Hs).
    assert (Eo : di_owner (deleg_step d k) = di_owner d /\ di_class (deleg_step d k) = di_class d).
    { destruct k as [|o c t|]; cbn [deleg_step]; [split; reflexivity| |split; reflexivity].
      destruct (negb (go_equal_fold_ascii o (di_owner d)) || negb (c =? di_class d)%N); split; reflexivity. }
    destruct Eo as [Eo Ec].
    assert (Ecoh : forall k', ns_coherent (deleg_step d k) k' = ns_coherent d k').
    { intros [|o c t|]; cbn; try reflexivity. rewrite Eo, Ec. reflexivity. }
    rewrite Ho, Hc, Ht, Hi, Hs. split; [exact Eo|]. split; [exact Ec|].
    split; [|split].
    + assert (EF : flat_map (fun k0 => match k0 with KNs _ _ t => if ns_coherent (deleg_step d k) k0 then [t] else [] | _ => [] end) r =
                   flat_map (fun k0 => match k0 with KNs _ _ t => if ns_coherent d k0 then [t] else [] | _ => [] end) r).
      { apply flat_map_ext. intros [|o c t|]; try reflexivity. rewrite Ecoh. reflexivity. }
      rewrite EF.
      destruct k as [|o c t|]; cbn [deleg_step di_ttl app ns_coherent]; try reflexivity.
      destruct (go_equal_fold_ascii o (di_owner d)); destruct (c =? di_class d)%N; cbn; try reflexivity.
      f_equal. destruct (N.ltb_spec t (di_ttl d)); lia.
    + assert (EE : existsb (fun k0 => match k0 with KNs _ _ _ => negb (ns_coherent (deleg_step d k) k0) | _ => false end) r =
                   existsb (fun k0 => match k0 with KNs _ _ _ => negb (ns_coherent d k0) | _ => false end) r).
      { clear - Ecoh. induction r as [|x r' IHr]; [reflexivity|]. cbn [existsb]. rewrite IHr. f_equal.
        destruct x as [|o c t|]; try reflexivity. rewrite Ecoh. reflexivity. }
      rewrite EE.
      destruct k as [|o c t|]; cbn [deleg_step di_incoh ns_coherent]; try (rewrite ?orb_false_r; reflexivity).
      destruct (go_equal_fold_ascii o (di_owner d)); destruct (c =? di_class d)%N; cbn; rewrite ?orb_false_r, ?orb_true_r; reflexivity.
    + destruct k as [|o c t|]; cbn [deleg_step di_soa existsb]; rewrite ?orb_false_r, ?orb_true_r; try reflexivity.
      destruct (negb (go_equal_fold_ascii o (di_owner d)) || negb (c =? di_class d)%N); cbn; reflexivity.
Qed.

(* non-vacuity: an authority section SOA?, NS a (TTL 600), NS A (300, other case), NS b (5, another owner), NS a class 3 *)
Example ex_deleg_fold :
  let a := [97%N] in let ns o c t := KNs o c t in
  let d := fold_left deleg_step [ns [65%N] 1%N 300%N; ns [98%N] 1%N 5%N; KSoa; ns a 3%N 1%N; KOther] (deleg_anchor false a 1 600) in
  (di_ttl d, di_incoh d, di_soa d) = (300%N, true, true).
Proof. vm_compute. reflexivity. Qed.
