(* C08 — property theorems only.  Each is closed by [exact <lemma>] so that it cannot be
   quietly weakened; lemmas live in Proofs_*.v, the model in Model.v, Gen/C08.v is
   regenerated from /repo on every run.

   Reading guide.  [run fx acts st_init] is the state after ANY finite sequence of the
   modelled atomic steps (seeds, referrals with arbitrary content and clock readings,
   admissions, cache hits, folds, removals) from empty caches; [code_fx] (= true) selects
   the step function of the code as it is since fix commit c959b0e; the pre-fix variant
   ([fx = false]) survives only in the regression examples of Proofs_thm.v.  A lineage
   element [l] is one parent-side referral; [l_code l] is the deadline the code derives
   for it (observed + min(NS TTL, DS TTL), limited by every shallower cut on the path);
   [l_spec l] is the lease the property grants: [l_code l] further limited by
   observed + 12 h (for the code as it is the two coincide: [code_lease_is_granted_lease]). *)
From Sdns Require Import Common.Base Common.GoList Gen.C08 C08.Model C08.Proofs_base C08.Proofs_inv C08.Proofs_thm C08.Proofs_chase.
Open Scope Z_scope.

(* ---- translator ties *)

Theorem lease_ceiling_is_12h :
  authority_maximum_ttl = 12 * 3600 * 1000000000 /\ set_until_ceiling = authority_maximum_ttl /\ set_ceiling = authority_maximum_ttl.
Proof. exact gen_lease_ceiling. Qed.
Print Assumptions lease_ceiling_is_12h.

Theorem lease_units_are_seconds : ns_ttl_unit = 1000000000 /\ ds_ttl_unit = 1000000000 /\ provisional_cap = 60 * 1000000000.
Proof. exact gen_ttl_units. Qed.
Print Assumptions lease_units_are_seconds.

Theorem ttl_manager_is_clamp : forall tm x, T_TTLManager_min tm <= T_TTLManager_max tm ->
  go_TTLManager_Calculate tm x = Z.max (T_TTLManager_min tm) (Z.min x (T_TTLManager_max tm)).
Proof. exact gen_TTLManager_Calculate. Qed.
Print Assumptions ttl_manager_is_clamp.

Theorem answer_cache_floor_and_ceiling :
  (min_cache_ttl = 5 * 1000000000 /\ max_cache_ttl = 24 * 3600 * 1000000000) /\
  (cache_max_ttl = max_cache_ttl /\ cache_min_ttl = min_cache_ttl).
Proof. exact (conj gen_cache_bounds gen_cache_bounds_src). Qed.
Print Assumptions answer_cache_floor_and_ceiling.

(* resolver.minNonZero and resolver.minCut, translated from the source on every run, are the model's *)
Theorem minNonZero_is_model : forall a b, nz a -> nz b -> go_minNonZero (ot a) (ot b) = ot (min_nonzero a b).
Proof. exact gen_minNonZero. Qed.
Print Assumptions minNonZero_is_model.

Theorem minCut_is_model : forall (kf : zone -> N) a b ka kb,
  nz (cut_time a) -> nz (cut_time b) ->
  (forall t z, a = Some (t, z) -> ka = kf z) -> (forall t z, b = Some (t, z) -> kb = kf z) ->
  let r := go_minCut (ot (cut_time a)) ka (ot (cut_time b)) kb in
  fst r = ot (cut_time (min_cut a b)) /\ (forall t z, min_cut a b = Some (t, z) -> snd r = kf z).
Proof. exact gen_minCut. Qed.
Print Assumptions minCut_is_model.

(* middleware.ResponseMeta.BoundCutFor - the request tree's sink every noteCut / cache hit / fold goes through -
   translated from the source on every run, is the model's [bound_cut] (ignore an unbounded deadline; replace
   when unset or strictly earlier; the identity travels with the winning deadline) *)
Theorem bound_cut_for_is_model : forall (kf : zone -> N) m mc d kd,
  nz (cut_time mc) -> nz (cut_time d) -> meta_rep kf m mc ->
  (forall t z, d = Some (t, z) -> kd = kf z) ->
  meta_rep kf (go_ResponseMeta_BoundCutFor m (ot (cut_time d)) kd) (bound_cut mc d).
Proof. exact gen_bound_cut_for. Qed.
Print Assumptions bound_cut_for_is_model.

(* ... and the fold-back of a forked sub-query's cut as the code writes it (child.Cut() handed to
   parent.BoundCutFor: subQueryLineage.inherit, the DNAME leg in Resolver.answer) is the cut part of the model's AFold *)
Theorem fold_back_is_model : forall (kf : zone -> N) p c cp cc,
  nz (cut_time cp) -> nz (cut_time cc) -> meta_rep kf p cp -> meta_rep kf c cc ->
  meta_rep kf (go_ResponseMeta_BoundCutFor p (fst (go_ResponseMeta_Cut c)) (snd (go_ResponseMeta_Cut c))) (bound_cut cp cc).
Proof. exact gen_fold_back. Qed.
Print Assumptions fold_back_is_model.

(* cache.subQueryLineage.inherit itself (the cache layer's fold: every chased alias target), translated from the
   source on every run for non-nil metas: the first call leaves in the parent sink the model's fold of the two cuts and
   marks the lineage; the child is untouched; every later call is the identity (the idempotence the merge and the
   NXDOMAIN / NODATA branches rely on when both run) *)
Theorem lineage_inherit_is_model : forall (kf : zone -> N) l cp cc,
  nz (cut_time cp) -> nz (cut_time cc) ->
  meta_rep kf (T_subQueryLineage_parent l) cp -> meta_rep kf (T_subQueryLineage_child l) cc ->
  let l' := go_subQueryLineage_inherit l in
  T_subQueryLineage_inherited l' = true /\ T_subQueryLineage_child l' = T_subQueryLineage_child l /\
  meta_rep kf (T_subQueryLineage_parent l') (if T_subQueryLineage_inherited l then cp else bound_cut cp cc) /\
  go_subQueryLineage_inherit l' = l'.
Proof. exact gen_lineage_inherit. Qed.
Print Assumptions lineage_inherit_is_model.

(* the alias chase issues at most cnameDepth = 10 sub-queries per level, nested at most maxCnameChaseDepth = 10 deep *)
Theorem chase_depth_is_10 : cname_chase_depth = 10 /\ max_cname_chase_depth = 10.
Proof. exact gen_chase_depth. Qed.
Print Assumptions chase_depth_is_10.

(* resolver.minRRSetTTL (the "DS TTL" of the lease: processDelegation applies it to the DS set validation retained),
   translated from the source on every run - a range loop over []dns.RR with dns.RR as a sum type - is the model's
   [rrset_min_ttl]: the smallest TTL of the set, 0 for the empty set, whatever the records' dynamic types *)
Theorem minRRSetTTL_is_model : forall rrs,
  Z.of_N (go_minRRSetTTL rrs) = rrset_min_ttl (map (fun rr => Z.of_N (rr_ttl rr)) rrs).
Proof. exact gen_minRRSetTTL. Qed.
Print Assumptions minRRSetTTL_is_model.

(* Resolver.extractDelegationInfo (where the "NS TTL" of the lease comes from), the loop over the referral's authority
   section translated from the source on every run (loopfunc; dns.RR as a sum type, the host set as an association
   list): from any state in which the first NS record has anchored the RRset, it runs the model's [deleg_step] over the
   section - under [di_rep]: anchor owner and class, TTL, hasSOA, incoherent (the host set is not related).  The
   anchoring branch itself (`info.nsRecord == nil`: three assignments) is hand-copied ([deleg_anchor]). *)
Theorem extractDelegationInfo_loop_is_model : forall resp i d, di_rep i d ->
  exists i', go_Resolver_extractDelegationInfo_loop1_run resp i = (GoNext, (resp, i')) /\
             di_rep i' (fold_left deleg_step (map rr_kind (T_Msg_Ns resp)) d).
Proof. exact gen_extract_delegation_loop. Qed.
Print Assumptions extractDelegationInfo_loop_is_model.

(* ... and what that fold computes: the lease TTL is the MINIMUM over the anchor and every NS record of the anchored
   owner (ASCII case folding) and class; a record of another owner or class never enters it and marks the referral
   incoherent (validReferral then rejects it); an SOA anywhere is noted ([ex_deleg_fold]) *)
Theorem referral_ttl_is_minimum_of_the_coherent_rrset : forall ks d,
  let d' := fold_left deleg_step ks d in
  di_owner d' = di_owner d /\ di_class d' = di_class d /\
  di_ttl d' = fold_left N.min (flat_map (fun k => match k with KNs _ _ t => if ns_coherent d k then [t] else [] | _ => [] end) ks) (di_ttl d) /\
  di_incoh d' = di_incoh d || existsb (fun k => match k with KNs _ _ _ => negb (ns_coherent d k) | _ => false end) ks /\
  di_soa d' = di_soa d || existsb (fun k => match k with KSoa => true | _ => false end) ks.
Proof. exact deleg_fold_shape. Qed.
Print Assumptions referral_ttl_is_minimum_of_the_coherent_rrset.

(* cache.CacheEntry.remaining (the one place that decides how long a stored answer is served), translated
   from the source on every run, is the model's: TTL minus age, cut short by the inherited cut *)
Theorem entry_remaining_is_model : forall e now, go_CacheEntry_remaining e now = ae_remaining (ae_of e) now.
Proof. exact gen_CacheEntry_remaining. Qed.
Print Assumptions entry_remaining_is_model.

(* ---- lease_def: what an uncached descent stores, and that a Get after it misses *)

Theorem lease_def : forall fx st i r rs, plain_miss st i r rs ->
  let cd := child_deadline fx rs r in
  let lin := mk_lrec (r_zone r) (r_obs r) (lease_ttl r) cd :: rs_lin rs in
  st_dc (process_delegation fx st i r) (r_zone r) =
    (if cd <=? r_store r then st_dc st (r_zone r)
     else Some (mk_deleg (Z.min cd (r_store r + max_ttl)) (r_srv r) lin)) /\
  cd = (let base := match cut_time (rs_cut rs) with
                    | Some c => Z.min c (r_obs r + lease_ttl r)
                    | None => r_obs r + lease_ttl r
                    end in
        if fx then Z.min base (r_obs r + max_ttl) else base).
Proof. exact lease_def_lemma. Qed.
Print Assumptions lease_def.

(* the same with provisional NS-lookup entries in play: the final store replaces them; if it is skipped
   (deadline already past on the cache's clock) what is left under the key is the old entry or a provisional
   one, and a provisional entry ends within the inherited deadline and within one minute of its own store *)
Theorem lease_def_with_provisional : forall fx st i r rs, miss_with_provisional st i r rs ->
  let cd := child_deadline fx rs r in
  let lin := mk_lrec (r_zone r) (r_obs r) (lease_ttl r) cd :: rs_lin rs in
  st_dc (process_delegation fx st i r) (r_zone r) =
    (if cd <=? r_store r then provisional (st_dc st) (r_zone r) (r_srv r) lin cd (r_prov r) (r_zone r)
     else Some (mk_deleg (Z.min cd (r_store r + max_ttl)) (r_srv r) lin)).
Proof. exact lease_def_general. Qed.
Print Assumptions lease_def_with_provisional.

Theorem provisional_entry_bounded : forall ps c z srv lin cd k d,
  provisional c z srv lin cd ps k = Some d ->
  c k = Some d \/ (k = z /\ d_exp d <= cd /\ (exists tn tc, In (tn, tc) ps /\ d_exp d <= tn + provisional_cap /\ tc < d_exp d)).
Proof. exact provisional_cases_cap. Qed.
Print Assumptions provisional_entry_bounded.

(* a nameserver address lookup that aborts the descent (the client's cancellation, a deadline, the recursion
   work limit) or leaves no usable server: the final store never happens, and what is then found under the key
   is what was there before or a provisional entry that ends within the inherited deadline - within every
   shallower delegation's lease, within observed + min(NS TTL, DS TTL), within observed + 12 h - and within one
   minute of its own filing.  (Seeded changes C08-2 / C08-7 break exactly this: a provisional entry bounded by the
   referral's own lease survives the ancestor's.) *)
Theorem aborted_lookup_leaves_bounded_entry : forall fx st i r rs d,
  st_rs st i = Some rs ->
  valid_referral (r_coherent r) (r_zone r) (rs_zone rs) (rs_q rs) = true ->
  r_valid r = true -> r_pdet r = false ->
  dc_get (st_dc st) (r_get r) (r_zone r) = None ->
  r_abort r || negb (r_reach r) = true ->
  st_dc (process_delegation fx st i r) (r_zone r) = Some d -> st_dc st (r_zone r) <> Some d ->
  d_exp d <= child_deadline fx rs r /\
  (forall c, cut_time (rs_cut rs) = Some c -> d_exp d <= c) /\
  d_exp d <= r_obs r + lease_ttl r /\
  (fx = true -> d_exp d <= r_obs r + max_ttl) /\
  exists tn tc, In (tn, tc) (r_prov r) /\ d_exp d <= tn + provisional_cap /\ tc < d_exp d.
Proof. exact aborted_lookup_lemma. Qed.
Print Assumptions aborted_lookup_leaves_bounded_entry.

(* a referral racing a cached descent: when another resolution has stored the delegation meanwhile, nothing
   is written and the descent (and the request tree) keeps the SHORTER of the cached lease and the deadline
   of the referral just observed *)
Theorem racing_referral_keeps_shorter_deadline : forall fx st i r rs cached,
  st_rs st i = Some rs ->
  valid_referral (r_coherent r) (r_zone r) (rs_zone rs) (rs_q rs) = true ->
  r_valid r = true -> r_pdet r = false ->
  dc_get (st_dc st) (r_get r) (r_zone r) = Some cached ->
  let st' := process_delegation fx st i r in
  st_dc st' = st_dc st /\
  exists rs', st_rs st' i = Some rs' /\ rs_zone rs' = r_zone r /\ rs_srv rs' = d_srv cached /\
              cut_time (rs_cut rs') = Some (Z.min (child_deadline fx rs r) (d_exp cached)) /\
              cut_le (mt_cut (st_meta st' (rs_tree rs))) (Z.min (child_deadline fx rs r) (d_exp cached)).
Proof. exact cached_branch_lemma. Qed.
Print Assumptions racing_referral_keeps_shorter_deadline.

Theorem lease_within_every_limit : forall fx st i r rs d, plain_miss st i r rs ->
  st_dc (process_delegation fx st i r) (r_zone r) = Some d -> st_dc st (r_zone r) <> Some d ->
  d_exp d <= r_obs r + r_ns_ttl r * 1000000000 /\
  (forall ds, r_ds_ttl r = Some ds -> d_exp d <= r_obs r + ds * 1000000000) /\
  (forall c, cut_time (rs_cut rs) = Some c -> d_exp d <= c) /\
  d_exp d <= r_store r + max_ttl /\
  r_store r < d_exp d /\
  (fx = true -> d_exp d <= r_obs r + max_ttl).
Proof. exact lease_bounds. Qed.
Print Assumptions lease_within_every_limit.

Theorem get_after_expiry_misses : forall c now k d, c k = Some d -> d_exp d <= now -> dc_get c now k = None.
Proof. exact dc_get_expired. Qed.
Print Assumptions get_after_expiry_misses.

(* the 12 h ceiling counts from the observation instant, whatever the validation / lookup latency *)
Theorem lease_ceiling_from_observation : forall st i r rs d, plain_miss st i r rs ->
  st_dc (process_delegation code_fx st i r) (r_zone r) = Some d -> st_dc st (r_zone r) <> Some d ->
  d_exp d <= r_obs r + max_ttl.
Proof. exact lease_ceiling_code. Qed.
Print Assumptions lease_ceiling_from_observation.

(* ---- lease_not_extendable *)

(* whatever ends up under key z was put there by processDelegation handling a coherent,
   validated referral FOR z, received from servers of a zone strictly above z, on the path
   to the name being resolved, at a moment when no live entry for z existed; and it ends
   within that referral's own deadline *)
Theorem only_a_parent_side_referral_writes : forall fx a st z d,
  st_dc (step fx a st) z = Some d -> st_dc st z <> Some d ->
  exists i r rs, a = ARefer i r /\ r_zone r = z /\ st_rs st i = Some rs /\
                 strict_above (rs_zone rs) z = true /\ is_prefix z (rs_q rs) = true /\ r_coherent r = true /\
                 r_valid r = true /\
                 dc_get (st_dc st) (r_get r) z = None /\
                 d_exp d <= child_deadline fx rs r /\ d_srv d = r_srv r.
Proof. exact step_writes_key. Qed.
Print Assumptions only_a_parent_side_referral_writes.

(* every history of child behaviours and client queries that contains no referral for z:
   the delegation for z is the one that was there (same expiry, same servers), or gone *)
Theorem lease_not_extendable : forall fx z acts st,
  forallb (fun a => negb (is_referral_for z a)) acts = true ->
  match st_dc (run fx acts st) z with
  | Some d => st_dc st z = Some d
  | None => True
  end.
Proof. exact no_referral_no_change. Qed.
Print Assumptions lease_not_extendable.

(* ... and a referral for z is only ever accepted from strictly above: what z's own servers
   (or anything below, beside or above them) say about z is rejected *)
Theorem self_upward_sideways_rejected : forall coh ref auth q,
  (ref = auth \/ is_prefix ref auth = true \/ is_prefix ref q = false) -> valid_referral coh ref auth q = false.
Proof. exact junk_referral_rejected. Qed.
Print Assumptions self_upward_sideways_rejected.

(* ---- follows_parent_after_lease *)

(* once the lease the parent granted through l has run out (t >= l_spec l), and everything cached at
   or below z was learned through l (no newer referral from the parent side): the next resolution of a
   name under z starts at servers of a zone strictly above z, and nothing learned through l is served *)
Theorem follows_parent_after_lease : forall acts st l z now q is_ds,
  st = run code_fx acts st_init -> l_spec l <= now -> z <> [] -> is_prefix z q = true ->
  (forall k d, is_prefix z k = true -> st_dc st k = Some d -> In l (d_lin d)) ->
  strict_above (m_zone (search_cache (st_dc st) now q is_ds)) z = true /\
  (forall e, In e (st_ans st) -> In l (ae_lin e) -> ae_served e now = false).
Proof. exact follows_parent_repaired. Qed.
Print Assumptions follows_parent_after_lease.

(* ---- learned_through_dies_with_lease *)

(* every answer / denial / DS / DNSKEY and every deeper delegation learned through a parent-side
   referral l has ended by the lease the property grants for l — longer own TTL, background refresh,
   cache hits of other material and the 5 s floor notwithstanding; for every history *)
Theorem learned_through_dies_with_lease : forall acts st, st = run code_fx acts st_init ->
  (forall e l, In e (st_ans st) -> In l (ae_lin e) -> ae_end e <= l_spec l) /\
  (forall z d l, st_dc st z = Some d -> In l (d_lin d) -> d_exp d <= l_spec l).
Proof. exact learned_through_fixed. Qed.
Print Assumptions learned_through_dies_with_lease.

(* ... and so has everything the DERIVED denial stores keep: a validated denial admitted under a request tree is also
   filed in the RFC 8020 cut store (it denies every name below the denied one) and in the RFC 8198 proof index (it
   denies every name its NSEC / NSEC3 records cover) - both answer other questions without asking anybody.  What they
   file under a tree at [now] for a proof that allows [ttl] ends at [derived_end] = min(now + ttl, the tree's cut): within
   the granted lease of every parent-side referral the tree learned anything through, whatever the proof's own TTL,
   for every history.  (Driver `sec`: the real stores' expiries against this, and no old proof served after the lease.) *)
Theorem derived_denial_dies_with_lease : forall acts st, st = run code_fx acts st_init ->
  forall tree now ttl l, In l (mt_lin (st_meta st tree)) ->
  derived_end st tree now ttl <= l_spec l /\ derived_end st tree now ttl <= now + ttl /\
  l_spec l = l_code l /\ l_code l <= l_obs l + l_ttl l.
Proof. exact derived_dies_fixed. Qed.
Print Assumptions derived_denial_dies_with_lease.

(* the deadline the code derives is the granted lease, for every referral in every lineage *)
Theorem code_lease_is_granted_lease : forall acts st, st = run code_fx acts st_init ->
  (forall e l, In e (st_ans st) -> In l (ae_lin e) -> l_spec l = l_code l /\ l_code l <= l_obs l + l_ttl l) /\
  (forall z d l, st_dc st z = Some d -> In l (d_lin d) -> l_spec l = l_code l /\ l_code l <= l_obs l + l_ttl l).
Proof. exact lineage_wf_fixed. Qed.
Print Assumptions code_lease_is_granted_lease.

(* what a request tree admits carries the lineage of every resolution still on its path *)
Theorem admission_inherits_path_lineage : forall fx acts st i rs tree key ttl now,
  st = run fx acts st_init -> st_rs st i = Some rs -> rs_tree rs = tree ->
  match st_ans (step fx (AStore tree key ttl now) st) with
  | e :: _ => incl (rs_lin rs) (ae_lin e)
  | [] => False
  end.
Proof. exact store_covers_path. Qed.
Print Assumptions admission_inherits_path_lineage.

(* ... and the lineage of an alias's TARGET LEG: the leg (DNAME leg of the resolver, CNAME chase of the cache layer,
   any forked sub-query) resolves under its own tree c; once its records or its denial are part of what tree p
   assembles and its cut has been folded into p, what p admits carries both legs' lineages and ends within both
   legs' cuts.  With [learned_through_dies_with_lease] (which ranges over all histories, folds included): a
   composed answer - positive or negative - dies with the lease of EVERY delegation either leg went through.
   (Seeded change C08-9 drops the fold for negative target legs: [ex_dname_negative_leg] shows what then happens.) *)
Theorem composed_answer_inherits_target_leg : forall fx st p c key ttl now,
  match st_ans (step fx (AStore p key ttl now) (step fx (AFold p c) st)) with
  | e :: _ =>
      incl (mt_lin (st_meta st c)) (ae_lin e) /\ incl (mt_lin (st_meta st p)) (ae_lin e) /\
      (forall t, cut_time (mt_cut (st_meta st c)) = Some t -> ae_end e <= t) /\
      (forall t, cut_time (mt_cut (st_meta st p)) = Some t -> ae_end e <= t)
  | [] => False
  end.
Proof. exact composed_answer_lemma. Qed.
Print Assumptions composed_answer_inherits_target_leg.

(* The cache layer's alias chase as a whole (Cache.additionalAnswer, model [chase]): tree p issues one sub-query
   per iteration, each under its own forked tree, and inherits a sub-query's cut where its records, its NXDOMAIN
   or its NODATA proof become part of the composed reply.  Whatever the replies' shapes, however many iterations:
   what p admits afterwards carries the lineage and ends within the cut of p itself and of EVERY sub-query the loop
   issued that handed anything up ... *)
Theorem chased_answer_inherits_every_contributing_hop : forall fx depth p hops st key ttl now,
  (forall h', In h' hops -> h_tree h' <> p) ->
  match st_ans (step fx (AStore p key ttl now) (chase fx depth p hops st)) with
  | e :: _ =>
      (incl (mt_lin (st_meta st p)) (ae_lin e) /\ forall v, cut_time (mt_cut (st_meta st p)) = Some v -> ae_end e <= v) /\
      (forall h, In h (chase_used depth hops) -> chase_inherits h = true ->
         incl (mt_lin (st_meta st (h_tree h))) (ae_lin e) /\
         forall v, cut_time (mt_cut (st_meta st (h_tree h))) = Some v -> ae_end e <= v)
  | [] => False
  end.
Proof. exact chase_admission_lemma. Qed.
Print Assumptions chased_answer_inherits_every_contributing_hop.

(* ... and a sub-query that is not inherited handed nothing up: it failed, or its reply had no answer or authority
   record, no NXDOMAIN and no NODATA proof - the composed reply then holds the alias records it already had, which are
   chased again on every hit.  (Seeded change C08-12 drops the inherit of the NXDOMAIN branch: a record-less
   NXDOMAIN then hands its rcode up without its cut.) *)
Theorem unfolded_hop_hands_nothing_up : forall h, chase_inherits h = false ->
  h_err h = true \/ (h_records h = false /\ h_nx h = false /\ h_proof h = false).
Proof. exact unfolded_hop_lemma. Qed.
Print Assumptions unfolded_hop_hands_nothing_up.

(* A sub-query of the chase may be answered from the cache (the loop asks the last alias target of a reply that ends
   in an alias again, and the deeper leg has just stored that answer; or the target was cached all along).  It then
   runs under its own request tree, which the hit binds to the stored entry's lifetime.  Wherever in the loop it comes
   and whatever the other sub-queries are: when the loop inherits it, what tree p admits afterwards carries
   everything the entry e was learned through and ends no later than e itself - so with
   [learned_through_dies_with_lease] a reply composed from a cached target dies with every lease the cached
   target was learned through.  [ex_hit_hop] (Proofs_chase.v): a 30 s denial behind two aliases under hour-long
   leases - the outer entry ends at 30 s because of the second sub-query, at one hour without it. *)
Theorem cached_hop_ends_with_its_entry : forall fx depth p hops st tree idx e h key ttl now,
  nth_error (st_ans st) idx = Some e ->
  (forall h', In h' hops -> h_tree h' <> p) ->
  In h (chase_used depth hops) -> h_tree h = tree -> chase_inherits h = true ->
  match st_ans (step fx (AStore p key ttl now) (chase fx depth p hops (step fx (AHit tree idx) st))) with
  | e' :: _ => incl (ae_lin e) (ae_lin e') /\ ae_end e' <= ae_end e
  | [] => False
  end.
Proof. exact hit_hop_lemma. Qed.
Print Assumptions cached_hop_ends_with_its_entry.

(* Nesting, in general.  The sub-query for an alias target is a full request of its own: by the time it replies its
   tree c may have run a chase itself (with loops of any length), may have been bound to stored entries, may have
   descended through any delegations.  Whatever c holds then - stated as: it holds everything some tree d held in some
   earlier state st0, lineage and every bound on the cut ([meta_ext], Proofs_chase.v) - the loop that inherits c hands
   on to tree p and to what p admits.  By induction over the nesting depth: a reply composed along alias chains of any
   depth, with chase loops of any length at every level, carries the lineage and ends within the cut of every request
   tree that fed it through a run of inherited sub-queries.  (The chain driver observes exactly these runs on the real
   pipeline and compares every level's stored entry with the model's.) *)
Theorem nested_chase_hands_up_what_the_subquery_holds : forall fx depth p hops st st0 d h key ttl now,
  (forall h', In h' hops -> h_tree h' <> p) ->
  In h (chase_used depth hops) -> chase_inherits h = true ->
  meta_ext (st_meta st0 d) (st_meta st (h_tree h)) ->
  meta_ext (st_meta st0 d) (st_meta (chase fx depth p hops st) p) /\
  match st_ans (step fx (AStore p key ttl now) (chase fx depth p hops st)) with
  | e :: _ => incl (mt_lin (st_meta st0 d)) (ae_lin e) /\
              (forall v, cut_time (mt_cut (st_meta st0 d)) = Some v -> ae_end e <= v)
  | [] => False
  end.
Proof. exact nested_chase_lemma. Qed.
Print Assumptions nested_chase_hands_up_what_the_subquery_holds.

(* the chase of tree p never touches another tree's sink, and sub-queries it does not inherit leave its own as it was *)
Theorem chase_touches_only_its_own_tree : forall fx depth p hops st,
  (forall t, t <> p -> st_meta (chase fx depth p hops st) t = st_meta st t) /\
  ((forall h, In h (chase_used depth hops) -> chase_inherits h = false) ->
   st_meta (chase fx depth p hops st) p = st_meta st p).
Proof. exact chase_frame_lemma. Qed.
Print Assumptions chase_touches_only_its_own_tree.

(* Alias chains nest: the sub-query for an alias target is a full resolution whose own reply may be composed from a
   further alias leg, and so on ([fold_chain]: innermost fold first).  What the outermost tree admits carries the
   lineage and ends within the cut of EVERY leg of the chain - with [learned_through_dies_with_lease]: a reply
   composed along a chain of aliases dies with the first lease to end among all the delegations any leg went
   through.  [ex_alias_chain]: 12 h / 1 h / 30 s zones, one-hour denial at the end: all three entries end at 30 s. *)
Theorem alias_chain_inherits_every_leg : forall fx p rest st key ttl now, NoDup (p :: rest) ->
  match st_ans (step fx (AStore p key ttl now) (run fx (fold_chain p rest) st)) with
  | e :: _ =>
      forall t, In t (p :: rest) ->
        incl (mt_lin (st_meta st t)) (ae_lin e) /\
        forall v, cut_time (mt_cut (st_meta st t)) = Some v -> ae_end e <= v
  | [] => False
  end.
Proof. exact alias_chain_lemma. Qed.
Print Assumptions alias_chain_inherits_every_leg.

(* an entry is served exactly until min(stored + ttl, cut); the floor never beats the cut *)
Theorem entry_served_until_end : forall e now, ae_served e now = true <-> now < ae_end e.
Proof. exact ae_served_iff. Qed.
Print Assumptions entry_served_until_end.
