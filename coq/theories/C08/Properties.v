(* C08 — property theorems only.  Each is closed by [exact <lemma>] so that it cannot be
   quietly weakened; lemmas live in Proofs_*.v, the model in Model.v, Gen/C08.v is
   regenerated from /repo on every run.

   Reading guide.  [run fx acts st_init] is the state after ANY finite sequence of the
   modelled atomic steps (seeds, referrals with arbitrary content and clock readings,
   admissions, cache hits, folds, removals) from empty caches; [fx = false] is the code
   as it is, [fx = true] the step function with props/C08/fix.patch applied.  A lineage
   element [l] is one parent-side referral; [l_code l] is the deadline the code derives
   for it (observed + min(NS TTL, DS TTL), limited by every shallower cut on the path);
   [l_spec l] is the lease the property grants: [l_code l] further limited by
   observed + 12 h. *)
From Sdns Require Import Common.Base Gen.C08 C08.Model C08.Proofs_base C08.Proofs_inv C08.Proofs_thm.
Open Scope Z_scope.

(* ---- translator ties *)

Theorem lease_ceiling_is_12h :
  authority_maximum_ttl = 12 * 3600 * 1000000000 /\ set_until_ceiling = authority_maximum_ttl /\ set_ceiling = authority_maximum_ttl.
Proof. exact gen_lease_ceiling. Qed.
Print Assumptions lease_ceiling_is_12h.

Theorem lease_units_are_seconds : ns_ttl_unit = 1000000000 /\ ds_ttl_unit = 1000000000 /\ provisional_cap = 60 * 1000000000.
Proof. exact gen_ttl_units. Qed.
Print Assumptions lease_units_are_seconds.

Theorem ttl_manager_is_clamp : forall tm x, T_TTLManager_min tm <= T_TTLManager_max tm ->
  go_TTLManager_Calculate tm x = Z.max (T_TTLManager_min tm) (Z.min x (T_TTLManager_max tm)).
Proof. exact gen_TTLManager_Calculate. Qed.
Print Assumptions ttl_manager_is_clamp.

Theorem answer_cache_floor_and_ceiling :
  (min_cache_ttl = 5 * 1000000000 /\ max_cache_ttl = 24 * 3600 * 1000000000) /\
  (cache_max_ttl_src = [ascii_dnsutil_max] /\ cache_min_ttl_src = [ascii_dnsutil_min] /\ positive_cache_bounds_src = [ascii_min_max]).
Proof. exact (conj gen_cache_bounds gen_cache_bounds_src). Qed.
Print Assumptions answer_cache_floor_and_ceiling.

(* ---- lease_def: what an uncached descent stores, and that a Get after it misses *)

Theorem lease_def : forall fx st i r rs, plain_miss st i r rs ->
  let cd := child_deadline fx rs r in
  let lin := mk_lrec (r_zone r) (r_obs r) (lease_ttl r) cd :: rs_lin rs in
  st_dc (process_delegation fx st i r) (r_zone r) =
    (if cd <=? r_store r then st_dc st (r_zone r)
     else Some (mk_deleg (Z.min cd (r_store r + max_ttl)) (r_srv r) lin)) /\
  cd = (let base := match cut_time (rs_cut rs) with
                    | Some c => Z.min c (r_obs r + lease_ttl r)
                    | None => r_obs r + lease_ttl r
                    end in
        if fx then Z.min base (r_obs r + max_ttl) else base).
Proof. exact lease_def_lemma. Qed.
Print Assumptions lease_def.

Theorem lease_within_every_limit : forall fx st i r rs d, plain_miss st i r rs ->
  st_dc (process_delegation fx st i r) (r_zone r) = Some d -> st_dc st (r_zone r) <> Some d ->
  d_exp d <= r_obs r + r_ns_ttl r * 1000000000 /\
  (forall ds, r_ds_ttl r = Some ds -> d_exp d <= r_obs r + ds * 1000000000) /\
  (forall c, cut_time (rs_cut rs) = Some c -> d_exp d <= c) /\
  d_exp d <= r_store r + max_ttl /\
  r_store r < d_exp d /\
  (fx = true -> d_exp d <= r_obs r + max_ttl).
Proof. exact lease_bounds. Qed.
Print Assumptions lease_within_every_limit.

Theorem get_after_expiry_misses : forall c now k d, c k = Some d -> d_exp d <= now -> dc_get c now k = None.
Proof. exact dc_get_expired. Qed.
Print Assumptions get_after_expiry_misses.

(* the property measures the 12 h ceiling from the observation; the code measures it from the
   store: REFUTED for the code as it is (one second of latency = one more second of lease) *)
Theorem lease_ceiling_from_observation_refuted :
  let st := run false (witness_acts 1000000000) st_init in
  exists d l, st_dc st wz = Some d /\ d_lin d = [l] /\ l_obs l = 0 /\ d_exp d = 12 * h + 1000000000.
Proof. exact witness_ceiling_anchor. Qed.
Print Assumptions lease_ceiling_from_observation_refuted.

(* ---- lease_not_extendable *)

(* whatever ends up under key z was put there by processDelegation handling a coherent,
   validated referral FOR z, received from servers of a zone strictly above z, on the path
   to the name being resolved, at a moment when no live entry for z existed; and it ends
   within that referral's own deadline *)
Theorem only_a_parent_side_referral_writes : forall fx a st z d,
  st_dc (step fx a st) z = Some d -> st_dc st z <> Some d ->
  exists i r rs, a = ARefer i r /\ r_zone r = z /\ st_rs st i = Some rs /\
                 strict_above (rs_zone rs) z = true /\ is_prefix z (rs_q rs) = true /\ r_coherent r = true /\
                 r_valid r = true /\
                 dc_get (st_dc st) (r_get r) z = None /\
                 d_exp d <= child_deadline fx rs r /\ d_srv d = r_srv r.
Proof. exact step_writes_key. Qed.
Print Assumptions only_a_parent_side_referral_writes.

(* every history of child behaviours and client queries that contains no referral for z:
   the delegation for z is the one that was there (same expiry, same servers), or gone *)
Theorem lease_not_extendable : forall fx z acts st,
  forallb (fun a => negb (is_referral_for z a)) acts = true ->
  match st_dc (run fx acts st) z with
  | Some d => st_dc st z = Some d
  | None => True
  end.
Proof. exact no_referral_no_change. Qed.
Print Assumptions lease_not_extendable.

(* ... and a referral for z is only ever accepted from strictly above: what z's own servers
   (or anything below, beside or above them) say about z is rejected *)
Theorem self_upward_sideways_rejected : forall coh ref auth q,
  (ref = auth \/ is_prefix ref auth = true \/ is_prefix ref q = false) -> valid_referral coh ref auth q = false.
Proof. exact junk_referral_rejected. Qed.
Print Assumptions self_upward_sideways_rejected.

(* ---- follows_parent_after_lease *)

(* FULL STATEMENT (property wording): the first query at t >= l_spec l walks up to the parent
   and nothing learned through l is served.  Proved for the code relative to l_code
   (= l_spec whenever min(NS TTL, DS TTL) <= 12 h), and at full strength for the repaired step. *)
Theorem follows_parent_after_lease_partial : forall fx acts st l z now q is_ds,
  st = run fx acts st_init -> l_code l <= now -> z <> [] -> is_prefix z q = true ->
  (forall k d, is_prefix z k = true -> st_dc st k = Some d -> In l (d_lin d)) ->
  strict_above (m_zone (search_cache (st_dc st) now q is_ds)) z = true /\
  (forall e, In e (st_ans st) -> In l (ae_lin e) -> ae_served e now = false).
Proof. exact follows_parent_lemma. Qed.
Print Assumptions follows_parent_after_lease_partial.

Theorem follows_parent_after_lease_repaired : forall acts st l z now q is_ds,
  st = run true acts st_init -> l_spec l <= now -> z <> [] -> is_prefix z q = true ->
  (forall k d, is_prefix z k = true -> st_dc st k = Some d -> In l (d_lin d)) ->
  strict_above (m_zone (search_cache (st_dc st) now q is_ds)) z = true /\
  (forall e, In e (st_ans st) -> In l (ae_lin e) -> ae_served e now = false).
Proof. exact follows_parent_repaired. Qed.
Print Assumptions follows_parent_after_lease_repaired.

(* ---- learned_through_dies_with_lease *)

(* FULL STATEMENT: forall acts, let st := run false acts st_init in
     (forall e l, In e (st_ans st) -> In l (ae_lin e) -> ae_end e <= l_spec l) /\
     (forall z d l, st_dc st z = Some d -> In l (d_lin d) -> d_exp d <= l_spec l).
   REFUTED for the code as it is: the first, uncached descent notes observed + TTL without
   the 12 h ceiling (finding lease-12h-ceiling-answer-cut, DESIGN §6 F3). *)
Theorem learned_through_dies_with_lease_refuted :
  let st := run false (witness_acts 0) st_init in
  exists e l d,
    st_ans st = [e] /\ ae_lin e = [l] /\ st_dc st wz = Some d /\ d_lin d = [l] /\
    l_obs l = 0 /\ l_spec l = 12 * h /\ d_exp d = 12 * h /\ ae_end e = 24 * h /\
    dc_get (st_dc st) (12 * h + 1000000000) wz = None /\
    ae_served e (12 * h + 1000000000) = true.
Proof. exact witness_run. Qed.
Print Assumptions learned_through_dies_with_lease_refuted.

(* proved: everything learned through l (answers, denials, DS, DNSKEY, deeper delegations; longer
   own TTL, background refresh and the 5 s floor notwithstanding) has ended by l_code l ... *)
Theorem learned_through_dies_with_lease_partial : forall fx acts st, st = run fx acts st_init ->
  (forall e l, In e (st_ans st) -> In l (ae_lin e) -> ae_end e <= l_code l) /\
  (forall z d l, st_dc st z = Some d -> In l (d_lin d) -> d_exp d <= l_code l).
Proof. exact learned_through_code. Qed.
Print Assumptions learned_through_dies_with_lease_partial.

(* ... which is the granted lease whenever the referral's own TTL is within 12 h ... *)
Theorem learned_through_dies_with_lease_short_ttl : forall acts st, st = run false acts st_init ->
  forall e l, In e (st_ans st) -> In l (ae_lin e) -> l_ttl l <= max_ttl -> ae_end e <= l_spec l.
Proof. exact learned_through_short_ttl. Qed.
Print Assumptions learned_through_dies_with_lease_short_ttl.

(* ... and always with the repair *)
Theorem learned_through_dies_with_lease_repaired : forall acts st, st = run true acts st_init ->
  (forall e l, In e (st_ans st) -> In l (ae_lin e) -> ae_end e <= l_spec l) /\
  (forall z d l, st_dc st z = Some d -> In l (d_lin d) -> d_exp d <= l_spec l).
Proof. exact learned_through_fixed. Qed.
Print Assumptions learned_through_dies_with_lease_repaired.

(* what a request tree admits carries the lineage of every resolution still on its path *)
Theorem admission_inherits_path_lineage : forall fx acts st i rs tree key ttl now,
  st = run fx acts st_init -> st_rs st i = Some rs -> rs_tree rs = tree ->
  match st_ans (step fx (AStore tree key ttl now) st) with
  | e :: _ => incl (rs_lin rs) (ae_lin e)
  | [] => False
  end.
Proof. exact store_covers_path. Qed.
Print Assumptions admission_inherits_path_lineage.

(* an entry is served exactly until min(stored + ttl, cut); the floor never beats the cut *)
Theorem entry_served_until_end : forall e now, ae_served e now = true <-> now < ae_end e.
Proof. exact ae_served_iff. Qed.
Print Assumptions entry_served_until_end.
