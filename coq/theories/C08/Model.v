(* C08 — a delegation never outlives the lease its parent granted.

   Executable model, written from the Go source line by line (no proofs here):

     internal/authority/cache.go          Get / Set / SetUntil / Remove
     middleware/resolver/resolver.go      minNonZero, minCut, noteCut, searchCache (seed in
                                          resolve()), validReferral / progressingReferral,
                                          processDelegation (observedAt, NS/DS lease, minCut,
                                          noteCut, cached branch, lookupV4Nss provisional
                                          entries, SetUntil), resolveWithCachedNameservers,
                                          subQuery (SetFromResponseWithCut)
     middleware/chain.go                  ResponseMeta.BoundCutFor / Cut
     middleware/cache                     CacheEntry.remaining, boundRequestToEntryLifetime,
                                          TTLManager.Calculate (translated: Gen.C08),
                                          WriteMsg / ReplaceIfCurrent admission (cut := tree cut)

   Time is Z (nanoseconds on one virtual clock).  Go's zero time.Time, which every
   function above treats as "unbounded", is [None].  Every instant at which the code
   reads a clock is an explicit argument, so theorems quantify over all latencies
   and all interleavings of the modelled atomic steps.

   Lineage ([lrec] lists) is ghost state: it records through which parent-side
   referrals a piece of state was learned; no executable decision looks at it. *)
From Sdns Require Import Common.Base Gen.C08 Common.GoList.
Open Scope Z_scope.

(* ------------------------------------------------------------------ names *)

(* a zone / owner name: labels root-first, case-folded; [] is the root *)
Definition zone := list N.

Fixpoint zone_eqb (a b : zone) : bool :=
  match a, b with
  | [], [] => true
  | x :: a', y :: b' => N.eqb x y && zone_eqb a' b'
  | _, _ => false
  end.

(* [is_prefix z n]: n sits at or below z  (dnsname.Sub z n) *)
Fixpoint is_prefix (z n : zone) : bool :=
  match z, n with
  | [], _ => true
  | x :: z', y :: n' => N.eqb x y && is_prefix z' n'
  | _ :: _, [] => false
  end.

Definition strict_above (z n : zone) : bool := is_prefix z n && negb (zone_eqb z n).

(* name with its leftmost label removed (dns.NextLabel): the parent; the root is its own parent *)
Definition parent (n : zone) : zone := removelast n.

(* n, parent n, ..., down to (not including) the root *)
Fixpoint ancestors_desc (fuel : nat) (n : zone) : list zone :=
  match fuel with
  | O => []
  | S f => match n with [] => [] | _ => n :: ancestors_desc f (parent n) end
  end.

(* ------------------------------------------------------------------- cuts *)

(* a cut: absolute deadline and the delegation key that supplied it *)
Definition cut := option (Z * zone).

Definition cut_time (c : cut) : option Z := option_map fst c.

(* resolver.minNonZero *)
Definition min_nonzero (a b : option Z) : option Z :=
  match a, b with
  | None, _ => b
  | _, None => a
  | Some x, Some y => if x <? y then a else b
  end.

(* resolver.minCut: zero is unbounded; on equal deadlines the first wins *)
Definition min_cut (a b : cut) : cut :=
  match a, b with
  | None, _ => b
  | _, None => a
  | Some (ta, _), Some (tb, _) => if tb <? ta then b else a
  end.

(* middleware.ResponseMeta.BoundCutFor: ignore zero; replace when unset or strictly earlier *)
Definition bound_cut (m d : cut) : cut :=
  match d with
  | None => m
  | Some (td, _) =>
      match m with
      | None => d
      | Some (tm, _) => if td <? tm then d else m
      end
  end.

(* ----------------------------------------------------- delegation cache *)

Definition max_ttl : Z := authority_maximum_ttl.   (* 12 h *)

(* ghost: one parent-side referral through which something was learned *)
Record lrec := mk_lrec {
  l_zone  : zone;   (* delegated zone *)
  l_obs   : Z;      (* observedAt *)
  l_ttl   : Z;      (* min(NS TTL, DS TTL) in ns *)
  l_code  : Z       (* childDeadline = min(ancestor cut, observedAt + min(NS,DS)): what the code notes *)
}.
(* the lease the property grants: additionally the 12 h ceiling, from the observation instant *)
Definition l_spec (l : lrec) : Z := Z.min (l_code l) (l_obs l + max_ttl).

Record deleg := mk_deleg {
  d_exp : Z;            (* authority.Delegation.ExpiresAt *)
  d_srv : N;            (* identity of the *Servers set *)
  d_lin : list lrec     (* ghost *)
}.

Definition dcache := zone -> option deleg.
Definition dc_empty : dcache := fun _ => None.
Definition dc_upd (c : dcache) (k : zone) (v : option deleg) : dcache :=
  fun k' => if zone_eqb k k' then v else c k'.

Inductive getres := GHit (d : deleg) | GExpired | GNotFound.

(* authority.Cache.Get *)
Definition dc_get_res (c : dcache) (now : Z) (k : zone) : getres :=
  match c k with
  | None => GNotFound
  | Some d => if now <? d_exp d then GHit d else GExpired     (* !now.Before(ExpiresAt) -> expired *)
  end.
Definition dc_get (c : dcache) (now : Z) (k : zone) : option deleg :=
  match dc_get_res c now k with GHit d => Some d | _ => None end.

(* authority.Cache.Set *)
Definition dc_set (c : dcache) (now : Z) (k : zone) (srv : N) (lin : list lrec) (ttl : Z) : dcache :=
  if ttl <=? 0 then c
  else let ttl' := if set_ceiling <? ttl then set_ceiling else ttl in
       dc_upd c k (Some (mk_deleg (now + ttl') srv lin)).

(* authority.Cache.SetUntil *)
Definition dc_set_until (c : dcache) (now : Z) (k : zone) (srv : N) (lin : list lrec) (exp : Z) : dcache :=
  if exp <=? now then c                                        (* !expiresAt.After(now) *)
  else let ceiling := now + set_until_ceiling in
       let exp' := if ceiling <? exp then ceiling else exp in  (* expiresAt.After(ceiling) *)
       dc_upd c k (Some (mk_deleg exp' srv lin)).

(* ------------------------------------------------------------ searchCache *)

Record dmatch := mk_dmatch { m_zone : zone; m_srv : N; m_cut : cut; m_lin : list lrec }.
Definition root_srv : N := 0%N.
Definition root_match : dmatch := mk_dmatch [] root_srv None [].

Fixpoint first_live (c : dcache) (now : Z) (cands : list zone) : dmatch :=
  match cands with
  | [] => root_match
  | z :: r =>
      match dc_get c now z with
      | Some d => mk_dmatch z (d_srv d) (Some (d_exp d, z)) (d_lin d)
      | None => first_live c now r
      end
  end.

(* resolver.searchCache: DS questions start one label up; then the deepest live
   delegation at or above the name; the root (unbounded) otherwise *)
Definition search_cache (c : dcache) (now : Z) (q : zone) (is_ds : bool) : dmatch :=
  let q' := if is_ds then parent q else q in
  match q' with
  | [] => first_live c now [[]]          (* a "." question looks its own key up once *)
  | _ => first_live c now (ancestors_desc (S (length q')) q')
  end.

(* --------------------------------------------------------- referral guard *)

(* resolver.progressingReferral / validReferral: strictly below the zone asked,
   on the path to the name being resolved, one coherent RRset of the right class *)
Definition progressing_referral (referral auth_zone qname : zone) : bool :=
  is_prefix auth_zone referral && negb (zone_eqb referral auth_zone) && is_prefix referral qname.

Definition valid_referral (coherent : bool) (referral auth_zone qname : zone) : bool :=
  coherent && progressing_referral referral auth_zone qname.

(* --------------------------------------------------------- answer cache *)

Record aentry := mk_ae {
  ae_key    : N;          (* question (name, type, CD) *)
  ae_stored : Z;
  ae_ttl    : Z;
  ae_cut    : option Z;   (* CacheEntry.cutUntil, zero = None *)
  ae_lin    : list lrec   (* ghost *)
}.

(* CacheEntry.remaining *)
Definition ae_remaining (e : aentry) (now : Z) : Z :=
  let rem := ae_ttl e - (now - ae_stored e) in
  match ae_cut e with
  | None => rem
  | Some c => if (c - now) <? rem then c - now else rem
  end.
(* an entry is served iff remaining > 0 (IsExpired: remaining <= 0) *)
Definition ae_served (e : aentry) (now : Z) : bool := 0 <? ae_remaining e now.
(* its end: the first instant at which it is no longer served *)
Definition ae_end (e : aentry) : Z :=
  match ae_cut e with
  | None => ae_stored e + ae_ttl e
  | Some c => Z.min (ae_stored e + ae_ttl e) c
  end.
(* cache.boundRequestToEntryLifetime: what a hit folds into the request tree *)
Definition ae_bound (e : aentry) : Z :=
  let hard := ae_stored e + ae_ttl e in
  match ae_cut e with
  | None => hard
  | Some c => if hard <? c then hard else c          (* !cutUntil.After(hardUntil) -> cut *)
  end.

Definition positive_ttl : T_TTLManager := mk_T_TTLManager min_cache_ttl max_cache_ttl.
(* admission TTL: the 5 s floor and 24 h ceiling of the positive cache *)
Definition admit_ttl (msg_ttl : Z) : Z := go_TTLManager_Calculate positive_ttl msg_ttl.

(* ------------------------------------------------------------ resolver state *)

Record rstate := mk_rs {
  rs_zone : zone;        (* rs.servers.Zone *)
  rs_srv  : N;           (* rs.servers *)
  rs_cut  : cut;         (* rs.cutDeadline / rs.cutKey *)
  rs_tree : N;           (* the request tree (ResponseMeta sink) this resolution reports into *)
  rs_q    : zone;        (* rs.req.Question[0].Name *)
  rs_lin  : list lrec    (* ghost *)
}.

Record meta := mk_meta { mt_cut : cut; mt_lin : list lrec }.
Definition meta_empty : meta := mk_meta None [].

Record state := mk_st {
  st_dc   : dcache;
  st_rs   : N -> option rstate;    (* live resolutions (resolveState values) by id *)
  st_meta : N -> meta;             (* request trees by id *)
  st_ans  : list aentry            (* every admission, newest first *)
}.

Definition st_init : state := mk_st dc_empty (fun _ => None) (fun _ => meta_empty) [].

Definition upd_rs (f : N -> option rstate) (i : N) (v : option rstate) : N -> option rstate :=
  fun j => if N.eqb i j then v else f j.
Definition upd_meta (f : N -> meta) (i : N) (v : meta) : N -> meta :=
  fun j => if N.eqb i j then v else f j.

(* resolver.noteCut on tree t (ghost: the lineage that justified the deadline) *)
Definition note (st : state) (t : N) (c : cut) (lin : list lrec) : state :=
  let m := st_meta st t in
  mk_st (st_dc st) (st_rs st) (upd_meta (st_meta st) t (mk_meta (bound_cut (mt_cut m) c) (lin ++ mt_lin m))) (st_ans st).

(* one referral as processDelegation sees it, with every clock reading explicit *)
Record referral := mk_ref {
  r_zone     : zone;        (* owner of the NS RRset *)
  r_srv      : N;           (* the server set built from glue / NS address lookups *)
  r_coherent : bool;        (* one coherent RRset of the question's class *)
  r_ns_ttl   : Z;           (* nsInfo.nsTTL (seconds): minimum over the RRset *)
  r_ds_ttl   : option Z;    (* minRRSetTTL of the DS set retained by validation (seconds); None: no DS *)
  r_valid    : bool;        (* validateDelegation succeeded *)
  r_obs      : Z;           (* observedAt := time.Now() *)
  r_pdet     : bool;        (* rs.level > nlevel ("parent detection": this resolution is abandoned) *)
  r_get      : Z;           (* clock reading inside delegations.Get *)
  r_prov     : list (Z * Z);(* provisional entries in lookupV4Nss: (time.Now(), clock inside SetUntil) *)
  r_abort    : bool;        (* lookupV4Nss returned a fatal error (work limit, cancellation) *)
  r_reach    : bool;        (* len(authservers.List) > 0 *)
  r_anchor   : bool;        (* !r.dnssec || r.hasTrustAnchors() *)
  r_store    : Z            (* clock reading inside the final SetUntil *)
}.

(* leaseDeadline after the DS bound *)
Definition lease_deadline (r : referral) : Z :=
  let lease := r_obs r + r_ns_ttl r * ns_ttl_unit in
  match r_ds_ttl r with
  | Some d => let dsd := r_obs r + d * ds_ttl_unit in if dsd <? lease then dsd else lease
  | None => lease
  end.

Definition lease_ttl (r : referral) : Z :=
  match r_ds_ttl r with
  | Some d => Z.min (r_ns_ttl r * ns_ttl_unit) (d * ds_ttl_unit)
  | None => r_ns_ttl r * ns_ttl_unit
  end.

(* [fx]: true = the code as it is (since c959b0e the noted / descended deadline is clamped to
   observedAt + 12 h as well); false = the pre-fix variant, kept for the regression examples *)
Definition child_cut (fx : bool) (rs : rstate) (r : referral) : cut :=
  let c := min_cut (rs_cut rs) (Some (lease_deadline r, r_zone r)) in
  if fx then min_cut c (Some (r_obs r + max_ttl, r_zone r)) else c.

Definition cut_deadline (c : cut) (dflt : Z) : Z := match c with Some (t, _) => t | None => dflt end.

Fixpoint provisional (c : dcache) (z : zone) (srv : N) (lin : list lrec) (cutd : Z) (ps : list (Z * Z)) : dcache :=
  match ps with
  | [] => c
  | (tn, tc) :: r =>
      let until := match min_nonzero (Some cutd) (Some (tn + provisional_cap)) with Some u => u | None => cutd end in
      provisional (dc_set_until c tc z srv lin until) z srv lin cutd r
  end.

(* Resolver.processDelegation on resolution i *)
Definition process_delegation (fx : bool) (st : state) (i : N) (r : referral) : state :=
  match st_rs st i with
  | None => st
  | Some rs =>
      if negb (valid_referral (r_coherent r) (r_zone r) (rs_zone rs) (rs_q rs)) then st   (* errParentDetection *)
      else if negb (r_valid r) then st                                                   (* validation error *)
      else
        let child := child_cut fx rs r in
        let cd := cut_deadline child (lease_deadline r) in
        let rec_ := mk_lrec (r_zone r) (r_obs r) (lease_ttl r) cd in
        let lin := rec_ :: rs_lin rs in
        let st1 := note st (rs_tree rs) child lin in
        if r_pdet r then st1
        else
          match dc_get (st_dc st1) (r_get r) (r_zone r) with
          | Some cached =>
              (* resolveWithCachedNameservers: the shorter of the cached and the current deadline *)
              let cut' := min_cut child (Some (d_exp cached, r_zone r)) in
              let lin' := d_lin cached ++ lin in
              let rs' := mk_rs (r_zone r) (d_srv cached) cut' (rs_tree rs) (rs_q rs) lin' in
              let st2 := note st1 (rs_tree rs) cut' lin' in
              mk_st (st_dc st2) (upd_rs (st_rs st2) i (Some rs')) (st_meta st2) (st_ans st2)
          | None =>
              let dc1 := if r_anchor r then provisional (st_dc st1) (r_zone r) (r_srv r) lin cd (r_prov r) else st_dc st1 in
              if r_abort r || negb (r_reach r) then mk_st dc1 (st_rs st1) (st_meta st1) (st_ans st1)
              else
                let dc2 := if r_anchor r then dc_set_until dc1 (r_store r) (r_zone r) (r_srv r) lin cd else dc1 in
                let rs' := mk_rs (r_zone r) (r_srv r) child (rs_tree rs) (rs_q rs) lin in
                mk_st dc2 (upd_rs (st_rs st1) i (Some rs')) (st_meta st1) (st_ans st1)
          end
  end.

(* the atomic steps of the modelled system *)
Inductive act :=
| ASeed (i tree : N) (q : zone) (is_ds : bool) (now : Z)   (* resolve() entered with isRoot: searchCache, seed, noteCut *)
| ARefer (i : N) (r : referral)                            (* processDelegation *)
| AStore (tree key : N) (msg_ttl now : Z)                  (* an answer / denial / DS / DNSKEY admitted under the tree's cut:
                                                              ResponseWriter.WriteMsg, subQuery's SetFromResponseWithCut,
                                                              the prefetch worker's ReplaceIfCurrent *)
| AHit (tree : N) (idx : nat)                              (* a stored entry consumed by the tree: boundRequestToEntryLifetime *)
| AFold (parent child : N)                                 (* subQueryLineage.inherit: a forked sub-query's cut folded back *)
| ARemove (z : zone)                                       (* delegations.Remove (ErrorCount, purge) / eviction *)
| ADrop (i : N).                                           (* a resolution ends (answer, error, depth, cancellation) *)

Definition step (fx : bool) (a : act) (st : state) : state :=
  match a with
  | ASeed i tree q is_ds now =>
      let m := search_cache (st_dc st) now q is_ds in
      let rs := mk_rs (m_zone m) (m_srv m) (min_cut None (m_cut m)) tree q (m_lin m) in
      let st1 := note st tree (rs_cut rs) (m_lin m) in
      mk_st (st_dc st1) (upd_rs (st_rs st1) i (Some rs)) (st_meta st1) (st_ans st1)
  | ARefer i r => process_delegation fx st i r
  | AStore tree key msg_ttl now =>
      let m := st_meta st tree in
      mk_st (st_dc st) (st_rs st) (st_meta st)
            (mk_ae key now (admit_ttl msg_ttl) (cut_time (mt_cut m)) (mt_lin m) :: st_ans st)
  | AHit tree idx =>
      match nth_error (st_ans st) idx with
      | Some e => note st tree (Some (ae_bound e, [])) (ae_lin e)
      | None => st
      end
  | AFold p c => let mc := st_meta st c in note st p (mt_cut mc) (mt_lin mc)
  | ARemove z => mk_st (dc_upd (st_dc st) z None) (st_rs st) (st_meta st) (st_ans st)
  | ADrop i => mk_st (st_dc st) (upd_rs (st_rs st) i None) (st_meta st) (st_ans st)
  end.

Fixpoint run (fx : bool) (acts : list act) (st : state) : state :=
  match acts with
  | [] => st
  | a :: r => run fx r (step fx a st)
  end.

(* which of the two step functions describes /repo.  Since fix commit c959b0e
   (processDelegation clamps leaseDeadline to observedAt + authority.MaximumTTL before
   minCut / noteCut) the code is the [fx = true] step function; [fx = false] is kept only
   as the pre-fix variant the regression examples in Proofs_thm.v talk about. *)
Definition code_fx : bool := true.

(* the parent side re-establishing the delegation for z: the only step that may write key z *)
Definition is_referral_for (z : zone) (a : act) : bool :=
  match a with
  | ARefer _ r => zone_eqb (r_zone r) z
  | _ => false
  end.

(* ------------------------------------------------- the alias chase (Cache.additionalAnswer) *)

(* one sub-query of the chase - internalExchange for the current alias target, run under its own forked request tree
   (ResponseMeta) - as far as additionalAnswer looks at what came back *)
Record hop := mk_hop {
  h_tree    : N;      (* the forked ResponseMeta of the sub-query *)
  h_err     : bool;   (* internalExchange returned an error: there is no reply *)
  h_records : bool;   (* len(respCname.Answer) > 0 || len(respCname.Ns) > 0 *)
  h_nx      : bool;   (* respCname.Rcode == NXDOMAIN *)
  h_proof   : bool;   (* the reply carries a validated NODATA proof (ValidatedNegativeProofForResponse) *)
  h_more    : bool    (* child && !respCnameHasType: its answer ends in a further alias and holds no record of the
                         question's type yet *)
}.

(* where subQueryLineage.inherit runs: at the generic merge (the reply's records become part of the outer reply),
   where the outer reply adopts the sub-query's NXDOMAIN, where it adopts its NODATA proof.  A reply that brings
   none of the three leaves the outer reply the alias records it already had: they are chased again on every hit *)
Definition chase_inherits (h : hop) : bool := negb (h_err h) && (h_records h || h_nx h || h_proof h).

(* cnameDepth := 10, decremented after each sub-query, the loop goes on while it is positive *)
Definition chase_depth : nat := Z.to_nat cname_chase_depth.

(* the chase loop of the request tree p: one sub-query per iteration; an error, an adopted NXDOMAIN or NODATA proof,
   and a reply without a further alias (or with the final records) end it *)
Fixpoint chase (fx : bool) (depth : nat) (p : N) (hops : list hop) (st : state) : state :=
  match depth, hops with
  | S d, h :: r =>
      let st1 := if chase_inherits h then step fx (AFold p (h_tree h)) st else st in
      if h_err h || h_nx h || h_proof h || negb (h_more h) then st1 else chase fx d p r st1
  | _, _ => st
  end.

(* the sub-queries the loop actually issued *)
Fixpoint chase_used (depth : nat) (hops : list hop) : list hop :=
  match depth, hops with
  | S d, h :: r => h :: (if h_err h || h_nx h || h_proof h || negb (h_more h) then [] else chase_used d r)
  | _, _ => []
  end.

(* Resolver.answer, DNAME target leg: the leg's cut is folded whenever the leg produced a message (targetMsg != nil,
   targetCut != nil), before the splice and before every early return *)
Definition leg_inherits (dname : bool) (h : hop) : bool := if dname then negb (h_err h) else chase_inherits h.

(* ------------------------------------------------- the stores derived from validated denials *)

(* A validated denial admitted under request tree [tree] is also filed in two derived stores that answer OTHER
   questions without asking anybody: the RFC 8020 cut (nxDomainCutCache.record: every name below the denied one)
   and the RFC 8198 proof index (denialProofCache.recordWithKind: every name the retained NSEC / NSEC3 records
   cover).  Both take the tree's cut (ResponseWriter.WriteMsg hands them cutUntil): a record filed at [now] whose
   proof allows [ttl] (the minimum over the proof's record TTLs, the SOA minimum, the signatures' original TTLs and
   validity, the store's ceiling - no floor) ends at min(now + ttl, cut) *)
Definition derived_end (st : state) (tree : N) (now ttl : Z) : Z :=
  match cut_time (mt_cut (st_meta st tree)) with
  | Some c => Z.min (now + ttl) c
  | None => now + ttl
  end.

(* ------------------------------------------------- the TTL of an RRset *)

(* resolver.minRRSetTTL: the smallest TTL of the set, 0 for the empty set - what processDelegation takes as "the DS
   TTL" of the DS set validation retained ([r_ds_ttl]) *)
Definition rrset_min_ttl (ttls : list Z) : Z :=
  match ttls with [] => 0 | x :: r => fold_left Z.min r x end.

(* ------------------------------------------------- the referral's NS RRset (Resolver.extractDelegationInfo) *)

(* what the loop over the authority section looks at: an SOA, an NS record (owner, class, TTL), anything else.  The
   FIRST NS record anchors the RRset (owner, class, TTL: [deleg_anchor], hand-copied from the three assignments of that
   branch - the translator cannot express its `info.nsRecord == nil` test); every later iteration is [deleg_step]:
   an NS record of another owner (compared under ASCII case folding) or class marks the referral incoherent and is
   ignored, one of the anchored RRset lowers the lease TTL to the minimum, an SOA is noted *)
Inductive rrk :=
| KSoa
| KNs (owner : list N) (class ttl : N)
| KOther.
Record dinfo := mk_dinfo { di_owner : list N; di_class : N; di_ttl : N; di_soa : bool; di_incoh : bool }.
Definition deleg_step (d : dinfo) (k : rrk) : dinfo :=
  match k with
  | KSoa => mk_dinfo (di_owner d) (di_class d) (di_ttl d) true (di_incoh d)
  | KNs o c t =>
      if negb (go_equal_fold_ascii o (di_owner d)) || negb (c =? di_class d)%N
      then mk_dinfo (di_owner d) (di_class d) (di_ttl d) (di_soa d) true
      else mk_dinfo (di_owner d) (di_class d) (if (t <? di_ttl d)%N then t else di_ttl d) (di_soa d) (di_incoh d)
  | KOther => d
  end.

Definition deleg_anchor (soa : bool) (owner : list N) (class ttl : N) : dinfo := mk_dinfo owner class ttl soa false.
(* nsInfo.nsTTL of a referral whose NS records (one owner, one class) carry the TTLs x :: r *)
Definition ns_rrset_ttl (x : Z) (r : list Z) : Z :=
  Z.of_N (di_ttl (fold_left deleg_step (map (fun t => KNs [] 1 (Z.to_N t)) r) (deleg_anchor false [] 1 (Z.to_N x)))).
