(* C08 — the alias chase of the cache layer (Cache.additionalAnswer) and nested alias legs:
   what a request tree admits after chasing carries every contributing leg's lineage and cut. *)
From Sdns Require Import Common.Base Gen.C08 C08.Model C08.Proofs_base C08.Proofs_inv.
Open Scope Z_scope.

(* m' holds everything m holds: its lineage, and every bound on its cut *)
Definition meta_ext (m m' : meta) : Prop :=
  incl (mt_lin m) (mt_lin m') /\ forall v, cut_le (mt_cut m) v -> cut_le (mt_cut m') v.

Lemma meta_ext_refl : forall m, meta_ext m m.
Proof. intro m. split; [apply incl_refl|auto]. Qed.

Lemma meta_ext_trans : forall a b c, meta_ext a b -> meta_ext b c -> meta_ext a c.
Proof. intros a b c [H1 H2] [H3 H4]. split; [eapply incl_tran; eassumption|auto]. Qed.

Lemma afold_meta_other : forall fx st p c t, t <> p -> st_meta (step fx (AFold p c) st) t = st_meta st t.
Proof. intros fx st p c t H. cbn [step]. apply note_meta_other. congruence. Qed.

Lemma afold_ext : forall fx st p c, meta_ext (st_meta st p) (st_meta (step fx (AFold p c) st) p).
Proof.
  intros fx st p c. cbn [step]. rewrite note_meta_same. split; cbn [mt_lin mt_cut].
  - apply incl_appr, incl_refl.
  - intros v. apply bound_cut_le_l.
Qed.

Lemma afold_takes : forall fx st p c, meta_ext (st_meta st c) (st_meta (step fx (AFold p c) st) p).
Proof.
  intros fx st p c. cbn [step]. rewrite note_meta_same. split; cbn [mt_lin mt_cut].
  - apply incl_appl, incl_refl.
  - intros v. apply bound_cut_le_r.
Qed.

Lemma cut_time_le : forall c t, cut_time c = Some t -> cut_le c t.
Proof. intros [[tc kc]|] t H; cbn in *; [inversion H; lia|discriminate]. Qed.

(* an admission under tree p ends within every bound on p's cut and carries p's lineage *)
Lemma store_within : forall fx st p key ttl now,
  match st_ans (step fx (AStore p key ttl now) st) with
  | e :: _ => ae_lin e = mt_lin (st_meta st p) /\ forall v, cut_le (mt_cut (st_meta st p)) v -> ae_end e <= v
  | [] => False
  end.
Proof.
  intros fx st p key ttl now. cbn [step st_ans]. split; [reflexivity|]. intros v Hv.
  destruct (mt_cut (st_meta st p)) as [[tb kb]|] eqn:E; cbn in Hv; [|contradiction].
  pose proof (ae_end_le_cut (mk_ae key now (admit_ttl ttl) (Some tb) (mt_lin (st_meta st p))) tb eq_refl).
  cbn [cut_time option_map fst]. lia.
Qed.

Lemma store_of_ext : forall fx st st0 p t key ttl now,
  meta_ext (st_meta st0 t) (st_meta st p) ->
  match st_ans (step fx (AStore p key ttl now) st) with
  | e :: _ => incl (mt_lin (st_meta st0 t)) (ae_lin e) /\
              (forall v, cut_time (mt_cut (st_meta st0 t)) = Some v -> ae_end e <= v)
  | [] => False
  end.
Proof.
  intros fx st st0 p t key ttl now [H1 H2]. pose proof (store_within fx st p key ttl now) as Hs.
  destruct (st_ans (step fx (AStore p key ttl now) st)) as [|e r]; [exact Hs|]. destruct Hs as [Hl Hv].
  split; [rewrite Hl; exact H1|]. intros v Hc. apply Hv, H2, cut_time_le, Hc.
Qed.

(* ------------------------------------------------------ the chase loop *)

Lemma chase_used_incl : forall depth hops, incl (chase_used depth hops) hops.
Proof.
  induction depth as [|d IH]; intros hops; [destruct hops; apply incl_nil_l|].
  destruct hops as [|h r]; [apply incl_nil_l|]. cbn [chase_used].
  destruct (h_err h || h_nx h || h_proof h || negb (h_more h)).
  - intros x [E|[]]. left; exact E.
  - intros x [E|Hx]; [left; exact E|right; apply IH, Hx].
Qed.

Lemma chase_meta_other : forall fx depth p hops st t, t <> p -> st_meta (chase fx depth p hops st) t = st_meta st t.
Proof.
  intros fx depth p. induction depth as [|d IH]; intros hops st t Ht; [destruct hops; reflexivity|].
  destruct hops as [|h r]; [reflexivity|]. cbn [chase].
  assert (E1 : st_meta (if chase_inherits h then step fx (AFold p (h_tree h)) st else st) t = st_meta st t).
  { destruct (chase_inherits h); [apply afold_meta_other; assumption|reflexivity]. }
  destruct (h_err h || h_nx h || h_proof h || negb (h_more h)); [exact E1|]. rewrite IH by assumption. exact E1.
Qed.

Lemma chase_ext : forall fx depth p hops st, meta_ext (st_meta st p) (st_meta (chase fx depth p hops st) p).
Proof.
  intros fx depth p. induction depth as [|d IH]; intros hops st; [destruct hops; apply meta_ext_refl|].
  destruct hops as [|h r]; [apply meta_ext_refl|]. cbn [chase].
  assert (E1 : meta_ext (st_meta st p) (st_meta (if chase_inherits h then step fx (AFold p (h_tree h)) st else st) p)).
  { destruct (chase_inherits h); [apply afold_ext|apply meta_ext_refl]. }
  destruct (h_err h || h_nx h || h_proof h || negb (h_more h)); [exact E1|].
  eapply meta_ext_trans; [exact E1|apply IH].
Qed.

Lemma chase_takes : forall fx depth p hops st h,
  (forall h', In h' hops -> h_tree h' <> p) ->
  In h (chase_used depth hops) -> chase_inherits h = true ->
  meta_ext (st_meta st (h_tree h)) (st_meta (chase fx depth p hops st) p).
Proof.
  intros fx depth p. induction depth as [|d IH]; intros hops st h Hp Hin Hinh; [destruct hops; contradiction|].
  destruct hops as [|h0 r]; [contradiction|]. cbn [chase chase_used] in *.
  set (st1 := if chase_inherits h0 then step fx (AFold p (h_tree h0)) st else st).
  assert (Hother : forall t, t <> p -> st_meta st1 t = st_meta st t).
  { intros t Ht. unfold st1. destruct (chase_inherits h0); [apply afold_meta_other; assumption|reflexivity]. }
  destruct Hin as [E|Hin].
  - subst h0. assert (T : meta_ext (st_meta st (h_tree h)) (st_meta st1 p)).
    { unfold st1. rewrite Hinh. apply afold_takes. }
    destruct (h_err h || h_nx h || h_proof h || negb (h_more h)); [exact T|].
    eapply meta_ext_trans; [exact T|apply chase_ext].
  - destruct (h_err h0 || h_nx h0 || h_proof h0 || negb (h_more h0)); [contradiction|].
    assert (Hh : h_tree h <> p). { apply Hp. right. eapply chase_used_incl; eassumption. }
    rewrite <- (Hother (h_tree h) Hh). apply IH; [|assumption|assumption].
    intros h' Hh'. apply Hp. right. exact Hh'.
Qed.

(* what tree p admits after its chase carries the lineage and ends within the cut of p itself and of every
   sub-query the loop issued whose reply handed anything to the composed reply *)
Lemma chase_admission_lemma : forall fx depth p hops st key ttl now,
  (forall h', In h' hops -> h_tree h' <> p) ->
  match st_ans (step fx (AStore p key ttl now) (chase fx depth p hops st)) with
  | e :: _ =>
      (incl (mt_lin (st_meta st p)) (ae_lin e) /\ forall v, cut_time (mt_cut (st_meta st p)) = Some v -> ae_end e <= v) /\
      (forall h, In h (chase_used depth hops) -> chase_inherits h = true ->
         incl (mt_lin (st_meta st (h_tree h))) (ae_lin e) /\
         forall v, cut_time (mt_cut (st_meta st (h_tree h))) = Some v -> ae_end e <= v)
  | [] => False
  end.
Proof.
  intros fx depth p hops st key ttl now Hp.
  pose proof (store_of_ext fx (chase fx depth p hops st) st p p key ttl now (chase_ext fx depth p hops st)) as H0.
  assert (H1 : forall h, In h (chase_used depth hops) -> chase_inherits h = true ->
          match st_ans (step fx (AStore p key ttl now) (chase fx depth p hops st)) with
          | e :: _ => incl (mt_lin (st_meta st (h_tree h))) (ae_lin e) /\
                      (forall v, cut_time (mt_cut (st_meta st (h_tree h))) = Some v -> ae_end e <= v)
          | [] => False
          end).
  { intros h Hin Hinh. apply store_of_ext. apply chase_takes; assumption. }
  destruct (st_ans (step fx (AStore p key ttl now) (chase fx depth p hops st))) as [|e r]; [exact H0|].
  split; [exact H0|exact H1].
Qed.

(* a sub-query that is NOT inherited handed nothing to the composed reply: no reply at all, or one without answer
   or authority records, without NXDOMAIN, without a NODATA proof *)
Lemma unfolded_hop_lemma : forall h, chase_inherits h = false ->
  h_err h = true \/ (h_records h = false /\ h_nx h = false /\ h_proof h = false).
Proof.
  intros [t e r n p m]. unfold chase_inherits. cbn.
  destruct e; [left; reflexivity|]. destruct r, n, p; cbn; intro H; try discriminate. right. repeat split.
Qed.

(* the loop issues at most [depth] sub-queries *)
Lemma chase_used_bound : forall depth hops, (length (chase_used depth hops) <= depth)%nat.
Proof.
  induction depth as [|d IH]; intros hops; [destruct hops; cbn; lia|].
  destruct hops as [|h r]; [cbn; lia|]. cbn [chase_used].
  destruct (h_err h || h_nx h || h_proof h || negb (h_more h)); cbn [length]; [lia|]. specialize (IH r). lia.
Qed.

(* ------------------------------------------------------ nested legs *)

(* legs nested in each other: tree p's chase consumes the reply of tree c, whose own chase consumed the reply of
   the next, ...; innermost first *)
Fixpoint fold_chain (p : N) (rest : list N) : list act :=
  match rest with
  | [] => []
  | c :: r => fold_chain c r ++ [AFold p c]
  end.

Lemma run_app : forall fx a b st, run fx (a ++ b) st = run fx b (run fx a st).
Proof. intros fx a. induction a as [|x a IH]; intros b st; cbn; [reflexivity|apply IH]. Qed.

Lemma fold_chain_meta : forall fx rest p st, NoDup (p :: rest) ->
  (forall t, ~ In t (p :: rest) -> st_meta (run fx (fold_chain p rest) st) t = st_meta st t) /\
  (forall t, In t (p :: rest) -> meta_ext (st_meta st t) (st_meta (run fx (fold_chain p rest) st) p)).
Proof.
  intros fx rest. induction rest as [|c r IH]; intros p st Hnd.
  - cbn. split; [reflexivity|]. intros t [E|[]]. subst. apply meta_ext_refl.
  - cbn [fold_chain]. rewrite run_app. cbn [run].
    inversion Hnd as [|x l Hp Hnd']; subst.
    destruct (IH c st Hnd') as [IH1 IH2].
    assert (Hpc : p <> c). { intro E. apply Hp. left. symmetry. exact E. }
    assert (Hpst : st_meta (run fx (fold_chain c r) st) p = st_meta st p).
    { apply IH1. intro Hin. apply Hp. exact Hin. }
    split.
    + intros t Ht. rewrite afold_meta_other.
      * apply IH1. intro Hin. apply Ht. right. exact Hin.
      * intro E. apply Ht. left. symmetry. exact E.
    + intros t [E|Hin].
      * subst t. rewrite <- Hpst. apply afold_ext.
      * eapply meta_ext_trans; [apply IH2; exact Hin|apply afold_takes].
Qed.

Lemma alias_chain_lemma : forall fx p rest st key ttl now, NoDup (p :: rest) ->
  match st_ans (step fx (AStore p key ttl now) (run fx (fold_chain p rest) st)) with
  | e :: _ =>
      forall t, In t (p :: rest) ->
        incl (mt_lin (st_meta st t)) (ae_lin e) /\
        forall v, cut_time (mt_cut (st_meta st t)) = Some v -> ae_end e <= v
  | [] => False
  end.
Proof.
  intros fx p rest st key ttl now Hnd. destruct (fold_chain_meta fx rest p st Hnd) as [_ H2].
  assert (H : forall t, In t (p :: rest) ->
          match st_ans (step fx (AStore p key ttl now) (run fx (fold_chain p rest) st)) with
          | e :: _ => incl (mt_lin (st_meta st t)) (ae_lin e) /\
                      (forall v, cut_time (mt_cut (st_meta st t)) = Some v -> ae_end e <= v)
          | [] => False
          end).
  { intros t Ht. apply store_of_ext. apply H2. exact Ht. }
  pose proof (H p (or_introl eq_refl)) as Hp.
  destruct (st_ans (step fx (AStore p key ttl now) (run fx (fold_chain p rest) st))) as [|e r]; [exact Hp|exact H].
Qed.

(* non-vacuity: a question in a zone held 12 h aliased into a zone held 1 h aliased into a zone held 30 s whose
   servers deny the final name with a one-hour SOA: all three entries end with the 30 s lease; when the innermost
   reply is a bare NOERROR (nothing handed up, no fold into the middle leg) the middle and the outer entry end with
   the middle zone's hour, and hold nothing learned through the innermost zone *)
Definition ex_chain_state (innermost_carries : bool) : state :=
  let s := 1000000000 in
  let rf i z srv ttl := ARefer i (mk_ref z srv true ttl None true 0 false 0 [] false true true 0) in
  let st := run code_fx [ASeed 0 0 [1;10;5]%N false 0; rf 0%N [1%N] 1%N 172800; rf 0%N [1;10]%N 2%N 172800;
                         ASeed 1 1 [1;11;5]%N false 0; rf 1%N [1;11]%N 3%N 3600;
                         ASeed 2 2 [1;12;5]%N false 0; rf 2%N [1;12]%N 4%N 30;
                         AStore 2 3 (3600 * s) 0] st_init in
  let st := chase code_fx chase_depth 1 [mk_hop 2 false innermost_carries false false false] st in
  let st := step code_fx (AStore 1 2 (86400 * s) 0) st in
  let st := chase code_fx chase_depth 0 [mk_hop 1 false true false false false] st in
  step code_fx (AStore 0 1 (86400 * s) 0) st.

Example ex_alias_chain :
  let s := 1000000000 in
  map ae_end (st_ans (ex_chain_state true)) = [30 * s; 30 * s; 30 * s] /\
  map ae_end (st_ans (ex_chain_state false)) = [3600 * s; 3600 * s; 30 * s].
Proof. vm_compute. split; reflexivity. Qed.

(* the translated inherit on concrete sinks: parent bounded at 50 by key 7, child at 30 by key 9 *)
Example ex_lineage_inherit : forall wp wc,
  let l := mk_T_subQueryLineage (mk_T_ResponseMeta (mk_T_responseCut 50 7) wp) (mk_T_ResponseMeta (mk_T_responseCut 30 9) wc) false in
  T_ResponseMeta_cut (T_subQueryLineage_parent (go_subQueryLineage_inherit l)) = mk_T_responseCut 30 9 /\
  go_subQueryLineage_inherit (go_subQueryLineage_inherit l) = go_subQueryLineage_inherit l.
Proof. intros wp wc. cbn. split; reflexivity. Qed.

(* ------------------------------------------------------ a sub-query answered from the cache *)

(* A sub-query of the chase that is answered from a stored entry e runs under its own request tree, which the hit
   binds to e's lifetime (AHit: boundRequestToEntryLifetime).  When the loop inherits that sub-query, what tree p
   admits afterwards carries everything e was learned through and ends no later than e itself - whatever the
   other sub-queries were, wherever in the loop this one came *)
Lemma hit_hop_lemma : forall fx depth p hops st tree idx e h key ttl now,
  nth_error (st_ans st) idx = Some e ->
  (forall h', In h' hops -> h_tree h' <> p) ->
  In h (chase_used depth hops) -> h_tree h = tree -> chase_inherits h = true ->
  match st_ans (step fx (AStore p key ttl now) (chase fx depth p hops (step fx (AHit tree idx) st))) with
  | e' :: _ => incl (ae_lin e) (ae_lin e') /\ ae_end e' <= ae_end e
  | [] => False
  end.
Proof.
  intros fx depth p hops st tree idx e h key ttl now He Hp Hin Ht Hinh.
  pose proof (chase_admission_lemma fx depth p hops (step fx (AHit tree idx) st) key ttl now Hp) as H.
  destruct (st_ans (step fx (AStore p key ttl now) (chase fx depth p hops (step fx (AHit tree idx) st)))) as [|e' r];
    [exact H|].
  destruct H as [_ H]. specialize (H h Hin Hinh). rewrite Ht in H. destruct H as [Hl Hc].
  cbn [step] in Hl, Hc. rewrite He in Hl, Hc. rewrite note_meta_same in Hl, Hc. cbn [mt_lin mt_cut] in Hl, Hc.
  split.
  - intros x Hx. apply Hl. apply in_or_app. left. exact Hx.
  - assert (Hb : cut_le (bound_cut (mt_cut (st_meta st tree)) (Some (ae_bound e, []))) (ae_bound e)).
    { apply bound_cut_le_r. unfold cut_le. apply Z.le_refl. }
    destruct (bound_cut (mt_cut (st_meta st tree)) (Some (ae_bound e, []))) as [[tb kb]|] eqn:E; unfold cut_le in Hb; [|contradiction].
    specialize (Hc tb eq_refl). rewrite ae_bound_end in Hb. lia.
Qed.

(* non-vacuity: a three-zone chain ending in a NODATA whose denial lives 30 s while every lease runs for hours: the
   reply of the middle leg ends in an alias, so the outer loop asks the final name again, is answered from the
   stored denial and inherits it - the outer entry ends with the denial's 30 s (without that second sub-query it
   would end with the shortest lease, one hour) *)
Example ex_hit_hop :
  let s := 1000000000 in
  let rf i z srv ttl := ARefer i (mk_ref z srv true ttl None true 0 false 0 [] false true true 0) in
  let st := run code_fx [ASeed 0 0 [1;10;5]%N false 0; rf 0%N [1%N] 1%N 172800; rf 0%N [1;10]%N 2%N 172800;
                         ASeed 1 1 [1;11;5]%N false 0; rf 1%N [1;11]%N 3%N 3600;
                         ASeed 2 2 [1;12;5]%N false 0; rf 2%N [1;12]%N 4%N 7200;
                         AStore 2 3 (30 * s) 0] st_init in
  let st := chase code_fx chase_depth 1 [mk_hop 2 false true false false false] st in
  let st := step code_fx (AStore 1 2 (86400 * s) 0) st in
  let outer hops := map ae_end (firstn 1 (st_ans (step code_fx (AStore 0 1 (86400 * s) 0)
                      (chase code_fx chase_depth 0 hops (step code_fx (AHit 100 1) st))))) in
  outer [mk_hop 1 false true false false true; mk_hop 100 false true false false false] = [30 * s] /\
  outer [mk_hop 1 false true false false false] = [3600 * s].
Proof. vm_compute. split; reflexivity. Qed.

(* ------------------------------------------------------ nesting *)

(* The sub-query for an alias target is a full request of its own: its tree may have run a chase itself, may have
   been bound to stored entries, may have descended through any delegations - all of that is in its sink by the
   time it replies.  Whatever a sub-query's tree c holds at that point (stated as: it holds everything some tree d
   held in some earlier state st0 - its lineage and every bound on its cut), the loop that inherits c hands on to
   tree p, and from there to what p admits.  By induction over the nesting depth this gives, for alias chains of
   any depth with loops of any length at every level: an admitted reply carries the lineage and ends within the cut
   of every request tree that fed it through a run of inherited sub-queries. *)
Lemma nested_chase_lemma : forall fx depth p hops st st0 d h key ttl now,
  (forall h', In h' hops -> h_tree h' <> p) ->
  In h (chase_used depth hops) -> chase_inherits h = true ->
  meta_ext (st_meta st0 d) (st_meta st (h_tree h)) ->
  meta_ext (st_meta st0 d) (st_meta (chase fx depth p hops st) p) /\
  match st_ans (step fx (AStore p key ttl now) (chase fx depth p hops st)) with
  | e :: _ => incl (mt_lin (st_meta st0 d)) (ae_lin e) /\
              (forall v, cut_time (mt_cut (st_meta st0 d)) = Some v -> ae_end e <= v)
  | [] => False
  end.
Proof.
  intros fx depth p hops st st0 d h key ttl now Hp Hin Hinh Hext.
  assert (E : meta_ext (st_meta st0 d) (st_meta (chase fx depth p hops st) p)).
  { eapply meta_ext_trans; [exact Hext|]. apply chase_takes; assumption. }
  split; [exact E|]. apply store_of_ext. exact E.
Qed.

(* a sub-query that is not inherited leaves tree p as it was; and the chase never touches another tree *)
Lemma chase_frame_lemma : forall fx depth p hops st,
  (forall t, t <> p -> st_meta (chase fx depth p hops st) t = st_meta st t) /\
  ((forall h, In h (chase_used depth hops) -> chase_inherits h = false) ->
   st_meta (chase fx depth p hops st) p = st_meta st p).
Proof.
  intros fx depth p hops st. split; [intros t Ht; apply chase_meta_other; exact Ht|].
  revert hops st. induction depth as [|dd IH]; intros hops st Hn; [destruct hops; reflexivity|].
  destruct hops as [|h r]; [reflexivity|]. cbn [chase chase_used] in *.
  assert (Hh : chase_inherits h = false) by (apply Hn; left; reflexivity). rewrite Hh.
  destruct (h_err h || h_nx h || h_proof h || negb (h_more h)); [reflexivity|].
  apply IH. intros h' Hin. apply Hn. right. exact Hin.
Qed.
