(* C08 — lease_def, follows_parent_after_lease, the refutation witnesses, examples. *)
From Sdns Require Import Common.Base Gen.C08 C08.Model C08.Proofs_base C08.Proofs_inv.
Open Scope Z_scope.

(* ------------------------------------------------------------- lease_def *)

(* the plain uncached descent (no provisional entries, servers reachable, anchors present) *)
Definition plain_miss (st : state) (i : N) (r : referral) (rs : rstate) : Prop :=
  st_rs st i = Some rs /\
  valid_referral (r_coherent r) (r_zone r) (rs_zone rs) (rs_q rs) = true /\
  r_valid r = true /\ r_pdet r = false /\
  dc_get (st_dc st) (r_get r) (r_zone r) = None /\
  r_prov r = [] /\ r_abort r = false /\ r_reach r = true /\ r_anchor r = true.

Lemma lease_def_lemma : forall fx st i r rs, plain_miss st i r rs ->
  let cd := child_deadline fx rs r in
  let lin := mk_lrec (r_zone r) (r_obs r) (lease_ttl r) cd :: rs_lin rs in
  st_dc (process_delegation fx st i r) (r_zone r) =
    (if cd <=? r_store r then st_dc st (r_zone r)
     else Some (mk_deleg (Z.min cd (r_store r + max_ttl)) (r_srv r) lin)) /\
  cd = (let base := match cut_time (rs_cut rs) with
                    | Some c => Z.min c (r_obs r + lease_ttl r)
                    | None => r_obs r + lease_ttl r
                    end in
        if fx then Z.min base (r_obs r + max_ttl) else base).
Proof.
  intros fx st i r rs (Hrs & Hv & Hval & Hpd & Hg & Hprov & Hab & Hre & Han) cd lin.
  split.
  - unfold process_delegation. rewrite Hrs, Hv, Hval. cbn [negb]. rewrite Hpd.
    rewrite note_dc. rewrite Hg. rewrite Hab, Hre, Han, Hprov. cbn [orb negb provisional].
    fold (child_deadline fx rs r). fold cd. cbn [st_dc]. rewrite dc_set_until_same. reflexivity.
  - unfold cd. rewrite child_deadline_val. rewrite lease_deadline_eq. reflexivity.
Qed.

(* consequences in the property's words: the stored expiry is no later than observed + NS TTL,
   observed + DS TTL, every shallower delegation on the path, and 12 h after the store *)
Lemma lease_bounds : forall fx st i r rs d, plain_miss st i r rs ->
  st_dc (process_delegation fx st i r) (r_zone r) = Some d -> st_dc st (r_zone r) <> Some d ->
  d_exp d <= r_obs r + r_ns_ttl r * 1000000000 /\
  (forall ds, r_ds_ttl r = Some ds -> d_exp d <= r_obs r + ds * 1000000000) /\
  (forall c, cut_time (rs_cut rs) = Some c -> d_exp d <= c) /\
  d_exp d <= r_store r + max_ttl /\
  r_store r < d_exp d /\
  (fx = true -> d_exp d <= r_obs r + max_ttl).
Proof.
  intros fx st i r rs d Hp Hd Hne. destruct (lease_def_lemma fx st i r rs Hp) as [H1 H2]. cbv zeta in H1, H2.
  rewrite H1 in Hd. destruct (Z.leb_spec (child_deadline fx rs r) (r_store r)); [contradiction|].
  inversion Hd; subst d; cbn. clear Hd H1.
  pose proof (lease_ttl_le_ns r).
  repeat split.
  - rewrite H2. destruct (cut_time (rs_cut rs)); destruct fx; lia.
  - intros ds Hds. pose proof (lease_ttl_le_ds r ds Hds). rewrite H2. destruct (cut_time (rs_cut rs)); destruct fx; lia.
  - intros c Hc. rewrite H2, Hc. destruct fx; lia.
  - lia.
  - pose proof max_ttl_pos. lia.
  - intros ->. rewrite H2. destruct (cut_time (rs_cut rs)); lia.
Qed.

(* lease_def without the "no provisional entries" hypothesis: whatever lookupV4Nss parked under the key
   while it resolved glueless names, the final store replaces it — unless the inherited deadline has
   already passed on the cache's clock, in which case what is left is a provisional entry (or the old
   one), and every provisional entry ends within the deadline and within a minute of its own store *)
Definition miss_with_provisional (st : state) (i : N) (r : referral) (rs : rstate) : Prop :=
  st_rs st i = Some rs /\
  valid_referral (r_coherent r) (r_zone r) (rs_zone rs) (rs_q rs) = true /\
  r_valid r = true /\ r_pdet r = false /\
  dc_get (st_dc st) (r_get r) (r_zone r) = None /\
  r_abort r = false /\ r_reach r = true /\ r_anchor r = true.

Lemma provisional_cases_cap : forall ps c z srv lin cd k d,
  provisional c z srv lin cd ps k = Some d ->
  c k = Some d \/ (k = z /\ d_exp d <= cd /\ (exists tn tc, In (tn, tc) ps /\ d_exp d <= tn + provisional_cap /\ tc < d_exp d)).
Proof.
  induction ps as [|[tn tc] ps IH]; intros c z srv lin cd k d H; cbn in H; [left; assumption|].
  apply IH in H as [H|(-> & H1 & tn' & tc' & Hin & H2 & H3)].
  - apply dc_set_until_cases in H as [H|(-> & Hlt & ->)]; [left; assumption|].
    right. split; [reflexivity|]. cbn.
    destruct (Z.ltb_spec cd (tn + provisional_cap)); (split; [lia|]); exists tn, tc; (split; [left; reflexivity|]);
      pose proof max_ttl_pos; cbn in Hlt; destruct (Z.ltb_spec cd (tn + provisional_cap)); split; lia.
  - right. split; [reflexivity|]. split; [exact H1|]. exists tn', tc'. split; [right; exact Hin|]. split; assumption.
Qed.

Lemma lease_def_general : forall fx st i r rs, miss_with_provisional st i r rs ->
  let cd := child_deadline fx rs r in
  let lin := mk_lrec (r_zone r) (r_obs r) (lease_ttl r) cd :: rs_lin rs in
  st_dc (process_delegation fx st i r) (r_zone r) =
    (if cd <=? r_store r then provisional (st_dc st) (r_zone r) (r_srv r) lin cd (r_prov r) (r_zone r)
     else Some (mk_deleg (Z.min cd (r_store r + max_ttl)) (r_srv r) lin)).
Proof.
  intros fx st i r rs (Hrs & Hv & Hval & Hpd & Hg & Hab & Hre & Han) cd lin.
  unfold process_delegation. rewrite Hrs, Hv, Hval. cbn [negb]. rewrite Hpd.
  rewrite note_dc. rewrite Hg. rewrite Hab, Hre, Han. cbn [orb negb].
  fold (child_deadline fx rs r). fold cd. cbn [st_dc]. rewrite dc_set_until_same. reflexivity.
Qed.

(* a nameserver address lookup that aborts the descent (cancellation, deadline, recursion work limit) or
   leaves no usable server: the final store never happens.  What is then found under the key is what was there
   before, or a provisional entry - and that one ends within the inherited deadline, hence within the lease
   of every shallower delegation on the path, within observed + min(NS TTL, DS TTL), within observed + 12 h,
   and within one minute of its own filing *)
Lemma aborted_lookup_lemma : forall fx st i r rs d,
  st_rs st i = Some rs ->
  valid_referral (r_coherent r) (r_zone r) (rs_zone rs) (rs_q rs) = true ->
  r_valid r = true -> r_pdet r = false ->
  dc_get (st_dc st) (r_get r) (r_zone r) = None ->
  r_abort r || negb (r_reach r) = true ->
  st_dc (process_delegation fx st i r) (r_zone r) = Some d -> st_dc st (r_zone r) <> Some d ->
  d_exp d <= child_deadline fx rs r /\
  (forall c, cut_time (rs_cut rs) = Some c -> d_exp d <= c) /\
  d_exp d <= r_obs r + lease_ttl r /\
  (fx = true -> d_exp d <= r_obs r + max_ttl) /\
  exists tn tc, In (tn, tc) (r_prov r) /\ d_exp d <= tn + provisional_cap /\ tc < d_exp d.
Proof.
  intros fx st i r rs d Hrs Hv Hval Hpd Hg Hab Hd Hne.
  unfold process_delegation in Hd. rewrite Hrs, Hv, Hval in Hd. cbn [negb] in Hd. rewrite Hpd in Hd.
  rewrite note_dc, Hg in Hd. rewrite Hab in Hd. cbn [st_dc] in Hd.
  fold (child_deadline fx rs r) in Hd.
  destruct (r_anchor r); [|contradiction].
  apply provisional_cases_cap in Hd as [Hd|(_ & H1 & H2)]; [contradiction|].
  split; [exact H1|]. split.
  - intros c Hc. pose proof (child_deadline_val fx rs r) as Hcd. cbv zeta in Hcd. rewrite Hc in Hcd.
    destruct fx; lia.
  - split; [pose proof (child_deadline_le_lease fx rs r); lia|].
    split; [intros ->; pose proof (child_deadline_le_ceiling rs r); lia|exact H2].
Qed.

(* the hypotheses are satisfiable, and the bound is the ancestor's: under a 3 s ancestor lease a 12 h child
   referral whose glue-less nameserver lookup is cancelled leaves a provisional entry that ends with the ancestor *)
Example ex_aborted_lookup :
  let s := 1000000000 in
  let st := run code_fx [ASeed 0 0 [1;2;9]%N false 0;
                         ARefer 0 (mk_ref [1%N] 1 true 3 None true 0 false 0 [] false true true 0);
                         ARefer 0 (mk_ref [1;2]%N 2 true 43200 None true s false s [(s, s)] true true true s)] st_init in
  option_map d_exp (st_dc st [1;2]%N) = Some (3 * s) /\
  m_zone (search_cache (st_dc st) (3 * s) [1;2;9]%N false) = [].
Proof. vm_compute. repeat split; reflexivity. Qed.

(* a composed answer: an alias's target leg (the resolver's DNAME leg, the cache layer's CNAME chase, any forked
   sub-query) runs under its own request tree c; where its records - or its denial - become part of the answer
   assembled in tree p its cut is folded into p (AFold), and what p then admits carries the lineage of BOTH legs
   and ends within the cut of both, whatever TTL it is admitted with (the 5 s floor included) *)
Lemma composed_answer_lemma : forall fx st p c key ttl now,
  match st_ans (step fx (AStore p key ttl now) (step fx (AFold p c) st)) with
  | e :: _ =>
      incl (mt_lin (st_meta st c)) (ae_lin e) /\ incl (mt_lin (st_meta st p)) (ae_lin e) /\
      (forall t, cut_time (mt_cut (st_meta st c)) = Some t -> ae_end e <= t) /\
      (forall t, cut_time (mt_cut (st_meta st p)) = Some t -> ae_end e <= t)
  | [] => False
  end.
Proof.
  intros fx st p c key ttl now. cbn [step st_ans]. rewrite note_meta_same. cbn [mt_lin mt_cut].
  split; [apply incl_appl, incl_refl|]. split; [apply incl_appr, incl_refl|].
  assert (Hle : forall v, cut_le (bound_cut (mt_cut (st_meta st p)) (mt_cut (st_meta st c))) v ->
                ae_end (mk_ae key now (admit_ttl ttl)
                              (cut_time (bound_cut (mt_cut (st_meta st p)) (mt_cut (st_meta st c))))
                              (mt_lin (st_meta st c) ++ mt_lin (st_meta st p))) <= v).
  { intros v Hv. destruct (bound_cut (mt_cut (st_meta st p)) (mt_cut (st_meta st c))) as [[tb kb]|] eqn:E; cbn in Hv; [|contradiction].
    pose proof (ae_end_le_cut (mk_ae key now (admit_ttl ttl) (Some tb) (mt_lin (st_meta st c) ++ mt_lin (st_meta st p))) tb eq_refl).
    cbn [cut_time option_map fst]. lia. }
  split; intros t Ht; apply Hle.
  - apply bound_cut_le_r. destruct (mt_cut (st_meta st c)) as [[tc kc]|]; cbn in *; [inversion Ht; lia|discriminate].
  - apply bound_cut_le_l. destruct (mt_cut (st_meta st p)) as [[tp kp]|]; cbn in *; [inversion Ht; lia|discriminate].
Qed.

(* an alias in a zone held for 12 h onto a zone held for 30 s, target leg NXDOMAIN with a one-hour denial: the
   target's own entry and the composed denial both end with the 30 s lease; and the fold is what does it - the same
   history without it (the composed answer admitted under the outer tree alone) keeps the denial for its hour *)
Definition ex_alias_acts (fold : bool) : list act :=
  let s := 1000000000 in
  [ASeed 0 0 [1;2;9]%N false 0;
   ARefer 0 (mk_ref [1%N] 1 true 172800 None true 0 false 0 [] false true true 0);
   ARefer 0 (mk_ref [1;2]%N 2 true 172800 None true 0 false 0 [] false true true 0);
   ASeed 1 1 [1;3;9]%N false 0;
   ARefer 1 (mk_ref [1;3]%N 3 true 30 None true 0 false 0 [] false true true 0);
   AStore 1 2 (3600 * s) 0] ++
  (if fold then [AFold 0 1] else []) ++ [AStore 0 1 (3600 * s) 0].

Example ex_dname_negative_leg :
  let s := 1000000000 in
  map ae_end (st_ans (run code_fx (ex_alias_acts true) st_init)) = [30 * s; 30 * s] /\
  map ae_end (st_ans (run code_fx (ex_alias_acts false) st_init)) = [3600 * s; 30 * s].
Proof. vm_compute. split; reflexivity. Qed.

(* a referral that arrives while another resolution has already stored the delegation (the cached branch):
   nothing is written, the descent continues with the cached servers and with the SHORTER of the cached
   lease and the deadline of the referral just observed, and the request tree is bounded by it *)
Lemma cached_branch_lemma : forall fx st i r rs cached,
  st_rs st i = Some rs ->
  valid_referral (r_coherent r) (r_zone r) (rs_zone rs) (rs_q rs) = true ->
  r_valid r = true -> r_pdet r = false ->
  dc_get (st_dc st) (r_get r) (r_zone r) = Some cached ->
  let st' := process_delegation fx st i r in
  st_dc st' = st_dc st /\
  exists rs', st_rs st' i = Some rs' /\ rs_zone rs' = r_zone r /\ rs_srv rs' = d_srv cached /\
              cut_time (rs_cut rs') = Some (Z.min (child_deadline fx rs r) (d_exp cached)) /\
              cut_le (mt_cut (st_meta st' (rs_tree rs))) (Z.min (child_deadline fx rs r) (d_exp cached)).
Proof.
  intros fx st i r rs cached Hrs Hv Hval Hpd Hg st'. unfold st', process_delegation.
  rewrite Hrs, Hv, Hval. cbn [negb]. rewrite Hpd. rewrite note_dc, Hg.
  destruct (child_cut_some fx rs r) as [kc Hcc]. rewrite Hcc.
  split; [reflexivity|]. eexists. cbn [st_rs]. unfold upd_rs at 1. rewrite N.eqb_refl.
  split; [reflexivity|]. cbn [rs_zone rs_srv rs_cut]. split; [reflexivity|]. split; [reflexivity|].
  assert (Hm : cut_time (min_cut (Some (child_deadline fx rs r, kc)) (Some (d_exp cached, r_zone r))) =
               Some (Z.min (child_deadline fx rs r) (d_exp cached))).
  { rewrite min_cut_time. reflexivity. }
  split; [exact Hm|].
  cbn [st_meta]. rewrite note_meta_same. cbn [mt_cut].
  apply bound_cut_le_r.
  destruct (min_cut (Some (child_deadline fx rs r, kc)) (Some (d_exp cached, r_zone r))) as [[t k]|]; cbn in *; [|discriminate].
  inversion Hm; subst. lia.
Qed.

Lemma lease_ceiling_code : forall st i r rs d, plain_miss st i r rs ->
  st_dc (process_delegation code_fx st i r) (r_zone r) = Some d -> st_dc st (r_zone r) <> Some d ->
  d_exp d <= r_obs r + max_ttl.
Proof.
  intros st i r rs d Hp Hd Hne. destruct (lease_bounds code_fx st i r rs d Hp Hd Hne) as (_ & _ & _ & _ & _ & H).
  apply H. reflexivity.
Qed.

(* ---------------------------------------------- follows_parent_after_lease *)

Lemma dead_after_generic : forall (B : lrec -> Z) (st : state) l now,
  (forall e l, In e (st_ans st) -> In l (ae_lin e) -> ae_end e <= B l) ->
  (forall z d l, st_dc st z = Some d -> In l (d_lin d) -> d_exp d <= B l) ->
  B l <= now ->
  (forall z d, st_dc st z = Some d -> In l (d_lin d) -> dc_get (st_dc st) now z = None) /\
  (forall e, In e (st_ans st) -> In l (ae_lin e) -> ae_served e now = false) /\
  (forall q is_ds, ~ In l (m_lin (search_cache (st_dc st) now q is_ds))).
Proof.
  intros B st l now Ha Hd Hnow. repeat split.
  - intros z d Hz Hl. apply (dc_get_expired _ _ _ d Hz). specialize (Hd z d l Hz Hl). lia.
  - intros e He Hl. destruct (ae_served e now) eqn:E; [|reflexivity]. apply ae_served_iff in E.
    specialize (Ha e l He Hl). lia.
  - intros q is_ds Hin. destruct (search_cache_cases (st_dc st) now q is_ds) as [H|(z & d & Hg & H)]; rewrite H in Hin.
    + destruct Hin.
    + cbn in Hin. apply dc_get_some in Hg as [Hz Hlt]. specialize (Hd z d l Hz Hin). lia.
Qed.

Lemma dead_after_code_deadline : forall fx acts st l now, st = run fx acts st_init -> l_code l <= now ->
  (forall z d, st_dc st z = Some d -> In l (d_lin d) -> dc_get (st_dc st) now z = None) /\
  (forall e, In e (st_ans st) -> In l (ae_lin e) -> ae_served e now = false) /\
  (forall q is_ds, ~ In l (m_lin (search_cache (st_dc st) now q is_ds))).
Proof.
  intros fx acts st l now Hst Hnow. destruct (learned_through_code fx acts st Hst) as [Ha Hd].
  apply (dead_after_generic l_code); assumption.
Qed.

Lemma dead_after_lease_repaired : forall acts st l now, st = run true acts st_init -> l_spec l <= now ->
  (forall z d, st_dc st z = Some d -> In l (d_lin d) -> dc_get (st_dc st) now z = None) /\
  (forall e, In e (st_ans st) -> In l (ae_lin e) -> ae_served e now = false) /\
  (forall q is_ds, ~ In l (m_lin (search_cache (st_dc st) now q is_ds))).
Proof.
  intros acts st l now Hst Hnow. destruct (learned_through_fixed acts st Hst) as [Ha Hd].
  apply (dead_after_generic l_spec); assumption.
Qed.

(* with nothing live at or below z the walk starts strictly above z: at the parent side *)
Lemma search_cache_above_dead_subtree : forall c now q is_ds z,
  z <> [] -> is_prefix z q = true ->
  (forall k, is_prefix z k = true -> dc_get c now k = None) ->
  strict_above (m_zone (search_cache c now q is_ds)) z = true.
Proof.
  intros c now q is_ds z Hz Hq Hdead. apply strict_above_spec.
  pose proof (search_cache_zone_prefix c now q is_ds) as Hp.
  destruct (search_cache_cases c now q is_ds) as [H|(k & d & Hg & H)]; rewrite H in *; cbn in *.
  - split; [reflexivity|]. intro E. apply Hz. symmetry. exact E.
  - destruct (is_prefix_comparable k z q Hp Hq) as [Hkz|Hzk].
    + split; [exact Hkz|]. intros ->. rewrite (Hdead z (is_prefix_refl z)) in Hg. discriminate.
    + rewrite (Hdead k Hzk) in Hg. discriminate.
Qed.

Lemma follows_parent_lemma : forall fx acts st l z now q is_ds,
  st = run fx acts st_init -> l_code l <= now -> z <> [] -> is_prefix z q = true ->
  (forall k d, is_prefix z k = true -> st_dc st k = Some d -> In l (d_lin d)) ->
  strict_above (m_zone (search_cache (st_dc st) now q is_ds)) z = true /\
  (forall e, In e (st_ans st) -> In l (ae_lin e) -> ae_served e now = false).
Proof.
  intros fx acts st l z now q is_ds Hst Hnow Hz Hq Hall.
  destruct (dead_after_code_deadline fx acts st l now Hst Hnow) as (Hd & Ha & _). split; [|exact Ha].
  apply search_cache_above_dead_subtree; try assumption.
  intros k Hk. destruct (st_dc st k) as [d|] eqn:E.
  - apply (Hd k d E). apply (Hall k d Hk E).
  - unfold dc_get, dc_get_res. rewrite E. reflexivity.
Qed.

Lemma follows_parent_repaired : forall acts st l z now q is_ds,
  st = run true acts st_init -> l_spec l <= now -> z <> [] -> is_prefix z q = true ->
  (forall k d, is_prefix z k = true -> st_dc st k = Some d -> In l (d_lin d)) ->
  strict_above (m_zone (search_cache (st_dc st) now q is_ds)) z = true /\
  (forall e, In e (st_ans st) -> In l (ae_lin e) -> ae_served e now = false).
Proof.
  intros acts st l z now q is_ds Hst Hnow Hz Hq Hall.
  destruct (dead_after_lease_repaired acts st l now Hst Hnow) as (Hd & Ha & _). split; [|exact Ha].
  apply search_cache_above_dead_subtree; try assumption.
  intros k Hk. destruct (st_dc st k) as [d|] eqn:E.
  - apply (Hd k d E). apply (Hall k d Hk E).
  - unfold dc_get, dc_get_res. rewrite E. reflexivity.
Qed.

(* ---------------- regression examples: the pre-fix step function (fx = false), finding
   lease-12h-ceiling-answer-cut, fixed by c959b0e.  They say why the clamp in processDelegation
   must stay: without it the full-strength theorems above are false. *)

Definition h : Z := 3600 * 1000000000.
Definition wz : zone := [1%N].
Definition wq : zone := [1%N; 2%N].

(* root refers wz with NS TTL 48 h; the answer carries TTL 24 h; no latency anywhere *)
Definition witness_acts (store_at : Z) : list act :=
  [ ASeed 0 0 wq false 0;
    ARefer 0 (mk_ref wz 1 true 172800 None true 0 false 0 [] false true true store_at);
    AStore 0 7 (24 * h) 0 ].

Example witness_run :
  let st := run false (witness_acts 0) st_init in
  exists e l d,
    st_ans st = [e] /\ ae_lin e = [l] /\ st_dc st wz = Some d /\ d_lin d = [l] /\
    l_obs l = 0 /\ l_spec l = 12 * h /\ d_exp d = 12 * h /\ ae_end e = 24 * h /\
    (* one second after the ceiling-limited lease has ended the delegation is invisible
       and the answer learned through it is still served *)
    dc_get (st_dc st) (12 * h + 1000000000) wz = None /\
    ae_served e (12 * h + 1000000000) = true.
Proof. cbv zeta. do 3 eexists. repeat (split; [vm_compute; reflexivity|]). vm_compute; reflexivity. Qed.

(* the ceiling is anchored at the store instant, not at the observation: one second of
   validation latency is one more second of lease *)
Example witness_ceiling_anchor :
  let st := run false (witness_acts 1000000000) st_init in
  exists d l, st_dc st wz = Some d /\ d_lin d = [l] /\ l_obs l = 0 /\ d_exp d = 12 * h + 1000000000.
Proof. cbv zeta. do 2 eexists. repeat (split; [vm_compute; reflexivity|]). vm_compute; reflexivity. Qed.

(* the same history under the repaired step function *)
Example witness_fixed :
  let st := run true (witness_acts 1000000000) st_init in
  exists e d, st_ans st = [e] /\ st_dc st wz = Some d /\ d_exp d = 12 * h /\ ae_end e = 12 * h.
Proof. cbv zeta. do 2 eexists. repeat (split; [vm_compute; reflexivity|]). vm_compute; reflexivity. Qed.

(* ------------------------------------------------------------- examples *)

(* a short parent lease bounds a long child referral, a long answer and the 5 s floor *)
Definition ex_acts : list act :=
  [ ASeed 0 0 [1;2;3]%N false 0;
    ARefer 0 (mk_ref [1%N] 1 true 3 None true 10 false 11 [] false true true 12);            (* tld: 3 s *)
    ARefer 0 (mk_ref [1;2]%N 2 true 43200 (Some 7200) true 20 false 21 [(22, 23)] false true true 30);  (* child: 12 h NS, 2 h DS *)
    AStore 0 5 (600 * 1000000000) 40;                                                          (* 600 s answer *)
    AStore 0 6 1 41 ].                                                                         (* 1 ns answer: floor 5 s *)

Example ex_inherits :
  let st := run code_fx ex_acts st_init in
  option_map d_exp (st_dc st [1%N]) = Some 3000000010 /\
  option_map d_exp (st_dc st [1;2]%N) = Some 3000000010 /\
  map ae_end (st_ans st) = [3000000010; 3000000010] /\
  map ae_ttl (st_ans st) = [5000000000; 600000000000].
Proof. vm_compute. repeat split; reflexivity. Qed.

Example ex_plain_miss :
  let st := step code_fx (ASeed 0 0 [1;2]%N false 0) st_init in
  exists rs, plain_miss st 0 (mk_ref [1%N] 1 true 300 (Some 60) true 5 false 6 [] false true true 7) rs.
Proof. cbv zeta. eexists. repeat (split; [vm_compute; reflexivity|]). vm_compute; reflexivity. Qed.

(* a history in which the withdrawn child keeps talking (self-referral, upward referral,
   sideways referral, long answers) and the client keeps asking: the entry under [1] is
   exactly the one the parent granted *)
Definition ex_child_noise : list act :=
  [ ASeed 1 1 [1;9]%N false 100;
    ARefer 1 (mk_ref [1%N] 5 true 999999 None true 100 false 100 [] false true true 100);     (* self *)
    ASeed 2 2 [1;9]%N false 200;
    ARefer 2 (mk_ref [] 5 true 999999 None true 200 false 200 [] false true true 200);        (* upward *)
    ASeed 3 3 [1;9]%N false 300;
    ARefer 3 (mk_ref [1;8]%N 5 true 999999 None true 300 false 300 [] false true true 300);   (* sideways *)
    AStore 3 4 (86400 * 1000000000) 300 ].

Example ex_not_extended :
  let st0 := run code_fx [ASeed 0 0 [1;9]%N false 0;
                        ARefer 0 (mk_ref [1%N] 1 true 4 None true 0 false 0 [] false true true 0)] st_init in
  let st := run code_fx ex_child_noise st0 in
  forallb (fun a => negb (is_referral_for [1%N] a)) (tl (tl ex_child_noise)) = true /\
  option_map d_exp (st_dc st0 [1%N]) = Some 4000000000 /\
  option_map d_exp (st_dc st [1%N]) = Some 4000000000 /\
  map ae_end (st_ans st) = [4000000000].
Proof. vm_compute. repeat split; reflexivity. Qed.

(* the hypothesis of follows_parent_after_lease ("everything cached at or below z was learned through l")
   is necessary, and rightly so: once the parent side has issued a NEWER referral for z, the resolver keeps
   following that one although the old lease has run out *)
Example ex_newer_referral_is_followed :
  let s := 1000000000 in
  let st := run code_fx [ASeed 0 0 [1;9]%N false 0;
                         ARefer 0 (mk_ref [1%N] 1 true 4 None true 0 false 0 [] false true true 0);
                         ASeed 1 1 [1;9]%N false (10 * s);
                         ARefer 1 (mk_ref [1%N] 2 true 100 None true (10 * s) false (10 * s) [] false true true (10 * s))] st_init in
  m_zone (search_cache (st_dc st) (20 * s) [1;9]%N false) = [1%N] /\
  m_srv (search_cache (st_dc st) (20 * s) [1;9]%N false) = 2%N /\
  option_map d_exp (st_dc st [1%N]) = Some (110 * s).
Proof. vm_compute. repeat split; reflexivity. Qed.

(* non-vacuity of [derived_denial_dies_with_lease]: a zone delegated for 30 s whose signed denial allows 300 s - what
   the derived stores file under the tree that learned it ends with the 30 s; without any cut it would live the 300 s *)
Example ex_derived_end :
  let s := 1000000000 in
  let st := run code_fx [ASeed 0 0 [1;2]%N false 0;
                         ARefer 0 (mk_ref [1%N] 1 true 30 (Some 3600) true 0 false 0 [] false true true 0)] st_init in
  derived_end st 0%N 0 (300 * s) = 30 * s /\ mt_lin (st_meta st 0%N) <> [] /\
  derived_end st_init 0%N 0 (300 * s) = 300 * s.
Proof. vm_compute. repeat split. discriminate. Qed.
