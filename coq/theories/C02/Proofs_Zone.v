(* C02 — translator ties for the zone test behind dnsutil.FilterRRsToZone / HasNSEC3OptOut (session 5).
   Gen/C02.v holds [go_NameInZone] (+ [go_escapedDot]) and [go_HasNSEC3OptOut], translated by srcgen from
   internal/dnsutil (iface_cases: dns.RR as the sum type I_RR, *dns.NSEC3 as the record T_NSEC3).
   [gen_name_in_zone]: on the presentation strings of escape-free names (plain_name: labels non-empty, no
   '.', no backslash; names leaf first, the root is ".") the translated NameInZone decides "the zone's
   labels are a suffix of the name's labels".
   [gen_has_nsec3_optout]: on an authority section of NSEC3 records with escape-free lower-case owners
   the translated HasNSEC3OptOut is the model's ModelAuth.has_optout3 (the Opt-Out test that keeps the
   QNAME-minimised walk from stopping, and RecordNXDomainCut from admitting).
   The string lemmas first_dot_split … NameInZone_labels follow C07/Proofs_zone.v (same generated function,
   proved there about Gen/C07.v; C02 cannot import C07, which depends on C02). *)
From Sdns Require Import Common.Base Common.GoList Gen.C02 C02.Model C02.ModelNsec3 C02.ModelAuth C02.Proofs_Order C02.Proofs_Gen.
Open Scope N_scope.

Lemma firstn_snoc {A} (d : A) k l : (k < length l)%nat -> firstn (S k) l = firstn k l ++ [nth k l d].
Proof.
  revert l; induction k as [|k IH]; intros [|x l] H; cbn in H; try lia; [reflexivity|].
  change (firstn (S (S k)) (x :: l)) with (x :: firstn (S k) l).
  rewrite (IH l) by lia. reflexivity.
Qed.

(* what an accepted (name, zone) pair looks like, as octet strings in presentation format *)
Lemma NameInZone_true_shape fuel nm zone :
  go_NameInZone fuel nm zone = Some true ->
  zone = [46] \/ zone = [] \/ nm = zone \/ exists pre, nm = pre ++ [46] ++ zone.
Proof.
  unfold go_NameInZone.
  destruct (go_list_eqb N.eqb zone [46]) eqn:E1; [intros _; left; now apply go_bytes_eqb_eq|].
  destruct (go_list_eqb N.eqb zone []) eqn:E2; [intros _; right; left; now apply go_bytes_eqb_eq|].
  cbn [orb].
  destruct (go_list_eqb N.eqb nm zone) eqn:E3; [intros _; right; right; left; now apply go_bytes_eqb_eq|].
  destruct (Z.leb (go_len nm) (go_len zone)) eqn:E4; [discriminate|].
  apply Z.leb_gt in E4. unfold go_len in *.
  set (cut := (Z.of_nat (length nm) - Z.of_nat (length zone))%Z).
  destruct (negb (go_idx 0 nm (cut - 1)%Z =? 46)) eqn:E5; [discriminate|].
  destruct (negb (go_list_eqb N.eqb (go_slice_from nm cut) zone)) eqn:E6; [discriminate|].
  cbn [orb]. intros _. right; right; right.
  apply negb_false_iff in E5, E6. apply N.eqb_eq in E5. apply go_bytes_eqb_eq in E6.
  unfold go_slice_from in E6.
  assert (Hc : (0 < Z.to_nat cut)%nat) by (unfold cut; lia).
  rewrite go_idx_nth in E5 by (unfold cut; lia).
  replace (Z.to_nat (cut - 1)) with (Z.to_nat cut - 1)%nat in E5 by lia.
  set (k := Z.to_nat cut) in *.
  assert (Hk : (k <= length nm)%nat) by (unfold k, cut; lia).
  exists (firstn (k - 1) nm).
  rewrite <- (firstn_skipn k nm) at 1. rewrite E6. rewrite app_assoc. f_equal.
  replace k with (S (k - 1)) at 1 by lia.
  rewrite (firstn_snoc 0 (k - 1) nm) by lia. now rewrite E5.
Qed.

(* ---- presentation format of names whose labels hold neither a dot nor a backslash ---- *)
Definition zlabel := list N.
Definition zplain_label (l : zlabel) : Prop := l <> [] /\ Forall (fun b => b <> 46 /\ b <> 92) l.
(* labels leaf first, each followed by a dot *)
Definition pres_labels (ls : list zlabel) : list N := concat (map (fun l => l ++ [46]) ls).

Lemma pres_labels_cons l ls : pres_labels (l :: ls) = l ++ 46 :: pres_labels ls.
Proof. unfold pres_labels. cbn [map concat]. now rewrite <- app_assoc. Qed.
Lemma pres_labels_app a b : pres_labels (a ++ b) = pres_labels a ++ pres_labels b.
Proof. unfold pres_labels. now rewrite map_app, concat_app. Qed.

(* the first dot of two equal strings sits at the same place *)
Lemma first_dot_split (l pre A B : list N) :
  Forall (fun b => b <> 46) l -> l ++ 46 :: A = pre ++ 46 :: B ->
  (pre = l /\ A = B) \/ (exists pre', pre = l ++ 46 :: pre' /\ A = pre' ++ 46 :: B) \/
  (exists l2, l = pre ++ 46 :: l2).
Proof.
  revert pre; induction l as [|c l IH]; intros pre Hl E.
  - destruct pre as [|x pre]; cbn in E.
    + injection E as E. left. split; [reflexivity|exact E].
    + injection E as -> E. right; left. exists pre. split; [reflexivity|exact E].
  - destruct pre as [|x pre]; cbn in E.
    + injection E as -> E. right; right. exists l. reflexivity.
    + injection E as -> E. inversion Hl as [|? ? Hc Hl']; subst.
      destruct (IH pre Hl' E) as [[-> ->]|[[pre' [-> ->]]|[l2 ->]]].
      * left. split; reflexivity.
      * right; left. exists pre'. split; reflexivity.
      * right; right. exists l2. reflexivity.
Qed.

Lemma plain_no_dot l : zplain_label l -> Forall (fun b => b <> 46) l.
Proof. intros [_ H]. eapply Forall_impl; [|exact H]. cbn. tauto. Qed.

Lemma no_dot_absurd (pre l2 : list N) : Forall (fun b => b <> 46) (pre ++ 46 :: l2) -> False.
Proof. intros H. apply Forall_app in H as [_ H]. inversion H; subst. congruence. Qed.

Lemma pres_labels_inj ns : forall zs, Forall zplain_label ns -> Forall zplain_label zs ->
  pres_labels ns = pres_labels zs -> ns = zs.
Proof.
  induction ns as [|l ns IH]; intros [|m zs] Hn Hz E.
  - reflexivity.
  - rewrite pres_labels_cons in E. destruct m; discriminate.
  - rewrite pres_labels_cons in E. destruct l; discriminate.
  - rewrite !pres_labels_cons in E. inversion Hn; inversion Hz; subst.
    destruct (first_dot_split l m _ _ (plain_no_dot _ H1) E) as [[-> E']|[[pre' [-> _]]|[l2 ->]]].
    + f_equal. apply IH; assumption.
    + exfalso. eapply no_dot_absurd. apply plain_no_dot. eassumption.
    + exfalso. eapply no_dot_absurd. apply plain_no_dot. eassumption.
Qed.

(* a suffix that starts right behind a dot starts at a label boundary *)
Lemma suffix_aligned ns : forall pre zs, Forall zplain_label ns -> Forall zplain_label zs ->
  pres_labels ns = pre ++ 46 :: pres_labels zs -> exists t, ns = t ++ zs.
Proof.
  induction ns as [|l ns IH]; intros pre zs Hn Hz E.
  - destruct pre; discriminate.
  - rewrite pres_labels_cons in E. inversion Hn; subst.
    destruct (first_dot_split l pre _ _ (plain_no_dot _ H1) E) as [[-> E']|[[pre' [-> E']]|[l2 ->]]].
    + exists [l]. cbn. f_equal. apply pres_labels_inj; assumption.
    + destruct (IH pre' zs H2 Hz E') as [t ->]. exists (l :: t). reflexivity.
    + exfalso. eapply no_dot_absurd. apply plain_no_dot. eassumption.
Qed.

Lemma pres_labels_no_backslash ns : Forall zplain_label ns -> Forall (fun b => b <> 92) (pres_labels ns).
Proof.
  induction ns as [|l ns IH]; intros H; [constructor|]. inversion H as [|? ? [_ Hl] H']; subst.
  rewrite pres_labels_cons. apply Forall_app. split.
  - eapply Forall_impl; [|exact Hl]. cbn. tauto.
  - constructor; [lia|]. now apply IH.
Qed.

Lemma escapedDot_no_backslash fuel nm i :
  (0 < fuel)%nat -> Forall (fun b => b <> 92) nm -> go_escapedDot fuel nm i = Some false.
Proof.
  intros Hf Hn. unfold go_escapedDot. destruct fuel as [|f]; [lia|]. cbn [go_escapedDot_loop1].
  assert (E : (go_idx 0 nm (i - 1)%Z =? 92) = false).
  { apply N.eqb_neq. unfold go_idx. destruct (Z.ltb (i - 1) 0); [lia|].
    destruct (nth_in_or_default (Z.to_nat (i - 1)) nm 0) as [Hin| ->]; [|lia].
    rewrite Forall_forall in Hn. exact (Hn _ Hin). }
  rewrite E, andb_false_r. reflexivity.
Qed.

Lemma pres_labels_len ls : ls <> [] -> Forall zplain_label ls -> (2 <= length (pres_labels ls))%nat.
Proof.
  destruct ls as [|l ls]; [congruence|]. intros _ H. inversion H as [|? ? [Hl _] _]; subst.
  rewrite pres_labels_cons, app_length. destruct l; [congruence|]. cbn. lia.
Qed.

Lemma pres_labels_last_dot t : t <> [] -> exists s, pres_labels t = s ++ [46].
Proof.
  intros H. destruct (exists_last H) as [t' [l ->]].
  rewrite pres_labels_app. unfold pres_labels at 2. cbn [map concat]. rewrite app_nil_r.
  exists (pres_labels t' ++ l). now rewrite app_assoc.
Qed.

Lemma go_list_eqb_refl (a : list N) : go_list_eqb N.eqb a a = true.
Proof. now apply go_bytes_eqb_eq. Qed.

Lemma NameInZone_complete fuel t zs :
  (0 < fuel)%nat -> Forall zplain_label t -> Forall zplain_label zs ->
  go_NameInZone fuel (pres_labels (t ++ zs)) (pres_labels zs) = Some true.
Proof.
  intros Hf Ht Hz. rewrite pres_labels_app.
  assert (Hnb : Forall (fun b => b <> 92) (pres_labels t ++ pres_labels zs))
    by (apply Forall_app; split; apply pres_labels_no_backslash; assumption).
  set (T := pres_labels t) in *. set (Z := pres_labels zs) in *.
  unfold go_NameInZone. rewrite (escapedDot_no_backslash fuel _ _ Hf Hnb).
  destruct (go_list_eqb N.eqb Z [46] || go_list_eqb N.eqb Z []); [reflexivity|].
  destruct (go_list_eqb N.eqb (T ++ Z) Z) eqn:E3; [reflexivity|].
  assert (HT : T <> []) by (intros ->; cbn in E3; rewrite go_list_eqb_refl in E3; discriminate).
  unfold go_len. rewrite app_length.
  destruct (Z.leb (Z.of_nat (length T + length Z)) (Z.of_nat (length Z))) eqn:E4.
  { apply Z.leb_le in E4. destruct T; [congruence|cbn in E4; lia]. }
  assert (Ht' : t <> []) by (intros ->; apply HT; reflexivity).
  destruct (pres_labels_last_dot t Ht') as [s Hs]. fold T in Hs.
  replace (Z.of_nat (length T + length Z) - Z.of_nat (length Z))%Z with (Z.of_nat (length T)) by lia.
  assert (Hlen : length T = S (length s)) by (rewrite Hs, app_length; cbn; lia).
  rewrite go_idx_nth by lia.
  replace (Z.to_nat (Z.of_nat (length T) - 1)) with (length s) by lia.
  rewrite Hs at 1. rewrite <- app_assoc. rewrite app_nth2 by lia. rewrite Nat.sub_diag. cbn [app nth].
  rewrite N.eqb_refl. cbn [negb orb].
  unfold go_slice_from. rewrite Nat2Z.id. rewrite skipn_app, skipn_all, Nat.sub_diag. cbn [skipn app].
  rewrite go_list_eqb_refl. reflexivity.
Qed.

Lemma NameInZone_labels fuel ns zs :
  (0 < fuel)%nat -> Forall zplain_label ns -> Forall zplain_label zs -> zs <> [] ->
  exists b, go_NameInZone fuel (pres_labels ns) (pres_labels zs) = Some b /\ (b = true <-> exists t, ns = t ++ zs).
Proof.
  intros Hf Hn Hz Hz0.
  assert (Hex : exists b, go_NameInZone fuel (pres_labels ns) (pres_labels zs) = Some b).
  { unfold go_NameInZone. rewrite (escapedDot_no_backslash fuel _ _ Hf (pres_labels_no_backslash _ Hn)).
    repeat match goal with |- context [if ?c then _ else _] => destruct c end; eauto. }
  destruct Hex as [b Hb]. exists b. split; [exact Hb|].
  pose proof (pres_labels_len zs Hz0 Hz) as Hlen.
  destruct b; split; intros H; try reflexivity.
  - destruct (NameInZone_true_shape _ _ _ Hb) as [E|[E|[E|[pre E]]]].
    + rewrite E in Hlen. cbn in Hlen. lia.
    + rewrite E in Hlen. cbn in Hlen. lia.
    + exists []. cbn. apply pres_labels_inj; assumption.
    + cbn [app] in E. eapply suffix_aligned; eassumption.
  - discriminate.
  - destruct H as [t ->]. apply Forall_app in Hn as [Ht _].
    rewrite (NameInZone_complete fuel t zs Hf Ht Hz) in Hb. discriminate.
Qed.

(* ---- bridge to the presentation strings of Proofs_Gen (pres / present / plain_name) *)
Lemma pres_is_pres_labels (n : name) : pres n = pres_labels n.
Proof. unfold pres, pres_labels. apply flat_map_concat_map. Qed.
Lemma plain_label_z l : plain_label l -> zplain_label l.
Proof.
  intros [H0 [H46 H92]]. split; [exact H0|]. apply Forall_forall. intros b Hb. split; intros ->; tauto.
Qed.
Lemma plain_name_z n : plain_name n -> Forall zplain_label n.
Proof. intros H. eapply Forall_impl; [|exact H]. apply plain_label_z. Qed.

(* THE TIE for dnsutil.NameInZone: on escape-free names it decides the label-suffix relation *)
Theorem gen_name_in_zone_lemma fuel (ns zs : name) :
  (0 < fuel)%nat -> plain_name ns -> plain_name zs ->
  exists b, go_NameInZone fuel (present ns) (present zs) = Some b /\ (b = true <-> exists t, ns = t ++ zs).
Proof.
  intros Hf Hn Hz. destruct zs as [|z zs].
  - exists true. split; [reflexivity|]. split; [intros _; exists ns; now rewrite app_nil_r|reflexivity].
  - destruct ns as [|x ns].
    + exists false. split.
      * cbn [present]. rewrite pres_is_pres_labels.
        pose proof (pres_labels_len (z :: zs) ltac:(discriminate) (plain_name_z _ Hz)) as Hlen.
        unfold go_NameInZone.
        destruct (go_list_eqb N.eqb (pres_labels (z :: zs)) [46]) eqn:E1.
        { apply go_bytes_eqb_eq in E1. rewrite E1 in Hlen. cbn in Hlen. lia. }
        destruct (go_list_eqb N.eqb (pres_labels (z :: zs)) []) eqn:E2.
        { apply go_bytes_eqb_eq in E2. rewrite E2 in Hlen. cbn in Hlen. lia. }
        cbn [orb].
        destruct (go_list_eqb N.eqb [46] (pres_labels (z :: zs))) eqn:E3.
        { apply go_bytes_eqb_eq in E3. rewrite <- E3 in Hlen. cbn in Hlen. lia. }
        replace (Z.leb (go_len [46]) (go_len (pres_labels (z :: zs)))) with true; [reflexivity|].
        symmetry. apply Z.leb_le. unfold go_len. cbn [length]. lia.
      * split; [discriminate|]. intros [t E]. destruct t; discriminate.
    + cbn [present]. rewrite !pres_is_pres_labels.
      apply NameInZone_labels; auto using plain_name_z. discriminate.
Qed.

(* ------------------------------------------------------------ dnsutil.HasNSEC3OptOut *)
Definition lower_byte (b : N) : Prop := ~ (65 <= b /\ b <= 90).
Definition lower_name (n : name) : Prop := Forall (Forall lower_byte) n.

Lemma fold_byte_lower b : lower_byte b -> fold_byte b = b.
Proof. unfold lower_byte, fold_byte. intros H. destruct ((65 <=? b) && (b <=? 90)) eqn:E; [lia|reflexivity]. Qed.
Lemma go_lower_byte_lower b : lower_byte b -> go_ascii_lower_byte b = b.
Proof. unfold lower_byte, go_ascii_lower_byte. intros H. destruct ((65 <=? b) && (b <=? 90)) eqn:E; [lia|reflexivity]. Qed.
Lemma map_id_on {A} (f : A -> A) l : Forall (fun x => f x = x) l -> map f l = l.
Proof. induction 1; cbn; congruence. Qed.
Lemma canon_lower n : lower_name n -> canon n = rev n.
Proof.
  intros H. unfold canon. f_equal. apply map_id_on. eapply Forall_impl; [|exact H].
  intros l Hl. apply map_id_on. eapply Forall_impl; [|exact Hl]. apply fold_byte_lower.
Qed.
Lemma ascii_lower_pres n : lower_name n -> go_ascii_lower (pres n) = pres n.
Proof.
  intros H. unfold go_ascii_lower. apply map_id_on. unfold pres.
  apply Forall_forall. intros b Hb. apply in_flat_map in Hb. destruct Hb as [l [Hl Hb]].
  apply go_lower_byte_lower. apply in_app_iff in Hb. destruct Hb as [Hb|[<-|[]]].
  - unfold lower_name in H. rewrite Forall_forall in H. specialize (H l Hl). rewrite Forall_forall in H. exact (H b Hb).
  - unfold lower_byte. lia.
Qed.
Lemma ascii_lower_present n : lower_name n -> go_ascii_lower (present n) = present n.
Proof. destruct n; [reflexivity|]. intros H. cbn [present]. apply (ascii_lower_pres _ H). Qed.

Lemma trailing_backslashes_0 b r : b <> 92 -> go_trailing_backslashes (b :: r) = O.
Proof.
  intros H. destruct b as [|p]; [reflexivity|].
  do 7 (destruct p as [p|p|]; try reflexivity). all: try reflexivity. all: congruence.
Qed.
Lemma present_ends_dot n : plain_name n -> exists s, present n = s ++ [46] /\ ~ In 92 s.
Proof.
  intros H. destruct n as [|x n]; [exists []; cbn; tauto|].
  cbn [present]. destruct (exists_last (l := x :: n) ltac:(discriminate)) as [n' [l E]]. rewrite E in *.
  rewrite pres_app. exists (pres n' ++ l). split.
  - unfold pres at 2. cbn. rewrite app_nil_r. now rewrite app_assoc.
  - apply Forall_app in H. destruct H as [H1 H2]. inversion H2 as [|? ? [_ [_ Hl]] _]; subst.
    rewrite in_app_iff. intros [X|X]; [exact (pres_no92 _ H1 X)|tauto].
Qed.
Lemma is_fqdn_present n : plain_name n -> go_is_fqdn_ascii (present n) = true.
Proof.
  intros H. destruct (present_ends_dot n H) as [s [-> Hs]]. unfold go_is_fqdn_ascii.
  rewrite rev_app_distr. cbn [rev app].
  destruct (rev s) as [|b r] eqn:E; [reflexivity|].
  rewrite trailing_backslashes_0; [reflexivity|]. intros ->. apply Hs. apply in_rev. rewrite E. left. reflexivity.
Qed.
Lemma canonical_present n : plain_name n -> lower_name n -> go_canonical_name_ascii (present n) = present n.
Proof.
  intros Hp Hl. unfold go_canonical_name_ascii, go_fqdn_ascii. rewrite (is_fqdn_present _ Hp). apply ascii_lower_present, Hl.
Qed.

(* label suffix (names leaf first) = prefix of the canonical, root-first names *)
Lemma suffix_iff_prefix_canon (sg zone : name) : lower_name sg -> lower_name zone ->
  ((exists t, zone = t ++ sg) <-> prefix_b (canon sg) (canon zone) = true).
Proof.
  intros Hs Hz. rewrite (canon_lower _ Hs), (canon_lower _ Hz). rewrite prefix_b_spec. split.
  - intros [t ->]. exists (rev t). apply rev_app_distr.
  - intros [s E]. exists (rev s). apply (f_equal (@rev _)) in E. rewrite rev_involutive, rev_app_distr, rev_involutive in E. exact E.
Qed.

(* an NSEC3 record of the authority section as the translated code sees it: hash label + the model record *)
Definition rr3_of (p : list N * nsec3) : I_RR :=
  let r := snd p in
  I_RR_of_NSEC3 (mk_T_NSEC3 (mk_T_RR_Header (present (fst p :: r_zone r)) 50 (r_class r) 0 0)
                            (r_alg r) (r_flags r) (r_iter r) (N.of_nat (length (r_salt r))) (r_salt r) (r_hashlen r) [] (r_types r)).
Definition rec3_ok (signer : name) (p : list N * nsec3) : Prop :=
  plain_label (fst p) /\ Forall lower_byte (fst p) /\ plain_name (r_zone (snd p)) /\ lower_name (r_zone (snd p)) /\
  fst p :: r_zone (snd p) <> signer.

Lemma rr3_in_zone fuel signer p :
  (0 < fuel)%nat -> plain_name signer -> lower_name signer -> rec3_ok signer p ->
  go_NameInZone fuel (go_canonical_name_ascii (present (fst p :: r_zone (snd p)))) (present signer)
    = Some (prefix_b (canon signer) (canon (r_zone (snd p)))).
Proof.
  intros Hf Hps Hls (Hpl & Hll & Hpz & Hlz & Hne).
  assert (Hpo : plain_name (fst p :: r_zone (snd p))) by (constructor; assumption).
  assert (Hlo : lower_name (fst p :: r_zone (snd p))) by (constructor; assumption).
  rewrite (canonical_present _ Hpo Hlo).
  destruct (gen_name_in_zone_lemma fuel _ _ Hf Hpo Hps) as [b [-> Hb]]. f_equal.
  destruct (prefix_b (canon signer) (canon (r_zone (snd p)))) eqn:E.
  - apply Hb. apply (suffix_iff_prefix_canon _ _ Hls Hlz) in E. destruct E as [t E].
    exists (fst p :: t). cbn. now rewrite E.
  - destruct b; [|reflexivity]. exfalso.
    destruct (proj1 Hb eq_refl) as [t Et]. destruct t as [|x t]; [cbn in Et; congruence|].
    cbn in Et. injection Et as _ Et.
    assert (prefix_b (canon signer) (canon (r_zone (snd p))) = true) as X
      by (apply (suffix_iff_prefix_canon _ _ Hls Hlz); exists t; exact Et).
    rewrite X in E. discriminate.
Qed.

Lemma has_optout_loop fuel signer vr vz : (0 < fuel)%nat -> plain_name signer -> lower_name signer ->
  forall rs pre, Forall (rec3_ok signer) rs ->
  go_HasNSEC3OptOut_loop1 fuel (pre ++ map rr3_of rs) (S (length rs)) (Z.of_nat (length pre)) vr vz (present signer)
  = ((if has_optout3 (canon signer) (map snd rs) then GoRet true else GoNext), (vr, vz, present signer)).
Proof.
  intros Hf Hps Hls. induction rs as [|p rs IH]; intros pre Hok.
  - cbn [map length go_HasNSEC3OptOut_loop1 has_optout3 existsb]. rewrite app_nil_r.
    unfold go_len. rewrite Z.ltb_irrefl. reflexivity.
  - inversion Hok as [|? ? Hp Hrs]; subst.
    cbn [map length]. cbn [go_HasNSEC3OptOut_loop1].
    unfold go_len at 1. rewrite app_length. cbn [length].
    replace (Z.of_nat (length pre) <? Z.of_nat (length pre + S (length (map rr3_of rs))))%Z with true by (symmetry; apply Z.ltb_lt; lia).
    rewrite go_idx_nth by lia. rewrite Nat2Z.id. rewrite app_nth2 by lia. rewrite Nat.sub_diag. cbn [nth].
    unfold rr3_of at 1. cbn [T_NSEC3_Hdr T_RR_Header_Name T_NSEC3_Flags].
    rewrite (rr3_in_zone fuel signer p Hf Hps Hls Hp). cbn [negb orb].
    unfold has_optout3. cbn [existsb]. fold (has_optout3 (canon signer) (map snd rs)).
    destruct gen_optout_masks as (_ & _ & _ & ->).
    specialize (IH (pre ++ [rr3_of p]) Hrs).
    assert (Hnext : go_HasNSEC3OptOut_loop1 fuel (pre ++ rr3_of p :: map rr3_of rs) (S (length rs))
                      (Z.of_nat (length pre) + 1) vr vz (present signer)
                    = ((if has_optout3 (canon signer) (map snd rs) then GoRet true else GoNext), (vr, vz, present signer))).
    { rewrite <- IH. rewrite <- app_assoc. cbn [app]. rewrite app_length. cbn [length].
      replace (Z.of_nat (length pre + 1)) with (Z.of_nat (length pre) + 1)%Z by lia. reflexivity. }
    destruct (prefix_b (canon signer) (canon (r_zone (snd p)))); cbn [negb andb orb].
    + destruct (N.land (r_flags (snd p)) 1 =? 0); cbn [negb]; [exact Hnext|reflexivity].
    + exact Hnext.
Qed.

(* THE TIE for dnsutil.HasNSEC3OptOut *)
Theorem gen_has_nsec3_optout_lemma fuel signer rs :
  (0 < fuel)%nat -> plain_name signer -> lower_name signer -> Forall (rec3_ok signer) rs ->
  go_HasNSEC3OptOut fuel (map rr3_of rs) (present signer) = Some (has_optout3 (canon signer) (map snd rs)).
Proof.
  intros Hf Hps Hls Hok. unfold go_HasNSEC3OptOut. rewrite (canonical_present _ Hps Hls).
  rewrite map_length.
  pose proof (has_optout_loop fuel signer (map rr3_of rs) (present signer) Hf Hps Hls rs [] Hok) as L.
  cbn [app length] in L. change (Z.of_nat 0) with 0%Z in L. rewrite L.
  destruct (has_optout3 (canon signer) (map snd rs)); reflexivity.
Qed.

(* non-vacuity: the generated code evaluated — a.b. is in b., a\.b. (one label "a.b") is not, everything is in the
   root, fuel 0 = None where the escape scan is reached; an Opt-Out NSEC3 h.b. counts for the signer b., a cleared
   flag or an owner in c. does not; the hypotheses of the tie hold for these records *)
Example gen_zone_examples :
  go_NameInZone 5 [97;46;98;46] [98;46] = Some true /\
  go_NameInZone 5 [97;92;46;98;46] [98;46] = Some false /\
  go_NameInZone 5 [97;46;98;46] [46] = Some true /\
  go_NameInZone 0 [97;46;98;46] [98;46] = None /\
  let r (z : N) (fl : N) := ([104], mk_nsec3 [[z]] None None 20 1 fl 0 [] 1 []) in
  go_HasNSEC3OptOut 5 (map rr3_of [r 98 0; r 98 1]) (present [[98]]) = Some true /\
  go_HasNSEC3OptOut 5 (map rr3_of [r 98 0; r 99 1]) (present [[98]]) = Some false /\
  has_optout3 (canon [[98]]) (map snd [r 98 0; r 98 1]) = true /\
  Forall (rec3_ok [[98]]) [r 98 0; r 98 1; r 99 1] /\ plain_name [[98]] /\ lower_name [[98]].
Proof.
  repeat split; try (vm_compute; reflexivity);
  repeat match goal with
  | |- Forall _ [] => apply Forall_nil
  | |- Forall _ (_ :: _) => apply Forall_cons
  | |- _ /\ _ => split
  | |- rec3_ok _ _ => unfold rec3_ok; cbn [fst snd r_zone]
  | |- plain_label _ => unfold plain_label
  | |- plain_name _ => unfold plain_name
  | |- lower_name _ => unfold lower_name
  | |- lower_byte _ => unfold lower_byte; lia
  | |- _ <> _ => discriminate
  | |- ~ In _ _ => cbn; intros [X|X]; [discriminate X|exact X]
  end.
Qed.
