(* C02 — translator ties of wave 9: dnssec.typesSet (a map[uint16]struct{} built from the wanted types, then a scan
   of the type bitmap: the test behind "a type that is present is never reported absent" in every verifier and
   evaluator) and dnssec.aggressiveNSEC3Covers (bytes.Compare on owner / next / name hashes: the NSEC3 interval test
   of the RFC 8198 evaluator), translated by srcgen on every run (maps as association lists, bytes.Compare as
   go_bytes_compare) and proved equal to the model's types_set / covers3. *)
From Sdns Require Import Common.Base Common.GoList Gen.C02 C02.Model C02.ModelNsec3.
Open Scope N_scope.

(* ------------------------------------------------------------ typesSet *)
Lemma existsb_map' {A B} (f : B -> bool) (g : A -> B) l : existsb f (map g l) = existsb (fun x => f (g x)) l.
Proof. induction l; cbn; congruence. Qed.
Lemma existsb_ext' {A} (f g : A -> bool) l : (forall x, f x = g x) -> existsb f l = existsb g l.
Proof. intros H. induction l; cbn; [reflexivity|]. rewrite H, IHl. reflexivity. Qed.
Lemma map_has_set (m : list (N * bool)) t k :
  go_map_has N.eqb (go_map_set N.eqb m t true) k = go_map_has N.eqb m k || (t =? k).
Proof.
  unfold go_map_set. destruct (go_map_has N.eqb m t) eqn:Eh.
  - unfold go_map_has in *. rewrite existsb_map'.
    destruct (t =? k) eqn:Etk.
    + apply N.eqb_eq in Etk. subst k. rewrite orb_true_r.
      apply existsb_exists in Eh. destruct Eh as [p [Hp E]]. apply existsb_exists. exists p. split; [exact Hp|].
      rewrite E. cbn. apply N.eqb_refl.
    + rewrite orb_false_r. apply existsb_ext'. intros p.
      destruct (fst p =? t) eqn:E; [|reflexivity]. cbn. apply N.eqb_eq in E. rewrite E. rewrite Etk. reflexivity.
  - unfold go_map_has. rewrite existsb_app. cbn. rewrite orb_false_r. reflexivity.
Qed.

Lemma types_loop1 set types : forall rest pre tm,
  go_typesSet_loop1 (pre ++ rest) (S (length rest)) (Z.of_nat (length pre)) set types tm
  = (GoNext, (set, types, fold_left (fun m t => go_map_set N.eqb m t true) rest tm)).
Proof.
  induction rest as [|t rest IH]; intros pre tm.
  - cbn [go_typesSet_loop1 length fold_left]. rewrite app_nil_r. unfold go_len. rewrite Z.ltb_irrefl. reflexivity.
  - cbn [length]. cbn [go_typesSet_loop1]. unfold go_len at 1. rewrite app_length. cbn [length].
    replace (Z.of_nat (length pre) <? Z.of_nat (length pre + S (length rest)))%Z with true by (symmetry; apply Z.ltb_lt; lia).
    rewrite go_idx_nth by lia. rewrite Nat2Z.id. rewrite app_nth2 by lia. rewrite Nat.sub_diag. cbn [nth fold_left].
    specialize (IH (pre ++ [t]) (go_map_set N.eqb tm t true)).
    rewrite <- app_assoc in IH. cbn [app] in IH. rewrite app_length in IH. cbn [length] in IH.
    replace (Z.of_nat (length pre + 1)) with (Z.of_nat (length pre) + 1)%Z in IH by lia. exact IH.
Qed.

Lemma map_has_fold rest : forall (tm : list (N * bool)) k,
  go_map_has N.eqb (fold_left (fun m t => go_map_set N.eqb m t true) rest tm) k
  = go_map_has N.eqb tm k || existsb (N.eqb k) rest.
Proof.
  induction rest as [|t rest IH]; intros tm k; cbn [fold_left existsb].
  - rewrite orb_false_r. reflexivity.
  - rewrite IH, map_has_set. rewrite <- orb_assoc. f_equal. f_equal. apply N.eqb_sym.
Qed.

Lemma types_loop2 set types tm : forall rest pre,
  go_typesSet_loop2 (pre ++ rest) (S (length rest)) (Z.of_nat (length pre)) set types tm
  = ((if existsb (go_map_has N.eqb tm) rest then GoRet true else GoNext), (set, types, tm)).
Proof.
  induction rest as [|t rest IH]; intros pre.
  - cbn [go_typesSet_loop2 length existsb]. rewrite app_nil_r. unfold go_len. rewrite Z.ltb_irrefl. reflexivity.
  - cbn [length]. cbn [go_typesSet_loop2]. unfold go_len at 1. rewrite app_length. cbn [length].
    replace (Z.of_nat (length pre) <? Z.of_nat (length pre + S (length rest)))%Z with true by (symmetry; apply Z.ltb_lt; lia).
    rewrite go_idx_nth by lia. rewrite Nat2Z.id. rewrite app_nth2 by lia. rewrite Nat.sub_diag. cbn [nth existsb].
    destruct (go_map_has N.eqb tm t); cbn [orb]; [reflexivity|].
    specialize (IH (pre ++ [t])).
    rewrite <- app_assoc in IH. cbn [app] in IH. rewrite app_length in IH. cbn [length] in IH.
    replace (Z.of_nat (length pre + 1)) with (Z.of_nat (length pre) + 1)%Z in IH by lia. exact IH.
Qed.

(* THE TIE for dnssec.typesSet: for every bitmap and every list of wanted types *)
Theorem gen_types_set_lemma set types : go_typesSet set types = types_set set types.
Proof.
  assert (E : existsb (go_map_has N.eqb (fold_left (fun m t => go_map_set N.eqb m t true) types [])) set
              = types_set set types).
  { unfold types_set. apply existsb_ext'. intros k. rewrite map_has_fold. reflexivity. }
  unfold go_typesSet.
  pose proof (types_loop1 set types types [] []) as L1. cbn [app length] in L1. change (Z.of_nat 0) with 0%Z in L1. rewrite L1.
  pose proof (types_loop2 set types (fold_left (fun m t => go_map_set N.eqb m t true) types []) set []) as L2.
  cbn [app length] in L2. change (Z.of_nat 0) with 0%Z in L2. rewrite L2. rewrite E.
  destruct (types_set set types); reflexivity.
Qed.

(* ------------------------------------------------------------ aggressiveNSEC3Covers *)
(* the number a hash octet string denotes (big endian) *)
Fixpoint be (l : list N) : N := match l with [] => 0 | x :: t => x * 256 ^ N.of_nat (length t) + be t end.
Definition octets (l : list N) : Prop := Forall (fun b => b < 256) l.

Lemma be_bound l : octets l -> be l < 256 ^ N.of_nat (length l).
Proof.
  induction 1 as [|x t Hx Ht IH]; cbn [be length]; [cbn; lia|].
  rewrite Nat2N.inj_succ, N.pow_succ_r'. nia.
Qed.

(* bytes.Compare on octet strings of equal length is the order of the numbers they denote *)
Lemma bytes_compare_be a : forall b, length a = length b -> octets a -> octets b ->
  Z.compare (go_bytes_compare a b) 0 = N.compare (be a) (be b).
Proof.
  induction a as [|x a IH]; intros [|y b] Hl Ha Hb; cbn in Hl; try lia; [reflexivity|].
  injection Hl as Hl. inversion Ha as [|? ? Hx Ha']; inversion Hb as [|? ? Hy Hb']; subst.
  cbn [go_bytes_compare be]. rewrite Hl.
  pose proof (be_bound a Ha') as Ba. pose proof (be_bound b Hb') as Bb. rewrite Hl in Ba.
  set (P := 256 ^ N.of_nat (length b)) in *.
  destruct (x <? y) eqn:E1.
  - apply N.ltb_lt in E1. cbn. symmetry. apply N.compare_lt_iff. nia.
  - destruct (y <? x) eqn:E2.
    + apply N.ltb_lt in E2. cbn. symmetry. apply N.compare_gt_iff. nia.
    + apply N.ltb_ge in E1, E2. assert (x = y) by lia. subst y.
      rewrite (IH b Hl Ha' Hb'). destruct (N.compare_spec (be a) (be b)) as [E|E|E].
      * rewrite E. symmetry. apply N.compare_refl.
      * symmetry. apply N.compare_lt_iff. nia.
      * symmetry. apply N.compare_gt_iff. nia.
Qed.

Lemma zcmp_eqb z c : Z.compare z 0 = c -> (z =? 0)%Z = is_eq c /\ (z <? 0)%Z = is_lt c /\ (0 <? z)%Z = is_gt c.
Proof.
  intros <-. destruct (Z.compare_spec z 0) as [E|E|E]; cbn; repeat split;
    try (apply Z.eqb_eq; lia); try (apply Z.eqb_neq; lia); try (apply Z.ltb_lt; lia); try (apply Z.ltb_ge; lia).
Qed.

(* THE TIE for dnssec.aggressiveNSEC3Covers: an entry whose owner hash, next hash and the name's hash are octet
   strings of one length (SHA-1: 20 octets) — the translated interval test is the model's covers3 on the numbers they
   denote; every other field of the entry is arbitrary *)
Theorem gen_nsec3_covers_lemma (rr : T_NSEC3) (oh nh h : list N) flags types idx :
  length oh = length h -> length nh = length h -> octets oh -> octets nh -> octets h ->
  go_aggressiveNSEC3Covers (mk_T_aggressiveNSEC3Entry rr oh nh) h
  = covers3 (mk_entry3 (be oh) (be nh) flags types idx) (be h).
Proof.
  intros L1 L2 Ho Hn Hh. unfold go_aggressiveNSEC3Covers, covers3, covers_of_cmps.
  cbn [T_aggressiveNSEC3Entry_ownerHash T_aggressiveNSEC3Entry_nextHash e_oh e_nh].
  destruct (zcmp_eqb _ _ (bytes_compare_be oh nh ltac:(congruence) Ho Hn)) as (A1 & A2 & _).
  destruct (zcmp_eqb _ _ (bytes_compare_be h oh ltac:(congruence) Hh Ho)) as (B1 & _ & B3).
  destruct (zcmp_eqb _ _ (bytes_compare_be h nh ltac:(congruence) Hh Hn)) as (_ & C2 & _).
  rewrite A1, A2, B1, B3, C2.
  destruct (be oh ?= be nh); cbn; reflexivity.
Qed.

(* non-vacuity: the generated code evaluated *)
Example gen_sets_examples :
  go_typesSet [1; 2; 46; 47] [6; 2] = true /\ go_typesSet [1; 46; 47] [2; 6] = false /\ go_typesSet [] [1] = false /\
  go_typesSet [1] [] = false /\ go_typesSet [5; 5; 1] [1; 1] = true /\
  let e := mk_T_aggressiveNSEC3Entry (mk_T_NSEC3 (mk_T_RR_Header [] 50 1 0 0) 1 0 0 0 [] 20 [] []) [0; 200] [1; 7] in
  go_aggressiveNSEC3Covers e [1; 0] = true /\ go_aggressiveNSEC3Covers e [1; 7] = false /\ go_aggressiveNSEC3Covers e [0; 200] = false /\
  go_aggressiveNSEC3Covers (mk_T_aggressiveNSEC3Entry (T_aggressiveNSEC3Entry_rr e) [1; 7] [0; 200]) [0; 5] = true /\
  be [1; 7] = 263 /\ covers3 (mk_entry3 (be [0; 200]) (be [1; 7]) 0 [] 0) (be [1; 0]) = true.
Proof. vm_compute. repeat split; reflexivity. Qed.
