(* C02 — denial of existence: executable model of
     internal/dnsname      CanonicalCompare, CompareSuffix
     internal/dnsutil      FilterRRsToZone / NameInZone, DnameTarget
     resolver/dnssec       nsec.go (VerifyNameErrorNSEC, VerifyNODATANSEC,
                           VerifyDelegationNSEC, closestEncloserFromNSEC, nsecCovers)
                           aggressive_negative.go (EvaluateAggressiveNSEC, …Prepared, …Set,
                           classifier, interval rule, closest encloser)
   Definitions only.  NSEC3 is in ModelNsec3.v, the subtree-cut cache in
   ModelCut.v, the reference zone semantics (the specification) in Spec.v.

   Names.  The Go code works on presentation strings; every name it sees
   in production was produced by miekg/dns from wire labels, so a name is
   modelled as its list of labels (a label = list of octets), leaf first,
   exactly as written: [www; example; com].  The driver converts each
   string it hands to the real code back to labels with the library's own
   packer.  [canon] is the canonical form every comparison in the code is
   (provably, see Proofs_Order.v) a function of: ASCII-folded, root first. *)
From Coq Require Import String Ascii.
From Sdns Require Import Common.Base Gen.C02.
Open Scope N_scope.

Definition label := list N.
Definition name := list label.    (* leaf first, case as given *)
Definition rname := list label.   (* root first, folded *)

Definition fold_byte (b : N) : N := if (65 <=? b) && (b <=? 90) then b + 32 else b.
Definition fold_label (l : label) : label := map fold_byte l.
Definition canon (n : name) : rname := rev (map fold_label n).

(* lexicographic order, proper prefix first *)
Fixpoint lex {A} (c : A -> A -> comparison) (a b : list A) : comparison :=
  match a, b with
  | [], [] => Eq
  | [], _ :: _ => Lt
  | _ :: _, [] => Gt
  | x :: a', y :: b' => match c x y with Eq => lex c a' b' | r => r end
  end.
(* bytes.Compare on two labels / compareDecodedFold after folding *)
Definition lcmp : label -> label -> comparison := lex N.compare.
(* RFC 4034 §6.1 canonical name order on canonical names *)
Definition ncmp : rname -> rname -> comparison := lex lcmp.

Definition is_lt (c : comparison) := match c with Lt => true | _ => false end.
Definition is_gt (c : comparison) := match c with Gt => true | _ => false end.
Definition is_eq (c : comparison) := match c with Eq => true | _ => false end.

Fixpoint list_eqb {A} (e : A -> A -> bool) (a b : list A) : bool :=
  match a, b with
  | [], [] => true
  | x :: a', y :: b' => e x y && list_eqb e a' b'
  | _, _ => false
  end.
Definition label_eqb : label -> label -> bool := list_eqb N.eqb.
Definition rname_eqb : rname -> rname -> bool := list_eqb label_eqb.

(* ---- dnsname.CanonicalCompare, as written: align the longer name, walk the
   labels left to right keeping the LAST non-zero label verdict, break ties
   by label count. *)
Fixpoint walk_verdict (a b : name) (v : comparison) : comparison :=
  match a, b with
  | x :: a', y :: b' =>
      walk_verdict a' b' (match lcmp (fold_label x) (fold_label y) with Eq => v | c => c end)
  | _, _ => v
  end.
Definition go_canonical_compare (a b : name) : comparison :=
  let ca := length a in
  let cb := length b in
  match walk_verdict (skipn (ca - cb) a) (skipn (cb - ca) b) Eq with
  | Eq => Nat.compare ca cb
  | c => c
  end.

(* ---- dnsname.CompareSuffix, as written: align, walk in lockstep, the counter
   resets on every mismatch and so holds the trailing run of equal labels. *)
Fixpoint run_walk (a b : name) (n : nat) : nat :=
  match a, b with
  | x :: a', y :: b' =>
      run_walk a' b' (if label_eqb (fold_label x) (fold_label y) then S n else O)
  | _, _ => n
  end.
Definition go_compare_suffix (a b : name) : nat :=
  let ca := length a in
  let cb := length b in
  run_walk (skipn (ca - cb) a) (skipn (cb - ca) b) O.

(* the same two functions on canonical names (what the proofs use) *)
Fixpoint lcp (a b : rname) : nat :=
  match a, b with
  | x :: a', y :: b' => if label_eqb x y then S (lcp a' b') else O
  | _, _ => O
  end.

(* isSubdomainOf / dnsname.Sub / NameInZone: parent is a prefix (root first) *)
Fixpoint prefix_b (p n : rname) : bool :=
  match p, n with
  | [], _ => true
  | x :: p', y :: n' => label_eqb x y && prefix_b p' n'
  | _ :: _, [] => false
  end.
Definition strict_prefix_b (p n : rname) : bool :=
  (length p <? length n)%nat && prefix_b p n.

(* ---- type bitmaps *)
Definition T_NS : N := 2.     Definition T_CNAME : N := 5.  Definition T_SOA : N := 6.
Definition T_DNAME : N := 39. Definition T_DS : N := 43.
Definition has_type (bm : list N) (t : N) : bool := existsb (N.eqb t) bm.
(* dnssec.typesSet(set, types...) *)
Definition types_set (bm ts : list N) : bool := existsb (fun x => existsb (N.eqb x) ts) bm.
(* aggressiveDelegationBitmap *)
Definition deleg_bitmap (bm : list N) : bool := types_set bm [T_NS] && negb (types_set bm [T_SOA]).
(* aggressiveNODATAType: the function srcgen translates from the source on every run
   (Gen.C02.go_aggressiveNODATAType, purefunc with the miekg type constants resolved);
   Proofs_Gen.gen_aggressive_nodata_type states the set it excludes *)
Definition bytes_of_string (s : String.string) : list N :=
  map (fun a => N.of_nat (Ascii.nat_of_ascii a)) (String.list_ascii_of_string s).
Definition aggressive_nodata_type (t : N) : bool := go_aggressiveNODATAType t.

Definition star : label := [42].

(* ---- records *)
Record nsec := mk_nsec { n_owner : name; n_next : name; n_types : list N; n_class : N }.
(* canonicalised record; c_idx = position in the input slice (identity of the *dns.NSEC) *)
Record cnsec := mk_cnsec { c_owner : rname; c_next : rname; c_types : list N; c_class : N; c_idx : nat }.
Fixpoint canon_recs_from (i : nat) (l : list nsec) : list cnsec :=
  match l with
  | [] => []
  | r :: t => mk_cnsec (canon (n_owner r)) (canon (n_next r)) (n_types r) (n_class r) i :: canon_recs_from (S i) t
  end.
Definition canon_recs := canon_recs_from O.

(* error classes (errors.go); E_fallback = aggressiveFallback (wraps ErrNSECMissingCoverage) *)
Inductive err := E_ok | E_missing | E_fallback | E_type_exists | E_bad_deleg | E_ns_missing | E_optout | E_other.
Definition err_code (e : err) : N :=
  match e with E_ok => 0 | E_missing => 1 | E_fallback => 2 | E_type_exists => 3 | E_bad_deleg => 4
             | E_ns_missing => 5 | E_optout => 6 | E_other => 7 end.

(* ---- dnsutil.FilterRRsToZone on NSEC records: owner and NextDomain in zone *)
Definition in_zone_rec (zone : rname) (r : cnsec) : bool := prefix_b zone (c_owner r) && prefix_b zone (c_next r).
Definition filter_to_zone (zone : rname) (l : list cnsec) : list cnsec := filter (in_zone_rec zone) l.

(* ---- dnsutil.DnameTarget with at most one DNAME in the answer *)
Definition dname_target (q : name) (d : option (name * name)) : option name :=
  match d with
  | None => None
  | Some (o, t) =>
      let ol := length o in
      let ql := length q in
      if (ol =? 0)%nat || (ql <=? ol)%nat then None
      else if negb (lcp (canon o) (canon q) =? ol)%nat then None
      else Some (firstn (ql - ol) q ++ t)
  end.
Definition effective_qname (q : name) (d : option (name * name)) : name :=
  match dname_target q d with Some t => t | None => q end.

(* ---- nsec.go *)
(* nsecCovers over the three comparison results *)
Definition covers_of_cmps (on xo xn : comparison) : bool :=
  match on with
  | Eq => negb (is_eq xo)
  | Lt => is_gt xo && is_lt xn
  | Gt => is_gt xo || is_lt xn
  end.
Definition nsec_covers (o nx x : rname) : bool := covers_of_cmps (ncmp o nx) (ncmp x o) (ncmp x nx).

(* closestEncloserFromNSEC: longest suffix shared with owner or next, capped to a proper ancestor *)
Definition closest_encloser_nsec (q o nx : rname) : rname :=
  let n := Nat.max (lcp q o) (lcp q nx) in
  let n := if (length q <=? n)%nat then (length q - 1)%nat else n in
  firstn n q.

Definition rec_covers (x : rname) (r : cnsec) : bool := nsec_covers (c_owner r) (c_next r) x.

(* VerifyNameErrorNSEC BEFORE fix 130ba3b, on the effective (DNAME-rewritten) canonical qname *)
Definition verify_nameerror_nsec_old (qn : rname) (set : list cnsec) : err :=
  match find (rec_covers qn) set with            (* empty set: no covering record *)
  | None => E_missing
  | Some c =>
      match closest_encloser_nsec qn (c_owner c) (c_next c) with
      | [] => E_ok                               (* ce == ".": no wildcard proof required *)
      | ce => if existsb (rec_covers (ce ++ [star])) set then E_ok else E_missing
      end
  end.

Definition nodata_bitmap_check (qtype : N) (bm : list N) : err :=
  if types_set bm [qtype; T_CNAME] then E_type_exists
  else if (qtype =? T_DS) && types_set bm [T_SOA] then E_bad_deleg
  else E_ok.

(* VerifyNODATANSEC BEFORE fix 130ba3b *)
Definition verify_nodata_nsec_old (qn : rname) (qtype : N) (set : list cnsec) : err :=
  match find (fun r => rname_eqb (c_owner r) qn) set with
  | Some r => nodata_bitmap_check qtype (c_types r)
  | None =>
      match find (rec_covers qn) set with
      | None => E_missing
      | Some c =>
          match closest_encloser_nsec qn (c_owner c) (c_next c) with
          | [] => E_missing                      (* "*." ++ "." is no owner's spelling *)
          | ce =>
              match find (fun r => rname_eqb (c_owner r) (ce ++ [star])) set with
              | Some w => nodata_bitmap_check qtype (c_types w)
              | None => E_missing
              end
          end
      end
  end.

(* VerifyDelegationNSEC *)
Definition verify_delegation_nsec (d : rname) (set : list cnsec) : err :=
  match find (fun r => rname_eqb (c_owner r) d) set with
  | None => E_missing
  | Some r =>
      if negb (types_set (c_types r) [T_NS]) then E_ns_missing
      else if types_set (c_types r) [T_DS; T_SOA] then E_bad_deleg
      else E_ok
  end.

(* ---- aggressive_negative.go (NSEC) *)
Inductive aresult := A_err (e : err) | A_deny (rcode : N) (proof : list nat).
Definition RC_NOERROR : N := 0.
Definition RC_NXDOMAIN : N := 3.

(* validateAggressiveQuestionSigner (name-syntax failures are outside the model) *)
Definition question_ok (qtype qclass : N) : bool :=
  negb ((qtype =? 0) || (qclass =? 0) || (qclass =? 255) || (qclass =? 254)).

Definition bitmaps_equal (a b : list N) : bool :=
  forallb (has_type b) a && forallb (has_type a) b.

(* appendAggressiveNSECEntry *)
Definition append_entry (entries : list cnsec) (c : cnsec) (zone : rname) : option (list cnsec) :=
  if negb (prefix_b zone (c_owner c) && prefix_b zone (c_next c)) then None
  else if rname_eqb (c_owner c) (c_next c) && negb (rname_eqb (c_owner c) zone) then None
  else match find (fun e => rname_eqb (c_owner e) (c_owner c)) entries with
       | Some e => if negb (rname_eqb (c_next e) (c_next c)) || negb (bitmaps_equal (c_types e) (c_types c))
                   then None else Some entries
       | None => Some (entries ++ [c])
       end.

(* newAggressiveNSECEntries / aggressiveNSECEntriesFromPrepared *)
Fixpoint build_entries (recs : list cnsec) (qclass : N) (zone : rname) (acc : list cnsec) : option (list cnsec) :=
  match recs with
  | [] => Some acc
  | r :: t =>
      if negb (c_class r =? qclass) then None
      else match append_entry acc r zone with
           | None => None
           | Some acc' => build_entries t qclass zone acc'
           end
  end.

(* aggressiveNSECClassifyInterval *)
Inductive nstate := S_ent | S_absent.
Definition classify_interval (x : rname) (e : cnsec) : option nstate :=
  if negb (is_gt (ncmp x (c_owner e))) || rname_eqb x (c_next e) then None
  else if (if is_gt (ncmp (c_next e) (c_owner e))
           then negb (is_lt (ncmp x (c_next e)))
           else negb (prefix_b (c_next e) x)) then None
  else if strict_prefix_b x (c_next e) then Some S_ent else Some S_absent.

Definition cut_bitmap (bm : list N) : bool := deleg_bitmap bm || types_set bm [T_DNAME].

Inductive cls := C_err (e : err) | C_exact (r : cnsec) | C_cover (s : nstate) (r : cnsec).

(* second loop of classifyAggressiveNSECName *)
Fixpoint classify_scan (x : rname) (entries : list cnsec) (exact cover : option (nstate * cnsec)) : cls :=
  match entries with
  | [] =>
      match exact, cover with
      | Some _, Some _ => C_err E_fallback
      | Some (_, r), None => C_exact r
      | None, Some (s, r) => C_cover s r
      | None, None => C_err E_missing
      end
  | e :: t =>
      if rname_eqb x (c_owner e)
      then match exact with
           | Some _ => C_err E_fallback
           | None => classify_scan x t (Some (S_absent, e)) cover
           end
      else match classify_interval x e with
           | None => classify_scan x t exact cover
           | Some s => match cover with
                       | Some _ => C_err E_fallback
                       | None => classify_scan x t exact (Some (s, e))
                       end
           end
  end.

(* classifyAggressiveNSECName *)
Definition classify (x : rname) (entries : list cnsec) : cls :=
  if existsb (fun e => strict_prefix_b (c_owner e) x && cut_bitmap (c_types e)) entries
  then C_err E_bad_deleg
  else classify_scan x entries None None.

(* validateAggressiveExactNODATA *)
Definition exact_nodata_check (qtype : N) (bm : list N) : err :=
  if types_set bm [qtype; T_CNAME] then E_type_exists
  else if (qtype =? T_DS) && types_set bm [T_SOA] then E_bad_deleg
  else if negb (qtype =? T_DS) && deleg_bitmap bm then E_bad_deleg
  else E_ok.

(* ---- VerifyNameErrorNSEC / VerifyNODATANSEC as they are since fix 130ba3b (props/C02/fix.patch):
   empty-non-terminal test, ancestor-cut test, "*." for a root encloser, wildcard-ENT test,
   RFC 6840 §4.1 test.  The *_old definitions above are the code before that commit; they are
   kept only for the regression Examples (Proofs_NsecTop.v) and are not what check_case accepts. *)
Definition verify_nameerror_nsec (qn : rname) (set : list cnsec) : err :=
  match find (rec_covers qn) set with
  | None => E_missing
  | Some c =>
      if strict_prefix_b qn (c_next c) then E_missing            (* NextDomain below qname: empty non-terminal *)
      else if existsb (fun r => strict_prefix_b (c_owner r) qn && cut_bitmap (c_types r)) set
      then E_bad_deleg                                           (* delegation / DNAME NSEC above qname *)
      else
        let ce := closest_encloser_nsec qn (c_owner c) (c_next c) in
        match find (rec_covers (ce ++ [star])) set with          (* root encloser: "*." *)
        | None => E_missing
        | Some w => if strict_prefix_b (ce ++ [star]) (c_next w) then E_missing else E_ok
        end
  end.

Definition verify_nodata_nsec (qn : rname) (qtype : N) (set : list cnsec) : err :=
  match find (fun r => rname_eqb (c_owner r) qn) set with
  | Some r => exact_nodata_check qtype (c_types r)
  | None =>
      match find (rec_covers qn) set with
      | None => E_missing
      | Some c =>
          match closest_encloser_nsec qn (c_owner c) (c_next c) with
          | [] => E_missing
          | ce =>
              match find (fun r => rname_eqb (c_owner r) (ce ++ [star])) set with
              | Some w => exact_nodata_check qtype (c_types w)
              | None => E_missing
              end
          end
      end
  end.

(* closestEncloserFromAggressiveNSEC *)
Definition closest_encloser_aggr (q : rname) (c : cnsec) : option rname :=
  match q with
  | [] => None
  | _ =>
      let n := Nat.max (lcp q (c_owner c)) (lcp q (c_next c)) in
      let n := if (length q <=? n)%nat then (length q - 1)%nat else n in
      Some (firstn n q)
  end.

(* appendAggressiveProof: pointer-identity dedup *)
Definition append_proof (p : list nat) (i : nat) : list nat :=
  if existsb (Nat.eqb i) p then p else p ++ [i].

(* evaluateAggressiveNSECEntries *)
Definition evaluate_entries (q : rname) (qtype : N) (signer : rname) (entries : list cnsec) : aresult :=
  match classify q entries with
  | C_err e => A_err e
  | C_exact r =>
      if negb (aggressive_nodata_type qtype) then A_err E_fallback
      else match exact_nodata_check qtype (c_types r) with
           | E_ok => A_deny RC_NOERROR [c_idx r]
           | e => A_err e
           end
  | C_cover S_ent r =>
      if negb (aggressive_nodata_type qtype) then A_err E_fallback
      else A_deny RC_NOERROR [c_idx r]
  | C_cover S_absent r =>
      if rname_eqb q signer then A_err E_fallback
      else match closest_encloser_aggr q r with
           | None => A_err E_fallback
           | Some ce =>
               if negb (prefix_b signer ce) then A_err E_fallback
               else
                 let proof := [c_idx r] in
                 match classify (ce ++ [star]) entries with
                 | C_err e => A_err e
                 | C_exact w =>
                     if negb (aggressive_nodata_type qtype) || (qtype =? T_DS) then A_err E_fallback
                     else if cut_bitmap (c_types w) then A_err E_bad_deleg
                     else match exact_nodata_check qtype (c_types w) with
                          | E_ok => A_deny RC_NOERROR (append_proof proof (c_idx w))
                          | e => A_err e
                          end
                 | C_cover S_ent w =>
                     if negb (aggressive_nodata_type qtype) || (qtype =? T_DS) then A_err E_fallback
                     else A_deny RC_NOERROR (append_proof proof (c_idx w))
                 | C_cover S_absent w => A_deny RC_NXDOMAIN (append_proof proof (c_idx w))
                 end
           end
  end.

(* EvaluateAggressiveNSEC / EvaluateAggressiveNSECPrepared on canonical inputs *)
Definition aggr_nsec (q : rname) (qtype qclass : N) (signer : rname) (recs : list cnsec) : aresult :=
  if negb (question_ok qtype qclass) then A_err E_fallback
  else if negb (prefix_b signer q) then A_err E_fallback
  else match recs with
       | [] => A_err E_missing
       | _ => match build_entries recs qclass signer [] with
              | None => A_err E_fallback
              | Some [] => A_err E_missing
              | Some entries => evaluate_entries q qtype signer entries
              end
       end.

(* NewAggressiveNSECSet + EvaluateAggressiveNSECSet *)
Definition aggr_nsec_set (q : rname) (qtype qclass : N) (signer : rname) (recs : list cnsec) : aresult :=
  match recs with
  | [] => A_err E_missing
  | first :: _ =>
      match build_entries recs (c_class first) signer [] with
      | None => A_err E_fallback     (* NewAggressiveNSECSet's own error is what the driver records *)
      | Some [] => A_err E_missing
      | Some entries =>
          if negb (question_ok qtype qclass) then A_err E_fallback
          else if negb (prefix_b signer q) then A_err E_fallback
          else if negb (qclass =? c_class first) then A_err E_fallback
          else evaluate_entries q qtype signer entries
      end
  end.
