(* C02 — NSEC, top level: the three aggressive entry points are sound; the
   exact verifiers: VerifyDelegationNSEC sound, VerifyNameErrorNSEC and
   VerifyNODATANSEC sound only under extra hypotheses (…_partial) and refuted
   without them (…_refuted, finding F1 and its variants). *)
From Sdns Require Import Common.Base Gen.C02 C02.Model C02.Spec C02.Proofs_Order C02.Proofs_Nsec C02.Proofs_Spec.
Open Scope N_scope.

(* ------------------------------------------------------------ entries ⊆ records *)
Lemma append_entry_subset es c zone es' :
  append_entry es c zone = Some es' -> forall e, In e es' -> In e es \/ e = c.
Proof.
  unfold append_entry.
  destruct (negb (prefix_b zone (c_owner c) && prefix_b zone (c_next c))); [discriminate|].
  destruct (rname_eqb (c_owner c) (c_next c) && negb (rname_eqb (c_owner c) zone)); [discriminate|].
  destruct (find _ es) as [e0|].
  - destruct (negb (rname_eqb (c_next e0) (c_next c)) || negb (bitmaps_equal (c_types e0) (c_types c))); [discriminate|].
    intros H e He. inversion H; subst. left. exact He.
  - intros H e He. inversion H; subst. apply in_app_or in He. destruct He as [He|[He|[]]]; auto.
Qed.

Lemma build_entries_subset recs qclass zone acc es :
  build_entries recs qclass zone acc = Some es -> forall e, In e es -> In e acc \/ In e recs.
Proof.
  revert acc. induction recs as [|r t IH]; intros acc; cbn.
  - intros H e He. inversion H; subst. left. exact He.
  - destruct (negb (c_class r =? qclass)); [discriminate|].
    destruct (append_entry acc r zone) as [acc'|] eqn:Ea; [|discriminate].
    intros H e He. destruct (IH _ H e He) as [H1|H1]; [|right; right; exact H1].
    destruct (append_entry_subset _ _ _ _ Ea e H1) as [H2|H2]; [left; exact H2 | right; left; symmetry; exact H2].
Qed.

(* every record that reaches the evaluator has the question's class and lies in the signer zone *)
Lemma append_entry_in_zone es c zone es' :
  append_entry es c zone = Some es' -> prefix_b zone (c_owner c) = true /\ prefix_b zone (c_next c) = true.
Proof.
  unfold append_entry. destruct (prefix_b zone (c_owner c)), (prefix_b zone (c_next c)); cbn; try discriminate. auto.
Qed.
Lemma build_entries_checks recs qclass zone acc es :
  build_entries recs qclass zone acc = Some es ->
  forall r, In r recs -> c_class r = qclass /\ prefix_b zone (c_owner r) = true /\ prefix_b zone (c_next r) = true.
Proof.
  revert acc. induction recs as [|r0 t IH]; intros acc; cbn; [intros _ r []|].
  destruct (c_class r0 =? qclass) eqn:Ec; cbn; [|discriminate].
  destruct (append_entry acc r0 zone) as [acc'|] eqn:Ea; [|discriminate].
  intros H r [->|Hr]; [|eapply IH; eauto].
  split; [apply N.eqb_eq, Ec | eapply append_entry_in_zone; eauto].
Qed.

Definition sound_verdict (z : zone) (q : rname) (qtype : N) (res : aresult) : Prop :=
  match res with
  | A_err _ => True
  | A_deny rc _ => (rc = RC_NXDOMAIN /\ ~ exists_in z q) \/ (rc = RC_NOERROR /\ nodata_true z q qtype)
  end.

Theorem aggr_nsec_sound z q qtype qclass signer recs :
  zone_wf z -> (forall r, In r recs -> genuine z r) ->
  sound_verdict z q qtype (aggr_nsec q qtype qclass signer recs).
Proof.
  intros Hwf Hgen. unfold aggr_nsec.
  destruct (negb (question_ok qtype qclass)); [exact I|].
  destruct (negb (prefix_b signer q)); [exact I|].
  destruct recs as [|r0 t] eqn:Er; [exact I|]. rewrite <- Er in *.
  destruct (build_entries recs qclass signer []) as [es|] eqn:Eb; [|exact I].
  destruct es as [|e0 es'] eqn:Ee; [exact I|]. rewrite <- Ee in *.
  apply (evaluate_entries_sound z Hwf). intros e He.
  destruct (build_entries_subset _ _ _ _ _ Eb e He) as [[]|H]. apply Hgen, H.
Qed.

Theorem aggr_nsec_set_sound z q qtype qclass signer recs :
  zone_wf z -> (forall r, In r recs -> genuine z r) ->
  sound_verdict z q qtype (aggr_nsec_set q qtype qclass signer recs).
Proof.
  intros Hwf Hgen. unfold aggr_nsec_set.
  destruct recs as [|r0 t] eqn:Er; [exact I|]. rewrite <- Er in *.
  destruct (build_entries recs (c_class r0) signer []) as [es|] eqn:Eb; [|exact I].
  destruct es as [|e0 es'] eqn:Ee; [exact I|]. rewrite <- Ee in *.
  destruct (negb (question_ok qtype qclass)); [exact I|].
  destruct (negb (prefix_b signer q)); [exact I|].
  destruct (negb (qclass =? c_class r0)); [exact I|].
  apply (evaluate_entries_sound z Hwf). intros e He.
  destruct (build_entries_subset _ _ _ _ _ Eb e He) as [[]|H]. apply Hgen, H.
Qed.

(* a denial is only ever produced for the records' class and inside the signer zone;
   one record of another class or crossing the zone refuses the whole set *)
Theorem aggr_nsec_refuses_mixtures q qtype qclass signer recs rc proof :
  aggr_nsec q qtype qclass signer recs = A_deny rc proof ->
  question_ok qtype qclass = true /\ prefix_b signer q = true /\
  forall r, In r recs -> c_class r = qclass /\ prefix_b signer (c_owner r) = true /\ prefix_b signer (c_next r) = true.
Proof.
  unfold aggr_nsec.
  destruct (question_ok qtype qclass); cbn; [|discriminate].
  destruct (prefix_b signer q); cbn; [|discriminate].
  destruct recs as [|r0 t] eqn:Er; [discriminate|]. rewrite <- Er in *.
  destruct (build_entries recs qclass signer []) as [es|] eqn:Eb; [|discriminate].
  intros _. split; [reflexivity|]. split; [reflexivity|]. eapply build_entries_checks; eauto.
Qed.

(* incomplete_never_denies: a denial needs a record of the set that owns or covers the question
   name, and NXDOMAIN needs in addition a record that covers the wildcard at the closest encloser as
   an absent name; with either component missing the result is an error (ordinary resolution) *)
Theorem aggr_nsec_needs_components q qtype qclass signer recs rc proof :
  aggr_nsec q qtype qclass signer recs = A_deny rc proof ->
  (exists r, In r recs /\ (q = c_owner r \/ exists s, classify_interval q r = Some s)) /\
  (rc = RC_NXDOMAIN ->
     exists r w ce, In r recs /\ In w recs /\ classify_interval q r = Some S_absent /\
                    closest_encloser_aggr q r = Some ce /\ classify_interval (ce ++ [star]) w = Some S_absent).
Proof.
  unfold aggr_nsec.
  destruct (negb (question_ok qtype qclass)); [discriminate|].
  destruct (negb (prefix_b signer q)); [discriminate|].
  destruct recs as [|r0 t] eqn:Er; [discriminate|]. rewrite <- Er in *.
  destruct (build_entries recs qclass signer []) as [es|] eqn:Eb; [|discriminate].
  destruct es as [|e0 es'] eqn:Ee; [discriminate|]. rewrite <- Ee in *.
  assert (Hsub : forall e, In e es -> In e recs)
    by (intros e He; destruct (build_entries_subset _ _ _ _ _ Eb e He) as [[]|H]; exact H).
  unfold evaluate_entries.
  destruct (classify q es) as [e|r|st r] eqn:Hc; [discriminate| |].
  - destruct (classify_exact _ _ _ Hc) as [_ [Hr Hq]].
    destruct (negb (aggressive_nodata_type qtype)); [discriminate|].
    destruct (exact_nodata_check qtype (c_types r)); try discriminate.
    intros E. inversion E; subst. split; [exists r; split; [apply Hsub, Hr | left; reflexivity]|]. discriminate.
  - destruct (classify_cover _ _ _ _ Hc) as [_ [Hr Hci]].
    assert (H1 : exists r1, In r1 recs /\ (q = c_owner r1 \/ exists s, classify_interval q r1 = Some s))
      by (exists r; split; [apply Hsub, Hr | right; eauto]).
    destruct st.
    + destruct (negb (aggressive_nodata_type qtype)); [discriminate|].
      intros E. inversion E; subst. split; [exact H1 | discriminate].
    + destruct (rname_eqb q signer); [discriminate|].
      destruct (closest_encloser_aggr q r) as [ce|] eqn:Hce; [|discriminate].
      destruct (negb (prefix_b signer ce)); [discriminate|].
      destruct (classify (ce ++ [star]) es) as [e|w|st w] eqn:Hw; [discriminate| |].
      * destruct (negb (aggressive_nodata_type qtype) || (qtype =? T_DS)); [discriminate|].
        destruct (cut_bitmap (c_types w)); [discriminate|].
        destruct (exact_nodata_check qtype (c_types w)); try discriminate.
        intros E. inversion E; subst. split; [exact H1 | discriminate].
      * destruct (classify_cover _ _ _ _ Hw) as [_ [Hwr Hwci]].
        destruct st.
        -- destruct (negb (aggressive_nodata_type qtype) || (qtype =? T_DS)); [discriminate|].
           intros E. inversion E; subst. split; [exact H1 | discriminate].
        -- intros E. inversion E; subst. split; [exact H1|]. intros _.
           exists r, w, ce. repeat split; auto.
Qed.

(* ------------------------------------------------------------ exact verifiers *)
Section Exact.
  Variable z : zone.
  Hypothesis Hwf : zone_wf z.
  Variable set : list cnsec.
  Hypothesis Hgen : forall r, In r set -> genuine z r.

  Let Hunder := proj1 Hwf.
  Let Hapex := proj1 (proj2 Hwf).

  Theorem verify_delegation_nsec_sound d :
    verify_delegation_nsec d set = E_ok -> insecure_delegation z d.
  Proof.
    unfold verify_delegation_nsec. destruct (find _ set) as [r|] eqn:Ef; [|discriminate].
    apply find_some in Ef. destruct Ef as [Hr E]. apply rname_eqb_spec in E.
    destruct (negb (types_set (c_types r) [T_NS])) eqn:E1; [discriminate|].
    destruct (types_set (c_types r) [T_DS; T_SOA]) eqn:E2; [discriminate|]. intros _.
    exists (c_types r). split; [rewrite <- E; apply (Hgen r Hr)|].
    apply negb_false_iff, types_set1 in E1.
    assert (H2 : ~ (In T_DS (c_types r) \/ In T_SOA (c_types r))) by (rewrite <- types_set2, E2; discriminate).
    tauto.
  Qed.

  (* nsecCovers on a genuine link, for a name of the zone, is "inside the link" *)
  Lemma covers_inside r x :
    In r set -> is_prefix (z_apex z) x -> rec_covers x r = true -> inside z r x.
  Proof.
    intros Hr Hx Hc. pose proof (Hgen r Hr) as Hg.
    unfold rec_covers in Hc. apply nsec_covers_spec in Hc. unfold strictly_inside in Hc.
    assert (Hax : ncmp (z_apex z) x <> Gt) by (apply prefix_le, Hx).
    destruct (ncmp_total (c_owner r) (c_next r)) as [Hlt|[Heq|Hgt]].
    - rewrite Hlt in Hc. destruct Hc as [Hc1 Hc2].
      apply (link_inside z r x Hg Hc1); [|auto]. intros ->. rewrite ncmp_refl in Hc2. discriminate.
    - (* one-name zone: owner = next = apex *)
      rewrite Heq, ncmp_refl in Hc.
      destruct Hg as [[Ho [Hn Hl]] Hty].
      destruct Hl as [[Hlt _]|[Hna Hmax]]; [rewrite Heq, ncmp_refl in Hlt; discriminate|].
      assert (Hox : ncmp (c_owner r) x = Lt).
      { rewrite Heq, Hna. destruct (ncmp (z_apex z) x) eqn:E; [|reflexivity|congruence].
        apply ncmp_eq in E. exfalso. apply Hc. congruence. }
      apply (link_inside z r x); [split; [split; [exact Ho|split; [exact Hn|right; split; assumption]]|exact Hty] | exact Hox | congruence |].
      intros Hlt. rewrite Heq, ncmp_refl in Hlt. discriminate.
    - (* the wrapping link: next is the apex, x is not before the apex *)
      assert (Egt : ncmp (c_owner r) (c_next r) = Gt) by (apply ncmp_gt_lt, Hgt).
      rewrite Egt in Hc.
      destruct Hg as [[Ho [Hn Hl]] Hty].
      destruct Hl as [[Hlt _]|[Hna Hmax]]; [congruence|].
      assert (Hox : ncmp (c_owner r) x = Lt).
      { destruct Hc as [Hc|Hc]; [exact Hc|]. exfalso. apply Hax. apply ncmp_gt_lt. rewrite <- Hna. exact Hc. }
      apply (link_inside z r x); [split; [split; [exact Ho|split; [exact Hn|right; split; assumption]]|exact Hty] | exact Hox | | congruence].
      intros ->. rewrite Hna in Hox. destruct Hapex as [at_ Ha]. apply (Hmax (z_apex z)); [exists at_; exact Ha|].
      apply ncmp_gt_lt. exact Hox.
  Qed.

  (* Full statement (FALSE, see old_exact_nameerror_nsec_refuted):
       verify_nameerror_nsec_old q set = E_ok -> ~ exists_in z q.
     Proved: it holds when q is not an empty non-terminal, not below a cut, the
     wildcard at its closest encloser is not an empty non-terminal, and the
     zone has no wildcard directly below a root apex. *)
  Theorem old_exact_nameerror_nsec_partial q :
    is_prefix (z_apex z) q ->
    verify_nameerror_nsec_old q set = E_ok ->
    ~ is_ent z q -> ~ below_cut z q ->
    (forall ce, closest_encloser z q ce -> ~ is_ent z (ce ++ [star])) ->
    (z_apex z = [] -> ~ exists_direct z [star]) ->
    ~ exists_in z q.
  Proof.
    intros Hq Hv Hnent Hncut Hwent Hroot. unfold verify_nameerror_nsec_old in Hv.
    destruct (find (rec_covers q) set) as [c|] eqn:Ef; [|discriminate].
    apply find_some in Ef. destruct Ef as [Hc Hcov].
    pose proof (covers_inside c q Hc Hq Hcov) as Hin.
    assert (Hns : ~ is_strict_prefix q (c_next c)) by (intros Hs; apply Hnent; eapply inside_ent; eauto).
    assert (Hnd : ~ exists_direct z q) by (eapply inside_absent; eauto).
    pose proof (inside_closest_encloser z Hwf c q (Hgen c Hc) Hin Hns) as Hclo. cbn zeta in Hclo.
    unfold closest_encloser_nsec in Hv. cbn zeta in Hv.
    set (ce := firstn _ q) in *.
    assert (Hwnd : ~ exists_direct z (ce ++ [star])).
    { destruct ce as [|l ce'] eqn:Ece.
      - (* root closest encloser: the apex is the root *)
        apply Hroot. destruct Hclo as [_ [_ Hmax]].
        assert (Hsp : is_strict_prefix (z_apex z) q).
        { destruct (is_prefix_strict_or_eq _ _ Hq) as [E|Hs]; [|exact Hs]. exfalso. apply Hnd.
          exists q. split; [rewrite <- E; exact Hapex | apply is_prefix_refl]. }
        assert (Hex : exists_direct z (z_apex z)) by (exists (z_apex z); split; [exact Hapex | apply is_prefix_refl]).
        specialize (Hmax _ Hsp Hex). cbn in Hmax. apply length_zero_iff_nil. lia.
      - rewrite <- Ece in *. assert (Hv' : existsb (rec_covers (ce ++ [star])) set = true)
          by (rewrite Ece in Hv |- *; destruct (existsb _ set); [reflexivity | discriminate]).
        apply existsb_exists in Hv'. destruct Hv' as [w [Hw Hwc]].
        assert (Hace : is_prefix (z_apex z) ce).
        { destruct Hclo as [Hs [_ Hmax]].
          assert (Hsp : is_strict_prefix (z_apex z) q).
          { destruct (is_prefix_strict_or_eq _ _ Hq) as [E|Hs']; [|exact Hs']. exfalso. apply Hnd.
            exists q. split; [rewrite <- E; exact Hapex | apply is_prefix_refl]. }
          apply (prefixes_comparable _ _ q Hq (strict_is_prefix _ _ Hs)).
          apply Hmax; [exact Hsp|]. exists (z_apex z). split; [exact Hapex | apply is_prefix_refl]. }
        assert (Hwin : inside z w (ce ++ [star])).
        { apply covers_inside; [exact Hw | | exact Hwc]. destruct Hace as [s ->]. exists (s ++ [star]). symmetry. apply app_assoc. }
        intros He. apply (Hwent ce Hclo). eapply inside_ent; eauto.
        apply (inside_exists_iff z w _ (Hgen w Hw) Hwin), He. }
    intros [He|[He|[_ [ce' [Hc' He']]]]]; [exact (Hnd He) | exact (Hncut He)|].
    rewrite (closest_encloser_unique z Hwf q ce' ce Hc' Hclo) in He'. exact (Hwnd He').
  Qed.

  (* Full statement (FALSE, see old_exact_nodata_nsec_refuted):
       verify_nodata_nsec_old q qtype set = E_ok -> nodata_true z q qtype.
     Proved: it holds unless the answering node is a delegation point and the
     type is not DS (RFC 6840 §4.1), and except below a root apex (where the
     code's "*.." spelling can never match). *)
  Theorem old_exact_nodata_nsec_partial q qtype :
    is_prefix (z_apex z) q ->
    verify_nodata_nsec_old q qtype set = E_ok ->
    (qtype <> T_DS -> forall n tys, In (n, tys) (z_nodes z) -> ~ (In T_NS tys /\ ~ In T_SOA tys) \/ (n <> q /\ forall ce, n <> ce ++ [star])) ->
    nodata_true z q qtype.
  Proof.
    intros Hq Hv Hnd. unfold verify_nodata_nsec_old in Hv.
    assert (Hlack : forall n bm, In (n, bm) (z_nodes z) -> (n = q \/ exists ce, n = ce ++ [star]) ->
                                 nodata_bitmap_check qtype bm = E_ok -> node_lacks bm qtype).
    { intros n bm Hin Hn Hc. destruct (nodata_bitmap_check_ok _ _ Hc) as [H1 [H2 H3]].
      repeat split; auto. intros Hne Hd. destruct (Hnd Hne n bm Hin) as [H|[H4 H5]]; [tauto|].
      destruct Hn as [->|[ce ->]]; [congruence | exact (H5 ce eq_refl)]. }
    destruct (find (fun r => rname_eqb (c_owner r) q) set) as [r|] eqn:Ef.
    - apply find_some in Ef. destruct Ef as [Hr E]. apply rname_eqb_spec in E.
      assert (Hin : In (q, c_types r) (z_nodes z)) by (rewrite <- E; apply (Hgen r Hr)).
      split; [apply (exists_direct_not_below_cut z Hwf); exists q; split; [eexists; exact Hin | apply is_prefix_refl]|].
      left. exists (c_types r). split; [exact Hin|]. apply (Hlack q); auto.
    - destruct (find (rec_covers q) set) as [c|] eqn:Ec; [|discriminate].
      apply find_some in Ec. destruct Ec as [Hc Hcov].
      pose proof (covers_inside c q Hc Hq Hcov) as Hin.
      unfold closest_encloser_nsec in Hv. cbn zeta in Hv.
      set (ce := firstn _ q) in *. destruct ce as [|l ce'] eqn:Ece; [discriminate|]. rewrite <- Ece in *.
      assert (Hv' : match find (fun r => rname_eqb (c_owner r) (ce ++ [star])) set with
                    | Some w => nodata_bitmap_check qtype (c_types w) | None => E_missing end = E_ok)
        by (rewrite Ece in Hv |- *; exact Hv).
      clear Hv. destruct (find (fun r => rname_eqb (c_owner r) (ce ++ [star])) set) as [w|] eqn:Ew; [|discriminate].
      apply find_some in Ew. destruct Ew as [Hw Ewn]. apply rname_eqb_spec in Ewn.
      assert (Hwin : In (ce ++ [star], c_types w) (z_nodes z)) by (rewrite <- Ewn; apply (Hgen w Hw)).
      (* q is either an empty non-terminal (NODATA is true anyway) or absent with this closest encloser *)
      destruct (strict_prefix_b q (c_next c)) eqn:Es.
      + apply strict_prefix_b_spec in Es.
        assert (Hent : is_ent z q) by (apply (inside_ent z c q (Hgen c Hc) Hin Es)).
        split; [|right; left; exact Hent].
        apply (exists_direct_not_below_cut z Hwf). destruct Hent as [_ [w0 [Hw0 Hs0]]].
        exists w0. split; [exact Hw0 | apply strict_is_prefix, Hs0].
      + assert (Hns : ~ is_strict_prefix q (c_next c)) by (intros Hs; apply strict_prefix_b_spec in Hs; congruence).
        pose proof (inside_closest_encloser z Hwf c q (Hgen c Hc) Hin Hns) as Hclo. cbn zeta in Hclo. fold ce in Hclo.
        assert (Hnd' : ~ exists_direct z q) by (apply (inside_absent z c q (Hgen c Hc) Hin Hns)).
        split.
        * (* below a cut the covering link would start at the cut and the wildcard could not be owned *)
          intros [d [tys [Hd [Hct Hs]]]].
          destruct (inside_below_cut z Hwf c q d tys (Hgen c Hc) Hin Hd Hct Hs) as [Ed _].
          apply (proj2 (proj2 (proj2 Hwf)) d tys (ce ++ [star]) Hd Hct); [eexists; exact Hwin|].
          destruct Hclo as [Hsce [[w0 [Hw0 Hp0]] Hmax]].
          assert (Hdq : is_strict_prefix d q) by exact Hs.
          assert (Hdle : (length d <= length ce)%nat)
            by (apply Hmax; [exact Hdq | exists d; split; [eexists; exact Hd | apply is_prefix_refl]]).
          destruct (prefixes_comparable d ce q (strict_is_prefix _ _ Hdq) (strict_is_prefix _ _ Hsce) Hdle) as [s ->].
          exists (s ++ [star]). split; [destruct s; discriminate | symmetry; apply app_assoc].
        * right; right. split; [exact Hnd'|]. exists ce. split; [exact Hclo|]. left.
          exists (c_types w). split; [exact Hwin|]. apply (Hlack (ce ++ [star])); eauto.
  Qed.

  (* ---- the current code (since fix 130ba3b): both verifiers are sound, full statement *)
  Theorem exact_nameerror_nsec_sound q :
    is_prefix (z_apex z) q -> verify_nameerror_nsec q set = E_ok -> ~ exists_in z q.
  Proof.
    intros Hq Hv. unfold verify_nameerror_nsec in Hv.
    destruct (find (rec_covers q) set) as [c|] eqn:Ef; [|discriminate].
    apply find_some in Ef. destruct Ef as [Hc Hcov].
    pose proof (covers_inside c q Hc Hq Hcov) as Hin.
    destruct (strict_prefix_b q (c_next c)) eqn:Es; [discriminate|].
    assert (Hns : ~ is_strict_prefix q (c_next c)) by (intros Hs; apply strict_prefix_b_spec in Hs; congruence).
    destruct (existsb _ set) eqn:Ecut; [discriminate|].
    assert (Hnd : ~ exists_direct z q) by (apply (inside_absent z c q (Hgen c Hc) Hin Hns)).
    assert (Hnb : ~ below_cut z q) by (apply (covered_not_below_cut z Hwf q set c Hgen Hc Hin Ecut)).
    pose proof (inside_closest_encloser z Hwf c q (Hgen c Hc) Hin Hns) as Hclo. cbn zeta in Hclo.
    unfold closest_encloser_nsec in Hv. cbn zeta in Hv. set (ce := firstn _ q) in *.
    destruct (find (rec_covers (ce ++ [star])) set) as [w|] eqn:Ew; [|discriminate].
    apply find_some in Ew. destruct Ew as [Hw Hwc].
    destruct (strict_prefix_b (ce ++ [star]) (c_next w)) eqn:Ews; [discriminate|].
    assert (Hwns : ~ is_strict_prefix (ce ++ [star]) (c_next w)) by (intros Hs; apply strict_prefix_b_spec in Hs; congruence).
    assert (Hace : is_prefix (z_apex z) ce).
    { destruct Hclo as [Hs [_ Hmax]].
      assert (Hsp : is_strict_prefix (z_apex z) q).
      { destruct (is_prefix_strict_or_eq _ _ Hq) as [E|Hs']; [|exact Hs']. exfalso. apply Hnd.
        exists q. split; [rewrite <- E; exact Hapex | apply is_prefix_refl]. }
      apply (prefixes_comparable _ _ q Hq (strict_is_prefix _ _ Hs)).
      apply Hmax; [exact Hsp|]. exists (z_apex z). split; [exact Hapex | apply is_prefix_refl]. }
    assert (Hwin : inside z w (ce ++ [star])).
    { apply covers_inside; [exact Hw | | exact Hwc]. destruct Hace as [s0 ->]. exists (s0 ++ [star]). symmetry. apply app_assoc. }
    assert (Hwnd : ~ exists_direct z (ce ++ [star])) by (apply (inside_absent z w _ (Hgen w Hw) Hwin Hwns)).
    intros [He|[He|[_ [ce' [Hc' He']]]]]; [exact (Hnd He) | exact (Hnb He)|].
    rewrite (closest_encloser_unique z Hwf q ce' ce Hc' Hclo) in He'. exact (Hwnd He').
  Qed.

  Theorem exact_nodata_nsec_sound q qtype :
    is_prefix (z_apex z) q -> verify_nodata_nsec q qtype set = E_ok -> nodata_true z q qtype.
  Proof.
    intros Hq Hv. unfold verify_nodata_nsec in Hv.
    destruct (find (fun r => rname_eqb (c_owner r) q) set) as [r|] eqn:Ef.
    - apply find_some in Ef. destruct Ef as [Hr E]. apply rname_eqb_spec in E.
      assert (Hin : In (q, c_types r) (z_nodes z)) by (rewrite <- E; apply (Hgen r Hr)).
      split; [apply (exists_direct_not_below_cut z Hwf); exists q; split; [eexists; exact Hin | apply is_prefix_refl]|].
      left. exists (c_types r). split; [exact Hin | apply exact_nodata_check_ok, Hv].
    - destruct (find (rec_covers q) set) as [c|] eqn:Ec; [|discriminate].
      apply find_some in Ec. destruct Ec as [Hc Hcov].
      pose proof (covers_inside c q Hc Hq Hcov) as Hin.
      unfold closest_encloser_nsec in Hv. cbn zeta in Hv.
      set (ce := firstn _ q) in *. destruct ce as [|l ce'] eqn:Ece; [discriminate|]. rewrite <- Ece in *.
      assert (Hv' : match find (fun r => rname_eqb (c_owner r) (ce ++ [star])) set with
                    | Some w => exact_nodata_check qtype (c_types w) | None => E_missing end = E_ok)
        by (rewrite Ece in Hv |- *; exact Hv).
      clear Hv. destruct (find (fun r => rname_eqb (c_owner r) (ce ++ [star])) set) as [w|] eqn:Ew; [|discriminate].
      apply find_some in Ew. destruct Ew as [Hw Ewn]. apply rname_eqb_spec in Ewn.
      assert (Hwin : In (ce ++ [star], c_types w) (z_nodes z)) by (rewrite <- Ewn; apply (Hgen w Hw)).
      destruct (strict_prefix_b q (c_next c)) eqn:Es.
      + apply strict_prefix_b_spec in Es.
        assert (Hent : is_ent z q) by (apply (inside_ent z c q (Hgen c Hc) Hin Es)).
        split; [|right; left; exact Hent].
        apply (exists_direct_not_below_cut z Hwf). destruct Hent as [_ [w0 [Hw0 Hs0]]].
        exists w0. split; [exact Hw0 | apply strict_is_prefix, Hs0].
      + assert (Hns : ~ is_strict_prefix q (c_next c)) by (intros Hs; apply strict_prefix_b_spec in Hs; congruence).
        pose proof (inside_closest_encloser z Hwf c q (Hgen c Hc) Hin Hns) as Hclo. cbn zeta in Hclo. fold ce in Hclo.
        assert (Hnd' : ~ exists_direct z q) by (apply (inside_absent z c q (Hgen c Hc) Hin Hns)).
        split.
        * intros [d [tys [Hd [Hct Hs]]]].
          apply (proj2 (proj2 (proj2 Hwf)) d tys (ce ++ [star]) Hd Hct); [eexists; exact Hwin|].
          destruct Hclo as [Hsce [[w0 [Hw0 Hp0]] Hmax]].
          assert (Hdle : (length d <= length ce)%nat)
            by (apply Hmax; [exact Hs | exists d; split; [eexists; exact Hd | apply is_prefix_refl]]).
          destruct (prefixes_comparable d ce q (strict_is_prefix _ _ Hs) (strict_is_prefix _ _ Hsce) Hdle) as [s0 ->].
          exists (s0 ++ [star]). split; [destruct s0; discriminate | symmetry; apply app_assoc].
        * right; right. split; [exact Hnd'|]. exists ce. split; [exact Hclo|]. left.
          exists (c_types w). split; [exact Hwin | apply exact_nodata_check_ok, Hv'].
  Qed.
End Exact.

(* ------------------------------------------------------------ regression witnesses: the code BEFORE fix
   130ba3b (verify_*_old) violated the statement (findings F1 and variants); the current code
   refuses each of these inputs (fixed_refuses_old_witnesses) *)
(* example. = [[101]] keeps the witnesses small: apex "e.", labels a=97 b=98 s=115 x=120 z=122 *)
Definition w_types_apex : list N := [2; 6; 46; 47; 48].
Definition w_plain : list N := [1; 46; 47].
Definition w_deleg : list N := [2; 46; 47].

(* ENT: only a.b.e. exists below b.e.; the link e. -> a.b.e. "covers" b.e. *)
Definition w_zone_ent : zone := mk_zone [[101]] [([[101]], w_types_apex); ([[101]; [98]; [97]], w_plain)].
Definition w_set_ent : list cnsec :=
  [mk_cnsec [[101]] [[101]; [98]; [97]] w_types_apex 1 0; mk_cnsec [[101]; [98]; [97]] [[101]] w_plain 1 1].
(* below a delegation: s.e. NS; x.s.e. is covered by s.e. -> z.e. *)
Definition w_zone_cut : zone := mk_zone [[101]] [([[101]], w_types_apex); ([[101]; [115]], w_deleg); ([[101]; [122]], w_plain)].
Definition w_set_cut : list cnsec :=
  [mk_cnsec [[101]] [[101]; [115]] w_types_apex 1 0; mk_cnsec [[101]; [115]] [[101]; [122]] w_deleg 1 1;
   mk_cnsec [[101]; [122]] [[101]] w_plain 1 2].
(* wildcard that is an empty non-terminal: a.*.e. exists, x.e. is answered NODATA by *.e. *)
Definition w_zone_went : zone := mk_zone [[101]] [([[101]], w_types_apex); ([[101]; [42]; [97]], w_plain)].
Definition w_set_went : list cnsec :=
  [mk_cnsec [[101]] [[101]; [42]; [97]] w_types_apex 1 0; mk_cnsec [[101]; [42]; [97]] [[101]] w_plain 1 1].

Lemma refute_helper z set q :
  zone_wf_b z = true -> forallb (genuine_b z) set = true -> prefix_b (z_apex z) q = true ->
  verify_nameerror_nsec_old q set = E_ok -> exists_in_b z q = true ->
  zone_wf z /\ (forall r, In r set -> genuine z r) /\ is_prefix (z_apex z) q /\
  verify_nameerror_nsec_old q set = E_ok /\ exists_in z q.
Proof.
  intros H1 H2 H3 H4 H5. split; [apply zone_wf_b_sound, H1|].
  split; [intros r Hr; apply genuine_b_sound; rewrite forallb_forall in H2; apply H2, Hr|].
  split; [apply prefix_b_spec, H3|]. split; [exact H4 | apply exists_in_b_spec, H5].
Qed.

Theorem old_exact_nameerror_nsec_refuted :
  exists z set q, zone_wf z /\ (forall r, In r set -> genuine z r) /\ is_prefix (z_apex z) q /\
                  verify_nameerror_nsec_old q set = E_ok /\ exists_in z q /\ is_ent z q.
Proof.
  exists w_zone_ent, w_set_ent, [[101]; [98]].
  destruct (refute_helper w_zone_ent w_set_ent [[101]; [98]]) as [H1 [H2 [H3 [H4 H5]]]]; try (vm_compute; reflexivity).
  refine (conj H1 (conj H2 (conj H3 (conj H4 (conj H5 _))))). split.
  - intros [tys H]. cbn in H. destruct H as [H|[H|[]]]; inversion H.
  - exists [[101]; [98]; [97]]. split; [exists w_plain; cbn; auto|]. exists [[97]]. split; [discriminate | reflexivity].
Qed.

Theorem old_exact_nameerror_nsec_refuted_below_cut :
  exists z set q, zone_wf z /\ (forall r, In r set -> genuine z r) /\ is_prefix (z_apex z) q /\
                  verify_nameerror_nsec_old q set = E_ok /\ exists_in z q /\ below_cut z q.
Proof.
  exists w_zone_cut, w_set_cut, [[101]; [115]; [120]].
  destruct (refute_helper w_zone_cut w_set_cut [[101]; [115]; [120]]) as [H1 [H2 [H3 [H4 H5]]]]; try (vm_compute; reflexivity).
  refine (conj H1 (conj H2 (conj H3 (conj H4 (conj H5 _))))).
  apply below_cut_b_spec. vm_compute. reflexivity.
Qed.

Theorem old_exact_nameerror_nsec_refuted_wildcard_ent :
  exists z set q, zone_wf z /\ (forall r, In r set -> genuine z r) /\ is_prefix (z_apex z) q /\
                  verify_nameerror_nsec_old q set = E_ok /\ exists_in z q /\ wildcard_match z q.
Proof.
  exists w_zone_went, w_set_went, [[101]; [120]].
  destruct (refute_helper w_zone_went w_set_went [[101]; [120]]) as [H1 [H2 [H3 [H4 H5]]]]; try (vm_compute; reflexivity).
  refine (conj H1 (conj H2 (conj H3 (conj H4 (conj H5 _))))).
  apply wildcard_match_b_spec. vm_compute. reflexivity.
Qed.

(* NODATA for type A at the delegation point s.e., from the ancestor-delegation NSEC *)
Theorem old_exact_nodata_nsec_refuted :
  exists z set q qtype, zone_wf z /\ (forall r, In r set -> genuine z r) /\ is_prefix (z_apex z) q /\
                        verify_nodata_nsec_old q qtype set = E_ok /\ ~ nodata_true z q qtype.
Proof.
  exists w_zone_cut, w_set_cut, [[101]; [115]], 1.
  split; [apply zone_wf_b_sound; vm_compute; reflexivity|].
  split; [intros r Hr; apply genuine_b_sound;
          assert (H : forallb (genuine_b w_zone_cut) w_set_cut = true) by (vm_compute; reflexivity);
          rewrite forallb_forall in H; apply H, Hr|].
  split; [apply prefix_b_spec; vm_compute; reflexivity|].
  split; [vm_compute; reflexivity|].
  intros H. apply nodata_true_b_spec in H. vm_compute in H. discriminate.
Qed.

(* the aggressive evaluator gets all four right (non-vacuity of the soundness theorem) *)
Example aggr_on_witnesses :
  aggr_nsec [[101]; [98]] 1 1 [[101]] w_set_ent = A_deny RC_NOERROR [0%nat] /\
  aggr_nsec [[101]; [115]; [120]] 1 1 [[101]] w_set_cut = A_err E_bad_deleg /\
  aggr_nsec [[101]; [120]] 1 1 [[101]] w_set_went = A_deny RC_NOERROR [1%nat; 0%nat] /\
  aggr_nsec [[101]; [115]] 1 1 [[101]] w_set_cut = A_err E_bad_deleg /\
  aggr_nsec [[101]; [116]] 1 1 [[101]] w_set_cut = A_deny RC_NXDOMAIN [1%nat; 0%nat].
Proof. vm_compute. repeat split; reflexivity. Qed.

(* the repaired verifiers refuse every one of the old witnesses *)
Example fixed_refuses_old_witnesses :
  verify_nameerror_nsec [[101]; [98]] w_set_ent = E_missing /\
  verify_nameerror_nsec [[101]; [115]; [120]] w_set_cut = E_bad_deleg /\
  verify_nameerror_nsec [[101]; [120]] w_set_went = E_missing /\
  verify_nodata_nsec [[101]; [115]] 1 w_set_cut = E_bad_deleg /\
  verify_nodata_nsec [[101]; [115]] T_DS w_set_cut = E_ok /\
  verify_nameerror_nsec [[101]; [116]] w_set_cut = E_ok.
Proof. vm_compute. repeat split; reflexivity. Qed.

(* ------------------------------------------------------------ Resolver.authority (NSEC branch) *)
From Sdns Require Import C02.ModelAuth.

(* whatever Resolver.authority authenticates (AD), publishes, or marks aggressive-eligible is a
   true denial of the zone; eligibility means the RFC 8198 classifier reached the SAME rcode *)
Theorem authority_nsec_sound_lemma z set rcode cd q qtype qclass signer ad marked aggr :
  zone_wf z -> (forall r, In r set -> genuine z r) -> is_prefix (z_apex z) q ->
  authority_nsec rcode cd q qtype qclass signer set = (E_ok, ad, marked, aggr) ->
  (ad = true \/ marked = true \/ aggr = true) ->
  cd = false /\
  (if (rcode =? RC_NXDOMAIN)%N then ~ exists_in z q else nodata_true z q qtype) /\
  (aggr = true -> exists proof, aggr_nsec q qtype qclass signer set = A_deny rcode proof).
Proof.
  intros Hwf Hgen Hq. unfold authority_nsec. destruct cd.
  - intros E. inversion E; subst. intros [H|[H|H]]; discriminate.
  - destruct (rcode =? RC_NXDOMAIN)%N eqn:Er.
    + destruct (verify_nameerror_nsec q set) eqn:Ev; try discriminate.
      intros E _. inversion E; subst. split; [reflexivity|]. split.
      * apply (exact_nameerror_nsec_sound z Hwf set Hgen q Hq Ev).
      * cbn. destruct (aggr_nsec q qtype qclass signer set) as [e|rc proof]; [discriminate|].
        intros Hrc. apply N.eqb_eq in Hrc. subst. eauto.
    + destruct (verify_nodata_nsec q qtype set) eqn:Ev; try discriminate.
      intros E _. inversion E; subst. split; [reflexivity|]. split.
      * apply (exact_nodata_nsec_sound z Hwf set Hgen q qtype Hq Ev).
      * cbn. destruct (aggr_nsec q qtype qclass signer set) as [e|rc proof]; [discriminate|].
        intros Hrc. apply N.eqb_eq in Hrc. subst. eauto.
Qed.
