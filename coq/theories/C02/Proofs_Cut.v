(* C02 — subtree-cut cache: what an accepted record guarantees, what a lookup
   answer guarantees, and the history theorem cut_cache_sound. *)
From Sdns Require Import Common.Base Gen.C02 C02.Model C02.ModelCut C02.Spec C02.Proofs_Order.
Open Scope Z_scope.

Lemma min_bounds_le_start l s : min_bounds s l <= s.
Proof. unfold min_bounds. revert s; induction l as [|a l IH]; intros s; cbn; [lia|]. specialize (IH (Z.min s a)). lia. Qed.
Lemma min_bounds_le_each l s b : In b l -> min_bounds s l <= b.
Proof.
  unfold min_bounds. revert s; induction l as [|a l IH]; intros s; cbn; [intros []|].
  intros [->|Hin]; [|apply IH, Hin]. pose proof (min_bounds_le_start l (Z.min s b)). unfold min_bounds in H. lia.
Qed.

(* an accepted record: NXDOMAIN, CD clear, a proper descendant of the signer zone, a proof that
   nxDomainCutProof accepted (no in-zone Opt-Out NSEC3, SOA of the question's class, every retained
   RRset signed by the zone), a lifetime within the configured maximum, every TTL bound of the
   proof and the delegation cut; it replaces only the entry with the same name and class *)
Theorem cut_record_sound maxttl now st m denied zone cu st' :
  cut_record maxttl now st m denied zone cu = Some st' ->
  cm_rcode m = 3%N /\ cm_cd m = false /\ denied <> zone /\ is_prefix zone denied /\
  existsb (fun p => f_nsec3 p && f_owner_in_zone p && f_optout p) (cm_proofs m) = false /\
  exists sclass sttl smin ssig bounds ttl,
    cm_soa m = Some (sclass, sttl, smin, ssig) /\ cm_qclass m = sclass /\ sig_counts sclass ssig = true /\
    cut_proof m = Some bounds /\
    0 < ttl /\ ttl <= maxttl /\ (forall b, In b bounds -> ttl <= b) /\
    (forall c, cu = Some c -> ttl <= c - now) /\
    st' = filter (fun e => negb (cut_key_eqb e denied sclass)) st ++ [(denied, sclass, now + ttl)].
Proof.
  unfold cut_record.
  destruct (negb (cm_rcode m =? 3)%N || cm_cd m) eqn:E1; [discriminate|].
  apply orb_false_iff in E1. destruct E1 as [E1 E1']. apply negb_false_iff, N.eqb_eq in E1.
  destruct denied as [|l d] eqn:Ed; [discriminate|]. rewrite <- Ed in *.
  destruct (rname_eqb denied zone || negb (prefix_b zone denied)) eqn:E2; [discriminate|].
  apply orb_false_iff in E2. destruct E2 as [E2 E2']. apply negb_false_iff, prefix_b_spec in E2'.
  assert (Hne : denied <> zone) by (intros ->; rewrite rname_eqb_refl in E2; discriminate).
  destruct (cut_proof m) as [bounds|] eqn:Ep; [|discriminate].
  set (ttl := min_bounds maxttl (bounds ++ match cu with Some c => [c - now] | None => [] end)).
  destruct (ttl <=? 0) eqn:Et; [discriminate|]. apply Z.leb_gt in Et.
  destruct (cm_soa m) as [[[[sclass sttl] smin] ssig]|] eqn:Es; [|discriminate].
  intros E. inversion E; subst st'. clear E.
  (* unfold what cut_proof checked *)
  pose proof Ep as Ep'. unfold cut_proof in Ep'. rewrite Es in Ep'.
  destruct (existsb (fun p => f_nsec3 p && f_owner_in_zone p && f_optout p) (cm_proofs m)) eqn:Eo; [discriminate|].
  destruct (negb (cm_qclass m =? sclass)%N) eqn:Ec; [discriminate|]. apply negb_false_iff, N.eqb_eq in Ec.
  destruct (negb _ && existsb _ _) in Ep'; [discriminate|].
  destruct (filter _ (filter _ (cm_proofs m))) as [|p0 ps]; [discriminate|].
  destruct (negb (sig_counts sclass ssig)) eqn:Esg; [discriminate|]. apply negb_false_iff in Esg.
  repeat split; auto.
  exists sclass, sttl, smin, ssig, bounds, ttl. repeat split; auto.
  - unfold ttl. apply min_bounds_le_start.
  - intros b Hb. unfold ttl. apply min_bounds_le_each. apply in_or_app. left. exact Hb.
  - intros c ->. unfold ttl. apply min_bounds_le_each. apply in_or_app. right. left. reflexivity.
Qed.

Lemma cut_walk_sound now st q qclass k d :
  cut_walk now st q qclass k = Some d ->
  exists j exp, (1 <= j <= k)%nat /\ d = firstn j q /\ In (d, qclass, exp) st /\ now < exp.
Proof.
  induction k as [|k IH]; cbn [cut_walk]; [discriminate|].
  destruct (find (fun e => cut_key_eqb e (firstn (S k) q) qclass) st) as [[[dn cl] exp]|] eqn:Ef.
  - apply find_some in Ef. destruct Ef as [Hin Hk]. unfold cut_key_eqb in Hk. cbn in Hk.
    apply andb_true_iff in Hk. destruct Hk as [Hk1 Hk2]. apply rname_eqb_spec in Hk1. apply N.eqb_eq in Hk2. subst dn cl.
    cbn [snd]. destruct (now <? exp) eqn:El.
    + intros E. inversion E; subst d. exists (S k), exp. apply Z.ltb_lt in El. repeat split; auto; lia.
    + intros E. destruct (IH E) as [j [exp' [Hj Hrest]]]. exists j, exp'. split; [lia | exact Hrest].
  - intros E. destruct (IH E) as [j [exp' [Hj Hrest]]]. exists j, exp'. split; [lia | exact Hrest].
Qed.

(* a lookup answer: never for CD=1; an ancestor-or-self of the question, not the root; an entry
   of exactly the question's class that has not reached its expiry *)
Theorem cut_lookup_sound now st q qclass cd d :
  cut_lookup now st q qclass cd = Some d ->
  cd = false /\ qclass <> 0%N /\ d <> [] /\ is_prefix d q /\ exists exp, In (d, qclass, exp) st /\ now < exp.
Proof.
  unfold cut_lookup. destruct cd; cbn; [discriminate|].
  destruct (qclass =? 0)%N eqn:Ec; [discriminate|]. apply N.eqb_neq in Ec. intros E.
  destruct (cut_walk_sound _ _ _ _ _ _ E) as [j [exp [Hj [-> [Hin Hlt]]]]].
  repeat split; auto.
  - intros En. apply (f_equal (@length _)) in En. rewrite firstn_length in En. cbn in En. lia.
  - apply is_prefix_firstn.
  - exists exp. auto.
Qed.

(* ---- histories: the state after any sequence of operations contains only entries that an
   earlier accepted record created (log), so a lookup answer always points at one of them *)
Fixpoint cut_exec (maxttl now : Z) (st log : list centry) (ops : list cutop) : Z * list centry * list centry :=
  match ops with
  | [] => (now, st, log)
  | OpRecord m denied zone cu _ :: t =>
      match cut_record maxttl now st m (canon denied) (canon zone) cu with
      | Some st' => cut_exec maxttl now st' (st' ++ log) t
      | None => cut_exec maxttl now st log t
      end
  | OpAdvance s :: t => cut_exec maxttl (now + s) st log t
  | OpPurge q qclass :: t => cut_exec maxttl now (cut_purge st (canon q) qclass) log t
  | OpLookup _ _ _ _ _ :: t => cut_exec maxttl now st log t
  end.

Lemma cut_exec_inv maxttl ops now st log now' st' log' :
  (forall e, In e st -> In e log) ->
  cut_exec maxttl now st log ops = (now', st', log') -> forall e, In e st' -> In e log'.
Proof.
  revert now st log. induction ops as [|op t IH]; intros now st log Hinv; cbn.
  - intros E. inversion E; subst. exact Hinv.
  - destruct op as [m denied zone cu ok|s|q qc cd f fw|q qc].
    + destruct (cut_record maxttl now st m (canon denied) (canon zone) cu) as [st1|] eqn:Er.
      * apply IH. intros e He. apply in_or_app. left. exact He.
      * apply IH. exact Hinv.
    + apply IH. exact Hinv.
    + apply IH. exact Hinv.
    + apply IH. intros e He. apply Hinv. unfold cut_purge in He. apply filter_In in He. tauto.
Qed.

(* every entry of the state, and of the log, was created by an accepted record *)
Definition created (maxttl : Z) (e : centry) : Prop :=
  exists now st m denied zone cu pre, cut_record maxttl now st m denied zone cu = Some (pre ++ [e]).

Lemma cut_record_created maxttl now st m denied zone cu st' :
  (forall e, In e st -> created maxttl e) ->
  cut_record maxttl now st m denied zone cu = Some st' -> forall e, In e st' -> created maxttl e.
Proof.
  intros Hst Hr. pose proof Hr as Hr'.
  destruct (cut_record_sound _ _ _ _ _ _ _ _ Hr) as (_ & _ & _ & _ & _ & sc & st_ & sm & sg & b & ttl & _ & _ & _ & _ & _ & _ & _ & _ & E).
  subst st'. intros e He. apply in_app_or in He. destruct He as [He|[<-|[]]].
  - apply Hst. apply filter_In in He. tauto.
  - exists now, st, m, denied, zone, cu, (filter (fun e => negb (cut_key_eqb e denied sc)) st). exact Hr'.
Qed.

Lemma cut_exec_created maxttl ops now st log now' st' log' :
  (forall e, In e st -> created maxttl e) -> (forall e, In e log -> created maxttl e) ->
  cut_exec maxttl now st log ops = (now', st', log') -> forall e, In e log' -> created maxttl e.
Proof.
  revert now st log. induction ops as [|op t IH]; intros now st log Hst Hlog; cbn.
  - intros E. inversion E; subst. exact Hlog.
  - destruct op as [m denied zone cu ok|s|q qc cd f fw|q qc].
    + destruct (cut_record maxttl now st m (canon denied) (canon zone) cu) as [st1|] eqn:Er.
      * pose proof (cut_record_created _ _ _ _ _ _ _ _ Hst Er) as Hc.
        apply IH; [exact Hc|]. intros e He. apply in_app_or in He. destruct He; [apply Hc | apply Hlog]; assumption.
      * apply IH; assumption.
    + apply IH; assumption.
    + apply IH; assumption.
    + apply IH; [|assumption]. intros e He. apply Hst. unfold cut_purge in He. apply filter_In in He. tauto.
Qed.

(* cut_cache_sound: for every history of records (accepted or refused), clock advances and
   lookups, a lookup at the current time answers with a cut only for CD=0, only with a
   non-root ancestor-or-self of the question, and only from an entry of the question's class
   that an accepted record created (so it has all the guarantees of cut_record_sound) and
   whose lifetime — the minimum of every TTL bound of that proof — has not run out *)
Theorem cut_cache_sound maxttl ops now st log q qclass cd d :
  cut_exec maxttl 0 [] [] ops = (now, st, log) ->
  cut_lookup now st q qclass cd = Some d ->
  cd = false /\ is_prefix d q /\ d <> [] /\
  exists exp, In (d, qclass, exp) log /\ now < exp /\ created maxttl (d, qclass, exp).
Proof.
  intros Hex Hl. destruct (cut_lookup_sound _ _ _ _ _ _ Hl) as [Hcd [_ [Hd [Hp [exp [Hin Hlt]]]]]].
  repeat split; auto. exists exp.
  assert (Hlog : In (d, qclass, exp) log) by (eapply cut_exec_inv; [|exact Hex|exact Hin]; intros e []).
  split; [exact Hlog|]. split; [exact Hlt|].
  eapply cut_exec_created; [| |exact Hex|exact Hlog]; intros e [].
Qed.

(* non-vacuity: a record is accepted, a descendant is answered from it until it expires *)
Example cut_example :
  let m := mk_cutmsg 3 false 1 (Some (1%N, 300, 600, Some (mk_csig true 1 300 300 86400)))
             [mk_cproof false true 1 900 true false (Some (mk_csig true 1 900 900 86400))] in
  let ops := [OpRecord m [[120]; [101]]%N [[101]]%N None true; OpAdvance 299] in
  exists st log, cut_exec 3600 0 [] [] ops = (299, st, log) /\
    cut_lookup 299 st [[101]; [120]; [97]]%N 1 false = Some [[101]; [120]]%N /\
    cut_lookup 300 st [[101]; [120]; [97]]%N 1 false = None /\
    cut_lookup 299 st [[101]; [120]; [97]]%N 1 true = None /\
    cut_lookup 299 st [[101]; [121]]%N 1 false = None.
Proof. cbn zeta. eexists. eexists. split; [vm_compute; reflexivity|]. vm_compute. repeat split; reflexivity. Qed.
